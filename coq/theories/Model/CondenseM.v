(* condensation (src/algo/mod.rs) over the view of a Graph: kosaraju_scc, one node per component holding
   the member weights in node-index order, every edge mapped to its components (edge_references order),
   with make_acyclic dropping loops and merging parallel edges through update_edge.  No proofs here. *)
From PG Require Import Lib.Io Model.View Model.Traversal Model.AlgoBasic.

Definition TAG_EL := 30.

Fixpoint comp_index (sccs : list (list nat)) (x : nat) (k : nat) : option nat :=
  match sccs with
  | [] => None
  | c :: rest => if mem x c then Some k else comp_index rest x (S k)
  end.

(* Graph::update_edge on an edge list (source, target, weight): the single existing edge between the
   two nodes (either orientation when undirected) gets the new weight, otherwise the edge is appended *)
Fixpoint update_edge_list (directed : bool) (es : list (nat * nat * Z)) (s t : nat) (w : Z) : list (nat * nat * Z) :=
  match es with
  | [] => [(s, t, w)]
  | (s', t', w') :: rest =>
      if orb (andb (Nat.eqb s' s) (Nat.eqb t' t)) (andb (negb directed) (andb (Nat.eqb s' t) (Nat.eqb t' s)))
      then (s', t', w) :: rest
      else (s', t', w') :: update_edge_list directed rest s t w
  end.

Definition condensation (v : view) (make_acyclic : bool) : res (list (list nat) * list (nat * nat * Z)) :=
  rbind (kosaraju_scc v) (fun sccs =>
    (* node_map = vec![end; node_count] indexed by node index: a member outside it would panic *)
    if negb (forallb (fun x => Nat.ltb x (length (vnodes v))) (concat sccs)) then Panic
    else
      let members := map (fun k => filter (fun x => match comp_index sccs x 0 with
                                                   | Some k' => Nat.eqb k k' | None => false end) (vnodes v))
                         (seq 0 (length sccs)) in
      let step := fun (acc : res (list (nat * nat * Z))) (e : nat * nat * nat * Z) =>
        let '(_, s, t, w) := e in
        rbind acc (fun es =>
          match comp_index sccs s 0, comp_index sccs t 0 with
          | Some cs, Some ct =>
              if make_acyclic
              then (if Nat.eqb cs ct then Ok es else Ok (update_edge_list (vdirected v) es cs ct w))
              else Ok (es ++ [(cs, ct, w)])
          | _, _ => Panic      (* node_map entry still end(): indexing the condensed graph panics *)
          end) in
      rmap (fun es => (members, es)) (fold_left step (verefs v) (Ok []))).

Definition cond_query (v : view) (o : line) : list line :=
  match condensation v (Nat.eqb (arg (snd o) 0) 1) with
  | Ok (ms, es) =>
      (TAG_NAT, [zn (length ms)]) :: map (fun c => (TAG_COMP, zns c)) ms ++
      [(TAG_EL, flat_map (fun '(s, t, w) => [zn s; zn t; w]) es)]
  | Panic => [(TAG_PANIC, [])]
  | OutOfFuel => [(TAG_FUEL, [])]
  end.
