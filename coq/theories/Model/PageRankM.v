(* C20: page_rank (src/algo/page_rank.rs) over a view, in exact rational arithmetic.
   The code is generic in the float type; this mirror replaces the float operations by the field
   operations of Q, keeping every formula, the addressing of nodes as from_index(0..node_count())
   and the order of the sums.  A zero normalising sum ends the iteration with the ranks as they are
   (the `break` of the fix: commit; before it the code divided 0 by 0).
   No proofs in this file. *)
From Coq Require Import QArith.
From PG Require Import Lib.Io Model.View.
Local Open Scope Q_scope.

Definition qsum (l : list Q) : Q := fold_left Qplus l 0.

(* w_out_edges.any(|e| e.target() == nodeix(v)) *)
Definition links (v : view) (w x : nat) : bool := existsb (fun e => Nat.eqb (tgt e) x) (out_edges v w).
(* graph.edges(nodeix(i)).map(|_| D::one()).sum() *)
Definition out_deg (v : view) (w : nat) : Q := inject_Z (Z.of_nat (length (out_edges v w))).

Definition pr_term (d nb : Q) (linked : bool) (deg r : Q) : Q :=
  if linked then d * r / deg
  else if Qeq_bool deg 0 then d * r / nb
  else (1 - d) * r / nb.

Definition pr_pi (v : view) (n : nat) (d : Q) (ranks : list Q) : list Q :=
  let nb := inject_Z (Z.of_nat n) in
  map (fun x => qsum (map (fun wr => pr_term d nb (links v (fst wr) x) (out_deg v (fst wr)) (snd wr))
                          (combine (seq 0 n) ranks)))
      (seq 0 n).

Definition pr_step (v : view) (n : nat) (d : Q) (ranks : list Q) : option (list Q) :=
  let pi := pr_pi v n d ranks in
  let s := qsum pi in
  if Qeq_bool s 0 then None else Some (map (fun r => Qred (r / s)) pi).

(* pr_step = None: the normalising sum is zero *)
Fixpoint pr_iter (v : view) (n : nat) (d : Q) (k : nat) (ranks : list Q) : list Q :=
  match k with
  | O => ranks
  | S k' => match pr_step v n d ranks with
            | Some r' => pr_iter v n d k' r'
            | None => ranks
            end
  end.

(* The assert on the damping factor is the caller's business (d in [0, 1]). *)
Definition page_rank_q (v : view) (d : Q) (iters : nat) : list Q :=
  let n := vnode_count v in
  match n with
  | O => []
  | _ => pr_iter v n d iters (repeat (1 / inject_Z (Z.of_nat n)) n)
  end.

(* The same computation with every partial sum reduced to lowest terms: what the differential run
   executes (without it the denominators of a 7-node sum have thousands of bits).  Qred is the
   identity up to Qeq, so this is pointwise Qeq to page_rank_q (Proofs/PageRankP.v). *)
Definition qsum_r (l : list Q) : Q := fold_left (fun a x => Qred (a + x)) l 0.
Definition pr_pi_r (v : view) (n : nat) (d : Q) (ranks : list Q) : list Q :=
  let nb := inject_Z (Z.of_nat n) in
  map (fun x => qsum_r (map (fun wr => pr_term d nb (links v (fst wr) x) (out_deg v (fst wr)) (snd wr))
                            (combine (seq 0 n) ranks)))
      (seq 0 n).
Definition pr_step_r (v : view) (n : nat) (d : Q) (ranks : list Q) : option (list Q) :=
  let pi := pr_pi_r v n d ranks in
  let s := qsum_r pi in
  if Qeq_bool s 0 then None else Some (map (fun r => Qred (r / s)) pi).
Fixpoint pr_iter_r (v : view) (n : nat) (d : Q) (k : nat) (ranks : list Q) : list Q :=
  match k with
  | O => ranks
  | S k' => match pr_step_r v n d ranks with
            | Some r' => pr_iter_r v n d k' r'
            | None => ranks
            end
  end.
Definition page_rank_qr (v : view) (d : Q) (iters : nat) : list Q :=
  let n := vnode_count v in
  match n with
  | O => []
  | _ => pr_iter_r v n d iters (repeat (1 / inject_Z (Z.of_nat n)) n)
  end.

(* round(q * 10^9), half up *)
Definition scale9 (q : Q) : Z :=
  ((2 * Qnum q * 1000000000 + Zpos (Qden q)) / (2 * Zpos (Qden q)))%Z.

Definition TAG_SCORES := 46%nat.

(* prank dnum dden iters *)
Definition prank_query (v : view) (o : line) : list line :=
  let a := snd o in
  let d := Qmake (argz a 0) (Z.to_pos (argz a 1)) in
  [(TAG_SCORES, map scale9 (page_rank_qr v d (arg a 2)))].
