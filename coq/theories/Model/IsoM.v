(* C13: the definition of (sub)graph isomorphism as an executable exhaustive search, used as the
   reference for petgraph's VF2 functions (src/algo/isomorphism.rs).  Graphs are simple (self-loops
   allowed): n nodes 0..n-1 with weights, a list of weighted edges.  No proofs in this file. *)
From PG Require Import Lib.Io.

Record sgraph6 := mkSg {
  s_dir : bool;
  s_nw : list Z;                       (* node weights; the order is the node count *)
  s_es : list (nat * nat * Z)          (* (source, target, weight) *)
}.
Definition s_n (g : sgraph6) : nat := length (s_nw g).

(* the weight of the edge a -> b (either orientation when undirected), if any *)
Fixpoint edge_w (dir : bool) (es : list (nat * nat * Z)) (a b : nat) : option Z :=
  match es with
  | [] => None
  | (s, t, w) :: rest =>
      if orb (andb (Nat.eqb s a) (Nat.eqb t b)) (andb (negb dir) (andb (Nat.eqb s b) (Nat.eqb t a)))
      then Some w else edge_w dir rest a b
  end.
Definition adjb (g : sgraph6) (a b : nat) : bool :=
  match edge_w (s_dir g) (s_es g) a b with Some _ => true | None => false end.

(* all injective maps from {0..k-1} into the candidates, as image lists, in lexicographic order *)
Fixpoint remove_nat (x : nat) (l : list nat) : list nat :=
  match l with [] => [] | h :: t => if Nat.eqb h x then t else h :: remove_nat x t end.
Fixpoint injections (k : nat) (cands : list nat) : list (list nat) :=
  match k with
  | 0 => [[]]
  | S k' => flat_map (fun c => map (cons c) (injections k' (remove_nat c cands))) cands
  end.

(* the semantic predicates of the harness: a node pair matches when the weights agree modulo nm (nm = 0: always);
   an edge pair matches when the weights agree modulo em (em = 0: always) *)
Definition wmatch (m : Z) (x y : Z) : bool :=
  if Z.eqb m 0 then true else Z.eqb (Z.modulo x m) (Z.modulo y m).

(* m (a list: image of node i at position i) maps g0 into g1 preserving adjacency AND non-adjacency on all
   ordered pairs of g0's nodes, and the semantic predicates on every matched node and edge *)
Definition valid_map (nm em : Z) (g0 g1 : sgraph6) (m : list nat) : bool :=
  let n0 := s_n g0 in
  let img := fun a => nth a m 0 in
  andb (forallb (fun a => wmatch nm (nth a (s_nw g0) 0%Z) (nth (img a) (s_nw g1) 0%Z)) (seq 0 n0))
       (forallb (fun a => forallb (fun b =>
          match edge_w (s_dir g0) (s_es g0) a b, edge_w (s_dir g1) (s_es g1) (img a) (img b) with
          | Some w0, Some w1 => wmatch em w0 w1
          | None, None => true
          | _, _ => false
          end) (seq 0 n0)) (seq 0 n0)).

Definition sub_isos (nm em : Z) (g0 g1 : sgraph6) : list (list nat) :=
  filter (valid_map nm em g0 g1) (injections (s_n g0) (seq 0 (s_n g1))).

Definition is_iso (nm em : Z) (g0 g1 : sgraph6) : bool :=
  andb (Nat.eqb (s_n g0) (s_n g1))
       (match sub_isos nm em g0 g1 with [] => false | _ => true end).
Definition is_sub_iso (nm em : Z) (g0 g1 : sgraph6) : bool :=
  match sub_isos nm em g0 g1 with [] => false | _ => true end.

(* ---- line grammar ----
   header = [directed; debug]
   ops: 0 n0 w* | 1 e0 (s t w)* | 2 n1 w* | 3 e1 (s t w)*
   queries: 10 iso | 11 iso_matching nm em | 12 sub | 13 sub_matching nm em | 14 sub_iter nm em *)
Fixpoint triples_of (l : list Z) : list (nat * nat * Z) :=
  match l with s :: t :: w :: rest => (nz s, nz t, w) :: triples_of rest | _ => [] end.

Definition TAG_BOOL := 0. Definition TAG_PANIC := 2. Definition TAG_NAT := 11. Definition TAG_ROW := 6. Definition TAG_NONE := 13.

Definition iso_query (g0 g1 : sgraph6) (o : line) : list line :=
  let '(code, a) := o in
  match code with
  | 10 => [(TAG_BOOL, [zb (is_iso 0 0 g0 g1)])]
  | 11 => [(TAG_BOOL, [zb (is_iso (argz a 0) (argz a 1) g0 g1)])]
  | 12 => [(TAG_BOOL, [zb (is_sub_iso 0 0 g0 g1)])]
  | 13 => [(TAG_BOOL, [zb (is_sub_iso (argz a 0) (argz a 1) g0 g1)])]
  | 14 => let l := sub_isos (argz a 0) (argz a 1) g0 g1 in
          (TAG_NAT, [zn (length l)]) :: map (fun m => (TAG_ROW, zns m)) l
  | _ => [(TAG_PANIC, [])]
  end.

Fixpoint run (g0 g1 : sgraph6) (ops : list line) : list (list line) :=
  match ops with
  | [] => []
  | (code, a) :: rest =>
      match code with
      | 0 => [] :: run (mkSg (s_dir g0) a (s_es g0)) g1 rest
      | 1 => [] :: run (mkSg (s_dir g0) (s_nw g0) (triples_of a)) g1 rest
      | 2 => [] :: run g0 (mkSg (s_dir g1) a (s_es g1)) rest
      | 3 => [] :: run g0 (mkSg (s_dir g1) (s_nw g1) (triples_of a)) rest
      | _ => iso_query g0 g1 (code, a) :: run g0 g1 rest
      end
  end.

Definition run_case (header : list Z) (ops : list line) : list (list line) :=
  let d := Z.eqb (argz header 0) 1 in
  run (mkSg d [] []) (mkSg d [] []) ops.
