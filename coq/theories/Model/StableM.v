(* Executable mirror of /repo/src/graph_impl/stable_graph/mod.rs (StableGraph) on top of
   the Graph model with Option weights.  The free lists are threaded through the same
   `next` fields as the adjacency lists, as in the code.  No proofs in this file. *)
From PG Require Import Lib.Io Model.GraphM.

Definition IG := graph (option nat) (option nat).
Definition inode := node (option nat).
Definition iedge := edge (option nat).

Record sgraph := mkSG {
  sg : IG;
  ncount : nat;
  ecount : nat;
  free_node : nat;
  free_edge : nat
}.

Section S.
  Variable cap : nat.
  Variable capcheck : bool.
  Variable debug : bool.

  Definition sg_empty : sgraph := mkSG g_empty 0 0 cap cap.

  Definition with_g (s : sgraph) (g : IG) : sgraph := mkSG g (ncount s) (ecount s) (free_node s) (free_edge s).

  Definition get_node (s : sgraph) (a : nat) : option inode :=
    match nth_error (gnodes (sg s)) a with
    | Some n => match nwt n with Some _ => Some n | None => None end
    | None => None
    end.
  Definition contains_node (s : sgraph) (a : nat) : bool :=
    match get_node s a with Some _ => true | None => false end.

  Definition upd_node (g : IG) (i : nat) (f : inode -> inode) : res IG :=
    match nth_error (gnodes g) i with
    | None => Panic
    | Some n => Ok (mkGraph (upd (gnodes g) i (f n)) (gedges g))
    end.
  Definition upd_edge (g : IG) (i : nat) (f : iedge -> iedge) : res IG :=
    match nth_error (gedges g) i with
    | None => Panic
    | Some e => Ok (mkGraph (gnodes g) (upd (gedges g) i (f e)))
    end.

  (* occupy_vacant_node *)
  Definition occupy_vacant_node (s : sgraph) (idx w : nat) : res sgraph :=
    match nth_error (gnodes (sg s)) idx with
    | None => Panic
    | Some slot =>
        if andb debug (match nwt slot with Some _ => true | None => false end) then Panic else
        let prev := snd (nnext slot) in
        let nxt := fst (nnext slot) in
        rbind (upd_node (sg s) idx (fun _ => mkNode (Some w) (cap, cap))) (fun g1 =>
        rbind (if Nat.eqb prev cap then Ok g1
               else upd_node g1 prev (fun n => set_nnext n (nxt, snd (nnext n)))) (fun g2 =>
        rbind (if Nat.eqb nxt cap then Ok g2
               else upd_node g2 nxt (fun n => set_nnext n (fst (nnext n), prev))) (fun g3 =>
          Ok (mkSG g3 (S (ncount s)) (ecount s)
                   (if Nat.eqb (free_node s) idx then nxt else free_node s) (free_edge s)))))
    end.

  (* try_add_node (after the fix in /repo: node_count is incremented only when the push succeeded) *)
  Definition s_try_add_node (s : sgraph) (w : nat) : res ((gerr + nat) * sgraph) :=
    if negb (Nat.eqb (free_node s) cap)
    then rmap (fun s' => (inr (free_node s), s')) (occupy_vacant_node s (free_node s) w)
    else match try_add_node cap capcheck (sg s) (Some w) with
         | (inr i, g') => Ok (inr i, mkSG g' (S (ncount s)) (ecount s) (free_node s) (free_edge s))
         | (inl e, _) => Ok (inl e, s)
         end.

  (* add_vacant_node(&mut free): g.add_node(None) panics at the limit *)
  Definition add_vacant_node (g : IG) (free : nat) : res (IG * nat) :=
    match try_add_node cap capcheck g None with
    | (inl _, _) => Panic
    | (inr idx, g1) =>
        rbind (upd_node g1 idx (fun n => set_nnext n (free, cap))) (fun g2 =>
        rbind (if Nat.eqb free cap then Ok g2
               else upd_node g2 free (fun n => set_nnext n (fst (nnext n), idx))) (fun g3 =>
          Ok (g3, idx)))
    end.

  (* remove_edge *)
  Definition s_remove_edge (s : sgraph) (e : nat) : res (option nat * sgraph) :=
    match nth_error (gedges (sg s)) e with
    | None => Ok (None, s)
    | Some ed =>
        match ewt ed with
        | None => Ok (None, s)
        | Some w =>
            rbind (change_edge_links debug (sg s) (enode ed) e (enext ed)) (fun g1 =>
            rbind (upd_edge g1 e (fun _ => mkEdge None (free_edge s, cap) (cap, cap))) (fun g2 =>
              Ok (Some w, mkSG g2 (ncount s) (ecount s - 1) (free_node s) e)))
        end
    end.

  Fixpoint s_drain_dir (fuel : nat) (s : sgraph) (a k : nat) : res sgraph :=
    match fuel with
    | 0 => OutOfFuel
    | S f =>
        match nth_error (gnodes (sg s)) a with
        | None => Panic
        | Some n =>
            let nx := sel (nnext n) k in
            if Nat.eqb nx cap then Ok s
            else rbind (s_remove_edge s nx) (fun '(r, s1) =>
                   match r with
                   | None => if debug then Panic else s_drain_dir f s1 a k
                   | Some _ => s_drain_dir f s1 a k
                   end)
        end
    end.

  Definition s_remove_node (s : sgraph) (a : nat) : res (option nat * sgraph) :=
    match nth_error (gnodes (sg s)) a with
    | None => Ok (None, s)
    | Some n =>
        match nwt n with
        | None => Ok (None, s)
        | Some w =>
            (* weight.take() first *)
            rbind (upd_node (sg s) a (fun n => mkNode None (nnext n))) (fun g0 =>
            let s0 := with_g s g0 in
            rbind (s_drain_dir (S (length (gedges g0))) s0 a 0) (fun s1 =>
            rbind (s_drain_dir (S (length (gedges g0))) s1 a 1) (fun s2 =>
            rbind (upd_node (sg s2) a (fun n => set_nnext n (free_node s2, cap))) (fun g3 =>
            rbind (if Nat.eqb (free_node s2) cap then Ok g3
                   else upd_node g3 (free_node s2) (fun n => set_nnext n (fst (nnext n), a))) (fun g4 =>
              Ok (Some w, mkSG g4 (ncount s2 - 1) (ecount s2) a (free_edge s2)))))))
        end
    end.

  (* which endpoint is wrong, as index_twice + the vacancy tests report it *)
  Definition wrong_index (g : IG) (a b : nat) : option nat :=
    if Nat.leb (length (gnodes g)) (Nat.max a b) then Some (Nat.max a b)
    else match nth_error (gnodes g) a, nth_error (gnodes g) b with
         | Some an, Some bn =>
             match nwt an with
             | None => Some a
             | Some _ => if Nat.eqb a b then None
                         else match nwt bn with None => Some b | Some _ => None end
             end
         | _, _ => Some (Nat.max a b)
         end.

  (* link edge eidx (already stored with node = (a,b)) at the heads of a's out list and b's in list *)
  Definition link_edge (g : IG) (eidx a b : nat) : res IG :=
    match nth_error (gnodes g) a, nth_error (gnodes g) b with
    | Some an, Some bn =>
        if Nat.eqb a b then
          rbind (upd_edge g eidx (fun e => set_enext e (nnext an))) (fun g1 =>
            upd_node g1 a (fun n => set_nnext n (eidx, eidx)))
        else
          rbind (upd_edge g eidx (fun e => set_enext e (fst (nnext an), snd (nnext bn)))) (fun g1 =>
          rbind (upd_node g1 a (fun n => set_nnext n (eidx, snd (nnext n)))) (fun g2 =>
            upd_node g2 b (fun n => set_nnext n (fst (nnext n), eidx))))
    | _, _ => Panic
    end.

  (* try_add_edge (after the fix in /repo: with a free slot available the endpoints are
     validated before the slot is taken) *)
  Definition s_try_add_edge (s : sgraph) (a b w : nat) : res ((gerr + nat) * sgraph) :=
    if negb (Nat.eqb (free_edge s) cap) then
      match wrong_index (sg s) a b with
      | Some i => Ok (inl (NodeMissed i), s)
      | None =>
          let eidx := free_edge s in
          match nth_error (gedges (sg s)) eidx with
          | None => Panic
          | Some ed =>
              if andb debug (match ewt ed with Some _ => true | None => false end) then Panic else
              rbind (upd_edge (sg s) eidx (fun e => mkEdge (Some w) (enext e) (a, b))) (fun g1 =>
              rbind (link_edge g1 eidx a b) (fun g2 =>
                Ok (inr eidx, mkSG g2 (ncount s) (S (ecount s)) (free_node s) (fst (enext ed)))))
          end
      end
    else
      let eidx := length (gedges (sg s)) in
      if andb capcheck (Nat.eqb eidx cap) then Ok (inl EdgeIxLimit, s)
      else match wrong_index (sg s) a b with
           | Some i => Ok (inl (NodeMissed i), s)
           | None =>
               let g1 := mkGraph (gnodes (sg s)) (gedges (sg s) ++ [mkEdge (Some w) (cap, cap) (a, b)]) in
               rbind (link_edge g1 eidx a b) (fun g2 =>
                 Ok (inr eidx, mkSG g2 (ncount s) (S (ecount s)) (free_node s) (free_edge s)))
           end.

  Definition s_find_edge_undirected (s : sgraph) (a b : nat) : res (option (nat * nat)) :=
    match get_node s a with
    | None => Ok None
    | Some _ => find_edge_undirected (sg s) a b
    end.
  Definition s_find_edge (directed : bool) (s : sgraph) (a b : nat) : res (option nat) :=
    match get_node s a with
    | None => Ok None
    | Some _ => find_edge directed (sg s) a b
    end.

  Definition s_try_update_edge (directed : bool) (s : sgraph) (a b w : nat) : res ((gerr + nat) * sgraph) :=
    rbind (s_find_edge directed s a b) (fun o =>
      match o with
      | Some ix =>
          (* self[ix] = weight : IndexMut panics on a vacant or missing edge *)
          match nth_error (gedges (sg s)) ix with
          | Some ed => match ewt ed with
                       | Some _ => rmap (fun g' => (inr ix, with_g s g'))
                                        (upd_edge (sg s) ix (fun e => mkEdge (Some w) (enext e) (enode e)))
                       | None => Panic
                       end
          | None => Panic
          end
      | None => s_try_add_edge s a b w
      end).

  (* reverse (after the fix in /repo: vacant slots keep their free-list links) *)
  Definition s_reverse (s : sgraph) : sgraph :=
    with_g s (mkGraph
      (map (fun n => match nwt n with Some _ => set_nnext n (swapp (nnext n)) | None => n end) (gnodes (sg s)))
      (map (fun e => match ewt e with
                     | Some _ => mkEdge (ewt e) (swapp (enext e)) (swapp (enode e))
                     | None => e end) (gedges (sg s)))).

  Definition s_clear_edges (s : sgraph) : sgraph :=
    mkSG (mkGraph (map (fun n => match nwt n with Some _ => set_nnext n (cap, cap) | None => n end) (gnodes (sg s))) [])
         (ncount s) 0 (free_node s) cap.

  (* node_bound / edge_bound: index of the last live slot + 1 *)
  Fixpoint last_live {A} (l : list (option A)) (i acc : nat) : nat :=
    match l with
    | [] => acc
    | Some _ :: t => last_live t (S i) (S i)
    | None :: t => last_live t (S i) acc
    end.
  Definition node_bound (s : sgraph) : nat := last_live (map (@nwt _) (gnodes (sg s))) 0 0.
  Definition edge_bound (s : sgraph) : nat := last_live (map (@ewt _) (gedges (sg s))) 0 0.

  (* check_free_lists (debug builds only): true = consistent *)
  Fixpoint free_node_walk (fuel : nat) (g : IG) (cur prev len : nat) : option nat :=
    match fuel with
    | 0 => None
    | S f =>
        if Nat.eqb cur cap then Some len
        else match nth_error (gnodes g) cur with
             | Some n => match nwt n with
                         | None => if Nat.eqb (snd (nnext n)) prev
                                   then free_node_walk f g (fst (nnext n)) cur (S len) else None
                         | Some _ => None
                         end
             | None => None
             end
    end.
  Fixpoint free_edge_walk (fuel : nat) (g : IG) (cur len : nat) : option nat :=
    match fuel with
    | 0 => None
    | S f =>
        if Nat.eqb cur cap then Some len
        else match nth_error (gedges g) cur with
             | Some e => match ewt e with
                         | None => free_edge_walk f g (fst (enext e)) (S len)
                         | Some _ => None
                         end
             | None => None
             end
    end.
  Definition check_free_lists (s : sgraph) : bool :=
    match free_node_walk (S (length (gnodes (sg s)))) (sg s) (free_node s) cap 0,
          free_edge_walk (S (length (gedges (sg s)))) (sg s) (free_edge s) 0 with
    | Some nl, Some el =>
        andb (Nat.eqb (ncount s + nl) (length (gnodes (sg s))))
             (Nat.eqb (ecount s + el) (length (gedges (sg s))))
    | _, _ => false
    end.
  Definition checked (s : sgraph) : res sgraph :=
    if andb debug (negb (check_free_lists s)) then Panic else Ok s.

  Fixpoint s_retain_nodes_loop (keep : nat -> bool) (s : sgraph) (i todo : nat) : res sgraph :=
    match todo with
    | 0 => Ok s
    | S t =>
        match get_node s i with
        | Some n =>
            match nwt n with
            | Some w => if keep w then s_retain_nodes_loop keep s (S i) t
                        else rbind (s_remove_node s i) (fun '(_, s1) => s_retain_nodes_loop keep s1 (S i) t)
            | None => s_retain_nodes_loop keep s (S i) t
            end
        | None => s_retain_nodes_loop keep s (S i) t
        end
    end.
  Definition s_retain_nodes (keep : nat -> bool) (s : sgraph) : res sgraph :=
    rbind (s_retain_nodes_loop keep s 0 (node_bound s)) checked.

  Fixpoint s_retain_edges_loop (keep : nat -> bool) (s : sgraph) (i todo : nat) : res sgraph :=
    match todo with
    | 0 => Ok s
    | S t =>
        match nth_error (gedges (sg s)) i with
        | Some ed =>
            match ewt ed with
            | Some w => if keep w then s_retain_edges_loop keep s (S i) t
                        else rbind (s_remove_edge s i) (fun '(_, s1) => s_retain_edges_loop keep s1 (S i) t)
            | None => s_retain_edges_loop keep s (S i) t
            end
        | None => s_retain_edges_loop keep s (S i) t
        end
    end.
  Definition s_retain_edges (keep : nat -> bool) (s : sgraph) : res sgraph :=
    rbind (s_retain_edges_loop keep s 0 (edge_bound s)) checked.

  (* ensure_node_exists.  The padding loop pushes one vacant slot per iteration; g.add_node(None)
     panics when the vector already has cap entries, and every slot pushed by the earlier iterations
     stays in the graph (at the head of the free list).  So the state reached is returned together
     with the result, as in GraphM.add_nodes_until. *)
  Fixpoint add_vacant_until (fuel : nat) (s : sgraph) (ix : nat) : res unit * sgraph :=
    match fuel with
    | 0 => (OutOfFuel, s)
    | S f =>
        if Nat.ltb ix (length (gnodes (sg s))) then (Ok tt, s)
        else match add_vacant_node (sg s) (free_node s) with
             | Ok (g', fr) => add_vacant_until f (mkSG g' (ncount s) (ecount s) fr (free_edge s)) ix
             | Panic => (Panic, s)
             | OutOfFuel => (OutOfFuel, s)
             end
    end.
  (* (Ok tt, s') = done; (Panic, s') = panicked, s' is what is left behind *)
  Definition ensure_node_exists (s : sgraph) (ix : nat) : res unit * sgraph :=
    match get_node s ix with
    | Some _ => (Ok tt, s)
    | None =>
        match add_vacant_until (S (S ix)) s ix with
        | (Ok _, s1) =>
            match occupy_vacant_node s1 ix 0 with
            | Ok s2 => (Ok tt, s2)
            | Panic => (Panic, s1)
            | OutOfFuel => (OutOfFuel, s1)
            end
        | (r, s1) => (r, s1)
        end
    end.

  (* extend_with_edges: (false, s') = panicked part-way, s' is what is left behind *)
  Fixpoint s_extend_with_edges (s : sgraph) (es : list (nat * nat * nat)) : bool * sgraph :=
    match es with
    | [] => (true, s)
    | (a, b, w) :: rest =>
        match ensure_node_exists s a with
        | (Ok _, s1) =>
            match ensure_node_exists s1 b with
            | (Ok _, s2) =>
                match s_try_add_edge s2 a b w with
                | Ok (inr _, s3) => s_extend_with_edges s3 rest
                | Ok (inl _, s3) => (false, s3)
                | _ => (false, s2)
                end
            | (_, s2) => (false, s2)
            end
        | (_, s1) => (false, s1)
        end
    end.

  (* filter_map: same indices; filtered or vacant slots become vacant; trailing vacancies are dropped *)
  Fixpoint fm_nodes (nmap : nat -> option nat) (ns : list inode) (todo : nat) (r : sgraph) (free : nat)
    : res (sgraph * nat) :=
    match todo, ns with
    | 0, _ | _, [] => Ok (r, free)
    | S t, n :: rest =>
        match match nwt n with Some w => nmap w | None => None end with
        | Some w2 =>
            rbind (s_try_add_node r w2) (fun '(x, r') =>
              match x with inl _ => Panic | inr _ => fm_nodes nmap rest t r' free end)
        | None =>
            rbind (add_vacant_node (sg r) free) (fun '(g', fr) => fm_nodes nmap rest t (with_g r g') fr)
        end
    end.

  Definition add_vacant_edge (g : IG) (free : nat) : IG * nat :=
    (mkGraph (gnodes g) (gedges g ++ [mkEdge None (free, cap) (cap, cap)]), length (gedges g)).

  Fixpoint fm_edges (emap : nat -> option nat) (es : list iedge) (todo : nat) (r : sgraph) (free : nat)
    : res (sgraph * nat) :=
    match todo, es with
    | 0, _ | _, [] => Ok (r, free)
    | S t, e :: rest =>
        let keep := match ewt e with
                    | Some w => if andb (contains_node r (fst (enode e))) (contains_node r (snd (enode e)))
                                then emap w else None
                    | None => None end in
        match keep with
        | Some w2 =>
            rbind (s_try_add_edge r (fst (enode e)) (snd (enode e)) w2) (fun '(x, r') =>
              match x with inl _ => Panic | inr _ => fm_edges emap rest t r' free end)
        | None =>
            if andb debug (andb capcheck (Nat.eqb (length (gedges (sg r))) cap)) then Panic else
            let '(g', fr) := add_vacant_edge (sg r) free in fm_edges emap rest t (with_g r g') fr
        end
    end.

  Definition s_filter_map (nmap emap : nat -> option nat) (s : sgraph) : res sgraph :=
    rbind (fm_nodes nmap (gnodes (sg s)) (node_bound s) sg_empty cap) (fun '(r1, fn) =>
    rbind (fm_edges emap (gedges (sg s)) (edge_bound s) r1 cap) (fun '(r2, fe) =>
      checked (mkSG (sg r2) (ncount r2) (ecount r2) fn fe))).

  Definition s_map (f : nat -> nat) (s : sgraph) : sgraph :=
    with_g s (mkGraph (map (fun n => mkNode (option_map f (nwt n)) (nnext n)) (gnodes (sg s)))
                      (map (fun e => mkEdge (option_map f (ewt e)) (enext e) (enode e)) (gedges (sg s)))).

  (* From<StableGraph> for Graph: compact renumbering; add_node/add_edge may panic at the limits *)
  Fixpoint to_graph_nodes (ns : list inode) (g : graph nat nat) (imap : list nat) : option (graph nat nat * list nat) :=
    match ns with
    | [] => Some (g, imap)
    | n :: rest =>
        match nwt n with
        | None => to_graph_nodes rest g (imap ++ [cap])
        | Some w => match try_add_node cap capcheck g w with
                    | (inr j, g') => to_graph_nodes rest g' (imap ++ [j])
                    | (inl _, _) => None
                    end
        end
    end.
  Fixpoint to_graph_edges (es : list iedge) (imap : list nat) (g : graph nat nat) : option (graph nat nat) :=
    match es with
    | [] => Some g
    | e :: rest =>
        match ewt e with
        | None => to_graph_edges rest imap g
        | Some w =>
            match nth_error imap (fst (enode e)), nth_error imap (snd (enode e)) with
            | Some s', Some t' =>
                if andb debug (orb (Nat.eqb s' cap) (Nat.eqb t' cap)) then None else
                match try_add_edge cap capcheck g s' t' w with
                | (inr _, g') => to_graph_edges rest imap g'
                | (inl _, _) => None
                end
            | _, _ => None
            end
        end
    end.
  Definition to_graph (s : sgraph) : option (graph nat nat) :=
    match to_graph_nodes (firstn (node_bound s) (gnodes (sg s))) g_empty [] with
    | None => None
    | Some (g, imap) =>
        (* node_index_map has node_bound entries; slots beyond it are vacant and never indexed by a live edge *)
        to_graph_edges (gedges (sg s)) imap g
    end.

  (* From<Graph> for StableGraph *)
  Definition from_graph (g : graph nat nat) : sgraph :=
    mkSG (mkGraph (map (fun n => mkNode (Some (nwt n)) (nnext n)) (gnodes g))
                  (map (fun e => mkEdge (Some (ewt e)) (enext e) (enode e)) (gedges g)))
         (length (gnodes g)) (length (gedges g)) cap cap.
End S.
