(* C17, non-vacuity: a reachable StableGraph with two node vacancies and one interior edge vacancy,
   its wire value, the reloaded graph and their observable content; one rejected wire value per
   error kind; the full-graph boundary on a concrete graph. *)
From PG Require Import Lib.ListArr Model.GraphM Model.StableM Model.StableIO Model.SerdeM
  Spec.SerdeSpec Proofs.GraphP Proofs.StableP Proofs.StableT Proofs.StableH.

Definition ex_ops : list sop :=
  [OAddNode 10; OAddNode 11; OAddNode 12; OAddNode 13; OAddNode 14;
   OAddEdge 0 2 100; OAddEdge 0 4 101; OAddEdge 4 4 102; OAddEdge 2 4 103;
   ORemoveNode 1; ORemoveNode 3; ORemoveEdge 0; OAddEdge 0 2 104; ORemoveEdge 2].

Definition ex_wire : wire :=
  mkWire [10; 12; 14] [1; 3] true [Some (0, 2, 104); Some (0, 4, 101); None; Some (2, 4, 103)].

Definition obs (s : sgraph) :=
  (live_nodes s, live_edges s, (ncount s, ecount s, node_bound s, edge_bound s),
   (map (@nwt _) (gnodes (sg s)), map (@ewt _) (gedges (sg s)))).

Definition out_list (s : sgraph) (i : nat) : res (list nat) :=
  match nth_error (gnodes (sg s)) i with
  | Some n => chain (fuel_of (sg s)) (gedges (sg s)) (fst (nnext n)) 0
  | None => Ok []
  end.

Lemma ex_roundtrip :
  exists s s',
    srun 8 true true (sg_empty 8) ex_ops = Ok s /\ SInv 8 s /\
    map (@nwt _) (gnodes (sg s)) = [Some 10; None; Some 12; None; Some 14] /\
    map (@ewt _) (gedges (sg s)) = [Some 104; Some 101; None; Some 103] /\
    ser_stable true s = ex_wire /\
    deser_stable 8 true true ex_wire = Ok (Some s') /\
    obs s' = obs s /\
    obs s = ([(0, 10); (2, 12); (4, 14)],
             [(0, (0, 2), 104); (1, (0, 4), 101); (3, (2, 4), 103)],
             (3, 3, 5, 4),
             ([Some 10; None; Some 12; None; Some 14], [Some 104; Some 101; None; Some 103])) /\
    check_free_lists 8 s' = true /\
    (* same edges around node 0, met in a different order: the loader links in index order *)
    out_list s 0 = Ok [0; 1] /\ out_list s' 0 = Ok [1; 0] /\
    (* a stream with vacancies is not a Graph stream *)
    deser_graph 8 true true ex_wire = None.
Proof.
  destruct (@history_ok 8 true true ex_ops) as [s [Hrun I]]; [discriminate|].
  exists s. vm_compute in Hrun. injection Hrun as <-.
  eexists. split; [vm_compute; reflexivity|]. split; [exact I|]. clear I.
  split; [reflexivity|]. split; [reflexivity|]. split; [vm_compute; reflexivity|].
  split; [vm_compute; reflexivity|]. vm_compute. repeat split.
Qed.

(* one rejected wire value per error kind; none panics *)
Lemma ex_rejected :
  (* an edge naming a vacant node *)
  deser_stable 8 true true (mkWire [10; 12] [1] true [Some (0, 1, 5)]) = Ok None /\
  (* an edge naming a node out of range *)
  deser_stable 8 true true (mkWire [10; 12] [] true [Some (0, 2, 5)]) = Ok None /\
  deser_graph 8 true true (mkWire [10; 12] [] true [Some (0, 2, 5)]) = None /\
  (* node_holes not increasing *)
  deser_stable 8 true true (mkWire [10] [2; 1] true []) = Ok None /\
  (* a hole beyond the total slot count *)
  deser_stable 8 true true (mkWire [10] [2] true []) = Ok None /\
  (* holes in a Graph stream *)
  deser_graph 8 true true (mkWire [10] [0] true []) = None /\
  (* a vacant edge in a Graph stream *)
  deser_graph 8 true true (mkWire [10; 12] [] true [Some (0, 1, 5); None]) = None /\
  (* wrong edge property *)
  deser_stable 8 true true (mkWire [10] [] false []) = Ok None /\
  deser_graph 8 true true (mkWire [10] [] false []) = None /\
  (* too many nodes / slots / edges for a 4-valued index type *)
  deser_stable 4 true true (mkWire [1; 2; 3; 4] [] true []) = Ok None /\
  deser_stable 4 true true (mkWire [1; 2; 3] [1] true []) = Ok None /\
  deser_stable 4 true true
    (mkWire [1; 2] [] true [Some (0, 1, 1); Some (0, 1, 1); Some (0, 1, 1); Some (0, 1, 1)]) = Ok None /\
  deser_graph 4 true true (mkWire [1; 2; 3; 4] [] true []) = None /\
  deser_graph 4 true true
    (mkWire [1; 2] [] true [Some (0, 1, 1); Some (0, 1, 1); Some (0, 1, 1); Some (0, 1, 1)]) = None /\
  (* ... while the same values are accepted by an index type with room *)
  (exists s, deser_stable 8 true true (mkWire [1; 2; 3] [1] true []) = Ok (Some s)) /\
  (exists g, deser_graph 8 true true (mkWire [1; 2; 3; 4] [] true []) = Some g).
Proof.
  vm_compute. repeat split; eexists; reflexivity.
Qed.

(* the boundary on a concrete graph: four nodes fit a 4-valued index type, the stream does not load *)
Definition g4 : graph nat nat :=
  mkGraph [mkNode 1 (4, 4); mkNode 2 (4, 4); mkNode 3 (4, 4); mkNode 4 (4, 4)] [].

Lemma ex_full_graph :
  (exists g3, snd (try_add_node 4 true g3 4) = g4 /\ fst (try_add_node 4 true g3 4) = inr 3) /\
  GInv 4 g4 /\
  deser_graph 4 true true (ser_graph true g4) = None /\
  (exists g, deser_graph 4 false true (ser_graph true g4) = Some g).
Proof.
  split; [exists (mkGraph [mkNode 1 (4, 4); mkNode 2 (4, 4); mkNode 3 (4, 4)] []); split; reflexivity|].
  split.
  - constructor; simpl; try lia.
    + intros x ed H. destruct x; discriminate.
    + intros k i Hi. exists []. split.
      * destruct i as [|[|[|[|i]]]]; try lia; (eexists; split; [reflexivity|]);
          destruct k; simpl; constructor.
      * intros x. split; [intros []|]. unfold epo. simpl. destruct x; discriminate.
  - split; [reflexivity|]. eexists. vm_compute. reflexivity.
Qed.
