(* maximum_matching (matching.rs, Gabow): the returned mate vector is a valid matching (M3).
   Section MaxValid derives this from the search invariant SInv of MatchInvP, given that find_join
   (the blossom step) preserves SInv; that is proved in MatchBlossomP.v / MatchFindJoinP.v. *)
From PG Require Import Lib.Io Model.View Model.Traversal Model.MatchM Spec.Reach Spec.MatchSpec
  Proofs.TravBase Proofs.MatchGreedyP Proofs.MatchShapeP Proofs.MatchAugP Proofs.MatchFlipP
  Proofs.MatchInvP.

(* what find_join has to do for the search invariant *)
Definition find_join_preserves (v : view) : Prop :=
  forall start s e es et er s',
    SInv v start s -> outerv (lab s) es -> outerv (lab s) et ->
    In er (out_edges v es) -> eid er = e -> tgt er = et -> es <> et ->
    find_join v s e es et = Ok s' ->
    SInv v start s' /\ (forall u, outerv (lab s) u -> outerv (lab s') u).

Lemma SI_same v start s s' pth rk :
  mate s' = mate s -> lab s' = lab s -> fin s' = fin s -> nedges s' = nedges s ->
  (forall x, In x (queue s') -> outerv (lab s) x) ->
  SI v start s pth rk -> SI v start s' pth rk.
Proof.
  intros E1 E2 E3 E4 Hq I. destruct I. constructor; rewrite ?E1, ?E2, ?E3, ?E4; assumption.
Qed.

Lemma label_visit_q v s x s' : label_visit v s x = Ok s' ->
  mate s' = mate s /\ lab s' = lab s /\ fin s' = fin s /\ nedges s' = nedges s /\
  (forall y, In y (queue s') -> y = x \/ In y (queue s)).
Proof.
  unfold label_visit. intros H. rb H as E [fresh m]. injection H as <-. cbn [mate lab fin nedges queue].
  repeat (split; [reflexivity|]). intros y Hy. destruct fresh; [|right; exact Hy].
  apply in_app_or in Hy. destruct Hy as [Hy|[<-|[]]]; auto.
Qed.

Lemma m_mate_app_None m k : m_mate (m ++ [None]) k = m_mate m k.
Proof.
  unfold m_mate. destruct (Nat.lt_ge_cases k (length m)) as [Hk|Hk].
  - rewrite nth_error_app1 by exact Hk. reflexivity.
  - rewrite nth_error_app2 by exact Hk. rewrite (proj2 (nth_error_None m k)) by exact Hk.
    destruct (k - length m) as [|n]; [reflexivity|]. destruct n; reflexivity.
Qed.

Lemma csum_app_None m : csum (m ++ [None]) = csum m.
Proof. induction m as [|o t IH]; cbn [app csum osome]; [reflexivity | lia]. Qed.

Section MaxValid.
Variable v : view.
Hypothesis HM : MOk v.
Hypothesis FJ : find_join_preserves v.

Lemma nb_lt a b : In b (neighbors v a) -> b < vbound v.
Proof. destruct HM as [[_ [Hn _]] Hb]. intros H. apply Hb. apply (Hn a b H). Qed.

Lemma scan_edge_ok start outer s e b s' :
  SInv v start s -> outerv (lab s) outer -> In e (out_edges v outer) ->
  scan_edge v start outer s e = Ok (b, s') ->
  (b = true -> GMn v s') /\
  (b = false -> SInv v start s' /\ forall u, outerv (lab s) u -> outerv (lab s') u).
Proof.
  intros [pth [rk I]] Hout He H. pose proof (si_lab _ _ _ _ _ I) as HL.
  assert (Hnb : In (tgt e) (neighbors v outer)) by (unfold neighbors; apply in_map; exact He).
  unfold scan_edge in H. destruct (Nat.eqb_spec (tgt e) outer) as [Heq|Hneq].
  - injection H as <- <-. split; [discriminate|]. intros _. split; [exists pth, rk; exact I | auto].
  - rb H as E1 mo. apply getp_ok in E1.
    assert (Hmo : m_mate (mate s) (tgt e) = mo) by (unfold m_mate; rewrite E1; reflexivity).
    destruct (match mo with None => true | Some _ => false end && negb (Nat.eqb (tgt e) start)) eqn:Ec.
    + (* an augmenting path *)
      apply andb_true_iff in Ec. destruct Ec as [Ec1 Ec2]. destruct mo as [x|]; [discriminate|].
      apply negb_true_iff, Nat.eqb_neq in Ec2.
      rb H as E2 m1. apply setp_ok in E2. destruct E2 as [_ ->]. rb H as E3 m2. injection H as <- <-.
      split; [|discriminate]. intros _.
      assert (Hnotin : ~ In (tgt e) (pth outer)).
      { intros Hin. destruct (SI_tree _ _ _ _ _ outer (tgt e) I Hout Hin) as [Ho|[o [H1 _]]]; [|congruence].
        apply (SI_outer_matched _ _ _ _ _ (tgt e) I Ho Ec2). exact Hmo. }
      destruct (augment_valid v (mate s) (lab s) pth rk HL (si_gm _ _ _ _ _ I) outer Hout
                  (S (S (4 * (4 * (vbound v + 2))))) (tgt e)) as [m2' [E3' [G2 C2]]].
      * pose proof (si_rk _ _ _ _ _ I outer Hout). pose proof (nout_le (lab s)).
        rewrite (si_lablen _ _ _ _ _ I) in *. lia.
      * apply (nb_lt outer). exact Hnb.
      * exact Hmo.
      * exact Hnotin.
      * left. exact Hnb.
      * rewrite E3 in E3'. injection E3' as <-. split; cbn [mate nedges]; [exact G2|].
        rewrite C2, (si_cnt _ _ _ _ _ I). lia.
    + rb H as E2 lo. apply getp_ok in E2. destruct (is_outer lo) eqn:Elo.
      * (* a blossom *)
        rb H as E3 s2. injection H as <- <-. split; [discriminate|]. intros _.
        apply (FJ start s (eid e) outer (tgt e) e s2); auto.
        -- exists pth, rk; exact I.
        -- exists lo; auto.
      * (* a vertex label *)
        assert (Hno : ~ outerv (lab s) (tgt e)).
        { intros [lb [H1 H2]]. rewrite E2 in H1. injection H1 as <-. congruence. }
        destruct mo as [mv|].
        2:{ exfalso. cbn [andb] in Ec. apply negb_false_iff, Nat.eqb_eq in Ec.
            apply Hno. rewrite Ec. exists LStart. split; [apply (si_start _ _ _ _ _ I) | reflexivity]. }
        rb H as E3 lm. apply getp_ok in E3. rb H as E4 s1. rb H as E5 s2. injection H as <- <-.
        split; [discriminate|]. intros _.
        apply label_visit_q in E5. destruct E5 as [Q1 [Q2 [Q3 [Q4 Q5]]]].
        destruct (is_outer lm) eqn:Elm.
        -- injection E4 as <-. split.
           ++ exists pth, rk. apply (SI_same v start s s2 pth rk); auto.
              intros x Hx. destruct (Q5 x Hx) as [->|Hq]; [exists lm; auto | apply (si_queue _ _ _ _ _ I x Hq)].
           ++ intros u Hu. rewrite Q2. exact Hu.
        -- assert (Hnm : ~ outerv (lab s) mv).
           { intros [lb [H1 H2]]. rewrite E3 in H1. injection H1 as <-. congruence. }
           rb E4 as E6 lab'. rb E4 as E7 fin'. injection E4 as <-.
           apply setp_ok in E6. destruct E6 as [_ ->]. apply setp_ok in E7. destruct E7 as [_ ->].
           cbn [mate lab fin nedges queue] in *.
           assert (Hj : joined v (tgt e) outer) by (right; exact Hnb).
           pose proof (vl_SI v start s pth rk I outer (tgt e) mv Hout Hj Hmo Hno Hnm (queue s2) Q5) as I2.
           split.
           ++ eexists. eexists. eapply SI_same; [| | | | |exact I2]; cbn [mate lab fin nedges queue]; auto.
              intros x Hx. apply (si_queue _ _ _ _ _ I2). exact Hx.
           ++ intros u Hu. rewrite Q2. apply outerv_upd; [eapply nth_error_Some_lt; eauto|].
              right. split; [intros ->; contradiction | exact Hu].
Qed.

Lemma scan_edges_ok start outer : forall es s b s',
  SInv v start s -> outerv (lab s) outer -> (forall e, In e es -> In e (out_edges v outer)) ->
  scan_edges v start outer s es = Ok (b, s') ->
  (b = true -> GMn v s') /\ (b = false -> SInv v start s').
Proof.
  induction es as [|e rest IH]; intros s b s' I Hout Hes H; cbn [scan_edges] in H.
  - injection H as <- <-. split; [discriminate | auto].
  - rb H as E1 [found s1].
    destruct (scan_edge_ok start outer s e found s1 I Hout (Hes e (or_introl eq_refl)) E1) as [Ht Hf].
    destruct found.
    + injection H as <- <-. split; [intros _; apply Ht; reflexivity | discriminate].
    + destruct (Hf eq_refl) as [I1 Hmono].
      apply (IH s1 b s' I1); auto. intros e' He'. apply Hes. right; exact He'.
Qed.

Lemma search_ok start : forall fuel s s',
  SInv v start s -> search v fuel start s = Ok s' -> GMn v s'.
Proof.
  induction fuel as [|f IH]; intros s s' I H; cbn [search] in H; [discriminate|].
  destruct (queue s) as [|outer q] eqn:Eq.
  - injection H as <-. apply (SInv_GMn v start s I).
  - rb H as E1 [found s1]. destruct I as [pth [rk I]].
    assert (Hout : outerv (lab s) outer) by (apply (si_queue _ _ _ _ _ I); rewrite Eq; left; reflexivity).
    assert (I' : SInv v start (mkMst (mate s) (lab s) (fin s) (vis s) q (nedges s))).
    { exists pth, rk. apply (SI_same v start s _ pth rk); cbn [mate lab fin nedges queue]; auto.
      intros x Hx. apply (si_queue _ _ _ _ _ I). rewrite Eq. right; exact Hx. }
    destruct (scan_edges_ok start outer (out_edges v outer) _ found s1 I' Hout (fun e He => He) E1) as [Ht Hf].
    destruct found.
    + injection H as <-. apply Ht. reflexivity.
    + apply (IH s1 s'); [apply Hf; reflexivity | exact H].
Qed.

Lemma try_start_ok s start s' :
  BInv v s -> start < vbound v -> try_start v s start = Ok s' -> BInv v s'.
Proof.
  intros B Hst H. unfold try_start in H. rb H as E1 m. apply getp_ok in E1.
  assert (Hm : m_mate (mate s) start = m) by (unfold m_mate; rewrite E1; reflexivity).
  destruct m as [x|].
  - injection H as <-. exact B.
  - rb H as E2 lab1. rb H as E3 fin1. rb H as E4 [b vis1]. rb H as E5 s1. injection H as <-.
    apply setp_ok in E2. destruct E2 as [_ ->]. apply setp_ok in E3. destruct E3 as [_ ->].
    pose proof (init_SInv v start s _ vis1 B Hst Hm eq_refl) as I0.
    pose proof (search_ok start _ _ s1 I0 E5) as [G1 C1].
    destruct B as [_ [_ [Hlab Hfl]]].
    apply search_shp in E5.
    2:{ cbn [lab fin]. rewrite !upd_length, Hlab, repeat_length, Hfl. reflexivity. }
    unfold shp in E5. cbn [mate lab fin] in E5. injection E5 as Q1 Q2 Q3.
    split; [exact G1|]. split; [exact C1|]. cbn [lab fin]. split; [reflexivity|].
    rewrite Q3, upd_length. exact Hfl.
Qed.

Lemma try_fold_ok : forall l s s',
  (forall x, In x l -> x < vbound v) -> BInv v s ->
  fold_left (fun acc start => rbind acc (fun s => try_start v s start)) l (Ok s) = Ok s' -> BInv v s'.
Proof.
  induction l as [|a t IH]; intros s s' Hl B H; cbn [fold_left] in H.
  - injection H as <-. exact B.
  - cbn [rbind] in H. destruct (try_start v s a) as [s1| |] eqn:E.
    + apply (IH s1 s'); auto.
      * intros x Hx. apply Hl. right; exact Hx.
      * apply (try_start_ok s a s1 B); [apply Hl; left; reflexivity | exact E].
    + exfalso. clear -H. induction t as [|b t IHt]; cbn [fold_left rbind] in H; [discriminate | auto].
    + exfalso. clear -H. induction t as [|b t IHt]; cbn [fold_left rbind] in H; [discriminate | auto].
Qed.

Theorem maximum_matching_valid_sec debug m n :
  maximum_matching v debug = Ok (m, n) -> valid_matching v m n.
Proof.
  intros H. unfold maximum_matching in H.
  destruct (greedy_inner_valid v HM) as [m0 [n0 [Eg [Hl0 [Hs0 [Hj0 Hn0]]]]]]. rewrite Eg in H. cbn [rbind] in H.
  destruct (debug && negb (Nat.eqb (length (m0 ++ [None])) (S (vbound v)))); [discriminate|].
  rb H as E s. injection H as <- <-.
  assert (Hsym : msym (m0 ++ [None])).
  { intros i j. rewrite !m_mate_app_None. apply Hs0. }
  apply try_fold_ok in E.
  - destruct E as [G [C _]]. apply GM_valid; assumption.
  - intros x Hx. apply in_seq in Hx. lia.
  - split; cbn [mate lab fin nedges]; [split; [|split; [|split]]|split; [|split]].
    + rewrite app_length, Hl0. cbn [length]. lia.
    + rewrite m_mate_app_None. unfold m_mate. rewrite (proj2 (nth_error_None m0 (vbound v))) by lia. reflexivity.
    + exact Hsym.
    + intros i j. rewrite m_mate_app_None. intros Hij. apply (Hj0 i j Hij).
    + rewrite csum_app_None, (msym_csum m0 Hs0), Hn0. reflexivity.
    + reflexivity.
    + rewrite repeat_length. reflexivity.
Qed.

End MaxValid.

(* maximum_matching returns a valid matching, provided find_join preserves the search invariant.
   The premise [find_join_preserves v] is discharged in MatchFindJoinP.v (find_join_preserves_ok,
   under EidOk v), which gives the unconditional theorem maximum_matching_valid there. *)
Theorem maximum_matching_valid_partial v debug m n :
  find_join_preserves v -> MOk v -> maximum_matching v debug = Ok (m, n) -> valid_matching v m n.
Proof. intros FJ HM. apply maximum_matching_valid_sec; assumption. Qed.

Print Assumptions maximum_matching_valid_partial.
