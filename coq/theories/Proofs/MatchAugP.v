(* maximum_matching (Gabow): what the labels mean, and correctness of augment_path under that
   meaning.  (M3, item 2)

   The meaning of the labels is given by ghost data: pth u is Gabow's alternating path P(u) from
   the outer vertex u back to the start of the search, rk u the time at which u became outer.
   LabOk says how the paths are built from the labels; aug_ok says that augment_path flips
   such a path (up to the first vertex already rematched). *)
From PG Require Import Lib.Io Model.View Model.Traversal Model.MatchM Spec.Reach Spec.MatchSpec
  Proofs.TravBase Proofs.MatchGreedyP Proofs.MatchShapeP.

(* ------------------------------------------------------------------ *)
(* list facts                                                          *)

Lemma nth_error_rev_nat (l : list nat) i :
  i < length l -> nth_error (rev l) i = nth_error l (length l - S i).
Proof.
  intros Hi.
  rewrite (nth_error_nth' (rev l) 0) by (rewrite rev_length; exact Hi).
  rewrite (nth_error_nth' l 0) by lia.
  rewrite rev_nth by exact Hi. reflexivity.
Qed.

Lemma getp_mate (m : list (option nat)) i : i < length m -> getp m i = Ok (m_mate m i).
Proof.
  intros Hi. unfold getp, m_mate. destruct (nth_error m i) as [o|] eqn:E; [reflexivity|].
  apply nth_error_None in E. lia.
Qed.

Lemma nth_error_In_nat (l : list nat) i x : nth_error l i = Some x -> In x l.
Proof. apply nth_error_In. Qed.

Lemma last_app_ne (l l' : list nat) d : l' <> [] -> last (l ++ l') d = last l' d.
Proof.
  intros Hne. induction l as [|a t IH]; [reflexivity|].
  cbn [app]. destruct (t ++ l') as [|b r] eqn:E.
  - destruct t; [cbn [app] in E; contradiction | discriminate].
  - cbn [last] in *. exact IH.
Qed.

Lemma last_In_ne (l : list nat) d : l <> [] -> In (last l d) l.
Proof.
  intros Hne. destruct (exists_last Hne) as [l' [x ->]].
  rewrite last_last. apply in_or_app; right; left; reflexivity.
Qed.

Lemma nodup_app_disj (l l' : list nat) : NoDup (l ++ l') -> forall k, In k l -> ~ In k l'.
Proof.
  induction l as [|a t IH]; intros Hnd k Hk; [destruct Hk|].
  cbn [app] in Hnd. inversion Hnd as [|? ? Hn Hnd']; subst. destruct Hk as [->|Hk].
  - intros Hin. apply Hn. apply in_or_app; right; exact Hin.
  - apply IH; assumption.
Qed.

Lemma nth0_of_app (l l' rest : list nat) x : l <> [] -> x :: rest = l ++ l' -> nth_error l 0 = Some x.
Proof. destruct l as [|a t]; [contradiction|]. intros _ H. cbn [app] in H. injection H as -> _. reflexivity. Qed.

(* where the prefix to be flipped ends, for an edge label: beyond the reversed part *)
Lemma edge_split (X l2 a py : list nat) (rk : nat -> nat) ru i r :
  X ++ l2 = rev a ++ py -> length X = 2 * i -> length a = 2 * r + 1 -> py <> [] ->
  (l2 = [] \/ exists z l2', l2 = z :: l2' /\ ru < rk z) ->
  (forall z, In z a -> rk z <= ru) ->
  exists lt1, X = rev a ++ lt1 /\ py = lt1 ++ l2 /\ exists i', length lt1 = 2 * i' + 1.
Proof.
  intros E HX Ha Hpy Hstop Hrk. apply app_eq_app in E. destruct E as [l [[E1 E2]|[E1 E2]]].
  - exists l. split; [exact E1|]. split; [exact E2|].
    assert (HL : length X = length a + length l) by (rewrite E1, app_length, rev_length; reflexivity).
    exists (i - r - 1). lia.
  - exfalso. destruct l as [|z l'].
    + rewrite app_nil_r in E1. assert (length (rev a) = length X) by (rewrite E1; reflexivity).
      rewrite rev_length in *. lia.
    + destruct Hstop as [->|[z' [l2' [-> Hz]]]]; [discriminate|].
      cbn [app] in E2. injection E2 as -> _.
      assert (Hin : In z a).
      { apply in_rev. rewrite E1. apply in_or_app; right; left; reflexivity. }
      specialize (Hrk z Hin). lia.
Qed.

(* ------------------------------------------------------------------ *)
(* the effect of flipping a path                                       *)

(* in m', the first vertex of l is mated to w, and the vertices at positions 2j+1, 2j+2 to each other *)
Definition Facts (m' : list (option nat)) (w : nat) (l : list nat) : Prop :=
  (forall p0, nth_error l 0 = Some p0 -> m_mate m' p0 = Some w) /\
  (forall j a b, nth_error l (S (2 * j)) = Some a -> nth_error l (S (S (2 * j))) = Some b ->
     m_mate m' a = Some b /\ m_mate m' b = Some a).

Definition Flipped (m : list (option nat)) (w : nat) (l : list nat) (m' : list (option nat)) : Prop :=
  length m' = length m /\
  (forall k, ~ In k l -> m_mate m' k = m_mate m k) /\
  Facts m' w l.

Lemma facts_frame m2 m3 w l :
  Facts m2 w l -> (forall k, In k l -> m_mate m3 k = m_mate m2 k) -> Facts m3 w l.
Proof.
  intros [F0 F1] Hfr. split.
  - intros p0 Hp. rewrite Hfr by (eapply nth_error_In; eauto). apply F0, Hp.
  - intros j a b Ha Hb. rewrite !Hfr by (eapply nth_error_In; eauto). apply (F1 j a b Ha Hb).
Qed.

Lemma flipped_single m w u : u < length m -> Flipped m w [u] (upd m u (Some w)).
Proof.
  intros Hu. split; [apply upd_length|]. split.
  - intros k Hk. rewrite m_mate_upd. destruct (Nat.eqb_spec u k) as [->|_]; [|reflexivity].
    exfalso; apply Hk; left; reflexivity.
  - split.
    + intros p0 H. cbn [nth_error] in H. injection H as <-.
      rewrite m_mate_upd, Nat.eqb_refl, (proj2 (Nat.ltb_lt _ _) Hu). reflexivity.
    + intros j a b Ha. cbn [nth_error] in Ha. destruct (2 * j); discriminate.
Qed.

Lemma flipped_vertex m w u w' x l1' m' :
  u < length m -> w' < length m -> u <> w' -> ~ In u l1' -> ~ In w' l1' ->
  nth_error l1' 0 = Some x ->
  Flipped (upd (upd m u (Some w)) w' (Some x)) w' l1' m' ->
  Flipped m w (u :: w' :: l1') m'.
Proof.
  intros Hu Hw' Hne Hu1 Hw1 Hx [Hlen [Hfr [F0 F1]]].
  assert (Hu' : Nat.ltb u (length m) = true) by (apply Nat.ltb_lt; exact Hu).
  assert (Hw'' : Nat.ltb w' (length (upd m u (Some w))) = true)
    by (apply Nat.ltb_lt; rewrite upd_length; exact Hw').
  split; [rewrite Hlen, !upd_length; reflexivity|]. split; [|split].
  - intros k Hk. rewrite Hfr by (intros Hin; apply Hk; right; right; exact Hin).
    rewrite !m_mate_upd.
    destruct (Nat.eqb_spec w' k) as [->|_]; [exfalso; apply Hk; right; left; reflexivity|].
    destruct (Nat.eqb_spec u k) as [->|_]; [exfalso; apply Hk; left; reflexivity|]. reflexivity.
  - intros p0 H. cbn [nth_error] in H. injection H as <-.
    rewrite Hfr by exact Hu1. rewrite !m_mate_upd, Hu'.
    destruct (Nat.eqb_spec w' u) as [E|_]; [congruence|]. rewrite Nat.eqb_refl. reflexivity.
  - intros j a b Ha Hb. destruct j as [|j].
    + change (Some w' = Some a) in Ha. change (nth_error l1' 0 = Some b) in Hb. injection Ha as <-. rewrite Hx in Hb. injection Hb as <-.
      split; [|apply F0, Hx].
      rewrite Hfr by exact Hw1. rewrite m_mate_upd, Nat.eqb_refl, Hw''. reflexivity.
    + replace (2 * S j) with (S (S (2 * j))) in Ha, Hb by lia. cbn [nth_error] in Ha, Hb.
      apply (F1 j a b Ha Hb).
Qed.

(* a reversed prefix followed by another path *)
Lemma facts_edge m3 w u a lt1 x y r :
  length a = 2 * r + 1 -> nth_error a 0 = Some x -> nth_error lt1 0 = Some y ->
  m_mate m3 u = Some w -> Facts m3 y a -> Facts m3 x lt1 ->
  Facts m3 w (u :: rev a ++ lt1).
Proof.
  intros Hla Hx Hy Hu [A0 A1] [T0 T1]. split.
  - intros p0 H. cbn [nth_error] in H. injection H as <-. exact Hu.
  - intros j p q Hp Hq.
    change (nth_error (rev a ++ lt1) (2 * j) = Some p) in Hp.
    change (nth_error (rev a ++ lt1) (S (2 * j)) = Some q) in Hq.
    destruct (Nat.lt_ge_cases j r) as [Hj|Hj].
    + (* both inside the reversed prefix *)
      rewrite nth_error_app1 in Hp by (rewrite rev_length; lia).
      rewrite nth_error_app1 in Hq by (rewrite rev_length; lia).
      rewrite nth_error_rev_nat in Hp by lia. rewrite nth_error_rev_nat in Hq by lia.
      replace (length a - S (2 * j)) with (S (S (2 * (r - j - 1)))) in Hp by lia.
      replace (length a - S (S (2 * j))) with (S (2 * (r - j - 1))) in Hq by lia.
      destruct (A1 _ _ _ Hq Hp) as [H1 H2]. split; assumption.
    + destruct (Nat.eq_dec j r) as [->|Hne].
      * rewrite nth_error_app1 in Hp by (rewrite rev_length; lia).
        rewrite nth_error_rev_nat in Hp by lia.
        replace (length a - S (2 * r)) with 0 in Hp by lia.
        rewrite nth_error_app2 in Hq by (rewrite rev_length; lia).
        rewrite rev_length in Hq. replace (S (2 * r) - length a) with 0 in Hq by lia.
        rewrite Hx in Hp. injection Hp as <-. rewrite Hy in Hq. injection Hq as <-.
        split; [apply A0, Hx | apply T0, Hy].
      * rewrite nth_error_app2 in Hp by (rewrite rev_length; lia).
        rewrite nth_error_app2 in Hq by (rewrite rev_length; lia).
        rewrite rev_length in Hp, Hq.
        replace (2 * j - length a) with (S (2 * (j - r - 1))) in Hp by lia.
        replace (S (2 * j) - length a) with (S (S (2 * (j - r - 1)))) in Hq by lia.
        apply (T1 _ _ _ Hp Hq).
Qed.

(* two flips of disjoint paths, in either order, after u has been given to w *)
Lemma flipped_edge m w u a lt1 x y r m2 m3 :
  length a = 2 * r + 1 -> nth_error a 0 = Some x -> nth_error lt1 0 = Some y ->
  u < length m -> ~ In u a -> ~ In u lt1 -> (forall k, In k a -> ~ In k lt1) ->
  (Flipped (upd m u (Some w)) y a m2 /\ Flipped m2 x lt1 m3) \/
  (Flipped (upd m u (Some w)) x lt1 m2 /\ Flipped m2 y a m3) ->
  Flipped m w (u :: rev a ++ lt1) m3.
Proof.
  intros Hla Hx Hy Hu Hua Hut Hdis Hor.
  assert (Hu' : Nat.ltb u (length m) = true) by (apply Nat.ltb_lt; exact Hu).
  assert (Hin : forall k, In k (u :: rev a ++ lt1) <-> k = u \/ In k a \/ In k lt1).
  { intros k. cbn [In]. rewrite in_app_iff, <- in_rev. split; intros [H|H]; auto. }
  assert (Hall : length m3 = length m /\
                 (forall k, k <> u -> ~ In k a -> ~ In k lt1 -> m_mate m3 k = m_mate m k) /\
                 m_mate m3 u = Some w /\ Facts m3 y a /\ Facts m3 x lt1).
  { destruct Hor as [[[L1 [R1 F1]] [L2 [R2 F2]]] | [[L1 [R1 F1]] [L2 [R2 F2]]]].
    - split; [rewrite L2, L1, upd_length; reflexivity|]. split; [|split; [|split]].
      + intros k K1 K2 K3. rewrite R2, R1 by assumption. rewrite m_mate_upd.
        destruct (Nat.eqb_spec u k); [congruence | reflexivity].
      + rewrite R2, R1 by assumption. rewrite m_mate_upd, Nat.eqb_refl, Hu'. reflexivity.
      + apply (facts_frame m2); [exact F1|]. intros k Hk. apply R2. apply Hdis, Hk.
      + exact F2.
    - split; [rewrite L2, L1, upd_length; reflexivity|]. split; [|split; [|split]].
      + intros k K1 K2 K3. rewrite R2, R1 by assumption. rewrite m_mate_upd.
        destruct (Nat.eqb_spec u k); [congruence | reflexivity].
      + rewrite R2, R1 by assumption. rewrite m_mate_upd, Nat.eqb_refl, Hu'. reflexivity.
      + exact F2.
      + apply (facts_frame m2); [exact F1|]. intros k Hk. apply R2.
        intros Hka. apply (Hdis k Hka Hk). }
  destruct Hall as [HL [HR [HU [FA FT]]]].
  split; [exact HL|]. split.
  - intros k Hk. rewrite Hin in Hk. apply HR; intros Hc; apply Hk; auto.
  - eapply facts_edge; eauto.
Qed.

(* ------------------------------------------------------------------ *)
(* the meaning of the labels                                           *)

Section Aug.
Variable v : view.
Variable M0 : list (option nat).     (* the mate vector during the search: vbound v + 1 entries *)
Variable labs : list label.
Variable pth : nat -> list nat.      (* ghost: P(u) *)
Variable rk : nat -> nat.            (* ghost: when u became outer *)

Definition outerv (u : nat) : Prop :=
  exists lb, nth_error labs u = Some lb /\ is_outer lb = true.

Record LabOk : Prop := {
  lo_len : length M0 = S (vbound v);
  lo_dummy : m_mate M0 (vbound v) = None;
  lo_sym : msym M0;
  lo_hd : forall u, outerv u -> exists rest, pth u = u :: rest;
  lo_range : forall u x, outerv u -> In x (pth u) -> x < vbound v;
  lo_nodup : forall u, outerv u -> NoDup (pth u);
  lo_odd : forall u, outerv u -> exists k, length (pth u) = 2 * k + 1;
  (* the vertex at an even position is matched to the next one; the last one is unmatched *)
  lo_mate : forall u j a, outerv u -> nth_error (pth u) (2 * j) = Some a ->
              m_mate M0 a = nth_error (pth u) (S (2 * j));
  lo_start : forall u, nth_error labs u = Some LStart -> pth u = [u];
  lo_vertex : forall u x, nth_error labs u = Some (LVertex x) ->
              outerv x /\ rk x < rk u /\ exists w, pth u = u :: w :: pth x;
  (* u lay on P(s) (or P(t)) before the join: P(u) walks back to s, crosses the edge, follows P(t) *)
  lo_edge : forall u e s t, nth_error labs u = Some (LEdge e s t) ->
              outerv s /\ outerv t /\ rk s < rk u /\ rk t < rk u /\
              ((exists a b, pth s = a ++ u :: b /\ pth u = u :: rev a ++ pth t /\
                            forall z, In z a -> outerv z /\ rk z <= rk u) \/
               (exists a b, pth t = a ++ u :: b /\ pth u = u :: rev a ++ pth s /\
                            forall z, In z a -> outerv z /\ rk z <= rk u));
  (* the other edges of a path are edges of the view *)
  lo_join : forall u j a b, outerv u -> nth_error (pth u) (S (2 * j)) = Some a ->
              nth_error (pth u) (S (S (2 * j))) = Some b -> joined v a b
}.

Hypothesis HL : LabOk.

Lemma odd_split (l1 l2 : list nat) i k :
  length l1 = 2 * i + 1 -> length (l1 ++ l2) = 2 * k + 1 -> exists c, length l2 = 2 * c.
Proof. rewrite app_length. intros H1 H2. exists (k - i). lia. Qed.

(* augment_path u w flips the prefix l1 of P(u): either all of P(u), or up to a vertex z that
   became outer after u and has already been rematched *)
Lemma aug_ok : forall fuel u w m l1 l2,
  outerv u -> rk u < fuel -> pth u = l1 ++ l2 -> (exists i, length l1 = 2 * i + 1) ->
  (forall k, In k l1 -> m_mate m k = m_mate M0 k) ->
  length m = S (vbound v) -> m_mate m (vbound v) = None -> ~ In w l1 ->
  (l2 = [] \/ exists z l2', l2 = z :: l2' /\ m_mate m z <> Some (last l1 0) /\ rk u < rk z) ->
  exists m', augment_path v fuel labs m u w = Ok m' /\ Flipped m w l1 m'.
Proof.
  induction fuel as [|f IH]; intros u w m l1 l2 Hout Hrk Hp [i Hi] Hag Hlen Hdum Hw Hstop; [lia|].
  destruct (lo_hd HL u Hout) as [rest Hrest].
  destruct l1 as [|u' l1r]; [cbn [length] in Hi; lia|].
  assert (u' = u) by (rewrite Hrest in Hp; cbn [app] in Hp; congruence). subst u'.
  assert (Hur : u < vbound v).
  { apply (lo_range HL u u Hout). rewrite Hrest. left; reflexivity. }
  assert (Hnd : NoDup (u :: l1r ++ l2)) by (change (NoDup ((u :: l1r) ++ l2)); rewrite <- Hp; apply (lo_nodup HL u Hout)).
  assert (Hrange : forall x, In x (u :: l1r ++ l2) -> x < vbound v).
  { intros x Hx. apply (lo_range HL u x Hout). rewrite Hp. exact Hx. }
  assert (Hmu : m_mate m u = nth_error (l1r ++ l2) 0).
  { rewrite (Hag u) by (left; reflexivity).
    rewrite (lo_mate HL u 0 u Hout) by (rewrite Hp; reflexivity). rewrite Hp. reflexivity. }
  cbn [augment_path]. rewrite getp_mate by lia. cbn [rbind].
  rewrite setp_lt by lia. cbn [rbind].
  assert (Hlen1 : length (upd m u (Some w)) = S (vbound v)) by (rewrite upd_length; exact Hlen).
  destruct l1r as [|p1 l1r'].
  - (* the prefix is [u]: stop at once *)
    exists (upd m u (Some w)). split; [|apply flipped_single; lia].
    cbn [app] in Hmu. destruct Hstop as [->|[z [l2' [-> [Hz _]]]]].
    + cbn [nth_error] in Hmu. rewrite Hmu. rewrite getp_mate by lia. cbn [rbind].
      rewrite m_mate_upd. destruct (Nat.eqb_spec u (vbound v)) as [E|_]; [lia|]. rewrite Hdum. reflexivity.
    + cbn [nth_error] in Hmu. rewrite Hmu.
      assert (Hzr : z < vbound v) by (apply Hrange; right; left; reflexivity).
      assert (Hzu : u <> z).
      { intros ->. inversion Hnd as [|? ? Hn _]; subst. apply Hn. left; reflexivity. }
      rewrite getp_mate by lia. cbn [rbind]. rewrite m_mate_upd.
      destruct (Nat.eqb_spec u z) as [E|_]; [contradiction|]. cbn [last] in Hz.
      destruct (m_mate m z) as [b|]; [|reflexivity].
      destruct (Nat.eqb_spec b u) as [->|_]; [congruence | reflexivity].
  - (* at least three vertices: go on according to the label *)
    destruct l1r' as [|p2 l1r'']; [cbn [length] in Hi; lia|].
    cbn [app nth_error] in Hmu. rewrite Hmu.
    assert (Hp1r : p1 < vbound v) by (apply Hrange; right; left; reflexivity).
    assert (Hup1 : u <> p1).
    { intros ->. inversion Hnd as [|? ? Hn _]; subst. apply Hn. left; reflexivity. }
    assert (Hp1u : m_mate M0 p1 = Some u).
    { apply (lo_sym HL u p1). rewrite <- (Hag u) by (left; reflexivity). exact Hmu. }
    rewrite getp_mate by lia. cbn [rbind]. rewrite m_mate_upd.
    destruct (Nat.eqb_spec u p1) as [E|_]; [contradiction|].
    rewrite (Hag p1) by (right; left; reflexivity). rewrite Hp1u, Nat.eqb_refl. cbn [negb].
    destruct Hout as [lb [Hlb Hlo]].
    assert (Hout : outerv u) by (exists lb; auto).
    unfold getp. rewrite Hlb. cbn [rbind].
    destruct lb as [| |x|e s t|e]; cbn [is_outer] in Hlo; try discriminate.
    + (* LStart *)
      rewrite (lo_start HL u Hlb) in Hp. cbn [app] in Hp. discriminate.
    + (* LVertex x *)
      destruct (lo_vertex HL u x Hlb) as [Hox [Hrx [w' Hpx]]].
      rewrite Hp in Hpx. cbn [app] in Hpx. injection Hpx as Hw' Hpx. subst w'.
      rewrite setp_lt by lia. cbn [rbind].
      destruct (lo_hd HL x Hox) as [restx Hrestx].
      assert (Hp2 : p2 = x) by (rewrite Hrestx in Hpx; cbn [app] in Hpx; congruence). subst p2.
      inversion Hnd as [|? ? Hn1 Hnd1]; subst. inversion Hnd1 as [|? ? Hn2 Hnd2]; subst.
      assert (Hsub : forall k, In k (x :: l1r'') -> In k (x :: l1r'' ++ l2)).
      { intros k [->|Hk]; [left; reflexivity | right; apply in_or_app; left; exact Hk]. }
      assert (Hu1 : ~ In u (x :: l1r'')) by (intros Hin; apply Hn1; right; apply Hsub, Hin).
      assert (Hw1 : ~ In p1 (x :: l1r'')) by (intros Hin; apply Hn2; apply Hsub, Hin).
      destruct (IH x p1 (upd (upd m u (Some w)) p1 (Some x)) (x :: l1r'') l2) as [m' [Em' Fm']].
      * exact Hox.
      * lia.
      * rewrite <- Hpx. reflexivity.
      * exists (i - 1). cbn [length] in *. lia.
      * intros k Hk. rewrite !m_mate_upd.
        destruct (Nat.eqb_spec p1 k) as [<-|_]; [contradiction|].
        destruct (Nat.eqb_spec u k) as [<-|_]; [contradiction|].
        apply Hag. right; right; exact Hk.
      * rewrite !upd_length. exact Hlen.
      * rewrite !m_mate_upd.
        destruct (Nat.eqb_spec p1 (vbound v)) as [E|_]; [lia|].
        destruct (Nat.eqb_spec u (vbound v)) as [E|_]; [lia|]. exact Hdum.
      * exact Hw1.
      * destruct Hstop as [->|[z [l2' [-> [Hz Hrz]]]]]; [left; reflexivity|].
        right. exists z, l2'. split; [reflexivity|]. split; [|lia].
        assert (Hzin : In z (x :: l1r'' ++ z :: l2')).
        { right. apply in_or_app; right; left; reflexivity. }
        rewrite !m_mate_upd.
        destruct (Nat.eqb_spec p1 z) as [<-|_]; [exfalso; apply Hn2; exact Hzin|].
        destruct (Nat.eqb_spec u z) as [<-|_]; [exfalso; apply Hn1; right; exact Hzin|].
        exact Hz.
      * exists m'. split; [exact Em'|].
        apply flipped_vertex with (x := x); try lia; auto.
    + (* LEdge e s t *)
      destruct (lo_edge HL u e s t Hlb) as [Hos [Hot [Hrs [Hrt Hcase]]]].
      set (X := p1 :: p2 :: l1r'') in *.
      set (m1 := upd m u (Some w)) in *.
      assert (Hm1k : forall k, k <> u -> m_mate m1 k = m_mate m k).
      { intros k Hk. unfold m1. rewrite m_mate_upd.
        destruct (Nat.eqb_spec u k); [congruence | reflexivity]. }
      assert (Hm1u : m_mate m1 u = Some w).
      { unfold m1. rewrite m_mate_upd, Nat.eqb_refl, (proj2 (Nat.ltb_lt _ _)) by lia. reflexivity. }
      assert (Hgen : forall x y a b, outerv x -> outerv y ->
                pth x = a ++ u :: b -> pth u = u :: rev a ++ pth y ->
                (forall z, In z a -> rk z <= rk u) ->
                exists r lt1, length a = 2 * r + 1 /\ nth_error a 0 = Some x /\ nth_error lt1 0 = Some y /\
                  X = rev a ++ lt1 /\ pth y = lt1 ++ l2 /\
                  (exists i', length lt1 = 2 * i' + 1) /\ last lt1 0 = last (u :: X) 0 /\
                  ~ In u a /\ ~ In u lt1 /\ (forall k, In k a -> ~ In k (lt1 ++ l2)) /\
                  w <> last a 0 /\ (forall k, In k a -> In k X) /\ (forall k, In k lt1 -> In k X)).
      { intros x y a b Hox Hoy Hpx Hpu Hrka.
        destruct (lo_odd HL u Hout) as [ku Hku]. destruct (lo_odd HL y Hoy) as [ky Hky].
        destruct (lo_hd HL x Hox) as [restx Hrestx]. destruct (lo_hd HL y Hoy) as [resty Hresty].
        assert (Hla : length a = 2 * (ku - ky - 1) + 1).
        { rewrite Hpu in Hku. cbn [length] in Hku. rewrite app_length, rev_length in Hku. lia. }
        assert (E : X ++ l2 = rev a ++ pth y).
        { rewrite Hp in Hpu. cbn [app] in Hpu. injection Hpu as Hpu. exact Hpu. }
        assert (HX : length X = 2 * i) by (cbn [length] in Hi; lia).
        destruct (edge_split X l2 a (pth y) rk (rk u) i (ku - ky - 1) E HX Hla) as [lt1 [EX [Ey [i' Hi']]]].
        { rewrite Hresty. discriminate. }
        { destruct Hstop as [->|[z [l2' [-> [_ Hz]]]]]; [left; reflexivity|]. right. exists z, l2'. auto. }
        { exact Hrka. }
        assert (Hane : a <> []) by (intros ->; cbn [length] in Hla; lia).
        assert (Hlne : lt1 <> []) by (intros ->; cbn [length] in Hi'; lia).
        assert (Hnd' : NoDup (u :: rev a ++ lt1 ++ l2)).
        { rewrite app_assoc, <- EX. exact Hnd. }
        inversion Hnd' as [|? ? Hnu Hnd'']; subst.
        assert (HaX : forall k, In k a -> In k X).
        { intros k Hk. rewrite EX. apply in_or_app; left. rewrite <- in_rev. exact Hk. }
        assert (HtX : forall k, In k lt1 -> In k X).
        { intros k Hk. rewrite EX. apply in_or_app; right. exact Hk. }
        exists (ku - ky - 1), lt1.
        split; [exact Hla|]. split; [eapply nth0_of_app; [exact Hane | rewrite <- Hrestx; exact Hpx]|].
        split; [eapply nth0_of_app; [exact Hlne | rewrite <- Hresty; exact Ey]|].
        split; [exact EX|]. split; [exact Ey|]. split; [exists i'; exact Hi'|].
        split.
        { replace (u :: X) with ((u :: rev a) ++ lt1) by (rewrite EX; reflexivity).
          symmetry. apply last_app_ne. exact Hlne. }
        split.
        { intros Hin. apply Hnu. apply in_or_app; left. rewrite <- in_rev. exact Hin. }
        split.
        { intros Hin. apply Hnu. apply in_or_app; right. apply in_or_app; left. exact Hin. }
        split.
        { intros k Hk. apply (nodup_app_disj _ _ Hnd''). rewrite <- in_rev. exact Hk. }
        split; [|split; assumption].
        intros ->. apply Hw. right. apply HaX. apply last_In_ne. exact Hane. }
      (* the call that walks a prefix a of P(x) and stops at u *)
      assert (HA : forall mm x y a b r, outerv x -> rk x < rk u -> pth x = a ++ u :: b ->
                length a = 2 * r + 1 -> ~ In y a -> w <> last a 0 -> ~ In u a -> (forall k, In k a -> In k X) ->
                (forall k, In k a -> m_mate mm k = m_mate m k) ->
                length mm = S (vbound v) -> m_mate mm (vbound v) = None -> m_mate mm u = Some w ->
                exists m', augment_path v f labs mm x y = Ok m' /\ Flipped mm y a m').
      { intros mm x y a b r Hox Hrx Hpx Hla Hya Hwl Hua HaX Hmm Hlmm Hdmm Hummm.
        apply (IH x y mm a (u :: b)); auto.
        - lia.
        - exists r; exact Hla.
        - intros k Hk. rewrite Hmm by exact Hk. apply Hag. right. apply HaX, Hk.
        - right. exists u, b. split; [reflexivity|]. split; [|exact Hrx].
          rewrite Hummm. congruence. }
      (* the call that walks P(y) as far as the whole flip goes *)
      assert (HT : forall mm y x lt1 i', outerv y -> rk y < rk u -> pth y = lt1 ++ l2 ->
                length lt1 = 2 * i' + 1 -> ~ In x lt1 -> last lt1 0 = last (u :: X) 0 ->
                (forall k, In k lt1 -> In k X) ->
                (forall k, In k (lt1 ++ l2) -> m_mate mm k = m_mate m k) ->
                length mm = S (vbound v) -> m_mate mm (vbound v) = None ->
                exists m', augment_path v f labs mm y x = Ok m' /\ Flipped mm x lt1 m').
      { intros mm y x lt1 i' Hoy Hry Hpy Hlt Hxl Hlast HtX Hmm Hlmm Hdmm.
        apply (IH y x mm lt1 l2); auto.
        - lia.
        - exists i'; exact Hlt.
        - intros k Hk. rewrite Hmm by (apply in_or_app; left; exact Hk). apply Hag. right. apply HtX, Hk.
        - destruct Hstop as [->|[z [l2' [-> [Hz Hrz]]]]]; [left; reflexivity|].
          right. exists z, l2'. split; [reflexivity|]. split; [|lia].
          rewrite Hmm by (apply in_or_app; right; left; reflexivity). rewrite Hlast. exact Hz. }
      assert (Hdumr : forall l, (forall k, In k l -> In k X) -> ~ In (vbound v) l).
      { intros l Hl Hin. assert (vbound v < vbound v); [|lia].
        apply Hrange. right. apply in_or_app; left. apply Hl, Hin. }
      assert (Hul2 : forall k, In k (X ++ l2) -> k <> u).
      { intros k Hk ->. inversion Hnd as [|? ? Hn _]; subst. apply Hn, Hk. }
      destruct Hcase as [[a [b [Hps [Hpu Hrka0]]]] | [a [b [Hpt [Hpu Hrka0]]]]].
      * (* u on P(s): first the prefix of P(s), then P(t) *)
        assert (Hrka : forall z, In z a -> rk z <= rk u) by (intros z Hz; apply (Hrka0 z Hz)).
        destruct (Hgen s t a b Hos Hot Hps Hpu Hrka)
          as [r [lt1 [Hla [Ha0 [Ht0 [EX [Ey [[i' Hi'] [Hlast [Hua [Hut [Hdis [Hwl [HaX HtX]]]]]]]]]]]]]].
        assert (Hta : ~ In t a).
        { intros Hin. apply (Hdis t Hin). apply in_or_app; left. eapply nth_error_In; eauto. }
        assert (Hsl : ~ In s lt1).
        { intros Hin. apply (Hdis s); [eapply nth_error_In; eauto | apply in_or_app; left; exact Hin]. }
        destruct (HA m1 s t a b r) as [m2 [E2 F2]]; auto.
        { intros k Hk. apply Hm1k. intros ->. contradiction. }
        { rewrite Hm1k by lia. exact Hdum. }
        rewrite E2. cbn [rbind]. destruct F2 as [L2 [R2 F2]].
        destruct (HT m2 t s lt1 i') as [m3 [E3 F3]]; auto.
        { intros k Hk. rewrite R2 by (intros Hin; apply (Hdis k Hin Hk)).
          apply Hm1k. apply Hul2. rewrite EX, <- app_assoc. apply in_or_app; right; exact Hk. }
        { rewrite L2. exact Hlen1. }
        { rewrite R2 by (apply Hdumr, HaX). rewrite Hm1k by lia. exact Hdum. }
        exists m3. split; [exact E3|].
        replace (u :: X) with (u :: rev a ++ lt1) by (rewrite EX; reflexivity).
        apply flipped_edge with (x := s) (y := t) (r := r) (m2 := m2); auto; try lia.
        { intros k Hk Hin. apply (Hdis k Hk). apply in_or_app; left; exact Hin. }
        left. split; [|exact F3]. split; [exact L2|]. split; assumption.
      * (* u on P(t): first all of P(s), then the prefix of P(t) *)
        assert (Hrka : forall z, In z a -> rk z <= rk u) by (intros z Hz; apply (Hrka0 z Hz)).
        destruct (Hgen t s a b Hot Hos Hpt Hpu Hrka)
          as [r [lt1 [Hla [Ha0 [Hs0 [EX [Ey [[i' Hi'] [Hlast [Hua [Hut [Hdis [Hwl [HaX HtX]]]]]]]]]]]]]].
        assert (Hsa : ~ In s a).
        { intros Hin. apply (Hdis s Hin). apply in_or_app; left. eapply nth_error_In; eauto. }
        assert (Htl : ~ In t lt1).
        { intros Hin. apply (Hdis t); [eapply nth_error_In; eauto | apply in_or_app; left; exact Hin]. }
        destruct (HT m1 s t lt1 i') as [m2 [E2 F2]]; auto.
        { intros k Hk. apply Hm1k. apply Hul2. rewrite EX, <- app_assoc. apply in_or_app; right; exact Hk. }
        { rewrite Hm1k by lia. exact Hdum. }
        rewrite E2. cbn [rbind]. destruct F2 as [L2 [R2 F2]].
        assert (Hal : forall k, In k a -> ~ In k lt1).
        { intros k Hk Hin. apply (Hdis k Hk). apply in_or_app; left; exact Hin. }
        destruct (HA m2 t s a b r) as [m3 [E3 F3]]; auto.
        { intros k Hk. rewrite R2 by (apply Hal, Hk). apply Hm1k. intros ->. contradiction. }
        { rewrite L2. exact Hlen1. }
        { rewrite R2 by (apply Hdumr, HtX). rewrite Hm1k by lia. exact Hdum. }
        { rewrite R2 by exact Hut. exact Hm1u. }
        exists m3. split; [exact E3|].
        replace (u :: X) with (u :: rev a ++ lt1) by (rewrite EX; reflexivity).
        apply flipped_edge with (x := t) (y := s) (r := r) (m2 := m2); auto; try lia.
        right. split; [|exact F3]. split; [exact L2|]. split; assumption.
Qed.

End Aug.

Arguments lo_len {v M0 labs pth rk} _.
Arguments lo_dummy {v M0 labs pth rk} _.
Arguments lo_sym {v M0 labs pth rk} _.
Arguments lo_hd {v M0 labs pth rk} _.
Arguments lo_range {v M0 labs pth rk} _.
Arguments lo_nodup {v M0 labs pth rk} _.
Arguments lo_odd {v M0 labs pth rk} _.
Arguments lo_mate {v M0 labs pth rk} _.
Arguments lo_start {v M0 labs pth rk} _.
Arguments lo_vertex {v M0 labs pth rk} _.
Arguments lo_edge {v M0 labs pth rk} _.
Arguments lo_join {v M0 labs pth rk} _.

Print Assumptions aug_ok.
