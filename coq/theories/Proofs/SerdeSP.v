(* C17, StableGraph side, part 1: the two linking loops of StableGraph::deserialize.
   link_free_nodes threads the vacant node slots into the doubly linked free list (index order);
   link_stable_edges links the live edges like add_edge and pushes the vacant ones on the free edge
   list.  Neither can panic; the final state satisfies SInv. *)
From PG Require Import Lib.ListArr Lib.ListExtra Lib.Walk Model.GraphM Model.StableM Model.SerdeM
  Spec.SerdeSpec Proofs.GraphP Proofs.GraphRE Proofs.GraphRN Proofs.StableP Proofs.StableE.
Set Implicit Arguments.

Definition edata (e : iedge) : option nat * (nat * nat) := (ewt e, enode e).

Lemma firstn_S_upd {A} (l : list A) : forall i v, i < length l ->
  firstn (S i) (upd l i v) = firstn i l ++ [v].
Proof.
  induction l as [|x l IH]; intros [|i] v H; simpl in *; try lia; auto.
  f_equal. apply IH. lia.
Qed.

Lemma nth_error_firstn_lt {A} (l : list A) k i : i < k -> nth_error (firstn k l) i = nth_error l i.
Proof.
  revert k i; induction l as [|x l IH]; intros [|k] [|i] H; simpl; auto; try lia.
  apply IH. lia.
Qed.

Lemma nth_error_firstn_ge {A} (l : list A) k i : k <= i -> nth_error (firstn k l) i = None.
Proof.
  intros H. apply nth_error_None. rewrite firstn_length. lia.
Qed.

Section SerdeSP.
  Variable cap : nat.

  Notation adj := (@adj (option nat) (option nat) cap).

  (* ================================================================== *)
  (* link_free_nodes                                                     *)

  Section Nodes.
    Variable slots : list (option nat).
    Variable edges0 : list iedge.
    Let nodes0 : list inode := map (fun o => mkNode o (cap, cap)) slots.
    Let N := length slots.
    Hypothesis HN : N <= cap.

    (* after the slots below i have been visited *)
    Record NInv (i free : nat) (g : IG) : Prop := {
      ni_nwt : map (@nwt _) (gnodes g) = slots;
      ni_edges : gedges g = edges0;
      ni_rest : forall j, i <= j -> nth_error (gnodes g) j = nth_error nodes0 j;
      ni_live : forall j, nwo g j <> None -> nth_error (gnodes g) j = nth_error nodes0 j;
      ni_free : exists l, lseg (fnx g) free l cap /\ bkp g cap l /\
                  forall j, In j l <-> (j < i /\ j < N /\ nwo g j = None)
    }.

    Lemma NInv_len i free g : NInv i free g -> length (gnodes g) = N.
    Proof. intros I. rewrite <- (map_length (@nwt _)), (ni_nwt I). reflexivity. Qed.

    Lemma nodes0_nwt : map (@nwt _) nodes0 = slots.
    Proof. unfold nodes0. rewrite map_map. cbn [nwt]. apply map_id. Qed.

    Lemma NInv_init : NInv 0 cap (mkGraph nodes0 edges0).
    Proof.
      constructor; cbn [gnodes gedges]; auto.
      - apply nodes0_nwt.
      - exists []. split; [constructor|]. split; [exact I|].
        intros j. split; [intros []|lia].
    Qed.

    Lemma NInv_free_cases i free g : NInv i free g ->
      free = cap \/ (free < i /\ free < N /\ nwo g free = None).
    Proof.
      intros I. destruct (ni_free I) as [l [Hl [_ C]]]. destruct l as [|y l].
      - left. apply lseg_nil_inv in Hl. auto.
      - right. apply lseg_cons_inv in Hl. destruct Hl as [-> _]. apply C. simpl; auto.
    Qed.

    Lemma lfn_step_live i free g : NInv i free g -> nwo g i <> None -> NInv (S i) free g.
    Proof.
      intros I Hi. constructor; try apply I.
      - intros j Hj. apply (ni_rest I). lia.
      - destruct (ni_free I) as [l [Hl [Hb C]]]. exists l. split; auto. split; auto.
        intros j. rewrite C. split; [intros [H1 H2]; split; [lia|auto]|].
        intros [H1 [H2 H3]]. split; auto.
        destruct (Nat.eq_dec j i) as [->|]; [contradiction|lia].
    Qed.

    Lemma lfn_step_vacant i free g :
      NInv i free g -> i < N -> nwo g i = None ->
      exists g1 g2,
        upd_node g i (fun n => set_nnext n (free, cap)) = Ok g1 /\
        (if Nat.eqb free cap then Ok g1
         else upd_node g1 free (fun n => set_nnext n (fst (nnext n), i))) = Ok g2 /\
        NInv (S i) i g2.
    Proof.
      intros I Hi Hv.
      pose proof (NInv_len I) as Hlen.
      pose proof (NInv_free_cases I) as Hfree.
      assert (Hni : nth_error (gnodes g) i = Some (mkNode None (cap, cap))).
      { rewrite (ni_rest I) by lia. unfold nodes0. rewrite nth_error_map.
        unfold nwo in Hv. rewrite (ni_rest I) in Hv by lia. unfold nodes0 in Hv.
        rewrite nth_error_map in Hv.
        destruct (nth_error slots i) as [o|] eqn:E.
        - simpl in Hv. subst o. reflexivity.
        - exfalso. apply nth_error_None in E. fold N in E. lia. }
      set (newn := mkNode None (free, cap) : inode).
      set (ns1 := upd (gnodes g) i newn).
      set (g1 := mkGraph ns1 (gedges g) : IG).
      set (ns2 := set_hd ns1 1 free i).
      set (g2 := mkGraph ns2 (gedges g) : IG).
      exists g1, g2.
      assert (Hl1 : length ns1 = N) by (unfold ns1; rewrite upd_length; auto).
      split; [|split].
      { unfold upd_node. rewrite Hni. reflexivity. }
      { apply (@upd_back_ptr cap g1 free i).
        - cbn [g1 gnodes]. lia.
        - cbn [g1 gnodes]. rewrite Hl1. destruct Hfree as [->|[_ [H _]]]; auto. }
      assert (Hif : i <> free) by (destruct Hfree as [->|[H _]]; lia).
      assert (Hmw : map (@nwt _) ns2 = map (@nwt _) (gnodes g)).
      { unfold ns2. rewrite set_hd_nwt. unfold ns1. eapply map_upd_same; eauto. }
      assert (Hl2 : length ns2 = N).
      { rewrite <- (map_length (@nwt _)), Hmw, map_length. auto. }
      assert (Hnw : forall j, nwo g2 j = nwo g j).
      { intros j. rewrite (nwo_map g2 j), (nwo_map g j). cbn [g2 gnodes]. rewrite Hmw. reflexivity. }
      assert (Hoth : forall j, j <> i -> j <> free -> nth_error ns2 j = nth_error (gnodes g) j).
      { intros j H1 H2. unfold ns2, set_hd. destruct (nth_error ns1 free) as [nn|].
        - rewrite nth_error_upd_neq by auto. unfold ns1. apply nth_error_upd_neq. auto.
        - unfold ns1. apply nth_error_upd_neq. auto. }
      assert (Hoth' : forall j, j <> i -> j < N -> nwo g j <> None \/ i < j ->
                 nth_error ns2 j = nth_error (gnodes g) j).
      { intros j H1 H2 H3. apply Hoth; auto. intros ->.
        destruct Hfree as [->|[F1 [F2 F3]]]; [lia|]. destruct H3; [contradiction|lia]. }
      assert (Hnew : nth_error ns2 i = Some newn).
      { unfold ns2, set_hd. destruct (nth_error ns1 free) as [nn|].
        - rewrite nth_error_upd_neq by auto. unfold ns1. apply nth_error_upd_eq. lia.
        - unfold ns1. apply nth_error_upd_eq. lia. }
      assert (Hh0 : forall j, j <> i -> hdn ns2 0 j = hdn (gnodes g) 0 j).
      { intros j Hj. unfold ns2. change 0 with (1 - 1) at 1. rewrite hdn_set_hd_other.
        simpl. apply hdn_same. unfold ns1. apply nth_error_upd_neq. auto. }
      constructor; cbn [g2 gnodes gedges].
      - rewrite Hmw. apply (ni_nwt I).
      - apply (ni_edges I).
      - intros j Hj. destruct (Nat.lt_ge_cases j N) as [HjN|HjN].
        + rewrite Hoth' by (auto; lia). apply (ni_rest I). lia.
        + rewrite (nth_error_oob ns2) by lia. symmetry. apply nth_error_oob.
          unfold nodes0. rewrite map_length. auto.
      - intros j Hj. rewrite Hnw in Hj.
        assert (HjN : j < N) by (rewrite <- Hlen; apply nwo_Some_lt; auto).
        rewrite Hoth'; auto.
        + apply (ni_live I). auto.
        + intros ->. contradiction.
      - destruct (ni_free I) as [l [Hl [Hb C]]].
        assert (Hnd : NoDup l).
        { eapply FNL_NoDup; [|exact Hl]. lia. }
        assert (Hli : forall x, In x l -> x <> i).
        { intros x Hx. apply C in Hx. lia. }
        exists (i :: l). split; [|split].
        + econstructor.
          * apply (@fnx_vacant g2 i newn); auto.
          * cbn [newn nnext fst]. eapply lseg_frame; [exact Hl|].
            intros x Hx. apply fnx_same2.
            -- cbn [g2 gnodes]. rewrite Hmw. reflexivity.
            -- apply Hh0. auto.
        + cbn [bkp]. split.
          * unfold hdn. cbn [g2 gnodes]. rewrite Hnew. reflexivity.
          * destruct l as [|y l']; [exact Logic.I|].
            pose proof Hl as Hl'. apply lseg_cons_inv in Hl'. destruct Hl' as [-> _].
            destruct Hb as [_ Hb']. cbn [bkp]. split.
            -- cbn [g2 gnodes]. unfold ns2. apply hdn_set_hd_same. rewrite Hl1.
               apply (C free). simpl; auto.
            -- eapply bkp_frame; [|exact Hb']. intros x Hx. apply hdn_same.
               cbn [g2 gnodes]. apply Hoth.
               ++ apply Hli. simpl; auto.
               ++ intros ->. inversion Hnd; auto.
        + intros j. cbn [In]. rewrite C, Hnw. split.
          * intros [<-|[H1 [H2 H3]]]; [split; [lia|auto]|split; [lia|auto]].
          * intros [H1 [H2 H3]]. destruct (Nat.eq_dec i j) as [E|Hne]; [left; auto|right].
            split; [lia|auto].
    Qed.

    Lemma lfn_ok : forall (ns : list inode) i free g,
      NInv i free g -> (forall j, nth_error ns j = nth_error nodes0 (i + j)) -> i + length ns = N ->
      exists g' free', link_free_nodes cap ns i free g = Ok (g', free', nsome (map (@nwt _) ns)) /\
        NInv N free' g'.
    Proof.
      induction ns as [|n rest IH]; intros i free g I Hns Hlen; cbn [link_free_nodes].
      - exists g, free. split; auto. cbn [length] in Hlen. replace N with i by lia. auto.
      - cbn [length] in Hlen.
        assert (Hn : nth_error (gnodes g) i = Some n).
        { rewrite (ni_rest I) by lia. pose proof (Hns 0) as H0. cbn [nth_error] in H0.
          rewrite Nat.add_0_r in H0. auto. }
        assert (Hw : nwo g i = nwt n) by (apply nwo_nth; auto).
        assert (Hrest : forall j, nth_error rest j = nth_error nodes0 (S i + j)).
        { intros j. pose proof (Hns (S j)) as Hj. cbn [nth_error] in Hj. rewrite Hj. f_equal; lia. }
        destruct (nwt n) as [v|] eqn:En.
        + destruct (IH (S i) free g) as [g' [free' [Hrun I']]]; auto; try lia.
          { apply lfn_step_live; auto. rewrite Hw. discriminate. }
          rewrite Hrun. cbn [rmap]. exists g', free'. split; auto.
          cbn [map nsome]. rewrite En. reflexivity.
        + destruct (@lfn_step_vacant i free g I) as [g1 [g2 [H1 [H2 I2]]]]; auto; try lia.
          rewrite H1. cbn [rbind]. rewrite H2. cbn [rbind].
          destruct (IH (S i) i g2) as [g' [free' [Hrun I']]]; auto; try lia.
          rewrite Hrun. exists g', free'. split; auto.
          cbn [map nsome]. rewrite En. reflexivity.
    Qed.
  End Nodes.

  (* ================================================================== *)
  (* truncated views: the edge vector cut after the edges already linked *)

  Definition tr (i : nat) (g : IG) : IG := mkGraph (gnodes g) (firstn i (gedges g)).
  Definition trs (i : nat) (s : sgraph) : sgraph :=
    mkSG (tr i (sg s)) (ncount s) (ecount s) (free_node s) (free_edge s).

  Lemma trs_all i s : length (gedges (sg s)) <= i -> trs i s = s.
  Proof.
    destruct s as [[ns es] nc ec fn fe]. unfold trs, tr. cbn [sg gnodes gedges ncount ecount free_node free_edge].
    intros H. rewrite firstn_all2; auto.
  Qed.

  (* a vacant edge slot appended and pushed on the free edge list *)
  Lemma push_vacant_edge_SInv s c p :
    SInv cap s -> length (gedges (sg s)) < cap ->
    SInv cap (mkSG (mkGraph (gnodes (sg s)) (gedges (sg s) ++ [mkEdge None (free_edge s, c) p]))
                   (ncount s) (ecount s) (free_node s) (length (gedges (sg s)))).
  Proof.
    intros I Hlt. set (g := sg s) in *. set (m := length (gedges g)) in *.
    set (e' := mkEdge None (free_edge s, c) p : iedge).
    set (g' := mkGraph (gnodes g) (gedges g ++ [e']) : IG).
    assert (Hold : forall x, x < m -> nth_error (gedges g') x = nth_error (gedges g) x).
    { intros x Hx. cbn [g' gedges]. apply nth_error_app1; auto. }
    assert (Hnew : nth_error (gedges g') m = Some e').
    { cbn [g' gedges]. rewrite nth_error_app2 by (unfold m; lia). unfold m.
      rewrite Nat.sub_diag. reflexivity. }
    assert (Hlen' : length (gedges g') = S m).
    { cbn [g' gedges]. rewrite app_length. simpl. unfold m. lia. }
    assert (Hewo : forall x, ewo g' x = ewo g x).
    { intros x. destruct (Nat.lt_ge_cases x m) as [Hx|Hx].
      - unfold ewo. rewrite Hold; auto.
      - rewrite (@ewo_oob g x) by (fold m; lia). destruct (Nat.eq_dec x m) as [->|Hne].
        + unfold ewo. rewrite Hnew. reflexivity.
        + apply ewo_oob. lia. }
    assert (Hepo : forall k x, x < m -> epo (gedges g') k x = epo (gedges g) k x).
    { intros k x Hx. unfold epo. rewrite Hold; auto. }
    assert (Hnwo : forall j, nwo g' j = nwo g j) by reflexivity.
    assert (Hlive_lt : forall x, ewo g x <> None -> x < m) by (intros x; apply ewo_Some_lt).
    pose proof (si_g I) as G. fold g in G.
    constructor.
    - change (GI cap None g'). constructor.
      + apply (sgi_ncap G).
      + lia.
      + intros k x i Hx Hep. rewrite Hewo in Hx. rewrite Hepo in Hep by auto.
        apply lv_None. rewrite Hnwo. apply lv_None. apply (sgi_ends G k x); auto.
      + intros k i Hi. apply lv_None in Hi. rewrite Hnwo in Hi.
        destruct (sgi_adj G k (proj2 (lv_None g i) Hi)) as [l [Hl C]]. exists l. split.
        * destruct Hl as [n [Hn Hs]]. exists n. split; auto.
          eapply lseg_frame; [exact Hs|]. intros x Hx. unfold nxe. rewrite Hold; auto.
          eapply lseg_nxe_lt; eauto.
        * intros x. rewrite C, Hewo. split; intros [H1 H2]; split; auto.
          -- rewrite Hepo; auto.
          -- rewrite <- Hepo; auto.
    - intros a H. discriminate.
    - apply (si_nc I).
    - change (ecount s = nsome (map (@ewt _) (gedges g ++ [e']))).
      rewrite map_app, nsome_app. cbn [map nsome ewt e']. rewrite (si_ec I).
      fold g. lia.
    - change (FNL cap None g' (free_node s)).
      eapply FNL_frame; [| |apply (si_fn I)]; auto.
    - change (FEL cap g' m).
      destruct (si_fe I) as [l [Hl C]]. fold g in Hl, C. exists (m :: l). split.
      + econstructor.
        * apply (@fex_vacant g' m e'); auto.
        * cbn [e' enext fst]. eapply lseg_frame; [exact Hl|]. intros x Hx. apply fex_same.
          apply Hold. apply C in Hx. tauto.
      + intros x. cbn [In]. rewrite Hlen', Hewo, C. fold m. split.
        * intros [<-|[H1 H2]]; [split; [lia|apply ewo_oob; fold m; lia]|split; [lia|auto]].
        * intros [H1 H2]. destruct (Nat.eq_dec m x) as [E|Hne]; [left; auto|right; split; [lia|auto]].
  Qed.

  (* a live edge appended and linked (whatever the free edge list is) *)
  Lemma link_post_SInv s g2 a b w :
    SInv cap s -> link_post (sg s) g2 (length (gedges (sg s))) a b w ->
    length (gedges (sg s)) < cap -> nwo (sg s) a <> None -> nwo (sg s) b <> None ->
    SInv cap (mkSG g2 (ncount s) (S (ecount s)) (free_node s) (free_edge s)).
  Proof.
    intros I P Hlt La Lb. set (g := sg s) in *. set (m := length (gedges g)) in *.
    assert (Hvac : ewo g m = None) by (apply ewo_oob; fold m; lia).
    assert (Hlen2 : length (gedges g2) = S m) by (rewrite (lp_elen P); fold m; lia).
    assert (Hcap2 : length (gedges g2) <= cap) by lia.
    constructor; cbn [sg ncount ecount free_node free_edge].
    - eapply lp_GI; eauto. apply (si_g I).
    - intros x H. discriminate.
    - rewrite (lp_nwt P). apply (si_nc I).
    - assert (El : map (@ewt _) (gedges g2) = map (@ewt _) (gedges g) ++ [Some w]).
      { apply list_ext. intros x. rewrite nth_error_app, map_length. fold m.
        destruct (Nat.ltb_spec x m) as [Hx|Hx].
        - rewrite !nth_error_map. rewrite (lp_eother P) by lia. reflexivity.
        - destruct (Nat.eq_dec x m) as [->|Hne].
          + rewrite Nat.sub_diag. destruct (lp_enew P) as [ed' [E [Hw' _]]].
            rewrite nth_error_map, E. simpl. congruence.
          + rewrite (proj2 (nth_error_None _ _)) by (rewrite map_length; lia).
            destruct (x - m) as [|d] eqn:Ed; [lia|]. simpl. destruct d; reflexivity. }
      rewrite El, nsome_app. cbn [nsome]. rewrite (si_ec I). fold g. lia.
    - eapply lp_FNL; eauto. apply (si_fn I).
    - destruct (si_fe I) as [l [Hl C]]. fold g in Hl, C. exists l. split.
      + eapply lseg_frame; [exact Hl|]. intros x Hx. apply fex_same. apply (lp_eother P).
        apply C in Hx. fold m in Hx. lia.
      + intros x. rewrite Hlen2, (lp_ewo P), C. fold m. destruct (Nat.eqb_spec x m) as [->|Hne].
        * split; [intros [H _]; lia|intros [_ H]; discriminate].
        * split; intros [H1 H2]; split; auto; lia.
  Qed.

  Lemma link_post_trunc (g g2 : IG) i a b w :
    link_post g g2 i a b w -> i < length (gedges g) -> link_post (tr i g) (tr (S i) g2) i a b w.
  Proof.
    intros P Hi. pose proof (lp_elen P) as Hl2.
    constructor; cbn [tr gnodes gedges].
    - apply (lp_nlen P).
    - apply (lp_nodes P).
    - apply (lp_nother P).
    - intros x Hx. destruct (Nat.lt_ge_cases x i).
      + rewrite !nth_error_firstn_lt by lia. apply (lp_eother P); auto.
      + rewrite !nth_error_firstn_ge by lia. reflexivity.
    - destruct (lp_enew P) as [ed' [E R]]. exists ed'.
      split; [rewrite nth_error_firstn_lt by lia; auto|]. exact R.
    - rewrite !firstn_length. lia.
  Qed.

  (* ================================================================== *)
  (* link_stable_edges                                                   *)

  Section Edges.
    Variable slots : list (option nat).
    Variable edges0 : list iedge.
    Let M := length edges0.
    Hypothesis HM : M <= cap.

    (* after the edge slots below i have been visited *)
    Record EInv (i : nat) (s : sgraph) : Prop := {
      ei_inv : SInv cap (trs i s);
      ei_len : length (gedges (sg s)) = M;
      ei_rest : forall x, i <= x -> nth_error (gedges (sg s)) x = nth_error edges0 x;
      ei_nwt : map (@nwt _) (gnodes (sg s)) = slots;
      ei_data : map edata (gedges (sg s)) = map edata edges0
    }.

    Lemma nwo_occupied (g : IG) i :
      map (@nwt _) (gnodes g) = slots -> (nwo g i <> None <-> occupied slots i).
    Proof.
      intros E. rewrite nwo_map, E. unfold occupied.
      destruct (nth_error slots i) as [[v|]|]; split; try congruence; eauto;
        intros [v' H]; congruence.
    Qed.

    Definition occ_ends (e : iedge) : Prop :=
      occupied slots (fst (enode e)) /\ occupied slots (snd (enode e)).

    Lemma lse_step_vacant i s e :
      EInv i s -> nth_error edges0 i = Some e -> ewt e = None ->
      exists g1, upd_edge (sg s) i (fun e => set_enext e (free_edge s, cap)) = Ok g1 /\
        EInv (S i) (mkSG g1 (ncount s) (ecount s) (free_node s) i).
    Proof.
      intros I He Hw.
      assert (Hi : i < M) by (eapply nth_error_Some_lt; eauto).
      assert (Hcur : nth_error (gedges (sg s)) i = Some e) by (rewrite (ei_rest I) by lia; auto).
      set (e' := set_enext e (free_edge s, cap)).
      exists (mkGraph (gnodes (sg s)) (upd (gedges (sg s)) i e')). split.
      { unfold upd_edge. rewrite Hcur. reflexivity. }
      constructor; cbn [sg gnodes gedges].
      - pose proof (@push_vacant_edge_SInv (trs i s) cap (enode e) (ei_inv I)) as P.
        cbn [trs tr sg gnodes gedges ncount ecount free_node free_edge] in P.
        rewrite firstn_length, (ei_len I), Nat.min_l in P by lia.
        unfold trs, tr. cbn [sg gnodes gedges ncount ecount free_node free_edge].
        rewrite firstn_S_upd by (rewrite (ei_len I); auto).
        replace e' with (mkEdge None (free_edge s, cap) (enode e) : iedge).
        + apply P. lia.
        + unfold e', set_enext. rewrite Hw. reflexivity.
      - rewrite upd_length. apply (ei_len I).
      - intros x Hx. rewrite nth_error_upd_neq by lia. apply (ei_rest I). lia.
      - apply (ei_nwt I).
      - rewrite <- (ei_data I). eapply map_upd_same; eauto.
    Qed.

    Lemma lse_step_live i s e w :
      EInv i s -> nth_error edges0 i = Some e -> ewt e = Some w ->
      nwo (sg s) (fst (enode e)) <> None -> nwo (sg s) (snd (enode e)) <> None ->
      exists g2, link_edge (sg s) i (fst (enode e)) (snd (enode e)) = Ok g2 /\
        EInv (S i) (mkSG g2 (ncount s) (S (ecount s)) (free_node s) (free_edge s)).
    Proof.
      intros I He Hw La Lb.
      assert (Hi : i < M) by (eapply nth_error_Some_lt; eauto).
      assert (Hcur : nth_error (gedges (sg s)) i = Some e) by (rewrite (ei_rest I) by lia; auto).
      assert (Hnd : enode e = (fst (enode e), snd (enode e))) by (destruct (enode e); reflexivity).
      destruct (@link_edge_post (sg s) (sg s) i (fst (enode e)) (snd (enode e)) w e)
        as [g2 [Hrun P]]; auto.
      { rewrite (ei_len I). lia. }
      { apply nwo_Some_lt; auto. }
      { apply nwo_Some_lt; auto. }
      exists g2. split; auto.
      assert (PT : link_post (tr i (sg s)) (tr (S i) g2) i (fst (enode e)) (snd (enode e)) w).
      { apply link_post_trunc; auto. rewrite (ei_len I). auto. }
      constructor; cbn [sg].
      - unfold trs. cbn [sg ncount ecount free_node free_edge].
        apply (@link_post_SInv (trs i s) (tr (S i) g2) (fst (enode e)) (snd (enode e)) w (ei_inv I)).
        + cbn [trs sg tr gedges]. rewrite firstn_length, (ei_len I), Nat.min_l by lia. exact PT.
        + cbn [trs sg tr gedges]. rewrite firstn_length, (ei_len I). lia.
        + exact La.
        + exact Lb.
      - rewrite (lp_elen P), (ei_len I). lia.
      - intros x Hx. rewrite (lp_eother P) by lia. apply (ei_rest I). lia.
      - rewrite (lp_nwt P). apply (ei_nwt I).
      - rewrite <- (ei_data I). apply list_eq_nth. intros x. rewrite !nth_error_map. unfold iedge in *.
        destruct (Nat.eq_dec x i) as [->|Hne].
        + destruct (lp_enew P) as [ed' [E [Hw' [Hn' _]]]]. rewrite E, Hcur. simpl.
          unfold edata. rewrite Hw', Hn', Hw, <- Hnd. reflexivity.
        + rewrite (lp_eother P); auto.
    Qed.

    Lemma lse_spec : forall (rest : list iedge) i s,
      EInv i s -> (forall j, nth_error rest j = nth_error edges0 (i + j)) -> i + length rest = M ->
      (exists s', link_stable_edges cap rest i s = Ok (Some s') /\ EInv M s' /\
          (forall e, In e rest -> ewt e <> None -> occ_ends e)) \/
      (link_stable_edges cap rest i s = Ok None /\
          exists e, In e rest /\ ewt e <> None /\ ~ occ_ends e).
    Proof.
      induction rest as [|e rest IH]; intros i s I Hr Hlen; cbn [link_stable_edges].
      - left. exists s. split; auto. cbn [length] in Hlen. replace M with i by lia.
        split; auto. intros e [].
      - cbn [length] in Hlen.
        assert (He : nth_error edges0 i = Some e).
        { pose proof (Hr 0) as H0. cbn [nth_error] in H0. rewrite Nat.add_0_r in H0. auto. }
        assert (Hrest : forall j, nth_error rest j = nth_error edges0 (S i + j)).
        { intros j. pose proof (Hr (S j)) as Hj. cbn [nth_error] in Hj. rewrite Hj. f_equal; lia. }
        destruct (ewt e) as [w|] eqn:Ew.
        + pose proof (wrong_index_spec (sg s) (fst (enode e)) (snd (enode e))) as Hwi.
          destruct (wrong_index (sg s) (fst (enode e)) (snd (enode e))) as [bad|].
          * right. split; auto. exists e. split; [simpl; auto|]. split; [congruence|].
            intros [Oa Ob]. apply (nwo_occupied (sg s) _ (ei_nwt I)) in Oa.
            apply (nwo_occupied (sg s) _ (ei_nwt I)) in Ob.
            destruct Hwi as [[->| ->] Hv]; contradiction.
          * destruct Hwi as [La Lb].
            destruct (@lse_step_live i s e w I He Ew La Lb) as [g2 [Hrun I2]].
            rewrite Hrun. cbn [rbind].
            destruct (IH (S i) _ I2 Hrest) as [[s' [Hr' [I' Hocc]]]|[Hr' [e' [Hin [Hw' Hn']]]]]; [lia| |].
            -- left. exists s'. split; auto. split; auto. intros e' [<-|Hin] Hw'; auto.
               split; apply (nwo_occupied (sg s) _ (ei_nwt I)); auto.
            -- right. split; auto. exists e'. simpl; auto.
        + destruct (@lse_step_vacant i s e I He Ew) as [g1 [Hrun I1]]. rewrite Hrun. cbn [rbind].
          destruct (IH (S i) _ I1 Hrest) as [[s' [Hr' [I' Hocc]]]|[Hr' [e' [Hin [Hw' Hn']]]]]; [lia| |].
          * left. exists s'. split; auto. split; auto. intros e' [<-|Hin] Hw'; auto. congruence.
          * right. split; auto. exists e'. simpl; auto.
    Qed.

    (* the state handed over by link_free_nodes *)
    Lemma EInv_init g1 fn :
      NInv slots edges0 (length slots) fn g1 -> length slots <= cap ->
      EInv 0 (mkSG g1 (nsome slots) 0 fn cap).
    Proof.
      intros I HN.
      pose proof (NInv_len I) as Hlen.
      set (g' := mkGraph (gnodes g1) [] : IG).
      assert (Hewo : forall x, ewo g' x = None).
      { intros x. unfold ewo. cbn [g' gedges]. destruct x; reflexivity. }
      constructor; cbn [sg].
      - unfold trs, tr. cbn [sg gnodes gedges ncount ecount free_node free_edge firstn]. fold g'.
        constructor; cbn [sg ncount ecount free_node free_edge].
        + constructor.
          * cbn [g' gnodes]. lia.
          * cbn [g' gedges length]. lia.
          * intros k x i Hx. rewrite Hewo in Hx. contradiction.
          * intros k i Hi. apply lv_None in Hi.
            assert (Hi1 : nwo g1 i <> None) by exact Hi.
            pose proof (ni_live I _ Hi1) as Hn. rewrite nth_error_map in Hn.
            destruct (nth_error slots i) as [o|] eqn:Eo.
            -- exists []. split.
               ++ exists (mkNode o (cap, cap)). split; [exact Hn|]. destruct k; simpl; constructor.
               ++ intros x. split; [intros []|]. rewrite Hewo. intros [H _]. contradiction.
            -- exfalso. apply Hi1. unfold nwo. rewrite Hn. reflexivity.
        + intros a H. discriminate.
        + cbn [g' gnodes osome]. rewrite (ni_nwt I). lia.
        + reflexivity.
        + destruct (ni_free I) as [l [Hl [Hb C]]]. exists l. split; [|split].
          * eapply lseg_ext; [|exact Hl]. reflexivity.
          * eapply bkp_frame; [|exact Hb]. reflexivity.
          * intros i. rewrite C. cbn [g' gnodes]. rewrite Hlen.
            change (nwo g' i) with (nwo g1 i). split; [intros [H1 [H2 H3]]|intros [H1 [H2 H3]]].
            -- split; auto. split; auto. discriminate.
            -- auto.
        + exists []. split; [constructor|]. intros x. split; [intros []|].
          cbn [g' gedges length]. lia.
      - rewrite (ni_edges I). reflexivity.
      - intros x _. rewrite (ni_edges I). reflexivity.
      - apply (ni_nwt I).
      - rewrite (ni_edges I). reflexivity.
    Qed.

    Lemma EInv_final s : EInv M s -> SInv cap s.
    Proof.
      intros I. rewrite <- (@trs_all M s) by (rewrite (ei_len I); auto). apply (ei_inv I).
    Qed.
  End Edges.
End SerdeSP.
