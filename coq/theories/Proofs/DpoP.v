(* DfsPostOrder (traversal.rs): emits exactly the reachable nodes, each once, and a node
   only after each of its successors that cannot reach it back. *)
From PG Require Import Lib.Io Model.View Model.Traversal Spec.Reach Proofs.TravBase.
Set Implicit Arguments.

(* ------------------------------------------------------------------ *)
(* A property of every stack entry relative to the entries above it    *)

Fixpoint stk_all (Q : list nat -> nat -> Prop) (ab st : list nat) : Prop :=
  match st with
  | [] => True
  | u :: below => Q ab u /\ stk_all Q (u :: ab) below
  end.

Lemma stk_all_impl (Q Q' : list nat -> nat -> Prop) (R : list nat -> list nat -> Prop) :
  (forall ab ab' u, R ab ab' -> R (u :: ab) (u :: ab')) ->
  (forall ab ab' u, R ab ab' -> Q ab u -> Q' ab' u) ->
  forall st ab ab', R ab ab' -> stk_all Q ab st -> stk_all Q' ab' st.
Proof.
  intros HR HQ. induction st as [|u below IH]; intros ab ab' Hr H; cbn [stk_all] in *; [exact I|].
  destruct H as [Hu Hb]. split.
  - eapply HQ; [exact Hr | exact Hu].
  - eapply IH; [apply HR; exact Hr | exact Hb].
Qed.

Lemma stk_all_app (Q : list nat -> nat -> Prop) l2 : forall l1 ab,
  (forall ab' u, In u l1 -> Q ab' u) -> stk_all Q (rev l1 ++ ab) l2 -> stk_all Q ab (l1 ++ l2).
Proof.
  induction l1 as [|a t IH]; intros ab Hq H; cbn [app rev] in *; [exact H|].
  cbn [stk_all]. split; [apply Hq; left; reflexivity|].
  apply IH; [intros ab' u Hu; apply Hq; right; exact Hu|].
  rewrite <- app_assoc in H. exact H.
Qed.

Lemma stk_all_at (Q : list nat -> nat -> Prop) w b : forall a ab, stk_all Q ab (a ++ w :: b) -> Q (rev a ++ ab) w.
Proof.
  induction a as [|x a IH]; intros ab H; cbn [app rev stk_all] in *; [apply H|].
  rewrite <- app_assoc. apply IH. apply H.
Qed.

Lemma in_split_first (w : nat) l : In w l -> exists a b, l = a ++ w :: b /\ ~ In w a.
Proof.
  induction l as [|x t IH]; intros H; [destruct H|].
  destruct (Nat.eq_dec x w) as [->|Hne].
  - exists [], t. split; [reflexivity | intros []].
  - destruct H as [H|H]; [contradiction|]. destruct (IH H) as [a [b [E Hn]]].
    exists (x :: a), b. split; [rewrite E; reflexivity|]. intros [Hx|Hx]; [contradiction | exact (Hn Hx)].
Qed.

(* ------------------------------------------------------------------ *)
(* Fuel: an entry costs 2 iterations while undiscovered, 1 afterwards  *)

Fixpoint sumw (m : vmap) (l : list nat) : nat :=
  match l with
  | [] => 0
  | x :: t => (if mem x m then 1 else 2) + sumw m t
  end.

Lemma sumw_app m l1 l2 : sumw m (l1 ++ l2) = sumw m l1 + sumw m l2.
Proof. induction l1 as [|x t IH]; cbn [app sumw]; [reflexivity | rewrite IH; lia]. Qed.

Lemma sumw_le2 m l : sumw m l <= 2 * length l.
Proof. induction l as [|x t IH]; cbn [sumw length]; [lia|]. destruct (mem x m); lia. Qed.

Lemma sumw_mark_le m y l : sumw (y :: m) l <= sumw m l.
Proof.
  induction l as [|x t IH]; cbn [sumw mem]; [lia|].
  destruct (Nat.eqb y x); cbn [orb]; destruct (mem x m); lia.
Qed.

Definition pmeas (v : view) (d : dpo) : nat :=
  sumw (pdisc d) (pstack d) + 2 * usum (outdeg v) (pdisc d) (vnodes v).

(* ------------------------------------------------------------------ *)
(* The invariant                                                       *)

(* for a stack entry u with the entries ab above it: once u is discovered, each successor is
   discovered or above it; and while u is open with no copy above, it reaches all above it *)
Definition Qp (v : view) (disc fin : list nat) (ab : list nat) (u : nat) : Prop :=
  In u disc ->
  (forall w, step v u w -> In w disc \/ In w ab) /\
  (~ In u fin -> ~ In u ab -> forall x, In x ab -> reachable v u x).

Record PInv (v : view) (s : nat) (d : dpo) : Prop := {
  p_nodup : NoDup (pfin d);
  p_fin_disc : forall x, In x (pfin d) -> In x (pdisc d);
  p_open : forall x, In x (pdisc d) -> In x (pfin d) \/ In x (pstack d);
  p_reach : forall x, In x (pstack d) -> reachable v s x;
  p_reach_d : forall x, In x (pdisc d) -> reachable v s x;
  p_cap : forall x, In x (pstack d) -> in_cap v x;
  p_stk : stk_all (Qp v (pdisc d) (pfin d)) [] (pstack d);
  p_closed : forall u w, In u (pfin d) -> step v u w -> In w (pdisc d);
  p_order : forall l1 u l2, pfin d = l1 ++ u :: l2 ->
              forall w, step v u w -> ~ reachable v w u -> In w l2;
  p_start : In s (pdisc d) \/ In s (pstack d)
}.

Section DpoInv.
Variable v : view.
Hypothesis Hcap : forall a b, step v a b -> in_cap v b.
Hypothesis Hnodes : forall a b, step v a b -> In a (vnodes v).
Variable s : nat.

Definition ppushes (disc : list nat) (nx : nat) : list nat :=
  filter (fun x => negb (is_visited (nx :: disc) x)) (neighbors v nx).

Lemma ppushes_In disc nx x :
  In x (ppushes disc nx) <-> step v nx x /\ ~ In x (nx :: disc).
Proof.
  unfold ppushes, is_visited. rewrite filter_In, negb_true_iff, mem_false. reflexivity.
Qed.

(* first visit of the top entry: mark it, push its undiscovered successors above it *)
Lemma pinv_discover nx rest disc fin :
  PInv v s (mkDpo (nx :: rest) disc fin) -> ~ In nx disc ->
  PInv v s (mkDpo (rev (ppushes disc nx) ++ nx :: rest) (nx :: disc) fin).
Proof.
  intros I Hn. destruct I as [Hnd Hfd Hop Hre Hrd Hc Hst Hcl Hor Hs0]. cbn [pstack pdisc pfin] in *.
  assert (Rnx : reachable v s nx) by (apply Hre; left; reflexivity).
  assert (Hpush : forall x, In x (rev (ppushes disc nx)) -> step v nx x /\ ~ In x (nx :: disc)).
  { intros x Hx. rewrite <- in_rev in Hx. apply ppushes_In; exact Hx. }
  assert (Hold : forall x, In x (nx :: rest) -> In x (rev (ppushes disc nx) ++ nx :: rest)).
  { intros x Hx. apply in_or_app; right; exact Hx. }
  constructor; cbn [pstack pdisc pfin].
  - exact Hnd.
  - intros x Hx. right. apply Hfd; exact Hx.
  - intros x [<-|Hx]; [right; apply Hold; left; reflexivity|].
    destruct (Hop x Hx) as [H|H]; [left; exact H | right; apply Hold; exact H].
  - intros x Hx. apply in_app_or in Hx. destruct Hx as [Hx|Hx]; [|apply Hre; exact Hx].
    eapply reach_step; [exact Rnx | apply (Hpush x Hx)].
  - intros x [<-|Hx]; [exact Rnx | apply Hrd; exact Hx].
  - intros x Hx. apply in_app_or in Hx. destruct Hx as [Hx|Hx]; [|apply Hc; exact Hx].
    apply (Hcap nx x). apply (Hpush x Hx).
  - apply stk_all_app.
    + intros ab' u Hu Hd. exfalso. apply (proj2 (Hpush u Hu)). exact Hd.
    + rewrite app_nil_r. cbn [stk_all] in *. destruct Hst as [_ Hst].
      assert (Hab : forall x, In x (rev (rev (ppushes disc nx))) <-> step v nx x /\ ~ In x (nx :: disc)).
      { intros x. rewrite rev_involutive. apply ppushes_In. }
      split.
      * intros _. split.
        -- intros w Hw. destruct (in_dec Nat.eq_dec w (nx :: disc)) as [Hd|Hd]; [left; exact Hd|].
           right. apply Hab. split; assumption.
        -- intros _ _ x Hx. apply reachable_step1. apply Hab; exact Hx.
      * set (R := fun ab ab' : list nat =>
                    In nx ab /\ (forall x, In x ab -> In x ab') /\
                    (forall x, In x ab' -> In x ab \/ step v nx x) /\
                    (forall w, step v nx w -> In w (nx :: disc) \/ In w ab')).
        apply (@stk_all_impl (Qp v disc fin) (Qp v (nx :: disc) fin) R) with (ab := [nx]).
        -- intros ab ab' u [R1 [R2 [R3 R4]]]. split; [right; exact R1|]. split; [|split].
           ++ intros x [<-|Hx]; [left; reflexivity | right; apply R2; exact Hx].
           ++ intros x [<-|Hx]; [left; left; reflexivity|].
              destruct (R3 x Hx) as [H|H]; [left; right; exact H | right; exact H].
           ++ intros w Hw. destruct (R4 w Hw) as [H|H]; [left; exact H | right; right; exact H].
        -- intros ab ab' u [R1 [R2 [R3 R4]]] HQ Hu. split.
           ++ intros w Hw. destruct Hu as [<-|Hu]; [apply R4; exact Hw|].
              destruct (proj1 (HQ Hu) w Hw) as [H|H]; [left; right; exact H | right; apply R2; exact H].
           ++ intros Hf Hab' x Hx.
              assert (Hne : nx <> u) by (intros ->; apply Hab', R2, R1).
              destruct Hu as [Hu|Hu]; [contradiction|].
              assert (Hreach : forall y, In y ab -> reachable v u y).
              { apply (proj2 (HQ Hu) Hf). intros Hua; apply Hab', R2, Hua. }
              destruct (R3 x Hx) as [H|H]; [apply Hreach; exact H|].
              eapply reach_step; [apply Hreach; exact R1 | exact H].
        -- unfold R. split; [left; reflexivity|]. split; [|split].
           ++ intros x [<-|[]]. left; reflexivity.
           ++ intros x [<-|Hx]; [left; left; reflexivity | right; apply Hab; exact Hx].
           ++ intros w Hw. destruct (in_dec Nat.eq_dec w (nx :: disc)) as [Hd|Hd]; [left; exact Hd|].
              right; right. apply Hab. split; assumption.
        -- exact Hst.
  - intros u w Hu Hw. right. apply (Hcl u w Hu Hw).
  - exact Hor.
  - destruct Hs0 as [H|H]; [left; right; exact H | right; apply Hold; exact H].
Qed.

(* popping a discovered top entry, whose finished set becomes fin' (fin, or nx :: fin) *)
Lemma pinv_pop_stk nx rest disc fin fin' :
  In nx disc -> In nx fin' -> (forall x, In x fin -> In x fin') ->
  stk_all (Qp v disc fin) [nx] rest -> stk_all (Qp v disc fin') [] rest.
Proof.
  intros Hd Hf' Hinc.
  set (R := fun ab ab' : list nat =>
              (forall x, In x ab' -> In x ab) /\ (forall x, In x ab -> In x ab' \/ x = nx)).
  apply (@stk_all_impl (Qp v disc fin) (Qp v disc fin') R).
  - intros ab ab' u [R1 R2]. split.
    + intros x [<-|Hx]; [left; reflexivity | right; apply R1; exact Hx].
    + intros x [<-|Hx]; [left; left; reflexivity|].
      destruct (R2 x Hx) as [H|H]; [left; right; exact H | right; exact H].
  - intros ab ab' u [R1 R2] HQ Hu. destruct (HQ Hu) as [Q1 Q2]. split.
    + intros w Hw. destruct (Q1 w Hw) as [H|H]; [left; exact H|].
      destruct (R2 w H) as [H' | -> ]; [right; exact H' | left; exact Hd].
    + intros Hnf Hnab x Hx. apply Q2.
      * intros Hf; apply Hnf, Hinc, Hf.
      * intros Hua. destruct (R2 u Hua) as [H | -> ]; [exact (Hnab H) | exact (Hnf Hf')].
      * apply R1; exact Hx.
  - split; [intros x [] | intros x [<-|[]]; right; reflexivity].
Qed.

Lemma pinv_skip nx rest disc fin :
  PInv v s (mkDpo (nx :: rest) disc fin) -> In nx disc -> In nx fin ->
  PInv v s (mkDpo rest disc fin).
Proof.
  intros I Hd Hf. destruct I as [Hnd Hfd Hop Hre Hrd Hc Hst Hcl Hor Hs0]. cbn [pstack pdisc pfin] in *.
  constructor; cbn [pstack pdisc pfin]; auto.
  - intros x Hx. destruct (Hop x Hx) as [H|[<-|H]]; [left; exact H | left; exact Hf | right; exact H].
  - intros x Hx; apply Hre; right; exact Hx.
  - intros x Hx; apply Hc; right; exact Hx.
  - cbn [stk_all] in Hst. apply (@pinv_pop_stk nx rest disc fin fin Hd Hf); [intros x Hx; exact Hx | apply Hst].
  - destruct Hs0 as [H|[<-|H]]; [left; exact H | left; exact Hd | right; exact H].
Qed.

Lemma pinv_finish nx rest disc fin :
  PInv v s (mkDpo (nx :: rest) disc fin) -> In nx disc -> ~ In nx fin ->
  PInv v s (mkDpo rest disc (nx :: fin)).
Proof.
  intros I Hd Hf. destruct I as [Hnd Hfd Hop Hre Hrd Hc Hst Hcl Hor Hs0]. cbn [pstack pdisc pfin] in *.
  cbn [stk_all] in Hst. destruct Hst as [Hq Hst]. destruct (Hq Hd) as [Hsucc _].
  assert (Hsd : forall w, step v nx w -> In w disc).
  { intros w Hw. destruct (Hsucc w Hw) as [H|[]]. exact H. }
  constructor; cbn [pstack pdisc pfin].
  - constructor; assumption.
  - intros x [<-|Hx]; [exact Hd | apply Hfd; exact Hx].
  - intros x Hx. destruct (Hop x Hx) as [H|[<-|H]];
      [left; right; exact H | left; left; reflexivity | right; exact H].
  - intros x Hx; apply Hre; right; exact Hx.
  - exact Hrd.
  - intros x Hx; apply Hc; right; exact Hx.
  - eapply pinv_pop_stk; [exact Hd | left; reflexivity | intros x Hx; right; exact Hx | exact Hst].
  - intros u w [<-|Hu] Hw; [apply Hsd; exact Hw | apply (Hcl u w Hu Hw)].
  - intros l1 u l2 E w Hw Hnr. destruct l1 as [|y l1]; cbn [app] in E.
    + injection E as -> ->.
      destruct (in_dec Nat.eq_dec w l2) as [Hin|Hout]; [exact Hin|]. exfalso.
      assert (Hwd : In w disc) by (apply Hsd; exact Hw).
      destruct (Hop w Hwd) as [H|[<-|H]]; [exact (Hout H) | apply Hnr, reach_refl |].
      destruct (@in_split_first w rest H) as [a [b [Er Hna]]]. rewrite Er in Hst.
      apply stk_all_at in Hst. destruct (Hst Hwd) as [_ Hch].
      apply Hnr. apply Hch; [exact Hout | |apply in_or_app; right; left; reflexivity].
      intros Hwa. apply in_app_or in Hwa. destruct Hwa as [Hwa|[->|[]]].
      * rewrite <- in_rev in Hwa. exact (Hna Hwa).
      * apply Hnr, reach_refl.
    + injection E as -> E. apply (Hor l1 u l2 E w Hw Hnr).
  - destruct Hs0 as [H|[<-|H]]; [left; exact H | left; exact Hd | right; exact H].
Qed.

Lemma pmeas_discover nx rest disc fin : ~ In nx disc ->
  pmeas v (mkDpo (rev (ppushes disc nx) ++ nx :: rest) (nx :: disc) fin)
  < pmeas v (mkDpo (nx :: rest) disc fin).
Proof.
  intros Hn. unfold pmeas. cbn [pstack pdisc]. rewrite sumw_app. cbn [sumw mem].
  rewrite Nat.eqb_refl. cbn [orb]. apply mem_false in Hn. rewrite Hn.
  pose proof (sumw_le2 (nx :: disc) (rev (ppushes disc nx))) as H1. rewrite rev_length in H1.
  pose proof (filter_length_le (fun x => negb (is_visited (nx :: disc) x)) (neighbors v nx)) as H2.
  fold (ppushes disc nx) in H2.
  pose proof (sumw_mark_le disc nx rest) as H3.
  pose proof (usum_outdeg_mark v disc nx Hnodes Hn) as H4. unfold outdeg in H4 at 2. lia.
Qed.

Lemma pmeas_pop nx rest disc fin fin' :
  pmeas v (mkDpo rest disc fin') < pmeas v (mkDpo (nx :: rest) disc fin).
Proof. unfold pmeas. cbn [pstack pdisc sumw]. destruct (mem nx disc); lia. Qed.

Lemma dpo_next_ok : forall fuel d, PInv v s d -> pmeas v d < fuel ->
  exists o d', dpo_next fuel v d = Ok (o, d') /\ PInv v s d' /\ pmeas v d' <= pmeas v d /\
    match o with
    | None => pstack d' = [] /\ pfin d' = pfin d
    | Some n => pfin d' = n :: pfin d /\ pmeas v d' < pmeas v d
    end.
Proof.
  induction fuel as [|f IH]; intros d I Hf; [lia|].
  cbn [dpo_next]. destruct d as [st disc fin]. cbn [pstack pdisc pfin].
  destruct st as [|nx rest].
  - exists None, (mkDpo [] disc fin). split; [reflexivity|]. split; [exact I|]. split; [lia|].
    split; reflexivity.
  - assert (Hc : in_cap v nx) by (apply (p_cap I); left; reflexivity).
    rewrite (visit_ok v disc nx Hc). cbn [rbind].
    destruct (mem nx disc) eqn:Em; cbn [negb].
    + apply mem_In in Em. rewrite (visit_ok v fin nx Hc). cbn [rbind].
      destruct (mem nx fin) eqn:Ef; cbn [negb].
      * apply mem_In in Ef.
        pose proof (pmeas_pop nx rest disc fin fin) as Hm.
        destruct (IH _ (pinv_skip I Em Ef)) as [o [d' [E [I' [Hle Ho]]]]]; [lia|].
        exists o, d'. split; [exact E|]. split; [exact I'|]. split; [lia|].
        destruct o as [n|]; cbn [pfin] in *; [split; [apply Ho | lia] | exact Ho].
      * apply mem_false in Ef.
        pose proof (pmeas_pop nx rest disc fin (nx :: fin)) as Hm.
        exists (Some nx), (mkDpo rest disc (nx :: fin)). split; [reflexivity|].
        split; [exact (pinv_finish I Em Ef)|]. split; [lia|]. split; [reflexivity | exact Hm].
    + apply mem_false in Em.
      pose proof (@pmeas_discover nx rest disc fin Em) as Hm. fold (ppushes disc nx).
      destruct (IH _ (pinv_discover I Em)) as [o [d' [E [I' [Hle Ho]]]]]; [lia|].
      exists o, d'. split; [exact E|]. split; [exact I'|]. split; [lia|].
      destruct o as [n|]; cbn [pfin] in *; [split; [apply Ho | lia] | exact Ho].
Qed.

Lemma dpo_drain_ok : forall fuel d, PInv v s d -> pmeas v d < fuel ->
  pmeas v d < trav_fuel v + trav_fuel v ->
  exists l d', dpo_drain fuel v d = Ok (l, d') /\ PInv v s d' /\ pstack d' = [] /\
               pfin d' = rev l ++ pfin d.
Proof.
  induction fuel as [|f IH]; intros d I Hf Ht; [lia|].
  cbn [dpo_drain].
  destruct (dpo_next_ok I Ht) as [o [d1 [E [I1 [Hle Ho]]]]]. rewrite E. cbn [rbind].
  destruct o as [n|].
  - destruct Ho as [Ef Hlt]. destruct (IH d1 I1) as [l [d2 [E2 [I2 [S2 F2]]]]]; [lia|lia|].
    rewrite E2. cbn [rmap]. exists (n :: l), d2. split; [reflexivity|]. split; [exact I2|].
    split; [exact S2|]. rewrite F2, Ef. cbn [rev]. rewrite <- app_assoc. reflexivity.
  - destruct Ho as [S1 F1]. exists [], d1. split; [reflexivity|]. split; [exact I1|].
    split; [exact S1 | exact F1].
Qed.

End DpoInv.

Theorem dpo_spec v s fuel :
  cap_ok v -> nodes_ok v -> in_cap v s -> trav_fuel v + trav_fuel v <= fuel ->
  exists l d', dpo_drain fuel v (mkDpo [s] [] []) = Ok (l, d') /\ NoDup l /\
    (forall x, In x l <-> reachable v s x) /\
    (forall l1 u l2 w, l = l1 ++ u :: l2 -> step v u w -> ~ reachable v w u -> In w l1).
Proof.
  intros [Hcap _] Hnodes Hs Hfuel.
  assert (Hn1 : forall a b, step v a b -> In a (vnodes v)) by (intros a b H; apply (Hnodes a b H)).
  assert (I0 : PInv v s (mkDpo [s] [] [])).
  { constructor; cbn [pstack pdisc pfin].
    - constructor.
    - intros x [].
    - intros x [].
    - intros x [<-|[]]. apply reach_refl.
    - intros x [].
    - intros x [<-|[]]. exact Hs.
    - cbn [stk_all]. split; [intros [] | exact I].
    - intros u w [].
    - intros l1 u l2 E. destruct l1; discriminate E.
    - right; left; reflexivity. }
  assert (M0 : pmeas v (mkDpo [s] [] []) < trav_fuel v + trav_fuel v).
  { unfold pmeas. cbn [pstack pdisc sumw mem]. rewrite usum_outdeg_all.
    pose proof (trav_fuel_big v). lia. }
  destruct (@dpo_drain_ok v Hcap Hn1 s fuel _ I0) as [l [d' [E [I [S F]]]]]; [lia | exact M0 |].
  cbn [pfin] in F. rewrite app_nil_r in F.
  destruct I as [Hnd Hfd Hop Hre Hrd Hc Hst Hcl Hor Hs0].
  exists l, d'. split; [exact E|]. split; [|split].
  - rewrite <- (rev_involutive l), <- F. apply NoDup_rev; exact Hnd.
  - intros x. rewrite in_rev, <- F. split.
    + intros Hx. apply Hrd, Hfd, Hx.
    + assert (Hdf : forall y, In y (pdisc d') -> In y (pfin d')).
      { intros y Hy. destruct (Hop y Hy) as [H|H]; [exact H | rewrite S in H; destruct H]. }
      intros R. induction R as [|x y Rx IHx Hxy].
      * apply Hdf. destruct Hs0 as [H|H]; [exact H | rewrite S in H; destruct H].
      * apply Hdf. apply (Hcl x y IHx Hxy).
  - intros l1 u l2 w El Hw Hnr. rewrite in_rev. apply (Hor (rev l2) u (rev l1)); auto.
    rewrite F, El, rev_app_distr. cbn [rev]. rewrite <- app_assoc. reflexivity.
Qed.
