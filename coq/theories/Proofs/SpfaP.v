(* spfa over a view (bounded integer costs, max() = unreachable, overflowing adds skipped):
   totality, exact distances and predecessor tree when no negative cycle is reachable,
   detection of every reachable negative cycle when no addition leaves the range. *)
From Coq Require Import Lia ZArith List.
From PG Require Import Lib.Io Model.View Model.Traversal Model.ShortestM Spec.Paths Proofs.BellmanFordP.
Set Implicit Arguments.
Unset Strict Implicit.
Open Scope Z_scope.

(* ------------------------------------------------------------------ arrays *)
Lemma eget_nth {A} (l : list A) i dflt : (i < length l)%nat -> eget l i = Ok (nth i l dflt).
Proof.
  intros H. unfold eget. destruct (@nth_error_lt_Some _ l i H) as [x Hx].
  rewrite Hx, (@nth_error_nth_default _ l i dflt x Hx). reflexivity.
Qed.

Lemma nth_upd_eq {A} (l : list A) i x d : (i < length l)%nat -> nth i (upd l i x) d = x.
Proof.
  intros H. rewrite nth_upd, Nat.eqb_refl. destruct (Nat.ltb_spec i (length l)); [reflexivity|lia].
Qed.

Lemma nth_upd_neq {A} (l : list A) i j x d : i <> j -> nth j (upd l i x) d = nth j l d.
Proof. intros H. rewrite nth_upd. destruct (Nat.eqb_spec i j); [congruence|reflexivity]. Qed.

Lemma nth_oob {A} (l : list A) i d : (length l <= i)%nat -> nth i l d = d.
Proof. intros H. apply nth_overflow; auto. Qed.

Lemma list_sum_upd l i x : (i < length l)%nat ->
  (list_sum (upd l i x) + nth i l 0 = list_sum l + x)%nat.
Proof.
  revert i; induction l as [|h t IH]; intros [|i] H; cbn [length] in H; try lia.
  - simpl. lia.
  - simpl. specialize (IH i). lia.
Qed.

Lemma list_sum_le l m : (forall x, nth x l 0 <= m)%nat -> (list_sum l <= m * length l)%nat.
Proof.
  induction l as [|h t IH]; intros H; simpl; [lia|].
  pose proof (H 0%nat) as H0. simpl in H0.
  assert (Ht : (forall x, nth x t 0 <= m)%nat) by (intros x; apply (H (S x))).
  specialize (IH Ht). nia.
Qed.

Lemma NoDup_app_snoc {A} (l : list A) x : NoDup l -> ~ In x l -> NoDup (l ++ [x]).
Proof.
  induction l as [|a t IH]; cbn [app]; intros Hnd Hnin.
  - constructor; [intros []|constructor].
  - inversion Hnd as [|a' l' Ha Ht]; subst. constructor.
    + intros Hin. apply in_app_or in Hin. destruct Hin as [Hin|[<-|[]]]; auto. apply Hnin; left; auto.
    + apply IH; auto. intros Hin; apply Hnin; right; auto.
Qed.

(* ------------------------------------------------------------------ simple walks *)
Definition wsimple (s : nat) (w : list eref) : Prop := NoDup (s :: map tgt w).

Lemma wsimple_nil s : wsimple s [].
Proof. constructor; [intros []|constructor]. Qed.

Lemma wsimple_prefix s w1 w2 : wsimple s (w1 ++ w2) -> wsimple s w1.
Proof.
  unfold wsimple. rewrite map_app. intros H.
  change (s :: map tgt w1 ++ map tgt w2) with ((s :: map tgt w1) ++ map tgt w2) in H.
  revert H. generalize (s :: map tgt w1) as l1. generalize (map tgt w2) as l2.
  intros l2 l1. induction l1 as [|a t IH]; cbn [app]; intros H; [constructor|].
  inversion H as [|a' l' Hnin Hnd]; subst. constructor; auto.
  intros Hin. apply Hnin. apply in_or_app; auto.
Qed.

(* every walk contains a simple walk with the same ends, not longer; it is not more
   expensive unless a negative closed walk was cut out *)
Lemma walk_simplify v s : forall N w x, (length w <= N)%nat -> walk v s w x ->
  exists w', walk v s w' x /\ wsimple s w' /\ (length w' <= length w)%nat /\
             (walk_cost w' <= walk_cost w \/ neg_cycle_reachable v s).
Proof.
  induction N as [|N IH]; intros w x Hlen W.
  - destruct w; [|cbn [length] in Hlen; lia]. exists []. split; auto. split; [apply wsimple_nil|].
    split; auto. left; lia.
  - destruct (walk_cycle_split W) as [Hnd|[p1 [c [p2 [z [Hq [Hc [W1 [Wc W2]]]]]]]]].
    + exists w. split; auto. split; auto. split; auto. left; lia.
    + assert (Hc' : (1 <= length c)%nat) by (destruct c; [congruence|cbn [length]; lia]).
      subst w. rewrite !app_length in Hlen.
      destruct (IH (p1 ++ p2) x) as [w' [W' [Hs' [Hl' Hcost]]]].
      * rewrite app_length; lia.
      * eapply walk_app; eauto.
      * exists w'. split; auto. split; auto. rewrite !app_length in *. split; [lia|].
        destruct Hcost as [Hcost|Hn]; auto.
        destruct (Z_lt_le_dec (walk_cost c) 0) as [Hneg|Hpos].
        -- right. exists z, p1, c. auto.
        -- left. rewrite !walk_cost_app in *. lia.
Qed.

Section Spfa.
  Variables kmin kmax : Z.
  Variable v : view.
  Variable s : nat.
  Hypothesis HB : BOk v.
  Hypothesis Hs : (s < vbound v)%nat.
  Hypothesis Hk0 : 0 < kmax.
  (* a bound on the length of the out-lists *)
  Variable Dg : nat.
  Hypothesis Hdeg : forall a, (length (out_edges v a) <= Dg)%nat.

  Let n := vbound v.
  Definition Lmax : nat := (n * n * Dg)%nat.

  (* no walk of at most Lmax entries from the source costs less than min() *)
  Definition LowOK : Prop :=
    forall w x, walk v s w x -> (length w <= Lmax)%nat -> kmin <= walk_cost w.

  Definition dz (d : list Z) (x : nat) : Z := nth x d kmax.
  Definition pz (p : list (option nat)) (x : nat) : option nat := nth x p None.
  Definition iq (inq : list bool) (x : nat) : bool := nth x inq false.
  Definition vz (vis : list nat) (x : nat) : nat := nth x vis 0%nat.

  Lemma tgt_lt' a e : In e (out_edges v a) -> (tgt e < n)%nat.
  Proof. intros He. apply (bok_bound HB). apply (bok_tgt HB _ _ He). Qed.

  Lemma src_in' a e : In e (out_edges v a) -> In a (vnodes v).
  Proof. intros He. apply (bok_src HB). intros E; rewrite E in He; destruct He. Qed.

  Unset Implicit Arguments.
  (* everything but the "settled" part of the invariant; C bounds the length of the witnesses *)
  Record Core (C : nat) (d : list Z) (p : list (option nat)) (inq : list bool) (q : list nat) : Prop := {
    cLd : length d = n;
    cLp : length p = n;
    cLi : length inq = n;
    cU : forall x, dz d x <= kmax;
    cW : forall x, dz d x < kmax ->
           exists w, walk v s w x /\ walk_cost w = dz d x /\ (length w <= C)%nat;
    cS : dz d s <= 0;
    cQ1 : forall x, iq inq x = true <-> In x q;
    cQ2 : NoDup q;
    cQ3 : forall x, In x q -> (x < n)%nat;
    cQ4 : forall x, In x q -> dz d x < kmax;
    cP : forall x, dz d x < kmax ->
           (x = s /\ pz p x = None /\ dz d x = 0) \/
           (exists u e, pz p x = Some u /\ In e (out_edges v u) /\ tgt e = x /\ dz d u < kmax /\
                        dz d u + ewgt e <= dz d x /\ (x = s -> dz d x < 0));
    cN : forall x, dz d x = kmax -> pz p x = None
  }.

  Arguments cLd {C d p inq q} _.
  Arguments cLp {C d p inq q} _.
  Arguments cLi {C d p inq q} _.
  Arguments cU {C d p inq q} _ x.
  Arguments cW {C d p inq q} _ x _.
  Arguments cS {C d p inq q} _.
  Arguments cQ1 {C d p inq q} _ x.
  Arguments cQ2 {C d p inq q} _.
  Arguments cQ3 {C d p inq q} _ x _.
  Arguments cQ4 {C d p inq q} _ x _.
  Arguments cP {C d p inq q} _ x _.
  Arguments cN {C d p inq q} _ x _.

  Lemma Core_mono C C' d p inq q : (C <= C')%nat -> Core C d p inq q -> Core C' d p inq q.
  Proof.
    intros Hle H. destruct H. constructor; auto.
    intros x Hx. destruct (cW0 x Hx) as [w [W [Cw Lw]]]. exists w. repeat split; auto. lia.
  Qed.

  Definition Settled (P : nat -> eref -> Prop) (d : list Z) (inq : list bool) : Prop :=
    forall u, iq inq u = false -> dz d u < kmax -> forall e, P u e -> dz d (tgt e) <= dz d u + ewgt e.

  Definition Pall (u : nat) (e : eref) : Prop := In e (out_edges v u).
  Definition Pin (i : nat) (done : list eref) (u : nat) (e : eref) : Prop :=
    (u <> i /\ In e (out_edges v u)) \/ (u = i /\ In e done).

  Lemma dz_lt_n d x : length d = n -> dz d x < kmax -> (x < n)%nat.
  Proof.
    intros Hl H. destruct (Nat.lt_ge_cases x n) as [|Hge]; auto.
    unfold dz in H. rewrite nth_oob in H by lia. lia.
  Qed.

  (* ---------------------------------------------------------------- the edges of one popped node *)
  Lemma spfa_edges_spec i C : (i < n)%nat -> (C + length (out_edges v i) <= Lmax)%nat ->
    forall es done d p inq q, out_edges v i = done ++ es ->
      Core (C + length done) d p inq q -> (LowOK -> Settled (Pin i done) d inq) -> dz d i < kmax ->
      exists d' p' inq' add,
        spfa_edges kmin kmax i es d p inq q = Ok (d', p', inq', q ++ add) /\
        Core (C + length (out_edges v i)) d' p' inq' (q ++ add) /\
        (LowOK -> Settled (Pin i (out_edges v i)) d' inq') /\
        (forall x, dz d' x <= dz d x) /\
        (LowOK -> forall e, In e es -> dz d' (tgt e) <= dz d i + ewgt e) /\
        (add <> [] -> exists j w, walk v s w j /\ walk_cost w < dz d j).
  Proof.
    intros Hi HC. induction es as [|e rest IH]; intros done d p inq q Hout HCo HSet Hdi.
    - exists d, p, inq, []. cbn [spfa_edges]. rewrite !app_nil_r in *. subst done.
      split; auto. split; auto. split; auto. split; [intros; lia|]. split; [intros _ e []|congruence].
    - assert (He : In e (out_edges v i)) by (rewrite Hout; apply in_or_app; right; left; auto).
      assert (Hout' : out_edges v i = (done ++ [e]) ++ rest) by (rewrite <- app_assoc; exact Hout).
      assert (Hlen' : length (done ++ [e]) = S (length done)) by (rewrite app_length; cbn [length]; lia).
      assert (Hdl : (S (length done) <= length (out_edges v i))%nat).
      { rewrite Hout', app_length, Hlen'. lia. }
      pose proof (tgt_lt' He) as Hj. set (j := tgt e) in *.
      cbn [spfa_edges]. fold j.
      rewrite (eget_nth kmax) by (rewrite (cLd HCo); auto).
      rewrite (eget_nth (l:=d) kmax) by (rewrite (cLd HCo); auto). cbn [rbind].
      fold (dz d i). fold (dz d j). set (r := dz d i + ewgt e).
      destruct (cW HCo _ Hdi) as [wi [Wi [Ci Li]]].
      pose proof (walk_snoc e Wi He) as Wj. fold j in Wj.
      assert (Cj : walk_cost (wi ++ [e]) = r) by (rewrite walk_cost_snoc; subst r; lia).
      assert (Lj : (length (wi ++ [e]) <= C + S (length done))%nat)
        by (rewrite app_length; cbn [length]; lia).
      (* the step that changes nothing *)
      assert (Hskip : (LowOK -> dz d j <= r) ->
        exists d' p' inq' add,
          spfa_edges kmin kmax i rest d p inq q = Ok (d', p', inq', q ++ add) /\
          Core (C + length (out_edges v i)) d' p' inq' (q ++ add) /\
          (LowOK -> Settled (Pin i (out_edges v i)) d' inq') /\
          (forall x, dz d' x <= dz d x) /\
          (LowOK -> forall e0, In e0 (e :: rest) -> dz d' (tgt e0) <= dz d i + ewgt e0) /\
          (add <> [] -> exists j w, walk v s w j /\ walk_cost w < dz d j)).
      { intros Hle.
        destruct (IH (done ++ [e]) d p inq q Hout') as [d' [p' [inq' [add [E [HCo' [HSet' [Hmono [Hc Hd]]]]]]]]]; auto.
        - rewrite Hlen'. apply (Core_mono (C + length done)); [lia|auto].
        - intros HL u Hu Hdu e0 [[Hne Hin]|[-> Hin]].
          + apply (HSet HL u Hu Hdu). left; auto.
          + apply in_app_or in Hin. destruct Hin as [Hin|[<-|[]]].
            * apply (HSet HL i Hu Hdu). right; auto.
            * fold j. fold r. auto.
        - exists d', p', inq', add. split; auto. split; auto. split; auto. split; auto. split; auto.
          intros HL e0 [<-|Hin]; [|apply (Hc HL _ Hin)].
          fold j. fold r. specialize (Hmono j). specialize (Hle HL). lia. }
      unfold ov_add. fold r.
      destruct (Z.ltb_spec kmax r) as [Hov|Hnov].
      { cbn [negb andb]. apply Hskip. intros _. pose proof (cU HCo j). lia. }
      destruct (Z.ltb_spec r kmin) as [Hun|Hnun].
      { cbn [negb andb]. apply Hskip. intros HL. exfalso.
        assert (kmin <= walk_cost (wi ++ [e])); [|lia].
        apply (HL _ _ Wj). lia. }
      cbn [negb andb].
      destruct (Z.ltb_spec r (dz d j)) as [Hlt|Hge]; [|apply Hskip; intros _; lia].
      rewrite (eget_nth false) by (rewrite (cLi HCo); auto). cbn [rbind]. fold (iq inq j).
      set (d1 := upd d j r). set (p1 := upd p j (Some i)).
      set (inq1 := if iq inq j then inq else upd inq j true).
      set (q1 := if iq inq j then q else q ++ [j]).
      assert (Hd1 : forall x, dz d1 x = if Nat.eqb j x then r else dz d x).
      { intros x. unfold dz, d1. destruct (Nat.eqb_spec j x) as [<-|Hne].
        - apply nth_upd_eq. rewrite (cLd HCo); auto.
        - apply nth_upd_neq; auto. }
      assert (Hp1 : forall x, pz p1 x = if Nat.eqb j x then Some i else pz p x).
      { intros x. unfold pz, p1. destruct (Nat.eqb_spec j x) as [<-|Hne].
        - apply nth_upd_eq. rewrite (cLp HCo); auto.
        - apply nth_upd_neq; auto. }
      assert (Hi1 : forall x, iq inq1 x = if Nat.eqb j x then true else iq inq x).
      { intros x. unfold inq1. destruct (iq inq j) eqn:Ej.
        - destruct (Nat.eqb_spec j x) as [<-|Hne]; auto.
        - unfold iq. destruct (Nat.eqb_spec j x) as [<-|Hne].
          + apply nth_upd_eq. rewrite (cLi HCo); auto.
          + apply nth_upd_neq; auto. }
      assert (Hq1 : forall x, In x q1 <-> (x = j \/ In x q)).
      { intros x. unfold q1. destruct (iq inq j) eqn:Ej.
        - split; auto. intros [->|H]; auto. apply (cQ1 HCo); auto.
        - rewrite in_app_iff. cbn [In]. intuition. }
      assert (Hmono1 : forall x, dz d1 x <= dz d x).
      { intros x. rewrite Hd1. destruct (Nat.eqb_spec j x) as [<-|]; lia. }
      assert (Hrk : r < kmax) by (pose proof (cU HCo j); lia).
      assert (HCo1 : Core (C + length (done ++ [e])) d1 p1 inq1 q1).
      { rewrite Hlen'. constructor.
        - unfold d1. rewrite upd_length. apply (cLd HCo).
        - unfold p1. rewrite upd_length. apply (cLp HCo).
        - unfold inq1. destruct (iq inq j); [|rewrite upd_length]; apply (cLi HCo).
        - intros x. specialize (Hmono1 x). pose proof (cU HCo x). lia.
        - intros x. rewrite Hd1. destruct (Nat.eqb_spec j x) as [<-|Hne].
          + intros _. exists (wi ++ [e]). auto.
          + intros Hx. destruct (cW HCo _ Hx) as [w [W [Cw Lw]]]. exists w. repeat split; auto. lia.
        - specialize (Hmono1 s). pose proof (cS HCo). lia.
        - intros x. rewrite Hi1, Hq1. destruct (Nat.eqb_spec j x) as [<-|Hne].
          + split; auto.
          + rewrite (cQ1 HCo). split; auto. intros [->|H]; [congruence|auto].
        - unfold q1. destruct (iq inq j) eqn:Ej; [apply (cQ2 HCo)|].
          apply NoDup_app_snoc; [apply (cQ2 HCo)|].
          intros Hin. apply (cQ1 HCo) in Hin. congruence.
        - intros x Hx. apply Hq1 in Hx. destruct Hx as [->|Hx]; auto. apply (cQ3 HCo _ Hx).
        - intros x Hx. apply Hq1 in Hx. specialize (Hmono1 x). destruct Hx as [->|Hx].
          + rewrite Hd1, Nat.eqb_refl. auto.
          + pose proof (cQ4 HCo _ Hx). lia.
        - intros x. rewrite Hd1 at 1. rewrite Hp1. destruct (Nat.eqb_spec j x) as [<-|Hne].
          + intros _. right. exists i, e. split; auto. split; auto. split; auto.
            pose proof (Hmono1 i) as Hmi. split; [lia|]. rewrite (Hd1 j), Nat.eqb_refl.
            split; [subst r; lia|]. intros Hjs. rewrite Hjs in Hlt. pose proof (cS HCo). lia.
          + intros Hx. rewrite Hd1. destruct (Nat.eqb_spec j x); [congruence|].
            destruct (cP HCo _ Hx) as [[Hxs [Hpx Hd0]]|[u [e0 [Hpx [He0 [Ht [Hu [Hle Hneg]]]]]]]].
            * left. auto.
            * right. exists u, e0. pose proof (Hmono1 u). repeat split; auto; lia.
        - intros x. rewrite Hd1, Hp1. destruct (Nat.eqb_spec j x) as [<-|Hne]; [lia|].
          apply (cN HCo). }
      assert (HSet1 : LowOK -> Settled (Pin i (done ++ [e])) d1 inq1).
      { intros HL u Hu Hdu e0 HP. rewrite Hi1 in Hu.
        destruct (Nat.eqb_spec j u) as [Heq|Hne]; [discriminate|].
        rewrite (Hd1 u) in *. destruct (Nat.eqb_spec j u); [congruence|].
        pose proof (Hmono1 (tgt e0)) as Hm0.
        destruct HP as [[Hui Hin]|[-> Hin]].
        - assert (dz d (tgt e0) <= dz d u + ewgt e0); [|lia]. apply (HSet HL u Hu Hdu). left; auto.
        - apply in_app_or in Hin. destruct Hin as [Hin|[<-|[]]].
          + assert (dz d (tgt e0) <= dz d i + ewgt e0); [|lia]. apply (HSet HL i Hu Hdu). right; auto.
          + fold j. rewrite Hd1, Nat.eqb_refl. subst r; lia. }
      assert (Hdi1 : dz d1 i < kmax) by (specialize (Hmono1 i); lia).
      destruct (IH (done ++ [e]) d1 p1 inq1 q1 Hout' HCo1 HSet1 Hdi1)
        as [d' [p' [inq' [add [E [HCo' [HSet' [Hmono [Hc Hd]]]]]]]]].
      assert (Hq1' : exists add1, q1 = q ++ add1).
      { unfold q1. destruct (iq inq j); [exists []; rewrite app_nil_r; auto|exists [j]; auto]. }
      destruct Hq1' as [add1 Hq1'].
      exists d', p', inq', (add1 ++ add). rewrite app_assoc, <- Hq1'.
      split; auto. split; auto. split; auto.
      split; [intros x; specialize (Hmono x); specialize (Hmono1 x); lia|].
      split.
      + intros HL e0 [<-|Hin].
        * fold j. specialize (Hmono j). rewrite Hd1, Nat.eqb_refl in Hmono. subst r; lia.
        * specialize (Hc HL _ Hin). specialize (Hmono1 i). lia.
      + intros _. exists j, (wi ++ [e]). split; auto. lia.
  Qed.

  (* ---------------------------------------------------------------- the loop invariant *)
  Definition BI (d : list Z) (p : list (option nat)) (inq : list bool) (vis : list nat) (q : list nat) : Prop :=
    Core (list_sum vis * Dg) d p inq q /\ (LowOK -> Settled Pall d inq) /\ length vis = n /\
    (forall x, (vz vis x <= n)%nat).

  Lemma vis_upd vis i x : (i < length vis)%nat ->
    vz (upd vis i (S (vz vis i))) x = if Nat.eqb i x then S (vz vis i) else vz vis x.
  Proof.
    intros Hi. unfold vz. destruct (Nat.eqb_spec i x) as [<-|Hne].
    - apply nth_upd_eq; auto.
    - apply nth_upd_neq; auto.
  Qed.

  Lemma sum_vis_upd vis i : (i < length vis)%nat ->
    list_sum (upd vis i (S (vz vis i))) = S (list_sum vis).
  Proof. intros Hi. pose proof (@list_sum_upd vis i (S (vz vis i)) Hi) as H. unfold vz in *. lia. Qed.

  Lemma sum_vis_le vis : length vis = n -> (forall x, (vz vis x <= n)%nat) -> (list_sum vis <= n * n)%nat.
  Proof. intros Hl Hv. pose proof (@list_sum_le vis n Hv). rewrite Hl in *. lia. Qed.

  Lemma sum_vis_lt vis i : length vis = n -> (forall x, (vz vis x <= n)%nat) -> (i < n)%nat ->
    (vz vis i < n)%nat -> (list_sum vis < n * n)%nat.
  Proof.
    intros Hl Hv Hi Hlt.
    assert (H : (list_sum (upd vis i (S (vz vis i))) <= n * n)%nat).
    { apply sum_vis_le; [rewrite upd_length; auto|].
      intros x. rewrite vis_upd by lia. destruct (Nat.eqb i x); [lia|apply Hv]. }
    rewrite sum_vis_upd in H by lia. lia.
  Qed.

  Lemma spfa_pop_spec d p inq vis i rest : BI d p inq vis (i :: rest) -> (vz vis i < n)%nat ->
    exists d' p' inq' add,
      spfa_edges kmin kmax i (out_edges v i) d p (upd inq i false) rest = Ok (d', p', inq', rest ++ add) /\
      BI d' p' inq' (upd vis i (S (vz vis i))) (rest ++ add) /\
      (forall x, dz d' x <= dz d x) /\
      (LowOK -> forall e, In e (out_edges v i) -> dz d' (tgt e) <= dz d i + ewgt e) /\
      (add <> [] -> exists j w, walk v s w j /\ walk_cost w < dz d j).
  Proof.
    intros [HCo [HSet [Hlv Hv]]] Hvi.
    assert (Hi : (i < n)%nat) by (apply (cQ3 HCo); left; auto).
    pose proof (sum_vis_lt vis i Hlv Hv Hi Hvi) as Hsum.
    pose proof (Hdeg i) as Hdi.
    assert (HC : (list_sum vis * Dg + length (out_edges v i) <= Lmax)%nat) by (unfold Lmax; nia).
    assert (Hnd : ~ In i rest /\ NoDup rest).
    { pose proof (cQ2 HCo) as H. inversion H; auto. }
    destruct Hnd as [Hnin Hnd].
    assert (Hiq : forall x, iq (upd inq i false) x = if Nat.eqb i x then false else iq inq x).
    { intros x. unfold iq. destruct (Nat.eqb_spec i x) as [<-|Hne].
      - apply nth_upd_eq. rewrite (cLi HCo); auto.
      - apply nth_upd_neq; auto. }
    destruct (spfa_edges_spec i (list_sum vis * Dg) Hi HC (out_edges v i) [] d p (upd inq i false) rest eq_refl)
      as [d' [p' [inq' [add [E [HCo' [HSet' [Hmono [Hc Hd]]]]]]]]].
    - cbn [length]. rewrite Nat.add_0_r. constructor.
      + apply (cLd HCo).
      + apply (cLp HCo).
      + rewrite upd_length. apply (cLi HCo).
      + apply (cU HCo).
      + apply (cW HCo).
      + apply (cS HCo).
      + intros x. rewrite Hiq. destruct (Nat.eqb_spec i x) as [<-|Hne].
        * split; [discriminate|contradiction].
        * rewrite (cQ1 HCo). cbn [In]. split; auto. intros [H|H]; [congruence|auto].
      + exact Hnd.
      + intros x Hx. apply (cQ3 HCo); right; auto.
      + intros x Hx. apply (cQ4 HCo); right; auto.
      + apply (cP HCo).
      + apply (cN HCo).
    - intros HL u Hu Hdu e [[Hne Hin]|[_ []]]. rewrite Hiq in Hu.
      destruct (Nat.eqb_spec i u); [congruence|]. apply (HSet HL u Hu Hdu). exact Hin.
    - apply (cQ4 HCo); left; auto.
    - exists d', p', inq', add. split; auto. split; [|auto].
      split; [|split; [|split]].
      + apply (Core_mono (list_sum vis * Dg + length (out_edges v i))); auto.
        rewrite sum_vis_upd by lia. lia.
      + intros HL u Hu Hdu e He. apply (HSet' HL u Hu Hdu).
        destruct (Nat.eq_dec u i) as [->|Hne]; [right|left]; auto.
      + rewrite upd_length; auto.
      + intros x. rewrite vis_upd by lia. destruct (Nat.eqb i x); [lia|apply Hv].
  Qed.

  (* the loop ends within n * n + 2 steps, without panic, in a state that satisfies the invariant *)
  Lemma spfa_loop_total : forall fuel d p inq vis q, BI d p inq vis q ->
    (n * n + 2 <= fuel + list_sum vis)%nat ->
    exists r, spfa_loop kmin kmax fuel v d p inq vis q = Ok r /\
      forall d' p', r = Some (d', p') -> exists inq' vis', BI d' p' inq' vis' [].
  Proof.
    induction fuel as [|f IH]; intros d p inq vis q HBI Hfuel.
    - destruct HBI as [_ [_ [Hlv Hv]]]. pose proof (sum_vis_le vis Hlv Hv). lia.
    - cbn [spfa_loop]. destruct q as [|i rest].
      + exists (Some (d, p)). split; auto. intros d' p' [= <- <-]. exists inq, vis; auto.
      + assert (Hi : (i < n)%nat) by (destruct HBI as [HCo _]; apply (cQ3 HCo); left; auto).
        assert (Hlv : length vis = n) by apply HBI.
        rewrite (eget_nth 0%nat) by lia. cbn [rbind]. fold (vz vis i). fold n.
        destruct (Nat.leb_spec n (vz vis i)) as [Hge|Hlt].
        * exists None. split; auto. discriminate.
        * destruct (spfa_pop_spec d p inq vis i rest HBI Hlt) as [d' [p' [inq' [add [E [HBI' _]]]]]].
          rewrite E. cbn [rbind]. apply IH; auto.
          rewrite sum_vis_upd by lia. lia.
  Qed.

  (* ---------------------------------------------------------------- the initial state *)
  Lemma dz_init x : dz (upd (repeat kmax n) s 0) x = if Nat.eqb s x then 0 else kmax.
  Proof.
    unfold dz. destruct (Nat.eqb_spec s x) as [<-|Hne].
    - apply nth_upd_eq. rewrite repeat_length; auto.
    - rewrite nth_upd_neq by auto. apply nth_repeat.
  Qed.

  Lemma BI_init : BI (upd (repeat kmax n) s 0) (repeat None n) (upd (repeat false n) s true) (repeat 0%nat n) [s].
  Proof.
    assert (Hp : forall x, pz (repeat None n) x = None) by (intros x; apply nth_repeat).
    assert (Hi : forall x, iq (upd (repeat false n) s true) x = Nat.eqb s x).
    { intros x. unfold iq. destruct (Nat.eqb_spec s x) as [<-|Hne].
      - apply nth_upd_eq. rewrite repeat_length; auto.
      - rewrite nth_upd_neq by auto. apply nth_repeat. }
    split; [|split; [|split]].
    - constructor.
      + rewrite upd_length. apply repeat_length.
      + apply repeat_length.
      + rewrite upd_length. apply repeat_length.
      + intros x. rewrite dz_init. destruct (Nat.eqb s x); lia.
      + intros x. rewrite dz_init. destruct (Nat.eqb_spec s x) as [<-|Hne]; [|lia].
        intros _. exists []. split; [constructor|]. split; [reflexivity|cbn [length]; lia].
      + rewrite dz_init, Nat.eqb_refl. lia.
      + intros x. rewrite Hi. cbn [In]. rewrite Nat.eqb_eq. intuition.
      + constructor; [intros []|constructor].
      + intros x [<-|[]]. exact Hs.
      + intros x [<-|[]]. rewrite dz_init, Nat.eqb_refl. exact Hk0.
      + intros x. rewrite dz_init. destruct (Nat.eqb_spec s x) as [<-|Hne]; [|lia].
        intros _. left. auto.
      + intros x _. apply Hp.
    - intros HL u Hu Hdu e He. rewrite Hi in Hu. rewrite dz_init, Hu in Hdu. lia.
    - apply repeat_length.
    - intros x. unfold vz. rewrite nth_repeat. lia.
  Qed.

  Theorem spfa_total :
    exists r, spfa kmin kmax v s = Ok r /\
      forall d p, r = Some (d, p) -> exists inq vis, BI d p inq vis [].
  Proof.
    unfold spfa. fold n. destruct (Nat.ltb_spec s n) as [_|Hge]; [|unfold n in Hge; lia].
    apply spfa_loop_total; [apply BI_init|].
    assert (H0 : list_sum (repeat 0%nat n) = 0%nat).
    { generalize n. intros m; induction m as [|m IHm]; simpl; auto. }
    rewrite H0. nia.
  Qed.

  (* ---------------------------------------------------------------- what a final state says *)
  (* no simple path from the source reaches max() *)
  Definition UpOK : Prop := forall w x, walk v s w x -> wsimple s w -> walk_cost w < kmax.

  Definition SpfaExact (d : list Z) (p : list (option nat)) : Prop :=
    length d = n /\ length p = n /\
    (forall x, reachable v s x -> is_dist v s x (dz d x) /\ dz d x < kmax) /\
    (forall x, ~ reachable v s x -> dz d x = kmax /\ pz p x = None) /\
    pz p s = None /\
    (forall x, reachable v s x -> x <> s ->
       exists u e, pz p x = Some u /\ In e (out_edges v u) /\ tgt e = x /\ reachable v s u /\
                   dz d u + ewgt e = dz d x).

  Section Final.
    Variables (d : list Z) (p : list (option nat)) (inq : list bool) (vis : list nat).
    Hypothesis HBI : BI d p inq vis [].
    Hypothesis HL : LowOK.
    Hypothesis HU : UpOK.

    Let HCo : Core (list_sum vis * Dg) d p inq [] := proj1 HBI.

    Lemma final_iq u : iq inq u = false.
    Proof.
      destruct (iq inq u) eqn:E; auto. apply (cQ1 HCo) in E. destruct E.
    Qed.

    Lemma final_settled u e : dz d u < kmax -> In e (out_edges v u) -> dz d (tgt e) <= dz d u + ewgt e.
    Proof.
      intros Hu He. pose proof HBI as [_ [HSet _]]. apply (HSet HL u (final_iq u) Hu e He).
    Qed.

    Lemma final_simple : forall w x, walk v s w x -> wsimple s w -> dz d x <= walk_cost w.
    Proof.
      induction w as [|e w0 IH] using rev_ind; intros x W Hsim.
      - inversion W; subst. cbn [walk_cost]. apply (cS HCo).
      - destruct (walk_app_inv w0 [e] W) as [u [W0 W1]].
        inversion W1 as [|a e' p' b He Hnil]; subst. inversion Hnil; subst.
        pose proof (wsimple_prefix Hsim) as Hsim0.
        pose proof (IH _ W0 Hsim0) as Hu. pose proof (HU _ _ W0 Hsim0) as Hlt.
        rewrite walk_cost_snoc.
        assert (dz d (tgt e) <= dz d u + ewgt e) by (apply final_settled; auto; lia). lia.
    Qed.

    Lemma final_finite x : reachable v s x -> dz d x < kmax.
    Proof.
      intros [w W]. destruct (walk_simplify (N:=length w) (le_n _) W) as [w' [W' [Hsim _]]].
      pose proof (final_simple _ _ W' Hsim). pose proof (HU _ _ W' Hsim). lia.
    Qed.

    Lemma final_lower : forall a w y, walk v a w y -> reachable v s a -> dz d y <= dz d a + walk_cost w.
    Proof.
      intros a w y W. induction W as [a | a e w b He Hw IH]; intros Hr.
      - cbn [walk_cost]. lia.
      - pose proof (final_settled a e (final_finite a Hr) He) as H1.
        assert (Hr' : reachable v s (tgt e)).
        { destruct Hr as [w0 W0]. exists (w0 ++ [e]). apply (walk_snoc e W0 He). }
        specialize (IH Hr'). cbn [walk_cost]. lia.
    Qed.

    Lemma final_no_neg : ~ neg_cycle_reachable v s.
    Proof.
      intros [a [q [c [Wq [Wc Hneg]]]]].
      assert (Hr : reachable v s a) by (exists q; auto).
      pose proof (final_lower _ _ _ Wc Hr). lia.
    Qed.

    Lemma final_exact : SpfaExact d p.
    Proof.
      assert (Hrs : reachable v s s) by (exists []; constructor).
      assert (Hfrom : forall w x, walk v s w x -> dz d x <= walk_cost w).
      { intros w x W. pose proof (final_lower _ _ _ W Hrs). pose proof (cS HCo). lia. }
      assert (Hreach : forall x, dz d x < kmax -> reachable v s x).
      { intros x Hx. destruct (cW HCo x Hx) as [w [W _]]. exists w; auto. }
      split; [apply (cLd HCo)|]. split; [apply (cLp HCo)|]. split; [|split; [|split]].
      - intros x Hr. pose proof (final_finite x Hr) as Hfin. split; auto. split.
        + destruct (cW HCo x Hfin) as [w [W [Cw _]]]. exists w; auto.
        + intros w W. apply Hfrom; auto.
      - intros x Hnr.
        assert (Hx : dz d x = kmax).
        { pose proof (cU HCo x). destruct (Z_lt_le_dec (dz d x) kmax) as [Hlt|]; [|lia].
          exfalso. apply Hnr. auto. }
        split; auto. apply (cN HCo); auto.
      - destruct (cP HCo s (final_finite s Hrs)) as [[_ [Hp _]]|[u [e [_ [_ [_ [_ [_ Hneg]]]]]]]]; auto.
        specialize (Hneg eq_refl). exfalso.
        destruct (cW HCo s (final_finite s Hrs)) as [w [W [Cw _]]].
        apply final_no_neg. exists s, [], w. split; [constructor|]. split; auto. lia.
      - intros x Hr Hne. pose proof (final_finite x Hr) as Hfin.
        destruct (cP HCo x Hfin) as [[Hxs _]|[u [e [Hp [He [Ht [Hu [Hle _]]]]]]]]; [congruence|].
        exists u, e. split; auto. split; auto. split; auto. split; auto.
        pose proof (final_settled u e Hu He) as H1. rewrite Ht in H1. lia.
    Qed.
  End Final.

  (* ---------------------------------------------------------------- simple walks are short *)
  Let nn := length (vnodes v).

  Lemma nn_le_n : (nn <= n)%nat.
  Proof.
    assert (Hincl : incl (vnodes v) (seq 0 n)).
    { intros x Hx. apply in_seq. pose proof (bok_bound HB _ Hx). unfold n. lia. }
    pose proof (NoDup_incl_length (bok_nodup HB) Hincl) as H. rewrite seq_length in H. exact H.
  Qed.

  Lemma walk_verts_in a w y : walk v a w y -> In a (vnodes v) ->
    forall z, In z (a :: map tgt w) -> In z (vnodes v).
  Proof.
    intros W; induction W as [a | a e w b He Hw IH]; intros Ha z Hz.
    - destruct Hz as [<-|[]]; auto.
    - destruct Hz as [<-|Hz]; auto. apply IH; auto. apply (bok_tgt HB _ _ He).
  Qed.

  Lemma simple_len w x : walk v s w x -> wsimple s w -> w <> [] -> (S (length w) <= nn)%nat.
  Proof.
    intros W Hsim Hne.
    assert (Hsin : In s (vnodes v)).
    { inversion W as [|a e w' b He Hw]; subst; [congruence|]. apply (src_in' He). }
    assert (Hincl : incl (s :: map tgt w) (vnodes v)) by (intros z Hz; apply (walk_verts_in _ _ _ W Hsin z Hz)).
    pose proof (NoDup_incl_length Hsim Hincl) as H. cbn [length] in H. rewrite map_length in H. exact H.
  Qed.

  (* ---------------------------------------------------------------- passes of the work list *)
  Section NoNeg.
    Hypothesis HNN : ~ neg_cycle_reachable v s.
    Hypothesis HL : LowOK.
    Hypothesis HU : UpOK.

    Definition RS (k : nat) (d : list Z) : Prop :=
      forall w x, walk v s w x -> wsimple s w -> (length w <= k)%nat -> dz d x <= walk_cost w.
    Definition RP (k : nat) (cur : list nat) (d : list Z) : Prop :=
      forall w u e, walk v s w u -> In e (out_edges v u) -> wsimple s (w ++ [e]) -> (length w <= k)%nat ->
        In u cur \/ dz d (tgt e) <= walk_cost w + ewgt e.
    Definition PassInv (k : nat) (cur nxt : list nat) (d : list Z) (vis : list nat) : Prop :=
      RS k d /\ RP k cur d /\ (forall x, In x cur -> (vz vis x <= k)%nat) /\ (forall x, (vz vis x <= S k)%nat) /\
      (cur <> [] -> (k < n)%nat) /\ (nxt <> [] -> (S k < nn)%nat).

    Lemma improve_bound k d : RS k d -> dz d s <= 0 ->
      (exists j w, walk v s w j /\ walk_cost w < dz d j) -> (S k < nn)%nat.
    Proof.
      intros HR H0 [j [w [W Hlt]]].
      destruct (walk_simplify (N:=length w) (le_n _) W) as [w' [W' [Hsim [Hlen [Hc|Hn]]]]]; [|contradiction].
      destruct w' as [|e0 w0].
      - inversion W'; subst. cbn [walk_cost] in Hc. lia.
      - assert (Hne : e0 :: w0 <> []) by discriminate.
        pose proof (simple_len _ _ W' Hsim Hne) as Hl.
        destruct (le_lt_dec nn (S k)) as [Hge|]; auto.
        assert (dz d j <= walk_cost (e0 :: w0)) by (apply (HR _ _ W' Hsim); lia). lia.
    Qed.

    Lemma pass_switch d p inq vis k nxt : BI d p inq vis nxt -> PassInv k [] nxt d vis ->
      PassInv (S k) nxt [] d vis.
    Proof.
      intros [HCo [HSet _]] [HR [HP [_ [Hv [_ Hnx]]]]].
      assert (HR' : RS (S k) d).
      { intros w x W Hsim Hlen. destruct w as [|e0 w0] using rev_ind.
        - inversion W; subst. cbn [walk_cost]. apply (cS HCo).
        - clear IHw0. destruct (walk_app_inv w0 [e0] W) as [u [W0 W1]].
          inversion W1 as [|a e' p' b He Hnil]; subst. inversion Hnil; subst.
          rewrite app_length in Hlen. cbn [length] in Hlen.
          destruct (HP w0 u e0 W0 He Hsim) as [[]|Hb]; [lia|].
          rewrite walk_cost_snoc. exact Hb. }
      split; auto. split; [|split; [|split; [|split]]].
      - intros w u e W He Hsim Hlen.
        destruct (in_dec Nat.eq_dec u nxt) as [Hin|Hnin]; [left; auto|right].
        assert (Hiq : iq inq u = false).
        { destruct (iq inq u) eqn:E; auto. apply (cQ1 HCo) in E. contradiction. }
        pose proof (wsimple_prefix Hsim) as Hsim0.
        pose proof (HR' _ _ W Hsim0 Hlen) as Hu. pose proof (HU _ _ W Hsim0) as Hlt.
        assert (dz d (tgt e) <= dz d u + ewgt e) by (apply (HSet HL u Hiq); [lia|exact He]). lia.
      - intros x _. apply Hv.
      - intros x. specialize (Hv x). lia.
      - intros Hne. specialize (Hnx Hne). pose proof nn_le_n. lia.
      - congruence.
    Qed.

    Lemma spfa_loop_not_none : forall fuel d p inq vis k cur nxt,
      BI d p inq vis (cur ++ nxt) -> PassInv k cur nxt d vis ->
      spfa_loop kmin kmax fuel v d p inq vis (cur ++ nxt) <> Ok None.
    Proof.
      induction fuel as [|f IH]; intros d p inq vis k cur nxt HBI HPI; [discriminate|].
      assert (Hnorm : exists k' cur' nxt', cur' ++ nxt' = cur ++ nxt /\ PassInv k' cur' nxt' d vis /\
                                           (cur' = [] -> nxt' = [])).
      { destruct cur as [|i c].
        - exists (S k), nxt, []. rewrite app_nil_r. split; auto. split; auto.
          apply (pass_switch d p inq vis k nxt); auto.
        - exists k, (i :: c), nxt. split; auto. split; auto. discriminate. }
      destruct Hnorm as [k' [cur' [nxt' [Hq [HPI' Hemp]]]]]. rewrite <- Hq in *. clear Hq HPI k cur nxt.
      destruct cur' as [|i c].
      - rewrite (Hemp eq_refl). cbn [app spfa_loop]. discriminate.
      - cbn [app] in *. cbn [spfa_loop].
        destruct HPI' as [HR [HP [Hvc [Hv [Hcn Hnx]]]]].
        assert (Hkn : (k' < n)%nat) by (apply Hcn; discriminate).
        assert (Hvi : (vz vis i <= k')%nat) by (apply Hvc; left; auto).
        assert (Hi : (i < n)%nat) by (destruct HBI as [HCo _]; apply (cQ3 HCo); left; auto).
        assert (Hlv : length vis = n) by apply HBI.
        rewrite (eget_nth 0%nat) by lia. cbn [rbind]. fold (vz vis i). fold n.
        destruct (Nat.leb_spec n (vz vis i)) as [Hge|Hlt]; [lia|].
        destruct (spfa_pop_spec d p inq vis i (c ++ nxt') HBI Hlt)
          as [d' [p' [inq' [add [E [HBI' [Hmono [Hc Hd]]]]]]]].
        rewrite E. cbn [rbind]. rewrite <- app_assoc in *.
        apply (IH d' p' inq' _ k' c (nxt' ++ add) HBI').
        assert (Hnd : ~ In i (c ++ nxt')).
        { destruct HBI as [HCo _]. pose proof (cQ2 HCo) as H. inversion H; auto. }
        split; [|split; [|split; [|split; [|split]]]].
        + intros w x W Hsim Hlen. specialize (HR w x W Hsim Hlen). specialize (Hmono x). lia.
        + intros w u e W He Hsim Hlen.
          destruct (HP w u e W He Hsim Hlen) as [[<-|Hin]|Hb].
          * right. pose proof (HR _ _ W (wsimple_prefix Hsim) Hlen). specialize (Hc HL e He). lia.
          * left; auto.
          * right. specialize (Hmono (tgt e)). lia.
        + intros x Hx. rewrite vis_upd by lia. destruct (Nat.eqb_spec i x) as [<-|Hne].
          * exfalso. apply Hnd. apply in_or_app; auto.
          * apply Hvc; right; auto.
        + intros x. rewrite vis_upd by lia. destruct (Nat.eqb_spec i x) as [<-|Hne]; [lia|apply Hv].
        + intros _. exact Hkn.
        + intros Hne. destruct nxt' as [|a t]; [|apply Hnx; discriminate].
          cbn [app] in Hne. destruct HBI as [HCo _].
          apply (improve_bound k' d HR (cS HCo) (Hd Hne)).
    Qed.

    Theorem spfa_no_neg_exact : exists d p, spfa kmin kmax v s = Ok (Some (d, p)) /\ SpfaExact d p.
    Proof.
      destruct spfa_total as [r [E Hr]].
      destruct r as [[d p]|].
      - exists d, p. split; auto. destruct (Hr d p eq_refl) as [inq [vis HBI]].
        apply (final_exact d p inq vis HBI HL HU).
      - exfalso. revert E. unfold spfa. fold n. destruct (Nat.ltb_spec s n) as [_|Hge]; [|discriminate].
        apply (spfa_loop_not_none _ _ _ _ _ 0%nat [s] [] BI_init).
        split; [|split; [|split; [|split; [|split]]]].
        + intros w x W _ Hlen. destruct w; [|cbn [length] in Hlen; lia]. inversion W; subst.
          rewrite dz_init, Nat.eqb_refl. cbn [walk_cost]. lia.
        + intros w u e W _ _ Hlen. destruct w; [|cbn [length] in Hlen; lia]. inversion W; subst. left; left; auto.
        + intros x _. unfold vz. rewrite nth_repeat. lia.
        + intros x. unfold vz. rewrite nth_repeat. lia.
        + intros _. unfold n. lia.
        + congruence.
    Qed.
  End NoNeg.

  (* a reachable negative cycle is always reported *)
  Theorem spfa_neg_detected : LowOK -> UpOK -> neg_cycle_reachable v s -> spfa kmin kmax v s = Ok None.
  Proof.
    intros HL HU Hneg. destruct spfa_total as [r [E Hr]]. rewrite E.
    destruct r as [[d p]|]; auto. exfalso.
    destruct (Hr d p eq_refl) as [inq [vis HBI]].
    apply (final_no_neg d p inq vis HBI HL HU Hneg).
  Qed.
End Spfa.

(* ------------------------------------------------------------------ statements without the section parameters *)
Definition max_deg (v : view) : nat := list_max (map (fun al : nat * list eref => length (snd al)) (vout v)).

Lemma max_deg_ok v a : (length (out_edges v a) <= max_deg v)%nat.
Proof.
  unfold out_edges. destruct (assoc_nat (vout v) a) as [l|] eqn:E; [|cbn [length]; lia].
  apply assoc_nat_In in E. unfold max_deg.
  assert (H : Forall (fun k => (k <= list_max (map (fun al : nat * list eref => length (snd al)) (vout v)))%nat)
                     (map (fun al : nat * list eref => length (snd al)) (vout v))).
  { apply list_max_le. lia. }
  rewrite Forall_forall in H. apply H. apply in_map_iff. exists (a, l). split; auto.
Qed.

(* simple paths from the source stay inside [kmin, kmax) *)
Definition SimpleOK (kmin kmax : Z) (v : view) (s : nat) : Prop :=
  forall w x, walk v s w x -> wsimple s w -> kmin <= walk_cost w < kmax.

Lemma LowOK_of_simple kmin kmax v s Dg : ~ neg_cycle_reachable v s -> SimpleOK kmin kmax v s ->
  LowOK kmin v s Dg.
Proof.
  intros HNN HS w x W _.
  destruct (walk_simplify (N:=length w) (le_n _) W) as [w' [W' [Hsim [_ [Hc|Hn]]]]]; [|contradiction].
  pose proof (HS _ _ W' Hsim). lia.
Qed.

Lemma neg_cycle_dec v s : BOk v -> (s < vbound v)%nat -> neg_cycle_reachable v s \/ ~ neg_cycle_reachable v s.
Proof.
  intros HB Hs. destruct (bellman_ford_spec HB Hs) as [[[d p]|] [_ H]]; cbn [BFSpec] in H.
  - right. apply H.
  - left. exact H.
Qed.

(* S1 with bounds on simple paths only: Err is sound; without a reachable negative cycle the answer is exact *)
Theorem spfa_simple_bounds kmin kmax v s : BOk v -> (s < vbound v)%nat -> SimpleOK kmin kmax v s ->
  exists r, spfa kmin kmax v s = Ok r /\
    (r = None -> neg_cycle_reachable v s) /\
    (~ neg_cycle_reachable v s -> exists d p, r = Some (d, p) /\ SpfaExact kmax v s d p).
Proof.
  intros HB Hs HS.
  assert (Hk0 : 0 < kmax).
  { destruct (HS [] s (walk_nil v s) (wsimple_nil s)) as [_ H]. exact H. }
  assert (HU : UpOK kmax v s) by (intros w x W Hsim; apply (HS _ _ W Hsim)).
  destruct (neg_cycle_dec v s HB Hs) as [Hneg|HNN].
  - destruct (spfa_total kmin kmax v s HB Hs Hk0 (max_deg v) (max_deg_ok v)) as [r [E _]].
    exists r. split; auto. split; auto. intros HNN; contradiction.
  - destruct (spfa_no_neg_exact kmin kmax v s HB Hs Hk0 (max_deg v) (max_deg_ok v) HNN (LowOK_of_simple kmin kmax v s (max_deg v) HNN HS) HU)
      as [d [p [E HE]]].
    exists (Some (d, p)). split; auto. split; [discriminate|]. intros _. exists d, p; auto.
Qed.

(* S1 + S2 when no walk of at most n * n * Dg entries goes below min() *)
Theorem spfa_full kmin kmax v s Dg : BOk v -> (s < vbound v)%nat ->
  (forall a, (length (out_edges v a) <= Dg)%nat) -> LowOK kmin v s Dg -> UpOK kmax v s ->
  exists r, spfa kmin kmax v s = Ok r /\
    match r with
    | None => neg_cycle_reachable v s
    | Some (d, p) => ~ neg_cycle_reachable v s /\ SpfaExact kmax v s d p
    end.
Proof.
  intros HB Hs Hdeg HL HU.
  assert (Hk0 : 0 < kmax) by (apply (HU [] s (walk_nil v s) (wsimple_nil s))).
  destruct (neg_cycle_dec v s HB Hs) as [Hneg|HNN].
  - exists None. split; auto. apply (spfa_neg_detected kmin kmax v s HB Hs Hk0 Dg Hdeg HL HU Hneg).
  - destruct (spfa_no_neg_exact kmin kmax v s HB Hs Hk0 Dg Hdeg HNN HL HU) as [d [p [E HE]]].
    exists (Some (d, p)). auto.
Qed.

Theorem spfa_err_iff kmin kmax v s Dg : BOk v -> (s < vbound v)%nat ->
  (forall a, (length (out_edges v a) <= Dg)%nat) -> LowOK kmin v s Dg -> UpOK kmax v s ->
  (spfa kmin kmax v s = Ok None <-> neg_cycle_reachable v s).
Proof.
  intros HB Hs Hdeg HL HU. destruct (spfa_full kmin kmax v s Dg HB Hs Hdeg HL HU) as [r [E H]]. rewrite E. split.
  - intros [= ->]. exact H.
  - intros Hneg. destruct r as [[d p]|]; auto. destruct H as [HNN _]. contradiction.
Qed.

(* ------------------------------------------------------------------ bounds from the weights *)
Lemma walk_cost_bound v M : (forall a e, In e (out_edges v a) -> - M <= ewgt e <= M) ->
  forall a w b, walk v a w b -> - (Z.of_nat (length w) * M) <= walk_cost w <= Z.of_nat (length w) * M.
Proof.
  intros HM a w b W. induction W as [a | a e w b He Hw IH]; cbn [walk_cost length]; [lia|].
  pose proof (HM _ _ He). lia.
Qed.

Lemma simple_len_bound v s : BOk v -> (s < vbound v)%nat ->
  forall w x, walk v s w x -> wsimple s w -> (length w < vbound v)%nat.
Proof.
  intros HB Hs w x W Hsim. destruct w as [|e0 w0]; [cbn [length]; lia|].
  assert (Hne : e0 :: w0 <> []) by discriminate.
  pose proof (simple_len v s HB Hs _ _ W Hsim Hne). pose proof (nn_le_n v s HB Hs). lia.
Qed.

Theorem spfa_bounds_from_weights kmin kmax v s M Dg : BOk v -> (s < vbound v)%nat -> 0 <= M ->
  (forall a e, In e (out_edges v a) -> - M <= ewgt e <= M) ->
  Z.of_nat (vbound v) * M < kmax ->
  (kmin <= - (Z.of_nat (vbound v) * M) -> SimpleOK kmin kmax v s) /\
  (kmin <= - (Z.of_nat (vbound v * vbound v * Dg) * M) -> LowOK kmin v s Dg /\ UpOK kmax v s).
Proof.
  intros HB Hs HM0 HM Hmax.
  assert (Hsimple : forall w x, walk v s w x -> wsimple s w ->
            - (Z.of_nat (vbound v) * M) <= walk_cost w <= Z.of_nat (vbound v) * M).
  { intros w x W Hsim. pose proof (simple_len_bound v s HB Hs _ _ W Hsim).
    pose proof (walk_cost_bound v M HM _ _ _ W). nia. }
  split.
  - intros Hmin w x W Hsim. pose proof (Hsimple _ _ W Hsim). lia.
  - intros Hmin. split.
    + intros w x W Hlen. pose proof (walk_cost_bound v M HM _ _ _ W). unfold Lmax in Hlen.
      assert (Z.of_nat (length w) <= Z.of_nat (vbound v * vbound v * Dg)) by lia. nia.
    + intros w x W Hsim. pose proof (Hsimple _ _ W Hsim). lia.
Qed.

(* ------------------------------------------------------------------ a boolean checker for concrete views *)
Definition wbound_b (v : view) (M : Z) : bool :=
  forallb (fun al : nat * list eref => forallb (fun e => Z.leb (- M) (ewgt e) && Z.leb (ewgt e) M) (snd al)) (vout v).

Lemma wbound_b_ok v M : wbound_b v M = true -> forall a e, In e (out_edges v a) -> - M <= ewgt e <= M.
Proof.
  unfold wbound_b. intros H a e He. rewrite forallb_forall in H.
  destruct (out_edges_In _ _ _ He) as [l [Hl Hel]].
  pose proof (H _ Hl) as Hal. cbn [snd] in Hal. rewrite forallb_forall in Hal.
  specialize (Hal _ Hel). apply andb_prop in Hal. destruct Hal as [H1 H2].
  apply Z.leb_le in H1. apply Z.leb_le in H2. lia.
Qed.
