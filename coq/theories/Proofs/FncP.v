(* find_negative_cycle: total, and the returned node sequence is the target sequence of a
   closed walk of negative cost.  The recorded predecessors carry a ghost list of the
   out-entries that were used; every simple cycle of recorded entries has negative cost. *)
From Coq Require Import Lia ZArith List Permutation.
From PG Require Import Lib.Io Model.View Model.Traversal Model.ShortestM Spec.Paths
  Proofs.DijkstraP Proofs.BellmanFordP.
Set Implicit Arguments.
Unset Strict Implicit.
Open Scope Z_scope.

(* ------------------------------------------------------------------ list facts *)
Lemma NoDup_app_r {A} (l1 l2 : list A) : NoDup (l1 ++ l2) -> NoDup l2.
Proof. induction l1 as [|a t IH]; cbn [app]; auto. intros H; inversion H; auto. Qed.

Lemma NoDup_snoc {A} (l : list A) a : NoDup l -> ~ In a l -> NoDup (l ++ [a]).
Proof.
  intros H1 H2. apply (Permutation_NoDup (Permutation_cons_append l a)). constructor; auto.
Qed.

Lemma position_nat_split a l : In a l -> forall k,
  exists l1 l2, l = l1 ++ a :: l2 /\ position_nat a l k = Some (k + length l1)%nat.
Proof.
  induction l as [|y t IH]; intros Hin k; [destruct Hin|].
  cbn [position_nat]. destruct (Nat.eqb_spec y a) as [->|Hne].
  - exists [], t. split; [reflexivity|]. cbn [length]. f_equal; lia.
  - destruct Hin as [Heq|Hin]; [congruence|].
    destruct (IH Hin (S k)) as [l1 [l2 [-> E]]].
    exists (y :: l1), l2. split; [reflexivity|]. rewrite E. cbn [length]. f_equal; lia.
Qed.

Lemma skipn_length_app {A} (l1 l2 : list A) : skipn (length l1) (l1 ++ l2) = l2.
Proof. induction l1 as [|a t IH]; cbn [length app skipn]; auto. Qed.

Section Ghost.
  Variable v : view.
  Hypothesis HB : BOk v.

  (* a walk a -> b each of whose entries is the recorded entry into its target *)
  Inductive pwalk (p : list (option nat)) (pe : list (option eref)) : nat -> list eref -> nat -> Prop :=
  | pw_nil a : pwalk p pe a [] a
  | pw_cons u e c y : nth_error p (tgt e) = Some (Some u) -> nth_error pe (tgt e) = Some (Some e) ->
      pwalk p pe (tgt e) c y -> pwalk p pe u (e :: c) y.

  Record G (d : list ez) (p : list (option nat)) (pe : list (option eref)) : Prop := {
    gLd : length d = vbound v;
    gLp : length p = vbound v;
    gLe : length pe = vbound v;
    gP : forall x u, nth_error p x = Some (Some u) -> exists e, nth_error pe x = Some (Some e);
    gE : forall x e, nth_error pe x = Some (Some e) ->
           exists u du dx, nth_error p x = Some (Some u) /\ In e (out_edges v u) /\ tgt e = x /\
                           D d u du /\ D d x dx /\ du + ewgt e <= dx;
    gC : forall a c, c <> [] -> NoDup (map tgt c) -> pwalk p pe a c a -> walk_cost c < 0
  }.

  Lemma pwalk_walk d p pe : G d p pe -> forall a c b, pwalk p pe a c b -> walk v a c b.
  Proof.
    intros HG a c b W. induction W as [a | u e c y Hp Hpe W IH]; [constructor|].
    destruct (gE HG Hpe) as [u' [du [dx [Hp' [He _]]]]].
    assert (u' = u) by congruence. subst u'. constructor; auto.
  Qed.

  Lemma pwalk_app p pe a c1 b c2 c : pwalk p pe a c1 b -> pwalk p pe b c2 c -> pwalk p pe a (c1 ++ c2) c.
  Proof.
    intros W1; induction W1 as [a | u e c1 y Hp Hpe W IH]; intros W2; cbn [app]; auto.
    constructor; auto.
  Qed.

  Lemma pwalk_app_inv p pe c1 c2 : forall a b, pwalk p pe a (c1 ++ c2) b ->
    exists m, pwalk p pe a c1 m /\ pwalk p pe m c2 b.
  Proof.
    induction c1 as [|e c1 IH]; intros a b W; cbn [app] in W.
    - exists a; split; auto. constructor.
    - inversion W as [|u e' c' y Hp Hpe W']; subst.
      destruct (IH _ _ W') as [m [W1 W2]]. exists m; split; auto. constructor; auto.
  Qed.

  Lemma pwalk_nil_inv p pe a b : pwalk p pe a [] b -> a = b.
  Proof. intros W; inversion W; auto. Qed.

  Lemma pwalk_snoc_end p pe a c e b : pwalk p pe a (c ++ [e]) b -> b = tgt e.
  Proof.
    intros W. destruct (pwalk_app_inv W) as [m [_ W2]].
    inversion W2 as [|u e' c' y Hp Hpe W']; subst. symmetry; apply (pwalk_nil_inv W').
  Qed.

  (* recorded entries never increase the potential *)
  Lemma ptele d p pe : G d p pe -> forall u c y, pwalk p pe u c y -> c <> [] ->
    exists du dy, D d u du /\ D d y dy /\ du + walk_cost c <= dy.
  Proof.
    intros HG u c y W. induction W as [a | u e c y Hp Hpe W IH]; intros Hne; [congruence|].
    destruct (gE HG Hpe) as [u' [du [dx [Hp' [He [_ [Hdu [Hdx Hle]]]]]]]].
    assert (u' = u) by congruence. subst u'.
    destruct c as [|e1 c1].
    - apply pwalk_nil_inv in W. subst y. exists du, dx. repeat split; auto. cbn [walk_cost]; lia.
    - destruct IH as [du' [dy [Hdu' [Hdy Hle']]]]; [discriminate|].
      pose proof (D_fun Hdu' Hdx). subst du'.
      exists du, dy. repeat split; auto. cbn [walk_cost] in *. lia.
  Qed.

  Lemma pwalk_old p pe j i e : forall a c b,
    (forall e0, In e0 c -> tgt e0 <> j) ->
    pwalk (upd p j (Some i)) (upd pe j (Some e)) a c b -> pwalk p pe a c b.
  Proof.
    intros a c b Hc W. induction W as [a | u e0 c y Hp Hpe W IH]; [constructor|].
    assert (Hne : j <> tgt e0) by (intros Heq; apply (Hc e0); [left; auto|auto]).
    rewrite nth_error_upd_neq in Hp by auto. rewrite nth_error_upd_neq in Hpe by auto.
    constructor; auto. apply IH. intros e1 H1. apply Hc; right; auto.
  Qed.

  Lemma G_relax d p pe i e a dj : G d p pe -> In e (out_edges v i) -> D d i a ->
    nth_error d (tgt e) = Some dj -> ez_lt (Some (a + ewgt e)) dj = true ->
    G (upd d (tgt e) (Some (a + ewgt e))) (upd p (tgt e) (Some i)) (upd pe (tgt e) (Some e)).
  Proof.
    intros HG He Hi Hj Hlt. set (j := tgt e) in *. set (ns := a + ewgt e) in *.
    assert (Hjd : (j < length d)%nat) by (eapply nth_error_Some_lt; eauto).
    assert (Hjp : (j < length p)%nat) by (rewrite (gLp HG), <- (gLd HG); auto).
    assert (Hje : (j < length pe)%nat) by (rewrite (gLe HG), <- (gLd HG); auto).
    assert (Hold : forall c, D d j c -> ns < c).
    { intros c Hc. unfold D in Hc. assert (dj = Some c) as -> by congruence.
      cbn [ez_lt] in Hlt. apply Z.ltb_lt; auto. }
    assert (Hdle : forall x c, D d x c -> exists c', D (upd d j (Some ns)) x c' /\ c' <= c).
    { intros x c Hc. unfold D. rewrite nth_error_upd_lt by auto.
      destruct (Nat.eqb_spec j x) as [<-|Hne].
      - exists ns; split; auto. pose proof (Hold _ Hc); lia.
      - exists c; split; auto; lia. }
    constructor.
    - rewrite upd_length. apply (gLd HG).
    - rewrite upd_length. apply (gLp HG).
    - rewrite upd_length. apply (gLe HG).
    - intros x u. rewrite !nth_error_upd_lt by auto.
      destruct (Nat.eqb_spec j x) as [<-|Hne]; [intros _; exists e; auto|apply (gP HG)].
    - intros x e0. rewrite !nth_error_upd_lt by auto. unfold D at 2. rewrite nth_error_upd_lt by auto.
      destruct (Nat.eqb_spec j x) as [<-|Hne].
      + intros [= <-]. destruct (Hdle _ _ Hi) as [du [Hdu Hle]].
        exists i, du, ns. repeat split; auto.
        destruct (Nat.eq_dec j i) as [Heq|Hne].
        * pose proof Hdu as Hdu'. unfold D in Hdu'. rewrite nth_error_upd_lt in Hdu' by auto.
          rewrite <- Heq, Nat.eqb_refl in Hdu'. injection Hdu' as <-.
          rewrite <- Heq in Hi. pose proof (Hold _ Hi). subst ns. lia.
        * pose proof Hdu as Hdu'. unfold D in Hdu'. rewrite nth_error_upd_lt in Hdu' by auto.
          apply Nat.eqb_neq in Hne. rewrite Hne in Hdu'.
          pose proof (D_fun Hdu' Hi). subst ns; lia.
      + intros Hx. destruct (gE HG Hx) as [u [du [dx [Hp [He0 [Ht [Hu [Hdx Hle]]]]]]]].
        destruct (Hdle _ _ Hu) as [du' [Hdu' Hle']].
        exists u, du', dx. repeat split; auto. lia.
    - intros a0 c Hne Hnd W.
      destruct (in_dec Nat.eq_dec j (map tgt c)) as [Hin|Hnin].
      + apply in_split in Hin. destruct Hin as [l1 [l2 Hsplit]].
        destruct (map_eq_app _ _ _ _ Hsplit) as [c1 [c' [-> [Hm1 Hm2]]]].
        destruct (map_eq_cons _ _ Hm2) as [e0 [c2 [-> [Ht0 Hm3]]]].
        rewrite Hsplit in Hnd. pose proof (NoDup_remove_2 _ _ _ Hnd) as Hnj.
        assert (Hc1 : forall e1, In e1 c1 -> tgt e1 <> j).
        { intros e1 H1 Heq. apply Hnj. apply in_or_app; left. rewrite <- Hm1, <- Heq. apply in_map; auto. }
        assert (Hc2 : forall e1, In e1 c2 -> tgt e1 <> j).
        { intros e1 H1 Heq. apply Hnj. apply in_or_app; right. rewrite <- Hm3, <- Heq. apply in_map; auto. }
        destruct (pwalk_app_inv W) as [m [W1 W2]].
        inversion W2 as [|u e' c'' y Hp Hpe W2']; subst.
        rewrite Ht0 in Hp, Hpe, W2'. rewrite nth_error_upd_lt, Nat.eqb_refl in Hp by auto.
        rewrite nth_error_upd_lt, Nat.eqb_refl in Hpe by auto.
        injection Hp as <-. injection Hpe as <-.
        apply pwalk_old in W1; auto. apply pwalk_old in W2'; auto.
        pose proof (pwalk_app W2' W1) as Wold.
        rewrite !walk_cost_app. cbn [walk_cost].
        destruct (c2 ++ c1) as [|e1 cr] eqn:Ecr.
        * apply app_eq_nil in Ecr. destruct Ecr as [-> ->].
          apply pwalk_nil_inv in Wold. cbn [walk_cost]. rewrite <- Wold in Hi.
          pose proof (Hold _ Hi). subst ns. lia.
        * destruct (ptele HG Wold) as [du [dy [Hdu [Hdy Hle]]]]; [discriminate|].
          rewrite <- Ecr, walk_cost_app in Hle.
          pose proof (D_fun Hdy Hi). subst dy. pose proof (Hold _ Hdu). subst ns. lia.
      + apply (gC HG (a:=a0) Hne Hnd). apply (pwalk_old (j:=j) (i:=i) (e:=e)); auto.
        intros e0 H0 Heq. apply Hnin. rewrite <- Heq. apply in_map; auto.
  Qed.

  Definition GQ (d : list ez) (p : list (option nat)) : Prop := exists pe, G d p pe.

  Lemma GQ_relax : forall d p i e a dj, GQ d p -> In e (out_edges v i) -> D d i a ->
    nth_error d (tgt e) = Some dj -> ez_lt (Some (a + ewgt e)) dj = true ->
    GQ (upd d (tgt e) (Some (a + ewgt e))) (upd p (tgt e) (Some i)).
  Proof.
    intros d p i e a dj [pe HG] He Hi Hj Hlt. exists (upd pe (tgt e) (Some e)).
    apply (G_relax HG He Hi Hj Hlt).
  Qed.

  Lemma GQ_init s : GQ (upd (repeat (None : ez) (vbound v)) s (Some 0)) (repeat None (vbound v)).
  Proof.
    exists (repeat None (vbound v)).
    assert (Hrep : forall {A} (x : nat) (a : A), nth_error (repeat (@None A) (vbound v)) x = Some (Some a) -> False).
    { intros A x a H. pose proof (nth_error_In _ _ H) as Hin. apply repeat_spec in Hin. discriminate. }
    constructor.
    - rewrite upd_length. apply repeat_length.
    - apply repeat_length.
    - apply repeat_length.
    - intros x u H. destruct (Hrep _ _ _ H).
    - intros x e H. destruct (Hrep _ _ _ H).
    - intros a c Hne _ W. inversion W as [|u e c' y Hp Hpe W']; subst; [congruence|].
      destruct (Hrep _ _ _ Hp).
  Qed.

  (* ---------------------------------------------------------------- following the predecessors *)
  Section Walk.
    Variable s : nat.
    Variables (DD : list ez) (P : list (option nat)) (PE : list (option eref)) (j i : nat).
    Hypothesis HG : G DD P PE.
    Hypothesis HbP : forall x dx, D DD x dx -> nth_error P x = Some None -> x = s /\ dx = 0.
    Hypothesis Hj : In j (vnodes v).
    Hypothesis HPj : nth_error P j = Some (Some i).
    Hypothesis Hshort : forall c dj, D DD j dj -> walk v s c j ->
      (length c <= vnode_count v - 1)%nat -> dj < walk_cost c.
    Hypothesis Hcap : forall a, In a (vnodes v) -> in_cap v a.

    Lemma vnodes_le_bound : (length (vnodes v) <= vbound v)%nat.
    Proof.
      rewrite <- (seq_length (vbound v) 0). apply NoDup_incl_length; [apply (bok_nodup HB)|].
      intros a Ha. apply in_seq. pose proof (bok_bound HB _ Ha). lia.
    Qed.

    Lemma fnc_walk_spec : forall fuel node vis path c,
      pwalk P PE node c j -> node :: map tgt c = rev path ++ [j] ->
      NoDup path -> ~ In j path -> (forall x, mem x vis = true <-> In x path) ->
      (forall x, In x path -> In x (vnodes v)) -> In node (vnodes v) ->
      (S (S (vbound v)) <= fuel + length path)%nat ->
      exists l, fnc_walk fuel v P j node vis path = Ok l /\
        exists a cyc, walk v a cyc a /\ map tgt cyc = rev l /\ walk_cost cyc < 0.
    Proof.
      induction fuel as [|f IH]; intros node vis path c W Hvs Hnd Hnj Hvis Hpath Hnode Hfuel.
      - (* the path and j are distinct nodes, so the fuel cannot be exhausted *)
        exfalso.
        assert (Hnd' : NoDup (j :: path)) by (constructor; auto).
        assert (Hincl : incl (j :: path) (vnodes v)) by (intros x [<-|Hx]; auto).
        pose proof (NoDup_incl_length Hnd' Hincl) as Hle. cbn [length] in Hle.
        pose proof vnodes_le_bound. lia.
      - cbn [fnc_walk]. unfold eget.
        destruct (@nth_error_lt_Some _ P node) as [po Hpo]; [rewrite (gLp HG); apply (bok_bound HB _ Hnode)|].
        rewrite Hpo. cbn [rbind].
        assert (Hlenc : length c = length path).
        { apply (f_equal (@length nat)) in Hvs. rewrite app_length, rev_length in Hvs.
          cbn [length] in Hvs. rewrite map_length in Hvs. lia. }
        destruct po as [a|].
        + (* a recorded predecessor: extend the chain *)
          destruct (gP HG Hpo) as [ea Hea].
          destruct (gE HG Hea) as [a' [du [dx [Hpa [Hea_in [Hta _]]]]]].
          assert (a' = a) by congruence. subst a'.
          assert (W' : pwalk P PE a (ea :: c) j) by (constructor; rewrite Hta; auto).
          assert (Hvs' : map tgt (ea :: c) = rev path ++ [j]) by (cbn [map]; rewrite Hta; auto).
          pose proof (src_in HB Hea_in) as Ha.
          destruct (Nat.eqb_spec a j) as [Haj|Haj].
          * (* back at the start *)
            subst a. exists (path ++ [j]). split; auto.
            assert (Hneg : walk_cost (ea :: c) < 0).
            { apply (gC HG (a:=j)); [discriminate| |auto]. rewrite Hvs'.
              apply NoDup_snoc; [apply NoDup_rev; auto|]. intros Hin. apply in_rev in Hin. auto. }
            destruct (@exists_last _ (ea :: c)) as [c0 [el Hc0]]; [discriminate|].
            rewrite Hc0 in *. rewrite map_app in Hvs'. cbn [map] in Hvs'.
            apply app_inj_tail in Hvs'. destruct Hvs' as [Hm0 Htl].
            pose proof (pwalk_walk HG W') as Ww.
            destruct (walk_app_inv c0 [el] Ww) as [b [W1 W2]].
            exists b, ([el] ++ c0). split; [eapply walk_app; eauto|]. split.
            -- rewrite rev_unit. cbn [app map]. rewrite Htl, Hm0. reflexivity.
            -- rewrite walk_cost_app in *. lia.
          * unfold is_visited. destruct (mem a vis) eqn:Ea.
            -- (* a node seen before: the cycle is the part of the path from its first occurrence *)
               apply Hvis in Ea.
               destruct (position_nat_split Ea 0) as [l1 [l2 [Hpath_eq Hpos]]].
               rewrite Hpos. cbn [Nat.add]. rewrite Hpath_eq, skipn_length_app.
               exists (a :: l2). split; auto.
               assert (Hrev : rev path ++ [j] = (rev l2 ++ [a]) ++ (rev l1 ++ [j])).
               { rewrite Hpath_eq, rev_app_distr. cbn [rev]. rewrite <- !app_assoc. reflexivity. }
               rewrite Hrev in Hvs'.
               destruct (map_eq_app _ _ _ _ Hvs') as [cyc [rest [Hsplit [Hm1 Hm2]]]].
               rewrite Hsplit in W'. destruct (pwalk_app_inv W') as [m [W1 W2]].
               destruct (@exists_last _ cyc) as [c0 [el Hc0]].
               { intros ->. cbn [map] in Hm1. destruct (rev l2); discriminate. }
               assert (m = a).
               { rewrite Hc0 in W1. rewrite (pwalk_snoc_end W1).
                 rewrite Hc0, map_app in Hm1. cbn [map] in Hm1. apply app_inj_tail in Hm1. tauto. }
               subst m.
               exists a, cyc. split; [apply (pwalk_walk HG W1)|]. split; [exact Hm1|].
               apply (gC HG (a:=a)); auto.
               ++ rewrite Hc0. destruct c0; discriminate.
               ++ rewrite Hm1. change (rev l2 ++ [a]) with (rev (a :: l2)). apply NoDup_rev.
                  rewrite Hpath_eq in Hnd. apply (NoDup_app_r Hnd).
            -- (* a new node *)
               assert (Hnin : ~ In a path) by (intros Hin; apply Hvis in Hin; congruence).
               rewrite (visit_fresh (Hcap Ha) Ea). cbn [rbind].
               apply (IH a (a :: vis) (path ++ [a]) (ea :: c)); auto.
               ++ rewrite rev_unit. cbn [app]. f_equal. exact Hvs'.
               ++ apply NoDup_snoc; auto.
               ++ intros Hin. apply in_app_or in Hin. destruct Hin as [Hin|[Hin|[]]]; auto.
               ++ intros x. cbn [mem]. rewrite Bool.orb_true_iff, Nat.eqb_eq, Hvis. split.
                  ** intros [->|Hx]; apply in_or_app; [right; left; auto|left; auto].
                  ** intros Hin. apply in_app_or in Hin. destruct Hin as [Hin|[Hin|[]]]; auto.
               ++ intros x Hin. apply in_app_or in Hin. destruct Hin as [Hin|[<-|[]]]; auto.
               ++ rewrite app_length. cbn [length]. lia.
        + (* no predecessor: impossible, the chain would be a short walk below the distance *)
          exfalso.
          assert (Hcne : c <> []).
          { intros ->. apply pwalk_nil_inv in W. subst node. congruence. }
          destruct (ptele HG W Hcne) as [du [dy [Hdu [Hdy Hle]]]].
          destruct (HbP Hdu Hpo) as [-> ->].
          assert (Hlen : (length c <= vnode_count v - 1)%nat).
          { assert (Hnd' : NoDup (j :: path)) by (constructor; auto).
            assert (Hincl : incl (j :: path) (vnodes v)) by (intros x [<-|Hx]; auto).
            pose proof (NoDup_incl_length Hnd' Hincl) as Hl. cbn [length] in Hl.
            unfold vnode_count. lia. }
          pose proof (Hshort Hdy (pwalk_walk HG W) Hlen). lia.
    Qed.
  End Walk.
End Ghost.

(* ------------------------------------------------------------------ find_negative_cycle *)
Theorem fnc_spec v s : BOk v -> (s < vbound v)%nat -> (forall a, In a (vnodes v) -> in_cap v a) ->
  exists r, find_negative_cycle v s = Ok r /\
    match r with
    | None => exists dp, bellman_ford v s = Ok (Some dp)
    | Some l => bellman_ford v s = Ok None /\
                exists a c, walk v a c a /\ map tgt c = l /\ walk_cost c < 0
    end.
Proof.
  intros HB Hs Hcap.
  destruct (bf_init_relax_spec HB Hs (GQ_relax (v:=v)) (GQ_init v s)) as [d [p [E [I HFR]]]].
  destruct (bf_find_spec HB Hs (bLd I) (bok_bound HB)) as [o [Ef Ho]].
  unfold find_negative_cycle, bellman_ford. rewrite E. cbn [rbind]. rewrite Ef. cbn [rbind rmap].
  destruct o as [[i j]|].
  - destruct Ho as [Hi [e [He [Ht Hr]]]].
    destruct HFR as [HF|HR]; [rewrite (HF _ _ Hi He) in Hr; discriminate|].
    unfold rtest in Hr.
    destruct (nth_error d i) as [di|] eqn:Hdi; [|discriminate].
    destruct (nth_error d (tgt e)) as [dj|] eqn:Hdj; [|discriminate].
    destruct (ez_lt_true Hr) as [a [-> Hcase]]. cbn [ez_add option_map] in Hr.
    destruct (relax_BI Hs (GQ_relax (v:=v)) I He Hdi Hdj Hr) as [I' _].
    destruct (bQ I') as [PE HG]. rewrite Ht in *.
    assert (Hjd : (j < length d)%nat) by (eapply nth_error_Some_lt; eauto).
    assert (Hjp : (j < length p)%nat) by (rewrite (bLp I), <- (bLd I); auto).
    assert (HDj : D (upd d j (Some (a + ewgt e))) j (a + ewgt e)).
    { unfold D. rewrite nth_error_upd_lt, Nat.eqb_refl; auto. }
    destruct (@fnc_walk_spec v HB s _ _ PE j i HG) with (fuel := S (S (vbound v))) (node := j)
      (vis := @nil nat) (path := @nil nat) (c := @nil eref) as [l [El [a0 [cyc [Wc [Hm Hneg]]]]]].
    + intros x dx Hx Hp. destruct (bP I' Hx) as [[-> [_ ->]]|[u [e0 [du [Hp' _]]]]]; [auto|congruence].
    + rewrite <- Ht. apply (bok_tgt HB _ _ He).
    + rewrite nth_error_upd_lt, Nat.eqb_refl; auto.
    + intros c dj' Hdj' W Hlen. pose proof (D_fun Hdj' HDj). subst dj'.
      destruct (HR _ _ W Hlen) as [c0 [Hc0 Hle]]. unfold D in Hc0.
      destruct Hcase as [->|[b [-> Hlt]]]; [congruence|]. assert (b = c0) by congruence. lia.
    + exact Hcap.
    + constructor.
    + reflexivity.
    + constructor.
    + intros [].
    + intros x. cbn [mem In]. split; [discriminate|tauto].
    + intros x [].
    + rewrite <- Ht. apply (bok_tgt HB _ _ He).
    + cbn [length]. lia.
    + rewrite El. cbn [rmap]. destruct l as [|x l'].
      * cbn [rev] in Hm. destruct cyc; [cbn [walk_cost] in Hneg; lia|discriminate].
      * eexists. split; [reflexivity|]. split; auto. exists a0, cyc. auto.
  - exists None. split; auto. eexists; reflexivity.
Qed.
