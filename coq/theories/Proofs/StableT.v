(* T5 and T6: the counters, node_bound / edge_bound, the iterators over live slots and the debug
   check of the free lists all describe the same sets; reverse and clear_edges keep the invariant. *)
From Coq Require Import Permutation.
From PG Require Import Lib.ListArr Lib.ListExtra Lib.Walk Model.GraphM Model.StableM Model.StableIO
  Proofs.GraphP Proofs.GraphRE Proofs.StableP.
Set Implicit Arguments.

(* ------------------------------------------------------------------ *)
(* Counting                                                            *)

Lemma remove_length_NoDup e l :
  NoDup l -> In e l -> S (length (remove Nat.eq_dec e l)) = length l.
Proof.
  intros Hnd. induction Hnd as [|x l Hx Hl IH]; intros Hin; [contradiction|].
  simpl. destruct (Nat.eq_dec e x) as [->|Hne].
  - rewrite remove_notin; auto.
  - destruct Hin as [Hin|Hin]; [congruence|]. simpl. rewrite IH; auto.
Qed.

Lemma count_vacant {A} (ws : list (option A)) : forall l : list nat,
  NoDup l -> (forall i, In i l <-> nth_error ws i = Some None) ->
  length l + nsome ws = length ws.
Proof.
  induction ws as [|x ws IH] using rev_ind; intros l Hnd C.
  - destruct l as [|y l]; [reflexivity|]. exfalso.
    assert (H : In y (y :: l)) by (simpl; auto). apply C in H. destruct y; discriminate.
  - rewrite nsome_app, app_length. simpl.
    assert (Hold : forall i, i < length ws -> nth_error (ws ++ [x]) i = nth_error ws i).
    { intros i Hi. apply nth_error_app1; auto. }
    assert (Hlast : nth_error (ws ++ [x]) (length ws) = Some x).
    { rewrite nth_error_app2 by lia. rewrite Nat.sub_diag. reflexivity. }
    destruct x as [v|].
    + rewrite <- (IH l Hnd); [simpl; lia|].
      intros i. rewrite C. destruct (Nat.lt_ge_cases i (length ws)) as [Hi|Hi].
      * rewrite Hold; tauto.
      * rewrite (nth_error_oob ws i Hi). split; [|discriminate].
        destruct (Nat.eq_dec i (length ws)) as [->|Hne]; [rewrite Hlast; discriminate|].
        rewrite nth_error_oob; [discriminate|]. rewrite app_length. simpl. lia.
    + assert (Hin : In (length ws) l) by (apply C; auto).
      rewrite <- (IH (remove Nat.eq_dec (length ws) l)).
      * pose proof (@remove_length_NoDup _ _ Hnd Hin). simpl. lia.
      * apply NoDup_remove_nat. auto.
      * intros i. rewrite in_remove_iff, C. destruct (Nat.lt_ge_cases i (length ws)) as [Hi|Hi].
        -- rewrite Hold by auto. split; [tauto|]. intros H. split; auto. lia.
        -- rewrite (nth_error_oob ws i Hi). split; [|discriminate]. intros [H1 H2]. exfalso.
           destruct (Nat.eq_dec i (length ws)); [contradiction|].
           rewrite nth_error_oob in H1; [discriminate|]. rewrite app_length. simpl. lia.
Qed.

(* the enumerations of live slots *)
Definition live_edges (s : sgraph) : list (nat * (nat * nat) * nat) :=
  flat_map (fun '(i, e) => match ewt e with Some w => [(i, enode e, w)] | None => [] end)
           (combine (seq 0 (length (gedges (sg s)))) (gedges (sg s))).

Lemma live_nodes_gen (ns : list (node (option nat))) : forall a,
  let L := flat_map (fun '(i, n) => match nwt n with Some w => [(i, w)] | None => [] end)
                    (combine (seq a (length ns)) ns) in
  length L = nsome (map (@nwt _) ns) /\
  (forall i w, In (i, w) L <-> (a <= i /\ exists n, nth_error ns (i - a) = Some n /\ nwt n = Some w)).
Proof.
  induction ns as [|n ns IH]; intros a L.
  - split; [reflexivity|]. intros i w. split; [intros []|].
    intros [_ [n [H _]]]. destruct (i - a); discriminate.
  - unfold L. cbn [length seq combine flat_map map nsome]. destruct (IH (S a)) as [IH1 IH2].
    rewrite app_length, IH1. split.
    + destruct (nwt n); reflexivity.
    + intros i w. rewrite in_app_iff, IH2. split.
      * intros [H|[Hi [n' [Hn' Hw']]]].
        -- destruct (nwt n) as [w0|] eqn:E; [|contradiction].
           destruct H as [H|[]]. injection H as <- <-. split; auto.
           exists n. rewrite Nat.sub_diag. auto.
        -- split; [lia|]. exists n'. replace (i - a) with (S (i - S a)) by lia. auto.
      * intros [Hi [n' [Hn' Hw']]]. destruct (Nat.eq_dec i a) as [->|Hne].
        -- left. rewrite Nat.sub_diag in Hn'. injection Hn' as <-. rewrite Hw'. simpl; auto.
        -- right. split; [lia|]. exists n'. replace (i - a) with (S (i - S a)) in Hn' by lia. auto.
Qed.

Lemma live_edges_gen (es : list (edge (option nat))) : forall a,
  let L := flat_map (fun '(i, e) => match ewt e with Some w => [(i, enode e, w)] | None => [] end)
                    (combine (seq a (length es)) es) in
  length L = nsome (map (@ewt _) es) /\
  (forall i nd w, In (i, nd, w) L <->
     (a <= i /\ exists e, nth_error es (i - a) = Some e /\ ewt e = Some w /\ enode e = nd)).
Proof.
  induction es as [|e es IH]; intros a L.
  - split; [reflexivity|]. intros i nd w. split; [intros []|].
    intros [_ [e [H _]]]. destruct (i - a); discriminate.
  - unfold L. cbn [length seq combine flat_map map nsome]. destruct (IH (S a)) as [IH1 IH2].
    rewrite app_length, IH1. split.
    + destruct (ewt e); reflexivity.
    + intros i nd w. rewrite in_app_iff, IH2. split.
      * intros [H|[Hi [e' [He' Hw']]]].
        -- destruct (ewt e) as [w0|] eqn:E; [|contradiction].
           destruct H as [H|[]]. injection H as <- <- <-. split; auto.
           exists e. rewrite Nat.sub_diag. auto.
        -- split; [lia|]. exists e'. replace (i - a) with (S (i - S a)) by lia. auto.
      * intros [Hi [e' [He' [Hw' Hn']]]]. destruct (Nat.eq_dec i a) as [->|Hne].
        -- left. rewrite Nat.sub_diag in He'. injection He' as <-. rewrite Hw', Hn'. simpl; auto.
        -- right. split; [lia|]. exists e'. replace (i - a) with (S (i - S a)) in He' by lia. auto.
Qed.

(* node_bound / edge_bound *)
Lemma last_live_spec {A} (l : list (option A)) : forall i acc, acc <= i ->
  (forall j x, nth_error l j = Some (Some x) -> i + j < last_live l i acc) /\
  (last_live l i acc = acc \/
   exists j x, last_live l i acc = S (i + j) /\ nth_error l j = Some (Some x)).
Proof.
  induction l as [|o l IH]; intros i acc Hle.
  - split; [intros [|j] x H; discriminate|left; reflexivity].
  - cbn [last_live]. destruct o as [v|].
    + destruct (IH (S i) (S i) (le_n _)) as [IH1 IH2]. split.
      * intros [|j] x H.
        -- destruct IH2 as [E|[j' [x' [E _]]]]; rewrite E; lia.
        -- simpl in H. specialize (IH1 j x H). lia.
      * right. destruct IH2 as [E|[j' [x' [E H]]]].
        -- exists 0, v. rewrite E. split; [f_equal; lia|reflexivity].
        -- exists (S j'), x'. rewrite E. split; [f_equal; lia|exact H].
    + destruct (IH (S i) acc) as [IH1 IH2]; [lia|]. split.
      * intros [|j] x H; [discriminate|]. simpl in H. specialize (IH1 j x H). lia.
      * destruct IH2 as [E|[j' [x' [E H]]]]; [left; auto|].
        right. exists (S j'), x'. rewrite E. split; [f_equal; lia|exact H].
Qed.

Section StableT.
  Variable cap : nat.

  Notation adj := (@adj (option nat) (option nat) cap).

  Lemma live_nodes_length s : length (live_nodes s) = nsome (map (@nwt _) (gnodes (sg s))).
  Proof. apply (proj1 (live_nodes_gen (gnodes (sg s)) 0)). Qed.

  Lemma live_nodes_In s i w : In (i, w) (live_nodes s) <-> nwo (sg s) i = Some w.
  Proof.
    unfold live_nodes. rewrite (proj2 (live_nodes_gen (gnodes (sg s)) 0)). rewrite Nat.sub_0_r.
    unfold nwo. split.
    - intros [_ [n [Hn Hw]]]. rewrite Hn. auto.
    - intros H. split; [lia|]. destruct (nth_error (gnodes (sg s)) i) as [n|]; [eauto|discriminate].
  Qed.

  Lemma live_edges_length s : length (live_edges s) = nsome (map (@ewt _) (gedges (sg s))).
  Proof. apply (proj1 (live_edges_gen (gedges (sg s)) 0)). Qed.

  Lemma live_edges_In s i nd w :
    In (i, nd, w) (live_edges s) <->
    (ewo (sg s) i = Some w /\ epo (gedges (sg s)) 0 i = Some (fst nd) /\
     epo (gedges (sg s)) 1 i = Some (snd nd)).
  Proof.
    unfold live_edges. rewrite (proj2 (live_edges_gen (gedges (sg s)) 0)). rewrite Nat.sub_0_r.
    unfold ewo, epo. split.
    - intros [_ [e [He [Hw Hn]]]]. rewrite He. simpl. rewrite <- Hn. auto.
    - intros [H1 [H2 H3]]. split; [lia|].
      destruct (nth_error (gedges (sg s)) i) as [e|]; [|discriminate].
      exists e. split; auto. split; auto. simpl in H2, H3.
      destruct (enode e), nd. simpl in *. congruence.
  Qed.

  Lemma node_bound_spec s :
    (forall i, nwo (sg s) i <> None -> i < node_bound s) /\
    (node_bound s = 0 \/ nwo (sg s) (node_bound s - 1) <> None).
  Proof.
    unfold node_bound.
    destruct (@last_live_spec _ (map (@nwt _) (gnodes (sg s))) 0 0 (le_n _)) as [H1 H2]. split.
    - intros i Hi. rewrite nwo_map in Hi.
      destruct (nth_error (map (@nwt _) (gnodes (sg s))) i) as [[x|]|] eqn:E; try congruence.
      apply (H1 i x E).
    - destruct H2 as [E|[j [x [E H]]]]; [left; auto|]. right. rewrite E. simpl.
      rewrite Nat.sub_0_r, nwo_map, H. discriminate.
  Qed.

  Lemma edge_bound_spec s :
    (forall x, ewo (sg s) x <> None -> x < edge_bound s) /\
    (edge_bound s = 0 \/ ewo (sg s) (edge_bound s - 1) <> None).
  Proof.
    unfold edge_bound.
    destruct (@last_live_spec _ (map (@ewt _) (gedges (sg s))) 0 0 (le_n _)) as [H1 H2]. split.
    - intros i Hi. rewrite ewo_map in Hi.
      destruct (nth_error (map (@ewt _) (gedges (sg s))) i) as [[x|]|] eqn:E; try congruence.
      apply (H1 i x E).
    - destruct H2 as [E|[j [x [E H]]]]; [left; auto|]. right. rewrite E. simpl.
      rewrite Nat.sub_0_r, ewo_map, H. discriminate.
  Qed.

  (* the debug walks over the free lists *)
  Lemma free_node_walk_spec (g : IG) : forall l fuel cur prev len0,
    length (gnodes g) <= cap ->
    lseg (fnx g) cur l cap -> bkp g prev l -> length l < fuel ->
    free_node_walk cap fuel g cur prev len0 = Some (len0 + length l).
  Proof.
    induction l as [|x l IH]; intros fuel cur prev len0 Hc Hl Hb Hf;
      (destruct fuel as [|f]; [simpl in Hf; lia|]); cbn [free_node_walk].
    - apply lseg_nil_inv in Hl. rewrite Hl, Nat.eqb_refl. f_equal. simpl. lia.
    - pose proof (lseg_fnx_in x Hl (or_introl eq_refl)) as [Hx _].
      apply lseg_cons_inv in Hl. destruct Hl as [-> [h' [Hh Hl]]].
      destruct (Nat.eqb_spec cur cap) as [|_]; [lia|].
      destruct (fnx_Some _ _ Hh) as [n [Hn [Hw Hnx]]]. rewrite Hn, Hw.
      destruct Hb as [Hb0 Hb]. unfold hdn in Hb0. rewrite Hn in Hb0. simpl in Hb0.
      injection Hb0 as Hb0. rewrite Hb0, Nat.eqb_refl, Hnx.
      rewrite (IH f h' cur (S len0)); auto; [f_equal; simpl; lia|simpl in Hf; lia].
  Qed.

  Lemma free_edge_walk_spec (g : IG) : forall l fuel cur len0,
    length (gedges g) <= cap ->
    lseg (fex g) cur l cap -> length l < fuel ->
    free_edge_walk cap fuel g cur len0 = Some (len0 + length l).
  Proof.
    induction l as [|x l IH]; intros fuel cur len0 Hc Hl Hf;
      (destruct fuel as [|f]; [simpl in Hf; lia|]); cbn [free_edge_walk].
    - apply lseg_nil_inv in Hl. rewrite Hl, Nat.eqb_refl. f_equal. simpl. lia.
    - pose proof (lseg_fex_in x Hl (or_introl eq_refl)) as [Hx _].
      apply lseg_cons_inv in Hl. destruct Hl as [-> [h' [Hh Hl]]].
      destruct (Nat.eqb_spec cur cap) as [|_]; [lia|].
      destruct (fex_Some _ _ Hh) as [e [He [Hw Hnx]]]. rewrite He, Hw, Hnx.
      rewrite (IH f h' (S len0)); auto; [f_equal; simpl; lia|simpl in Hf; lia].
  Qed.

  Lemma check_free_lists_ok s : SInv cap s -> check_free_lists cap s = true.
  Proof.
    intros I. unfold check_free_lists.
    pose proof (sgi_ncap (si_g I)) as Hnc. pose proof (sgi_ecap (si_g I)) as Hec.
    destruct (si_fn I) as [nl [Hnl [Hnb Cn]]]. destruct (si_fe I) as [el [Hel Ce]].
    pose proof (FNL_NoDup Hnc Hnl) as Hndn. pose proof (FEL_NoDup Hec Hel) as Hnde.
    assert (Hcn : length nl + nsome (map (@nwt _) (gnodes (sg s))) = length (gnodes (sg s))).
    { rewrite <- (map_length (@nwt _) (gnodes (sg s))). apply count_vacant; auto.
      intros i. rewrite Cn, nwo_map.
      destruct (nth_error (map (@nwt _) (gnodes (sg s))) i) as [o|] eqn:E.
      - apply nth_error_Some_lt in E. rewrite map_length in E.
        split; [intros [_ [H _]]; congruence|]. intros [= ->]. split; auto. split; auto. discriminate.
      - apply nth_error_None in E. rewrite map_length in E. split; [lia|discriminate]. }
    assert (Hce : length el + nsome (map (@ewt _) (gedges (sg s))) = length (gedges (sg s))).
    { rewrite <- (map_length (@ewt _) (gedges (sg s))). apply count_vacant; auto.
      intros i. rewrite Ce, ewo_map.
      destruct (nth_error (map (@ewt _) (gedges (sg s))) i) as [o|] eqn:E.
      - apply nth_error_Some_lt in E. rewrite map_length in E.
        split; [intros [_ H]; congruence|]. intros [= ->]. split; auto.
      - apply nth_error_None in E. rewrite map_length in E. split; [lia|discriminate]. }
    rewrite (@free_node_walk_spec (sg s) nl _ (free_node s) cap 0 Hnc Hnl Hnb) by lia.
    rewrite (@free_edge_walk_spec (sg s) el _ (free_edge s) 0 Hec Hel) by lia.
    rewrite (si_nc I), (si_ec I). cbn [osome]. apply andb_true_iff. split; apply Nat.eqb_eq; lia.
  Qed.

  Lemma checked_ok debug s : SInv cap s -> checked cap debug s = Ok s.
  Proof.
    intros I. unfold checked. rewrite (check_free_lists_ok I). cbn [negb]. rewrite andb_false_r. reflexivity.
  Qed.

  (* ------------------------------------------------------------------ *)
  (* T6: reverse, clear_edges                                            *)

  Definition opk (k : nat) : nat := match k with 0 => 1 | _ => 0 end.

  Lemma sel_swapp p k : sel (swapp p) k = sel p (opk k).
  Proof. destruct k; reflexivity. Qed.

  Section Reverse.
    Variable s : sgraph.
    Hypothesis I : SInv cap s.
    Let g := sg s.
    Let g' := sg (s_reverse s).

    Lemma rev_nth_node i :
      nth_error (gnodes g') i =
      option_map (fun n => match nwt n with Some _ => set_nnext n (swapp (nnext n)) | None => n end)
                 (nth_error (gnodes g) i).
    Proof. unfold g', s_reverse. cbn [with_g sg gnodes]. apply nth_error_map. Qed.

    Lemma rev_nth_edge x :
      nth_error (gedges g') x =
      option_map (fun e => match ewt e with
                           | Some _ => mkEdge (ewt e) (swapp (enext e)) (swapp (enode e))
                           | None => e end)
                 (nth_error (gedges g) x).
    Proof. unfold g', s_reverse. cbn [with_g sg gedges]. apply nth_error_map. Qed.

    Lemma rev_nwt : map (@nwt _) (gnodes g') = map (@nwt _) (gnodes g).
    Proof.
      unfold g', s_reverse. cbn [with_g sg gnodes]. rewrite map_map. apply map_ext.
      intros n. destruct (nwt n) eqn:E; auto.
    Qed.

    Lemma rev_ewt : map (@ewt _) (gedges g') = map (@ewt _) (gedges g).
    Proof.
      unfold g', s_reverse. cbn [with_g sg gedges]. rewrite map_map. apply map_ext.
      intros e. destruct (ewt e) eqn:E; auto.
    Qed.

    Lemma rev_nwo i : nwo g' i = nwo g i.
    Proof. rewrite (nwo_map g' i), rev_nwt, <- nwo_map. reflexivity. Qed.

    Lemma rev_ewo x : ewo g' x = ewo g x.
    Proof. rewrite (ewo_map g' x), rev_ewt, <- ewo_map. reflexivity. Qed.

    Lemma rev_epo k x : ewo g x <> None -> epo (gedges g') k x = epo (gedges g) (opk k) x.
    Proof.
      intros H. unfold epo. rewrite rev_nth_edge. unfold ewo in H.
      destruct (nth_error (gedges g) x) as [e|]; [|reflexivity]. simpl.
      destruct (ewt e); [|congruence]. simpl. rewrite sel_swapp. reflexivity.
    Qed.

    Lemma rev_nxe k x : ewo g x <> None -> nxe (gedges g') k x = nxe (gedges g) (opk k) x.
    Proof.
      intros H. unfold nxe. rewrite rev_nth_edge. unfold ewo in H.
      destruct (nth_error (gedges g) x) as [e|]; [|reflexivity]. simpl.
      destruct (ewt e); [|congruence]. simpl. rewrite sel_swapp. reflexivity.
    Qed.

    Lemma rev_adj k i l : nwo g i <> None -> adj g (opk k) i l -> adj g' k i l.
    Proof.
      intros Li Hadj. pose proof Hadj as [n [Hn Hl]].
      rewrite (nwo_nth _ _ Hn) in Li.
      exists (set_nnext n (swapp (nnext n))). split.
      - rewrite rev_nth_node. fold g. rewrite Hn. simpl. destruct (nwt n); [reflexivity|congruence].
      - cbn [nnext set_nnext]. rewrite sel_swapp.
        eapply lseg_frame; [exact Hl|]. intros x Hx. apply rev_nxe.
        assert (Lv : lv None g i) by (apply lv_None; rewrite (nwo_nth _ _ Hn); auto).
        apply (GI_adj_in x (si_g I) Lv Hadj) in Hx. tauto.
    Qed.

    Lemma reverse_SInv : SInv cap (s_reverse s).
    Proof.
      pose proof (si_g I) as IG0. fold g in IG0.
      constructor; fold g'.
      - constructor.
        + rewrite <- (map_length (@nwt _)), rev_nwt, map_length. apply (sgi_ncap IG0).
        + rewrite <- (map_length (@ewt _)), rev_ewt, map_length. apply (sgi_ecap IG0).
        + intros k x i Hx Hep. rewrite rev_ewo in Hx. rewrite rev_epo in Hep by auto.
          apply lv_None. rewrite rev_nwo. apply lv_None. apply (sgi_ends IG0 (opk k) x); auto.
        + intros k i Li. apply lv_None in Li. rewrite rev_nwo in Li.
          destruct (sgi_adj IG0 (opk k) (proj2 (lv_None g i) Li)) as [l [Hl C]].
          exists l. split; [apply rev_adj; auto|].
          intros x. rewrite C, rev_ewo. split; intros [H1 H2]; split; auto.
          * rewrite rev_epo; auto.
          * rewrite rev_epo in H2; auto.
      - intros a H. discriminate.
      - unfold s_reverse at 1. cbn [with_g ncount]. rewrite rev_nwt. apply (si_nc I).
      - unfold s_reverse at 1. cbn [with_g ecount]. rewrite rev_ewt. apply (si_ec I).
      - unfold s_reverse. cbn [with_g free_node].
        apply (@FNL_frame cap None g g'); [apply rev_nwt| |apply (si_fn I)].
        intros j Hj _. rewrite rev_nth_node. unfold nwo in Hj.
        destruct (nth_error (gnodes g) j) as [n|]; [|reflexivity]. simpl. rewrite Hj. reflexivity.
      - unfold s_reverse. cbn [with_g free_edge].
        apply (@FEL_frame cap g g'); [apply rev_ewt| |apply (si_fe I)].
        intros x Hx. rewrite rev_nth_edge. unfold ewo in Hx.
        destruct (nth_error (gedges g) x) as [e|]; [|reflexivity]. simpl. rewrite Hx. reflexivity.
    Qed.

    Lemma reverse_vacant_nodes j : nwo g j = None -> nth_error (gnodes g') j = nth_error (gnodes g) j.
    Proof.
      intros Hj. rewrite rev_nth_node. unfold nwo in Hj.
      destruct (nth_error (gnodes g) j) as [n|]; [|reflexivity]. simpl. rewrite Hj. reflexivity.
    Qed.

    Lemma reverse_vacant_edges x : ewo g x = None -> nth_error (gedges g') x = nth_error (gedges g) x.
    Proof.
      intros Hx. rewrite rev_nth_edge. unfold ewo in Hx.
      destruct (nth_error (gedges g) x) as [e|]; [|reflexivity]. simpl. rewrite Hx. reflexivity.
    Qed.
  End Reverse.

  Section Clear.
    Variable s : sgraph.
    Hypothesis I : SInv cap s.
    Let g := sg s.
    Let g' := sg (s_clear_edges cap s).

    Lemma clr_nth_node i :
      nth_error (gnodes g') i =
      option_map (fun n => match nwt n with Some _ => set_nnext n (cap, cap) | None => n end)
                 (nth_error (gnodes g) i).
    Proof. unfold g', s_clear_edges. cbn [sg gnodes]. apply nth_error_map. Qed.

    Lemma clr_nwt : map (@nwt _) (gnodes g') = map (@nwt _) (gnodes g).
    Proof.
      unfold g', s_clear_edges. cbn [sg gnodes]. rewrite map_map. apply map_ext.
      intros n. destruct (nwt n) eqn:E; auto.
    Qed.

    Lemma clr_nwo i : nwo g' i = nwo g i.
    Proof. rewrite (nwo_map g' i), clr_nwt, <- nwo_map. reflexivity. Qed.

    Lemma clr_ewo x : ewo g' x = None.
    Proof. unfold ewo, g', s_clear_edges. cbn [sg gedges]. destruct x; reflexivity. Qed.

    Lemma clr_adj k i : nwo g i <> None -> adj g' k i [].
    Proof.
      intros Li. pose proof (nwo_Some_lt g i Li) as Hi.
      destruct (nth_error_lt_Some _ Hi) as [n Hn]. rewrite (nwo_nth _ _ Hn) in Li.
      exists (set_nnext n (cap, cap)). split.
      - rewrite clr_nth_node. fold g. rewrite Hn. simpl. destruct (nwt n); [reflexivity|congruence].
      - cbn [nnext set_nnext]. destruct k; simpl; constructor.
    Qed.

    Lemma clear_edges_SInv : SInv cap (s_clear_edges cap s).
    Proof.
      pose proof (si_g I) as IG0. fold g in IG0.
      constructor; fold g'.
      - constructor.
        + rewrite <- (map_length (@nwt _)), clr_nwt, map_length. apply (sgi_ncap IG0).
        + unfold g', s_clear_edges. cbn [sg gedges length]. lia.
        + intros k x i Hx. rewrite clr_ewo in Hx. congruence.
        + intros k i Li. apply lv_None in Li. rewrite clr_nwo in Li.
          exists []. split; [apply clr_adj; auto|].
          intros x. rewrite clr_ewo. split; [intros []|intros [H _]; congruence].
      - intros a H. discriminate.
      - unfold s_clear_edges at 1. cbn [ncount]. rewrite clr_nwt. apply (si_nc I).
      - unfold s_clear_edges. cbn [ecount sg gedges map nsome]. reflexivity.
      - unfold s_clear_edges. cbn [free_node].
        apply (@FNL_frame cap None g g'); [apply clr_nwt| |apply (si_fn I)].
        intros j Hj _. rewrite clr_nth_node. unfold nwo in Hj.
        destruct (nth_error (gnodes g) j) as [n|]; [|reflexivity]. simpl. rewrite Hj. reflexivity.
      - unfold s_clear_edges. cbn [free_edge].
        exists []. split; [constructor|]. intros x. rewrite clr_ewo.
        unfold g', s_clear_edges. cbn [sg gedges length]. split; [intros []|lia].
    Qed.
  End Clear.
End StableT.
