(* C13b, V2: a pair accepted by is_feasible extends a partial embedding to a partial embedding;
   every mapping of the recursive enumeration is a member of sub_isos. *)
From PG Require Import Lib.Io Lib.ListExtra Model.IsoM Model.Vf2M Spec.IsoSpec Proofs.IsoRefP
                       Proofs.Vf2BaseP Proofs.Vf2StateP Proofs.Vf2MachP Proofs.Vf2FeasP.

Lemma adjb_ew g a b : adjb g a b = true <-> ew g a b <> None.
Proof. unfold adjb, ew. destruct (edge_w _ _ a b); split; congruence. Qed.

Lemma ew_sym_und g a b : s_dir g = false -> ew g a b = ew g b a.
Proof. intros Hd. unfold ew. rewrite Hd. apply edge_w_undirected_sym. Qed.

Lemma adjb_sym_und g a b : s_dir g = false -> adjb g a b = adjb g b a.
Proof. intros Hd. unfold adjb. rewrite Hd, edge_w_undirected_sym. reflexivity. Qed.

Lemma edge_ok_intro em o0 o1 :
  (o0 <> None <-> o1 <> None) ->
  (forall w0 w1, o0 = Some w0 -> o1 = Some w1 -> wmatch em w0 w1 = true) ->
  edge_ok em o0 o1.
Proof.
  intros H1 H2. destruct o0 as [w0|], o1 as [w1|]; cbn [edge_ok].
  - apply H2; reflexivity.
  - apply (proj1 H1); [discriminate|reflexivity].
  - apply (proj2 H1); [discriminate|reflexivity].
  - exact I.
Qed.

Lemma edge_ok_adj em o0 o1 : edge_ok em o0 o1 -> (o0 <> None <-> o1 <> None).
Proof. destruct o0, o1; cbn [edge_ok]; intros H; split; congruence || contradiction. Qed.

Section Sound.
Variables (sem subgraph : bool) (nm em : Z) (g0 g1 : sgraph6).
Hypothesis Hwf0 : wf g0.
Hypothesis Hwf1 : wf g1.
Hypothesis Hdir : s_dir g0 = s_dir g1.

(* NoSemanticMatch: the predicates that always hold *)
Definition nmE : Z := if sem then nm else 0%Z.
Definition emE : Z := if sem then em else 0%Z.

Let He0 : erange g0 := wf_erange g0 Hwf0.
Let He1 : erange g1 := wf_erange g1 Hwf1.

(* the mapped part of the first graph is embedded *)
Definition pemb (st : st2) : Prop :=
  (forall a b a' b',
     nth a (vs_mapping (fst st)) None = Some b -> nth a' (vs_mapping (fst st)) None = Some b' ->
     edge_ok emE (ew g0 a a') (ew g1 b b')) /\
  (forall a b, nth a (vs_mapping (fst st)) None = Some b -> wmatch nmE (nwt g0 a) (nwt g1 b) = true).

Lemma pemb_new : pemb (vs_new g0, vs_new g1).
Proof.
  split.
  - intros a b a' b' H. unfold vs_new in H. cbn [fst vs_mapping] in H. rewrite nth_repeat_d in H.
    discriminate.
  - intros a b H. unfold vs_new in H. cbn [fst vs_mapping] in H. rewrite nth_repeat_d in H.
    discriminate.
Qed.

Section Feasible.
Variables (st : st2) (n0 n1 : nat).
Hypothesis Hv : pvalid g0 g1 st.
Hypothesis Hn0 : n0 < s_n g0.
Hypothesis Hn1 : n1 < s_n g1.
Hypothesis Hu0 : nth n0 (vs_mapping (fst st)) None = None.
Hypothesis Hu1 : nth n1 (vs_mapping (snd st)) None = None.

Lemma isadj0 x y : x < s_n g0 -> y < s_n g0 -> is_adjacent g0 (vs_adj (fst st)) x y = adjb g0 x y.
Proof. intros. rewrite (sv_adj _ _ (pv_0 _ _ _ Hv)). apply is_adjacent_adjb; auto. Qed.
Lemma isadj1 x y : x < s_n g1 -> y < s_n g1 -> is_adjacent g1 (vs_adj (snd st)) x y = adjb g1 x y.
Proof. intros. rewrite (sv_adj _ _ (pv_1 _ _ _ Hv)). apply is_adjacent_adjb; auto. Qed.

Lemma map0_lt a b : nth a (vs_mapping (fst st)) None = Some b -> a < s_n g0 /\ b < s_n g1.
Proof.
  intros H. split; [|eapply pv_rng0; eauto].
  rewrite <- (sv_map_len _ _ (pv_0 _ _ _ Hv)). eapply nth_Some_lt; eauto.
Qed.
Lemma map1_lt a b : nth b (vs_mapping (snd st)) None = Some a -> a < s_n g0 /\ b < s_n g1.
Proof.
  intros H. split; [eapply pv_rng1; eauto|].
  rewrite <- (sv_map_len _ _ (pv_1 _ _ _ Hv)). eapply nth_Some_lt; eauto.
Qed.
Lemma map01 a b : nth a (vs_mapping (fst st)) None = Some b -> nth b (vs_mapping (snd st)) None = Some a.
Proof. intros H. destruct (map0_lt a b H). apply (pv_inv _ _ _ Hv); auto. Qed.
Lemma map10 a b : nth b (vs_mapping (snd st)) None = Some a -> nth a (vs_mapping (fst st)) None = Some b.
Proof. intros H. destruct (map1_lt a b H). apply (pv_inv _ _ _ Hv); auto. Qed.

Lemma mneigh0 a b : nth a (vs_mapping (fst st)) None = Some b ->
  m_neigh_succ (fst st) n0 n1 a = Some b.
Proof.
  intros H. unfold m_neigh_succ. destruct (Nat.eqb_spec n0 a) as [->|Hn]; cbn [negb]; [congruence|auto].
Qed.
Lemma mneigh1 a b : nth b (vs_mapping (snd st)) None = Some a ->
  m_neigh_succ (snd st) n1 n0 b = Some a.
Proof.
  intros H. unfold m_neigh_succ. destruct (Nat.eqb_spec n1 b) as [->|Hn]; cbn [negb]; [congruence|auto].
Qed.
Lemma mneigh_self (stj : vf2_state) (nj no : nat) : m_neigh_succ stj nj no nj = Some no.
Proof. unfold m_neigh_succ. rewrite Nat.eqb_refl. reflexivity. Qed.

(* ---- the syntactic part ---- *)
Hypothesis Hsucc : syn_succ g0 g1 st n0 n1 = true.
Hypothesis Hpred : syn_pred g0 g1 st n0 n1 = true.

Lemma Hsucc0 x : adjb g0 n0 x = true -> succ_chk (fst st) g1 (snd st) n0 n1 x = true.
Proof.
  intros H. pose proof Hsucc as Hs. unfold syn_succ in Hs. apply andb_true_iff in Hs. destruct Hs as [H1 _].
  rewrite forallb_forall in H1. apply H1. apply neighbors_out_In. exact H.
Qed.
Lemma Hsucc1 y : adjb g1 n1 y = true -> succ_chk (snd st) g0 (fst st) n1 n0 y = true.
Proof.
  intros H. pose proof Hsucc as Hs. unfold syn_succ in Hs. apply andb_true_iff in Hs. destruct Hs as [_ H1].
  apply andb_true_iff in H1. destruct H1 as [H1 _].
  rewrite forallb_forall in H1. apply H1. apply neighbors_out_In. exact H.
Qed.
Lemma Hpred0 x : s_dir g0 = true -> adjb g0 x n0 = true -> pred_chk (fst st) g1 (snd st) n1 x = true.
Proof.
  intros Hd H. pose proof Hpred as Hp. unfold syn_pred in Hp. rewrite Hd in Hp.
  apply andb_true_iff in Hp. destruct Hp as [H1 _].
  rewrite forallb_forall in H1. apply H1. apply neighbors_in_In; auto.
Qed.
Lemma Hpred1 y : s_dir g0 = true -> adjb g1 y n1 = true -> pred_chk (snd st) g0 (fst st) n0 y = true.
Proof.
  intros Hd H. pose proof Hpred as Hp. unfold syn_pred in Hp. rewrite Hd in Hp.
  apply andb_true_iff in Hp. destruct Hp as [_ H1].
  apply andb_true_iff in H1. destruct H1 as [H1 _].
  rewrite forallb_forall in H1. apply H1. apply neighbors_in_In; auto. congruence.
Qed.

Lemma F1 a' b' : nth a' (vs_mapping (fst st)) None = Some b' ->
  (adjb g0 n0 a' = true <-> adjb g1 n1 b' = true).
Proof.
  intros Hm. destruct (map0_lt _ _ Hm) as [Ha Hb]. split; intros H.
  - apply Hsucc0 in H. unfold succ_chk in H. rewrite (mneigh0 _ _ Hm) in H.
    rewrite isadj1 in H; auto.
  - apply Hsucc1 in H. unfold succ_chk in H. rewrite (mneigh1 _ _ (map01 _ _ Hm)) in H.
    rewrite isadj0 in H; auto.
Qed.

Lemma F2 : adjb g0 n0 n0 = true <-> adjb g1 n1 n1 = true.
Proof.
  split; intros H.
  - apply Hsucc0 in H. unfold succ_chk in H. rewrite mneigh_self in H. rewrite isadj1 in H; auto.
  - apply Hsucc1 in H. unfold succ_chk in H. rewrite mneigh_self in H. rewrite isadj0 in H; auto.
Qed.

Lemma F3 a' b' : nth a' (vs_mapping (fst st)) None = Some b' ->
  (adjb g0 a' n0 = true <-> adjb g1 b' n1 = true).
Proof.
  intros Hm. destruct (map0_lt _ _ Hm) as [Ha Hb].
  destruct (Bool.bool_dec (s_dir g0) true) as [Hd|Hd]; [|apply not_true_is_false in Hd].
  - split; intros H.
    + apply Hpred0 in H; auto. unfold pred_chk in H. rewrite Hm in H. rewrite isadj1 in H; auto.
    + apply Hpred1 in H; auto. unfold pred_chk in H. rewrite (map01 _ _ Hm) in H.
      rewrite isadj0 in H; auto.
  - rewrite (adjb_sym_und g0 a' n0 Hd), (adjb_sym_und g1 b' n1) by congruence. apply F1; auto.
Qed.

(* ---- the semantic part ---- *)
Hypothesis Hsem : sem_ok sem nm em g0 g1 st n0 n1 = true.

Lemma edge_match_eq_w e0 e1 w0 w1 :
  ew g0 (fst e0) (snd e0) = Some w0 -> ew g1 (fst e1) (snd e1) = Some w1 ->
  edge_match_eq em g0 g1 e0 e1 = true -> wmatch em w0 w1 = true.
Proof.
  intros H0 H1 H. unfold edge_match_eq in H. rewrite !find_edge_weight_edge_w in H by auto.
  unfold ew in H0, H1. rewrite H0, H1 in H. exact H.
Qed.

Lemma W_out x m w0 w1 : sem = true ->
  m_neigh_succ (fst st) n0 n1 x = Some m ->
  ew g0 n0 x = Some w0 -> ew g1 n1 m = Some w1 -> wmatch em w0 w1 = true.
Proof.
  intros Hs Hm H0 H1. pose proof Hsem as Hse. unfold sem_ok in Hse. rewrite Hs in Hse.
  apply andb_true_iff in Hse. destruct Hse as [_ H]. apply andb_true_iff in H. destruct H as [H _].
  unfold edge_feas_b in H. apply andb_true_iff in H. destruct H as [H _].
  rewrite forallb_forall in H.
  assert (Hin : In x (neighbors_directed g0 n0 true)).
  { apply neighbors_out_In. apply adjb_ew. congruence. }
  apply H in Hin. unfold efo_chk in Hin. rewrite Hm in Hin.
  eapply (edge_match_eq_w (n0, x) (n1, m)); eauto.
Qed.

Lemma W_in x m w0 w1 : sem = true -> s_dir g0 = true ->
  nth x (vs_mapping (fst st)) None = Some m ->
  ew g0 x n0 = Some w0 -> ew g1 m n1 = Some w1 -> wmatch em w0 w1 = true.
Proof.
  intros Hs Hd Hm H0 H1. pose proof Hsem as Hse. unfold sem_ok in Hse. rewrite Hs in Hse.
  apply andb_true_iff in Hse. destruct Hse as [_ H]. apply andb_true_iff in H. destruct H as [H _].
  unfold edge_feas_b in H. apply andb_true_iff in H. destruct H as [_ H]. rewrite Hd in H.
  rewrite forallb_forall in H.
  assert (Hin : In x (neighbors_directed g0 n0 false)).
  { apply neighbors_in_In; auto. apply adjb_ew. congruence. }
  apply H in Hin. unfold efi_chk in Hin. rewrite Hm in Hin.
  eapply (edge_match_eq_w (x, n0) (m, n1)); eauto.
Qed.

Lemma wmatch_emE w0 w1 : (sem = true -> wmatch em w0 w1 = true) -> wmatch emE w0 w1 = true.
Proof.
  unfold emE. destruct (Bool.bool_dec sem true) as [E|E]; [|apply not_true_is_false in E]; rewrite E.
  - auto.
  - intros _. apply wmatch_0.
Qed.

Lemma feasible_pemb : pemb st -> pemb (push_state g0 g1 st n0 n1).
Proof.
  intros [Pe Pn].
  assert (Hl0 : n0 < length (vs_mapping (fst st))) by (rewrite (sv_map_len _ _ (pv_0 _ _ _ Hv)); auto).
  split.
  - intros a b a' b'. unfold push_state. cbn [fst]. rewrite !push_mapping_nth by auto.
    destruct (Nat.eqb_spec n0 a) as [<-|Ha]; destruct (Nat.eqb_spec n0 a') as [<-|Ha'];
      intros Hm Hm'.
    + inversion Hm; inversion Hm'; subst b b'.
      apply edge_ok_intro.
      * rewrite <- !adjb_ew. apply F2.
      * intros w0 w1 E0 E1. apply wmatch_emE. intros Hs.
        apply (W_out n0 n1 w0 w1 Hs (mneigh_self _ _ _) E0 E1).
    + inversion Hm; subst b.
      apply edge_ok_intro.
      * rewrite <- !adjb_ew. apply F1; auto.
      * intros w0 w1 E0 E1. apply wmatch_emE. intros Hs.
        apply (W_out a' b' w0 w1 Hs (mneigh0 _ _ Hm') E0 E1).
    + inversion Hm'; subst b'.
      apply edge_ok_intro.
      * rewrite <- !adjb_ew. apply F3; auto.
      * intros w0 w1 E0 E1. apply wmatch_emE. intros Hs.
        destruct (Bool.bool_dec (s_dir g0) true) as [Hd|Hd]; [|apply not_true_is_false in Hd].
        -- apply (W_in a b w0 w1 Hs Hd Hm E0 E1).
        -- rewrite ew_sym_und in E0 by auto. rewrite ew_sym_und in E1 by congruence.
           apply (W_out a b w0 w1 Hs (mneigh0 _ _ Hm) E0 E1).
    + apply Pe; auto.
  - intros a b. unfold push_state. cbn [fst]. rewrite push_mapping_nth by auto.
    destruct (Nat.eqb_spec n0 a) as [<-|Ha]; intros Hm; [|apply Pn; auto].
    inversion Hm; subst b. unfold nmE.
    destruct (Bool.bool_dec sem true) as [Hs|Hs]; [|apply not_true_is_false in Hs]; rewrite Hs;
      [|apply wmatch_0].
    pose proof Hsem as Hse. unfold sem_ok in Hse. rewrite Hs in Hse.
    apply andb_true_iff in Hse. destruct Hse as [H _].
    unfold node_match_eq in H. unfold nwt.
    destruct (nth_error (s_nw g0) n0) as [x|] eqn:E0; [|discriminate].
    destruct (nth_error (s_nw g1) n1) as [y|] eqn:E1; [|discriminate].
    rewrite (nth_error_nth_default _ _ _ E0), (nth_error_nth_default _ _ _ E1). exact H.
Qed.

End Feasible.

Lemma feasible_sound st n0 n1 : pvalid g0 g1 st -> pemb st ->
  n0 < s_n g0 -> n1 < s_n g1 ->
  nth n0 (vs_mapping (fst st)) None = None -> nth n1 (vs_mapping (snd st)) None = None ->
  is_feasible sem nm em g0 g1 st n0 n1 = true ->
  pemb (push_state g0 g1 st n0 n1).
Proof.
  intros Hv Hp Hn0 Hn1 Hu0 Hu1 Hf. rewrite is_feasible_eq in Hf.
  apply andb_true_iff in Hf. destruct Hf as [H1 H2]. apply andb_true_iff in H2. destruct H2 as [H2 H3].
  apply feasible_pemb; auto.
Qed.

(* ------------------------------------------------------------------ *)
(* a complete state with an embedded mapped part is a member of sub_isos *)

Lemma mapping_out_nth st a b : nth a (vs_mapping st) None = Some b -> nth a (mapping_out st) 0 = b.
Proof.
  intros H. unfold mapping_out.
  change 0 with ((fun o : option nat => match o with Some x => x | None => 0 end) None).
  rewrite map_nth, H. reflexivity.
Qed.

Lemma complete_sub_iso st : pvalid g0 g1 st -> pemb st -> is_complete (fst st) = true ->
  In (mapping_out (fst st)) (sub_isos nmE emE g0 g1).
Proof.
  intros Hv [Pe Pn] Hc. apply sub_isos_In.
  assert (Hlen : length (mapping_out (fst st)) = s_n g0).
  { unfold mapping_out. rewrite map_length. apply (sv_map_len _ _ (pv_0 _ _ _ Hv)). }
  split; auto.
  assert (Hall : forall a, a < s_n g0 -> exists b, nth a (vs_mapping (fst st)) None = Some b).
  { intros a Ha. pose proof (complete_all_mapped g0 (fst st) (pv_0 _ _ _ Hv) Hc a Ha) as H.
    destruct (nth a (vs_mapping (fst st)) None) as [b|]; [eauto|congruence]. }
  split; [|split].
  - intros a Ha. destruct (Hall a Ha) as [b Hb]. rewrite (mapping_out_nth _ _ _ Hb).
    eapply pv_rng0; eauto.
  - intros a a' Ha Ha' E. destruct (Hall a Ha) as [b Hb]. destruct (Hall a' Ha') as [b' Hb'].
    rewrite (mapping_out_nth _ _ _ Hb), (mapping_out_nth _ _ _ Hb') in E. subst b'.
    assert (Hb1 : b < s_n g1) by (eapply pv_rng0; eauto).
    apply (pv_inv _ _ _ Hv) in Hb; auto. apply (pv_inv _ _ _ Hv) in Hb'; auto. congruence.
  - split.
    + intros a a' Ha Ha'. destruct (Hall a Ha) as [b Hb]. destruct (Hall a' Ha') as [b' Hb'].
      rewrite (mapping_out_nth _ _ _ Hb), (mapping_out_nth _ _ _ Hb'). apply (Pe a b a' b'); auto.
    + intros a Ha. destruct (Hall a Ha) as [b Hb]. rewrite (mapping_out_nth _ _ _ Hb). apply Pn; auto.
Qed.

(* ------------------------------------------------------------------ *)
(* the candidates of the second graph                                   *)

Lemma filter_none {A} (f : A -> bool) l : (forall x, In x l -> f x = false) -> filter f l = [].
Proof.
  induction l as [|h t IH]; intros H; cbn [filter]; auto.
  rewrite (H h (or_introl eq_refl)). apply IH. intros x Hx. apply H. right; auto.
Qed.

Lemma cand_iter_eq w st1 ol n1 : svalid g1 st1 -> n1 < s_n g1 -> s_n g1 - n1 <= w ->
  cand_iter g1 w st1 ol n1 = n1 :: filter (in_open g1 st1 ol) (seq (n1 + 1) (s_n g1 - n1 - 1)).
Proof.
  intros Hv. revert n1; induction w as [|w IH]; intros n1 Hn Hw; [lia|].
  cbn [cand_iter]. f_equal.
  destruct (next_idx g1 st1 ol (n1 + 1)) as [nx|] eqn:E.
  - apply next_idx_Some in E; auto. destruct E as (E1 & E2 & E3).
    rewrite IH by lia.
    replace (s_n g1 - n1 - 1) with ((nx - (n1 + 1)) + (s_n g1 - nx)) by lia.
    rewrite seq_app, filter_app.
    rewrite (filter_none _ (seq (n1 + 1) (nx - (n1 + 1)))).
    2:{ intros x Hx. apply in_seq in Hx. apply E3. lia. }
    replace (n1 + 1 + (nx - (n1 + 1))) with nx by lia.
    replace (s_n g1 - nx - 1) with (pred (s_n g1 - nx)) by lia.
    destruct (s_n g1 - nx) as [|k] eqn:Ek; [lia|]. cbn [pred].
    cbn [seq filter app]. rewrite E2. replace (nx + 1) with (S nx) by lia. reflexivity.
  - rewrite filter_none; auto. intros x Hx. apply in_seq in Hx.
    eapply next_idx_None; eauto. lia.
Qed.

Lemma cand_iter_In w st1 ol n1 x : svalid g1 st1 -> n1 < s_n g1 -> s_n g1 - n1 <= w ->
  nth n1 (vs_mapping st1) None = None ->
  In x (cand_iter g1 w st1 ol n1) -> x < s_n g1 /\ nth x (vs_mapping st1) None = None.
Proof.
  intros Hv Hn Hw Hu H. rewrite cand_iter_eq in H by auto. destruct H as [<-|H]; auto.
  apply filter_In in H. destruct H as [H1 H2]. apply in_seq in H1.
  split; [lia|]. eapply in_open_unmapped; eauto.
Qed.

(* ------------------------------------------------------------------ *)
(* V2 for the enumeration                                               *)

Theorem outs_sound d st m : pvalid g0 g1 st -> pemb st ->
  In m (outs sem subgraph nm em g0 g1 d st) -> In m (sub_isos nmE emE g0 g1).
Proof.
  revert st m. induction d as [|d IH]; intros st m Hv Hp H; cbn [outs] in H; [contradiction|].
  destruct (next_candidate g0 g1 st) as [[[n0 n1] ol]|] eqn:En; [|contradiction].
  pose proof (next_candidate_spec _ _ _ _ _ _ Hv En) as (A1 & A2 & A3 & A4).
  apply in_flat_map in H. destruct H as [x [Hx H]].
  apply cand_iter_In in Hx; auto; try lia; [|apply Hv]. destruct Hx as [X1 X2].
  unfold branch in H. destruct (is_feasible sem nm em g0 g1 st n0 x) eqn:Ef; [|contradiction].
  assert (Hv' : pvalid g0 g1 (push_state g0 g1 st n0 x)) by (apply pvalid_push; auto).
  assert (Hp' : pemb (push_state g0 g1 st n0 x)) by (apply feasible_sound; auto).
  cbv zeta in H. apply in_app_iff in H. destruct H as [H|H].
  - destruct (is_complete (fst (push_state g0 g1 st n0 x))) eqn:Ec; [|contradiction].
    destruct H as [<-|[]]. apply complete_sub_iso; auto.
  - destruct (card_ok subgraph (push_state g0 g1 st n0 x)); [|contradiction].
    eapply IH; eauto.
Qed.

End Sound.
