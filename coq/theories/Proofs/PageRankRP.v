(* C20b, part 3: the variant that reduces every partial sum (page_rank_qr, the one the
   differential run executes) computes the same ranks as page_rank_q up to Qeq, and the printed
   integers (scale9) do not depend on the representation of a rational. *)
From Coq Require Import QArith Lia List.
From PG Require Import Lib.Io Model.View Model.PageRankM Proofs.PageRankP.
Import ListNotations.
Local Open Scope Q_scope.

Lemma Forall2_Qeq_refl l : Forall2 Qeq l l.
Proof. induction l; constructor; [reflexivity|assumption]. Qed.

Lemma Forall2_map_same {A} (f g : A -> Q) l : (forall x, f x == g x) -> Forall2 Qeq (map f l) (map g l).
Proof. intros H. induction l; cbn [map]; constructor; [apply H|assumption]. Qed.

Lemma Forall2_map2 (f g : Q -> Q) l l' : (forall a b, a == b -> f a == g b) ->
  Forall2 Qeq l l' -> Forall2 Qeq (map f l) (map g l').
Proof. intros H F. induction F; cbn [map]; constructor; [apply H|]; assumption. Qed.

Lemma fold_qsum_r l l' : Forall2 Qeq l l' -> forall a a', a == a' ->
  fold_left (fun a x => Qred (a + x)) l a == fold_left Qplus l' a'.
Proof.
  intros F. induction F as [|x y l l' Exy F IH]; intros a a' Ea; cbn [fold_left]; [exact Ea|].
  apply IH. rewrite Qred_correct, Ea, Exy. reflexivity.
Qed.

Lemma qsum_r_qsum l l' : Forall2 Qeq l l' -> qsum_r l == qsum l'.
Proof. intros F. unfold qsum_r, qsum. apply (fold_qsum_r l l' F). reflexivity. Qed.

Lemma Forall2_combine_terms (T : nat -> Q -> Q) : (forall w a b, a == b -> T w a == T w b) ->
  forall r r', Forall2 Qeq r r' -> forall ns,
  Forall2 Qeq (map (fun wr => T (fst wr) (snd wr)) (combine ns r))
              (map (fun wr => T (fst wr) (snd wr)) (combine ns r')).
Proof.
  intros HT r r' F. induction F as [|x y r r' Exy F IH]; intros ns.
  - rewrite !combine_nil. constructor.
  - destruct ns as [|w ns]; cbn [combine map fst snd]; constructor; [apply HT; exact Exy|apply IH].
Qed.

Lemma Qeq_bool_comp0 a b : a == b -> Qeq_bool a 0 = Qeq_bool b 0.
Proof.
  intros E. destruct (Qeq_bool a 0) eqn:Ea, (Qeq_bool b 0) eqn:Eb; try reflexivity.
  - apply Qeq_bool_iff in Ea. apply Qeq_bool_neq in Eb. exfalso. apply Eb. rewrite <- E. exact Ea.
  - apply Qeq_bool_iff in Eb. apply Qeq_bool_neq in Ea. exfalso. apply Ea. rewrite E. exact Eb.
Qed.

Lemma pr_pi_r_equiv v n d r r' : Forall2 Qeq r r' -> Forall2 Qeq (pr_pi_r v n d r) (pr_pi v n d r').
Proof.
  intros F. unfold pr_pi_r, pr_pi. cbv zeta. apply Forall2_map_same. intros x.
  apply qsum_r_qsum.
  apply (Forall2_combine_terms
           (fun w q => pr_term d (inject_Z (Z.of_nat n)) (links v w x) (out_deg v w) q)).
  - intros w a b E. apply pr_term_comp. exact E.
  - exact F.
Qed.

Lemma pr_step_r_equiv v n d r r' : Forall2 Qeq r r' ->
  match pr_step_r v n d r, pr_step v n d r' with
  | Some a, Some b => Forall2 Qeq a b
  | None, None => True
  | _, _ => False
  end.
Proof.
  intros F. pose proof (pr_pi_r_equiv v n d r r' F) as Fp.
  pose proof (qsum_r_qsum _ _ Fp) as Es.
  unfold pr_step_r, pr_step. cbv zeta. rewrite (Qeq_bool_comp0 _ _ Es).
  destruct (Qeq_bool (qsum (pr_pi v n d r')) 0); [exact I|].
  apply Forall2_map2; [|exact Fp].
  intros a b E. rewrite !Qred_correct. apply Qdiv_comp; assumption.
Qed.

Lemma pr_iter_r_equiv v n d k : forall r r', Forall2 Qeq r r' ->
  Forall2 Qeq (pr_iter_r v n d k r) (pr_iter v n d k r').
Proof.
  induction k as [|k IH]; intros r r' F; cbn [pr_iter_r pr_iter]; [exact F|].
  pose proof (pr_step_r_equiv v n d r r' F) as Hs.
  destruct (pr_step_r v n d r) as [a|], (pr_step v n d r') as [b|]; try contradiction.
  - apply IH. exact Hs.
  - exact F.
Qed.

(* P7 *)
Theorem page_rank_qr_equiv v d k : Forall2 Qeq (page_rank_qr v d k) (page_rank_q v d k).
Proof.
  unfold page_rank_qr, page_rank_q. cbv zeta. destruct (vnode_count v) as [|n]; [constructor|].
  apply pr_iter_r_equiv. apply Forall2_Qeq_refl.
Qed.

(* P8 *)
Theorem scale9_compat q1 q2 : q1 == q2 -> scale9 q1 = scale9 q2.
Proof.
  unfold Qeq, scale9. destruct q1 as [n1 d1], q2 as [n2 d2]. cbn [Qnum Qden]. intros E.
  rewrite <- (Z.div_mul_cancel_r (2 * n1 * 1000000000 + Zpos d1) (2 * Zpos d1) (Zpos d2)) by lia.
  rewrite <- (Z.div_mul_cancel_r (2 * n2 * 1000000000 + Zpos d2) (2 * Zpos d2) (Zpos d1)) by lia.
  f_equal.
  - transitivity (2 * 1000000000 * (n1 * Zpos d2) + Zpos d1 * Zpos d2)%Z; [ring|].
    rewrite E. ring.
  - ring.
Qed.

Lemma map_scale9_compat l l' : Forall2 Qeq l l' -> map scale9 l = map scale9 l'.
Proof.
  intros F. induction F as [|x y l l' E F IH]; cbn [map]; [reflexivity|].
  rewrite (scale9_compat x y E), IH. reflexivity.
Qed.

Theorem prank_output v d k : map scale9 (page_rank_qr v d k) = map scale9 (page_rank_q v d k).
Proof. apply map_scale9_compat. apply page_rank_qr_equiv. Qed.
