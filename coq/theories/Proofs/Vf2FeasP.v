(* C13b: is_feasible as a conjunction of checks over the neighbour lists *)
From PG Require Import Lib.Io Lib.ListExtra Model.IsoM Model.Vf2M Spec.IsoSpec Proofs.IsoRefP
                       Proofs.Vf2BaseP Proofs.Vf2StateP.

Definition succ_chk (stj : vf2_state) (go : sgraph6) (sto : vf2_state) (nj no x : nat) : bool :=
  match m_neigh_succ stj nj no x with
  | None => true
  | Some m => is_adjacent go (vs_adj sto) no m
  end.
Definition pred_chk (stj : vf2_state) (go : sgraph6) (sto : vf2_state) (no x : nat) : bool :=
  match nth x (vs_mapping stj) None with
  | None => true
  | Some m => is_adjacent go (vs_adj sto) m no
  end.
Definition efo_chk (eq : nat * nat -> nat * nat -> bool) (stj : vf2_state) (nj no x : nat) : bool :=
  match m_neigh_succ stj nj no x with
  | None => true
  | Some m => eq (nj, x) (no, m)
  end.
Definition efi_chk (eq : nat * nat -> nat * nat -> bool) (stj : vf2_state) (nj no x : nat) : bool :=
  match nth x (vs_mapping stj) None with
  | None => true
  | Some m => eq (x, nj) (m, no)
  end.

Lemma r_succ_loop_eq stj go sto nj no l c :
  r_succ_loop stj go sto nj no l c =
  if forallb (succ_chk stj go sto nj no) l then Some (c + length l) else None.
Proof.
  revert c; induction l as [|x t IH]; intros c; cbn [r_succ_loop forallb length].
  - rewrite Nat.add_0_r. reflexivity.
  - unfold succ_chk at 1. destruct (m_neigh_succ stj nj no x) as [m|].
    + destruct (is_adjacent go (vs_adj sto) no m); cbn [andb]; auto.
      rewrite IH. replace (S c + length t) with (c + S (length t)) by lia. reflexivity.
    + cbn [andb]. rewrite IH. replace (S c + length t) with (c + S (length t)) by lia. reflexivity.
Qed.

Lemma r_pred_loop_eq stj go sto no l c :
  r_pred_loop stj go sto no l c =
  if forallb (pred_chk stj go sto no) l then Some (c + length l) else None.
Proof.
  revert c; induction l as [|x t IH]; intros c; cbn [r_pred_loop forallb length].
  - rewrite Nat.add_0_r. reflexivity.
  - unfold pred_chk at 1. destruct (nth x (vs_mapping stj) None) as [m|].
    + destruct (is_adjacent go (vs_adj sto) m no); cbn [andb]; auto.
      rewrite IH. replace (S c + length t) with (c + S (length t)) by lia. reflexivity.
    + cbn [andb]. rewrite IH. replace (S c + length t) with (c + S (length t)) by lia. reflexivity.
Qed.

Lemma ef_out_loop_eq eq stj nj no l :
  ef_out_loop eq stj nj no l = forallb (efo_chk eq stj nj no) l.
Proof.
  induction l as [|x t IH]; cbn [ef_out_loop forallb]; auto.
  unfold efo_chk at 1. destruct (m_neigh_succ stj nj no x) as [m|]; auto.
  destruct (eq (nj, x) (no, m)); auto.
Qed.

Lemma ef_in_loop_eq eq stj nj no l :
  ef_in_loop eq stj nj no l = forallb (efi_chk eq stj nj no) l.
Proof.
  induction l as [|x t IH]; cbn [ef_in_loop forallb]; auto.
  unfold efi_chk at 1. destruct (nth x (vs_mapping stj) None) as [m|]; auto.
  destruct (eq (x, nj) (m, no)); auto.
Qed.

Definition edge_feas_b (eq : nat * nat -> nat * nat -> bool) (gj : sgraph6) (stj : vf2_state)
                       (nj no : nat) : bool :=
  andb (forallb (efo_chk eq stj nj no) (neighbors_directed gj nj true))
       (if s_dir gj then forallb (efi_chk eq stj nj no) (neighbors_directed gj nj false) else true).

Lemma edge_feasibility_eq eq gj stj nj no :
  edge_feasibility eq gj stj nj no = edge_feas_b eq gj stj nj no.
Proof.
  unfold edge_feasibility, edge_feas_b. rewrite ef_out_loop_eq, ef_in_loop_eq.
  destruct (forallb _ _); reflexivity.
Qed.

(* the parts of is_feasible *)
Definition syn_succ (g0 g1 : sgraph6) (st : st2) (n0 n1 : nat) : bool :=
  andb (forallb (succ_chk (fst st) g1 (snd st) n0 n1) (neighbors_directed g0 n0 true))
  (andb (forallb (succ_chk (snd st) g0 (fst st) n1 n0) (neighbors_directed g1 n1 true))
        (Nat.leb (length (neighbors_directed g0 n0 true)) (length (neighbors_directed g1 n1 true)))).
Definition syn_pred (g0 g1 : sgraph6) (st : st2) (n0 n1 : nat) : bool :=
  if s_dir g0 then
    andb (forallb (pred_chk (fst st) g1 (snd st) n1) (neighbors_directed g0 n0 false))
    (andb (forallb (pred_chk (snd st) g0 (fst st) n0) (neighbors_directed g1 n1 false))
          (Nat.leb (length (neighbors_directed g0 n0 false)) (length (neighbors_directed g1 n1 false))))
  else true.
Definition sem_ok (sem : bool) (nm em : Z) (g0 g1 : sgraph6) (st : st2) (n0 n1 : nat) : bool :=
  if sem then
    andb (node_match_eq nm g0 g1 n0 n1)
    (andb (edge_feas_b (fun e0 e1 => edge_match_eq em g0 g1 e0 e1) g0 (fst st) n0 n1)
          (edge_feas_b (fun e1 e0 => edge_match_eq em g0 g1 e0 e1) g1 (snd st) n1 n0))
  else true.

Lemma is_feasible_eq sem nm em g0 g1 st n0 n1 :
  is_feasible sem nm em g0 g1 st n0 n1 =
  andb (syn_succ g0 g1 st n0 n1) (andb (syn_pred g0 g1 st n0 n1) (sem_ok sem nm em g0 g1 st n0 n1)).
Proof.
  unfold is_feasible, syn_succ, syn_pred, sem_ok, r_succ, r_pred.
  rewrite !r_succ_loop_eq, !r_pred_loop_eq, !edge_feasibility_eq. cbn [Nat.add].
  destruct (forallb (succ_chk (fst st) g1 (snd st) n0 n1) (neighbors_directed g0 n0 true));
    cbn [andb]; auto.
  destruct (forallb (succ_chk (snd st) g0 (fst st) n1 n0) (neighbors_directed g1 n1 true));
    cbn [andb]; auto.
  destruct (Nat.ltb_spec (length (neighbors_directed g1 n1 true)) (length (neighbors_directed g0 n0 true)))
    as [Hlt|Hge].
  { destruct (Nat.leb_spec (length (neighbors_directed g0 n0 true)) (length (neighbors_directed g1 n1 true)));
      [lia|reflexivity]. }
  destruct (Nat.leb_spec (length (neighbors_directed g0 n0 true)) (length (neighbors_directed g1 n1 true)));
    [|lia]. cbn [andb].
  destruct (s_dir g0).
  - destruct (forallb (pred_chk (fst st) g1 (snd st) n1) (neighbors_directed g0 n0 false));
      cbn [andb negb]; auto.
    destruct (forallb (pred_chk (snd st) g0 (fst st) n0) (neighbors_directed g1 n1 false));
      cbn [andb negb]; auto.
    destruct (Nat.ltb_spec (length (neighbors_directed g1 n1 false)) (length (neighbors_directed g0 n0 false)))
      as [Hlt|Hge2].
    { destruct (Nat.leb_spec (length (neighbors_directed g0 n0 false)) (length (neighbors_directed g1 n1 false)));
        [lia|reflexivity]. }
    destruct (Nat.leb_spec (length (neighbors_directed g0 n0 false)) (length (neighbors_directed g1 n1 false)));
      [|lia]. cbn [andb negb].
    destruct sem; cbn [andb]; auto.
    destruct (node_match_eq nm g0 g1 n0 n1); cbn [negb andb]; auto;
    destruct (edge_feas_b _ g0 (fst st) n0 n1); cbn [andb]; auto.
  - cbn [negb]. destruct sem; cbn [andb]; auto.
    destruct (node_match_eq nm g0 g1 n0 n1); cbn [negb andb]; auto;
    destruct (edge_feas_b _ g0 (fst st) n0 n1); cbn [andb]; auto.
Qed.
