(* C14, the TryFrom path: Acyclic::try_from(graph) = toposort on the view of the graph, then
   OrderMap::try_from_graph on the order found.  With the toposort theorems of C09 this closes
   the gap left in Proofs/AcyclicP.v: opcode 8 of the harness grammar (into_inner, an unchecked
   add_edge on the wrapped graph, TryFrom) keeps the wrapper invariant too.

   Contents
     VWf_VOk              the well-formedness of C14's views implies the one C09 asks for
     acyclic_ext          adding the edge a -> b to an acyclic relation keeps it acyclic iff
                          a <> b and b does not reach a
     inner_add_edge_live  the unchecked add_edge on the wrapped graph, live endpoints, one free
                          edge slot: succeeds, and the edge relation is the old one plus a -> b
     try_from_ok          view_of + toposort + om_from_topo
     ac_raw_edge_keeps / ac_raw_edge_outcome
     step_keeps_all / history_keeps_all / history_from_empty_all *)
From Coq Require Import Sorted Permutation.
From PG Require Import Lib.Io Lib.Walk Model.GraphM Model.StableM Proofs.GraphP Proofs.StableP.
From PG Require Import Model.View Model.Traversal Model.AlgoBasic Model.AcyclicM Model.AcyclicIO
                       Spec.Reach Spec.AcyclicSpec
                       Proofs.OrderMapP Proofs.ConesP Proofs.AcyclicViewP
                       Proofs.AcyclicInnerG Proofs.AcyclicInnerS Proofs.AcyclicP Proofs.AlgoAll.
From PG Require Props.C01 Props.C02.

(* ------------------------------------------------------------------ *)
(* the bridge between the two well-formedness predicates               *)

Lemma VWf_VOk v : VWf v -> VOk v.
Proof.
  intros W. split; [split|split].
  - intros a b H. apply (vwf_cap_step v a b W H).
  - intros a Ha. apply (vw_cap v W a Ha).
  - apply vwf_nodes_ok, W.
  - intros a b _. symmetry. apply vwf_inout, W.
Qed.

(* ------------------------------------------------------------------ *)
(* one more edge                                                       *)

Section AddEdge.
  Variables (v v' : view) (a b : nat).
  Hypothesis Hst : forall x y, Reach.step v' x y <-> Reach.step v x y \/ (x = a /\ y = b).

  Lemma reach_ext_mono x y : reachable v x y -> reachable v' x y.
  Proof.
    induction 1 as [|y z Hxy IH Hyz]; [apply reach_refl|].
    eapply reach_step; [exact IH|]. apply Hst. left. exact Hyz.
  Qed.

  (* a path of the extended relation either avoids the new edge or goes through it *)
  Lemma reach_ext_split x y : reachable v' x y ->
    reachable v x y \/ (reachable v x a /\ reachable v b y).
  Proof.
    induction 1 as [|y z Hxy IH Hyz]; [left; apply reach_refl|].
    apply Hst in Hyz. destruct Hyz as [Hyz|[-> ->]].
    - destruct IH as [IH|[IH1 IH2]].
      + left. eapply reach_step; [exact IH | exact Hyz].
      + right. split; [exact IH1|]. eapply reach_step; [exact IH2 | exact Hyz].
    - right. destruct IH as [IH|[IH1 _]]; (split; [assumption | apply reach_refl]).
  Qed.

  Lemma acyclic_ext : acyclic v -> (acyclic v' <-> a <> b /\ ~ reachable v b a).
  Proof.
    intros Hac. split.
    - intros Hac'. split.
      + intros ->. apply (Hac' b). exists b. split; [apply Hst; right; split; reflexivity | apply reach_refl].
      + intros R. apply (Hac' a). exists b. split; [apply Hst; right; split; reflexivity|].
        apply reach_ext_mono, R.
    - intros [_ Hnr] c [c' [Hs R]]. apply reach_ext_split in R. apply Hst in Hs.
      destruct Hs as [Hs|[-> ->]].
      + destruct R as [R|[R1 R2]].
        * apply (Hac c). exists c'. split; assumption.
        * apply Hnr. eapply reachable_trans; [exact R2|]. eapply reachable_left; [exact Hs | exact R1].
      + destruct R as [R|[R1 _]]; apply Hnr; assumption.
  Qed.
End AddEdge.

(* positions along a list in which every edge points forward *)
Lemma topo_of_order v order om : nodes_ok v ->
  (forall x, In x order <-> In x (vnodes v)) ->
  (forall l1 u l2 w, order = l1 ++ u :: l2 -> Reach.step v u w -> In w l2) ->
  (forall k n, nth_error order k = Some n -> pos_or0 om n = k) -> Topo v om.
Proof.
  intros Hn Hin Hf Hp x y Hs. destruct (Hn x y Hs) as [Hx _]. apply Hin in Hx.
  apply in_split in Hx. destruct Hx as [l1 [l2 E]].
  pose proof (Hf l1 x l2 y E Hs) as Hy. apply In_nth_error in Hy. destruct Hy as [j Hj].
  rewrite (Hp (length l1) x), (Hp (length l1 + S j) y); [lia | |].
  - rewrite E. rewrite nth_error_app2 by lia.
    replace (length l1 + S j - length l1) with (S j) by lia. exact Hj.
  - rewrite E. rewrite nth_error_app2 by lia. rewrite Nat.sub_diag. reflexivity.
Qed.

Section F.
Variable cap : nat.
Variable capcheck debug : bool.

(* ------------------------------------------------------------------ *)
(* the unchecked add_edge on the wrapped graph                         *)

Lemma inner_add_edge_live i a b w : InnerInv cap i -> ilive i a -> ilive i b -> ielen i < cap ->
  exists e i', inner_add_edge cap capcheck debug i a b w = Ok (e, i') /\ InnerInv cap i' /\
    (forall j, ilive i' j <-> ilive i j) /\
    (forall x y, iedge i' x y <-> iedge i x y \/ (x = a /\ y = b)).
Proof.
  destruct i as [g|s]; cbn [InnerInv ielen inner_add_edge]; intros I Ha Hb Hlt.
  - apply ilive_G in Ha. apply ilive_G in Hb. unfold node_count in Ha, Hb.
    destruct (Props.C01.C01_inv_add_edge nat nat cap capcheck g a b w I) as [_ [_ Hok]].
    destruct (Hok Hlt Ha Hb) as [g2 [E2 _]].
    assert (El : lift_idx (try_add_edge cap capcheck g a b w) = Ok (length (gedges g), g2))
      by (rewrite E2; reflexivity).
    destruct (G_add_edge cap capcheck g a b w _ g2 I (or_intror Hlt) El) as [I' [Hc [_ [_ [_ He]]]]].
    exists (length (gedges g)), (InG g2). rewrite El. cbn [rmap]. split; [reflexivity|].
    split; [exact I'|]. split.
    + intros j. rewrite !ilive_G, Hc. reflexivity.
    + exact He.
  - apply ilive_S in Ha. apply ilive_S in Hb.
    destruct (Props.C02.C02_add_edge cap capcheck debug s a b w I (fun _ _ => Hlt)) as [r [s' [E [I' Hr]]]].
    destruct r as [err|x].
    { exfalso. destruct Hr as [_ [[_ [_ [_ Hl]]]|[j [_ [_ [Hj [Hnone _]]]]]]]; [lia|].
      destruct Hj as [->| ->]; [apply Ha | apply Hb]; exact Hnone. }
    destruct Hr as [_ [_ [_ [Hx0 [Hx1 [Hxe [Hoe [Hoep [Hnw _]]]]]]]]].
    exists x, (InS s'). rewrite E. cbn [rbind lift_idx rmap]. split; [reflexivity|].
    split; [exact I'|]. split.
    + intros j. rewrite !ilive_S. unfold slive. rewrite Hnw. reflexivity.
    + intros u z. cbn [iedge]. unfold sedge. split.
      * intros [e0 [He0 [H0 H1]]]. destruct (Nat.eq_dec e0 x) as [->|Hne].
        -- right. rewrite (Hxe 0) in H0. rewrite (Hxe 1) in H1. cbn [sel] in H0, H1.
           injection H0 as <-. injection H1 as <-. split; reflexivity.
        -- left. exists e0. rewrite (Hoe e0 Hne) in He0. rewrite (Hoep 0 e0 Hne) in H0.
           rewrite (Hoep 1 e0 Hne) in H1. split; [exact He0 | split; assumption].
      * intros [[e0 [He0 [H0 H1]]]|[-> ->]].
        -- assert (Hne : e0 <> x) by (intros ->; apply He0; exact Hx0).
           exists e0. rewrite (Hoe e0 Hne), (Hoep 0 e0 Hne), (Hoep 1 e0 Hne).
           split; [exact He0 | split; assumption].
        -- exists x. split; [rewrite Hx1; discriminate|]. split; [exact (Hxe 0) | exact (Hxe 1)].
Qed.

(* ------------------------------------------------------------------ *)
(* TryFrom: view_of, toposort, om_from_topo                            *)

Theorem try_from_ok i : InnerInv cap i ->
  exists v t, view_of cap i = Ok v /\ toposort v = Ok t /\ VWf v /\
    (forall n, In n (vnodes v) <-> ilive i n) /\
    (forall x y, Reach.step v x y <-> iedge i x y) /\
    match t with
    | inl c => In c (vnodes v) /\ on_cycle v c
    | inr order =>
        acyclic v /\ NoDup order /\ (forall x, In x order <-> ilive i x) /\
        exists om, om_from_topo order (ibound i) = Ok om /\ OInv (ilive i) om /\ Topo v om /\
          p2n om = combine (seq 0 (length order)) order /\ length (n2p om) = ibound i /\
          (forall k n, nth_error order k = Some n -> pos_or0 om n = k)
    end.
Proof.
  intros I. destruct (view_of_inner cap debug i I) as [v [Ev [W [Hn [_ Hs]]]]].
  pose proof (VWf_VOk v W) as Hv.
  destruct (toposort_total v Hv) as [t Et]. exists v, t.
  split; [exact Ev|]. split; [exact Et|]. split; [exact W|]. split; [exact Hn|]. split; [exact Hs|].
  destruct t as [c|order].
  - apply (toposort_cycle v c Hv Et).
  - destruct (toposort_ok_sound v order Hv Et) as [Hnd [Hin [_ [Hf Hac]]]].
    split; [exact Hac|]. split; [exact Hnd|]. split; [intros x; rewrite Hin; apply Hn|].
    destruct (om_from_topo_ok order (ibound i) Hnd) as [om [Eo [O [Hp [Hl Hpos]]]]].
    { intros n Hn0. apply (ilive_bound cap debug i n I). apply Hn, Hin, Hn0. }
    exists om. split; [exact Eo|]. split.
    { eapply OInv_ext; [|exact O]. intros n. cbn beta. rewrite Hin. apply Hn. }
    split; [apply (topo_of_order v order om (vwf_nodes_ok v W) Hin Hf Hpos)|].
    split; [exact Hp|]. split; [exact Hl | exact Hpos].
Qed.

(* the two outcomes exclude each other: TryFrom accepts exactly the acyclic graphs *)
Theorem try_from_iff i : InnerInv cap i ->
  exists v t, view_of cap i = Ok v /\ toposort v = Ok t /\
    ((exists order, t = inr order) <-> acyclic v) /\
    match t with
    | inl c => In c (vnodes v) /\ on_cycle v c
    | inr order =>
        NoDup order /\ (forall x, In x order <-> ilive i x) /\
        exists om, om_from_topo order (ibound i) = Ok om /\ OInv (ilive i) om /\ Topo v om /\
          p2n om = combine (seq 0 (length order)) order /\
          (forall bl, AInv cap (mkAc i om bl))
    end.
Proof.
  intros I. destruct (try_from_ok i I) as [v [t [Ev [Et [W [Hn [Hs Ht]]]]]]]. exists v, t.
  split; [exact Ev|]. split; [exact Et|]. destruct t as [c|order].
  - split; [|exact Ht]. split; [intros [order E]; discriminate E|].
    intros Hac. exfalso. apply (Hac c), Ht.
  - destruct Ht as [Hac [Hnd [Hin [om [Eo [O [T [Hp _]]]]]]]]. split.
    { split; [intros _; exact Hac | intros _; exists order; reflexivity]. }
    split; [exact Hnd|]. split; [exact Hin|]. exists om.
    split; [exact Eo|]. split; [exact O|]. split; [exact T|]. split; [exact Hp|].
    intros bl. apply (AInv_intro cap debug i om bl I O). intros x y H. apply T, Hs, H.
Qed.

(* ------------------------------------------------------------------ *)
(* opcode 8                                                            *)

(* whatever the arguments: every outcome keeps the invariant; a rejection leaves the state alone *)
Theorem ac_raw_edge_keeps s a b w r s' : AInv cap s -> Room cap capcheck (ag s) 1 ->
  ac_raw_edge cap capcheck debug s a b w = Ok (r, s') ->
  AInv cap s' /\ grows (ag s) (ag s') /\
  match r with
  | inl _ => s' = s
  | inr _ => ilive (ag s) a /\ ilive (ag s) b /\ (forall j, ilive (ag s') j <-> ilive (ag s) j) /\
             ablen s' = ibound (ag s')
  end.
Proof.
  intros A Hr E. pose proof A as [I _]. unfold ac_raw_edge in E.
  destruct (inner_add_edge cap capcheck debug (ag s) a b w) as [[e0 i0]| |] eqn:Ei; cbn [rbind] in E;
    try discriminate E.
  destruct (inner_add_edge_ok cap capcheck debug (ag s) a b w e0 i0 I Hr Ei) as [I' [Ha [Hb [Hl [_ Hg]]]]].
  destruct (try_from_ok i0 I') as [v [t [Ev [Et [_ [_ [Hs Ht]]]]]]].
  rewrite Ev in E. cbn [rbind] in E. rewrite Et in E. cbn [rbind] in E.
  destruct t as [c|order].
  - injection E as <- <-. split; [exact A|]. split; [apply grows_refl | reflexivity].
  - destruct Ht as [_ [_ [_ [om [Eo [O [T _]]]]]]]. rewrite Eo in E. cbn [rmap] in E.
    injection E as <- <-. cbn [ag aom ablen]. split.
    { apply (AInv_intro cap debug i0 om _ I' O). intros x y H. apply T, Hs, H. }
    split; [exact Hg|]. split; [exact Ha|]. split; [exact Hb|]. split; [exact Hl | reflexivity].
Qed.

(* which outcome, for live endpoints and a free edge slot: no panic, no fuel exhaustion; accepted
   exactly when the extended graph is acyclic, i.e. when a <> b and b does not reach a *)
Theorem ac_raw_edge_outcome s a b w : AInv cap s -> ilive (ag s) a -> ilive (ag s) b ->
  ielen (ag s) < cap ->
  exists v v' r s',
    view_of cap (ag s) = Ok v /\
    VWf v' /\
    (forall n, In n (vnodes v') <-> In n (vnodes v)) /\
    (forall x y, Reach.step v' x y <-> Reach.step v x y \/ (x = a /\ y = b)) /\
    ac_raw_edge cap capcheck debug s a b w = Ok (r, s') /\
    (r = inr tt <-> acyclic v') /\
    (acyclic v' <-> a <> b /\ ~ reachable v b a) /\
    match r with
    | inr _ =>
        AInv cap s' /\ view_of cap (ag s') = Ok v' /\ Topo v' (aom s') /\
        (forall j, ilive (ag s') j <-> ilive (ag s) j) /\
        (forall x y, iedge (ag s') x y <-> iedge (ag s) x y \/ (x = a /\ y = b)) /\
        ablen s' = ibound (ag s') /\
        exists order, toposort v' = Ok (inr order) /\
          p2n (aom s') = combine (seq 0 (length order)) order
    | inl c => s' = s /\ In c (vnodes v') /\ on_cycle v' c
    end.
Proof.
  intros A Ha Hb Hlt. destruct (AInv_view cap debug s A) as [v [Ev [W [O [T [Hn Hs]]]]]].
  pose proof A as [I _].
  destruct (inner_add_edge_live (ag s) a b w I Ha Hb Hlt) as [e [i' [Ei [I' [Hl He]]]]].
  destruct (try_from_ok i' I') as [v' [t [Ev' [Et [W' [Hn' [Hs' Ht]]]]]]].
  assert (Hst : forall x y, Reach.step v' x y <-> Reach.step v x y \/ (x = a /\ y = b)).
  { intros x y. rewrite (Hs' x y), (He x y), (Hs x y). reflexivity. }
  assert (Hnodes : forall n, In n (vnodes v') <-> In n (vnodes v)).
  { intros n. rewrite (Hn' n), (Hl n), (Hn n). reflexivity. }
  pose proof (acyclic_ext v v' a b Hst (topo_acyclic v _ T)) as Hac.
  assert (Er : ac_raw_edge cap capcheck debug s a b w =
               match t with
               | inl c => Ok (inl c, s)
               | inr order => rmap (fun om => (inr tt, mkAc i' om (ibound i'))) (om_from_topo order (ibound i'))
               end).
  { unfold ac_raw_edge. rewrite Ei. cbn [rbind]. rewrite Ev'. cbn [rbind]. rewrite Et. reflexivity. }
  destruct t as [c|order].
  - destruct Ht as [Hc Hcyc]. exists v, v', (inl c), s.
    split; [exact Ev|]. split; [exact W'|]. split; [exact Hnodes|]. split; [exact Hst|].
    split; [exact Er|]. split.
    { split; [intros E; discriminate E | intros Hacv; exfalso; apply (Hacv c), Hcyc]. }
    split; [exact Hac|]. split; [reflexivity | split; assumption].
  - destruct Ht as [Hacv [Hnd [Hin [om [Eo [O' [T' [Hp [Hlen Hpos]]]]]]]]].
    rewrite Eo in Er. cbn [rmap] in Er.
    exists v, v', (inr tt), (mkAc i' om (ibound i')).
    split; [exact Ev|]. split; [exact W'|]. split; [exact Hnodes|]. split; [exact Hst|].
    split; [exact Er|]. split; [split; [intros _; exact Hacv | reflexivity]|].
    split; [exact Hac|]. cbn [ag aom ablen]. split.
    { apply (AInv_intro cap debug i' om _ I' O'). intros x y H. apply T', Hs', H. }
    split; [exact Ev'|]. split; [exact T'|]. split; [exact Hl|]. split; [exact He|].
    split; [reflexivity|]. exists order. split; [exact Et | exact Hp].
Qed.

(* ------------------------------------------------------------------ *)
(* T7 without the restriction on opcode 8                              *)

Theorem step_keeps_all s o : AInv cap s -> Room cap capcheck (ag s) 1 ->
  Keeps cap s (next_state cap capcheck debug s o).
Proof.
  intros A0 Hr. destruct (Nat.eq_dec (fst o) 8) as [E8|Hne]; [|apply step_keeps; assumption].
  unfold next_state. destruct o as [code a]. cbn [fst] in E8. subst code. cbn [AcyclicIO.step].
  apply rstep_keeps; [exact A0|]. intros x s' E.
  destruct (ac_raw_edge_keeps s _ _ _ x s' A0 Hr E) as [A1 [Hg _]]. split; assumption.
Qed.

Theorem history_keeps_all ops : forall s, AInv cap s -> Room cap capcheck (ag s) (length ops) ->
  AInv cap (final cap capcheck debug s ops).
Proof.
  induction ops as [|o rest IH]; intros s A0 Hr; [exact A0|].
  unfold final. cbn [fold_left]. fold (final cap capcheck debug (next_state cap capcheck debug s o) rest).
  destruct (step_keeps_all s o A0) as [A1 Hg].
  - eapply Room_le; [|exact Hr]. cbn [length]. lia.
  - apply IH; [exact A1|]. apply (Room_grows cap capcheck (ag s)); [exact Hr | exact Hg].
Qed.

Theorem history_from_empty_all stable ops :
  (capcheck = false -> length ops <= cap) ->
  let s := final cap capcheck debug (empty_of cap stable) ops in
  AInv cap s /\
  (exists v, view_of cap (ag s) = Ok v /\ acyclic v /\ no_cycle v) /\
  NoDup (map snd (p2n (aom s))) /\ (forall n, In n (map snd (p2n (aom s))) <-> ilive (ag s) n).
Proof.
  intros Hcap s.
  assert (A : AInv cap s).
  { apply history_keeps_all;
      [destruct stable; [apply (AInv_empty_s cap capcheck debug) | apply (AInv_empty_g cap debug)]|].
    intros Hc. specialize (Hcap Hc).
    destruct stable; cbn [empty_of empty_s empty_g ag inlen ielen sg_empty sg g_empty gnodes gedges length]; lia. }
  split; [exact A|]. split; [apply AInv_acyclic, A|].
  destruct (AInv_order cap s A) as [H1 [H2 _]]. split; assumption.
Qed.

End F.
