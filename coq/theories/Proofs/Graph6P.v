(* C18, graph6 half: petgraph's encoder produces exactly the graph6 string of the format
   description, and the decoder inverts it. *)
From Coq Require Import ZArith NArith List Arith Lia ZifyNat ZifyN.
From PG Require Import Lib.ListArr Lib.Io Spec.Graph6Spec Model.Graph6M.
Import ListNotations.

#[local] Ltac Zify.zify_post_hook ::= Z.div_mod_to_equations.

Local Arguments N.add : simpl never.
Local Arguments N.mul : simpl never.
Local Arguments N.pow : simpl never.
Local Arguments N.testbit : simpl never.
Local Arguments N.of_nat : simpl never.

Definition b2n (b : bool) : N := if b then 1%N else 0%N.

(* ------------------------------------------------------------------ *)
(* The model helpers are the specification helpers.                    *)

Lemma number_bits_eq : forall len n, number_bits len n = bits_be len n.
Proof.
  induction len as [|k IH]; intros n; cbn [number_bits bits_be].
  - reflexivity.
  - rewrite IH. reflexivity.
Qed.

Lemma radix2_eq : forall l acc, radix2 l acc = value_be l acc.
Proof.
  induction l as [|b t IH]; intros acc; cbn [radix2 value_be].
  - reflexivity.
  - apply IH.
Qed.

Lemma chunks6_eq : forall f l, chunks6 f l = groups6 f l.
Proof.
  induction f as [|f IH]; intros l; cbn [chunks6 groups6].
  - reflexivity.
  - destruct l as [|b t]; [reflexivity|]. rewrite IH. reflexivity.
Qed.

Lemma mod6_step : forall n,
  n mod 6 <> 0 -> (6 - n mod 6) mod 6 = S ((6 - (n + 1) mod 6) mod 6).
Proof.
  intros n Hn. pose proof (Nat.mod_upper_bound n 6) as Hb.
  rewrite (Nat.add_mod n 1 6) by lia.
  destruct (n mod 6) as [|[|[|[|[|[|k]]]]]]; try reflexivity; lia.
Qed.

Lemma pad_loop_spec : forall fuel l,
  (6 - length l mod 6) mod 6 <= fuel ->
  pad_loop fuel l = l ++ repeat false ((6 - length l mod 6) mod 6).
Proof.
  induction fuel as [|f IH]; intros l Hf.
  - cbn [pad_loop]. replace ((6 - length l mod 6) mod 6) with 0 by lia.
    cbn [repeat]. rewrite app_nil_r. reflexivity.
  - cbn [pad_loop]. destruct (Nat.eqb_spec (length l mod 6) 0) as [Hz|Hnz].
    + rewrite Hz. change ((6 - 0) mod 6) with 0.
      cbn [repeat]. rewrite app_nil_r. reflexivity.
    + rewrite IH.
      * rewrite app_length. cbn [length].
        rewrite (mod6_step (length l)) by exact Hnz.
        cbn [repeat]. rewrite <- app_assoc. reflexivity.
      * rewrite app_length. cbn [length]. rewrite (mod6_step (length l)) in Hf by exact Hnz. lia.
Qed.

Lemma pad_loop_eq : forall l, pad_loop 6 l = pad6 l.
Proof.
  intros l. unfold pad6. apply pad_loop_spec. lia.
Qed.

Lemma groups6_fuel : forall f f' l,
  length l <= 6 * f -> length l <= 6 * f' -> groups6 f l = groups6 f' l.
Proof.
  induction f as [|f IH]; intros f' l Hf Hf'.
  - destruct l as [|b t]; [|cbn [length] in Hf; lia].
    destruct f'; reflexivity.
  - destruct l as [|b t].
    + destruct f'; reflexivity.
    + destruct f' as [|f']; [cbn [length] in Hf'; lia|].
      cbn [groups6]. f_equal. apply IH.
      * rewrite skipn_length. lia.
      * rewrite skipn_length. lia.
Qed.

Lemma bits_to_ascii_eq : forall bits, bits_to_ascii bits = R bits.
Proof.
  intros bits. unfold bits_to_ascii, R. rewrite pad_loop_eq, chunks6_eq.
  rewrite (groups6_fuel (S (length (pad6 bits))) (S (length bits)) (pad6 bits)).
  - apply map_ext. intros g. rewrite radix2_eq. apply N.add_comm.
  - lia.
  - unfold pad6. rewrite app_length, repeat_length. lia.
Qed.

(* ------------------------------------------------------------------ *)
(* groups6: fuel, concatenation, lengths.                              *)

Lemma pad6_length : forall l, length (pad6 l) mod 6 = 0 /\ length (pad6 l) <= length l + 5.
Proof.
  intros l. unfold pad6. rewrite app_length, repeat_length. lia.
Qed.

Lemma pad6_mult : forall l, length l mod 6 = 0 -> pad6 l = l.
Proof.
  intros l Hl. unfold pad6. rewrite Hl. cbn. apply app_nil_r.
Qed.

Lemma pad6_app : forall a x, length a mod 6 = 0 -> pad6 (a ++ x) = a ++ pad6 x.
Proof.
  intros a x Ha. unfold pad6. rewrite app_length, <- app_assoc.
  replace ((length a + length x) mod 6) with (length x mod 6) by lia.
  reflexivity.
Qed.

Definition G (x : list bool) : list (list bool) := groups6 (S (length x)) (pad6 x).

Lemma R_G : forall x, R x = map (fun g => (value_be g 0 + 63)%N) (G x).
Proof. reflexivity. Qed.

Lemma firstn_skipn_6 : forall (a l : list bool), length a = 6 ->
  firstn 6 (a ++ l) = a /\ skipn 6 (a ++ l) = l.
Proof.
  intros a l Ha. split.
  - rewrite firstn_app, Ha, Nat.sub_diag, firstn_O, app_nil_r.
    rewrite <- Ha. apply firstn_all.
  - rewrite skipn_app, Ha, Nat.sub_diag, skipn_O.
    rewrite <- Ha, skipn_all. reflexivity.
Qed.

Lemma groups6_cons6 : forall f (a l : list bool), length a = 6 ->
  groups6 (S f) (a ++ l) = a :: groups6 f l.
Proof.
  intros f a l Ha. destruct (firstn_skipn_6 a l Ha) as [H1 H2].
  destruct a as [|b a']; [discriminate Ha|].
  change (groups6 (S f) ((b :: a') ++ l))
    with (firstn 6 ((b :: a') ++ l) :: groups6 f (skipn 6 ((b :: a') ++ l))).
  rewrite H1, H2. reflexivity.
Qed.

Lemma G_cons6 : forall a x, length a = 6 -> G (a ++ x) = a :: G x.
Proof.
  intros a x Ha. unfold G. rewrite pad6_app by (rewrite Ha; reflexivity).
  rewrite groups6_cons6 by exact Ha. f_equal.
  destruct (pad6_length x) as [_ Hle]. apply groups6_fuel.
  - rewrite app_length. lia.
  - lia.
Qed.

Lemma G_app : forall k a x, length a = 6 * k -> G (a ++ x) = G a ++ G x.
Proof.
  induction k as [|k IH]; intros a x Ha.
  - destruct a as [|b t]; [reflexivity|cbn [length] in Ha; lia].
  - rewrite <- (firstn_skipn 6 a).
    assert (H1 : length (firstn 6 a) = 6) by (rewrite firstn_length; lia).
    assert (H2 : length (skipn 6 a) = 6 * k) by (rewrite skipn_length; lia).
    rewrite <- app_assoc.
    rewrite (G_cons6 (firstn 6 a) (skipn 6 a ++ x) H1), (G_cons6 (firstn 6 a) (skipn 6 a) H1).
    rewrite IH by exact H2. reflexivity.
Qed.

Lemma R_cons6 : forall a x, length a = 6 -> R (a ++ x) = (value_be a 0 + 63)%N :: R x.
Proof.
  intros a x Ha. rewrite !R_G, G_cons6 by exact Ha. reflexivity.
Qed.

Lemma R_app : forall k a x, length a = 6 * k -> R (a ++ x) = R a ++ R x.
Proof.
  intros k a x Ha. rewrite !R_G, (G_app k) by exact Ha. apply map_app.
Qed.

Lemma G_groups_len : forall f l, length l mod 6 = 0 -> length l <= 6 * f ->
  Forall (fun g => length g = 6) (groups6 f l) /\ concat (groups6 f l) = l /\
  6 * length (groups6 f l) = length l.
Proof.
  induction f as [|f IH]; intros l Hm Hf.
  - destruct l as [|b t]; [|cbn [length] in Hf; lia].
    cbn [groups6 concat length]. repeat split. constructor.
  - destruct l as [|b t].
    + cbn [groups6 concat length]. repeat split. constructor.
    + cbn [groups6]. remember (b :: t) as l eqn:El.
      assert (Hl : 6 <= length l) by (rewrite El in *; cbn [length] in *; lia).
      destruct (IH (skipn 6 l)) as (IH1 & IH2 & IH3).
      * rewrite skipn_length. lia.
      * rewrite skipn_length. lia.
      * repeat split.
        -- constructor; [rewrite firstn_length; lia|exact IH1].
        -- cbn [concat]. rewrite IH2. apply firstn_skipn.
        -- cbn [length]. rewrite skipn_length in IH3. lia.
Qed.

(* ------------------------------------------------------------------ *)
(* Binary numerals.                                                    *)

Lemma bits_be_length : forall len n, length (bits_be len n) = len.
Proof.
  induction len as [|k IH]; intros n; cbn [bits_be length]; [reflexivity|].
  rewrite IH. reflexivity.
Qed.

Lemma pow2_S : forall k, (2 ^ N.of_nat (S k) = 2 * 2 ^ N.of_nat k)%N.
Proof.
  intros k. rewrite Nat2N.inj_succ, N.pow_succ_r'. reflexivity.
Qed.

Lemma pow2_pos : forall k, (0 < 2 ^ N.of_nat k)%N.
Proof.
  intros k. apply N.neq_0_lt_0. apply N.pow_nonzero. discriminate.
Qed.

Lemma value_be_acc : forall l acc,
  value_be l acc = (acc * 2 ^ N.of_nat (length l) + value_be l 0)%N.
Proof.
  induction l as [|b t IH]; intros acc.
  - cbn [value_be length]. change (N.of_nat 0) with 0%N. rewrite N.pow_0_r. lia.
  - cbn [value_be length]. rewrite (IH (2 * acc + _)%N), (IH (2 * 0 + _)%N).
    rewrite pow2_S. destruct b; ring.
Qed.

Lemma value_be_cons : forall b t,
  value_be (b :: t) 0 = (b2n b * 2 ^ N.of_nat (length t) + value_be t 0)%N.
Proof.
  intros b t. cbn [value_be]. rewrite value_be_acc. unfold b2n. destruct b; f_equal.
Qed.

Lemma value_be_lt : forall l, (value_be l 0 < 2 ^ N.of_nat (length l))%N.
Proof.
  induction l as [|b t IH].
  - cbn. lia.
  - rewrite value_be_cons. cbn [length]. rewrite pow2_S.
    unfold b2n. destruct b; lia.
Qed.

Lemma value_be_bits_be : forall len n,
  value_be (bits_be len n) 0 = (n mod 2 ^ N.of_nat len)%N.
Proof.
  induction len as [|k IH]; intros n.
  - cbn [bits_be value_be]. change (N.of_nat 0) with 0%N. rewrite N.pow_0_r, N.mod_1_r. reflexivity.
  - cbn [bits_be]. rewrite value_be_cons, bits_be_length, IH.
    rewrite pow2_S, (N.mul_comm 2).
    rewrite N.mod_mul_r by (try apply N.pow_nonzero; discriminate).
    rewrite <- N.testbit_spec'. unfold b2n, N.b2n.
    destruct (N.testbit n (N.of_nat k)); lia.
Qed.

Lemma bits_be_low : forall k j n, j <= k ->
  bits_be j (n mod 2 ^ N.of_nat k) = bits_be j n.
Proof.
  induction j as [|j IH]; intros n Hj.
  - reflexivity.
  - cbn [bits_be]. rewrite IH by lia. f_equal.
    apply N.mod_pow2_bits_low. lia.
Qed.

Lemma bits_be_value_be : forall g, bits_be (length g) (value_be g 0) = g.
Proof.
  induction g as [|b t IH].
  - reflexivity.
  - cbn [length bits_be]. rewrite value_be_cons.
    pose proof (value_be_lt t) as Hlt. pose proof (pow2_pos (length t)) as Hp.
    set (p := (2 ^ N.of_nat (length t))%N) in *.
    set (v := value_be t 0) in *.
    f_equal.
    + apply N.b2n_inj. rewrite N.testbit_spec'. fold p.
      rewrite N.div_add_l by lia. rewrite (N.div_small v p) by exact Hlt.
      rewrite N.add_0_r. unfold b2n, N.b2n. destruct b; reflexivity.
    + rewrite <- (bits_be_low (length t) (length t)) by lia. fold p.
      rewrite N.add_comm, N.mod_add by lia. rewrite N.mod_small by exact Hlt.
      exact IH.
Qed.

(* ------------------------------------------------------------------ *)
(* T1: the encoder is the format.                                      *)

Theorem encode_spec_exact : forall n upper,
  (n <= 258047)%N -> encode n upper = Ok (graph6 n upper).
Proof.
  intros n upper Hn. unfold encode, order_bits, graph6, Nn.
  destruct (N.ltb_spec n 63) as [Hs|Hl].
  - destruct (N.leb_spec n 62) as [Hs'|Hs']; [|lia].
    cbn [rmap]. rewrite bits_to_ascii_eq, number_bits_eq.
    rewrite R_cons6 by apply bits_be_length.
    rewrite value_be_bits_be. rewrite N.mod_small.
    + reflexivity.
    + change (2 ^ N.of_nat 6)%N with 64%N. lia.
  - destruct (N.leb_spec n 258047) as [Hb|Hb]; [|lia].
    destruct (N.leb_spec n 62) as [Hs'|Hs']; [lia|].
    cbn [rmap]. rewrite bits_to_ascii_eq, !number_bits_eq, <- app_assoc.
    rewrite R_cons6 by apply bits_be_length.
    rewrite (R_app 3) by apply bits_be_length.
    reflexivity.
Qed.

Theorem encode_too_large : forall n upper, (258047 < n)%N -> encode n upper = Panic.
Proof.
  intros n upper Hn. unfold encode, order_bits.
  destruct (N.ltb_spec n 63) as [Hs|Hl]; [lia|].
  destruct (N.leb_spec n 258047) as [Hb|Hb]; [lia|].
  reflexivity.
Qed.

(* ------------------------------------------------------------------ *)
(* T2: the decoder inverts the encoder.                                *)

Lemma upper_pairs_eq : forall n, Graph6M.upper_pairs n = Graph6Spec.upper_pairs n.
Proof. reflexivity. Qed.

Lemma upper_pairs_length2 : forall n, 2 * length (Graph6Spec.upper_pairs n) = n * (n - 1).
Proof.
  intros n. unfold Graph6Spec.upper_pairs.
  destruct n as [|m]; [reflexivity|].
  replace (S m - 1) with m by lia.
  induction m as [|m IH].
  - reflexivity.
  - rewrite seq_S, flat_map_app, app_length. cbn [flat_map].
    rewrite app_nil_r, map_length, seq_length. nia.
Qed.

Lemma upper_pairs_length : forall n, length (Graph6Spec.upper_pairs n) = n * (n - 1) / 2.
Proof.
  intros n. pose proof (upper_pairs_length2 n) as H.
  apply Nat.div_unique_exact; lia.
Qed.

Lemma unbias_all_biased : forall debug (vs : list N),
  unbias_all debug (map (fun v => (v + 63)%N) vs) = Ok vs.
Proof.
  intros debug vs. induction vs as [|v t IH].
  - reflexivity.
  - cbn [map unbias_all]. unfold unbias.
    destruct (N.ltb_spec (v + 63) 63) as [Hlt|Hge]; [lia|].
    cbn [rbind]. rewrite IH. cbn [rmap]. f_equal. f_equal. lia.
Qed.

Definition vals (gs : list (list bool)) : list N := map (fun g => value_be g 0) gs.

Lemma R_vals : forall x, R x = map (fun v => (v + 63)%N) (vals (G x)).
Proof.
  intros x. rewrite R_G. unfold vals. rewrite map_map. reflexivity.
Qed.

Lemma bytes_bits_vals : forall gs, Forall (fun g => length g = 6) gs ->
  bytes_bits (vals gs) = concat gs.
Proof.
  intros gs Hgs. unfold bytes_bits, vals. induction Hgs as [|g t Hg Ht IH].
  - reflexivity.
  - cbn [map flat_map concat]. rewrite IH. f_equal.
    rewrite number_bits_eq, <- Hg. apply bits_be_value_be.
Qed.

Lemma G_props : forall x,
  Forall (fun g => length g = 6) (G x) /\ concat (G x) = pad6 x.
Proof.
  intros x. unfold G. destruct (pad6_length x) as [Hm Hle].
  destruct (G_groups_len (S (length x)) (pad6 x) Hm) as (H1 & H2 & _); [lia|].
  split; assumption.
Qed.

Lemma G_mult_length : forall k a, length a = 6 * k -> length (G a) = k.
Proof.
  intros k a Ha. unfold G. rewrite pad6_mult by lia.
  destruct (G_groups_len (S (length a)) a) as (_ & _ & H3); lia.
Qed.

Lemma get_edges_padded : forall pairs bits zeros,
  length bits = length pairs ->
  get_edges pairs (bits ++ zeros) = Ok (map fst (filter snd (combine pairs bits))).
Proof.
  induction pairs as [|p rest IH]; intros bits zeros Hlen.
  - destruct bits as [|b bt]; [|discriminate Hlen]. reflexivity.
  - destruct bits as [|b bt]; [discriminate Hlen|].
    cbn [app get_edges combine filter snd].
    rewrite IH by (cbn [length] in Hlen; lia).
    cbn [rmap]. destruct b; reflexivity.
Qed.

Lemma split3 : forall (X Y : list N), length X = 3 ->
  firstn 3 (X ++ Y) = X /\ skipn 3 (X ++ Y) = Y.
Proof.
  intros X Y HX.
  destruct X as [|x1 [|x2 [|x3 [|x4 X']]]]; try discriminate HX.
  split; reflexivity.
Qed.

Theorem decode_encode : forall debug n upper,
  (N.of_nat n <= 258047)%N -> length upper = n * (n - 1) / 2 ->
  exists s, encode (N.of_nat n) upper = Ok s /\
            decode debug s =
              Ok (n, map fst (filter snd (combine (Graph6Spec.upper_pairs n) upper))).
Proof.
  intros debug n upper Hn Hlen. exists (graph6 (N.of_nat n) upper).
  split; [apply encode_spec_exact; exact Hn|].
  destruct (G_props upper) as [HG6 HGc].
  assert (Hedges : get_edges (Graph6M.upper_pairs n) (bytes_bits (vals (G upper))) =
                   Ok (map fst (filter snd (combine (Graph6Spec.upper_pairs n) upper)))).
  { rewrite bytes_bits_vals by exact HG6. rewrite HGc. unfold pad6.
    rewrite upper_pairs_eq. apply get_edges_padded.
    rewrite upper_pairs_length. exact Hlen. }
  unfold graph6, Nn, decode.
  destruct (N.leb_spec (N.of_nat n) 62) as [Hs|Hl].
  - rewrite R_vals.
    change ([(N.of_nat n + 63)%N] ++ map (fun v => (v + 63)%N) (vals (G upper)))
      with (map (fun v => (v + 63)%N) (N.of_nat n :: vals (G upper))).
    rewrite unbias_all_biased. cbn [rbind split_order].
    destruct (N.eqb_spec (N.of_nat n) 63) as [He|Hne]; [lia|].
    cbn [rbind].
    assert (Hord : radix2 (bytes_bits [N.of_nat n]) 0 = N.of_nat n).
    { unfold bytes_bits. cbn [flat_map]. rewrite app_nil_r.
      rewrite number_bits_eq, radix2_eq, value_be_bits_be.
      apply N.mod_small. change (2 ^ N.of_nat 6)%N with 64%N. lia. }
    rewrite Hord, Nat2N.id, Hedges. reflexivity.
  - rewrite !R_vals.
    change (126%N :: map (fun v => (v + 63)%N) (vals (G (bits_be 18 (N.of_nat n)))))
      with (map (fun v => (v + 63)%N) (63%N :: vals (G (bits_be 18 (N.of_nat n))))).
    rewrite <- map_app, unbias_all_biased. cbn [rbind split_order app].
    change (63 =? 63)%N with true. cbv iota.
    assert (HL : length (vals (G (bits_be 18 (N.of_nat n)))) = 3).
    { unfold vals. rewrite map_length. apply G_mult_length. apply bits_be_length. }
    rewrite app_length, HL. cbn [Nat.leb Nat.add].
    destruct (split3 (vals (G (bits_be 18 (N.of_nat n)))) (vals (G upper)) HL) as [Hf3 Hs3].
    rewrite Hf3, Hs3. cbn [rbind].
    assert (Hord : radix2 (bytes_bits (vals (G (bits_be 18 (N.of_nat n))))) 0 = N.of_nat n).
    { destruct (G_props (bits_be 18 (N.of_nat n))) as [HH6 HHc].
      rewrite bytes_bits_vals by exact HH6. rewrite HHc.
      rewrite pad6_mult by (rewrite bits_be_length; reflexivity).
      rewrite radix2_eq, value_be_bits_be.
      apply N.mod_small. change (2 ^ N.of_nat 18)%N with 262144%N. lia. }
    rewrite Hord, Nat2N.id, Hedges. reflexivity.
Qed.

(* a valid string: the graph6 string of an n-node graph *)
Corollary decode_valid : forall debug n upper,
  (N.of_nat n <= 258047)%N -> length upper = n * (n - 1) / 2 ->
  decode debug (graph6 (N.of_nat n) upper) =
    Ok (n, map fst (filter snd (combine (Graph6Spec.upper_pairs n) upper))).
Proof.
  intros debug n upper Hn Hlen.
  destruct (decode_encode debug n upper Hn Hlen) as (s & Hs & Hd).
  rewrite (encode_spec_exact (N.of_nat n) upper Hn) in Hs.
  injection Hs as Hs. rewrite Hs. exact Hd.
Qed.
