(* Histories of public operations: the invariant holds after any of them (T6, first half),
   and the theorems of T1/T3 restated on the list-valued function [adjf]. *)
From PG Require Import Lib.ListArr Lib.Walk Model.GraphM Spec.MGraph
  Proofs.GraphP Proofs.GraphQ Proofs.GraphRE Proofs.GraphRN Proofs.GraphRev.
Set Implicit Arguments.

Lemma filter_len_le {A} (f : A -> bool) l : length (filter f l) <= length l.
Proof. induction l as [|x l IH]; simpl; auto. destruct (f x); simpl; lia. Qed.

Section GraphH.
  Context {NW EW : Type}.
  Variable cap : nat.
  Variable capcheck : bool.
  Variable debug : bool.

  Notation graph := (graph NW EW).
  Notation adj := (@adj NW EW cap).
  Notation GInv := (@GInv NW EW cap).
  Notation adjf := (@adjf NW EW cap).

  (* ------------------------------------------------------------------ *)
  (* Functional restatements                                             *)

  Lemma adj_transfer (g g' : graph) (F : nat -> list nat -> list nat) :
    GInv g -> length (gedges g') <= cap ->
    (forall k i l, adj g k i l -> adj g' k i (F k l)) ->
    forall k i, i < length (gnodes g) -> adjf g' k i = F k (adjf g k i).
  Proof.
    intros I Hc H k i Hi. apply adjf_adj; auto. apply H. apply adj_adjf; auto.
  Qed.

  Lemma add_node_adjf (g : graph) w k i :
    GInv g ->
    adjf (mkGraph (gnodes g ++ [mkNode w (cap, cap)]) (gedges g)) k i = adjf g k i.
  Proof.
    intros I.
    set (g' := mkGraph (gnodes g ++ [mkNode w (cap, cap)]) (gedges g)).
    assert (Hc : length (gedges g') <= cap) by apply (gi_ecap I).
    destruct (Nat.lt_ge_cases i (length (gnodes g))) as [Hi|Hi].
    - apply adjf_adj; auto. apply add_node_adj_old. apply adj_adjf; auto.
    - rewrite (adjf_oob g k (gi_ecap I) Hi).
      destruct (Nat.eq_dec i (length (gnodes g))) as [->|Hne].
      + apply adjf_adj; auto. apply add_node_adj_new.
      + apply adjf_oob; auto. unfold g'. simpl. rewrite app_length. simpl. lia.
  Qed.

  Lemma add_edge_adjf (g g' : graph) a b w :
    GInv g -> add_edge_shape g a b w g' -> length (gedges g) < cap ->
    forall k i, i < length (gnodes g) ->
      adjf g' k i = if Nat.eqb i (sel (a, b) k) then length (gedges g) :: adjf g k i else adjf g k i.
  Proof.
    intros I Sh Hm k i Hi. apply adjf_adj.
    - rewrite (ae_elen Sh). lia.
    - apply (add_edge_adj Sh). apply adj_adjf; auto.
  Qed.

  Lemma remove_edge_adjf (g g' : graph) e :
    GInv g -> GInv g' ->
    (forall k i l, adj g k i l ->
       adj g' k i (map (ren (length (gedges g) - 1) e) (remove Nat.eq_dec e l))) ->
    forall k i, i < length (gnodes g) ->
      adjf g' k i = map (ren (length (gedges g) - 1) e) (remove Nat.eq_dec e (adjf g k i)).
  Proof.
    intros I I' H k i Hi.
    apply (@adj_transfer g g' (fun _ l => map (ren (length (gedges g) - 1) e) (remove Nat.eq_dec e l)));
      auto. apply (gi_ecap I').
  Qed.

  (* ------------------------------------------------------------------ *)
  (* Histories                                                           *)

  Notation op := (op NW EW).

  Definition step (g : graph) (o : op) : res graph :=
    match o with
    | OAddNode w => Ok (snd (try_add_node cap capcheck g w))
    | OAddEdge a b w => Ok (snd (try_add_edge cap capcheck g a b w))
    | ORemoveEdge e => rmap snd (remove_edge debug g e)
    | ORemoveNode a => rmap snd (remove_node cap debug g a)
    | OReverse => Ok (reverse g)
    | OClearEdges => Ok (clear_edges cap g)
    end.

  Fixpoint run (g : graph) (ops : list op) : res graph :=
    match ops with
    | [] => Ok g
    | o :: rest => rbind (step g o) (fun g' => run g' rest)
    end.

  (* room for one more node and one more edge: automatic when the index type is checked
     (capcheck = true); for usize (capcheck = false) Vec itself cannot hold cap elements *)
  Definition room (g : graph) (k : nat) : Prop :=
    capcheck = true \/ (length (gnodes g) + k <= cap /\ length (gedges g) + k <= cap).

  Lemma step_GInv (g : graph) o :
    GInv g -> room g 1 ->
    exists g', step g o = Ok g' /\ GInv g' /\
               length (gnodes g') <= S (length (gnodes g)) /\
               length (gedges g') <= S (length (gedges g)).
  Proof.
    intros I R. destruct o as [w|a b w|e|a| |]; cbn [step].
    - (* add_node *)
      destruct (Nat.eq_dec (length (gnodes g)) cap) as [E|E].
      + destruct capcheck eqn:Ec.
        * rewrite try_add_node_limit by auto. exists g. simpl. split; [reflexivity|split; [exact I|split; lia]].
        * destruct R as [R|[R _]]; [congruence|lia].
      + rewrite try_add_node_ok by auto. eexists; split; [reflexivity|]. simpl.
        split; [|rewrite app_length; simpl; split; lia].
        apply add_node_GInv; auto. pose proof (gi_ncap I). lia.
    - (* add_edge *)
      destruct (Nat.eq_dec (length (gedges g)) cap) as [E|E].
      + destruct capcheck eqn:Ec.
        * rewrite try_add_edge_limit by auto. exists g. simpl. split; [reflexivity|split; [exact I|split; lia]].
        * destruct R as [R|[_ R]]; [congruence|lia].
      + destruct (Nat.lt_ge_cases a (length (gnodes g))) as [Ha|Ha];
          [destruct (Nat.lt_ge_cases b (length (gnodes g))) as [Hb|Hb]|].
        * destruct (@try_add_edge_ok NW EW cap capcheck g a b w) as [g' [Eq Sh]]; auto.
          rewrite Eq. exists g'. simpl. split; auto.
          split; [|rewrite (ae_nlen Sh), (ae_elen Sh); split; lia].
          eapply add_edge_GInv; eauto. pose proof (gi_ecap I). lia.
        * rewrite try_add_edge_oob by auto. exists g. simpl. split; [reflexivity|split; [exact I|split; lia]].
        * rewrite try_add_edge_oob by auto. exists g. simpl. split; [reflexivity|split; [exact I|split; lia]].
    - (* remove_edge *)
      destruct (Nat.lt_ge_cases e (length (gedges g))) as [He|He].
      + destruct (remove_edge_spec debug I He) as [ed [g' [_ [Eq [I' [Hn [He' _]]]]]]].
        rewrite Eq. exists g'. simpl. split; auto. split; auto.
        apply (f_equal (@length _)) in Hn. apply (f_equal (@length _)) in He'.
        rewrite swap_remove_length in He' by (rewrite map_length; auto).
        rewrite !map_length in *. lia.
      + rewrite remove_edge_oob by auto. exists g. simpl. split; [reflexivity|split; [exact I|split; lia]].
    - (* remove_node *)
      destruct (Nat.lt_ge_cases a (length (gnodes g))) as [Ha|Ha].
      + destruct (remove_node_spec debug I Ha) as [n [g2 [g' [_ [Eq [I' [Hn [Hp _]]]]]]]].
        rewrite Eq. exists g'. simpl. split; auto. split; auto.
        apply (f_equal (@length _)) in Hn.
        rewrite swap_remove_length in Hn by (rewrite map_length; auto).
        rewrite !map_length in Hn.
        apply Permutation.Permutation_length in Hp.
        unfold etrip in Hp. rewrite !map_length in Hp.
        pose proof (filter_len_le (not_inc a) (map (@etr EW) (gedges g))) as Hf.
        rewrite map_length in Hf. lia.
      + rewrite remove_node_oob by auto. exists g. simpl. split; [reflexivity|split; [exact I|split; lia]].
    - exists (reverse g). split; auto. split; [apply reverse_GInv; auto|].
      unfold reverse. simpl. rewrite !map_length. lia.
    - exists (clear_edges cap g). split; auto. split; [apply clear_edges_GInv; apply (gi_ncap I)|].
      unfold clear_edges. simpl. rewrite map_length. lia.
  Qed.

  Theorem run_GInv : forall ops (g : graph),
    GInv g -> room g (length ops) -> exists g', run g ops = Ok g' /\ GInv g'.
  Proof.
    induction ops as [|o ops IH]; intros g I R; cbn [run].
    - eauto.
    - assert (R1 : room g 1).
      { destruct R as [R|[R1 R2]]; [left; auto|right]. simpl in R1, R2. lia. }
      destruct (step_GInv o I R1) as [g1 [Es [I1 [Ln Le]]]].
      rewrite Es. cbn [rbind]. apply IH; auto.
      destruct R as [R|[Ra Rb]]; [left; auto|right]. simpl in Ra, Rb. lia.
  Qed.

  Corollary run_empty_GInv ops :
    capcheck = true \/ length ops <= cap ->
    exists g', run g_empty ops = Ok g' /\ GInv g'.
  Proof.
    intros H. apply run_GInv; [apply GInv_empty|].
    destruct H as [H|H]; [left; auto|right]. simpl. lia.
  Qed.
End GraphH.
