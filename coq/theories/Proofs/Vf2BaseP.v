(* C13b, base layer: binary-fuel iteration, the graph accessors of Model/Vf2M.v against the
   adjacency of Model/IsoM.v, the adjacency matrix, find_index. *)
From PG Require Import Lib.Io Lib.ListExtra Model.IsoM Model.Vf2M Spec.IsoSpec Proofs.IsoRefP.
From Coq Require Import Permutation.

(* ------------------------------------------------------------------ *)
(* piter is iteration with a unary count                                *)

Fixpoint niter {St R : Type} (step : St -> St + R) (n : nat) (s : St) : St + R :=
  match n with
  | 0 => inl s
  | S n' => match step s with inl s' => niter step n' s' | inr r => inr r end
  end.

Lemma niter_add {St R} (step : St -> St + R) a b s :
  niter step (a + b) s = match niter step a s with inl s' => niter step b s' | inr r => inr r end.
Proof.
  revert s; induction a as [|a IH]; intros s; simpl; auto.
  destruct (step s) as [s'|r]; auto.
Qed.

Lemma piter_niter {St R} (step : St -> St + R) p s :
  piter step p s = niter step (Pos.to_nat p) s.
Proof.
  revert s; induction p as [p IH|p IH|]; intros s.
  - rewrite Pos2Nat.inj_xI. cbn [piter].
    replace (S (2 * Pos.to_nat p)) with (1 + (Pos.to_nat p + Pos.to_nat p)) by lia.
    cbn [Nat.add niter]. destruct (step s) as [s1|r]; auto.
    rewrite niter_add, IH. destruct (niter step (Pos.to_nat p) s1); auto.
  - rewrite Pos2Nat.inj_xO. cbn [piter].
    replace (2 * Pos.to_nat p) with (Pos.to_nat p + Pos.to_nat p) by lia.
    rewrite niter_add, IH. destruct (niter step (Pos.to_nat p) s); auto.
  - rewrite Pos2Nat.inj_1. cbn [piter niter]. destruct (step s); auto.
Qed.

(* ------------------------------------------------------------------ *)
(* find_index                                                           *)

Lemma find_index_Some {A} (p : nat -> A -> bool) (d : A) l k r :
  find_index p l k = Some r ->
  k <= r < k + length l /\ p r (nth (r - k) l d) = true /\
  (forall j, k <= j < r -> p j (nth (j - k) l d) = false).
Proof.
  revert k; induction l as [|x t IH]; intros k H; cbn [find_index] in H; [discriminate|].
  destruct (p k x) eqn:E.
  - inversion H; subst r. cbn [length]. rewrite Nat.sub_diag. cbn [nth].
    split; [lia|]. split; auto. intros j Hj; lia.
  - apply IH in H. destruct H as (H1 & H2 & H3). cbn [length].
    split; [lia|]. split.
    + replace (r - k) with (S (r - S k)) by lia. exact H2.
    + intros j Hj. destruct (Nat.eq_dec j k) as [->|Hn].
      * rewrite Nat.sub_diag. exact E.
      * replace (j - k) with (S (j - S k)) by lia. cbn [nth]. apply H3; lia.
Qed.

Lemma find_index_None {A} (p : nat -> A -> bool) (d : A) l k :
  find_index p l k = None -> forall j, j < length l -> p (k + j) (nth j l d) = false.
Proof.
  revert k; induction l as [|x t IH]; intros k H j Hj; cbn [length] in Hj; [lia|].
  cbn [find_index] in H. destruct (p k x) eqn:E; [discriminate|].
  destruct j as [|j].
  - rewrite Nat.add_0_r. exact E.
  - cbn [nth]. replace (k + S j) with (S k + j) by lia. apply IH; auto. lia.
Qed.

Lemma find_index_complete {A} (p : nat -> A -> bool) (d : A) l k j :
  j < length l -> p (k + j) (nth j l d) = true -> exists r, find_index p l k = Some r.
Proof.
  intros Hj Hp. destruct (find_index p l k) eqn:E; eauto.
  rewrite (find_index_None p d l k E j Hj) in Hp. discriminate.
Qed.

(* ------------------------------------------------------------------ *)
(* pointwise equality of lists through nth                              *)

Lemma nth_ext_eq {A} (d : A) (l1 l2 : list A) :
  length l1 = length l2 -> (forall i, i < length l1 -> nth i l1 d = nth i l2 d) -> l1 = l2.
Proof.
  revert l2; induction l1 as [|h t IH]; intros [|h2 t2] Hl H; simpl in Hl; try discriminate; auto.
  f_equal.
  - apply (H 0). simpl; lia.
  - apply IH; [lia|]. intros i Hi. apply (H (S i)). simpl; lia.
Qed.

(* ------------------------------------------------------------------ *)
(* the edge chains                                                      *)

Definition erange (g : sgraph6) : Prop :=
  forall s t w, In (s, t, w) (s_es g) -> s < s_n g /\ t < s_n g.

Lemma wf_erange g : wf g -> erange g.
Proof. intros [H _]. exact H. Qed.

Lemma out_chain_In es a x w : In (x, w) (out_chain es a) <-> In (a, x, w) es.
Proof.
  unfold out_chain. rewrite <- in_rev, in_map_iff. split.
  - intros [[[s t] w'] [H1 H2]]. apply filter_In in H2. destruct H2 as [H2 H3].
    apply Nat.eqb_eq in H3. inversion H1; subst. exact H2.
  - intros H. exists (a, x, w). split; auto. apply filter_In. split; auto. apply Nat.eqb_refl.
Qed.

Lemma in_chain_In es a x w : In (x, w) (in_chain es a) <-> In (x, a, w) es.
Proof.
  unfold in_chain. rewrite <- in_rev, in_map_iff. split.
  - intros [[[s t] w'] [H1 H2]]. apply filter_In in H2. destruct H2 as [H2 H3].
    apply Nat.eqb_eq in H3. inversion H1; subst. exact H2.
  - intros H. exists (x, a, w). split; auto. apply filter_In. split; auto. apply Nat.eqb_refl.
Qed.

(* membership in edges_directed *)
Lemma edges_directed_In g a o x w :
  In (x, w) (edges_directed g a o) <->
  if s_dir g then (if o then In (a, x, w) (s_es g) else In (x, a, w) (s_es g))
  else In (a, x, w) (s_es g) \/ In (x, a, w) (s_es g).
Proof.
  unfold edges_directed. destruct (s_dir g).
  - destruct o; [apply out_chain_In | apply in_chain_In].
  - rewrite in_app_iff, filter_In, out_chain_In, in_chain_In. cbn [fst]. split.
    + intros [H|[H _]]; auto.
    + intros [H|H]; auto. destruct (Nat.eqb_spec x a) as [->|Hn]; auto.
Qed.

(* the first matching edge, as edge_w sees it *)
Lemma edge_w_Some dir es a b w :
  edge_w dir es a b = Some w ->
  In (a, b, w) es \/ (dir = false /\ In (b, a, w) es).
Proof.
  induction es as [|[[s t] w'] rest IH]; cbn [edge_w]; [discriminate|].
  destruct (orb _ _) eqn:E.
  - intros H; inversion H; subst w'. apply orb_true_iff in E. destruct E as [E|E].
    + apply andb_true_iff in E. destruct E as [E1 E2].
      apply Nat.eqb_eq in E1, E2. subst. left; left; auto.
    + apply andb_true_iff in E. destruct E as [E0 E]. apply andb_true_iff in E. destruct E as [E1 E2].
      apply Nat.eqb_eq in E1, E2. subst. right. split; [destruct dir; auto; discriminate|left; auto].
  - intros H. apply IH in H. destruct H as [H|[H1 H2]]; [left; right; auto|right; split; auto; right; auto].
Qed.

Lemma edge_w_None dir es a b :
  edge_w dir es a b = None ->
  (forall w, ~ In (a, b, w) es) /\ (dir = false -> forall w, ~ In (b, a, w) es).
Proof.
  induction es as [|[[s t] w'] rest IH]; cbn [edge_w]; [intros _; split; intros; intros []|].
  destruct (orb _ _) eqn:E; [discriminate|].
  intros H. apply IH in H. destruct H as [H1 H2].
  apply orb_false_iff in E. destruct E as [E1 E2].
  split.
  - intros w [Hw|Hw]; [|apply (H1 w Hw)]. inversion Hw; subst.
    rewrite !Nat.eqb_refl in E1. discriminate.
  - intros Hd w [Hw|Hw]; [|apply (H2 Hd w Hw)]. inversion Hw; subst.
    rewrite !Nat.eqb_refl in E2. discriminate.
Qed.

Lemma adjb_iff g a b :
  adjb g a b = true <->
  exists w, In (a, b, w) (s_es g) \/ (s_dir g = false /\ In (b, a, w) (s_es g)).
Proof.
  unfold adjb. destruct (edge_w (s_dir g) (s_es g) a b) as [w|] eqn:E.
  - split; auto. intros _. exists w. apply edge_w_Some in E. exact E.
  - split; [discriminate|]. intros [w H]. apply edge_w_None in E. destruct E as [E1 E2].
    destruct H as [H|[Hd H]]; [elim (E1 w H)|elim (E2 Hd w H)].
Qed.

(* neighbors_directed(a, Outgoing): the nodes b with an edge a -> b (either orientation when
   undirected) *)
Lemma neighbors_out_In g a x : In x (neighbors_directed g a true) <-> adjb g a x = true.
Proof.
  unfold neighbors_directed. rewrite in_map_iff, adjb_iff. split.
  - intros [[x' w] [H1 H2]]. cbn [fst] in H1. subst x'. apply edges_directed_In in H2.
    exists w. destruct (s_dir g); auto. destruct H2; auto.
  - intros [w H]. exists (x, w). split; auto. apply edges_directed_In.
    destruct (s_dir g); [destruct H as [H|[H _]]; [auto|discriminate]|].
    destruct H as [H|[_ H]]; auto.
Qed.

(* neighbors_directed(a, Incoming) of a directed graph *)
Lemma neighbors_in_In g a x : s_dir g = true ->
  (In x (neighbors_directed g a false) <-> adjb g x a = true).
Proof.
  intros Hd. unfold neighbors_directed. rewrite in_map_iff, adjb_iff. split.
  - intros [[x' w] [H1 H2]]. cbn [fst] in H1. subst x'. apply edges_directed_In in H2.
    rewrite Hd in H2. exists w. auto.
  - intros [w H]. exists (x, w). split; auto. apply edges_directed_In. rewrite Hd.
    destruct H as [H|[H _]]; [auto|congruence].
Qed.

Lemma adjb_range g a b : erange g -> adjb g a b = true -> a < s_n g /\ b < s_n g.
Proof.
  intros He H. apply adjb_iff in H. destruct H as [w [H|[_ H]]]; apply He in H; lia.
Qed.

Lemma neighbors_range g a o x : erange g -> In x (neighbors_directed g a o) -> x < s_n g.
Proof.
  intros He H. unfold neighbors_directed in H. apply in_map_iff in H.
  destruct H as [[x' w] [H1 H2]]. cbn [fst] in H1; subst x'.
  apply edges_directed_In in H2. destruct (s_dir g); [destruct o|destruct H2 as [H2|H2]];
    apply He in H2; lia.
Qed.

(* ------------------------------------------------------------------ *)
(* the adjacency matrix                                                 *)

Lemma nth_put m i j : nth j (put m i) false = orb (andb (Nat.eqb i j) (Nat.ltb i (length m))) (nth j m false).
Proof.
  unfold put. rewrite nth_upd. destruct (andb _ _); auto.
Qed.

Lemma put_length m i : length (put m i) = length m.
Proof. apply upd_length. Qed.

Lemma pair_index_inj n a b s t : b < n -> t < n -> n * a + b = n * s + t -> a = s /\ b = t.
Proof. intros H1 H2 H. eapply Nat.div_mod_unique; eauto. Qed.

Lemma adjacency_matrix_spec_aux (dir : bool) n (es : list (nat * nat * Z)) m a b :
  a < n -> b < n -> length m = n * n ->
  (forall s t w, In (s, t, w) es -> s < n /\ t < n) ->
  let m' := fold_left (fun (m : list bool) (e : nat * nat * Z) =>
               let '(s, t, _) := e in
               let m1 := put m (s * n + t) in
               if dir then m1 else put m1 (s + n * t)) es m in
  length m' = n * n /\
  (nth (n * a + b) m' false = true <->
   nth (n * a + b) m false = true \/
   exists w, In (a, b, w) es \/ (dir = false /\ In (b, a, w) es)).
Proof.
  intros Ha Hb. revert m. induction es as [|[[s t] w] rest IH]; intros m Hl Hr; cbn [fold_left].
  - split; auto. split; auto. intros [H|[w [[]|[_ []]]]]; auto.
  - assert (Hst : s < n /\ t < n) by (apply (Hr s t w); left; auto).
    assert (Hr' : forall s t w, In (s, t, w) rest -> s < n /\ t < n)
      by (intros; eapply Hr; right; eauto).
    set (m1 := put m (s * n + t)).
    assert (Hl1 : length m1 = n * n) by (unfold m1; rewrite put_length; auto).
    assert (Hi1 : s * n + t < n * n) by nia.
    assert (Hi2 : s + n * t < n * n) by nia.
    destruct dir.
    + destruct (IH m1 Hl1 Hr') as [IH1 IH2]. split; auto.
      rewrite IH2. unfold m1. rewrite nth_put. rewrite Hl.
      destruct (Nat.ltb_spec (s * n + t) (n * n)); [|lia]. rewrite andb_true_r.
      rewrite orb_true_iff, Nat.eqb_eq. split.
      * intros [[H1|H1]|[w' H1]]; auto.
        -- right. exists w. left. left. assert (a = s /\ b = t) by (apply (pair_index_inj n); lia). destruct H0; subst; auto.
        -- right. exists w'. destruct H1 as [H1|[H1 _]]; [left; right; auto|discriminate].
      * intros [H1|[w' [[H1|H1]|[H1 _]]]]; auto; try discriminate.
        -- inversion H1; subst. left. left. lia.
        -- right. exists w'. auto.
    + set (m2 := put m1 (s + n * t)).
      assert (Hl2 : length m2 = n * n) by (unfold m2; rewrite put_length; auto).
      destruct (IH m2 Hl2 Hr') as [IH1 IH2]. split; auto.
      rewrite IH2. unfold m2. rewrite nth_put, Hl1. unfold m1. rewrite nth_put, Hl.
      destruct (Nat.ltb_spec (s * n + t) (n * n)); [|lia].
      destruct (Nat.ltb_spec (s + n * t) (n * n)); [|lia]. rewrite !andb_true_r.
      rewrite !orb_true_iff, !Nat.eqb_eq. split.
      * intros [[H1|[H1|H1]]|[w' H1]]; auto.
        -- right. exists w. right. split; auto. left. assert (a = t /\ b = s) by (apply (pair_index_inj n); lia).
           destruct H2; subst; auto.
        -- right. exists w. left. left. assert (a = s /\ b = t) by (apply (pair_index_inj n); lia). destruct H2; subst; auto.
        -- right. exists w'. destruct H1 as [H1|[H1 H2]]; [left; right; auto|right; split; auto; right; auto].
      * intros [H1|[w' [[H1|H1]|[_ [H1|H1]]]]]; auto.
        -- inversion H1; subst. left. right. left. lia.
        -- right. exists w'. auto.
        -- inversion H1; subst. left. left. lia.
        -- right. exists w'. right. auto.
Qed.

Lemma nth_repeat_false k i : nth i (repeat false k) false = false.
Proof.
  revert i; induction k as [|k IH]; intros [|i]; simpl; auto.
Qed.

Lemma is_adjacent_adjb g a b : erange g -> a < s_n g -> b < s_n g ->
  is_adjacent g (adjacency_matrix g) a b = adjb g a b.
Proof.
  intros He Ha Hb. unfold is_adjacent, adjacency_matrix.
  apply bool_eq_iff.
  pose proof (adjacency_matrix_spec_aux (s_dir g) (s_n g) (s_es g) (repeat false (s_n g * s_n g)) a b
                Ha Hb (repeat_length _ _) He) as [_ H].
  cbv zeta in H. rewrite H, adjb_iff, nth_repeat_false. split.
  - intros [H1|H1]; [discriminate|exact H1].
  - intros H1. right. exact H1.
Qed.

(* ------------------------------------------------------------------ *)
(* in a simple graph the first edge the code finds is the edge of edge_w *)

Lemma wf_edge_unique g s t w s' t' w' : wf g ->
  In (s, t, w) (s_es g) -> In (s', t', w') (s_es g) ->
  (s = s' /\ t = t') \/ (s_dir g = false /\ s = t' /\ t = s') -> w = w'.
Proof.
  intros [_ Hnd] H1 H2 Hk.
  assert (Hkey : ekey (s_dir g) (s, t, w) = ekey (s_dir g) (s', t', w')).
  { unfold ekey, nkey. cbn [fst snd]. destruct Hk as [[-> ->]|[Hd [-> ->]]]; auto.
    rewrite Hd. f_equal; lia. }
  assert (He : (s, t, w) = (s', t', w')).
  { apply (NoDup_map_In_inj (ekey (s_dir g)) (s_es g)); auto. }
  inversion He; auto.
Qed.

Lemma find_edge_weight_Some g a b w :
  find_edge_weight g a b = Some w ->
  In (a, b, w) (s_es g) \/ (s_dir g = false /\ In (b, a, w) (s_es g)).
Proof.
  unfold find_edge_weight. destruct (find _ _) as [[x w']|] eqn:E; [|discriminate].
  intros H; inversion H; subst w'. apply find_some in E. destruct E as [E1 E2].
  cbn [fst] in E2. apply Nat.eqb_eq in E2. subst x.
  apply edges_directed_In in E1. destruct (s_dir g); auto. destruct E1; auto.
Qed.

Lemma find_edge_weight_None g a b :
  find_edge_weight g a b = None -> adjb g a b = false.
Proof.
  unfold find_edge_weight. destruct (find _ _) as [[x w']|] eqn:E; [discriminate|]. intros _.
  destruct (adjb g a b) eqn:Ea; auto. apply adjb_iff in Ea. destruct Ea as [w Hw].
  assert (Hin : In (b, w) (edges_directed g a true)).
  { apply edges_directed_In. destruct (s_dir g); [destruct Hw as [Hw|[Hw _]]; [auto|discriminate]|].
    destruct Hw as [Hw|[_ Hw]]; auto. }
  apply (find_none _ _ E) in Hin. cbn [fst] in Hin. rewrite Nat.eqb_refl in Hin. discriminate.
Qed.

Lemma find_edge_weight_edge_w g a b : wf g ->
  find_edge_weight g a b = edge_w (s_dir g) (s_es g) a b.
Proof.
  intros Hwf. destruct (find_edge_weight g a b) as [w|] eqn:E.
  - apply find_edge_weight_Some in E.
    destruct (edge_w (s_dir g) (s_es g) a b) as [w'|] eqn:E'.
    + apply edge_w_Some in E'. f_equal.
      destruct E as [E|[Hd E]]; destruct E' as [E'|[Hd' E']].
      * eapply (wf_edge_unique g a b w a b w'); eauto.
      * eapply (wf_edge_unique g a b w b a w'); eauto.
      * eapply (wf_edge_unique g b a w a b w'); eauto.
      * eapply (wf_edge_unique g b a w b a w'); eauto.
    + apply edge_w_None in E'. destruct E' as [E1 E2].
      destruct E as [E|[Hd E]]; [elim (E1 w E)|elim (E2 Hd w E)].
  - apply find_edge_weight_None in E. unfold adjb in E.
    destruct (edge_w (s_dir g) (s_es g) a b); auto. discriminate.
Qed.
