(* maximum_matching (Gabow), for the completeness of the search (C15b, G1): what a blossom step
   (find_join) does to the queue, the visit map and first_inner.  The first part of the proof of
   find_join_facts follows find_join_SI of MatchFindJoinP.v (which keeps these facts local). *)
From PG Require Import Lib.Io Model.View Model.Traversal Model.MatchM Spec.Reach Spec.MatchSpec
  Proofs.TravBase Proofs.MatchGreedyP Proofs.MatchShapeP Proofs.MatchAugP Proofs.MatchFlipP
  Proofs.MatchInvP Proofs.MatchSeqP Proofs.MatchJoinP Proofs.MatchBlossomP Proofs.MatchMaxP
  Proofs.MatchFindJoinP Proofs.MatchTotalP.

(* ------------------------------------------------------------------ *)
(* queue and visit map                                                 *)

Lemma label_visit_facts v s x s' : label_visit v s x = Ok s' ->
  mate s' = mate s /\ lab s' = lab s /\ fin s' = fin s /\ nedges s' = nedges s /\
  (forall y, In y (queue s) -> In y (queue s')) /\
  (forall y, In y (vis s) -> In y (vis s')) /\
  (forall y, In y (vis s') -> In y (vis s) \/ In y (queue s')) /\
  In x (vis s').
Proof.
  unfold label_visit. intros H. rb H as E [fresh m]. injection H as <-.
  apply visit_sound in E. destruct E as [-> ->]. cbn [mate lab fin nedges queue vis].
  repeat (split; [reflexivity|]).
  destruct (mem x (vis s)) eqn:Em; cbn [negb].
  - apply mem_In in Em. repeat split; auto.
  - split; [intros y Hy; apply in_or_app; left; exact Hy|].
    split; [intros y Hy; right; exact Hy|].
    split; [|left; reflexivity].
    intros y [<-|Hy]; [right; apply in_or_app; right; left; reflexivity | left; exact Hy].
Qed.

(* relabel only adds to the queue and the visit map; what it marks it queues; what it labels it marks *)
Lemma relabel_vis v e es et join : forall fuel s inner s',
  relabel v fuel s e es et join inner = Ok s' ->
  (forall x, In x (queue s) -> In x (queue s')) /\
  (forall x, In x (vis s) -> In x (vis s')) /\
  (forall z, In z (vis s') -> In z (vis s) \/ In z (queue s')) /\
  (forall z, nth_error (lab s') z = Some (LEdge e es et) ->
     nth_error (lab s) z = Some (LEdge e es et) \/ z = vbound v \/ In z (vis s')).
Proof.
  induction fuel as [|f IH]; intros s inner s' H; cbn [relabel] in H; [discriminate|].
  destruct (Nat.eqb inner join).
  - injection H as <-. repeat split; auto.
  - rb H as E1 s1. rb H as E2 lab'. rb H as E3 fin'. rb H as E4 inner'.
    apply setp_ok in E2. destruct E2 as [Hil ->]. apply setp_ok in E3. destruct E3 as [_ ->].
    apply IH in H. destruct H as [Q [V [W K]]]. cbn [vis queue lab] in Q, V, W, K.
    assert (S1 : lab s1 = lab s /\ (forall y, In y (queue s) -> In y (queue s1)) /\
                 (forall y, In y (vis s) -> In y (vis s1)) /\
                 (forall y, In y (vis s1) -> In y (vis s) \/ In y (queue s1)) /\
                 (inner = vbound v \/ In inner (vis s1))).
    { destruct (Nat.eqb_spec inner (vbound v)) as [Ed|Nd].
      - injection E1 as <-. repeat split; auto.
      - apply label_visit_facts in E1. destruct E1 as [_ [L [_ [_ [A [B [C D]]]]]]].
        repeat split; auto. }
    destruct S1 as [L1 [A1 [B1 [C1 D1]]]].
    split; [intros x Hx; apply Q, A1, Hx|]. split; [intros x Hx; apply V, B1, Hx|]. split.
    + intros z Hz. destruct (W z Hz) as [Hz'|Hz']; [|right; exact Hz'].
      destruct (C1 z Hz') as [Hz''|Hz'']; [left; exact Hz'' | right; apply Q, Hz''].
    + intros z Hz. destruct (K z Hz) as [Hz'|[Hz'|Hz']]; [|right; left; exact Hz' | right; right; exact Hz'].
      rewrite nth_error_upd in Hz'.
      destruct (Nat.eqb_spec inner z) as [<-|Hne].
      * destruct D1 as [D1|D1]; [right; left; exact D1 | right; right; apply V, D1].
      * left. rewrite <- L1. exact Hz'.
Qed.

(* ------------------------------------------------------------------ *)
(* find_join                                                           *)

Section FindJoinFacts.
Variable v : view.
Hypothesis HE : EidOk v.
Variable start : nat.
Variable s : mst.
Variable pth : nat -> list nat.
Variable rk : nat -> nat.
Hypothesis I : SI v start s pth rk.
Variables e es et : nat.
Variable er : eref.
Hypothesis Her : In er (out_edges v es).
Hypothesis Heid : eid er = e.
Hypothesis Htgt : tgt er = et.
Hypothesis Hes : outerv (lab s) es.
Hypothesis Het : outerv (lab s) et.
Hypothesis HV : VI s.

Let d := vbound v.
Let Sq (X : list nat) : Prop := exists u, outerv (lab s) u /\ X = xs v s pth u.

Let SQ1 : forall X, Sq X -> NoDup X := SQ1 v start s pth rk I.
Let SQ2 : forall X, Sq X -> exists X0, X = X0 ++ [vbound v] := SQ2 v s pth.
Let SQ3 : forall X Y f a1 b1 a2 b2, Sq X -> Sq Y -> X = a1 ++ f :: b1 -> Y = a2 ++ f :: b2 -> b1 = b2 :=
  SQ3 v start s pth rk I.
Let SQ4 : forall X a f y b s', Sq X -> X = a ++ f :: y :: b -> Agree s s' -> step_inner s' f = Ok y :=
  SQ4 v start s pth rk I.
Let SQ5 : forall X x, Sq X -> In x X -> x < length (lab s) /\ ~ outerv (lab s) x :=
  SQ5 v start s pth rk I e et er Heid Htgt.
Let xs_cons' : forall u, outerv (lab s) u -> exists r, xs v s pth u = hd d (xs v s pth u) :: r :=
  xs_cons v s pth.

(* what the search needs to know about a blossom step: the matching is untouched; queue and visit
   map grow; every vertex that became outer has been marked and queued; outer vertices with the same
   first inner vertex still have the same; the two ends of the edge now have the same *)
Lemma find_join_facts s' : es <> et -> find_join v s e es et = Ok s' ->
  mate s' = mate s /\
  (forall x, In x (queue s) -> In x (queue s')) /\
  (forall x, In x (vis s) -> In x (vis s')) /\
  (forall u, outerv (lab s') u -> ~ outerv (lab s) u -> In u (queue s') /\ In u (vis s')) /\
  (forall x y, outerv (lab s) x -> outerv (lab s) y ->
     nth_error (fin s) x = nth_error (fin s) y -> nth_error (fin s') x = nth_error (fin s') y) /\
  nth_error (fin s') es = nth_error (fin s') et.
Proof.
  intros Hne H. unfold find_join in H.
  rb H as E1 lft. apply getp_ok in E1. rb H as E2 rgt. apply getp_ok in E2.
  destruct (Nat.eqb_spec lft rgt) as [Heq|Hlr].
  { injection H as <-. split; [reflexivity|]. split; [auto|]. split; [auto|].
    split; [intros u H1 H2; contradiction|].
    split; [auto | congruence]. }
  rewrite (xs_hd v start s pth rk I es Hes) in E1. injection E1 as E1.
  rewrite (xs_hd v start s pth rk I et Het) in E2. injection E2 as E2. fold d in E1, E2.
  assert (NoFlag : forall z, nth_error (lab s) z <> Some (LFlag e)).
  { intros z Hz. destruct (si_flag _ _ _ _ _ I z e Hz es er Her Heid) as [_ [_ Hf]].
    rewrite Htgt, (xs_hd v start s pth rk I es Hes), (xs_hd v start s pth rk I et Het) in Hf.
    injection Hf as Hf. fold d in Hf. congruence. }
  rb H as E3 lab1. apply setp_ok in E3. destruct E3 as [Hl1 ->].
  rb H as E4 lab2. apply setp_ok in E4. destruct E4 as [Hl2 ->]. rewrite upd_length in Hl2.
  rb H as E5 [join s1]. rb H as E6 i1. rb H as E7 s2. rb H as E8 i2. rb H as E9 s3. rb H as E10 fin'.
  injection H as <-.
  assert (SqX : Sq (xs v s pth es)) by (exists es; auto).
  assert (SqY : Sq (xs v s pth et)) by (exists et; auto).
  destruct (xs_cons' es Hes) as [Xr EXr]. destruct (xs_cons' et Het) as [Yr EYr].
  rewrite E1 in EXr. rewrite E2 in EYr.
  set (s0 := mkMst (mate s) (upd (upd (lab s) lft (LFlag e)) rgt (LFlag e)) (fin s) (vis s) (queue s) (nedges s)) in *.
  pose proof (join_loop_vq v _ _ _ _ _ _ _ E5) as [Vs1 Qs1]. cbn [vis queue s0] in Vs1, Qs1.
  pose proof (relabel_vis v e es et join _ _ _ _ E7) as [Q2 [V2 [W2 K2]]].
  pose proof (relabel_vis v e es et join _ _ _ _ E9) as [Q3 [V3 [W3 K3]]].
  assert (J : JRes s e (xs v s pth es) (xs v s pth et) join s0 s1).
  { apply (join_loop_ok v s e Sq SQ1 SQ2 SQ3 SQ4 SQ5 NoFlag (4 * (vbound v + 2))
             (xs v s pth es) (xs v s pth et) [lft] Xr [rgt] Yr s0 join s1); auto.
    - discriminate.
    - discriminate.
    - intros x [<-|[]] [E|[]]. congruence.
    - split; [cbn [lab s0]; rewrite !upd_length; reflexivity|].
      intros z. cbn [lab s0]. rewrite !nth_error_upd, upd_length.
      rewrite (proj2 (Nat.ltb_lt _ _) Hl1), (proj2 (Nat.ltb_lt _ _) Hl2).
      destruct (Nat.eqb_spec rgt z) as [<-|N1].
      + split; [reflexivity|]. intros Hn. exfalso. apply Hn. right; left; reflexivity.
      + destruct (Nat.eqb_spec lft z) as [<-|N2].
        * split; [reflexivity|]. intros Hn. exfalso. apply Hn. left; reflexivity.
        * split; [|reflexivity]. intros [E|[E|[]]]; congruence. }
  destruct J as [Xa [Xb [Ya [Yb [V [EX [EY [DX [DY [M1 [F1 [FL1 [HVV [_ [Q1 N1]]]]]]]]]]]]]]].
  cbn [queue nedges s0] in Q1, N1.
  assert (HVno : forall z, In z V -> ~ outerv (lab s) z).
  { intros z Hz. destruct (HVV z Hz) as [Hin|Hin]; [apply (SQ5 _ z SqX Hin) | apply (SQ5 _ z SqY Hin)]. }
  assert (A1 : Agree s s1) by (apply (FL_Agree s e V s1 M1 F1 FL1 HVno)).
  apply getp_ok in E6. rewrite F1, (xs_hd v start s pth rk I es Hes) in E6. injection E6 as E6. fold d in E6.
  rewrite (hd_split _ Xa Xb join d EX) in E6. subst i1.
  assert (R2 : RL e es et join s1 s2 ([] ++ Xa)).
  { apply (relabel_ok v s e es et Sq SQ1 SQ2 SQ4 SQ5 (xs v s pth es) join Xb s1 SqX A1
             (4 * (vbound v + 2)) [] Xa s1 s2); [exact EX | apply RL_refl | exact E7]. }
  cbn [app] in R2.
  assert (HXano : forall z, In z Xa -> ~ outerv (lab s) z).
  { intros z Hz. apply (SQ5 _ z SqX). rewrite EX. apply in_or_app; left; exact Hz. }
  assert (HYano : forall z, In z Ya -> ~ outerv (lab s) z).
  { intros z Hz. apply (SQ5 _ z SqY). rewrite EY. apply in_or_app; left; exact Hz. }
  assert (A2 : Agree s s2) by (apply (RL_Agree s e es et join s1 s2 Xa A1 R2 HXano)).
  apply getp_ok in E8. destruct A2 as [A2m A2o]. rewrite (proj2 (A2o et Het)) in E8.
  rewrite (xs_hd v start s pth rk I et Het) in E8. injection E8 as E8. fold d in E8.
  rewrite (hd_split _ Ya Yb join d EY) in E8. subst i2.
  assert (A2 : Agree s s2) by (split; assumption).
  assert (R3 : RL e es et join s2 s3 ([] ++ Ya)).
  { apply (relabel_ok v s e es et Sq SQ1 SQ2 SQ4 SQ5 (xs v s pth et) join Yb s2 SqY A2
             (4 * (vbound v + 2)) [] Ya s2 s3); [exact EY | apply RL_refl | exact E9]. }
  cbn [app] in R3.
  apply refresh_spec in E10. destruct E10 as [r' [Er [Lr Hr]]]. cbn [rev app] in Er. subst fin'.
  destruct R2 as [R2m [R2n [R2l [R2f [R2a [R2b R2q]]]]]].
  destruct R3 as [R3m [R3n [R3l [R3f [R3a [R3b R3q]]]]]].
  destruct FL1 as [FLl FLz].
  assert (Hdisj : forall z, In z Xa -> ~ In z Ya).
  { intros z Hx Hy. apply (DX z Hx). rewrite EY. apply in_or_app; left; exact Hy. }
  assert (Lnew : forall z, In z (Xa ++ Ya) -> nth_error (lab s3) z = Some (LEdge e es et)).
  { intros z Hz. apply in_app_or in Hz. destruct Hz as [Hz|Hz].
    - rewrite (proj1 (R3b z (Hdisj z Hz))). apply (R2a z Hz).
    - apply (R3a z Hz). }
  assert (Lold : forall z, ~ In z (Xa ++ Ya) ->
            nth_error (lab s3) z = nth_error (lab s) z \/
            (nth_error (lab s3) z = Some (LFlag e) /\ ~ outerv (lab s) z)).
  { intros z Hz.
    assert (Hx : ~ In z Xa) by (intros Hin; apply Hz; apply in_or_app; left; exact Hin).
    assert (Hy : ~ In z Ya) by (intros Hin; apply Hz; apply in_or_app; right; exact Hin).
    rewrite (proj1 (R3b z Hy)), (proj1 (R2b z Hx)).
    destruct (in_dec Nat.eq_dec z V) as [Hin|Hnin].
    - right. split; [apply (proj1 (FLz z) Hin) | apply HVno, Hin].
    - left. apply (proj2 (FLz z) Hnin). }
  assert (Fin3 : forall z, nth_error (fin s3) z = if mem z (Xa ++ Ya) then Some join else nth_error (fin s) z).
  { intros z. destruct (mem z (Xa ++ Ya)) eqn:Em.
    - apply mem_In in Em. apply in_app_or in Em. destruct Em as [Hz|Hz].
      + rewrite (proj2 (R3b z (Hdisj z Hz))). apply (R2a z Hz).
      + apply (R3a z Hz).
    - apply mem_false in Em.
      assert (Hx : ~ In z Xa) by (intros Hin; apply Em; apply in_or_app; left; exact Hin).
      assert (Hy : ~ In z Ya) by (intros Hin; apply Em; apply in_or_app; right; exact Hin).
      rewrite (proj2 (R3b z Hy)), (proj2 (R2b z Hx)), F1. reflexivity. }
  assert (Hjno : ~ outerv (lab s) join).
  { apply (SQ5 _ join SqX). rewrite EX. apply in_or_app; right; left; reflexivity. }
  assert (Hnewno : forall z, In z (Xa ++ Ya) -> ~ outerv (lab s) z).
  { intros z Hz. apply in_app_or in Hz. destruct Hz; auto. }
  assert (Hout3 : forall z, ~ outerv (lab s) z -> ~ In z (Xa ++ Ya) -> outb (lab s3) z = false).
  { intros z Hno Hnn. destruct (outb (lab s3) z) eqn:Eo; [|reflexivity]. exfalso.
    apply outerv_outb in Eo. destruct Eo as [lb [Hlb Hlo]].
    destruct (Lold z Hnn) as [E|[E _]]; rewrite E in Hlb.
    - apply Hno. exists lb. auto.
    - injection Hlb as <-. discriminate. }
  set (sf := mkMst (mate s3) (lab s3) r' (vis s3) (queue s3) (nedges s3)).
  (* first_inner after refresh *)
  assert (Sfin : forall z, outerv (lab sf) z ->
            exists c, (if mem z (Xa ++ Ya) then Some join else nth_error (fin s) z) = Some c /\
                      nth_error (fin sf) z = Some (if mem c (Xa ++ Ya) then join else c)).
  { cbn [lab fin sf]. intros z Hz. pose proof Hz as [lb [Hlb Hlo]].
    destruct (Hr z lb Hlb) as [cur [Hc Hv]]. cbn [Nat.add] in Hc, Hv.
    exists cur. split; [rewrite <- Fin3; exact Hc|]. rewrite Hv.
    assert (Hzd : Nat.eqb z (vbound v) = false).
    { apply Nat.eqb_neq. intros ->.
      assert (Hdn : ~ In (vbound v) (Xa ++ Ya)).
      { intros Hin. destruct (new_elem v start s pth rk I es et Hes Het join Xa Xb Ya Yb EX EY _ Hin) as [Hd _].
        apply Hd; reflexivity. }
      pose proof (Hout3 (vbound v) (dummy_not_outer v start s pth rk I) Hdn) as Ho.
      unfold outb in Ho. rewrite (nth_error_nth _ _ LNone Hlb) in Ho. congruence. }
    rewrite Hzd, Hlo. cbn [negb andb]. f_equal.
    assert (Hcur : ~ outerv (lab s) cur).
    { rewrite Fin3 in Hc. destruct (mem z (Xa ++ Ya)) eqn:Em.
      - injection Hc as <-. exact Hjno.
      - apply mem_false in Em.
        assert (Hzo : outerv (lab s) z).
        { destruct (Lold z Em) as [E|[E _]]; rewrite E in Hlb; [exists lb; auto|].
          injection Hlb as <-. discriminate. }
        rewrite (xs_hd v start s pth rk I z Hzo) in Hc. injection Hc as <-.
        destruct (xs_cons' z Hzo) as [r Er]. fold d.
        apply (xs_range v start s pth rk I z _ Hzo). rewrite Er at 2. left; reflexivity. }
    destruct (mem cur (Xa ++ Ya)) eqn:Emc.
    + apply mem_In in Emc. unfold outb. rewrite (nth_error_nth _ _ LNone (Lnew cur Emc)). reflexivity.
    + apply mem_false in Emc. rewrite (Hout3 cur Hcur Emc). reflexivity. }
  assert (Hout_iff : forall z, outerv (lab sf) z <-> outerv (lab s) z \/ In z (Xa ++ Ya)).
  { apply (outer'_iff s e es et Xa Ya sf); cbn [lab sf]; assumption. }
  cbn [mate queue vis lab fin sf].
  split; [congruence|].
  split; [intros x Hx; apply Q3, Q2; rewrite Qs1; exact Hx|].
  split; [intros x Hx; apply V3, V2; rewrite Vs1; exact Hx|].
  split.
  { intros u Hu Hnu. apply Hout_iff in Hu. destruct Hu as [Hu|Hu]; [contradiction|].
    destruct (new_elem v start s pth rk I es et Hes Het join Xa Xb Ya Yb EX EY u Hu) as [Hud _].
    assert (Hnv : ~ In u (vis s)) by (intros Hin; apply Hnu; apply (proj2 HV u Hin)).
    assert (Hl1n : nth_error (lab s1) u <> Some (LEdge e es et)).
    { intros Hl. destruct (in_dec Nat.eq_dec u V) as [Hin|Hnin].
      - rewrite (proj1 (FLz u) Hin) in Hl. discriminate.
      - rewrite (proj2 (FLz u) Hnin) in Hl. apply Hnu. exists (LEdge e es et). auto. }
    assert (Hv3 : In u (vis s3)).
    { destruct (K3 u (Lnew u Hu)) as [Hl|[Hl|Hl]]; [|contradiction | exact Hl].
      destruct (K2 u Hl) as [Hl'|[Hl'|Hl']]; [contradiction | contradiction | apply V3, Hl']. }
    split; [|exact Hv3].
    destruct (W3 u Hv3) as [Hv2|Hq3]; [|exact Hq3].
    destruct (W2 u Hv2) as [Hv1|Hq2]; [|apply Q3, Hq2].
    rewrite Vs1 in Hv1. contradiction. }
  split.
  { intros x y Hx Hy Hxy.
    destruct (nth_error (fin s) x) as [c|] eqn:Ex.
    2:{ exfalso. rewrite (xs_hd v start s pth rk I x Hx) in Ex. discriminate. }
    pose proof (fin'_old v start s pth rk I e es et Hes Het join Xa Xb Ya Yb EX EY sf Lnew Lold Sfin x c Hx Ex) as Fx.
    pose proof (fin'_old v start s pth rk I e es et Hes Het join Xa Xb Ya Yb EX EY sf Lnew Lold Sfin y c Hy (eq_sym Hxy)) as Fy.
    cbn [fin sf] in Fx, Fy. congruence. }
  destruct (fin'_es_et v start s pth rk I e es et Hes Het join Xa Xb Ya Yb EX EY DX DY sf Lnew Lold Sfin) as [F1' F2'].
  cbn [fin sf] in F1', F2'. congruence.
Qed.

End FindJoinFacts.

Print Assumptions find_join_facts.
