(* The post-order loop shared by DfsPostOrder, toposort's first pass and kosaraju_scc's first
   pass, run from several start nodes one after the other on the same discovered / finished
   maps (a depth-first forest).  DpoP.v proves the single-start case together with "exactly
   the reachable nodes"; here only what survives a restart is kept: the finished list is
   duplicate free, closed under successors, and a successor that cannot reach back finishes
   first.  The view is only assumed well-formed at its nodes, so that the results apply to
   the reversed view as well. *)
From PG Require Import Lib.Io Model.View Model.Traversal Spec.Reach Proofs.TravBase Proofs.DpoP.
Set Implicit Arguments.

Record FInv (v : view) (d : dpo) : Prop := {
  f_nodup : NoDup (pfin d);
  f_fin_disc : forall x, In x (pfin d) -> In x (pdisc d);
  f_open : forall x, In x (pdisc d) -> In x (pfin d) \/ In x (pstack d);
  f_cap : forall x, In x (pstack d) -> in_cap v x;
  f_nodes : forall x, In x (pstack d) \/ In x (pdisc d) -> In x (vnodes v);
  f_stk : stk_all (Qp v (pdisc d) (pfin d)) [] (pstack d);
  f_closed : forall u w, In u (pfin d) -> step v u w -> In w (pdisc d);
  f_order : forall l1 u l2, pfin d = l1 ++ u :: l2 ->
              forall w, step v u w -> ~ reachable v w u -> In w l2
}.

Section Forest.
Variable v : view.
Hypothesis Hcap : forall a b, In a (vnodes v) -> step v a b -> in_cap v b.
Hypothesis Hnodes : forall a b, In a (vnodes v) -> step v a b -> In b (vnodes v).

(* first visit of the top entry: mark it, push its undiscovered successors above it *)
Lemma finv_discover nx rest disc fin :
  FInv v (mkDpo (nx :: rest) disc fin) -> ~ In nx disc ->
  FInv v (mkDpo (rev (ppushes v disc nx) ++ nx :: rest) (nx :: disc) fin).
Proof.
  intros I Hn. destruct I as [Hnd Hfd Hop Hc Hno Hst Hcl Hor]. cbn [pstack pdisc pfin] in *.
  assert (Nnx : In nx (vnodes v)) by (apply Hno; left; left; reflexivity).
  assert (Hpush : forall x, In x (rev (ppushes v disc nx)) -> step v nx x /\ ~ In x (nx :: disc)).
  { intros x Hx. rewrite <- in_rev in Hx. apply ppushes_In; exact Hx. }
  assert (Hold : forall x, In x (nx :: rest) -> In x (rev (ppushes v disc nx) ++ nx :: rest)).
  { intros x Hx. apply in_or_app; right; exact Hx. }
  constructor; cbn [pstack pdisc pfin].
  - exact Hnd.
  - intros x Hx. right. apply Hfd; exact Hx.
  - intros x [<-|Hx]; [right; apply Hold; left; reflexivity|].
    destruct (Hop x Hx) as [H|H]; [left; exact H | right; apply Hold; exact H].
  - intros x Hx. apply in_app_or in Hx. destruct Hx as [Hx|Hx]; [|apply Hc; exact Hx].
    apply (Hcap nx x Nnx). apply (Hpush x Hx).
  - intros x [Hx|[<-|Hx]]; [|exact Nnx|apply Hno; right; exact Hx].
    apply in_app_or in Hx. destruct Hx as [Hx|Hx]; [|apply Hno; left; exact Hx].
    apply (Hnodes nx x Nnx). apply (Hpush x Hx).
  - apply stk_all_app.
    + intros ab' u Hu Hd. exfalso. apply (proj2 (Hpush u Hu)). exact Hd.
    + rewrite app_nil_r. cbn [stk_all] in *. destruct Hst as [_ Hst].
      assert (Hab : forall x, In x (rev (rev (ppushes v disc nx))) <-> step v nx x /\ ~ In x (nx :: disc)).
      { intros x. rewrite rev_involutive. apply ppushes_In. }
      split.
      * intros _. split.
        -- intros w Hw. destruct (in_dec Nat.eq_dec w (nx :: disc)) as [Hd|Hd]; [left; exact Hd|].
           right. apply Hab. split; assumption.
        -- intros _ _ x Hx. apply reachable_step1. apply Hab; exact Hx.
      * set (R := fun ab ab' : list nat =>
                    In nx ab /\ (forall x, In x ab -> In x ab') /\
                    (forall x, In x ab' -> In x ab \/ step v nx x) /\
                    (forall w, step v nx w -> In w (nx :: disc) \/ In w ab')).
        apply (@stk_all_impl (Qp v disc fin) (Qp v (nx :: disc) fin) R) with (ab := [nx]).
        -- intros ab ab' u [R1 [R2 [R3 R4]]]. split; [right; exact R1|]. split; [|split].
           ++ intros x [<-|Hx]; [left; reflexivity | right; apply R2; exact Hx].
           ++ intros x [<-|Hx]; [left; left; reflexivity|].
              destruct (R3 x Hx) as [H|H]; [left; right; exact H | right; exact H].
           ++ intros w Hw. destruct (R4 w Hw) as [H|H]; [left; exact H | right; right; exact H].
        -- intros ab ab' u [R1 [R2 [R3 R4]]] HQ Hu. split.
           ++ intros w Hw. destruct Hu as [<-|Hu]; [apply R4; exact Hw|].
              destruct (proj1 (HQ Hu) w Hw) as [H|H]; [left; right; exact H | right; apply R2; exact H].
           ++ intros Hf Hab' x Hx.
              assert (Hne : nx <> u) by (intros ->; apply Hab', R2, R1).
              destruct Hu as [Hu|Hu]; [contradiction|].
              assert (Hreach : forall y, In y ab -> reachable v u y).
              { apply (proj2 (HQ Hu) Hf). intros Hua; apply Hab', R2, Hua. }
              destruct (R3 x Hx) as [H|H]; [apply Hreach; exact H|].
              eapply reach_step; [apply Hreach; exact R1 | exact H].
        -- unfold R. split; [left; reflexivity|]. split; [|split].
           ++ intros x [<-|[]]. left; reflexivity.
           ++ intros x [<-|Hx]; [left; left; reflexivity | right; apply Hab; exact Hx].
           ++ intros w Hw. destruct (in_dec Nat.eq_dec w (nx :: disc)) as [Hd|Hd]; [left; exact Hd|].
              right; right. apply Hab. split; assumption.
        -- exact Hst.
  - intros u w Hu Hw. right. apply (Hcl u w Hu Hw).
  - exact Hor.
Qed.

Lemma finv_skip nx rest disc fin :
  FInv v (mkDpo (nx :: rest) disc fin) -> In nx disc -> In nx fin ->
  FInv v (mkDpo rest disc fin).
Proof.
  intros I Hd Hf. destruct I as [Hnd Hfd Hop Hc Hno Hst Hcl Hor]. cbn [pstack pdisc pfin] in *.
  constructor; cbn [pstack pdisc pfin]; auto.
  - intros x Hx. destruct (Hop x Hx) as [H|[<-|H]]; [left; exact H | left; exact Hf | right; exact H].
  - intros x Hx; apply Hc; right; exact Hx.
  - intros x [Hx|Hx]; apply Hno; [left; right; exact Hx | right; exact Hx].
  - cbn [stk_all] in Hst. apply (@pinv_pop_stk v nx rest disc fin fin Hd Hf); [intros x Hx; exact Hx | apply Hst].
Qed.

Lemma finv_finish nx rest disc fin :
  FInv v (mkDpo (nx :: rest) disc fin) -> In nx disc -> ~ In nx fin ->
  FInv v (mkDpo rest disc (nx :: fin)).
Proof.
  intros I Hd Hf. destruct I as [Hnd Hfd Hop Hc Hno Hst Hcl Hor]. cbn [pstack pdisc pfin] in *.
  cbn [stk_all] in Hst. destruct Hst as [Hq Hst]. destruct (Hq Hd) as [Hsucc _].
  assert (Hsd : forall w, step v nx w -> In w disc).
  { intros w Hw. destruct (Hsucc w Hw) as [H|[]]. exact H. }
  constructor; cbn [pstack pdisc pfin].
  - constructor; assumption.
  - intros x [<-|Hx]; [exact Hd | apply Hfd; exact Hx].
  - intros x Hx. destruct (Hop x Hx) as [H|[<-|H]];
      [left; right; exact H | left; left; reflexivity | right; exact H].
  - intros x Hx; apply Hc; right; exact Hx.
  - intros x [Hx|Hx]; apply Hno; [left; right; exact Hx | right; exact Hx].
  - eapply pinv_pop_stk; [exact Hd | left; reflexivity | intros x Hx; right; exact Hx | exact Hst].
  - intros u w [<-|Hu] Hw; [apply Hsd; exact Hw | apply (Hcl u w Hu Hw)].
  - intros l1 u l2 E w Hw Hnr. destruct l1 as [|y l1]; cbn [app] in E.
    + injection E as -> ->.
      destruct (in_dec Nat.eq_dec w l2) as [Hin|Hout]; [exact Hin|]. exfalso.
      assert (Hwd : In w disc) by (apply Hsd; exact Hw).
      destruct (Hop w Hwd) as [H|[<-|H]]; [exact (Hout H) | apply Hnr, reach_refl |].
      destruct (@in_split_first w rest H) as [a [b [Er Hna]]]. rewrite Er in Hst.
      apply stk_all_at in Hst. destruct (Hst Hwd) as [_ Hch].
      apply Hnr. apply Hch; [exact Hout | |apply in_or_app; right; left; reflexivity].
      intros Hwa. apply in_app_or in Hwa. destruct Hwa as [Hwa|[->|[]]].
      * rewrite <- in_rev in Hwa. exact (Hna Hwa).
      * apply Hnr, reach_refl.
    + injection E as -> E. apply (Hor l1 u l2 E w Hw Hnr).
Qed.

Lemma fmeas_discover nx rest disc fin : In nx (vnodes v) -> ~ In nx disc ->
  pmeas v (mkDpo (rev (ppushes v disc nx) ++ nx :: rest) (nx :: disc) fin)
  < pmeas v (mkDpo (nx :: rest) disc fin).
Proof.
  intros Hin Hn. unfold pmeas. cbn [pstack pdisc]. rewrite sumw_app. cbn [sumw mem].
  rewrite Nat.eqb_refl. cbn [orb]. apply mem_false in Hn. rewrite Hn.
  pose proof (sumw_le2 (nx :: disc) (rev (ppushes v disc nx))) as H1. rewrite rev_length in H1.
  pose proof (filter_length_le (fun x => negb (is_visited (nx :: disc) x)) (neighbors v nx)) as H2.
  fold (ppushes v disc nx) in H2.
  pose proof (sumw_mark_le disc nx rest) as H3.
  pose proof (usum_mark_in (outdeg v) disc nx (vnodes v) Hin Hn) as H4. unfold outdeg in H4 at 2. lia.
Qed.

(* a new start on top of an exhausted stack *)
Lemma finv_restart disc fin i :
  FInv v (mkDpo [] disc fin) -> In i (vnodes v) -> in_cap v i -> FInv v (mkDpo [i] disc fin).
Proof.
  intros I Hi Hc. destruct I as [Hnd Hfd Hop Hca Hno Hst Hcl Hor]. cbn [pstack pdisc pfin] in *.
  assert (Hdf : forall x, In x disc -> In x fin).
  { intros x Hx. destruct (Hop x Hx) as [H|[]]. exact H. }
  constructor; cbn [pstack pdisc pfin]; auto.
  - intros x [<-|[]]. exact Hc.
  - intros x [[<-|[]]|Hx]; [exact Hi | apply Hno; right; exact Hx].
  - cbn [stk_all]. split; [|exact I]. intros Hd. split.
    + intros w Hw. left. apply (Hcl i w (Hdf i Hd) Hw).
    + intros Hnf. exfalso. apply Hnf, Hdf, Hd.
Qed.

Lemma fmeas_restart disc fin i :
  pmeas v (mkDpo [i] disc fin) < trav_fuel v + trav_fuel v.
Proof.
  unfold pmeas. cbn [pstack pdisc sumw].
  pose proof (usum_nil_le (outdeg v) disc (vnodes v)) as H. rewrite usum_outdeg_all in H.
  pose proof (trav_fuel_big v). destruct (mem i disc); lia.
Qed.

(* dpo_next on such a state *)
Lemma fdpo_next_ok : forall fuel d, FInv v d -> pmeas v d < fuel ->
  exists o d', dpo_next fuel v d = Ok (o, d') /\ FInv v d' /\ pmeas v d' <= pmeas v d /\
    (forall x, In x (pstack d) \/ In x (pdisc d) -> In x (pstack d') \/ In x (pdisc d')) /\
    match o with
    | None => pstack d' = [] /\ pfin d' = pfin d
    | Some n => pfin d' = n :: pfin d /\ pmeas v d' < pmeas v d
    end.
Proof.
  induction fuel as [|f IH]; intros d I Hf; [lia|].
  cbn [dpo_next]. destruct d as [st disc fin]. cbn [pstack pdisc pfin].
  destruct st as [|nx rest].
  - exists None, (mkDpo [] disc fin). split; [reflexivity|]. split; [exact I|]. split; [lia|].
    split; [intros x Hx; exact Hx|]. split; reflexivity.
  - assert (Hc : in_cap v nx) by (apply (f_cap I); left; reflexivity).
    assert (Nnx : In nx (vnodes v)) by (apply (f_nodes I); left; left; reflexivity).
    rewrite (visit_ok v disc nx Hc). cbn [rbind].
    destruct (mem nx disc) eqn:Em; cbn [negb].
    + apply mem_In in Em. rewrite (visit_ok v fin nx Hc). cbn [rbind].
      destruct (mem nx fin) eqn:Ef; cbn [negb].
      * apply mem_In in Ef.
        pose proof (pmeas_pop v nx rest disc fin fin) as Hm.
        destruct (IH _ (finv_skip I Em Ef)) as [o [d' [E [I' [Hle [Hmono Ho]]]]]]; [lia|].
        exists o, d'. split; [exact E|]. split; [exact I'|]. split; [lia|]. split.
        -- cbn [pstack pdisc] in *. intros x [[<-|Hx]|Hx]; apply Hmono; [right; exact Em | left; exact Hx | right; exact Hx].
        -- destruct o as [n|]; cbn [pfin] in *; [split; [apply Ho | lia] | exact Ho].
      * apply mem_false in Ef.
        pose proof (pmeas_pop v nx rest disc fin (nx :: fin)) as Hm.
        exists (Some nx), (mkDpo rest disc (nx :: fin)). split; [reflexivity|].
        split; [exact (finv_finish I Em Ef)|]. split; [lia|]. split.
        -- cbn [pstack pdisc]. intros x [[<-|Hx]|Hx]; [right; exact Em | left; exact Hx | right; exact Hx].
        -- split; [reflexivity | exact Hm].
    + apply mem_false in Em.
      pose proof (@fmeas_discover nx rest disc fin Nnx Em) as Hm. fold (ppushes v disc nx).
      destruct (IH _ (finv_discover I Em)) as [o [d' [E [I' [Hle [Hmono Ho]]]]]]; [lia|].
      exists o, d'. split; [exact E|]. split; [exact I'|]. split; [lia|]. split.
      -- cbn [pstack pdisc] in *. intros x Hx. apply Hmono. destruct Hx as [Hx|Hx].
         ++ left. apply in_or_app; right; exact Hx.
         ++ right; right; exact Hx.
      -- destruct o as [n|]; cbn [pfin] in *; [split; [apply Ho | lia] | exact Ho].
Qed.

Lemma fdpo_drain_ok : forall fuel d, FInv v d -> pmeas v d < fuel ->
  pmeas v d < trav_fuel v + trav_fuel v ->
  exists l d', dpo_drain fuel v d = Ok (l, d') /\ FInv v d' /\ pstack d' = [] /\
               pfin d' = rev l ++ pfin d /\
               (forall x, In x (pstack d) \/ In x (pdisc d) -> In x (pdisc d')).
Proof.
  induction fuel as [|f IH]; intros d I Hf Ht; [lia|].
  cbn [dpo_drain].
  destruct (fdpo_next_ok I Ht) as [o [d1 [E [I1 [Hle [Hmono Ho]]]]]]. rewrite E. cbn [rbind].
  destruct o as [n|].
  - destruct Ho as [Ef Hlt]. destruct (IH d1 I1) as [l [d2 [E2 [I2 [S2 [F2 M2]]]]]]; [lia|lia|].
    rewrite E2. cbn [rmap]. exists (n :: l), d2. split; [reflexivity|]. split; [exact I2|].
    split; [exact S2|]. split.
    + rewrite F2, Ef. cbn [rev]. rewrite <- app_assoc. reflexivity.
    + intros x Hx. apply M2, Hmono, Hx.
  - destruct Ho as [S1 F1]. exists [], d1. split; [reflexivity|]. split; [exact I1|].
    split; [exact S1|]. split; [exact F1|].
    intros x Hx. destruct (Hmono x Hx) as [H|H]; [rewrite S1 in H; destruct H | exact H].
Qed.

End Forest.

Lemma finv_empty v : FInv v (mkDpo [] [] []).
Proof.
  constructor; cbn [pstack pdisc pfin].
  - constructor.
  - intros x [].
  - intros x [].
  - intros x [].
  - intros x [[]|[]].
  - exact I.
  - intros u w [].
  - intros l1 u l2 E. destruct l1; discriminate E.
Qed.

(* with the stack exhausted: discovered = finished *)
Lemma finv_done_disc_fin v disc fin x : FInv v (mkDpo [] disc fin) -> (In x disc <-> In x fin).
Proof.
  intros I. split.
  - intros Hx. destruct (f_open I x Hx) as [H|[]]. exact H.
  - apply (f_fin_disc I).
Qed.
