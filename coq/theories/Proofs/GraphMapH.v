(* C03, part 4: histories (T4) and the compact index numbering (T5). *)
From Coq Require Import Lia ZArith Permutation.
From PG Require Import Lib.Io Model.GraphMapM Spec.SimpleGraph Proofs.GraphMapL Proofs.GraphMapP
  Proofs.GraphMapR Proofs.GraphMapQ.
Local Open Scope Z_scope.

(* ------------------------------------------------------------------ *)
(* T4: histories                                                       *)

(* The state after a sequence of harness operations. *)
Definition final (d debug : bool) (g : gm) (ops : list line) : gm :=
  fold_left (fun g o => fst (step d debug g o)) ops g.

(* [final] is the state threaded through [run]. *)
Lemma run_app d debug ops : forall g o,
  run d debug g (ops ++ [o]) = run d debug g ops ++ [snd (step d debug (final d debug g ops) o)].
Proof.
  induction ops as [|o0 rest IH]; intros g o; cbn [run app final fold_left].
  - destruct (step d debug g o) as [g' ls]. reflexivity.
  - destruct (step d debug g o0) as [g' ls] eqn:Es. cbn [fst]. rewrite IH. reflexivity.
Qed.

Lemma step_sim d debug g s o : Sim d g s -> Sim d (fst (step d debug g o)) (s_step d s o).
Proof.
  intros HS. destruct o as [code a].
  destruct code as [|[|[|[|[|[|[|c]]]]]]]; cbn [step s_step].
  - cbn [fst]. apply Sim_add_node; exact HS.
  - destruct (Sim_remove_node d g s (argz a 0) HS) as [_ HS'].
    destruct (remove_node d g (argz a 0)) as [b g']. exact HS'.
  - destruct (Sim_add_edge d g s (argz a 0) (argz a 1) (argz a 2) HS) as [_ HS'].
    destruct (add_edge d g (argz a 0) (argz a 1) (argz a 2)) as [o g']. exact HS'.
  - destruct (Sim_remove_edge d debug g s (argz a 0) (argz a 1) HS) as [g' [Heq HS']].
    rewrite Heq. exact HS'.
  - cbn [fst]. apply Sim_new.
  - destruct (Sim_set_edge_weight d g s (argz a 0) (argz a 1) (argz a 2) HS) as [_ HS'].
    destruct (set_edge_weight d g (argz a 0) (argz a 1) (argz a 2)) as [b g']. exact HS'.
  - cbn [fst]. apply Sim_extend; exact HS.
  - destruct c as [|[|[|[|[|[|[|c]]]]]]]; exact HS.
Qed.

Lemma final_sim d debug ops : forall g s,
  Sim d g s -> Sim d (final d debug g ops) (fold_left (s_step d) ops s).
Proof.
  induction ops as [|o rest IH]; intros g s HS; cbn [final fold_left]; [exact HS|].
  apply IH. apply step_sim. exact HS.
Qed.

Theorem history_refines d debug ops :
  GInv d (final d debug gm_new ops) /\
  sg_equiv (abs (final d debug gm_new ops)) (s_run d ops).
Proof. apply (final_sim d debug ops gm_new s_clear (Sim_new d)). Qed.

(* The value returned by each call (the first line of the step's output) is
   the one the specification prescribes. *)
Definition s_reply (d : bool) (s : sgraph) (o : line) : option line :=
  let '(code, a) := o in
  match code with
  | 0%nat => Some (TAG_SOME, [argz a 0])
  | 1%nat => Some (TAG_BOOL, [zb (fst (s_remove_node s (argz a 0)))])
  | 2%nat => Some (opt_line (fst (s_add_edge d s (argz a 0) (argz a 1) (argz a 2))))
  | 3%nat => Some (opt_line (fst (s_remove_edge d s (argz a 0) (argz a 1))))
  | 4%nat => Some (TAG_UNIT, [])
  | 5%nat => Some (TAG_BOOL, [zb (fst (s_set_weight d s (argz a 0) (argz a 1) (argz a 2)))])
  | 6%nat => Some (TAG_UNIT, [])
  | 7%nat => Some (TAG_BOOL, [zb (s_has_node s (argz a 0))])
  | 8%nat => Some (TAG_BOOL, [zb (s_has_edge d s (argz a 0) (argz a 1))])
  | 9%nat => Some (opt_line (s_weight d s (argz a 0) (argz a 1)))
  | _ => None
  end.

Lemma step_reply d debug g s o l : Sim d g s ->
  s_reply d s o = Some l -> hd_error (snd (step d debug g o)) = Some l.
Proof.
  intros HS. pose proof (Sim_keys d g s HS) as HN. pose proof HS as [HI Heq].
  destruct o as [code a].
  destruct code as [|[|[|[|[|[|[|[|[|[|c]]]]]]]]]]; cbn [step s_reply]; intros Hl;
    try discriminate; injection Hl as <-.
  - reflexivity.
  - destruct (Sim_remove_node d g s (argz a 0) HS) as [Hr _].
    destruct (remove_node d g (argz a 0)) as [b g']. cbn [fst snd hd_error] in *. rewrite Hr. reflexivity.
  - destruct (Sim_add_edge d g s (argz a 0) (argz a 1) (argz a 2) HS) as [Hr _].
    destruct (add_edge d g (argz a 0) (argz a 1) (argz a 2)) as [o g']. cbn [fst snd hd_error] in *.
    rewrite Hr. reflexivity.
  - destruct (Sim_remove_edge d debug g s (argz a 0) (argz a 1) HS) as [g' [Hr _]].
    rewrite Hr. reflexivity.
  - reflexivity.
  - destruct (Sim_set_edge_weight d g s (argz a 0) (argz a 1) (argz a 2) HS) as [Hr _].
    destruct (set_edge_weight d g (argz a 0) (argz a 1) (argz a 2)) as [b g']. cbn [fst snd hd_error] in *.
    rewrite Hr. reflexivity.
  - reflexivity.
  - cbn [snd hd_error]. rewrite contains_node_abs, (s_has_node_equiv (abs g) s _ Heq). reflexivity.
  - cbn [snd hd_error]. rewrite contains_edge_abs. unfold s_has_edge, s_weight.
    rewrite (s_find_equiv (se (abs g)) (se s) _ HN (proj2 Heq)). reflexivity.
  - cbn [snd hd_error]. rewrite edge_weight_abs. unfold s_weight.
    rewrite (s_find_equiv (se (abs g)) (se s) _ HN (proj2 Heq)). reflexivity.
Qed.

Theorem history_reply d debug ops o l :
  s_reply d (s_run d ops) o = Some l ->
  hd_error (snd (step d debug (final d debug gm_new ops) o)) = Some l.
Proof.
  apply step_reply. apply (final_sim d debug ops gm_new s_clear (Sim_new d)).
Qed.

(* ------------------------------------------------------------------ *)
(* T5: to_index / from_index and into_graph                            *)

Theorem index_iff d g n i : GInv d g ->
  (im_index_of Z.eqb (gnodes g) n = Some i <-> nth_error (map fst (gnodes g)) i = Some n).
Proof.
  intros HI. apply (im_index_of_iff Z.eqb Zeqb_spec'). apply (gi_nodes_nodup d g HI).
Qed.

Theorem index_bound d g n i : GInv d g ->
  im_index_of Z.eqb (gnodes g) n = Some i -> (i < length (gnodes g))%nat.
Proof.
  intros HI H. apply (index_iff d g n i HI) in H. apply nth_error_Some_lt in H.
  rewrite map_length in H. exact H.
Qed.

(* to_index is total on nodes, from_index is total below node_count, and they
   are mutually inverse. *)
Theorem to_index_total d g n : GInv d g -> In n (nkeys g) ->
  exists i, im_index_of Z.eqb (gnodes g) n = Some i /\ (i < length (gnodes g))%nat /\
            nth_error (map fst (gnodes g)) i = Some n.
Proof.
  intros HI Hn. apply In_nth_error in Hn. destruct Hn as [i Hi]. exists i.
  pose proof (proj2 (index_iff d g n i HI) Hi) as Hidx.
  split; [exact Hidx|]. split; [eapply index_bound; eauto | exact Hi].
Qed.

Theorem from_index_total d g i : GInv d g -> (i < length (gnodes g))%nat ->
  exists n, nth_error (map fst (gnodes g)) i = Some n /\ In n (nkeys g) /\
            im_index_of Z.eqb (gnodes g) n = Some i.
Proof.
  intros HI Hi. destruct (@nth_error_lt_Some _ (map fst (gnodes g)) i) as [n Hn].
  { rewrite map_length. exact Hi. }
  exists n. split; [exact Hn|]. split; [eapply nth_error_In; exact Hn|].
  apply (index_iff d g n i HI). exact Hn.
Qed.

Theorem index_none_iff g n : im_index_of Z.eqb (gnodes g) n = None <-> ~ In n (nkeys g).
Proof.
  rewrite im_index_of_none. apply (im_get_none Z.eqb Zeqb_spec').
Qed.

(* into_graph: (index of a, index of b, weight) for every edge, in map order. *)
Definition flat3n (ts : list (nat * nat * Z)) : list Z :=
  flat_map (fun t => [zn (fst (fst t)); zn (snd (fst t)); snd t]) ts.

Definition edge_at (g : gm) (e : (Z * Z) * Z) (t : nat * nat * Z) : Prop :=
  snd t = snd e /\
  nth_error (map fst (gnodes g)) (fst (fst t)) = Some (fst (fst e)) /\
  nth_error (map fst (gnodes g)) (snd (fst t)) = Some (snd (fst e)).

Lemma into_graph_edges_ok d g es : GInv d g ->
  (forall a b w, In ((a, b), w) es -> In a (nkeys g) /\ In b (nkeys g)) ->
  exists ts, into_graph_edges g es = Ok (flat3n ts) /\ Forall2 (edge_at g) es ts.
Proof.
  intros HI. induction es as [|[[a b] w] rest IH]; intros Hend.
  - exists []. split; [reflexivity | constructor].
  - destruct IH as [ts [Hts HF]].
    { intros a' b' w' Hin. apply (Hend a' b' w'). right; exact Hin. }
    destruct (Hend a b w (or_introl eq_refl)) as [Ha Hb].
    destruct (to_index_total d g a HI Ha) as [ia [Hia [_ Hna]]].
    destruct (to_index_total d g b HI Hb) as [ib [Hib [_ Hnb]]].
    exists ((ia, ib, w) :: ts). split.
    + cbn [into_graph_edges]. rewrite Hia, Hib, Hts. reflexivity.
    + constructor; [|exact HF]. unfold edge_at. cbn [fst snd]. auto.
Qed.

Theorem into_graph_ok d g : GInv d g ->
  exists ts, into_graph_edges g (gedges g) = Ok (flat3n ts) /\ Forall2 (edge_at g) (gedges g) ts.
Proof.
  intros HI. apply (into_graph_edges_ok d g (gedges g) HI).
  intros a b w Hin. apply (gi_endpoints d g HI). apply (in_map fst) in Hin. exact Hin.
Qed.
