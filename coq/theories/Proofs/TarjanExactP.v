(* TarjanScc (Pearce's variant): the components reported are exactly the classes of mutual
   reachability, they are emitted so that no component reaches a later one, and the entry left
   in the rootindex array of a node is usize::MAX minus the position of its component.

   The invariant speaks of the entries only (no ghost visit numbers):
     - every node on the stack reaches an open node whose entry is not larger than its own;
     - the open nodes form a chain (each reaches the ones opened after it);
     - reported components are classes, closed under [step], none reaching a later one;
   and, for the loop over the neighbours of the innermost open node x (opened with index i0 when
   the stack was st0, S being what has been pushed since):
     - entries of S are at least the entry of x;  x reaches all of S;
     - the entry of x is i0 (still a root) or smaller, and then x reaches an older open node;
     - an edge from S or a processed edge of x into st0 ++ O bounds the entry of x by the
       (frozen, smaller than i0) entry of its target.
   When x is still a root after the loop nothing of S and x points to an older live node, the
   stack above st0 is popped exactly, and S + x is the class of x. *)
From Coq Require Import NArith.
From PG Require Import Lib.Io Model.View Model.Traversal Model.AlgoBasic Spec.Reach Spec.AlgoSpec
                       Proofs.TravBase Proofs.ToposortP Proofs.TarjanP.

(* ------------------------------------------------------------------ *)
(* Entries as numbers                                                  *)

Definition entN (l : list (option N)) (n : nat) : N :=
  match nth_error l n with Some (Some k) => k | _ => 0%N end.
Definition eN (t : tarjan) (n : nat) : N := entN (tnodes t) n.

Lemma entN_of l n k : nth_error l n = Some (Some k) -> entN l n = k.
Proof. intros H. unfold entN. rewrite H. reflexivity. Qed.

Lemma entN_ext l l' n : nth_error l' n = nth_error l n -> entN l' n = entN l n.
Proof. intros H. unfold entN. rewrite H. reflexivity. Qed.

Lemma entN_upd l x k n : x < length l ->
  entN (upd l x (Some k)) n = if Nat.eqb x n then k else entN l n.
Proof.
  intros H. unfold entN. rewrite (nth_error_upd_at l x (Some k) n H).
  destruct (Nat.eqb x n); reflexivity.
Qed.

(* ------------------------------------------------------------------ *)
(* Popping exactly the segment above the old stack                     *)

Lemma pop_exact : forall S t vroot c adj comp st0,
  NoDup (S ++ st0) ->
  (forall w, In w S -> exists rw, nth_error (tnodes t) w = Some rw /\ opt_lt rw vroot = false) ->
  (forall w, In w st0 -> exists rw, nth_error (tnodes t) w = Some rw /\ opt_lt rw vroot = true) ->
  exists t',
    tj_pop_component t vroot c (S ++ st0) adj comp =
      Ok (t', st0, (adj + N.of_nat (length S))%N, rev S ++ comp) /\
    tindex t' = tindex t /\ tcc t' = tcc t /\ length (tnodes t') = length (tnodes t) /\
    (forall n, nth_error (tnodes t') n = if mem n S then Some c else nth_error (tnodes t) n).
Proof.
  induction S as [|w S IH]; intros t vroot c adj comp st0 Hnd HS H0.
  - exists t. cbn [app length rev]. rewrite N.add_0_r. split; [|repeat split; reflexivity].
    destruct st0 as [|w st]; [reflexivity|]. cbn [tj_pop_component].
    destruct (H0 w (or_introl eq_refl)) as [rw [Erw Elt]].
    rewrite (tj_get_ok t w rw Erw). cbn [rbind]. rewrite Elt. reflexivity.
  - cbn [app tj_pop_component].
    destruct (HS w (or_introl eq_refl)) as [rw [Erw Elt]].
    rewrite (tj_get_ok t w rw Erw). cbn [rbind]. rewrite Elt.
    assert (Hw : w < length (tnodes t)) by (apply nth_error_Some; congruence).
    rewrite (tj_set_ok t w c Hw). cbn [rbind].
    set (t1 := mkTj (tindex t) (tcc t) (upd (tnodes t) w c) (tstack t)).
    cbn [app] in Hnd. inversion Hnd as [|w' l' Hwn Hnd']; subst.
    assert (Hne : forall w', In w' (S ++ st0) -> nth_error (tnodes t1) w' = nth_error (tnodes t) w').
    { intros w' Hw'. cbn [t1 tnodes]. rewrite (nth_error_upd_at (tnodes t) w c w' Hw).
      destruct (Nat.eqb_spec w w') as [->|Hn]; [contradiction | reflexivity]. }
    destruct (IH t1 vroot c (N.succ adj) (w :: comp) st0 Hnd') as [t' [E [Hi [Hc [Hl Hn]]]]].
    { intros w' Hw'. rewrite (Hne w' (in_or_app _ _ _ (or_introl Hw'))). apply HS; right; exact Hw'. }
    { intros w' Hw'. rewrite (Hne w' (in_or_app _ _ _ (or_intror Hw'))). apply H0; exact Hw'. }
    exists t'. split.
    + rewrite E. cbn [length rev]. rewrite <- app_assoc. cbn [app].
      replace (N.succ adj + N.of_nat (length S))%N with (adj + N.of_nat (Datatypes.S (length S)))%N by lia.
      reflexivity.
    + split; [exact Hi|]. split; [exact Hc|]. split; [rewrite Hl; cbn [t1 tnodes]; apply upd_length|].
      intros n. rewrite Hn. cbn [mem t1 tnodes]. rewrite (nth_error_upd_at (tnodes t) w c n Hw).
      destruct (mem n S); [rewrite orb_true_r; reflexivity|]. rewrite orb_false_r. reflexivity.
Qed.

Lemma nodup_app_r {A} (l1 l2 : list A) : NoDup (l1 ++ l2) -> NoDup l2.
Proof.
  induction l1 as [|a t IH]; intros H; [exact H|]. cbn [app] in H.
  inversion H as [|a' t' Ha Ht]; subst. apply IH; exact Ht.
Qed.

(* ------------------------------------------------------------------ *)
(* Sets closed under step                                              *)

Lemma closed_reach v (D : list nat) :
  (forall u y, In u D -> step v u y -> In y D) ->
  forall u y, In u D -> reachable v u y -> In y D.
Proof.
  intros Hc u y Hu R. induction R as [|a b Ra IH Hab]; [exact Hu|]. apply (Hc a b IH Hab).
Qed.

Lemma mutual_refl v a : mutual v a a.
Proof. split; apply reach_refl. Qed.

(* a root x with the segment S pushed since it was opened: every edge leaving x :: S goes to a
   closed set D not containing x, S and x reach each other: S + x is the class of x *)
Lemma root_scc v x S D :
  In x (vnodes v) ->
  (forall u, In u S -> reachable v x u) ->
  (forall u, In u S -> reachable v u x) ->
  (forall u y, In u D -> step v u y -> In y D) ->
  ~ In x D ->
  (forall u y, In u (x :: S) -> step v u y -> In y (x :: S) \/ In y D) ->
  scc_class v (rev S ++ [x]).
Proof.
  intros Nx Hto Hback HD HxD Hout. exists x. split; [exact Nx|]. intros z. split.
  - intros Hz. apply in_app_or in Hz. destruct Hz as [Hz|[<-|[]]]; [|apply mutual_refl].
    apply in_rev in Hz. split; [apply Hto | apply Hback]; exact Hz.
  - intros [Hxz Hzx].
    assert (Hall : forall a, reachable v x a -> In a (x :: S) \/ In a D).
    { intros a R. induction R as [|a b Ra IH Hab]; [left; left; reflexivity|].
      destruct IH as [IH|IH]; [apply (Hout a b IH Hab) | right; apply (HD a b IH Hab)]. }
    destruct (Hall z Hxz) as [[<-|Hz]|Hz].
    + apply in_or_app; right; left; reflexivity.
    + apply in_or_app; left. apply in_rev in Hz. exact Hz.
    + exfalso. apply HxD. apply (closed_reach v D HD z x Hz Hzx).
Qed.

Lemma nlr_snoc v out comp :
  no_later_reach v out ->
  (forall u y, In u (concat out) -> step v u y -> In y (concat out)) ->
  (forall y, In y comp -> ~ In y (concat out)) ->
  no_later_reach v (out ++ [comp]).
Proof.
  intros Ho Hc Hd i j c1 c2 Hij E1 E2 a b Ha Hb R.
  destruct (Nat.lt_ge_cases j (length out)) as [Hj|Hj].
  - rewrite nth_error_app1 in E1 by lia. rewrite nth_error_app1 in E2 by lia.
    exact (Ho i j c1 c2 Hij E1 E2 a b Ha Hb R).
  - rewrite nth_error_app2 in E2 by lia.
    destruct (j - length out) as [|k] eqn:Ek; [|destruct k; discriminate E2].
    cbn [nth_error] in E2. injection E2 as <-.
    rewrite nth_error_app1 in E1 by lia.
    assert (Hac : In a (concat out)).
    { apply in_concat. exists c1. split; [apply (nth_error_In _ _ E1) | exact Ha]. }
    apply (Hd b Hb). apply (closed_reach v _ Hc a b Hac R).
Qed.

(* ------------------------------------------------------------------ *)
(* The invariants                                                      *)

Section Exact.
Variable v : view.
Variable debug : bool.
Hypothesis Hv : VOk v.
Hypothesis Hbound : forall n, In n (vnodes v) -> n < vbound v.
Hypothesis Hsmall : (N.of_nat (length (vnodes v)) < USIZE_MAX)%N.

(* head = innermost open node; every outer open node reaches the inner ones *)
Fixpoint chain (O : list nat) : Prop :=
  match O with
  | [] => True
  | x :: O' => (forall g, In g O' -> reachable v g x) /\ chain O'
  end.

Record SInv (t : tarjan) (O : list nat) (out : list (list nat)) : Prop := {
  s_scc : Forall (scc_class v) out;
  s_ord : no_later_reach v out;
  s_closed : forall u y, In u (concat out) -> step v u y -> In y (concat out);
  s_nbw : forall u y, In u (tstack t) -> step v u y -> In y (tvis t O out);
  s_lt : forall u, In u (tstack t ++ O) -> (eN t u < tindex t)%N;
  s_idx : forall i c z, nth_error out i = Some c -> In z c -> eN t z = (USIZE_MAX - N.of_nat i)%N;
  s_chain : chain O;
  s_wit : forall u, In u (tstack t) -> exists g, In g O /\ reachable v u g /\ (eN t g <= eN t u)%N
}.

(* the loop over the neighbours of x, opened with index i0 over the stack st0; S pushed since *)
Record LInv (t : tarjan) (O : list nat) (out : list (list nat)) (x : nat) (i0 : N)
            (st0 S ws : list nat) (r : bool) : Prop := {
  l_stack : tstack t = S ++ st0;
  l_old : forall n, In n (st0 ++ O) -> (eN t n < i0)%N;
  l_ge : forall u, In u S -> (eN t x <= eN t u)%N;
  l_root : (r = true /\ eN t x = i0) \/
           (r = false /\ (eN t x < i0)%N /\
            exists g, In g O /\ reachable v x g /\ (eN t g <= eN t x)%N);
  l_edge : forall u y, In u S -> step v u y -> In y (st0 ++ O) -> (eN t x <= eN t y)%N;
  l_xedge : forall y, step v x y ->
            In y ws \/ (In y (tvis t (x :: O) out) /\ (In y (st0 ++ O) -> (eN t x <= eN t y)%N));
  l_reach : forall u, In u S -> reachable v x u
}.

(* ------------------------------------------------------------------ *)
(* Disjointness of the three parts of the visited set                  *)

Lemma tvis_parts t O out : NoDup (tvis t O out) ->
  NoDup (tstack t) /\ NoDup O /\
  (forall n, In n (tstack t) -> In n O -> False) /\
  (forall n, In n (tstack t) -> In n (concat out) -> False) /\
  (forall n, In n O -> In n (concat out) -> False).
Proof.
  unfold tvis. intros H.
  split; [apply (nodup_app_l _ _ H)|].
  pose proof (nodup_app_r _ _ H) as H2.
  split; [apply (nodup_app_l _ _ H2)|].
  split; [|split].
  - intros n H1 H3. apply (nodup_app_disj _ _ n H H1). apply in_or_app; left; exact H3.
  - intros n H1 H3. apply (nodup_app_disj _ _ n H H1). apply in_or_app; right; exact H3.
  - intros n H1 H3. apply (nodup_app_disj _ _ n H2 H1 H3).
Qed.

Lemma in_tvis t O out n : In n (tvis t O out) <-> In n (tstack t) \/ In n O \/ In n (concat out).
Proof. unfold tvis. rewrite !in_app_iff. tauto. Qed.

Lemma tinv_eN t O out n : TInv v t O out -> In n (tvis t O out) ->
  nth_error (tnodes t) n = Some (Some (eN t n)) /\ (1 <= eN t n)%N.
Proof.
  intros I Hn. destruct (tinv_entry v Hbound t O out n I Hn) as [k [Ek Hk]].
  unfold eN. rewrite (entN_of _ _ _ Ek). split; assumption.
Qed.

Lemma tinv_lt_len t O out n : TInv v t O out -> In n (tvis t O out) -> n < length (tnodes t).
Proof.
  intros I Hn. rewrite (t_len _ _ _ _ I). apply Hbound. apply (t_in _ _ _ _ I n Hn).
Qed.

(* entries of reported nodes are above the entries of live nodes *)
Lemma out_gt t O out u z : TInv v t O out -> SInv t O out ->
  In u (tstack t ++ O) -> In z (concat out) -> (eN t u < eN t z)%N.
Proof.
  intros I J Hu Hz. apply in_concat in Hz. destruct Hz as [c [Hc Hz]].
  destruct (In_nth_error _ _ Hc) as [i Ei].
  rewrite (s_idx _ _ _ J i c z Ei Hz).
  pose proof (s_lt _ _ _ J u Hu) as Hlt. rewrite (t_idx _ _ _ _ I) in Hlt.
  assert (Hi : i < length out) by (apply nth_error_Some; congruence).
  destruct (tinv_out_small v Hsmall t O out I) as [_ H2].
  pose proof (length_concat_ne out (t_ne _ _ _ _ I)) as H3.
  unfold tvis in H2. rewrite !app_length in H2. lia.
Qed.

(* ------------------------------------------------------------------ *)
(* The four state changes keep TInv                                    *)

Definition t_open (t : tarjan) (x : nat) : tarjan :=
  mkTj (N.succ (tindex t)) (tcc t) (upd (tnodes t) x (Some (tindex t))) (tstack t).

Lemma tvis_open t O out x n : In n (tvis (t_open t x) (x :: O) out) <-> n = x \/ In n (tvis t O out).
Proof.
  unfold tvis. cbn [t_open tstack]. rewrite !in_app_iff. cbn [In].
  split; [intros [H|[[H|H]|H]]; auto | intros [H|[H|[H|H]]]; auto].
Qed.

Lemma tinv_open t O out x : TInv v t O out -> In x (vnodes v) -> nth_error (tnodes t) x = Some None ->
  TInv v (t_open t x) (x :: O) out /\
  pot v (tvis (t_open t x) (x :: O) out) + S (outdeg v x) <= pot v (tvis t O out).
Proof.
  intros I Nx Ex.
  assert (Hxb : x < vbound v) by (apply Hbound; exact Nx).
  assert (Hxl : x < length (tnodes t)) by (rewrite (t_len _ _ _ _ I); exact Hxb).
  assert (Hxv : ~ In x (tvis t O out)) by (apply (t_vis _ _ _ _ I x Hxb); exact Ex).
  split.
  - constructor.
    + cbn [t_open tnodes]. rewrite upd_length. apply (t_len _ _ _ _ I).
    + intros n Hb. rewrite (tvis_open t O out x n). cbn [t_open tnodes].
      rewrite (nth_error_upd_at (tnodes t) x _ n Hxl).
      destruct (Nat.eqb_spec x n) as [<-|Hne].
      * split; [intros H; discriminate H | intros H; exfalso; apply H; left; reflexivity].
      * rewrite (t_vis _ _ _ _ I n Hb).
        split; [intros H [H2|H2]; [apply Hne; symmetry; exact H2 | exact (H H2)] | intros H H2; apply H; right; exact H2].
    + apply (@NoDup_incl_NoDup _ (x :: tvis t O out)).
      * constructor; [exact Hxv | apply (t_nd _ _ _ _ I)].
      * unfold tvis. cbn [t_open tstack length]. rewrite ?app_length. cbn [length]. rewrite ?app_length. lia.
      * intros n [<-|Hn]; apply tvis_open; [left; reflexivity | right; exact Hn].
    + intros n Hn. apply tvis_open in Hn. destruct Hn as [->|Hn]; [exact Nx | apply (t_in _ _ _ _ I n Hn)].
    + intros n k. cbn [t_open tnodes]. rewrite (nth_error_upd_at (tnodes t) x _ n Hxl).
      destruct (Nat.eqb x n); [|apply (t_pos _ _ _ _ I)].
      intros H; injection H as <-. rewrite (t_idx _ _ _ _ I). lia.
    + cbn [t_open tindex tstack]. rewrite (t_idx _ _ _ _ I). cbn [length]. lia.
    + apply (t_cc _ _ _ _ I).
    + apply (t_ne _ _ _ _ I).
  - unfold pot. rewrite (usum_ext _ (tvis (t_open t x) (x :: O) out) (x :: tvis t O out)).
    + apply (usum_mark_in (fun n => S (outdeg v n)) (tvis t O out) x (vnodes v) Nx).
      apply mem_false; exact Hxv.
    + intros n. rewrite tvis_open. cbn [In]. split; [intros [->|H]; auto | intros [<-|H]; auto].
Qed.

Definition t_setx (t : tarjan) (x : nat) (k : N) : tarjan :=
  mkTj (tindex t) (tcc t) (upd (tnodes t) x (Some k)) (tstack t).

Lemma tinv_setx t O out x k : TInv v t (x :: O) out -> (1 <= k)%N -> TInv v (t_setx t x k) (x :: O) out.
Proof.
  intros I Hk.
  assert (Hx : In x (tvis t (x :: O) out)) by (apply in_tvis; right; left; left; reflexivity).
  assert (Hxl : x < length (tnodes t)) by (apply (tinv_lt_len t (x :: O) out x I Hx)).
  constructor; cbn [t_setx tnodes tstack tindex tcc tvis].
  - rewrite upd_length. apply (t_len _ _ _ _ I).
  - intros n Hb. rewrite (nth_error_upd_at (tnodes t) x (Some k) n Hxl).
    destruct (Nat.eqb_spec x n) as [<-|Hne].
    + split; [intros H; discriminate H | intros H; exfalso; apply H; exact Hx].
    + apply (t_vis _ _ _ _ I n Hb).
  - apply (t_nd _ _ _ _ I).
  - apply (t_in _ _ _ _ I).
  - intros n k'. rewrite (nth_error_upd_at (tnodes t) x (Some k) n Hxl).
    destruct (Nat.eqb x n); [intros H; injection H as <-; exact Hk | apply (t_pos _ _ _ _ I)].
  - apply (t_idx _ _ _ _ I).
  - apply (t_cc _ _ _ _ I).
  - apply (t_ne _ _ _ _ I).
Qed.

Definition t_push (t : tarjan) (x : nat) : tarjan := mkTj (tindex t) (tcc t) (tnodes t) (x :: tstack t).

Lemma tvis_push t O out x n : In n (tvis (t_push t x) O out) <-> In n (tvis t (x :: O) out).
Proof. unfold tvis. cbn [t_push tstack]. cbn [app In]. rewrite ?in_app_iff. cbn [In]. rewrite ?in_app_iff. tauto. Qed.

Lemma tinv_push t O out x : TInv v t (x :: O) out -> TInv v (t_push t x) O out.
Proof.
  intros I.
  apply (tinv_reshape v Hsmall t (x :: O) out (t_push t x) O out I);
    [reflexivity | apply tvis_push | | | apply (t_cc _ _ _ _ I) | apply (t_ne _ _ _ _ I)].
  - unfold tvis. cbn [t_push tstack]. rewrite ?app_length. cbn [length]. rewrite ?app_length. cbn [length]. lia.
  - cbn [t_push tindex tstack]. rewrite (t_idx _ _ _ _ I). cbn [length]. lia.
Qed.

(* the state after a root x has taken the segment S off the stack *)
Definition t_pop (t t3 : tarjan) (x : nat) (S st0 : list nat) : tarjan :=
  mkTj (tindex t3 - (1 + N.of_nat (length S)))%N (tcc t3 - 1)%N (upd (tnodes t3) x (Some (tcc t))) st0.

Section Pop.
Variables (t2 t3 : tarjan) (O : list nat) (out2 : list (list nat)) (x : nat) (S st0 : list nat).
Hypothesis I2 : TInv v t2 (x :: O) out2.
Hypothesis Est : tstack t2 = S ++ st0.
Hypothesis Hi3 : tindex t3 = tindex t2.
Hypothesis Hc3 : tcc t3 = tcc t2.
Hypothesis Hl3 : length (tnodes t3) = length (tnodes t2).
Hypothesis Hn3 : forall n, nth_error (tnodes t3) n = if mem n S then Some (Some (tcc t2)) else nth_error (tnodes t2) n.

Let out' := out2 ++ [(rev S ++ []) ++ [x]].
Let t' := t_pop t2 t3 x S st0.

Lemma pop_concat : concat out' = concat out2 ++ rev S ++ [x].
Proof. unfold out'. rewrite concat_app. cbn [concat]. rewrite !app_nil_r. reflexivity. Qed.

Lemma tvis_pop n : In n (tvis t' O out') <-> In n (tvis t2 (x :: O) out2).
Proof.
  unfold tvis. cbn [t' t_pop tstack]. rewrite pop_concat, Est. rewrite !in_app_iff. cbn [In].
  rewrite <- in_rev. tauto.
Qed.

Lemma pop_x_in : In x (tvis t2 (x :: O) out2).
Proof. apply in_tvis; right; left; left; reflexivity. Qed.

Lemma pop_xl3 : x < length (tnodes t3).
Proof. rewrite Hl3. apply (tinv_lt_len t2 (x :: O) out2 x I2 pop_x_in). Qed.

Lemma pop_cc : (1 <= tcc t2)%N.
Proof.
  destruct (tinv_out_small v Hsmall t2 (x :: O) out2 I2) as [Ho1 Ho2].
  rewrite (t_cc _ _ _ _ I2). lia.
Qed.

(* the entries after the pop *)
Lemma pop_entry n : nth_error (tnodes t') n =
  if Nat.eqb x n then Some (Some (tcc t2)) else
  if mem n S then Some (Some (tcc t2)) else nth_error (tnodes t2) n.
Proof.
  cbn [t' t_pop tnodes]. rewrite (nth_error_upd_at (tnodes t3) x _ n pop_xl3).
  destruct (Nat.eqb x n); [reflexivity | apply Hn3].
Qed.

Lemma tinv_pop : TInv v t' O out'.
Proof.
  pose proof pop_x_in as Hx2. pose proof pop_xl3 as Hxl3. pose proof pop_cc as Hcc.
  assert (Hlen' : length (tvis t' O out') = length (tvis t2 (x :: O) out2)).
  { unfold tvis. cbn [t' t_pop tstack]. rewrite pop_concat, Est. rewrite !app_length. cbn [length].
    rewrite rev_length. lia. }
  assert (Hpop_in : forall n, In n S -> In n (tstack t2)).
  { intros n Hn. rewrite Est. apply in_or_app; left; exact Hn. }
  destruct (tinv_out_small v Hsmall t2 (x :: O) out2 I2) as [Ho1 Ho2].
  constructor.
  - cbn [t' t_pop tnodes]. rewrite upd_length, Hl3. apply (t_len _ _ _ _ I2).
  - intros n Hb. rewrite tvis_pop. rewrite pop_entry.
    destruct (Nat.eqb_spec x n) as [<-|Hne].
    + split; [intros H; discriminate H | intros H; exfalso; exact (H Hx2)].
    + destruct (mem n S) eqn:Em.
      * split; [intros H; discriminate H|]. intros H. exfalso. apply H.
        apply in_tvis; left. apply Hpop_in. apply mem_In; exact Em.
      * apply (t_vis _ _ _ _ I2 n Hb).
  - apply (NoDup_incl_NoDup (t_nd _ _ _ _ I2)); [lia|]. intros n Hn. apply tvis_pop; exact Hn.
  - intros n Hn. apply (t_in _ _ _ _ I2). apply tvis_pop; exact Hn.
  - intros n k. rewrite pop_entry.
    destruct (Nat.eqb x n); [intros H; injection H as <-; exact Hcc|].
    destruct (mem n S); [intros H; injection H as <-; exact Hcc | apply (t_pos _ _ _ _ I2)].
  - cbn [t' t_pop tindex tstack]. rewrite Hi3, (t_idx _ _ _ _ I2), Est, app_length. cbn [length]. lia.
  - cbn [t' t_pop tcc]. rewrite Hc3, (t_cc _ _ _ _ I2). unfold out'. rewrite app_length. cbn [length]. lia.
  - unfold out'. apply Forall_app. split; [apply (t_ne _ _ _ _ I2)|]. constructor; [|constructor].
    intros H. apply app_eq_nil in H. destruct H as [_ H]. discriminate H.
Qed.

(* ---- the other invariants across the pop ---- *)
Variables (i0 : N).
Hypothesis J2 : SInv t2 (x :: O) out2.
Hypothesis L2 : LInv t2 O out2 x i0 st0 S [] true.
Hypothesis Nx : In x (vnodes v).
Hypothesis Hi0 : i0 = N.of_nat (1 + length st0 + length O).
Hypothesis Hwit0 : forall u, In u st0 -> exists g, In g O /\ reachable v u g /\ (eN t2 g <= eN t2 u)%N.

Lemma pop_eN_same n : n <> x -> ~ In n S -> eN t' n = eN t2 n.
Proof.
  intros Hne HnS. unfold eN. apply entN_ext. rewrite pop_entry.
  destruct (Nat.eqb_spec x n) as [E|_]; [exfalso; apply Hne; symmetry; exact E|].
  destruct (mem n S) eqn:Em; [apply mem_In in Em; contradiction | reflexivity].
Qed.

Lemma pop_eN_comp n : n = x \/ In n S -> eN t' n = tcc t2.
Proof.
  intros H. unfold eN. apply entN_of. rewrite pop_entry.
  destruct (Nat.eqb_spec x n) as [E|Hne]; [reflexivity|].
  destruct H as [H|H]; [exfalso; apply Hne; symmetry; exact H|].
  apply mem_In in H. rewrite H. reflexivity.
Qed.

Lemma pop_parts :
  NoDup (S ++ st0) /\ ~ In x (S ++ st0) /\ ~ In x O /\ ~ In x (concat out2) /\
  (forall n, In n (S ++ st0) -> In n O -> False) /\
  (forall n, In n (S ++ st0) -> In n (concat out2) -> False) /\
  (forall n, In n O -> In n (concat out2) -> False).
Proof.
  destruct (tvis_parts t2 (x :: O) out2 (t_nd _ _ _ _ I2)) as [H1 [H2 [H3 [H4 H5]]]].
  rewrite Est in H1, H3, H4. apply NoDup_cons_iff in H2. destruct H2 as [HxO HO].
  split; [exact H1|]. split; [intros H; apply (H3 x H); left; reflexivity|]. split; [exact HxO|].
  split; [intros H; apply (H5 x (or_introl eq_refl) H)|].
  split; [intros n Ha Hb; apply (H3 n Ha); right; exact Hb|].
  split; [exact H4 | intros n Ha Hb; apply (H5 n (or_intror Ha) Hb)].
Qed.

Lemma pop_root_eq : eN t2 x = i0.
Proof. destruct (l_root _ _ _ _ _ _ _ _ _ L2) as [[_ H]|[H _]]; [exact H | discriminate H]. Qed.

(* nothing of x :: S points to an older live node *)
Lemma pop_edges u y : In u (x :: S) -> step v u y -> In y (x :: S) \/ In y (concat out2).
Proof.
  intros Hu Hs.
  assert (Hy : In y (tvis t2 (x :: O) out2) /\ (In y (st0 ++ O) -> (eN t2 x <= eN t2 y)%N)).
  { destruct Hu as [<-|Hu].
    - destruct (l_xedge _ _ _ _ _ _ _ _ _ L2 y Hs) as [[]|H]. exact H.
    - split.
      + apply (s_nbw _ _ _ J2 u y); [rewrite Est; apply in_or_app; left; exact Hu | exact Hs].
      + intros Hy. apply (l_edge _ _ _ _ _ _ _ _ _ L2 u y Hu Hs Hy). }
  destruct Hy as [Hy Hle].
  assert (Hno : ~ In y (st0 ++ O)).
  { intros H. pose proof (Hle H) as H1. pose proof (l_old _ _ _ _ _ _ _ _ _ L2 y H) as H2.
    rewrite pop_root_eq in H1. lia. }
  apply in_tvis in Hy. rewrite Est in Hy. destruct Hy as [Hy|[[<-|Hy]|Hy]].
  - apply in_app_or in Hy. destruct Hy as [Hy|Hy]; [left; right; exact Hy|].
    exfalso. apply Hno. apply in_or_app; left; exact Hy.
  - left; left; reflexivity.
  - exfalso. apply Hno. apply in_or_app; right; exact Hy.
  - right; exact Hy.
Qed.

Lemma pop_back u : In u S -> reachable v u x.
Proof.
  intros Hu.
  destruct (s_wit _ _ _ J2 u) as [g [[<-|Hg] [R _]]]; [rewrite Est; apply in_or_app; left; exact Hu | exact R |].
  apply (reachable_trans _ _ _ _ R). apply (proj1 (s_chain _ _ _ J2) g Hg).
Qed.

Lemma pop_comp_in z : In z ((rev S ++ []) ++ [x]) <-> z = x \/ In z S.
Proof. rewrite app_nil_r, in_app_iff, <- in_rev. cbn [In]. split; [intros [H|[H|[]]]; auto | intros [H|H]; auto]. Qed.

Lemma sinv_pop : SInv t' O out'.
Proof.
  destruct pop_parts as [P1 [P2 [P3 [P4 [P5 [P6 P7]]]]]].
  assert (HS_out : forall n, In n S -> ~ In n (concat out2)).
  { intros n Hn H. apply (P6 n); [apply in_or_app; left; exact Hn | exact H]. }
  constructor.
  - unfold out'. apply Forall_app. split; [apply (s_scc _ _ _ J2)|]. constructor; [|constructor].
    rewrite app_nil_r.
    apply (root_scc v x S (concat out2) Nx (l_reach _ _ _ _ _ _ _ _ _ L2) pop_back
             (s_closed _ _ _ J2) P4 pop_edges).
  - unfold out'. apply nlr_snoc; [apply (s_ord _ _ _ J2) | apply (s_closed _ _ _ J2)|].
    intros y Hy. apply pop_comp_in in Hy. destruct Hy as [->|Hy]; [exact P4 | apply HS_out; exact Hy].
  - intros u y Hu Hs. rewrite pop_concat in *. apply in_app_or in Hu. destruct Hu as [Hu|Hu].
    + apply in_or_app; left. apply (s_closed _ _ _ J2 u y Hu Hs).
    + assert (Hu' : In u (x :: S)).
      { apply in_app_or in Hu. destruct Hu as [Hu|[<-|[]]]; [right; apply in_rev; exact Hu | left; reflexivity]. }
      destruct (pop_edges u y Hu' Hs) as [[<-|H]|H].
      * apply in_or_app; right. apply in_or_app; right. left; reflexivity.
      * apply in_or_app; right. apply in_or_app; left. apply in_rev in H. exact H.
      * apply in_or_app; left; exact H.
  - intros u y Hu Hs. cbn [t' t_pop tstack] in Hu. apply tvis_pop.
    apply (s_nbw _ _ _ J2 u y); [rewrite Est; apply in_or_app; right; exact Hu | exact Hs].
  - intros u Hu. cbn [t' t_pop tstack] in Hu.
    assert (Hux : u <> x).
    { intros ->. apply in_app_or in Hu. destruct Hu as [Hu|Hu]; [apply P2; apply in_or_app; right; exact Hu | exact (P3 Hu)]. }
    assert (HuS : ~ In u S).
    { intros H. apply in_app_or in Hu. destruct Hu as [Hu|Hu].
      - apply (nodup_app_disj S st0 u P1 H Hu).
      - apply (P5 u); [apply in_or_app; left; exact H | exact Hu]. }
    rewrite (pop_eN_same u Hux HuS).
    pose proof (l_old _ _ _ _ _ _ _ _ _ L2 u Hu) as Hlt.
    pose proof (t_idx _ _ _ _ tinv_pop) as Hi. cbn [t' t_pop tstack] in Hi. fold t' in Hi.
    rewrite Hi, <- Hi0. exact Hlt.
  - intros i c z Ei Hz. unfold out' in Ei.
    destruct (Nat.lt_ge_cases i (length out2)) as [Hi|Hi].
    + rewrite nth_error_app1 in Ei by lia.
      assert (Hzo : In z (concat out2)).
      { apply in_concat. exists c. split; [apply (nth_error_In _ _ Ei) | exact Hz]. }
      rewrite pop_eN_same; [apply (s_idx _ _ _ J2 i c z Ei Hz) | intros ->; exact (P4 Hzo) | intros H; exact (HS_out z H Hzo)].
    + rewrite nth_error_app2 in Ei by lia.
      destruct (i - length out2) as [|k] eqn:Ek; [|destruct k; discriminate Ei].
      cbn [nth_error] in Ei. injection Ei as <-. apply pop_comp_in in Hz.
      rewrite (pop_eN_comp z Hz), (t_cc _ _ _ _ I2). replace i with (length out2) by lia. reflexivity.
  - apply (proj2 (s_chain _ _ _ J2)).
  - intros u Hu. cbn [t' t_pop tstack] in Hu. destruct (Hwit0 u Hu) as [g [Hg [R Hle]]].
    exists g. split; [exact Hg|]. split; [exact R|].
    rewrite (pop_eN_same g), (pop_eN_same u); [exact Hle | | | |].
    + intros ->. apply P2. apply in_or_app; right; exact Hu.
    + intros H. apply (nodup_app_disj S st0 u P1 H Hu).
    + intros ->. exact (P3 Hg).
    + intros H. apply (P5 g); [apply in_or_app; left; exact H | exact Hg].
Qed.

End Pop.

(* ------------------------------------------------------------------ *)
(* Opening a node                                                      *)

Lemma eN_open t x n : x < length (tnodes t) ->
  eN (t_open t x) n = if Nat.eqb x n then tindex t else eN t n.
Proof. intros H. unfold eN. cbn [t_open tnodes]. apply entN_upd; exact H. Qed.

Lemma eN_setx t x k n : x < length (tnodes t) ->
  eN (t_setx t x k) n = if Nat.eqb x n then k else eN t n.
Proof. intros H. unfold eN. cbn [t_setx tnodes]. apply entN_upd; exact H. Qed.

Section Open.
Variables (t : tarjan) (O : list nat) (out : list (list nat)) (x : nat).
Hypothesis I : TInv v t O out.
Hypothesis J : SInv t O out.
Hypothesis Nx : In x (vnodes v).
Hypothesis Ex : nth_error (tnodes t) x = Some None.
Hypothesis Hreach : forall g, In g O -> reachable v g x.

Lemma open_xl : x < length (tnodes t).
Proof. rewrite (t_len _ _ _ _ I). apply Hbound; exact Nx. Qed.

Lemma open_fresh : ~ In x (tvis t O out).
Proof. apply (t_vis _ _ _ _ I x (Hbound x Nx)); exact Ex. Qed.

Lemma open_eN_old n : In n (tvis t O out) -> eN (t_open t x) n = eN t n.
Proof.
  intros Hn. rewrite (eN_open t x n open_xl).
  destruct (Nat.eqb_spec x n) as [<-|_]; [exfalso; exact (open_fresh Hn) | reflexivity].
Qed.

Lemma open_eN_x : eN (t_open t x) x = tindex t.
Proof. rewrite (eN_open t x x open_xl), Nat.eqb_refl. reflexivity. Qed.

Lemma sinv_open : SInv (t_open t x) (x :: O) out.
Proof.
  constructor.
  - apply (s_scc _ _ _ J).
  - apply (s_ord _ _ _ J).
  - apply (s_closed _ _ _ J).
  - intros u y Hu Hs. cbn [t_open tstack] in Hu. apply tvis_open. right. apply (s_nbw _ _ _ J u y Hu Hs).
  - intros u Hu. cbn [t_open tstack tindex] in *.
    apply in_app_or in Hu. destruct Hu as [Hu|[<-|Hu]].
    + rewrite open_eN_old by (apply in_tvis; left; exact Hu).
      pose proof (s_lt _ _ _ J u (in_or_app _ _ _ (or_introl Hu))). lia.
    + rewrite open_eN_x. lia.
    + rewrite open_eN_old by (apply in_tvis; right; left; exact Hu).
      pose proof (s_lt _ _ _ J u (in_or_app _ _ _ (or_intror Hu))). lia.
  - intros i c z Ei Hz. rewrite open_eN_old; [apply (s_idx _ _ _ J i c z Ei Hz)|].
    apply in_tvis; right; right. apply in_concat. exists c. split; [apply (nth_error_In _ _ Ei) | exact Hz].
  - cbn [chain]. split; [exact Hreach | apply (s_chain _ _ _ J)].
  - intros u Hu. cbn [t_open tstack] in Hu. destruct (s_wit _ _ _ J u Hu) as [g [Hg [R Hle]]].
    exists g. split; [right; exact Hg|]. split; [exact R|].
    rewrite !open_eN_old; [exact Hle | apply in_tvis; left; exact Hu | apply in_tvis; right; left; exact Hg].
Qed.

Lemma linv_open : LInv (t_open t x) O out x (tindex t) (tstack t) [] (neighbors v x) true.
Proof.
  constructor.
  - reflexivity.
  - intros n Hn. rewrite open_eN_old.
    + apply (s_lt _ _ _ J n Hn).
    + apply in_tvis. apply in_app_or in Hn. tauto.
  - intros u [].
  - left. split; [reflexivity | apply open_eN_x].
  - intros u y [].
  - intros y Hy. left; exact Hy.
  - intros u [].
Qed.

End Open.

(* ------------------------------------------------------------------ *)
(* Lowering the entry of the open node                                 *)

Section SetX.
Variables (t : tarjan) (O : list nat) (out : list (list nat)) (x : nat) (k : N).
Hypothesis I : TInv v t (x :: O) out.
Hypothesis J : SInv t (x :: O) out.
Hypothesis Hk : (k <= eN t x)%N.

Lemma setx_xin : In x (tvis t (x :: O) out).
Proof. apply in_tvis; right; left; left; reflexivity. Qed.

Lemma setx_xl : x < length (tnodes t).
Proof. apply (tinv_lt_len t (x :: O) out x I setx_xin). Qed.

Lemma setx_eN_x : eN (t_setx t x k) x = k.
Proof. rewrite (eN_setx t x k x setx_xl), Nat.eqb_refl. reflexivity. Qed.

Lemma setx_eN_other n : n <> x -> eN (t_setx t x k) n = eN t n.
Proof.
  intros Hn. rewrite (eN_setx t x k n setx_xl).
  destruct (Nat.eqb_spec x n) as [E|_]; [exfalso; apply Hn; symmetry; exact E | reflexivity].
Qed.

Lemma setx_eN_le n : (eN (t_setx t x k) n <= eN t n)%N.
Proof.
  destruct (Nat.eq_dec n x) as [->|Hn]; [rewrite setx_eN_x; exact Hk | rewrite (setx_eN_other n Hn); lia].
Qed.

Lemma setx_parts :
  ~ In x (tstack t) /\ ~ In x O /\ ~ In x (concat out).
Proof.
  destruct (tvis_parts t (x :: O) out (t_nd _ _ _ _ I)) as [H1 [H2 [H3 [H4 H5]]]].
  inversion H2 as [|x' O' HxO HO]; subst.
  split; [intros H; apply (H3 x H); left; reflexivity|]. split; [exact HxO|].
  intros H; apply (H5 x (or_introl eq_refl) H).
Qed.

Lemma sinv_setx : SInv (t_setx t x k) (x :: O) out.
Proof.
  destruct setx_parts as [P1 [P2 P3]].
  constructor.
  - apply (s_scc _ _ _ J).
  - apply (s_ord _ _ _ J).
  - apply (s_closed _ _ _ J).
  - intros u y Hu Hs. cbn [t_setx tstack] in Hu. apply (s_nbw _ _ _ J u y Hu Hs).
  - intros u Hu. cbn [t_setx tstack tindex] in *. pose proof (s_lt _ _ _ J u Hu). pose proof (setx_eN_le u). lia.
  - intros i c z Ei Hz. rewrite setx_eN_other; [apply (s_idx _ _ _ J i c z Ei Hz)|].
    intros ->. apply P3. apply in_concat. exists c. split; [apply (nth_error_In _ _ Ei) | exact Hz].
  - apply (s_chain _ _ _ J).
  - intros u Hu. cbn [t_setx tstack] in Hu. destruct (s_wit _ _ _ J u Hu) as [g [Hg [R Hle]]].
    exists g. split; [exact Hg|]. split; [exact R|].
    rewrite (setx_eN_other u) by (intros ->; exact (P1 Hu)). pose proof (setx_eN_le g). lia.
Qed.

End SetX.

(* ------------------------------------------------------------------ *)
(* Pushing a node that is not a root                                   *)

Section Push.
Variables (t : tarjan) (O : list nat) (out : list (list nat)) (x : nat) (i0 : N) (st0 S : list nat).
Hypothesis I : TInv v t (x :: O) out.
Hypothesis J : SInv t (x :: O) out.
Hypothesis L : LInv t O out x i0 st0 S [] false.

Lemma push_wit : exists g, In g O /\ reachable v x g /\ (eN t g <= eN t x)%N.
Proof. destruct (l_root _ _ _ _ _ _ _ _ _ L) as [[H _]|[_ [_ H]]]; [discriminate H | exact H]. Qed.

Lemma sinv_push : SInv (t_push t x) O out.
Proof.
  constructor.
  - apply (s_scc _ _ _ J).
  - apply (s_ord _ _ _ J).
  - apply (s_closed _ _ _ J).
  - intros u y Hu Hs. cbn [t_push tstack] in Hu. apply tvis_push. destruct Hu as [<-|Hu].
    + destruct (l_xedge _ _ _ _ _ _ _ _ _ L y Hs) as [[]|[H _]]. exact H.
    + apply (s_nbw _ _ _ J u y Hu Hs).
  - intros u Hu. cbn [t_push tstack] in Hu. change (tindex (t_push t x)) with (tindex t).
    change (eN (t_push t x) u) with (eN t u). apply (s_lt _ _ _ J u).
    cbn [app In] in Hu. rewrite in_app_iff in *. cbn [In]. tauto.
  - intros i c z Ei Hz. change (eN (t_push t x) z) with (eN t z). apply (s_idx _ _ _ J i c z Ei Hz).
  - apply (proj2 (s_chain _ _ _ J)).
  - intros u Hu. cbn [t_push tstack] in Hu. destruct push_wit as [g0 [Hg0 [R0 Hle0]]].
    change (eN (t_push t x) u) with (eN t u).
    destruct Hu as [<-|Hu].
    + exists g0. split; [exact Hg0|]. split; [exact R0 | exact Hle0].
    + destruct (s_wit _ _ _ J u Hu) as [g [[<-|Hg] [R Hle]]].
      * exists g0. split; [exact Hg0|]. split; [apply (reachable_trans _ _ _ _ R R0)|].
        change (eN (t_push t x) g0) with (eN t g0). lia.
      * exists g. split; [exact Hg|]. split; [exact R | exact Hle].
Qed.

End Push.

(* ------------------------------------------------------------------ *)
(* visit and the loop over the neighbours, by induction on the fuel    *)

Definition visit_ex_at (fuel : nat) : Prop :=
  forall t O x out, TInv v t O out -> SInv t O out -> In x (vnodes v) ->
    nth_error (tnodes t) x = Some None ->
    (forall g, In g O -> reachable v g x) ->
    pot v (tvis t O out) < fuel ->
    exists t' out' S', tj_visit fuel v debug t x out = Ok (t', out') /\
      TInv v t' O out' /\ SInv t' O out' /\
      In x (tvis t' O out') /\
      (forall n, In n (tstack t ++ O) -> nth_error (tnodes t') n = nth_error (tnodes t) n) /\
      pot v (tvis t' O out') <= pot v (tvis t O out) /\
      (forall n, In n (tvis t O out) -> In n (tvis t' O out')) /\
      tstack t' = S' ++ tstack t /\
      (forall u, In u S' -> reachable v x u) /\
      (forall u, In u S' -> (eN t' x <= eN t' u)%N) /\
      (forall u y, In u S' -> step v u y -> In y (tstack t ++ O) -> (eN t' x <= eN t' y)%N).

Definition nbrs_ex_at (fuel : nat) : Prop :=
  forall t O x ws r out i0 st0 S0, TInv v t (x :: O) out -> SInv t (x :: O) out ->
    LInv t O out x i0 st0 S0 ws r ->
    (forall w, In w ws -> In w (vnodes v)) -> (forall w, In w ws -> step v x w) ->
    length ws + pot v (tvis t (x :: O) out) < fuel ->
    exists t' r' out' S', tj_neighbors fuel v debug t x ws r out = Ok (t', r', out') /\
      TInv v t' (x :: O) out' /\ SInv t' (x :: O) out' /\ LInv t' O out' x i0 st0 S' [] r' /\
      (forall n, In n (st0 ++ O) -> nth_error (tnodes t') n = nth_error (tnodes t) n) /\
      pot v (tvis t' (x :: O) out') <= pot v (tvis t (x :: O) out) /\
      (forall n, In n (tvis t (x :: O) out) -> In n (tvis t' (x :: O) out')).

Lemma nbrs_ex_step f : visit_ex_at f -> nbrs_ex_at f -> nbrs_ex_at (S f).
Proof.
  intros HV HN t O x ws r out i0 st0 S0 I J L Hws Hst Hf. destruct ws as [|w rest].
  - exists t, r, out, S0. split; [reflexivity|]. split; [exact I|]. split; [exact J|]. split; [exact L|].
    split; [auto|]. split; [lia|auto].
  - rewrite tj_neighbors_eq. cbn [length] in Hf.
    assert (Nw : In w (vnodes v)) by (apply Hws; left; reflexivity).
    assert (Sw : step v x w) by (apply Hst; left; reflexivity).
    assert (Hrest : forall w', In w' rest -> In w' (vnodes v)) by (intros w' Hw'; apply Hws; right; exact Hw').
    assert (Hrest_st : forall w', In w' rest -> step v x w') by (intros w' Hw'; apply Hst; right; exact Hw').
    assert (Hwl : w < length (tnodes t)) by (rewrite (t_len _ _ _ _ I); apply Hbound; exact Nw).
    destruct (nth_error_lt_Some (tnodes t) Hwl) as [rw Erw].
    rewrite (tj_get_ok t w rw Erw). cbn [rbind].
    pose proof (l_stack _ _ _ _ _ _ _ _ _ L) as Est.
    destruct (setx_parts t O out x I) as [Px1 [Px2 Px3]].
    assert (Hsub : forall n, In n (st0 ++ O) -> In n (tstack t ++ x :: O)).
    { intros n Hn. rewrite Est. rewrite !in_app_iff in *. cbn [In]. tauto. }
    assert (Hnx : forall n, In n (st0 ++ O) -> n <> x).
    { intros n Hn ->. apply in_app_or in Hn. destruct Hn as [Hn|Hn]; [|exact (Px2 Hn)].
      apply Px1. rewrite Est. apply in_or_app; right; exact Hn. }
    (* the state after w has been dealt with *)
    assert (Hmid : exists t1 out1 S1,
              (match rw with None => tj_visit f v debug t w out | Some _ => Ok (t, out) end) = Ok (t1, out1) /\
              TInv v t1 (x :: O) out1 /\ SInv t1 (x :: O) out1 /\ In w (tvis t1 (x :: O) out1) /\
              (forall n, In n (tstack t ++ x :: O) -> nth_error (tnodes t1) n = nth_error (tnodes t) n) /\
              pot v (tvis t1 (x :: O) out1) <= pot v (tvis t (x :: O) out) /\
              (forall n, In n (tvis t (x :: O) out) -> In n (tvis t1 (x :: O) out1)) /\
              tstack t1 = S1 ++ tstack t /\
              (forall u, In u S1 -> reachable v w u) /\
              (forall u, In u S1 -> (eN t1 w <= eN t1 u)%N) /\
              (forall u y, In u S1 -> step v u y -> In y (tstack t ++ x :: O) -> (eN t1 w <= eN t1 y)%N)).
    { destruct rw as [k|].
      - exists t, out, []. split; [reflexivity|]. split; [exact I|]. split; [exact J|].
        split; [|split; [auto|split; [lia|split; [auto|split; [reflexivity|]]]]].
        + destruct (in_dec Nat.eq_dec w (tvis t (x :: O) out)) as [Hin|Hout]; [exact Hin|]. exfalso.
          apply (t_vis _ _ _ _ I w (Hbound w Nw)) in Hout. congruence.
        + split; [intros u []|]. split; [intros u [] | intros u y []].
      - destruct (HV t (x :: O) w out I J Nw Erw)
          as [t1 [out1 [S1 [E [I1 [J1 [Hin [Hfr [Hp [Hm [Es [Hr [Hge Hed]]]]]]]]]]]]].
        + intros g [<-|Hg]; [apply reachable_step1; exact Sw|].
          eapply reach_step; [apply (proj1 (s_chain _ _ _ J) g Hg) | exact Sw].
        + lia.
        + exists t1, out1, S1. split; [exact E|]. split; [exact I1|]. split; [exact J1|]. split; [exact Hin|].
          split; [exact Hfr|]. split; [exact Hp|]. split; [exact Hm|]. split; [exact Es|].
          split; [exact Hr|]. split; [exact Hge | exact Hed]. }
    destruct Hmid as [t1 [out1 [S1 [E1 [I1 [J1 [Hw1 [Hfr1 [Hp1 [Hm1 [Es [Hr1 [Hge1 Hed1]]]]]]]]]]]]].
    rewrite E1. cbn [rbind].
    assert (Hfe : forall n, In n (tstack t ++ x :: O) -> eN t1 n = eN t n).
    { intros n Hn. unfold eN. apply entN_ext. apply Hfr1; exact Hn. }
    assert (Hxin : In x (tstack t ++ x :: O)) by (apply in_or_app; right; left; reflexivity).
    assert (Hx1 : In x (tvis t1 (x :: O) out1)) by (apply in_tvis; right; left; left; reflexivity).
    destruct (tinv_eN t1 (x :: O) out1 w I1 Hw1) as [Ek1 Hk1].
    destruct (tinv_eN t1 (x :: O) out1 x I1 Hx1) as [Ekx Hkx].
    rewrite (tj_get_ok t1 w _ Ek1). cbn [rbind]. rewrite (tj_get_ok t1 x _ Ekx). cbn [rbind opt_lt].
    assert (Hxl : x < length (tnodes t1)) by (apply (tinv_lt_len t1 (x :: O) out1 x I1 Hx1)).
    destruct (setx_parts t1 O out1 x I1) as [Q1 [Q2 Q3]].
    assert (Est1 : tstack t1 = (S1 ++ S0) ++ st0) by (rewrite Es, Est, app_assoc; reflexivity).
    assert (HS0 : forall u, In u S0 -> In u (tstack t ++ x :: O)).
    { intros u Hu. rewrite Est. apply in_or_app; left. apply in_or_app; left; exact Hu. }
    assert (Hreach' : forall u, In u (S1 ++ S0) -> reachable v x u).
    { intros u Hu. apply in_app_or in Hu. destruct Hu as [Hu|Hu].
      - apply (reachable_left _ _ _ _ Sw (Hr1 u Hu)).
      - apply (l_reach _ _ _ _ _ _ _ _ _ L u Hu). }
    pose proof (Hfe x Hxin) as Hxe.
    destruct (N.ltb_spec (eN t1 w) (eN t1 x)) as [Hlt|Hnlt].
    + (* the entry of x is lowered to that of w *)
      rewrite (tj_set_ok t1 x (Some (eN t1 w)) Hxl). cbn [rbind].
      change (mkTj (tindex t1) (tcc t1) (upd (tnodes t1) x (Some (eN t1 w))) (tstack t1))
        with (t_setx t1 x (eN t1 w)).
      set (t2 := t_setx t1 x (eN t1 w)).
      assert (I2 : TInv v t2 (x :: O) out1) by (apply tinv_setx; assumption).
      assert (J2 : SInv t2 (x :: O) out1) by (apply sinv_setx; [assumption | assumption | lia]).
      assert (Ex2 : eN t2 x = eN t1 w) by (apply (setx_eN_x t1 O out1 x (eN t1 w) I1)).
      assert (Eo2 : forall n, n <> x -> eN t2 n = eN t1 n)
        by (intros n Hn; apply (setx_eN_other t1 O out1 x (eN t1 w) I1 n Hn)).
      assert (Hxle : (eN t x <= i0)%N).
      { destruct (l_root _ _ _ _ _ _ _ _ _ L) as [[_ H]|[_ [H _]]]; lia. }
      assert (L2 : LInv t2 O out1 x i0 st0 (S1 ++ S0) rest false).
      { constructor.
        - exact Est1.
        - intros n Hn. rewrite (Eo2 n (Hnx n Hn)), (Hfe n (Hsub n Hn)). apply (l_old _ _ _ _ _ _ _ _ _ L n Hn).
        - intros u Hu. rewrite Ex2.
          assert (Hux : u <> x).
          { intros ->. apply Q1. rewrite Est1. apply in_or_app; left; exact Hu. }
          rewrite (Eo2 u Hux). apply in_app_or in Hu. destruct Hu as [Hu|Hu]; [apply Hge1; exact Hu|].
          pose proof (l_ge _ _ _ _ _ _ _ _ _ L u Hu) as H. rewrite (Hfe u (HS0 u Hu)).
          lia.
        - right. split; [reflexivity|]. rewrite Ex2. split; [lia|].
          apply in_tvis in Hw1. destruct Hw1 as [Hw|[[Hw|Hw]|Hw]].
          + destruct (s_wit _ _ _ J1 w Hw) as [g [[<-|Hg] [R Hle]]].
            * lia.
            * exists g. split; [exact Hg|]. split; [apply (reachable_left _ _ _ _ Sw R)|].
              rewrite (Eo2 g); [exact Hle | intros ->; exact (Q2 Hg)].
          + subst w. lia.
          + exists w. split; [exact Hw|]. split; [apply reachable_step1; exact Sw|].
            rewrite (Eo2 w); [lia | intros ->; exact (Q2 Hw)].
          + exfalso. assert (H' : (eN t1 x < eN t1 w)%N); [|lia].
            apply (out_gt t1 (x :: O) out1 x w I1 J1); [apply in_or_app; right; left; reflexivity | exact Hw].
        - intros u y Hu Hs Hy. rewrite Ex2, (Eo2 y (Hnx y Hy)).
          apply in_app_or in Hu. destruct Hu as [Hu|Hu]; [apply (Hed1 u y Hu Hs (Hsub y Hy))|].
          pose proof (l_edge _ _ _ _ _ _ _ _ _ L u y Hu Hs Hy) as H.
          rewrite (Hfe y (Hsub y Hy)). lia.
        - intros y Hs. destruct (l_xedge _ _ _ _ _ _ _ _ _ L y Hs) as [[<-|Hy]|[Hy Hle]].
          + right. split; [exact Hw1|]. intros Hy. rewrite Ex2, (Eo2 w (Hnx w Hy)). lia.
          + left; exact Hy.
          + right. split; [apply Hm1; exact Hy|]. intros Hy'. specialize (Hle Hy').
            rewrite Ex2, (Eo2 y (Hnx y Hy')), (Hfe y (Hsub y Hy')). lia.
        - exact Hreach'. }
      destruct (HN t2 O x rest false out1 i0 st0 (S1 ++ S0) I2 J2 L2 Hrest Hrest_st)
        as [t' [r' [out' [S' [E' [I' [J' [L' [Hfr' [Hp' Hm']]]]]]]]]].
      { change (tvis t2 (x :: O) out1) with (tvis t1 (x :: O) out1). lia. }
      exists t', r', out', S'. split; [exact E'|]. split; [exact I'|]. split; [exact J'|]. split; [exact L'|].
      split; [|split].
      * intros n Hn. rewrite (Hfr' n Hn). cbn [t2 t_setx tnodes].
        rewrite (nth_error_upd_at (tnodes t1) x _ n Hxl).
        destruct (Nat.eqb_spec x n) as [E|_]; [exfalso; apply (Hnx n Hn); symmetry; exact E|].
        apply Hfr1. apply Hsub; exact Hn.
      * change (tvis t2 (x :: O) out1) with (tvis t1 (x :: O) out1) in Hp'. lia.
      * intros n Hn. apply Hm'. change (tvis t2 (x :: O) out1) with (tvis t1 (x :: O) out1). apply Hm1; exact Hn.
    + (* the entry of x stays *)
      assert (L1 : LInv t1 O out1 x i0 st0 (S1 ++ S0) rest r).
      { constructor.
        - exact Est1.
        - intros n Hn. rewrite (Hfe n (Hsub n Hn)). apply (l_old _ _ _ _ _ _ _ _ _ L n Hn).
        - intros u Hu. apply in_app_or in Hu. destruct Hu as [Hu|Hu].
          + pose proof (Hge1 u Hu). lia.
          + rewrite (Hfe u (HS0 u Hu)), (Hfe x Hxin). apply (l_ge _ _ _ _ _ _ _ _ _ L u Hu).
        - destruct (l_root _ _ _ _ _ _ _ _ _ L) as [[Hr0 He]|[Hr0 [Hl [g [Hg [R Hle]]]]]].
          + left. split; [exact Hr0|]. rewrite (Hfe x Hxin). exact He.
          + right. split; [exact Hr0|]. rewrite (Hfe x Hxin). split; [exact Hl|].
            exists g. split; [exact Hg|]. split; [exact R|].
            rewrite (Hfe g); [exact Hle|]. apply in_or_app; right; right; exact Hg.
        - intros u y Hu Hs Hy. apply in_app_or in Hu. destruct Hu as [Hu|Hu].
          + pose proof (Hed1 u y Hu Hs (Hsub y Hy)). lia.
          + rewrite (Hfe y (Hsub y Hy)), (Hfe x Hxin). apply (l_edge _ _ _ _ _ _ _ _ _ L u y Hu Hs Hy).
        - intros y Hs. destruct (l_xedge _ _ _ _ _ _ _ _ _ L y Hs) as [[<-|Hy]|[Hy Hle]].
          + right. split; [exact Hw1|]. intros _. exact Hnlt.
          + left; exact Hy.
          + right. split; [apply Hm1; exact Hy|]. intros Hy'. specialize (Hle Hy').
            rewrite (Hfe y (Hsub y Hy')), (Hfe x Hxin). exact Hle.
        - exact Hreach'. }
      destruct (HN t1 O x rest r out1 i0 st0 (S1 ++ S0) I1 J1 L1 Hrest Hrest_st)
        as [t' [r' [out' [S' [E' [I' [J' [L' [Hfr' [Hp' Hm']]]]]]]]]]; [lia|].
      exists t', r', out', S'. split; [exact E'|]. split; [exact I'|]. split; [exact J'|]. split; [exact L'|].
      split; [|split].
      * intros n Hn. rewrite (Hfr' n Hn). apply Hfr1. apply Hsub; exact Hn.
      * lia.
      * intros n Hn. apply Hm', Hm1, Hn.
Qed.

Lemma visit_ex_step f : nbrs_ex_at f -> visit_ex_at (S f).
Proof.
  intros HN t O x out I J Nx Ex Hreach Hf. rewrite tj_visit_eq.
  rewrite (tj_get_ok t x None Ex). cbn [rbind]. rewrite andb_false_r.
  pose proof (open_xl t O out x I Nx) as Hxl.
  pose proof (open_fresh t O out x I Nx Ex) as Hxv.
  rewrite (tj_set_ok t x (Some (tindex t)) Hxl). cbn [rbind tcc tnodes tstack].
  change (mkTj (N.succ (tindex t)) (tcc t) (upd (tnodes t) x (Some (tindex t))) (tstack t))
    with (t_open t x).
  destruct (tinv_open t O out x I Nx Ex) as [I1 Hpot1].
  pose proof (sinv_open t O out x I J Nx Ex Hreach) as J1.
  pose proof (linv_open t O out x I J Nx Ex) as L1.
  assert (Hnb : forall w, In w (neighbors v x) -> In w (vnodes v)).
  { intros w Hw. destruct Hv as [_ [Hn _]]. apply (Hn x w Hw). }
  destruct (HN (t_open t x) O x (neighbors v x) true out (tindex t) (tstack t) [] I1 J1 L1 Hnb (fun w H => H))
    as [t2 [r2 [out2 [S [E2 [I2 [J2 [L2 [Hfr2 [Hp2 Hm2]]]]]]]]]].
  { unfold outdeg in Hpot1. lia. }
  rewrite E2. cbn [rbind].
  pose proof (l_stack _ _ _ _ _ _ _ _ _ L2) as Est.
  assert (Hx2 : In x (tvis t2 (x :: O) out2)) by (apply in_tvis; right; left; left; reflexivity).
  assert (Hfr1 : forall n, In n (tstack t ++ O) -> nth_error (tnodes (t_open t x)) n = nth_error (tnodes t) n).
  { intros n Hn. cbn [t_open tnodes]. rewrite (nth_error_upd_at (tnodes t) x _ n Hxl).
    destruct (Nat.eqb_spec x n) as [<-|_]; [|reflexivity].
    exfalso. apply Hxv. apply in_tvis. apply in_app_or in Hn. tauto. }
  assert (Hfr : forall n, In n (tstack t ++ O) -> nth_error (tnodes t2) n = nth_error (tnodes t) n).
  { intros n Hn. rewrite (Hfr2 n Hn). apply Hfr1; exact Hn. }
  destruct r2.
  - (* x is the root of a component *)
    destruct (tinv_eN t2 (x :: O) out2 x I2 Hx2) as [Ekx Hkx].
    rewrite (tj_get_ok t2 x _ Ekx). cbn [rbind].
    assert (Hroot : eN t2 x = tindex t) by (apply (pop_root_eq t2 O out2 x S (tstack t) (tindex t) L2)).
    destruct (tvis_parts t2 (x :: O) out2 (t_nd _ _ _ _ I2)) as [Nd2 _].
    rewrite Est in Nd2 |- *.
    destruct (pop_exact S t2 (Some (eN t2 x)) (Some (tcc t2)) 1%N [] (tstack t) Nd2)
      as [t3 [E3 [Hi3 [Hc3 [Hl3 Hn3]]]]].
    { intros w Hw. exists (Some (eN t2 w)). split.
      - apply (tinv_eN t2 (x :: O) out2 w I2). apply in_tvis; left. rewrite Est. apply in_or_app; left; exact Hw.
      - cbn [opt_lt]. apply N.ltb_ge. apply (l_ge _ _ _ _ _ _ _ _ _ L2 w Hw). }
    { intros w Hw. exists (Some (eN t2 w)). split.
      - apply (tinv_eN t2 (x :: O) out2 w I2). apply in_tvis; left. rewrite Est. apply in_or_app; right; exact Hw.
      - cbn [opt_lt]. apply N.ltb_lt. rewrite Hroot.
        apply (l_old _ _ _ _ _ _ _ _ _ L2 w). apply in_or_app; left; exact Hw. }
    rewrite E3. cbn [rbind].
    assert (Hxl3 : x < length (tnodes t3)) by (apply (pop_xl3 t2 t3 O out2 x I2 Hl3)).
    rewrite (tj_set_ok t3 x (Some (tcc t2)) Hxl3). cbn [rbind tindex tcc tnodes].
    exists (t_pop t2 t3 x S (tstack t)), (out2 ++ [(rev S ++ []) ++ [x]]), [].
    split; [reflexivity|].
    pose proof (tinv_pop t2 t3 O out2 x S (tstack t) I2 Est Hi3 Hc3 Hl3 Hn3) as I'.
    assert (Hwit0 : forall u, In u (tstack t) ->
              exists g, In g O /\ reachable v u g /\ (eN t2 g <= eN t2 u)%N).
    { intros u Hu. destruct (s_wit _ _ _ J u Hu) as [g [Hg [R Hle]]].
      exists g. split; [exact Hg|]. split; [exact R|].
      unfold eN. rewrite (entN_ext _ _ g (Hfr g (in_or_app _ _ _ (or_intror Hg)))).
      rewrite (entN_ext _ _ u (Hfr u (in_or_app _ _ _ (or_introl Hu)))). exact Hle. }
    pose proof (sinv_pop t2 t3 O out2 x S (tstack t) I2 Est Hi3 Hc3 Hl3 Hn3 (tindex t) J2 L2 Nx
                  (t_idx _ _ _ _ I) Hwit0) as J'.
    destruct (pop_parts t2 O out2 x S (tstack t) I2 Est) as [P1 [P2 [P3 [P4 [P5 [P6 P7]]]]]].
    split; [exact I'|]. split; [exact J'|].
    split; [apply (tvis_pop t2 t3 O out2 x S (tstack t) Est); exact Hx2|].
    split; [|split; [|split; [|split; [reflexivity|]]]].
    + intros n Hn. rewrite (pop_entry t2 t3 O out2 x S (tstack t) I2 Hl3 Hn3 n).
      destruct (Nat.eqb_spec x n) as [<-|_].
      { exfalso. apply Hxv. apply in_tvis. apply in_app_or in Hn. tauto. }
      destruct (mem n S) eqn:Em; [|apply Hfr; exact Hn].
      exfalso. apply mem_In in Em. apply in_app_or in Hn. destruct Hn as [Hn|Hn].
      * apply (nodup_app_disj S (tstack t) n P1 Em Hn).
      * apply (P5 n); [apply in_or_app; left; exact Em | exact Hn].
    + unfold pot. rewrite (usum_ext _ _ (tvis t2 (x :: O) out2) (vnodes v)
                             (tvis_pop t2 t3 O out2 x S (tstack t) Est)).
      unfold pot in Hp2, Hpot1. lia.
    + intros n Hn. apply (tvis_pop t2 t3 O out2 x S (tstack t) Est). apply Hm2. apply tvis_open. right; exact Hn.
    + split; [intros u []|]. split; [intros u [] | intros u y []].
  - (* x stays on the stack *)
    exists (t_push t2 x), out2, (x :: S).
    split; [reflexivity|]. split; [apply tinv_push; exact I2|].
    split; [apply (sinv_push t2 O out2 x (tindex t) (tstack t) S J2 L2)|].
    split; [apply tvis_push; exact Hx2|].
    split; [|split; [|split; [|split; [|split; [|split]]]]].
    + intros n Hn. cbn [t_push tnodes]. apply Hfr; exact Hn.
    + unfold pot. rewrite (usum_ext _ _ (tvis t2 (x :: O) out2) (vnodes v) (tvis_push t2 O out2 x)).
      unfold pot in Hp2, Hpot1. lia.
    + intros n Hn. apply tvis_push. apply Hm2. apply tvis_open. right; exact Hn.
    + cbn [t_push tstack]. rewrite Est. reflexivity.
    + intros u [<-|Hu]; [apply reach_refl | apply (l_reach _ _ _ _ _ _ _ _ _ L2 u Hu)].
    + intros u Hu. change (eN (t_push t2 x) x) with (eN t2 x). change (eN (t_push t2 x) u) with (eN t2 u).
      destruct Hu as [<-|Hu]; [lia | apply (l_ge _ _ _ _ _ _ _ _ _ L2 u Hu)].
    + intros u y Hu Hs Hy. change (eN (t_push t2 x) x) with (eN t2 x). change (eN (t_push t2 x) y) with (eN t2 y).
      destruct Hu as [<-|Hu].
      * destruct (l_xedge _ _ _ _ _ _ _ _ _ L2 y Hs) as [[]|[_ H]]. apply H; exact Hy.
      * apply (l_edge _ _ _ _ _ _ _ _ _ L2 u y Hu Hs Hy).
Qed.

Lemma tarjan_ex_both : forall fuel, visit_ex_at fuel /\ nbrs_ex_at fuel.
Proof.
  induction fuel as [|f [IHv IHn]].
  - split.
    + intros t O x out I J Nx Ex Hr Hf. lia.
    + intros t O x ws r out i0 st0 S0 I J L Hws Hst Hf. lia.
  - split; [apply visit_ex_step; exact IHn | apply nbrs_ex_step; assumption].
Qed.

(* ------------------------------------------------------------------ *)
(* The outer loop and the results                                      *)

Lemma sinv_init : SInv (mkTj 1%N USIZE_MAX (repeat None (vbound v)) []) [] [].
Proof.
  constructor; cbn [tstack concat app].
  - constructor.
  - intros i j c1 c2 _ E1. destruct i; discriminate E1.
  - intros u y [].
  - intros u y [].
  - intros u [].
  - intros i c z E. destruct i; discriminate E.
  - exact Logic.I.
  - intros u [].
Qed.

Lemma sinv_stack_nil t out : SInv t [] out -> tstack t = [].
Proof.
  intros J. destruct (tstack t) as [|u st] eqn:E; [reflexivity|].
  destruct (s_wit _ _ _ J u) as [g [[] _]]. rewrite E. left; reflexivity.
Qed.

Lemma tj_run_loop_ex : forall ids t out,
  TInv v t [] out -> SInv t [] out -> (forall n, In n ids -> In n (vnodes v)) ->
  exists t' out', tj_run_loop v debug ids t out = Ok (t', out') /\ TInv v t' [] out' /\ SInv t' [] out' /\
    (forall n, In n ids \/ In n (concat out) -> In n (concat out')).
Proof.
  induction ids as [|n rest IH]; intros t out I J Hids; cbn [tj_run_loop].
  - exists t, out. split; [reflexivity|]. split; [exact I|]. split; [exact J|]. intros n [[]|H]; exact H.
  - assert (Nn : In n (vnodes v)) by (apply Hids; left; reflexivity).
    assert (Hrest : forall m, In m rest -> In m (vnodes v)) by (intros m Hm; apply Hids; right; exact Hm).
    assert (Hnl : n < length (tnodes t)) by (rewrite (t_len _ _ _ _ I); apply Hbound; exact Nn).
    destruct (nth_error_lt_Some (tnodes t) Hnl) as [r Er]. rewrite (tj_get_ok t n r Er). cbn [rbind].
    assert (Hvis : forall t0 out0, SInv t0 [] out0 -> forall m, In m (tvis t0 [] out0) <-> In m (concat out0)).
    { intros t0 out0 J0 m. unfold tvis. rewrite (sinv_stack_nil t0 out0 J0). cbn [app]. reflexivity. }
    destruct r as [k|].
    + destruct (IH t out I J Hrest) as [t' [out' [E [I' [J' Hm']]]]].
      exists t', out'. split; [exact E|]. split; [exact I'|]. split; [exact J'|].
      intros m [[<-|Hm]|Hm]; apply Hm'; [right | left; exact Hm | right; exact Hm].
      apply (Hvis t out J).
      destruct (in_dec Nat.eq_dec n (tvis t [] out)) as [Hin|Hout]; [exact Hin|]. exfalso.
      apply (t_vis _ _ _ _ I n (Hbound n Nn)) in Hout. congruence.
    + destruct (proj1 (tarjan_ex_both (4 * trav_fuel v)) t [] n out I J Nn Er)
        as [t1 [out1 [S1 [E1 [I1 [J1 [Hin1 [_ [_ [Hm1 _]]]]]]]]]].
      { intros g []. }
      { pose proof (pot_bound v Hsmall (tvis t [] out)). lia. }
      rewrite E1. cbn [rbind].
      destruct (IH t1 out1 I1 J1 Hrest) as [t' [out' [E [I' [J' Hm']]]]].
      exists t', out'. split; [exact E|]. split; [exact I'|]. split; [exact J'|].
      intros m [[<-|Hm]|Hm]; apply Hm'; [right | left; exact Hm | right].
      * apply (Hvis t1 out1 J1). exact Hin1.
      * apply (Hvis t1 out1 J1), Hm1, (Hvis t out J). exact Hm.
Qed.

(* the whole run: Ok, a partition into non-empty lists, each one a class of mutual reachability,
   none reaching a later one, and node_component_index gives the position of the component *)
Theorem tarjan_exact :
  exists t out, tarjan_run v debug = Ok (t, out) /\
    NoDup (concat out) /\ (forall x, In x (concat out) <-> In x (vnodes v)) /\
    Forall (fun c => c <> []) out /\
    Forall (scc_class v) out /\ no_later_reach v out /\
    (forall i c z, nth_error out i = Some c -> In z c ->
       node_component_index t debug z = Ok (N.of_nat i)).
Proof.
  unfold tarjan_run.
  destruct (tj_run_loop_ex (vnodes v) _ [] (tinv_init v) sinv_init (fun n H => H)) as [t [out [E [I [J Hm]]]]].
  rewrite E. cbn [rbind]. pose proof (sinv_stack_nil t out J) as Hs. rewrite Hs, andb_false_r.
  exists t, out. split; [reflexivity|].
  pose proof (t_nd _ _ _ _ I) as Hnd. unfold tvis in Hnd. rewrite Hs in Hnd. cbn [app] in Hnd.
  split; [exact Hnd|]. split; [|split; [apply (t_ne _ _ _ _ I)|]].
  - intros x. split.
    + intros Hx. apply (t_in _ _ _ _ I). unfold tvis. rewrite Hs. exact Hx.
    + intros Hx. apply Hm. left; exact Hx.
  - split; [apply (s_scc _ _ _ J)|]. split; [apply (s_ord _ _ _ J)|].
    intros i c z Ei Hz.
    assert (Hzv : In z (tvis t [] out)).
    { apply in_tvis; right; right. apply in_concat. exists c. split; [apply (nth_error_In _ _ Ei) | exact Hz]. }
    destruct (tinv_eN t [] out z I Hzv) as [Ek Hk].
    pose proof (s_idx _ _ _ J i c z Ei Hz) as Hi.
    assert (Hil : i < length out) by (apply nth_error_Some; congruence).
    destruct (tinv_out_small v Hsmall t [] out I) as [Ho1 Ho2].
    unfold node_component_index. rewrite (tj_get_ok t z _ Ek). cbn [rbind].
    replace (N.eqb (eN t z) 0) with false by (symmetry; apply N.eqb_neq; lia).
    replace (N.ltb (tcc t) (eN t z)) with true
      by (symmetry; apply N.ltb_lt; rewrite (t_cc _ _ _ _ I), Hi; lia).
    cbn [orb negb]. rewrite andb_false_r. f_equal. rewrite Hi. lia.
Qed.

End Exact.

(* ------------------------------------------------------------------ *)
(* The statements in the form used by the property file                *)

Section Results.
Variable v : view.
Variable debug : bool.
Hypothesis Hv : VOk v.
Hypothesis Hbound : forall n, In n (vnodes v) -> n < vbound v.
Hypothesis Hsmall : (N.of_nat (length (vnodes v)) < USIZE_MAX)%N.

Lemma tarjan_scc_of_run ls : tarjan_scc v debug = Ok ls ->
  exists t, tarjan_run v debug = Ok (t, ls).
Proof.
  unfold tarjan_scc. destruct (tarjan_run v debug) as [[t out]| |]; cbn [rmap snd]; intros H; try discriminate H.
  injection H as <-. exists t. reflexivity.
Qed.

Theorem tarjan_classes ls : tarjan_scc v debug = Ok ls -> Forall (scc_class v) ls.
Proof.
  intros E. destruct (tarjan_scc_of_run ls E) as [t Et].
  destruct (tarjan_exact v debug Hv Hbound Hsmall) as [t' [out [E' [_ [_ [_ [H _]]]]]]].
  rewrite Et in E'. injection E' as _ <-. exact H.
Qed.

Theorem tarjan_order ls : tarjan_scc v debug = Ok ls -> no_later_reach v ls.
Proof.
  intros E. destruct (tarjan_scc_of_run ls E) as [t Et].
  destruct (tarjan_exact v debug Hv Hbound Hsmall) as [t' [out [E' [_ [_ [_ [_ [H _]]]]]]]].
  rewrite Et in E'. injection E' as _ <-. exact H.
Qed.

(* node_component_index after a run: defined for every node, and equal to the position of the
   one component that contains it *)
Theorem tarjan_component_index t out : tarjan_run v debug = Ok (t, out) ->
  (forall i c z, nth_error out i = Some c -> In z c -> node_component_index t debug z = Ok (N.of_nat i)) /\
  (forall z, In z (vnodes v) ->
     exists i c, nth_error out i = Some c /\ In z c /\ node_component_index t debug z = Ok (N.of_nat i)).
Proof.
  intros E.
  destruct (tarjan_exact v debug Hv Hbound Hsmall) as [t' [out' [E' [_ [Hin [_ [_ [_ H]]]]]]]].
  rewrite E in E'. injection E' as <- <-. split; [exact H|].
  intros z Hz. apply Hin in Hz. apply in_concat in Hz. destruct Hz as [c [Hc Hz]].
  destruct (In_nth_error _ _ Hc) as [i Ei]. exists i, c. split; [exact Ei|]. split; [exact Hz|].
  apply (H i c z Ei Hz).
Qed.

End Results.

(* everything about the list tarjan_scc returns, in one statement *)
Theorem tarjan_all v debug :
  VOk v -> (forall n, In n (vnodes v) -> n < vbound v) ->
  (N.of_nat (length (vnodes v)) < USIZE_MAX)%N ->
  exists ls, tarjan_scc v debug = Ok ls /\
    NoDup (concat ls) /\ (forall x, In x (concat ls) <-> In x (vnodes v)) /\
    (NoDup (vnodes v) -> Permutation.Permutation (concat ls) (vnodes v)) /\
    Forall (fun c => c <> []) ls /\
    Forall (scc_class v) ls /\ no_later_reach v ls.
Proof.
  intros Hv Hb Hs.
  destruct (tarjan_exact v debug Hv Hb Hs) as [t [out [E [Hnd [Hin [Hne [Hcl [Hor _]]]]]]]].
  exists out. split; [unfold tarjan_scc; rewrite E; reflexivity|].
  split; [exact Hnd|]. split; [exact Hin|]. split; [|split; [exact Hne|split; [exact Hcl | exact Hor]]].
  intros Hndv. apply Permutation.NoDup_Permutation; assumption.
Qed.
