(* T5: reverse and clear_edges. *)
From PG Require Import Lib.ListArr Lib.Walk Model.GraphM Proofs.GraphP.
Set Implicit Arguments.

Section GraphRev.
  Context {NW EW : Type}.
  Variable cap : nat.

  Notation node := (node NW).
  Notation edge := (edge EW).
  Notation graph := (graph NW EW).
  Notation adj := (@adj NW EW cap).
  Notation GInv := (@GInv NW EW cap).

  Lemma sel_swapp p k : sel (swapp p) k = sel p (1 - k).
  Proof. destruct k; reflexivity. Qed.

  Lemma reverse_nxe (g : graph) k x : nxe (gedges (reverse g)) k x = nxe (gedges g) (1 - k) x.
  Proof.
    unfold nxe, reverse. simpl. rewrite nth_error_map.
    destruct (nth_error (gedges g) x); simpl; auto. rewrite sel_swapp. reflexivity.
  Qed.

  Lemma reverse_epo (g : graph) k x : epo (gedges (reverse g)) k x = epo (gedges g) (1 - k) x.
  Proof.
    unfold epo, reverse. simpl. rewrite nth_error_map.
    destruct (nth_error (gedges g) x); simpl; auto. rewrite sel_swapp. reflexivity.
  Qed.

  Lemma reverse_adj (g : graph) k i l : adj g (1 - k) i l -> adj (reverse g) k i l.
  Proof.
    intros [n [Hn H]]. exists (set_nnext n (swapp (nnext n))). split.
    - unfold reverse. simpl. rewrite nth_error_map, Hn. reflexivity.
    - simpl. rewrite sel_swapp. eapply lseg_ext; [|exact H]. intros x. apply reverse_nxe.
  Qed.

  Lemma reverse_nwt (g : graph) : map (@nwt NW) (gnodes (reverse g)) = map (@nwt NW) (gnodes g).
  Proof. unfold reverse. simpl. rewrite map_map. reflexivity. Qed.

  Lemma reverse_ewt (g : graph) : map (@ewt EW) (gedges (reverse g)) = map (@ewt EW) (gedges g).
  Proof. unfold reverse. simpl. rewrite map_map. reflexivity. Qed.

  Lemma reverse_enode (g : graph) :
    map (@enode EW) (gedges (reverse g)) = map swapp (map (@enode EW) (gedges g)).
  Proof. unfold reverse. simpl. rewrite !map_map. reflexivity. Qed.

  Theorem reverse_GInv (g : graph) : GInv g -> GInv (reverse g).
  Proof.
    intros I. constructor.
    - unfold reverse. simpl. rewrite map_length. apply (gi_ncap I).
    - unfold reverse. simpl. rewrite map_length. apply (gi_ecap I).
    - intros x ed Hx. unfold reverse in *. simpl in *. rewrite map_length.
      rewrite nth_error_map in Hx.
      destruct (nth_error (gedges g) x) as [ed0|] eqn:E; simpl in Hx; [|discriminate].
      injection Hx as <-. simpl. destruct (gi_ends I _ E). auto.
    - intros k i Hi.
      assert (Hi' : i < length (gnodes g)).
      { unfold reverse in Hi. simpl in Hi. rewrite map_length in Hi. auto. }
      destruct (gi_adj I (1 - k) Hi') as [l [Hl C]].
      exists l. split; [apply reverse_adj; auto|].
      intros x. rewrite reverse_epo. apply C.
  Qed.

  (* out-lists and in-lists are exchanged, order kept *)
  Theorem reverse_outs_ins (g : graph) i l :
    (adj g 1 i l -> adj (reverse g) 0 i l) /\ (adj g 0 i l -> adj (reverse g) 1 i l).
  Proof. split; intros H; apply reverse_adj; exact H. Qed.

  Theorem clear_edges_GInv (g : graph) : length (gnodes g) <= cap -> GInv (clear_edges cap g).
  Proof.
    intros Hc. constructor; unfold clear_edges; simpl.
    - rewrite map_length. auto.
    - lia.
    - intros x ed Hx. destruct x; discriminate.
    - intros k i. rewrite map_length. intros Hi.
      destruct (nth_error_lt_Some _ Hi) as [n Hn].
      exists []. split.
      + exists (set_nnext n (cap, cap)). split.
        * simpl. rewrite nth_error_map, Hn. reflexivity.
        * simpl. destruct k; simpl; constructor.
      + intros x. split; [intros []|]. unfold epo. destruct x; discriminate.
  Qed.

  Lemma clear_edges_nwt (g : graph) :
    map (@nwt NW) (gnodes (clear_edges cap g)) = map (@nwt NW) (gnodes g).
  Proof. unfold clear_edges. simpl. rewrite map_map. reflexivity. Qed.

  Lemma clear_edges_edges (g : graph) : gedges (clear_edges cap g) = [].
  Proof. reflexivity. Qed.
End GraphRev.
