(* C07, parts I2-I4: the outcome of every generic algorithm depends only on the abstract
   graph.  Each result is the algorithm theorem of C09-C12 applied to both views, joined
   by the correspondence lemmas of IsoP. *)
From Coq Require Import Permutation Lia ZArith NArith List.
From PG Require Import Lib.Io Model.View Model.Traversal Model.AlgoBasic Model.ShortestM Model.MstM
                       Spec.Reach Spec.Paths Spec.AlgoSpec Spec.Partition Spec.Forest Spec.ViewIso
                       Proofs.AlgoUfP Proofs.AlgoAll Proofs.DijkstraP Proofs.KspP Proofs.BellmanFordP Proofs.MstP
                       Proofs.IsoP.
Set Implicit Arguments.
Unset Strict Implicit.
Local Open Scope nat_scope.   (* Spec.Paths opens Z_scope *)

(* ------------------------------------------------------------------ *)
(* Small facts                                                         *)

Lemma res_bool_eq (r1 r2 : res bool) :
  (exists b, r1 = Ok b) -> (exists b, r2 = Ok b) -> (r1 = Ok true <-> r2 = Ok true) -> r1 = r2.
Proof.
  intros [b1 ->] [b2 ->] [H1 H2]. destruct b1, b2; try reflexivity.
  - symmetry. apply H1. reflexivity.
  - apply H2. reflexivity.
Qed.

Lemma option_eq_by_some {A} (o1 o2 : option A) :
  (forall d, o1 = Some d <-> o2 = Some d) -> o1 = o2.
Proof.
  intros H. destruct o1 as [d1|].
  - symmetry. apply H. reflexivity.
  - destruct o2 as [d2|]; [|reflexivity]. apply H. reflexivity.
Qed.

Lemma VOk_in_cap v a : Reach.VOk v -> In a (vnodes v) -> Reach.in_cap v a.
Proof. intros [[_ Hc] _] Ha. apply Hc; exact Ha. Qed.

Lemma NoDup_app_disj {A} (l1 l2 : list A) x : NoDup (l1 ++ l2) -> In x l1 -> In x l2 -> False.
Proof.
  induction l1 as [|a t IH]; intros Hnd H1 H2; [destruct H1|].
  cbn [app] in Hnd. inversion Hnd as [|a' t' Ha Ht]; subst.
  destruct H1 as [->|H1].
  - apply Ha. apply in_or_app. right; exact H2.
  - apply IH; assumption.
Qed.

Lemma NoDup_app_tail {A} (l1 l2 : list A) : NoDup (l1 ++ l2) -> NoDup l2.
Proof.
  induction l1 as [|a t IH]; cbn [app]; intros Hnd; [exact Hnd|].
  inversion Hnd; subst. apply IH; assumption.
Qed.

(* two duplicate-free lists whose members correspond under p have the same length *)
Lemma same_image_length (p : nat -> nat) l1 l2 l' : inj_on p l' -> incl l1 l' ->
  NoDup l1 -> NoDup l2 -> (forall y, In y l2 <-> In y (map p l1)) -> length l1 = length l2.
Proof.
  intros Hi Hs N1 N2 Hset. rewrite <- (map_length p l1). apply Permutation_length.
  apply Permutation_sym. apply NoDup_Permutation; [exact N2| |exact Hset].
  apply (NoDup_map_inj_on Hi Hs N1).
Qed.

(* ------------------------------------------------------------------ *)
(* I2: has_path_connecting, is_cyclic_directed, toposort, is_bipartite  *)

Theorem has_path_iso p v1 v2 a b : view_iso p v1 v2 -> Reach.VOk v1 -> Reach.VOk v2 ->
  In a (vnodes v1) -> In b (vnodes v1) ->
  has_path_connecting v1 a b = has_path_connecting v2 (p a) (p b) /\
  exists r, has_path_connecting v1 a b = Ok r.
Proof.
  intros H V1 V2 Ha Hb.
  destruct (has_path_all v1 a b V1 (VOk_in_cap V1 Ha)) as [T1 [_ X1]].
  destruct (has_path_all v2 (p a) (p b) V2 (VOk_in_cap V2 (iso_img H Ha))) as [T2 [_ X2]].
  split; [|exact X1]. apply res_bool_eq; [exact X1|exact X2|].
  rewrite T1, T2. apply (reachable_iso H Ha Hb).
Qed.

Theorem is_cyclic_directed_iso p v1 v2 dbg1 dbg2 : view_iso p v1 v2 -> Reach.VOk v1 -> Reach.VOk v2 ->
  is_cyclic_directed v1 dbg1 = is_cyclic_directed v2 dbg2 /\
  exists r, is_cyclic_directed v1 dbg1 = Ok r.
Proof.
  intros H V1 V2.
  destruct (is_cyclic_directed_all v1 dbg1 V1) as [T1 [_ X1]].
  destruct (is_cyclic_directed_all v2 dbg2 V2) as [T2 [_ X2]].
  split; [|exact X1]. apply res_bool_eq; [exact X1|exact X2|].
  rewrite T1, T2. apply (some_cycle_iso H).
Qed.

Theorem toposort_iso p v1 v2 : view_iso p v1 v2 -> Reach.VOk v1 -> Reach.VOk v2 ->
  ((exists l, toposort v1 = Ok (inr l)) <-> (exists l, toposort v2 = Ok (inr l))) /\
  ((exists n, toposort v1 = Ok (inl n)) <-> (exists n, toposort v2 = Ok (inl n))) /\
  (exists r, toposort v1 = Ok r) /\ (exists r, toposort v2 = Ok r).
Proof.
  intros H V1 V2.
  destruct (toposort_iff v1 V1) as [A1 C1]. destruct (toposort_iff v2 V2) as [A2 C2].
  split; [rewrite A1, A2; apply (acyclic_iso H)|].
  split; [rewrite C1, C2; apply (some_cycle_iso H)|].
  split; [apply (toposort_total v1 V1)|apply (toposort_total v2 V2)].
Qed.

(* I3 for toposort: when both succeed, each order is a topological order of its own view,
   and the two orders list corresponding node sets *)
Theorem toposort_both_valid p v1 v2 l1 l2 : view_iso p v1 v2 -> Reach.VOk v1 -> Reach.VOk v2 ->
  toposort v1 = Ok (inr l1) -> toposort v2 = Ok (inr l2) ->
  (NoDup l1 /\ (forall x, In x l1 <-> In x (vnodes v1)) /\
   (forall h u t w, l1 = h ++ u :: t -> step v1 u w -> In w t)) /\
  (NoDup l2 /\ (forall x, In x l2 <-> In x (vnodes v2)) /\
   (forall h u t w, l2 = h ++ u :: t -> step v2 u w -> In w t)) /\
  (forall y, In y l2 <-> In y (map p l1)) /\ length l1 = length l2.
Proof.
  intros H V1 V2 E1 E2.
  destruct (toposort_ok_sound v1 l1 V1 E1) as [N1 [S1 [_ [O1 _]]]].
  destruct (toposort_ok_sound v2 l2 V2 E2) as [N2 [S2 [_ [O2 _]]]].
  assert (Hset : forall y, In y l2 <-> In y (map p l1)).
  { intros y. rewrite S2, (iso_nodes H), in_map_iff. split.
    - intros [a [Ha ->]]. exists a. split; [reflexivity|apply S1; exact Ha].
    - intros [a [<- Ha]]. exists a. split; [apply S1; exact Ha|reflexivity]. }
  split; [split; [exact N1|split; [exact S1|exact O1]]|].
  split; [split; [exact N2|split; [exact S2|exact O2]]|].
  split; [exact Hset|].
  assert (Np : NoDup (map p l1)).
  { apply (NoDup_map_inj_on (iso_inj H)); [|exact N1]. intros x Hx. apply S1; exact Hx. }
  rewrite <- (map_length p l1). apply Permutation_length. apply Permutation_sym.
  apply NoDup_Permutation; assumption.
Qed.

Theorem is_bipartite_iso p v1 v2 s : view_iso p v1 v2 -> Reach.VOk v1 -> Reach.VOk v2 ->
  In s (vnodes v1) ->
  is_bipartite_undirected v1 s = is_bipartite_undirected v2 (p s) /\
  exists r, is_bipartite_undirected v1 s = Ok r.
Proof.
  intros H V1 V2 Hs.
  destruct (is_bipartite_all v1 s V1 (VOk_in_cap V1 Hs)) as [T1 [_ X1]].
  destruct (is_bipartite_all v2 (p s) V2 (VOk_in_cap V2 (iso_img H Hs))) as [T2 [_ X2]].
  split; [|exact X1]. apply res_bool_eq; [exact X1|exact X2|].
  rewrite T1, T2. apply (two_colourable_iso H Hs).
Qed.

(* ------------------------------------------------------------------ *)
(* I2: dijkstra, k_shortest_path (k = 1), bellman_ford                   *)

(* what an exact distance map of v1 and one of v2 have to do with each other *)
Lemma exact_maps_correspond p v1 v2 s (m1 m2 : smap) : view_iso p v1 v2 -> In s (vnodes v1) ->
  (forall x d, sget m1 x = Some d <-> is_dist v1 s x d) ->
  (forall x d, sget m2 x = Some d <-> is_dist v2 (p s) x d) ->
  (forall x, In x (vnodes v1) -> sget m1 x = sget m2 (p x)) /\
  (forall y d, sget m2 y = Some d -> exists x, In x (vnodes v1) /\ y = p x /\ sget m1 x = Some d) /\
  (forall x d, sget m1 x = Some d -> In x (vnodes v1)).
Proof.
  intros H Hs X1 X2.
  assert (A : forall x, In x (vnodes v1) -> sget m1 x = sget m2 (p x)).
  { intros x Hx. apply option_eq_by_some. intros d.
    rewrite X1, X2. apply (is_dist_iso d H Hs Hx). }
  split; [exact A|]. split.
  - intros y d Hy. pose proof Hy as Hy'. apply X2 in Hy'. destruct Hy' as [[c [W _]] _].
    pose proof (closed_walk (iso_closed2 H) (iso_img H Hs) W) as Hn.
    apply (iso_nodes H) in Hn. destruct Hn as [x [Hx ->]].
    exists x. split; [exact Hx|]. split; [reflexivity|]. rewrite (A x Hx). exact Hy.
  - intros x d Hx. apply X1 in Hx. destruct Hx as [[c [W _]] _].
    apply (closed_walk (iso_closed1 H) Hs W).
Qed.

Theorem dijkstra_iso p v1 v2 s : view_iso p v1 v2 ->
  Paths.VOk v1 -> Paths.VOk v2 -> nonneg v1 -> Paths.in_cap v1 s -> Paths.in_cap v2 (p s) ->
  In s (vnodes v1) ->
  exists m1 m2, dijkstra v1 s None = Ok m1 /\ dijkstra v2 (p s) None = Ok m2 /\
    (forall x, In x (vnodes v1) -> sget m1 x = sget m2 (p x)) /\
    (forall y d, sget m2 y = Some d -> exists x, In x (vnodes v1) /\ y = p x /\ sget m1 x = Some d) /\
    (forall x d, sget m1 x = Some d -> In x (vnodes v1)).
Proof.
  intros H V1 V2 N1 C1 C2 Hs.
  pose proof (proj1 (nonneg_iso H) N1) as N2.
  destruct (dijkstra_exact V1 N1 C1) as [m1 [E1 [_ X1]]].
  destruct (dijkstra_exact V2 N2 C2) as [m2 [E2 [_ X2]]].
  exists m1, m2. split; [exact E1|]. split; [exact E2|].
  apply (exact_maps_correspond H Hs X1 X2).
Qed.

Theorem ksp1_iso p v1 v2 s : view_iso p v1 v2 ->
  Paths.VOk v1 -> Paths.VOk v2 -> nonneg v1 ->
  (forall a e, In e (out_edges v1 a) -> tgt e < vbound v1) ->
  (forall a e, In e (out_edges v2 a) -> tgt e < vbound v2) ->
  s < vbound v1 -> p s < vbound v2 -> In s (vnodes v1) ->
  exists m1 m2, k_shortest_path v1 (vbound v1) s None 1 = Ok m1 /\
                k_shortest_path v2 (vbound v2) (p s) None 1 = Ok m2 /\
    (forall x, In x (vnodes v1) -> sget m1 x = sget m2 (p x)) /\
    (forall y d, sget m2 y = Some d -> exists x, In x (vnodes v1) /\ y = p x /\ sget m1 x = Some d) /\
    (forall x d, sget m1 x = Some d -> In x (vnodes v1)).
Proof.
  intros H V1 V2 N1 T1 T2 B1 B2 Hs.
  pose proof (proj1 (nonneg_iso H) N1) as N2.
  destruct (ksp1_exact V1 N1 T1 B1) as [m1 [E1 [_ X1]]].
  destruct (ksp1_exact V2 N2 T2 B2) as [m2 [E2 [_ X2]]].
  exists m1, m2. split; [exact E1|]. split; [exact E2|].
  apply (exact_maps_correspond H Hs X1 X2).
Qed.

(* bellman_ford: Ok None models Err(NegativeCycle) *)
Theorem bellman_ford_iso p v1 v2 s : view_iso p v1 v2 -> BOk v1 -> BOk v2 -> In s (vnodes v1) ->
  exists r1 r2, bellman_ford v1 s = Ok r1 /\ bellman_ford v2 (p s) = Ok r2 /\
    (r1 = None <-> r2 = None) /\
    forall d1 q1 d2 q2, r1 = Some (d1, q1) -> r2 = Some (d2, q2) ->
      forall x, In x (vnodes v1) -> nth_error d1 x = nth_error d2 (p x).
Proof.
  intros H B1 B2 Hs.
  pose proof (bok_bound B1 _ Hs) as L1. pose proof (bok_bound B2 _ (iso_img H Hs)) as L2.
  destruct (bellman_ford_spec B1 L1) as [r1 [E1 S1]].
  destruct (bellman_ford_spec B2 L2) as [r2 [E2 S2]].
  exists r1, r2. split; [exact E1|]. split; [exact E2|].
  pose proof (neg_cycle_iso H Hs) as NC.
  split.
  - destruct r1 as [[d1 q1]|], r2 as [[d2 q2]|]; split; intros E; try reflexivity; try discriminate E; exfalso.
    + destruct S1 as [Hn _]. apply Hn, NC, S2.
    + destruct S2 as [Hn _]. apply Hn, NC, S1.
  - intros d1 q1 d2 q2 -> -> x Hx.
    destruct S1 as [_ [Len1 [_ [D1 _]]]]. destruct S2 as [_ [Len2 [_ [D2 _]]]].
    pose proof (bok_bound B1 _ Hx) as Lx1. pose proof (bok_bound B2 _ (iso_img H Hx)) as Lx2.
    destruct (nth_error d1 x) as [o1|] eqn:G1;
      [|apply nth_error_None in G1; lia].
    destruct (nth_error d2 (p x)) as [o2|] eqn:G2;
      [|apply nth_error_None in G2; lia].
    f_equal. apply option_eq_by_some. intros d.
    pose proof (D1 x d) as D1x. pose proof (D2 (p x) d) as D2x. rewrite G1 in D1x. rewrite G2 in D2x.
    split; intros ->.
    + assert (I : is_dist v2 (p s) (p x) d) by (apply (is_dist_iso d H Hs Hx), D1x; reflexivity).
      apply D2x in I. injection I as I. exact I.
    + assert (I : is_dist v1 s x d) by (apply (is_dist_iso d H Hs Hx), D2x; reflexivity).
      apply D1x in I. injection I as I. exact I.
Qed.

(* ------------------------------------------------------------------ *)
(* I2: kosaraju_scc — the two lists of components correspond            *)

Lemma mutual_refl v a : mutual v a a.
Proof. split; apply reach_refl. Qed.

Lemma mutual_sym v a b : mutual v a b -> mutual v b a.
Proof. intros [H1 H2]. split; assumption. Qed.

Lemma mutual_trans v a b c : mutual v a b -> mutual v b c -> mutual v a c.
Proof. intros [H1 H2] [H3 H4]. split; eapply reachable_trans; eauto. Qed.

(* a component of the first list has a matching component in the second *)
Lemma scc_match_fwd p v1 v2 ls2 c1 : view_iso p v1 v2 ->
  (forall x, In x (concat ls2) <-> In x (vnodes v2)) -> Forall (scc_class v2) ls2 ->
  scc_class v1 c1 -> exists c2, In c2 ls2 /\ same_set (map p c1) c2.
Proof.
  intros H S2 K2 [r [Hr Hc1]].
  assert (Hpr : In (p r) (concat ls2)) by (apply S2, (iso_img H Hr)).
  apply in_concat in Hpr. destruct Hpr as [c2 [Hc2 Hin]].
  exists c2. split; [exact Hc2|].
  rewrite Forall_forall in K2. destruct (K2 c2 Hc2) as [r2 [Hr2 Hcl]].
  assert (M : mutual v2 r2 (p r)) by (apply Hcl; exact Hin).
  intros y. split.
  - intros Hy. apply in_map_iff in Hy. destruct Hy as [x [<- Hx]].
    apply Hc1 in Hx. apply Hcl. eapply mutual_trans; [exact M|].
    assert (Hxn : In x (vnodes v1)) by (apply (closed_reachable (iso_closed1 H) Hr), Hx).
    apply (mutual_iso H Hr Hxn). exact Hx.
  - intros Hy. apply Hcl in Hy.
    assert (My : mutual v2 (p r) y) by (eapply mutual_trans; [apply mutual_sym; exact M|exact Hy]).
    assert (Hyn : In y (vnodes v2)).
    { apply (closed_reachable (iso_closed2 H) (iso_img H Hr)), My. }
    apply (iso_nodes H) in Hyn. destruct Hyn as [x [Hx ->]].
    apply in_map. apply Hc1. apply (mutual_iso H Hr Hx). exact My.
Qed.

(* pairwise distinct members of l1 with distinct matches in l2: l1 is not longer than l2 *)
Lemma match_length_le {A B} (M : A -> B -> Prop) (l1 : list A) : forall (l2 : list B),
  (forall a, In a l1 -> exists b, In b l2 /\ M a b) ->
  ForallOrdPairs (fun a a' => forall b, M a b -> M a' b -> False) l1 ->
  length l1 <= length l2.
Proof.
  induction l1 as [|a t IH]; intros l2 Hm Hd; cbn [length]; [lia|].
  inversion Hd as [|a' t' Hat Ht]; subst.
  destruct (Hm a (or_introl eq_refl)) as [b [Hb Mab]].
  apply in_split in Hb. destruct Hb as [h [r ->]].
  rewrite app_length. cbn [length].
  assert (L : length t <= length (h ++ r)).
  { apply IH; [|exact Ht]. intros a' Ha'.
    destruct (Hm a' (or_intror Ha')) as [b' [Hb' Mab']].
    exists b'. split; [|exact Mab'].
    apply in_app_or in Hb'. apply in_or_app.
    destruct Hb' as [Hb'|[<-|Hb']]; [left; exact Hb'| |right; exact Hb'].
    exfalso. rewrite Forall_forall in Hat. apply (Hat a' Ha' b Mab Mab'). }
  rewrite app_length in L. lia.
Qed.

(* the classes of a partition, mapped through an injection, cannot share a match *)
Lemma classes_distinct_matches (p : nat -> nat) nodes (ls : list (list nat)) :
  inj_on p nodes -> NoDup (concat ls) -> (forall x, In x (concat ls) -> In x nodes) ->
  (forall c, In c ls -> c <> []) ->
  ForallOrdPairs (fun c c' => forall c2 : list nat, same_set (map p c) c2 -> same_set (map p c') c2 -> False) ls.
Proof.
  intros Hi. induction ls as [|c t IH]; intros Hnd Hs Hne; constructor.
  - rewrite Forall_forall. intros c' Hc' c2 M M'.
    cbn [concat] in Hnd, Hs.
    destruct c as [|x c0] eqn:Ec; [apply (Hne [] (or_introl eq_refl)); reflexivity|]. rewrite <- Ec in *.
    assert (Hx : In x c) by (rewrite Ec; left; reflexivity).
    assert (Hpx : In (p x) (map p c')) by (apply M', M, in_map, Hx).
    apply in_map_iff in Hpx. destruct Hpx as [x' [Ex Hx']].
    assert (Hx'c : In x' (concat t)) by (apply in_concat; exists c'; split; assumption).
    assert (E : x' = x).
    { apply Hi; [apply Hs, in_or_app; right; exact Hx'c|apply Hs, in_or_app; left; exact Hx|exact Ex]. }
    subst x'. apply (NoDup_app_disj Hnd Hx Hx'c).
  - cbn [concat] in Hnd, Hs. apply IH.
    + apply (NoDup_app_tail Hnd).
    + intros x Hx. apply Hs, in_or_app. right; exact Hx.
    + intros c' Hc'. apply Hne. right; exact Hc'.
Qed.

Lemma scc_class_nonempty v c : scc_class v c -> c <> [].
Proof.
  intros [r [_ Hc]] E. assert (Hr : In r c) by (apply Hc, mutual_refl). rewrite E in Hr. destruct Hr.
Qed.

Lemma scc_lists_length_le p v1 v2 ls1 ls2 : view_iso p v1 v2 ->
  NoDup (concat ls1) -> (forall x, In x (concat ls1) <-> In x (vnodes v1)) -> Forall (scc_class v1) ls1 ->
  (forall x, In x (concat ls2) <-> In x (vnodes v2)) -> Forall (scc_class v2) ls2 ->
  length ls1 <= length ls2.
Proof.
  intros H N1 S1 K1 S2 K2.
  apply (@match_length_le _ _ (fun c1 c2 => same_set (map p c1) c2)).
  - intros c1 Hc1. rewrite Forall_forall in K1. apply (scc_match_fwd H S2 K2 (K1 c1 Hc1)).
  - apply (@classes_distinct_matches p (vnodes v1) ls1 (iso_inj H) N1).
    + intros x Hx. apply S1; exact Hx.
    + intros c Hc. rewrite Forall_forall in K1. apply (scc_class_nonempty (K1 c Hc)).
Qed.

(* from a match under the inverse to a match under p *)
Lemma same_set_inv p v1 v2 c1 c2 : view_iso p v1 v2 ->
  (forall x, In x c1 -> In x (vnodes v1)) -> (forall y, In y c2 -> In y (vnodes v2)) ->
  same_set (map (inv_on p (vnodes v1)) c2) c1 -> same_set (map p c1) c2.
Proof.
  intros H I1 I2 S y. split.
  - intros Hy. apply in_map_iff in Hy. destruct Hy as [x [<- Hx]].
    apply S in Hx. apply in_map_iff in Hx. destruct Hx as [y [<- Hy]].
    rewrite (proj2 (iso_inv_right H (I2 y Hy))). exact Hy.
  - intros Hy. rewrite <- (proj2 (iso_inv_right H (I2 y Hy))). apply in_map.
    apply S. apply in_map. exact Hy.
Qed.

Lemma scc_lists_correspond p v1 v2 ls1 ls2 : view_iso p v1 v2 ->
  NoDup (concat ls1) -> (forall x, In x (concat ls1) <-> In x (vnodes v1)) -> Forall (scc_class v1) ls1 ->
  NoDup (concat ls2) -> (forall x, In x (concat ls2) <-> In x (vnodes v2)) -> Forall (scc_class v2) ls2 ->
  classes_correspond p ls1 ls2.
Proof.
  intros H N1 S1 K1 N2 S2 K2. split; [|split].
  - intros c1 Hc1. rewrite Forall_forall in K1. apply (scc_match_fwd H S2 K2 (K1 c1 Hc1)).
  - intros c2 Hc2. pose proof K2 as K2'. rewrite Forall_forall in K2'.
    destruct (scc_match_fwd (view_iso_sym H) S1 K1 (K2' c2 Hc2)) as [c1 [Hc1 M]].
    exists c1. split; [exact Hc1|]. apply (same_set_inv H); [| |exact M].
    + intros x Hx. apply S1, in_concat. exists c1; split; assumption.
    + intros y Hy. apply S2, in_concat. exists c2; split; assumption.
  - apply Nat.le_antisymm.
    + apply (scc_lists_length_le H N1 S1 K1 S2 K2).
    + apply (scc_lists_length_le (view_iso_sym H) N2 S2 K2 S1 K1).
Qed.

Theorem kosaraju_iso p v1 v2 : view_iso p v1 v2 -> Reach.VOk v1 -> Reach.VOk v2 ->
  exists ls1 ls2, kosaraju_scc v1 = Ok ls1 /\ kosaraju_scc v2 = Ok ls2 /\
    classes_correspond p ls1 ls2.
Proof.
  intros H V1 V2.
  destruct (kosaraju_all v1 V1) as [ls1 [E1 [N1 [S1 [_ [K1 _]]]]]].
  destruct (kosaraju_all v2 V2) as [ls2 [E2 [N2 [S2 [_ [K2 _]]]]]].
  exists ls1, ls2. split; [exact E1|]. split; [exact E2|].
  apply (scc_lists_correspond H N1 S1 K1 N2 S2 K2).
Qed.

(* I3: tarjan_scc — both outputs are partitions of the respective node sets, and the node
   sets correspond under p, so the partitions cover the same number of nodes *)
Theorem tarjan_iso p v1 v2 dbg1 dbg2 : view_iso p v1 v2 -> Reach.VOk v1 -> Reach.VOk v2 ->
  (forall n, In n (vnodes v1) -> n < vbound v1) -> (forall n, In n (vnodes v2) -> n < vbound v2) ->
  (N.of_nat (length (vnodes v1)) < USIZE_MAX)%N -> (N.of_nat (length (vnodes v2)) < USIZE_MAX)%N ->
  exists ls1 ls2, tarjan_scc v1 dbg1 = Ok ls1 /\ tarjan_scc v2 dbg2 = Ok ls2 /\
    (NoDup (concat ls1) /\ (forall x, In x (concat ls1) <-> In x (vnodes v1)) /\ Forall (fun c => c <> []) ls1) /\
    (NoDup (concat ls2) /\ (forall x, In x (concat ls2) <-> In x (vnodes v2)) /\ Forall (fun c => c <> []) ls2) /\
    (forall y, In y (concat ls2) <-> In y (map p (concat ls1))) /\
    length (concat ls1) = length (concat ls2).
Proof.
  intros H V1 V2 B1 B2 U1 U2.
  destruct (tarjan_partition_all v1 dbg1 V1 B1 U1) as [ls1 [E1 [N1 [S1 [_ F1]]]]].
  destruct (tarjan_partition_all v2 dbg2 V2 B2 U2) as [ls2 [E2 [N2 [S2 [_ F2]]]]].
  exists ls1, ls2. split; [exact E1|]. split; [exact E2|].
  split; [split; [exact N1|split; [exact S1|exact F1]]|].
  split; [split; [exact N2|split; [exact S2|exact F2]]|].
  assert (Hset : forall y, In y (concat ls2) <-> In y (map p (concat ls1))).
  { intros y. rewrite S2, (iso_nodes H), in_map_iff. split.
    - intros [a [Ha ->]]. exists a. split; [reflexivity|apply S1; exact Ha].
    - intros [a [<- Ha]]. exists a. split; [apply S1; exact Ha|reflexivity]. }
  split; [exact Hset|].
  apply (@same_image_length p (concat ls1) (concat ls2) (vnodes v1) (iso_inj H)); try assumption.
  intros x Hx. apply S1; exact Hx.
Qed.

(* ------------------------------------------------------------------ *)
(* I3: min_spanning_tree (Kruskal) — equally optimal, equally large     *)

Lemma kruskal_le p v1 v2 l1 l2 : nodes_iso p v1 v2 -> MOk v1 -> MOk v2 ->
  view_iso_erefs_u p v1 v2 -> kruskal v1 = Ok l1 -> kruskal v2 = Ok l2 ->
  (weight l2 <= weight l1)%Z /\ length l1 = length l2.
Proof.
  intros Hn M1 M2 HP E1 E2.
  pose proof (kruskal_spanning_forest v1 l1 M1 E1) as SF1.
  destruct (spanning_forest_transfer Hn (MOk_ends_in_nodes M1) HP SF1) as [F' [SF' [W' L']]].
  split.
  - rewrite <- (weight_decode v1 l1), <- W'. apply (kruskal_minimal v2 l2 F' M2 E2 SF').
  - destruct (components_exist v2 M2) as [reps Hr].
    pose proof (spanning_forest_count v2 F' reps M2 SF' Hr) as C1.
    pose proof (spanning_forest_count v2 (decode v2 l2) reps M2 (kruskal_spanning_forest v2 l2 M2 E2) Hr) as C2.
    unfold decode in L', C2. rewrite map_length in L', C2. lia.
Qed.

Theorem kruskal_iso_u p v1 v2 : nodes_iso p v1 v2 -> MOk v1 -> MOk v2 -> view_iso_erefs_u p v1 v2 ->
  exists l1 l2, kruskal v1 = Ok l1 /\ kruskal v2 = Ok l2 /\
    weight l1 = weight l2 /\ length l1 = length l2.
Proof.
  intros Hn M1 M2 HP.
  destruct (kruskal_total v1 M1) as [l1 E1]. destruct (kruskal_total v2 M2) as [l2 E2].
  exists l1, l2. split; [exact E1|]. split; [exact E2|].
  destruct (kruskal_le Hn M1 M2 HP E1 E2) as [W1 L1].
  destruct (kruskal_le (nodes_iso_sym Hn) M2 M1 (erefs_iso_u_sym Hn (MOk_ends_in_nodes M1) HP) E2 E1) as [W2 _].
  split; [lia|exact L1].
Qed.

Theorem kruskal_iso p v1 v2 : view_iso p v1 v2 -> MOk v1 -> MOk v2 -> view_iso_erefs p v1 v2 ->
  exists l1 l2, kruskal v1 = Ok l1 /\ kruskal v2 = Ok l2 /\
    weight l1 = weight l2 /\ length l1 = length l2.
Proof.
  intros H M1 M2 HP.
  apply (kruskal_iso_u (view_iso_nodes_iso H) M1 M2 (erefs_iso_unord HP)).
Qed.

(* ------------------------------------------------------------------ *)
(* I4: no panic on one encoding when another succeeds.  Under the well-formedness of
   both views every algorithm returns Ok on both (never Panic, never OutOfFuel).       *)

Theorem no_panic_transfer p v1 v2 : view_iso p v1 v2 ->
  (* the algorithms that need Spec.Reach.VOk *)
  (Reach.VOk v1 -> Reach.VOk v2 ->
     (forall a b, In a (vnodes v1) ->
        exists r1 r2, has_path_connecting v1 a b = Ok r1 /\ has_path_connecting v2 (p a) (p b) = Ok r2) /\
     (exists r1 r2, toposort v1 = Ok r1 /\ toposort v2 = Ok r2) /\
     (forall d1 d2, exists r1 r2, is_cyclic_directed v1 d1 = Ok r1 /\ is_cyclic_directed v2 d2 = Ok r2) /\
     (forall s, In s (vnodes v1) ->
        exists r1 r2, is_bipartite_undirected v1 s = Ok r1 /\ is_bipartite_undirected v2 (p s) = Ok r2) /\
     (exists r1 r2, kosaraju_scc v1 = Ok r1 /\ kosaraju_scc v2 = Ok r2) /\
     ((forall n, In n (vnodes v1) -> n < vbound v1) -> (forall n, In n (vnodes v2) -> n < vbound v2) ->
      (N.of_nat (length (vnodes v1)) < USIZE_MAX)%N -> (N.of_nat (length (vnodes v2)) < USIZE_MAX)%N ->
      forall d1 d2, exists r1 r2, tarjan_scc v1 d1 = Ok r1 /\ tarjan_scc v2 d2 = Ok r2)) /\
  (* dijkstra and k_shortest_path; non-negativity is needed of one view only *)
  (Paths.VOk v1 -> Paths.VOk v2 -> nonneg v1 ->
     (forall s, In s (vnodes v1) -> Paths.in_cap v1 s -> Paths.in_cap v2 (p s) ->
        exists m1 m2, dijkstra v1 s None = Ok m1 /\ dijkstra v2 (p s) None = Ok m2) /\
     ((forall a e, In e (out_edges v1 a) -> tgt e < vbound v1) ->
      (forall a e, In e (out_edges v2 a) -> tgt e < vbound v2) ->
      forall s, In s (vnodes v1) -> s < vbound v1 -> p s < vbound v2 ->
        exists m1 m2, k_shortest_path v1 (vbound v1) s None 1 = Ok m1 /\
                      k_shortest_path v2 (vbound v2) (p s) None 1 = Ok m2)) /\
  (* bellman_ford *)
  (BOk v1 -> BOk v2 -> forall s, In s (vnodes v1) ->
     exists r1 r2, bellman_ford v1 s = Ok r1 /\ bellman_ford v2 (p s) = Ok r2) /\
  (* min_spanning_tree *)
  (MOk v1 -> MOk v2 -> exists l1 l2, kruskal v1 = Ok l1 /\ kruskal v2 = Ok l2).
Proof.
  intros H. split; [|split; [|split]].
  - intros V1 V2. split; [|split; [|split; [|split; [|split]]]].
    + intros a b Ha.
      destruct (has_path_all v1 a b V1 (VOk_in_cap V1 Ha)) as [_ [_ [r1 E1]]].
      destruct (has_path_all v2 (p a) (p b) V2 (VOk_in_cap V2 (iso_img H Ha))) as [_ [_ [r2 E2]]].
      exists r1, r2. split; assumption.
    + destruct (toposort_total v1 V1) as [r1 E1]. destruct (toposort_total v2 V2) as [r2 E2].
      exists r1, r2. split; assumption.
    + intros d1 d2.
      destruct (is_cyclic_directed_all v1 d1 V1) as [_ [_ [r1 E1]]].
      destruct (is_cyclic_directed_all v2 d2 V2) as [_ [_ [r2 E2]]].
      exists r1, r2. split; assumption.
    + intros s Hs.
      destruct (is_bipartite_all v1 s V1 (VOk_in_cap V1 Hs)) as [_ [_ [r1 E1]]].
      destruct (is_bipartite_all v2 (p s) V2 (VOk_in_cap V2 (iso_img H Hs))) as [_ [_ [r2 E2]]].
      exists r1, r2. split; assumption.
    + destruct (kosaraju_all v1 V1) as [r1 [E1 _]]. destruct (kosaraju_all v2 V2) as [r2 [E2 _]].
      exists r1, r2. split; assumption.
    + intros B1 B2 U1 U2 d1 d2.
      destruct (tarjan_partition_all v1 d1 V1 B1 U1) as [r1 [E1 _]].
      destruct (tarjan_partition_all v2 d2 V2 B2 U2) as [r2 [E2 _]].
      exists r1, r2. split; assumption.
  - intros V1 V2 N1. pose proof (proj1 (nonneg_iso H) N1) as N2. split.
    + intros s Hs C1 C2.
      destruct (dijkstra_exact V1 N1 C1) as [m1 [E1 _]]. destruct (dijkstra_exact V2 N2 C2) as [m2 [E2 _]].
      exists m1, m2. split; assumption.
    + intros T1 T2 s Hs B1 B2.
      destruct (ksp1_exact V1 N1 T1 B1) as [m1 [E1 _]]. destruct (ksp1_exact V2 N2 T2 B2) as [m2 [E2 _]].
      exists m1, m2. split; assumption.
  - intros B1 B2 s Hs.
    destruct (bellman_ford_spec B1 (bok_bound B1 _ Hs)) as [r1 [E1 _]].
    destruct (bellman_ford_spec B2 (bok_bound B2 _ (iso_img H Hs))) as [r2 [E2 _]].
    exists r1, r2. split; assumption.
  - intros M1 M2. destruct (kruskal_total v1 M1) as [l1 E1]. destruct (kruskal_total v2 M2) as [l2 E2].
    exists l1, l2. split; assumption.
Qed.

(* ------------------------------------------------------------------ *)
(* I5: vacancies and index width do not matter.  A view and any renumbering of it (holes
   allowed, any node_bound) are isomorphic, the renumbering inherits well-formedness, and
   so every result above applies with hypotheses on the original view only.             *)

Theorem relabel_invariance p v : inj_on p (vnodes v) ->
  (Reach.VOk v ->
     view_iso p v (relabel p v) /\ Reach.VOk (relabel p v) /\
     (forall a b, In a (vnodes v) -> In b (vnodes v) ->
        has_path_connecting v a b = has_path_connecting (relabel p v) (p a) (p b)) /\
     (forall d1 d2, is_cyclic_directed v d1 = is_cyclic_directed (relabel p v) d2) /\
     ((exists l, toposort v = Ok (inr l)) <-> (exists l, toposort (relabel p v) = Ok (inr l))) /\
     (forall s, In s (vnodes v) ->
        is_bipartite_undirected v s = is_bipartite_undirected (relabel p v) (p s)) /\
     (exists ls1 ls2, kosaraju_scc v = Ok ls1 /\ kosaraju_scc (relabel p v) = Ok ls2 /\
                      classes_correspond p ls1 ls2)) /\
  (closed_view v -> Paths.VOk v -> nonneg v -> forall s, In s (vnodes v) -> Paths.in_cap v s ->
     exists m1 m2, dijkstra v s None = Ok m1 /\ dijkstra (relabel p v) (p s) None = Ok m2 /\
       forall x, In x (vnodes v) -> sget m1 x = sget m2 (p x)) /\
  (BOk v -> forall s, In s (vnodes v) ->
     exists r1 r2, bellman_ford v s = Ok r1 /\ bellman_ford (relabel p v) (p s) = Ok r2 /\
       (r1 = None <-> r2 = None) /\
       forall d1 q1 d2 q2, r1 = Some (d1, q1) -> r2 = Some (d2, q2) ->
         forall x, In x (vnodes v) -> nth_error d1 x = nth_error d2 (p x)) /\
  (MOk v -> exists l1 l2, kruskal v = Ok l1 /\ kruskal (relabel p v) = Ok l2 /\
     weight l1 = weight l2 /\ length l1 = length l2).
Proof.
  intros Hi. split; [|split; [|split]].
  - intros V. pose proof (view_iso_relabel Hi (closed_of_VOk V)) as H.
    pose proof (relabel_VOk Hi V) as V'.
    split; [exact H|]. split; [exact V'|]. split; [|split; [|split; [|split]]].
    + intros a b Ha Hb. apply (has_path_iso H V V' Ha Hb).
    + intros d1 d2. apply (is_cyclic_directed_iso d1 d2 H V V').
    + apply (toposort_iso H V V').
    + intros s Hs. apply (is_bipartite_iso H V V' Hs).
    + apply (kosaraju_iso H V V').
  - intros C V N s Hs Cs. pose proof (view_iso_relabel Hi C) as H.
    assert (Cs' : Paths.in_cap (relabel p v) (p s)).
    { unfold Paths.in_cap. rewrite relabel_cap. apply relabel_below. apply in_map. exact Hs. }
    destruct (dijkstra_iso H V (relabel_PVOk Hi C) N Cs Cs' Hs) as [m1 [m2 [E1 [E2 [A _]]]]].
    exists m1, m2. split; [exact E1|]. split; [exact E2|exact A].
  - intros B s Hs. pose proof (view_iso_relabel Hi (closed_of_BOk B)) as H.
    apply (bellman_ford_iso H B (relabel_BOk Hi B) Hs).
  - intros M.
    assert (Hn : nodes_iso p v (relabel p v)).
    { split; [exact Hi|]. intros x. rewrite relabel_nodes, in_map_iff. split.
      - intros [a [<- Ha]]. exists a. split; [exact Ha|reflexivity].
      - intros [a [Ha ->]]. exists a. split; [reflexivity|exact Ha]. }
    apply (kruskal_iso_u Hn M (relabel_MOk Hi M) (erefs_iso_unord (view_iso_erefs_relabel p v))).
Qed.

(* ------------------------------------------------------------------ *)
(* connected_components: the count ranges over 0 .. node_bound-1, so it is invariant between
   compact encodings only (petgraph asks for NodeCompactIndexable); with holes every vacant
   index counts as a component (Props/C07.v, C07_connected_components_counts_holes)       *)

Lemma epairs_ends v : epairs (verefs v) = ends (gedges v).
Proof.
  unfold epairs, ends, gedges. rewrite map_map. apply map_ext. intros [[[i a] b] w]. reflexivity.
Qed.

Lemma conn_erefs_fwd p v1 v2 a b : view_iso_erefs_u p v1 v2 ->
  conn (ends (gedges v1)) a b -> conn (ends (gedges v2)) (p a) (p b).
Proof.
  intros HP C. apply (conn_map p) in C. revert C. apply IsoP.conn_sub. intros x y Hxy.
  apply in_map_iff in Hxy. destruct Hxy as [[a0 b0] [E Hin]]. unfold pair_via in E. cbn [fst snd] in E.
  injection E as <- <-. unfold ends in Hin. apply in_map_iff in Hin.
  destruct Hin as [[[a1 b1] w] [E Hin]]. cbn [fst] in E. injection E as -> ->.
  destruct (erefs_u_counterpart HP Hin) as [t' [Hin' Hf]].
  unfold triple_via in Hf. destruct Hf as [-> | ->]; cbn [fst snd] in Hin'.
  - apply c_base. unfold ends. apply in_map_iff. exists (p a0, p b0, w). split; [reflexivity|exact Hin'].
  - apply c_sym, c_base. unfold ends. apply in_map_iff. exists (p b0, p a0, w). split; [reflexivity|exact Hin'].
Qed.

Lemma erefs_ok_ends_in_nodes v : erefs_ok v -> compact_view v -> ends_in_nodes v.
Proof.
  intros He Hc a b w Hin. unfold gedges in Hin. apply in_map_iff in Hin.
  destruct Hin as [[[[i a'] b'] w'] [E Hin]]. injection E as -> -> ->.
  destruct (He _ Hin) as [Ha Hb]. unfold esrc, etgt in Ha, Hb. cbn [fst snd] in Ha, Hb.
  split; apply Hc; assumption.
Qed.

Theorem connected_components_iso p v1 v2 : nodes_iso p v1 v2 ->
  compact_view v1 -> compact_view v2 -> erefs_ok v1 -> erefs_ok v2 -> view_iso_erefs_u p v1 v2 ->
  connected_components v1 = connected_components v2 /\ exists n, connected_components v1 = Ok n.
Proof.
  intros Hn K1 K2 R1 R2 HP.
  destruct (connected_components_spec R1) as [reps1 [E1 C1]].
  destruct (connected_components_spec R2) as [reps2 [E2 C2]].
  split; [|exists (length reps1); exact E1].
  rewrite E1, E2. f_equal. rewrite <- (map_length p reps1).
  apply (class_reps_unique (n := vbound v2) (prs := epairs (verefs v2))); [|exact C2].
  destruct C1 as [N1 [B1 [X1 U1]]].
  pose proof (erefs_ok_ends_in_nodes R1 K1) as He1.
  pose proof (erefs_iso_u_sym Hn He1 HP) as HP'.
  assert (Hin1 : forall r, In r reps1 -> In r (vnodes v1)) by (intros r Hr; apply K1, B1, Hr).
  split; [|split; [|split]].
  - apply (NoDup_map_inj_on (proj1 Hn) Hin1 N1).
  - intros r' Hr'. apply in_map_iff in Hr'. destruct Hr' as [r [<- Hr]].
    apply K2. apply (nodes_iso_img Hn (Hin1 r Hr)).
  - intros x Hx. apply K2 in Hx. apply (proj2 Hn) in Hx. destruct Hx as [a [Ha ->]].
    destruct (X1 a (proj1 (K1 a) Ha)) as [r [Hr Car]].
    exists (p r). split; [apply in_map; exact Hr|].
    rewrite epairs_ends in *. apply (conn_erefs_fwd HP Car).
  - intros r' s' Hr' Hs' C. apply in_map_iff in Hr', Hs'.
    destruct Hr' as [r [<- Hr]]. destruct Hs' as [s [<- Hs]]. f_equal.
    apply (U1 r s Hr Hs). rewrite epairs_ends in *.
    apply (conn_erefs_fwd HP') in C.
    rewrite (nodes_iso_inv_left Hn (Hin1 r Hr)), (nodes_iso_inv_left Hn (Hin1 s Hs)) in C. exact C.
Qed.
