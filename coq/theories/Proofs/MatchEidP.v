(* EidOk (edge ids identify edges), the extra hypothesis of maximum_matching_valid:
   a boolean checker, and a 10-node view with all edge ids equal on which maximum_matching
   returns a mate vector that is NOT a valid matching: the hypothesis cannot be dropped. *)
From PG Require Import Lib.Io Model.View Model.Traversal Model.MatchM Spec.Reach Spec.MatchSpec
  Proofs.TravBase Proofs.MatchGreedyP Proofs.MatchCheckP Proofs.MatchFindJoinP.

Definition out_pairs (v : view) : list (nat * eref) :=
  flat_map (fun ae : nat * list eref => map (fun er => (fst ae, er)) (snd ae)) (vout v).

Definition eid_pair_ok (x y : nat * eref) : bool :=
  negb (Nat.eqb (eid (snd x)) (eid (snd y)))
  || (Nat.eqb (fst x) (fst y) && Nat.eqb (tgt (snd x)) (tgt (snd y)))
  || (Nat.eqb (fst x) (tgt (snd y)) && Nat.eqb (fst y) (tgt (snd x))).

Definition eid_ok_b (v : view) : bool :=
  forallb (fun x => forallb (eid_pair_ok x) (out_pairs v)) (out_pairs v).

Lemma out_edges_pairs v a er : In er (out_edges v a) -> In (a, er) (out_pairs v).
Proof.
  unfold out_edges, out_pairs. destruct (assoc_nat (vout v) a) as [l|] eqn:E; [|intros []].
  intros Hin. apply assoc_nat_In in E. apply in_flat_map. exists (a, l). split; [exact E|].
  cbn [fst snd]. apply in_map_iff. exists er. auto.
Qed.

Lemma eid_ok_b_ok v : eid_ok_b v = true -> EidOk v.
Proof.
  unfold eid_ok_b. rewrite forallb_forall. intros H a er b er' Ha Hb He.
  apply out_edges_pairs in Ha. apply out_edges_pairs in Hb.
  specialize (H _ Ha). rewrite forallb_forall in H. specialize (H _ Hb).
  unfold eid_pair_ok in H. cbn [fst snd] in H. rewrite He, Nat.eqb_refl in H. cbn [negb orb] in H.
  apply orb_true_iff in H. destruct H as [H|H]; apply andb_true_iff in H; destruct H as [H1 H2];
    apply Nat.eqb_eq in H1; apply Nat.eqb_eq in H2; [left | right]; auto.
Qed.

(* the 7-node example of MatchCheckP has distinct edge ids *)
Lemma ex_view_eid : EidOk ex_view.
Proof. apply eid_ok_b_ok. vm_compute. reflexivity. Qed.

(* ------------------------------------------------------------------ *)
(* without EidOk: 10 nodes, 12 undirected edges, every edge id = 0     *)

Definition e0 (t : nat) : eref := (0, t, 0%Z).

Definition cex_adj : list (nat * list eref) :=
  [ (0, [e0 1; e0 2; e0 5; e0 6; e0 8]);
    (1, [e0 0; e0 4; e0 9]);
    (2, [e0 0; e0 3]);
    (3, [e0 2; e0 8]);
    (4, [e0 1]);
    (5, [e0 0; e0 7; e0 8]);
    (6, [e0 0; e0 7]);
    (7, [e0 5; e0 6]);
    (8, [e0 0; e0 3; e0 5]);
    (9, [e0 1]) ].

Definition cex_view : view :=
  mkView false 10 (Some 10) [0; 1; 2; 3; 4; 5; 6; 7; 8; 9] cex_adj cex_adj 12 12 [].

Eval vm_compute in (maximum_matching cex_view true).

Theorem maximum_matching_needs_EidOk :
  exists v m n, MOk v /\ maximum_matching v true = Ok (m, n) /\ ~ valid_matching v m n.
Proof.
  exists cex_view. eexists. eexists. split; [|split].
  - split.
    + apply vok_check_ok. vm_compute. reflexivity.
    + intros a Ha. cbn [vnodes cex_view vbound] in *.
      repeat (destruct Ha as [<-|Ha]; [lia|]). destruct Ha.
  - vm_compute. reflexivity.
  - intros [_ [_ [Hj _]]]. destruct (Hj 4 6) as [[H|H] _]; [vm_compute; reflexivity | |];
      vm_compute in H; repeat (destruct H as [H|H]; [discriminate|]); exact H.
Qed.

Print Assumptions eid_ok_b_ok.
Print Assumptions maximum_matching_needs_EidOk.
