(* maximum_matching (Gabow): an augmentation keeps the mate vector a matching and adds one edge.
   Counting lemmas (matched nodes = 2 * edges for a symmetric mate vector), the notion GM of a
   good mate vector of the search (node_bound + 1 entries, dummy unmatched), and the corollary
   of MatchAugP.aug_ok for a whole path.  (M3, item 2, continued) *)
From PG Require Import Lib.Io Model.View Model.Traversal Model.MatchM Spec.Reach Spec.MatchSpec
  Proofs.TravBase Proofs.MatchGreedyP Proofs.MatchShapeP Proofs.MatchAugP.

(* ------------------------------------------------------------------ *)
(* counting matched nodes                                              *)

Definition osome (o : option nat) : nat := match o with Some _ => 1 | None => 0 end.

Fixpoint csum (m : list (option nat)) : nat :=
  match m with [] => 0 | o :: t => osome o + csum t end.

Lemma csum_upd : forall m i o, i < length m ->
  csum (upd m i o) + osome (m_mate m i) = csum m + osome o.
Proof.
  induction m as [|h t IH]; intros i o Hi; cbn [length] in Hi; [lia|].
  destruct i as [|i].
  - cbn [upd csum]. rewrite m_mate_cons_0. lia.
  - cbn [upd csum]. rewrite m_mate_cons_S. assert (Hi' : i < length t) by lia.
    specialize (IH i o Hi'). lia.
Qed.

Lemma csum_ext : forall a b, length a = length b ->
  (forall k, osome (m_mate a k) = osome (m_mate b k)) -> csum a = csum b.
Proof.
  induction a as [|x a IH]; intros [|y b] Hl Hk; cbn [length] in Hl; try discriminate; [reflexivity|].
  cbn [csum]. pose proof (Hk 0) as H0. rewrite !m_mate_cons_0 in H0. rewrite H0. f_equal.
  apply IH; [lia|]. intros k. specialize (Hk (S k)). rewrite !m_mate_cons_S in Hk. exact Hk.
Qed.

Lemma esum_le_csum : forall m k, esum k m <= csum m.
Proof.
  induction m as [|o t IH]; intros k; cbn [esum csum]; [lia|].
  specialize (IH (S k)). unfold ew, osome. destruct o as [j|]; [destruct (Nat.ltb k j)|]; lia.
Qed.

Lemma csum_pos_ex : forall m, 0 < csum m -> exists i j, m_mate m i = Some j.
Proof.
  induction m as [|o t IH]; cbn [csum]; intros H; [lia|].
  destruct o as [j|].
  - exists 0, j. apply m_mate_cons_0.
  - cbn [osome] in H. destruct (IH H) as [i [j Hij]]. exists (S i), j. rewrite m_mate_cons_S. exact Hij.
Qed.

(* a symmetric mate vector has twice as many matched nodes as edges *)
Lemma msym_double : forall n m, csum m = n -> msym m -> csum m = 2 * esum 0 m.
Proof.
  induction n as [n IH] using lt_wf_ind. intros m Hn Hs.
  destruct (Nat.eq_dec (csum m) 0) as [E0|Hpos].
  - pose proof (esum_le_csum m 0). lia.
  - destruct (csum_pos_ex m) as [i [j Hij]]; [lia|].
    destruct (Hs i j Hij) as [Hji Hne].
    assert (Hi : i < length m) by (eapply m_mate_lt; eauto).
    assert (Hj : j < length m) by (eapply m_mate_lt; eauto).
    set (ma := upd m i None). set (mb := upd ma j None).
    assert (Hla : length ma = length m) by apply upd_length.
    assert (Hmaj : m_mate ma j = Some i).
    { unfold ma. rewrite m_mate_upd. destruct (Nat.eqb_spec i j); [contradiction | exact Hji]. }
    pose proof (csum_upd m i None Hi) as C1. rewrite Hij in C1.
    assert (Hj' : j < length ma) by lia.
    pose proof (csum_upd ma j None Hj') as C2. rewrite Hmaj in C2. fold ma in C1. fold mb in C2.
    pose proof (esum_upd m 0 i None Hi) as E1. rewrite Hij in E1.
    pose proof (esum_upd ma 0 j None Hj') as E2. rewrite Hmaj in E2. fold ma in E1. fold mb in E2.
    cbn [osome ew Nat.add] in C1, C2, E1, E2.
    assert (Hsb : msym mb).
    { assert (Hmb : forall k, m_mate mb k = if Nat.eqb j k then None else if Nat.eqb i k then None else m_mate m k).
      { intros k. unfold mb, ma. rewrite !m_mate_upd.
        destruct (Nat.eqb j k); [destruct (Nat.ltb j (length (upd m i None))); reflexivity|].
        destruct (Nat.eqb i k); [destruct (Nat.ltb i (length m)); reflexivity | reflexivity]. }
      intros a b Hab. rewrite Hmb in Hab.
      destruct (Nat.eqb_spec j a) as [->|Nja]; [discriminate|].
      destruct (Nat.eqb_spec i a) as [->|Nia]; [discriminate|].
      destruct (Hs a b Hab) as [Hba Hab']. split; [|exact Hab'].
      rewrite Hmb.
      destruct (Nat.eqb_spec j b) as [<-|_]; [congruence|].
      destruct (Nat.eqb_spec i b) as [<-|_]; [congruence|]. exact Hba. }
    assert (Hrec : csum mb = 2 * esum 0 mb) by (apply (IH (csum mb)); [lia | reflexivity | exact Hsb]).
    destruct (Nat.ltb_spec i j) as [L1|L1]; destruct (Nat.ltb_spec j i) as [L2|L2]; lia.
Qed.

Lemma msym_csum m : msym m -> csum m = 2 * length (m_edges m).
Proof. intros Hs. rewrite m_edges_length. eapply msym_double; eauto. Qed.

(* two nodes become matched, the others keep their status *)
Lemma csum_two (m m2 : list (option nat)) p q :
  length m2 = length m -> p <> q -> p < length m -> q < length m ->
  m_mate m p = None -> m_mate m q = None -> m_mate m2 p <> None -> m_mate m2 q <> None ->
  (forall k, k <> p -> k <> q -> osome (m_mate m2 k) = osome (m_mate m k)) ->
  csum m2 = csum m + 2.
Proof.
  intros Hl Hpq Hp Hq Mp Mq M2p M2q Hk.
  set (ma := upd m p (Some 0)). set (mb := upd ma q (Some 0)).
  assert (Hq' : q < length ma) by (unfold ma; rewrite upd_length; exact Hq).
  pose proof (csum_upd m p (Some 0) Hp) as C1. rewrite Mp in C1. fold ma in C1.
  pose proof (csum_upd ma q (Some 0) Hq') as C2. fold mb in C2.
  assert (Hmaq : m_mate ma q = None).
  { unfold ma. rewrite m_mate_upd. destruct (Nat.eqb_spec p q); [contradiction | exact Mq]. }
  rewrite Hmaq in C2. cbn [osome] in C1, C2.
  assert (E : csum m2 = csum mb).
  { apply csum_ext; [unfold mb, ma; rewrite !upd_length; exact Hl|].
    intros k. unfold mb, ma. rewrite !m_mate_upd, upd_length.
    rewrite (proj2 (Nat.ltb_lt _ _) Hp), (proj2 (Nat.ltb_lt _ _) Hq).
    destruct (Nat.eqb_spec q k) as [<-|Nq].
    - destruct (m_mate m2 q); [reflexivity | contradiction].
    - destruct (Nat.eqb_spec p k) as [<-|Np].
      + destruct (m_mate m2 p); [reflexivity | contradiction].
      + apply Hk; congruence. }
  lia.
Qed.

(* ------------------------------------------------------------------ *)
(* good mate vectors of the search                                     *)

Definition GM (v : view) (m : list (option nat)) : Prop :=
  length m = S (vbound v) /\ m_mate m (vbound v) = None /\ msym m /\
  forall i j, m_mate m i = Some j -> joined v i j.

Lemma GM_lt v m i j : GM v m -> m_mate m i = Some j -> i < vbound v /\ j < vbound v.
Proof.
  intros [Hl [Hd [Hs _]]] Hij. destruct (Hs i j Hij) as [Hji _].
  pose proof (m_mate_lt _ _ _ Hij) as Li. pose proof (m_mate_lt _ _ _ Hji) as Lj.
  assert (i <> vbound v) by (intros ->; congruence).
  assert (j <> vbound v) by (intros ->; congruence). lia.
Qed.

Lemma m_mate_removelast m k : m_mate m (length m - 1) = None -> m_mate (removelast m) k = m_mate m k.
Proof.
  destruct m as [|x t] using rev_ind; [reflexivity|]. clear IHt.
  rewrite removelast_last, app_length. cbn [length]. replace (length t + 1 - 1) with (length t) by lia.
  intros Hlast. unfold m_mate in *.
  destruct (Nat.lt_ge_cases k (length t)) as [Hk|Hk].
  - rewrite nth_error_app1 by exact Hk. reflexivity.
  - rewrite (proj2 (nth_error_None t k)) by exact Hk.
    destruct (Nat.eq_dec k (length t)) as [->|Hne]; [symmetry; exact Hlast|].
    rewrite (proj2 (nth_error_None (t ++ [x]) k)); [reflexivity|]. rewrite app_length. cbn [length]. lia.
Qed.

Lemma csum_removelast m : m_mate m (length m - 1) = None -> csum (removelast m) = csum m.
Proof.
  destruct m as [|x t] using rev_ind; [reflexivity|]. clear IHt.
  rewrite removelast_last, app_length. cbn [length]. replace (length t + 1 - 1) with (length t) by lia.
  unfold m_mate. rewrite nth_error_app2 by lia. rewrite Nat.sub_diag. cbn [nth_error].
  intros ->. clear. induction t as [|o t IH]; cbn [app csum osome]; [reflexivity | lia].
Qed.

(* what maximum_matching returns from a good mate vector *)
Lemma GM_valid v m n : GM v m -> csum m = 2 * n -> valid_matching v (removelast m) n.
Proof.
  intros [Hl [Hd [Hs Hj]]] Hn.
  assert (Hlast : m_mate m (length m - 1) = None).
  { rewrite Hl. replace (S (vbound v) - 1) with (vbound v) by lia. exact Hd. }
  assert (Hsr : msym (removelast m)).
  { intros i j. rewrite !m_mate_removelast by exact Hlast. apply Hs. }
  split; [|split; [exact Hsr|split]].
  - destruct m as [|x t] using rev_ind; [discriminate|].
    rewrite removelast_last. rewrite app_length in Hl. cbn [length] in Hl. lia.
  - intros i j. rewrite m_mate_removelast by exact Hlast. intros Hij. split; [apply Hj, Hij | apply (Hs i j Hij)].
  - pose proof (msym_csum _ Hsr) as H. rewrite csum_removelast in H by exact Hlast. lia.
Qed.

(* ------------------------------------------------------------------ *)
(* flipping a whole path                                               *)

Section FlipPath.
Variable v : view.
Variable M0 : list (option nat).
Variable labs : list label.
Variable pth : nat -> list nat.
Variable rk : nat -> nat.
Hypothesis HL : LabOk v M0 labs pth rk.
Hypothesis HJ : forall i j, m_mate M0 i = Some j -> joined v i j.

Lemma GM_M0 : GM v M0.
Proof. split; [apply (lo_len HL)|]. split; [apply (lo_dummy HL)|]. split; [apply (lo_sym HL) | exact HJ]. Qed.

Section OnePath.
Variable u : nat.
Hypothesis Hout : outerv labs u.

Lemma path_pos x : In x (pth u) -> exists n, nth_error (pth u) n = Some x /\ (Nat.Even n \/ Nat.Odd n).
Proof. intros H. apply In_nth_error in H. destruct H as [n Hn]. exists n. split; [exact Hn | apply Nat.Even_or_Odd]. Qed.

(* the M0-mate of a path vertex at an odd position is its predecessor *)
Lemma path_odd_mate j a : nth_error (pth u) (S (2 * j)) = Some a ->
  exists c, nth_error (pth u) (2 * j) = Some c /\ m_mate M0 a = Some c /\ m_mate M0 c = Some a.
Proof.
  intros Ha. assert (Hlt : 2 * j < length (pth u)).
  { apply nth_error_Some_lt in Ha. lia. }
  destruct (@nth_error_lt_Some _ (pth u) (2 * j) Hlt) as [c Hc]. exists c.
  pose proof (lo_mate HL u j c Hout Hc) as Hm. rewrite Ha in Hm.
  split; [exact Hc|]. split; [apply (lo_sym HL c a Hm) | exact Hm].
Qed.

Lemma path_closed x y : In x (pth u) -> m_mate M0 x = Some y -> In y (pth u).
Proof.
  intros Hx Hxy. destruct (path_pos x Hx) as [n [Hn [[j ->]|[j ->]]]].
  - rewrite (lo_mate HL u j x Hout Hn) in Hxy. eapply nth_error_In; eauto.
  - replace (2 * j + 1) with (S (2 * j)) in Hn by lia.
    destruct (path_odd_mate j x Hn) as [c [Hc [Hxc _]]]. rewrite Hxc in Hxy. injection Hxy as <-.
    eapply nth_error_In; eauto.
Qed.

Lemma path_last_pos : exists k, length (pth u) = 2 * k + 1 /\ nth_error (pth u) (2 * k) = Some (last (pth u) 0).
Proof.
  destruct (lo_odd HL u Hout) as [k Hk]. exists k. split; [exact Hk|].
  destruct (pth u) as [|x t] using rev_ind; [cbn [length] in Hk; lia|]. clear IHt.
  rewrite last_last. rewrite app_length in Hk. cbn [length] in Hk.
  rewrite nth_error_app2 by lia. replace (2 * k - length t) with 0 by lia. reflexivity.
Qed.

Lemma path_last_unmatched : m_mate M0 (last (pth u) 0) = None.
Proof.
  destruct path_last_pos as [k [Hk Hl]]. rewrite (lo_mate HL u k _ Hout Hl).
  apply nth_error_None. lia.
Qed.

Lemma path_nonlast_matched x : In x (pth u) -> x <> last (pth u) 0 -> m_mate M0 x <> None.
Proof.
  intros Hx Hne. destruct path_last_pos as [k [Hk Hl]].
  destruct (path_pos x Hx) as [n [Hn [[j ->]|[j ->]]]].
  - rewrite (lo_mate HL u j x Hout Hn). apply nth_error_Some.
    assert (2 * j < length (pth u)) by (eapply nth_error_Some_lt; eauto).
    assert (j <> k) by (intros ->; congruence). lia.
  - replace (2 * j + 1) with (S (2 * j)) in Hn by lia.
    destruct (path_odd_mate j x Hn) as [c [_ [Hxc _]]]. congruence.
Qed.

(* every vertex of a flipped path other than its head gets a partner on the path *)
Lemma flipped_partner m w m' x :
  Flipped m w (pth u) m' -> In x (pth u) -> x <> u ->
  exists y, In y (pth u) /\ m_mate m' x = Some y /\ m_mate m' y = Some x /\ joined v x y /\ x <> y.
Proof.
  intros [_ [_ [F0 F1]]] Hx Hxu.
  destruct (lo_hd HL u Hout) as [rest Hrest].
  destruct (lo_odd HL u Hout) as [k Hk].
  pose proof (lo_nodup HL u Hout) as Hnd.
  assert (Hdiff : forall n1 n2 a b, nth_error (pth u) n1 = Some a -> nth_error (pth u) n2 = Some b ->
                    n1 <> n2 -> a <> b).
  { intros n1 n2 a b H1 H2 Hn ->. apply Hn.
    apply (proj1 (NoDup_nth_error (pth u)) Hnd); [eapply nth_error_Some_lt; eauto | congruence]. }
  destruct (path_pos x Hx) as [n [Hn [[j ->]|[j ->]]]].
  - destruct j as [|j].
    + rewrite Hrest in Hn. change (Some u = Some x) in Hn. congruence.
    + replace (2 * S j) with (S (S (2 * j))) in Hn by lia.
      assert (Hlt : S (2 * j) < length (pth u)) by (apply nth_error_Some_lt in Hn; lia).
      destruct (@nth_error_lt_Some _ (pth u) (S (2 * j)) Hlt) as [a Ha].
      destruct (F1 j a x Ha Hn) as [H1 H2]. exists a.
      split; [eapply nth_error_In; eauto|]. split; [exact H2|]. split; [exact H1|].
      split.
      * destruct (lo_join HL u j a x Hout Ha Hn) as [H|H]; [right | left]; exact H.
      * apply (Hdiff _ _ _ _ Hn Ha). lia.
  - replace (2 * j + 1) with (S (2 * j)) in Hn by lia.
    assert (Hlt : S (S (2 * j)) < length (pth u)) by (apply nth_error_Some_lt in Hn; lia).
    destruct (@nth_error_lt_Some _ (pth u) (S (S (2 * j))) Hlt) as [b Hb].
    destruct (F1 j x b Hn Hb) as [H1 H2]. exists b.
    split; [eapply nth_error_In; eauto|]. split; [exact H1|]. split; [exact H2|].
    split; [apply (lo_join HL u j x b Hout Hn Hb)|].
    apply (Hdiff _ _ _ _ Hn Hb). lia.
Qed.

(* augment_path from u, after other has been given to u, yields a good mate vector with one
   more edge *)
Theorem augment_valid fuel other :
  rk u < fuel -> other < vbound v -> m_mate M0 other = None -> ~ In other (pth u) ->
  joined v u other ->
  exists m2, augment_path v fuel labs (upd M0 other (Some u)) u other = Ok m2 /\
             GM v m2 /\ csum m2 = csum M0 + 2.
Proof.
  intros Hfuel Hor Hom Hnotin Hjoin.
  destruct (lo_hd HL u Hout) as [rest Hrest].
  assert (Huin : In u (pth u)) by (rewrite Hrest; left; reflexivity).
  assert (Hou : other <> u) by (intros ->; contradiction).
  assert (Hlen : length M0 = S (vbound v)) by apply (lo_len HL).
  set (m1 := upd M0 other (Some u)).
  assert (Hm1 : forall k, m_mate m1 k = if Nat.eqb other k then Some u else m_mate M0 k).
  { intros k. unfold m1. rewrite m_mate_upd. rewrite (proj2 (Nat.ltb_lt _ _)) by lia. reflexivity. }
  assert (Hrange : forall x, In x (pth u) -> x < vbound v) by (intros x; apply (lo_range HL u x Hout)).
  destruct (aug_ok v M0 labs pth rk HL fuel u other m1 (pth u) []) as [m2 [E2 F2]].
  - exact Hout.
  - exact Hfuel.
  - rewrite app_nil_r. reflexivity.
  - destruct (lo_odd HL u Hout) as [k Hk]. exists k; exact Hk.
  - intros k Hk. rewrite Hm1. destruct (Nat.eqb_spec other k) as [<-|_]; [contradiction | reflexivity].
  - unfold m1. rewrite upd_length. exact Hlen.
  - rewrite Hm1. destruct (Nat.eqb_spec other (vbound v)) as [E|_]; [lia | apply (lo_dummy HL)].
  - exact Hnotin.
  - left; reflexivity.
  - exists m2. split; [exact E2|].
    pose proof F2 as [L2 [R2 [F0 F1]]].
    assert (Hm2u : m_mate m2 u = Some other) by (apply F0; rewrite Hrest; reflexivity).
    assert (Hm2o : m_mate m2 other = Some u).
    { rewrite R2 by exact Hnotin. rewrite Hm1, Nat.eqb_refl. reflexivity. }
    assert (Hm2k : forall k, ~ In k (pth u) -> k <> other -> m_mate m2 k = m_mate M0 k).
    { intros k K1 K2. rewrite R2 by exact K1. rewrite Hm1.
      destruct (Nat.eqb_spec other k); [congruence | reflexivity]. }
    (* the description of m2 *)
    assert (Hdesc : forall i j, m_mate m2 i = Some j ->
              m_mate m2 j = Some i /\ i <> j /\ joined v i j).
    { intros i j Hij. destruct (in_dec Nat.eq_dec i (pth u)) as [Hi|Hi].
      - destruct (Nat.eq_dec i u) as [->|Hiu].
        + rewrite Hm2u in Hij. injection Hij as <-. split; [exact Hm2o|]. split; [congruence | exact Hjoin].
        + destruct (flipped_partner m1 other m2 i F2 Hi Hiu) as [y [_ [H1 [H2 [H3 H4]]]]].
          rewrite H1 in Hij. injection Hij as <-. auto.
      - destruct (Nat.eq_dec i other) as [->|Hio].
        + rewrite Hm2o in Hij. injection Hij as <-. split; [exact Hm2u|]. split; [exact Hou|].
          destruct Hjoin as [H|H]; [right | left]; exact H.
        + rewrite Hm2k in Hij by assumption.
          destruct (lo_sym HL i j Hij) as [Hji Hne].
          assert (Hj1 : ~ In j (pth u)).
          { intros Hj. apply Hi. eapply path_closed; eauto. }
          assert (Hj2 : j <> other) by (intros ->; congruence).
          rewrite Hm2k by assumption. split; [exact Hji|]. split; [exact Hne | apply HJ, Hij]. }
    split.
    + split; [rewrite L2; unfold m1; rewrite upd_length; exact Hlen|]. split; [|split].
      * rewrite Hm2k; [apply (lo_dummy HL) | | lia].
        intros Hin. apply Hrange in Hin. lia.
      * intros i j Hij. destruct (Hdesc i j Hij) as [H1 [H2 _]]. split; assumption.
      * intros i j Hij. apply (Hdesc i j Hij).
    + (* two more matched nodes: other and the end of the path *)
      set (st := last (pth u) 0).
      assert (Hstin : In st (pth u)).
      { unfold st. apply last_In_ne. rewrite Hrest. discriminate. }
      apply (csum_two M0 m2 other st).
      * rewrite L2. unfold m1. apply upd_length.
      * intros ->. contradiction.
      * lia.
      * apply Hrange in Hstin. lia.
      * exact Hom.
      * apply path_last_unmatched.
      * rewrite Hm2o. discriminate.
      * destruct (Nat.eq_dec st u) as [E|Hne].
        -- rewrite E, Hm2u. discriminate.
        -- destruct (flipped_partner m1 other m2 st F2 Hstin Hne) as [y [_ [H1 _]]]. rewrite H1. discriminate.
      * intros k K1 K2. destruct (in_dec Nat.eq_dec k (pth u)) as [Hk|Hk].
        -- assert (H0 : m_mate M0 k <> None) by (apply path_nonlast_matched; assumption).
           assert (H2 : m_mate m2 k <> None).
           { destruct (Nat.eq_dec k u) as [->|Hne]; [rewrite Hm2u; discriminate|].
             destruct (flipped_partner m1 other m2 k F2 Hk Hne) as [y [_ [H1 _]]]. rewrite H1. discriminate. }
           destruct (m_mate M0 k); [|contradiction]. destruct (m_mate m2 k); [reflexivity | contradiction].
        -- rewrite Hm2k by assumption. reflexivity.
Qed.

End OnePath.
End FlipPath.

Print Assumptions augment_valid.
Print Assumptions GM_valid.
