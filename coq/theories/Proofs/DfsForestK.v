(* The finishing order of a depth-first forest and strong components: whatever a finished
   node u reaches is finished no later than some member of u's own component (or that
   component still has an open member).  This is the fact kosaraju_scc relies on; it is
   kept as a second invariant of the loop of ForestP.v. *)
From PG Require Import Lib.Io Model.View Model.Traversal Spec.Reach Spec.AlgoSpec
                       Proofs.TravBase Proofs.DpoP Proofs.DfsForestP.

(* F lists the finished nodes, most recent first: y finished no later than u *)
Definition before_eq (F : list nat) (y u : nat) : Prop :=
  exists l1 l2, F = l1 ++ u :: l2 /\ In y (u :: l2).

(* discovered, not finished *)
Definition opn (d : dpo) (a : nat) : Prop := In a (pdisc d) /\ ~ In a (pfin d).

Record KInv (v : view) (d : dpo) : Prop := {
  k_exit : forall u z, In u (pfin d) -> reachable v u z ->
             In z (pfin d) \/ exists a, opn d a /\ mutual v a u;
  k_lead : forall u y, In u (pfin d) -> In y (pfin d) -> reachable v u y ->
             (exists u', mutual v u u' /\ before_eq (pfin d) y u') \/
             (exists a, opn d a /\ mutual v a u)
}.

Lemma mutual_refl v a : mutual v a a.
Proof. split; apply reach_refl. Qed.

Lemma mutual_sym v a b : mutual v a b -> mutual v b a.
Proof. intros [H1 H2]; split; assumption. Qed.

Lemma mutual_trans v a b c : mutual v a b -> mutual v b c -> mutual v a c.
Proof. intros [H1 H2] [H3 H4]. split; eapply reachable_trans; eassumption. Qed.

Lemma before_eq_cons F y u n : before_eq F y u -> before_eq (n :: F) y u.
Proof. intros [l1 [l2 [E Hin]]]. exists (n :: l1), l2. split; [rewrite E; reflexivity | exact Hin]. Qed.

Lemma before_eq_head F y n : In y (n :: F) -> before_eq (n :: F) y n.
Proof. intros H. exists [], F. split; [reflexivity | exact H]. Qed.

Lemma kinv_empty v : KInv v (mkDpo [] [] []).
Proof. constructor; cbn [pfin]; intros u z []. Qed.

(* only the finished list and the set of open nodes matter *)
Lemma kinv_same_fin v d d' :
  pfin d' = pfin d -> (forall a, opn d a -> opn d' a) -> KInv v d -> KInv v d'.
Proof.
  intros Ef Ho [K1 K2]. constructor; rewrite Ef.
  - intros u z Hu R. destruct (K1 u z Hu R) as [H|[a [Ha Hm]]]; [left; exact H|].
    right. exists a. split; [apply Ho; exact Ha | exact Hm].
  - intros u y Hu Hy R. destruct (K2 u y Hu Hy R) as [H|[a [Ha Hm]]]; [left; exact H|].
    right. exists a. split; [apply Ho; exact Ha | exact Hm].
Qed.

Lemma kinv_discover v nx rest disc fin st' :
  KInv v (mkDpo (nx :: rest) disc fin) -> KInv v (mkDpo st' (nx :: disc) fin).
Proof.
  apply kinv_same_fin; [reflexivity|]. unfold opn. cbn [pdisc pfin].
  intros a [Ha Hn]. split; [right; exact Ha | exact Hn].
Qed.

Lemma kinv_skip v nx rest disc fin :
  KInv v (mkDpo (nx :: rest) disc fin) -> KInv v (mkDpo rest disc fin).
Proof. apply kinv_same_fin; [reflexivity|]. intros a Ha; exact Ha. Qed.

(* an open node below the top of the stack reaches the top *)
Lemma open_reaches_top v nx rest disc fin a :
  FInv v (mkDpo (nx :: rest) disc fin) -> In a disc -> ~ In a fin -> a <> nx -> reachable v a nx.
Proof.
  intros I Ha Hf Hne.
  assert (Hin : In a rest).
  { destruct (f_open I a Ha) as [H|[H|H]]; [contradiction | exfalso; apply Hne; symmetry; exact H | exact H]. }
  destruct (in_split_first a rest Hin) as [pre [post [Er Hna]]].
  pose proof (f_stk I) as Hst. cbn [pstack pdisc pfin stk_all] in Hst. destruct Hst as [_ Hst].
  rewrite Er in Hst. apply stk_all_at in Hst. destruct (Hst Ha) as [_ Hch].
  apply Hch; [exact Hf | | apply in_or_app; right; left; reflexivity].
  intros Hab. apply in_app_or in Hab. destruct Hab as [Hab|[Hab|[]]].
  - rewrite <- in_rev in Hab. exact (Hna Hab).
  - apply Hne; symmetry; exact Hab.
Qed.

Lemma kinv_finish v nx rest disc fin :
  FInv v (mkDpo (nx :: rest) disc fin) -> In nx disc -> ~ In nx fin ->
  KInv v (mkDpo (nx :: rest) disc fin) -> KInv v (mkDpo rest disc (nx :: fin)).
Proof.
  intros I Hd Hf [K1 K2]. cbn [pfin] in K1, K2.
  assert (Hsd : forall w, step v nx w -> In w disc).
  { intros w Hw. pose proof (f_stk I) as Hst. cbn [pstack pdisc pfin stk_all] in Hst.
    destruct Hst as [Hq _]. destruct (Hq Hd) as [Hsucc _].
    destruct (Hsucc w Hw) as [H|[]]. exact H. }
  assert (Hcl : forall u w, In u (nx :: fin) -> step v u w -> In w disc).
  { intros u w [<-|Hu] Hw; [apply Hsd; exact Hw | apply (f_closed I u w Hu Hw)]. }
  assert (Hop : forall a, opn (mkDpo (nx :: rest) disc fin) a -> a <> nx -> opn (mkDpo rest disc (nx :: fin)) a).
  { intros a [Ha Hn] Hne. split; [exact Ha|]. cbn [pfin] in *.
    intros [H|H]; [apply Hne; symmetry; exact H | exact (Hn H)]. }
  assert (Hexit : forall u z, In u (nx :: fin) -> reachable v u z ->
            In z (nx :: fin) \/ exists a, opn (mkDpo rest disc (nx :: fin)) a /\ mutual v a u).
  { intros u z Hu R. induction R as [|x z Rx IH Hxz]; [left; exact Hu|].
    destruct IH as [Hx|Hw]; [|right; exact Hw].
    destruct (in_dec Nat.eq_dec z (nx :: fin)) as [Hz|Hz]; [left; exact Hz|]. right.
    assert (Hzd : In z disc) by (apply (Hcl x z Hx Hxz)).
    assert (Hzf : ~ In z fin) by (intros H; apply Hz; right; exact H).
    assert (Hzn : z <> nx) by (intros ->; apply Hz; left; reflexivity).
    assert (Ruz : reachable v u z) by (eapply reach_step; eassumption).
    assert (Rzn : reachable v z nx) by (apply (open_reaches_top v nx rest disc fin z I Hzd Hzf Hzn)).
    assert (Oz : opn (mkDpo rest disc (nx :: fin)) z) by (split; [exact Hzd | exact Hz]).
    destruct Hu as [<-|Hu].
    - exists z. split; [exact Oz | split; assumption].
    - destruct (K1 u z Hu Ruz) as [H|[a0 [Ha0 Hm0]]]; [contradiction|].
      destruct (Nat.eq_dec a0 nx) as [->|Hne].
      + exists z. split; [exact Oz|]. split; [|exact Ruz].
        eapply reachable_trans; [exact Rzn | apply Hm0].
      + exists a0. split; [apply Hop; assumption | exact Hm0]. }
  constructor; cbn [pfin].
  - exact Hexit.
  - intros u y Hu Hy R.
    destruct Hu as [<-|Hu].
    { left. exists nx. split; [apply mutual_refl | apply before_eq_head; exact Hy]. }
    assert (Hwit : forall a0, opn (mkDpo (nx :: rest) disc fin) a0 -> mutual v a0 u ->
              (exists u', mutual v u u' /\ before_eq (nx :: fin) y u') \/
              (exists a, opn (mkDpo rest disc (nx :: fin)) a /\ mutual v a u)).
    { intros a0 Ha0 Hm0. destruct (Nat.eq_dec a0 nx) as [->|Hne].
      - left. exists nx. split; [apply mutual_sym; exact Hm0 | apply before_eq_head; exact Hy].
      - right. exists a0. split; [apply Hop; assumption | exact Hm0]. }
    destruct Hy as [<-|Hy].
    + destruct (K1 u nx Hu R) as [H|[a0 [Ha0 Hm0]]]; [contradiction | apply (Hwit a0 Ha0 Hm0)].
    + destruct (K2 u y Hu Hy R) as [[u' [Hm Hb]]|[a0 [Ha0 Hm0]]]; [|apply (Hwit a0 Ha0 Hm0)].
      left. exists u'. split; [exact Hm | apply before_eq_cons; exact Hb].
Qed.

(* with nothing open: everything a node reaches finishes no later than a member of its class *)
Lemma kinv_done v disc fin u y :
  FInv v (mkDpo [] disc fin) -> KInv v (mkDpo [] disc fin) ->
  In u fin -> In y fin -> reachable v u y ->
  exists u', mutual v u u' /\ before_eq fin y u'.
Proof.
  intros I K Hu Hy R. destruct (k_lead _ _ K u y Hu Hy R) as [H|[a [[Ha Hn] _]]]; [exact H|].
  exfalso. cbn [pdisc pfin] in *. apply Hn. apply (finv_done_disc_fin a I). exact Ha.
Qed.

(* position of a node known to finish no later than another *)
Lemma before_eq_split : forall (l1 : list nat) u l2 m1 y m2,
  NoDup (l1 ++ u :: l2) -> l1 ++ u :: l2 = m1 ++ y :: m2 -> In y (u :: l2) -> u = y \/ In u m1.
Proof.
  induction l1 as [|a l1 IH]; intros u l2 m1 y m2 Hnd E Hin; cbn [app] in *.
  - destruct m1 as [|b m1]; cbn [app] in E; injection E as E1 E2; [left; exact E1 | right; left; symmetry; exact E1].
  - destruct m1 as [|b m1]; cbn [app] in E; injection E as E1 E2.
    + exfalso. subst a. inversion Hnd as [|a' t' Ha Ht]; subst. apply Ha.
      apply in_or_app; right. exact Hin.
    + inversion Hnd as [|a' t' Ha Ht]; subst.
      destruct (IH u l2 m1 y m2 Ht E2 Hin) as [H|H]; [left; exact H | right; right; exact H].
Qed.
