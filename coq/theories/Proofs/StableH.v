(* Total specifications of try_add_node / try_add_edge, histories of public operations (T7),
   retain_nodes / retain_edges (T8). *)
From PG Require Import Lib.ListArr Lib.ListExtra Lib.Walk Model.GraphM Model.StableM
  Proofs.GraphP Proofs.GraphRE Proofs.StableP Proofs.StableE Proofs.StableRE Proofs.StableRN
  Proofs.StableT.
Set Implicit Arguments.

Inductive sop :=
| OAddNode (w : nat) | OAddEdge (a b w : nat) | ORemoveNode (a : nat) | ORemoveEdge (e : nat)
| OReverse | OClearEdges.

Inductive sout := RIdx (r : gerr + nat) | RWt (o : option nat) | RUnit.

Section StableH.
  Variable cap : nat.
  Variable capcheck : bool.
  Variable debug : bool.

  Notation adj := (@adj (option nat) (option nat) cap).
  Notation SInv := (SInv cap).

  Theorem s_try_add_node_total s w :
    SInv s ->
    (capcheck = false -> free_node s = cap -> length (gnodes (sg s)) < cap) ->
    exists r s', s_try_add_node cap capcheck debug s w = Ok (r, s') /\ SInv s' /\
      match r with
      | inl e => e = NodeIxLimit /\ s' = s /\
                 free_node s = cap /\ capcheck = true /\ length (gnodes (sg s)) = cap
      | inr i => i = (if Nat.eqb (free_node s) cap then length (gnodes (sg s)) else free_node s) /\
                 add_node_post cap s w i s'
      end.
  Proof.
    intros I Hroom. pose proof (sgi_ncap (si_g I)) as Hc.
    destruct (Nat.eqb_spec (free_node s) cap) as [Hfn|Hfn].
    - assert (Hcase : (capcheck = true /\ length (gnodes (sg s)) = cap) \/ length (gnodes (sg s)) < cap).
      { destruct capcheck eqn:Ec.
        - destruct (Nat.eq_dec (length (gnodes (sg s))) cap); [left; auto|right; lia].
        - right. auto. }
      destruct Hcase as [[Ec El]|Hlt].
      + exists (inl NodeIxLimit), s. split; [apply add_node_limit; auto|]. split; auto.
      + destruct (@add_node_fresh cap capcheck debug s w I Hfn Hlt) as [s' [Hrun [I' P]]].
        exists (inr (length (gnodes (sg s)))), s'. auto.
    - destruct (@add_node_reuse cap capcheck debug s w I Hfn) as [s' [Hrun [I' P]]].
      exists (inr (free_node s)), s'. auto.
  Qed.

  Theorem s_try_add_edge_total s a b w :
    SInv s ->
    (capcheck = false -> free_edge s = cap -> length (gedges (sg s)) < cap) ->
    exists r s', s_try_add_edge cap capcheck debug s a b w = Ok (r, s') /\ SInv s' /\
      match r with
      | inl e => s' = s /\
          ((e = EdgeIxLimit /\ free_edge s = cap /\ capcheck = true /\ length (gedges (sg s)) = cap) \/
           (exists i, e = NodeMissed i /\ wrong_index (sg s) a b = Some i /\
                      (i = a \/ i = b) /\ nwo (sg s) i = None /\
                      ~ (free_edge s = cap /\ capcheck = true /\ length (gedges (sg s)) = cap)))
      | inr x => nwo (sg s) a <> None /\ nwo (sg s) b <> None /\
                 x = (if Nat.eqb (free_edge s) cap then length (gedges (sg s)) else free_edge s) /\
                 add_edge_post cap s a b w x s'
      end.
  Proof.
    intros I Hroom. pose proof (sgi_ecap (si_g I)) as Hc.
    pose proof (wrong_index_spec (sg s) a b) as Hwi.
    destruct (Nat.eqb_spec (free_edge s) cap) as [Hfe|Hfe].
    - assert (Hcase : (capcheck = true /\ length (gedges (sg s)) = cap) \/ length (gedges (sg s)) < cap).
      { destruct capcheck eqn:Ec.
        - destruct (Nat.eq_dec (length (gedges (sg s))) cap); [left; auto|right; lia].
        - right. auto. }
      destruct Hcase as [[Ec El]|Hlt].
      + exists (inl EdgeIxLimit), s. split; [apply add_edge_limit; auto|]. split; auto.
        split; auto.
      + destruct (wrong_index (sg s) a b) as [i|] eqn:Ewi.
        * exists (inl (NodeMissed i)), s. split; [apply add_edge_missing; auto; right; right; lia|].
          split; auto. split; auto. right. exists i. destruct Hwi as [H1 H2].
          repeat split; auto. intros [_ [_ H]]. lia.
        * destruct Hwi as [La Lb].
          destruct (@add_edge_fresh cap capcheck debug s a b w I Hfe Hlt La Lb) as [s' [Hrun [I' P]]].
          exists (inr (length (gedges (sg s)))), s'.
          split; [exact Hrun|]. split; [exact I'|]. split; [exact La|]. split; [exact Lb|].
          split; [reflexivity|exact P].
    - destruct (wrong_index (sg s) a b) as [i|] eqn:Ewi.
      + exists (inl (NodeMissed i)), s. split; [apply add_edge_missing; auto|].
        split; auto. split; auto. right. exists i. destruct Hwi as [H1 H2].
        repeat split; auto. intros [H _]. contradiction.
      + destruct Hwi as [La Lb].
        destruct (@add_edge_reuse cap capcheck debug s a b w I Hfe La Lb) as [s' [Hrun [I' P]]].
        exists (inr (free_edge s)), s'.
        split; [exact Hrun|]. split; [exact I'|]. split; [exact La|]. split; [exact Lb|].
        split; [reflexivity|exact P].
  Qed.

  (* an error never changes the state (no invariant needed) *)
  Lemma add_node_err_unchanged s w e s' :
    s_try_add_node cap capcheck debug s w = Ok (inl e, s') -> s' = s.
  Proof.
    unfold s_try_add_node. destruct (negb (Nat.eqb (free_node s) cap)).
    - destruct (occupy_vacant_node cap debug s (free_node s) w); cbn [rmap]; intros H; inversion H.
    - destruct (try_add_node cap capcheck (sg s) (Some w)) as [[e'|i] g']; intros H; inversion H; auto.
  Qed.

  Lemma add_edge_err_unchanged s a b w e s' :
    s_try_add_edge cap capcheck debug s a b w = Ok (inl e, s') -> s' = s.
  Proof.
    unfold s_try_add_edge. destruct (negb (Nat.eqb (free_edge s) cap)).
    - destruct (wrong_index (sg s) a b); [intros H; inversion H; auto|].
      destruct (nth_error (gedges (sg s)) (free_edge s)) as [ed|]; [|discriminate].
      destruct (andb debug _); [discriminate|].
      destruct (upd_edge _ _ _) as [g1| |]; cbn [rbind]; try discriminate.
      destruct (link_edge g1 _ a b) as [g2| |]; cbn [rbind]; discriminate.
    - destruct (andb capcheck _); [intros H; inversion H; auto|].
      destruct (wrong_index (sg s) a b); [intros H; inversion H; auto|].
      destruct (link_edge _ _ a b) as [g2| |]; cbn [rbind]; discriminate.
  Qed.

  Lemma remove_edge_none_unchanged s e s' :
    s_remove_edge cap debug s e = Ok (None, s') -> s' = s.
  Proof.
    unfold s_remove_edge. destruct (nth_error (gedges (sg s)) e) as [ed|]; [|intros H; inversion H; auto].
    destruct (ewt ed); [|intros H; inversion H; auto].
    destruct (change_edge_links _ _ _ _ _) as [g1| |]; cbn [rbind]; try discriminate.
    destruct (upd_edge _ _ _) as [g2| |]; cbn [rbind]; try discriminate.
  Qed.

  Lemma remove_node_none_unchanged s a s' :
    s_remove_node cap debug s a = Ok (None, s') -> s' = s.
  Proof.
    unfold s_remove_node. destruct (nth_error (gnodes (sg s)) a) as [n|]; [|intros H; inversion H; auto].
    destruct (nwt n); [|intros H; inversion H; auto].
    destruct (upd_node _ _ _) as [g0| |]; cbn [rbind]; try discriminate.
    destruct (s_drain_dir _ _ _ _ _ 0) as [s1| |]; cbn [rbind]; try discriminate.
    destruct (s_drain_dir _ _ _ _ _ 1) as [s2| |]; cbn [rbind]; try discriminate.
    destruct (upd_node _ _ _) as [g3| |]; cbn [rbind]; try discriminate.
    destruct (if Nat.eqb (free_node s2) cap then _ else _) as [g4| |]; cbn [rbind]; discriminate.
  Qed.

  (* ------------------------------------------------------------------ *)
  (* Histories                                                           *)

  Definition sstep (s : sgraph) (o : sop) : res (sout * sgraph) :=
    match o with
    | OAddNode w => rmap (fun '(r, s') => (RIdx r, s')) (s_try_add_node cap capcheck debug s w)
    | OAddEdge a b w => rmap (fun '(r, s') => (RIdx r, s')) (s_try_add_edge cap capcheck debug s a b w)
    | ORemoveNode a => rmap (fun '(r, s') => (RWt r, s')) (s_remove_node cap debug s a)
    | ORemoveEdge e => rmap (fun '(r, s') => (RWt r, s')) (s_remove_edge cap debug s e)
    | OReverse => Ok (RUnit, s_reverse s)
    | OClearEdges => Ok (RUnit, s_clear_edges cap s)
    end.

  Fixpoint srun (s : sgraph) (ops : list sop) : res sgraph :=
    match ops with
    | [] => Ok s
    | o :: rest => rbind (sstep s o) (fun '(_, s') => srun s' rest)
    end.

  Definition room (s : sgraph) (n : nat) : Prop :=
    capcheck = false ->
    length (gnodes (sg s)) + n <= cap /\ length (gedges (sg s)) + n <= cap.

  Lemma sstep_ok s o :
    SInv s -> room s 1 ->
    exists r s', sstep s o = Ok (r, s') /\ SInv s' /\
      length (gnodes (sg s')) <= S (length (gnodes (sg s))) /\
      length (gedges (sg s')) <= S (length (gedges (sg s))).
  Proof.
    intros I Hroom. destruct o as [w|a b w|a|e| |]; cbn [sstep].
    - destruct (@s_try_add_node_total s w I) as [r [s' [Hrun [I' P]]]].
      { intros Hc _. destruct (Hroom Hc). lia. }
      rewrite Hrun. cbn [rmap]. eexists _, s'. split; [reflexivity|]. split; auto.
      destruct r as [e|i].
      + destruct P as [_ [-> _]]. lia.
      + destruct P as [_ P]. pose proof (an_nlen P). rewrite (an_edges P). lia.
    - destruct (@s_try_add_edge_total s a b w I) as [r [s' [Hrun [I' P]]]].
      { intros Hc _. destruct (Hroom Hc). lia. }
      rewrite Hrun. cbn [rmap]. eexists _, s'. split; [reflexivity|]. split; auto.
      destruct r as [e|x].
      + destruct P as [-> _]. lia.
      + destruct P as [_ [_ [_ P]]]. pose proof (ae_elen P). rewrite (ae_nlen P). lia.
    - destruct (nwo (sg s) a) as [w|] eqn:E.
      + destruct (@s_remove_node_spec cap debug s a w I E) as [s' [Hrun [I' P]]].
        rewrite Hrun. cbn [rmap]. eexists _, s'. split; [reflexivity|]. split; auto.
        rewrite (rn_nlen P), (rn_elen P). lia.
      + rewrite (s_remove_node_none cap debug s a E). cbn [rmap].
        eexists _, s. split; [reflexivity|]. split; auto.
    - destruct (ewo (sg s) e) as [w|] eqn:E.
      + destruct (@s_remove_edge_spec cap debug None s e w I E) as [s' [Hrun [I' [P _]]]].
        rewrite Hrun. cbn [rmap]. eexists _, s'. split; [reflexivity|]. split; auto.
        rewrite (rm_nlen P), (rm_elen P). lia.
      + rewrite (s_remove_edge_none cap debug s e E). cbn [rmap].
        eexists _, s. split; [reflexivity|]. split; auto.
    - eexists _, _. split; [reflexivity|]. split; [apply reverse_SInv; auto|].
      unfold s_reverse. cbn [with_g sg gnodes gedges]. rewrite !map_length. lia.
    - eexists _, _. split; [reflexivity|]. split; [apply clear_edges_SInv; auto|].
      unfold s_clear_edges. cbn [sg gnodes gedges]. rewrite map_length. simpl. lia.
  Qed.

  Theorem srun_ok ops : forall s,
    SInv s -> room s (length ops) ->
    exists s', srun s ops = Ok s' /\ SInv s'.
  Proof.
    induction ops as [|o ops IH]; intros s I Hroom; cbn [srun].
    - exists s. auto.
    - destruct (@sstep_ok s o I) as [r [s1 [Hrun [I1 [Hn He]]]]].
      { intros Hc. destruct (Hroom Hc). simpl in *. lia. }
      rewrite Hrun. cbn [rbind]. apply IH; auto.
      intros Hc. destruct (Hroom Hc). simpl in *. lia.
  Qed.

  Theorem history_ok ops :
    (capcheck = false -> length ops <= cap) ->
    exists s', srun (sg_empty cap) ops = Ok s' /\ SInv s'.
  Proof.
    intros H. apply srun_ok; [apply SInv_empty|]. intros Hc. simpl. specialize (H Hc). lia.
  Qed.

  Theorem sstep_error_unchanged s o s' :
    (forall e, sstep s o = Ok (RIdx (inl e), s') -> s' = s) /\
    (sstep s o = Ok (RWt None, s') -> s' = s).
  Proof.
    split.
    - intros e. destruct o as [w|a b w|a|x| |]; cbn [sstep].
      + destruct (s_try_add_node cap capcheck debug s w) as [[r s1]| |] eqn:E; cbn [rmap]; try discriminate.
        intros H. inversion H. subst. eapply add_node_err_unchanged; eauto.
      + destruct (s_try_add_edge cap capcheck debug s a b w) as [[r s1]| |] eqn:E; cbn [rmap]; try discriminate.
        intros H. inversion H. subst. eapply add_edge_err_unchanged; eauto.
      + destruct (s_remove_node cap debug s a) as [[r s1]| |]; cbn [rmap]; discriminate.
      + destruct (s_remove_edge cap debug s x) as [[r s1]| |]; cbn [rmap]; discriminate.
      + discriminate.
      + discriminate.
    - destruct o as [w|a b w|a|x| |]; cbn [sstep].
      + destruct (s_try_add_node cap capcheck debug s w) as [[r s1]| |]; cbn [rmap]; discriminate.
      + destruct (s_try_add_edge cap capcheck debug s a b w) as [[r s1]| |]; cbn [rmap]; discriminate.
      + destruct (s_remove_node cap debug s a) as [[r s1]| |] eqn:E; cbn [rmap]; try discriminate.
        intros H. inversion H. subst. eapply remove_node_none_unchanged; eauto.
      + destruct (s_remove_edge cap debug s x) as [[r s1]| |] eqn:E; cbn [rmap]; try discriminate.
        intros H. inversion H. subst. eapply remove_edge_none_unchanged; eauto.
      + discriminate.
      + discriminate.
  Qed.

  (* ------------------------------------------------------------------ *)
  (* T8: retain_edges / retain_nodes                                     *)

  Definition inrange (lo hi x : nat) : bool := andb (Nat.leb lo x) (Nat.ltb x hi).

  Definition dropE (keep : nat -> bool) (g : IG) (lo hi x : nat) : bool :=
    andb (inrange lo hi x) (match ewo g x with Some w => negb (keep w) | None => false end).

  Lemma inrange_empty lo x : inrange lo lo x = false.
  Proof.
    unfold inrange. destruct (Nat.leb_spec lo x); destruct (Nat.ltb_spec x lo); auto. lia.
  Qed.

  Lemma inrange_step lo t x : inrange lo (lo + S t) x = orb (Nat.eqb x lo) (inrange (S lo) (S lo + t) x).
  Proof.
    unfold inrange.
    destruct (Nat.leb_spec lo x); destruct (Nat.ltb_spec x (lo + S t)); destruct (Nat.eqb_spec x lo);
      destruct (Nat.leb_spec (S lo) x); destruct (Nat.ltb_spec x (S lo + t)); simpl; auto; lia.
  Qed.

  Lemma retain_edges_loop_ok keep : forall todo i s,
    SInv s ->
    exists s', s_retain_edges_loop cap debug keep s i todo = Ok s' /\ SInv s' /\
      Rm cap None (dropE keep (sg s) i (i + todo)) s s'.
  Proof.
    induction todo as [|t IH]; intros i s I; cbn [s_retain_edges_loop].
    - exists s. split; auto. split; auto. apply Rm_refl. intros x. unfold dropE.
      rewrite Nat.add_0_r, inrange_empty. reflexivity.
    - destruct (ewo (sg s) i) as [w|] eqn:E.
      + pose proof E as E'. unfold ewo in E'.
        destruct (nth_error (gedges (sg s)) i) as [ed|]; [|discriminate]. rewrite E'.
        destruct (keep w) eqn:Ek.
        * destruct (IH (S i) s I) as [s' [Hrun [I' R]]]. exists s'. split; auto. split; auto.
          eapply Rm_ext; [|exact R]. intros x. unfold dropE. rewrite inrange_step.
          destruct (Nat.eqb_spec x i) as [->|]; auto. rewrite E, Ek. simpl.
          rewrite !andb_false_r. reflexivity.
        * destruct (@s_remove_edge_spec cap debug None s i w I E) as [s1 [Hrun1 [I1 [R1 _]]]].
          rewrite Hrun1. cbn [rbind].
          destruct (IH (S i) s1 I1) as [s' [Hrun [I' R]]]. exists s'. split; auto. split; auto.
          eapply Rm_ext; [|eapply Rm_trans; [exact R1|exact R]].
          intros x. unfold dropE. rewrite inrange_step, (rm_ewo R1).
          destruct (Nat.eqb_spec x i) as [->|]; simpl; auto.
          rewrite E, Ek. reflexivity.
      + assert (Hrun0 : match nth_error (gedges (sg s)) i with
                        | Some ed => match ewt ed with
                                     | Some w => if keep w then s_retain_edges_loop cap debug keep s (S i) t
                                                 else rbind (s_remove_edge cap debug s i)
                                                        (fun '(_, s1) => s_retain_edges_loop cap debug keep s1 (S i) t)
                                     | None => s_retain_edges_loop cap debug keep s (S i) t
                                     end
                        | None => s_retain_edges_loop cap debug keep s (S i) t
                        end = s_retain_edges_loop cap debug keep s (S i) t).
        { unfold ewo in E. destruct (nth_error (gedges (sg s)) i) as [ed|]; auto. rewrite E. reflexivity. }
        rewrite Hrun0.
        destruct (IH (S i) s I) as [s' [Hrun [I' R]]]. exists s'. split; auto. split; auto.
        eapply Rm_ext; [|exact R]. intros x. unfold dropE. rewrite inrange_step.
        destruct (Nat.eqb_spec x i) as [->|]; auto. rewrite E. simpl.
        rewrite !andb_false_r. reflexivity.
  Qed.

  Theorem s_retain_edges_ok keep s :
    SInv s ->
    exists s', s_retain_edges cap debug keep s = Ok s' /\ SInv s' /\
      (forall j, nwo (sg s') j = nwo (sg s) j) /\
      (forall x, ewo (sg s') x = match ewo (sg s) x with
                                 | Some w => if keep w then Some w else None
                                 | None => None end) /\
      (forall k x, ewo (sg s') x <> None -> epo (gedges (sg s')) k x = epo (gedges (sg s)) k x) /\
      (forall k i l, nwo (sg s) i <> None -> adj (sg s) k i l ->
         adj (sg s') k i (filter (fun x => match ewo (sg s') x with Some _ => true | None => false end) l)).
  Proof.
    intros I. unfold s_retain_edges.
    destruct (@retain_edges_loop_ok keep (edge_bound s) 0 s I) as [s' [Hrun [I' R]]].
    rewrite Hrun. cbn [rbind]. rewrite (checked_ok debug I').
    exists s'. split; auto. split; auto.
    assert (HP : forall x, ewo (sg s') x = match ewo (sg s) x with
                                 | Some w => if keep w then Some w else None
                                 | None => None end).
    { intros x. rewrite (rm_ewo R). unfold dropE, inrange. simpl.
      destruct (ewo (sg s) x) as [w|] eqn:E; [|rewrite andb_false_r; reflexivity].
      assert (Hx : x < edge_bound s) by (apply (proj1 (edge_bound_spec s)); congruence).
      destruct (Nat.ltb_spec x (edge_bound s)); [|lia]. simpl. destruct (keep w); reflexivity. }
    split; [apply (rm_nodes R)|]. split; [exact HP|]. split.
    - intros k x Hx. apply (rm_epo R). rewrite (rm_ewo R) in Hx.
      destruct (dropE keep (sg s) 0 (0 + edge_bound s) x); congruence.
    - intros k i l Li Hl.
      assert (Lv : lv None (sg s) i) by (apply lv_None; auto).
      rewrite (filter_ext_in _ (fun x => negb (dropE keep (sg s) 0 (0 + edge_bound s) x))).
      + apply (rm_adj R); auto.
      + intros x Hx. rewrite (rm_ewo R).
        destruct (dropE keep (sg s) 0 (0 + edge_bound s) x) eqn:Ed; simpl; auto.
        apply (GI_adj_in x (si_g I) Lv Hl) in Hx. destruct Hx as [Hx _].
        destruct (ewo (sg s) x); [reflexivity|congruence].
  Qed.

  (* retain_nodes: the dropped nodes and the live edges that touch one of them disappear *)
  Definition isS {A} (o : option A) : bool := match o with Some _ => true | None => false end.

  Definition dropN (keep : nat -> bool) (g : IG) (lo hi a : nat) : bool :=
    andb (inrange lo hi a) (match nwo g a with Some w => negb (keep w) | None => false end).

  Definition oD (D : nat -> bool) (o : option nat) : bool :=
    match o with Some a => D a | None => false end.

  Definition incG (D : nat -> bool) (g : IG) (x : nat) : bool :=
    andb (isS (ewo g x)) (orb (oD D (epo (gedges g) 0 x)) (oD D (epo (gedges g) 1 x))).

  Lemma incG_ext (D D' : nat -> bool) g x : (forall a, D a = D' a) -> incG D g x = incG D' g x.
  Proof.
    intros E. unfold incG, oD.
    destruct (epo (gedges g) 0 x), (epo (gedges g) 1 x); rewrite ?E; reflexivity.
  Qed.

  Record RnQ (D : nat -> bool) (s s' : sgraph) : Prop := {
    rq_nodes : forall j, nwo (sg s') j = if D j then None else nwo (sg s) j;
    rq_edges : forall x, ewo (sg s') x = if incG D (sg s) x then None else ewo (sg s) x;
    rq_epo : forall k x, ewo (sg s') x <> None -> epo (gedges (sg s')) k x = epo (gedges (sg s)) k x;
    rq_nlen : length (gnodes (sg s')) = length (gnodes (sg s));
    rq_elen : length (gedges (sg s')) = length (gedges (sg s))
  }.

  Lemma RnQ_ext (D D' : nat -> bool) s s' : (forall a, D a = D' a) -> RnQ D s s' -> RnQ D' s s'.
  Proof.
    intros E Q. constructor; try apply Q.
    - intros j. rewrite <- E. apply (rq_nodes Q).
    - intros x. rewrite <- (@incG_ext D D' (sg s) x E). apply (rq_edges Q).
  Qed.

  Lemma RnQ_refl (D : nat -> bool) s : (forall a, D a = false) -> RnQ D s s.
  Proof.
    intros E. constructor; auto.
    - intros j. rewrite E. reflexivity.
    - intros x. rewrite (@incG_ext D (fun _ => false) (sg s) x E). unfold incG, oD.
      destruct (epo (gedges (sg s)) 0 x), (epo (gedges (sg s)) 1 x); simpl;
        rewrite ?andb_false_r; reflexivity.
  Qed.

  Lemma dropN_skip keep g i t a :
    match nwo g i with Some w => negb (keep w) | None => false end = false ->
    dropN keep g (S i) (S i + t) a = dropN keep g i (i + S t) a.
  Proof.
    intros H. unfold dropN. rewrite (inrange_step i t a).
    destruct (Nat.eqb_spec a i) as [->|]; simpl; auto. rewrite H, !andb_false_r. reflexivity.
  Qed.

  Lemma epo_sel2 (g : IG) k x : epo (gedges g) (S k) x = epo (gedges g) 1 x.
  Proof. reflexivity. Qed.

  Lemma retain_nodes_loop_ok keep : forall todo i s,
    SInv s ->
    exists s', s_retain_nodes_loop cap debug keep s i todo = Ok s' /\ SInv s' /\
      RnQ (dropN keep (sg s) i (i + todo)) s s'.
  Proof.
    induction todo as [|t IH]; intros i s I; cbn [s_retain_nodes_loop].
    - exists s. split; auto. split; auto. apply RnQ_refl. intros a. unfold dropN.
      rewrite Nat.add_0_r, inrange_empty. reflexivity.
    - destruct (nwo (sg s) i) as [w|] eqn:E.
      + assert (Hg : exists n, get_node s i = Some n /\ nwt n = Some w).
        { unfold get_node. unfold nwo in E. destruct (nth_error (gnodes (sg s)) i) as [n|]; [|discriminate].
          rewrite E. eauto. }
        destruct Hg as [n [Hg Hw]]. rewrite Hg, Hw.
        destruct (keep w) eqn:Ek.
        * destruct (IH (S i) s I) as [s' [Hrun [I' Q]]]. exists s'. split; auto. split; auto.
          eapply RnQ_ext; [|exact Q]. intros a. apply dropN_skip. rewrite E, Ek. reflexivity.
        * destruct (@s_remove_node_spec cap debug s i w I E) as [s1 [Hrun1 [I1 P]]].
          rewrite Hrun1. cbn [rbind].
          destruct (IH (S i) s1 I1) as [s' [Hrun [I' Q]]]. exists s'. split; auto. split; auto.
          assert (HD : forall a, a <> i ->
                    dropN keep (sg s1) (S i) (S i + t) a = dropN keep (sg s) i (i + S t) a).
          { intros a Ha. unfold dropN. rewrite (inrange_step i t a), (rn_nodes P).
            destruct (Nat.eqb_spec a i); [contradiction|reflexivity]. }
          assert (HDi : dropN keep (sg s) i (i + S t) i = true).
          { unfold dropN. rewrite (inrange_step i t i), Nat.eqb_refl, E, Ek. reflexivity. }
          constructor.
          -- intros j. rewrite (rq_nodes Q), (rn_nodes P).
             destruct (Nat.eqb_spec j i) as [->|Hne].
             ++ rewrite HDi. destruct (dropN keep (sg s1) (S i) (S i + t) i); reflexivity.
             ++ rewrite HD; auto.
          -- intros x. rewrite (rq_edges Q), (rn_ewo P).
             destruct (incb (sg s) i x) eqn:Einc.
             ++ apply incb_true in Einc. destruct Einc as [Hl Hends].
                assert (Hinc : incG (dropN keep (sg s) i (i + S t)) (sg s) x = true).
                { unfold incG. destruct (ewo (sg s) x); [|congruence]. simpl.
                  destruct Hends as [H|H]; rewrite H; simpl; rewrite HDi; auto. apply orb_true_r. }
                rewrite Hinc. destruct (incG _ (sg s1) x); reflexivity.
             ++ destruct (ewo (sg s) x) as [we|] eqn:Ex.
                ** assert (Hne : forall k, epo (gedges (sg s)) k x <> Some i).
                   { intros k Hk. assert (H : incb (sg s) i x = true); [|congruence].
                     apply incb_true. split; [congruence|]. destruct k; auto. }
                   unfold incG. rewrite (rn_ewo P), Einc, Ex, !(rn_epo P) by auto. simpl.
                   pose proof (Hne 0) as H0. pose proof (Hne 1) as H1.
                   destruct (epo (gedges (sg s)) 0 x) as [a0|], (epo (gedges (sg s)) 1 x) as [a1|];
                     simpl; rewrite ?HD by congruence; reflexivity.
                ** unfold incG at 2. rewrite Ex. simpl.
                   destruct (incG _ (sg s1) x); reflexivity.
          -- intros k x Hx. rewrite (rq_epo Q) by auto.
             rewrite (rq_edges Q) in Hx.
             destruct (incG _ (sg s1) x); [congruence|].
             rewrite (rn_ewo P) in Hx. destruct (incb (sg s) i x) eqn:Einc; [congruence|].
             apply (rn_epo P). auto.
          -- rewrite (rq_nlen Q). apply (rn_nlen P).
          -- rewrite (rq_elen Q). apply (rn_elen P).
      + assert (Hg : get_node s i = None).
        { unfold get_node. unfold nwo in E. destruct (nth_error (gnodes (sg s)) i) as [n|]; auto.
          rewrite E. reflexivity. }
        rewrite Hg.
        destruct (IH (S i) s I) as [s' [Hrun [I' Q]]]. exists s'. split; auto. split; auto.
        eapply RnQ_ext; [|exact Q]. intros a. apply dropN_skip. rewrite E. reflexivity.
  Qed.

  Theorem s_retain_nodes_ok keep s :
    SInv s ->
    exists s', s_retain_nodes cap debug keep s = Ok s' /\ SInv s' /\
      RnQ (fun a => match nwo (sg s) a with Some w => negb (keep w) | None => false end) s s'.
  Proof.
    intros I. unfold s_retain_nodes.
    destruct (@retain_nodes_loop_ok keep (node_bound s) 0 s I) as [s' [Hrun [I' Q]]].
    rewrite Hrun. cbn [rbind]. rewrite (checked_ok debug I').
    exists s'. split; auto. split; auto.
    eapply RnQ_ext; [|exact Q]. intros a. unfold dropN, inrange. simpl.
    destruct (nwo (sg s) a) as [w|] eqn:E; [|apply andb_false_r].
    assert (Ha : a < node_bound s) by (apply (proj1 (node_bound_spec s)); congruence).
    destruct (Nat.ltb_spec a (node_bound s)); [|lia]. reflexivity.
  Qed.
End StableH.
