(* C20d, part 1: the bucket invariant of greedy_feedback_arc_set's good_node_sequence
   (Model/FasM.v), sufficiency of the fuel, and "the sequence is an ordering of the endpoints". *)
From Coq Require Import Lia Permutation Bool.
From PG Require Import Lib.Io Model.View Model.FasM.
Import ListNotations.

(* ------------------------------------------------------------------ *)
(* set_at                                                              *)

Lemma set_at_length {A} (l : list A) i x : length (set_at l i x) = length l.
Proof.
  revert i; induction l as [|h t IH]; intros [|i]; cbn [set_at length]; try reflexivity.
  rewrite IH; reflexivity.
Qed.

Lemma nth_set_at_same {A} (l : list A) i x d : i < length l -> nth i (set_at l i x) d = x.
Proof.
  revert i; induction l as [|h t IH]; intros [|i] Hi; cbn [length] in Hi; try lia; cbn [set_at nth].
  - reflexivity.
  - apply IH; lia.
Qed.

Lemma nth_set_at_other {A} (l : list A) i j x d : i <> j -> nth j (set_at l i x) d = nth j l d.
Proof.
  revert i j; induction l as [|h t IH]; intros [|i] [|j] Hn; cbn [set_at nth]; try reflexivity; try lia.
  apply IH; lia.
Qed.

Lemma set_at_oob {A} (l : list A) i x : length l <= i -> set_at l i x = l.
Proof.
  revert i; induction l as [|h t IH]; intros [|i] Hi; cbn [length] in Hi; cbn [set_at]; try reflexivity; try lia.
  rewrite IH by lia; reflexivity.
Qed.

Lemma set_at_nth {A} (l : list A) i d : set_at l i (nth i l d) = l.
Proof.
  revert i; induction l as [|h t IH]; intros [|i]; cbn [set_at nth]; try reflexivity.
  rewrite IH; reflexivity.
Qed.

Lemma set_at_set_at {A} (l : list A) i x y : set_at (set_at l i x) i y = set_at l i y.
Proof.
  revert i; induction l as [|h t IH]; intros [|i]; cbn [set_at]; try reflexivity.
  rewrite IH; reflexivity.
Qed.

Lemma map_set_at {A B} (f : A -> B) (l : list A) i x : map f (set_at l i x) = set_at (map f l) i (f x).
Proof.
  revert i; induction l as [|h t IH]; intros [|i]; cbn [set_at map]; try reflexivity.
  rewrite IH; reflexivity.
Qed.

Lemma set_at_split {A} (l : list A) i x d : i < length l ->
  exists l1 l2, l = l1 ++ nth i l d :: l2 /\ length l1 = i /\ set_at l i x = l1 ++ x :: l2.
Proof.
  revert i; induction l as [|h t IH]; intros [|i] Hi; cbn [length] in Hi; try lia.
  - exists [], t. repeat split.
  - destruct (IH i ltac:(lia)) as [l1 [l2 [E [L S]]]].
    exists (h :: l1), l2. cbn [nth set_at app length]. rewrite <- E, S, L. repeat split.
Qed.

Lemma set_at_app_len {A} (l1 l2 : list A) x y : set_at (l1 ++ x :: l2) (length l1) y = l1 ++ y :: l2.
Proof. induction l1 as [|h t IH]; cbn [app length set_at]; [reflexivity | rewrite IH; reflexivity]. Qed.

(* ------------------------------------------------------------------ *)
(* the signature of a node table: (graph index, is in a bucket)         *)

Notation nd s i := (fnode_at (fs_nodes s) i).
Definition sg (n : fnode) : nat * bool := (f_gix n, f_inlist n).
Definition sig (s : fstate) : list (nat * bool) := map sg (fs_nodes s).
Definition gixs (s : fstate) : list nat := map fst (sig s).
(* graph indices of the nodes that have left the buckets *)
Definition falses (l : list (nat * bool)) : list nat := map fst (filter (fun p => negb (snd p)) l).
(* number of nodes still in a bucket *)
Definition count (l : list (nat * bool)) : nat := length (filter snd l).

Lemma nth_sig s i : nth i (sig s) (sg dflt_node) = sg (nd s i).
Proof. unfold sig, fnode_at. apply map_nth. Qed.

Lemma sig_length s : length (sig s) = length (fs_nodes s).
Proof. unfold sig. apply map_length. Qed.

Lemma inlist_lt s i : f_inlist (nd s i) = true -> i < length (fs_nodes s).
Proof.
  intros H. destruct (lt_dec i (length (fs_nodes s))) as [L|L]; [exact L|].
  unfold fnode_at in H. rewrite nth_overflow in H by lia. discriminate H.
Qed.

Lemma falses_app l1 l2 : falses (l1 ++ l2) = falses l1 ++ falses l2.
Proof. unfold falses. rewrite filter_app, map_app. reflexivity. Qed.
Lemma count_app l1 l2 : count (l1 ++ l2) = count l1 + count l2.
Proof. unfold count. rewrite filter_app, app_length. reflexivity. Qed.

(* ------------------------------------------------------------------ *)
(* buckets                                                             *)

Lemma bkey_eqb_spec a b : reflect (a = b) (bkey_eqb a b).
Proof.
  destruct a as [| |x], b as [| |y]; cbn [bkey_eqb]; try (constructor; congruence).
  destruct (Z.eqb_spec x y); constructor; congruence.
Qed.

Lemma dd_get_set dd d l d' : dd_get (dd_set dd d l) d' = if Z.eqb d d' then l else dd_get dd d'.
Proof.
  induction dd as [|[k l0] t IH]; cbn [dd_set dd_get].
  - reflexivity.
  - destruct (Z.eqb_spec k d) as [->|Hkd]; cbn [dd_get].
    + destruct (Z.eqb d d'); reflexivity.
    + destruct (Z.eqb_spec k d') as [->|Hkd'].
      * destruct (Z.eqb_spec d d'); [congruence | reflexivity].
      * exact IH.
Qed.

Lemma dd_set_keys_in dd d l k : In k (map fst (dd_set dd d l)) <-> k = d \/ In k (map fst dd).
Proof.
  induction dd as [|[k0 l0] t IH]; cbn [dd_set map fst In].
  - intuition.
  - destruct (Z.eqb_spec k0 d) as [->|Hn]; cbn [map fst In]; [intuition|].
    rewrite IH. intuition.
Qed.

Lemma dd_set_keys_nodup dd d l : NoDup (map fst dd) -> NoDup (map fst (dd_set dd d l)).
Proof.
  induction dd as [|[k0 l0] t IH]; cbn [dd_set map fst]; intros H.
  - constructor; [intros [] | constructor].
  - inversion H as [|? ? Hni Hnd]; subst.
    destruct (Z.eqb_spec k0 d) as [->|Hn]; cbn [map fst]; [constructor; assumption|].
    constructor; [|apply IH; exact Hnd].
    rewrite dd_set_keys_in. intros [E|E]; [congruence | exact (Hni E)].
Qed.

Lemma dd_get_in dd d l : NoDup (map fst dd) -> In (d, l) dd -> dd_get dd d = l.
Proof.
  induction dd as [|[k0 l0] t IH]; cbn [map fst In dd_get]; intros Hnd Hx; [destruct Hx|].
  destruct Hx as [E|Hin]; inversion Hnd as [|? ? Hni Hnd']; subst.
  - inversion E; subst. rewrite Z.eqb_refl. reflexivity.
  - destruct (Z.eqb_spec k0 d) as [->|Hn]; [|apply IH; assumption].
    exfalso. apply Hni. apply in_map_iff. exists (d, l). split; [reflexivity | exact Hin].
Qed.

Lemma bucket_get_set s k l k' :
  bucket_get (bucket_set s k l) k' = if bkey_eqb k k' then l else bucket_get s k'.
Proof. destruct k, k'; cbn [bucket_set bucket_get bkey_eqb fs_sinks fs_sources fs_dd]; try reflexivity. apply dd_get_set. Qed.

Lemma nodes_bucket_set s k l : fs_nodes (bucket_set s k l) = fs_nodes s.
Proof. destruct k; reflexivity. Qed.

Lemma keys_bucket_set s k l : NoDup (map fst (fs_dd s)) -> NoDup (map fst (fs_dd (bucket_set s k l))).
Proof. destruct k; cbn [bucket_set fs_dd]; try (intros H; exact H). apply dd_set_keys_nodup. Qed.

Lemma bucket_get_set_node s i n k : bucket_get (set_node s i n) k = bucket_get s k.
Proof. destruct k; reflexivity. Qed.

Lemma remove_one_in x l y : NoDup l -> (In y (remove_one x l) <-> In y l /\ y <> x).
Proof.
  induction l as [|h t IH]; cbn [remove_one In]; intros Hnd; [intuition|].
  inversion Hnd as [|? ? Hni Hnd']; subst.
  destruct (Nat.eqb_spec h x) as [->|Hn].
  - split; [intros H; split; [right; exact H | intros ->; exact (Hni H)] | intros [[E|H] Hy]; [congruence | exact H]].
  - cbn [In]. rewrite (IH Hnd'). split.
    + intros [E|[H1 H2]]; [subst y; split; [left; reflexivity | exact Hn] | split; [right; exact H1 | exact H2]].
    + intros [[E|H1] H2]; [left; exact E | right; split; assumption].
Qed.

Lemma remove_one_nodup x l : NoDup l -> NoDup (remove_one x l).
Proof.
  induction l as [|h t IH]; cbn [remove_one]; intros Hnd; [constructor|].
  inversion Hnd as [|? ? Hni Hnd']; subst.
  destruct (Nat.eqb h x); [exact Hnd'|].
  constructor; [|apply IH; exact Hnd'].
  intros H. apply (remove_one_in x t h Hnd') in H. exact (Hni (proj1 H)).
Qed.

(* the bucket invariant: a node is in a bucket iff pos.is_some(), and then in the bucket that suits
   its current degrees, once *)
Record Inv (s : fstate) : Prop := mkInv {
  inv_in : forall k i, In i (bucket_get s k) <-> (f_inlist (nd s i) = true /\ suitable (nd s i) = k);
  inv_nd : forall k, NoDup (bucket_get s k);
  inv_keys : NoDup (map fst (fs_dd s)) }.

Lemma nd_set_node_same s i n : i < length (fs_nodes s) -> nd (set_node s i n) i = n.
Proof. intros H. cbn [set_node fs_nodes]. unfold fnode_at. apply nth_set_at_same. exact H. Qed.
Lemma nd_set_node_other s i n j : i <> j -> nd (set_node s i n) j = nd s j.
Proof. intros H. cbn [set_node fs_nodes]. unfold fnode_at. apply nth_set_at_other. exact H. Qed.

Lemma suitable_set_inlist n b : suitable (set_inlist n b) = suitable n.
Proof. reflexivity. Qed.

Lemma push_node_nodes s i : fs_nodes (push_node s i) = set_at (fs_nodes s) i (set_inlist (nd s i) true).
Proof. unfold push_node. cbn [set_node fs_nodes]. rewrite nodes_bucket_set. reflexivity. Qed.
Lemma remove_node_nodes s i : fs_nodes (remove_node s i) = set_at (fs_nodes s) i (set_inlist (nd s i) false).
Proof. unfold remove_node. cbn [set_node fs_nodes]. rewrite nodes_bucket_set. reflexivity. Qed.

Lemma push_node_inv s i : i < length (fs_nodes s) -> f_inlist (nd s i) = false -> Inv s -> Inv (push_node s i).
Proof.
  intros Hi Hf [H1 H2 H3]. unfold push_node.
  set (n := nd s i). set (k0 := suitable n).
  set (sb := bucket_set s k0 (i :: bucket_get s k0)).
  assert (Hlen : i < length (fs_nodes sb)) by (unfold sb; rewrite nodes_bucket_set; exact Hi).
  assert (Hni : forall k, ~ In i (bucket_get s k)).
  { intros k Hin. apply H1 in Hin. destruct Hin as [Ht _]. fold n in Hf. unfold n in Hf. congruence. }
  split.
  - intros k x. rewrite bucket_get_set_node. unfold sb at 1. rewrite bucket_get_set.
    destruct (Nat.eq_dec x i) as [->|Hx].
    + rewrite (nd_set_node_same _ _ _ Hlen). rewrite suitable_set_inlist. fold k0.
      destruct (bkey_eqb_spec k0 k) as [E|E].
      * split; [intros _; split; [reflexivity | exact E] | intros _; left; reflexivity].
      * split; [intros Hin; exfalso; exact (Hni k Hin) | intros [_ E']; congruence].
    + rewrite (nd_set_node_other _ _ _ _ (not_eq_sym Hx)). unfold sb. rewrite nodes_bucket_set.
      destruct (bkey_eqb_spec k0 k) as [E|E].
      * subst k. cbn [In]. rewrite H1. split; [intros [E|H]; [congruence | exact H] | intros H; right; exact H].
      * apply H1.
  - intros k. rewrite bucket_get_set_node. unfold sb. rewrite bucket_get_set.
    destruct (bkey_eqb k0 k); [|apply H2]. constructor; [apply Hni | apply H2].
  - cbn [set_node fs_dd]. unfold sb. apply keys_bucket_set. exact H3.
Qed.

Lemma remove_node_inv s i : f_inlist (nd s i) = true -> Inv s -> Inv (remove_node s i).
Proof.
  intros Ht [H1 H2 H3]. pose proof (inlist_lt _ _ Ht) as Hi. unfold remove_node.
  set (n := nd s i). set (k0 := suitable n).
  set (sb := bucket_set s k0 (remove_one i (bucket_get s k0))).
  assert (Hlen : i < length (fs_nodes sb)) by (unfold sb; rewrite nodes_bucket_set; exact Hi).
  split.
  - intros k x. rewrite bucket_get_set_node. unfold sb at 1. rewrite bucket_get_set.
    destruct (Nat.eq_dec x i) as [->|Hx].
    + rewrite (nd_set_node_same _ _ _ Hlen). cbn [set_inlist f_inlist].
      destruct (bkey_eqb_spec k0 k) as [E|E].
      * rewrite (remove_one_in _ _ _ (H2 k0)). split; [intros [_ Hne]; congruence | intros [Hd _]; discriminate Hd].
      * rewrite H1. fold n. fold k0. split; [intros [_ E']; congruence | intros [Hd _]; discriminate Hd].
    + rewrite (nd_set_node_other _ _ _ _ (not_eq_sym Hx)). unfold sb. rewrite nodes_bucket_set.
      destruct (bkey_eqb_spec k0 k) as [E|E].
      * subst k. rewrite (remove_one_in _ _ _ (H2 k0)). rewrite H1. intuition.
      * apply H1.
  - intros k. rewrite bucket_get_set_node. unfold sb. rewrite bucket_get_set.
    destruct (bkey_eqb k0 k); [|apply H2]. apply remove_one_nodup, H2.
  - cbn [set_node fs_dd]. unfold sb. apply keys_bucket_set. exact H3.
Qed.

Lemma set_node_inv s j n' : j < length (fs_nodes s) -> f_inlist (nd s j) = false -> f_inlist n' = false ->
  Inv s -> Inv (set_node s j n').
Proof.
  intros Hj Hf Hf' [H1 H2 H3]. split.
  - intros k x. rewrite bucket_get_set_node. destruct (Nat.eq_dec x j) as [->|Hx].
    + rewrite (nd_set_node_same _ _ _ Hj). rewrite H1. rewrite Hf, Hf'. intuition discriminate.
    + rewrite (nd_set_node_other _ _ _ _ (not_eq_sym Hx)). apply H1.
  - intros k. rewrite bucket_get_set_node. apply H2.
  - exact H3.
Qed.

(* relocating a neighbour keeps the invariant and does not change any (index, in a bucket) pair *)
Lemma relocate_spec ix out s j : Inv s -> Inv (relocate ix out s j) /\ sig (relocate ix out s j) = sig s.
Proof.
  intros HI. unfold relocate. destruct (Nat.eqb j ix); [split; [exact HI | reflexivity]|].
  destruct (f_inlist (nd s j)) eqn:Ht; cbn [negb]; [|split; [exact HI | reflexivity]].
  pose proof (inlist_lt _ _ Ht) as Hj.
  pose proof (remove_node_inv _ _ Ht HI) as HI1.
  set (s1 := remove_node s j) in *.
  assert (Hn1 : fs_nodes s1 = set_at (fs_nodes s) j (set_inlist (nd s j) false)) by apply remove_node_nodes.
  assert (Hj1 : j < length (fs_nodes s1)) by (rewrite Hn1, set_at_length; exact Hj).
  assert (Hnd1 : nd s1 j = set_inlist (nd s j) false).
  { rewrite Hn1. unfold fnode_at. apply nth_set_at_same. exact Hj. }
  set (n' := if out
             then mkFn (f_gix (nd s1 j)) (f_out (nd s1 j)) (f_in (nd s1 j)) (f_od (nd s1 j)) (f_id (nd s1 j) - 1) (f_inlist (nd s1 j))
             else mkFn (f_gix (nd s1 j)) (f_out (nd s1 j)) (f_in (nd s1 j)) (f_od (nd s1 j) - 1) (f_id (nd s1 j)) (f_inlist (nd s1 j))).
  assert (Hn'f : f_inlist n' = false) by (unfold n'; rewrite Hnd1; destruct out; reflexivity).
  assert (Hn'g : f_gix n' = f_gix (nd s j)) by (unfold n'; rewrite Hnd1; destruct out; reflexivity).
  assert (HI2 : Inv (set_node s1 j n')).
  { apply set_node_inv; [exact Hj1 | rewrite Hnd1; reflexivity | exact Hn'f | exact HI1]. }
  set (s2 := set_node s1 j n') in *.
  assert (Hj2 : j < length (fs_nodes s2)) by (unfold s2; cbn [set_node fs_nodes]; rewrite set_at_length; exact Hj1).
  assert (Hnd2 : nd s2 j = n') by (unfold s2; apply nd_set_node_same; exact Hj1).
  split.
  - apply push_node_inv; [exact Hj2 | rewrite Hnd2; exact Hn'f | exact HI2].
  - unfold sig. rewrite push_node_nodes, Hnd2. unfold s2. cbn [set_node fs_nodes]. rewrite Hn1.
    rewrite !set_at_set_at, map_set_at.
    replace (sg (set_inlist n' true)) with (nth j (map sg (fs_nodes s)) (sg dflt_node)); [apply set_at_nth|].
    change (map sg (fs_nodes s)) with (sig s). rewrite nth_sig. unfold sg. cbn [set_inlist f_gix f_inlist].
    rewrite Hn'g, Ht. reflexivity.
Qed.

Lemma fold_relocate_spec ix out l : forall s, Inv s ->
  Inv (fold_left (relocate ix out) l s) /\ sig (fold_left (relocate ix out) l s) = sig s.
Proof.
  induction l as [|j t IH]; intros s HI; cbn [fold_left]; [split; [exact HI | reflexivity]|].
  destruct (relocate_spec ix out s j HI) as [HI' E]. destruct (IH _ HI') as [HI'' E'].
  split; [exact HI'' | rewrite E', E; reflexivity].
Qed.

Lemma update_neighbours_spec s ix : Inv s ->
  Inv (update_neighbours s ix) /\ sig (update_neighbours s ix) = sig s.
Proof.
  intros HI. unfold update_neighbours.
  destruct (fold_relocate_spec ix true (f_out (nd s ix)) s HI) as [HI1 E1].
  set (s1 := fold_left (relocate ix true) (f_out (nd s ix)) s) in *.
  destruct (fold_relocate_spec ix false (f_in (nd s1 ix)) s1 HI1) as [HI2 E2].
  split; [exact HI2 | rewrite E2, E1; reflexivity].
Qed.

(* popping the head of a bucket is removing that node *)
Lemma pop_bucket_some s k i s1 : Inv s -> pop_bucket s k = Some (i, s1) ->
  f_inlist (nd s i) = true /\ Inv s1 /\ fs_nodes s1 = set_at (fs_nodes s) i (set_inlist (nd s i) false).
Proof.
  intros HI. unfold pop_bucket. destruct (bucket_get s k) as [|h rest] eqn:E; [discriminate|].
  intros H. inversion H; subst h s1; clear H.
  assert (Hin : In i (bucket_get s k)) by (rewrite E; left; reflexivity).
  apply (inv_in _ HI) in Hin. destruct Hin as [Ht Hk].
  assert (Er : set_node (bucket_set s k rest) i (set_inlist (nd s i) false) = remove_node s i).
  { unfold remove_node. rewrite Hk, E. cbn [remove_one]. rewrite Nat.eqb_refl. reflexivity. }
  rewrite Er. split; [exact Ht|]. split; [apply remove_node_inv; assumption | apply remove_node_nodes].
Qed.

Lemma pop_bucket_none s k : pop_bucket s k = None <-> bucket_get s k = [].
Proof. unfold pop_bucket. destruct (bucket_get s k); split; congruence. Qed.

(* ------------------------------------------------------------------ *)
(* permutations of lists of numbers, by counting                        *)

Ltac perm_hyps x :=
  repeat match goal with
  | H : Permutation ?a ?b |- _ =>
      let H' := fresh "Hc" in
      pose proof (proj1 (Permutation_count_occ Nat.eq_dec a b) H x) as H'; clear H
  end.
Ltac perm_solve :=
  apply (proj2 (Permutation_count_occ Nat.eq_dec _ _)); let x := fresh "x" in intro x; perm_hyps x;
  repeat rewrite ?count_occ_app, ?count_occ_rev, ?count_occ_nil in *; lia.

(* ------------------------------------------------------------------ *)
(* emitting nodes                                                      *)

Lemma falses_cons_false g l : falses ((g, false) :: l) = g :: falses l.
Proof. reflexivity. Qed.
Lemma falses_cons_true g l : falses ((g, true) :: l) = falses l.
Proof. reflexivity. Qed.
Lemma count_cons_false g l : count ((g, false) :: l) = count l.
Proof. reflexivity. Qed.
Lemma count_cons_true g l : count ((g, true) :: l) = S (count l).
Proof. reflexivity. Qed.

(* from s to s' the nodes em (graph indices) have left the buckets, nothing else has changed in the signature *)
Definition Emit (s : fstate) (em : list nat) (s' : fstate) : Prop :=
  Inv s' /\ gixs s' = gixs s /\ Permutation (falses (sig s')) (em ++ falses (sig s)) /\
  count (sig s') + length em = count (sig s).

Lemma Emit_refl s : Inv s -> Emit s [] s.
Proof. intros H. split; [exact H|]. split; [reflexivity|]. split; [apply Permutation_refl | cbn [length]; lia]. Qed.

Lemma Emit_trans s a s' b s'' : Emit s a s' -> Emit s' b s'' -> Emit s (a ++ b) s''.
Proof.
  intros [_ [G1 [P1 C1]]] [I2 [G2 [P2 C2]]]. split; [exact I2|]. split; [congruence|]. split.
  - perm_solve.
  - rewrite app_length. lia.
Qed.

Lemma Emit_len s em s' : Emit s em s' -> length (fs_nodes s') = length (fs_nodes s).
Proof.
  intros [_ [G _]]. rewrite <- !sig_length. unfold gixs in G.
  rewrite <- (map_length fst (sig s')), G, map_length. reflexivity.
Qed.

(* one pop followed by the update of the neighbours *)
Lemma pop_step s k i s1 : Inv s -> pop_bucket s k = Some (i, s1) ->
  Emit s [f_gix (nd s1 i)] (update_neighbours s1 i).
Proof.
  intros HI Hp. destruct (pop_bucket_some _ _ _ _ HI Hp) as [Ht [HI1 Hn1]].
  pose proof (inlist_lt _ _ Ht) as Hi.
  destruct (update_neighbours_spec s1 i HI1) as [HI2 E2].
  assert (Hg : f_gix (nd s1 i) = f_gix (nd s i)).
  { rewrite Hn1. unfold fnode_at. rewrite nth_set_at_same by exact Hi. reflexivity. }
  assert (Es1 : sig s1 = set_at (sig s) i (f_gix (nd s i), false)).
  { unfold sig. rewrite Hn1, map_set_at. reflexivity. }
  destruct (set_at_split (sig s) i (f_gix (nd s i), false) (sg dflt_node)) as [l1 [l2 [E [L S]]]].
  { rewrite sig_length; exact Hi. }
  rewrite nth_sig in E. unfold sg in E. rewrite Ht in E.
  unfold Emit, gixs. rewrite E2, Es1, S, Hg. rewrite E.
  split; [exact HI2|]. split; [|split].
  - rewrite !map_app. reflexivity.
  - rewrite !falses_app, falses_cons_false, falses_cons_true. cbn [app].
    apply Permutation_sym, Permutation_middle.
  - rewrite !count_app, count_cons_false, count_cons_true. cbn [length]. lia.
Qed.

(* drain: the emitted nodes are appended to acc; with enough fuel the bucket ends empty *)
Lemma drain_spec k : forall fuel s acc s' out, Inv s -> drain fuel k s acc = (s', out) ->
  exists em, out = acc ++ em /\ Emit s em s' /\
    (count (sig s) < fuel -> bucket_get s' k = []) /\
    (em = [] -> s' = s /\ (0 < fuel -> bucket_get s k = [])).
Proof.
  induction fuel as [|f IH]; intros s acc s' out HI; cbn [drain].
  - intros H; inversion H; subst. exists []. rewrite app_nil_r.
    split; [reflexivity|]. split; [apply Emit_refl; exact HI|]. split; [lia|]. intros _. split; [reflexivity | lia].
  - destruct (pop_bucket s k) as [[i s1]|] eqn:P.
    + intros H. pose proof (pop_step _ _ _ _ HI P) as Hs.
      destruct (IH _ _ _ _ (proj1 Hs) H) as [em [Eo [He [Hb _]]]].
      exists ([f_gix (nd s1 i)] ++ em). split; [rewrite Eo, app_assoc; reflexivity|].
      split; [eapply Emit_trans; eassumption|]. split.
      * intros Hc. apply Hb. destruct Hs as [_ [_ [_ C]]]. cbn [length] in C. lia.
      * cbn [app]. intros Hd; discriminate Hd.
    + intros H; inversion H; subst. exists []. rewrite app_nil_r.
      split; [reflexivity|]. split; [apply Emit_refl; exact HI|]. apply pop_bucket_none in P.
      split; [intros _; exact P|]. intros _. split; [reflexivity | intros _; exact P].
Qed.

(* the fuel of drain is sufficient as soon as it exceeds the number of nodes still in the buckets *)
Lemma drain_fuel k : forall f1 f2 s acc, Inv s -> count (sig s) < f1 -> count (sig s) < f2 ->
  drain f1 k s acc = drain f2 k s acc.
Proof.
  induction f1 as [|f1 IH]; intros [|f2] s acc HI H1 H2; try lia. cbn [drain].
  destruct (pop_bucket s k) as [[i s1]|] eqn:P; [|reflexivity].
  destruct (pop_step _ _ _ _ HI P) as [HI' [_ [_ C]]]. cbn [length] in C.
  apply IH; [exact HI' | lia | lia].
Qed.

(* ------------------------------------------------------------------ *)
(* best_delta                                                          *)

Lemma best_delta_some_gen (dd : list (Z * list nat)) : forall acc d,
  fold_left (fun acc '(k, l) => match l with
                                | [] => acc
                                | _ => match acc with Some b => if Z.ltb b k then Some k else acc | None => Some k end
                                end) dd acc = Some d ->
  acc = Some d \/ exists l, In (d, l) dd /\ l <> [].
Proof.
  induction dd as [|[k l] t IH]; intros acc d; cbn [fold_left]; [intros H; left; exact H|].
  intros H. apply IH in H. destruct H as [H|[l' [Hin Hne]]]; [|right; exists l'; split; [right; exact Hin | exact Hne]].
  destruct l as [|x l]; [left; exact H|].
  assert (Hk : Some k = Some d -> acc = Some d \/ exists l0, In (d, l0) ((k, x :: l) :: t) /\ l0 <> []).
  { intros E; inversion E; subst. right. exists (x :: l). split; [left; reflexivity | discriminate]. }
  destruct acc as [b|]; [destruct (Z.ltb b k)|]; auto.
Qed.

Lemma best_delta_none_gen (dd : list (Z * list nat)) : forall acc,
  fold_left (fun acc '(k, l) => match l with
                                | [] => acc
                                | _ => match acc with Some b => if Z.ltb b k then Some k else acc | None => Some k end
                                end) dd acc = None ->
  acc = None /\ forall k l, In (k, l) dd -> l = [].
Proof.
  induction dd as [|[k l] t IH]; intros acc; cbn [fold_left]; [intros H; split; [exact H | intros ? ? []]|].
  intros H. apply IH in H. destruct H as [H1 H2].
  destruct l as [|x l].
  - split; [exact H1|]. intros k0 l0 [E|Hin]; [inversion E; reflexivity | exact (H2 _ _ Hin)].
  - exfalso. destruct acc as [b|]; [destruct (Z.ltb b k)|]; discriminate H1.
Qed.

Lemma best_delta_some dd d : NoDup (map fst dd) -> best_delta dd = Some d -> dd_get dd d <> [].
Proof.
  intros Hnd H. unfold best_delta in H. apply best_delta_some_gen in H.
  destruct H as [H|[l [Hin Hne]]]; [discriminate H|]. rewrite (dd_get_in _ _ _ Hnd Hin). exact Hne.
Qed.

Lemma best_delta_none dd d : best_delta dd = None -> dd_get dd d = [].
Proof.
  intros H. unfold best_delta in H. apply best_delta_none_gen in H. destruct H as [_ H].
  induction dd as [|[k l] t IH]; cbn [dd_get]; [reflexivity|].
  destruct (Z.eqb k d); [apply (H k l); left; reflexivity | apply IH; intros k0 l0 Hin; apply (H k0 l0); right; exact Hin].
Qed.

(* no node in any bucket: everything has been emitted *)
Lemma all_empty s : Inv s -> (forall k, bucket_get s k = []) -> falses (sig s) = gixs s /\ count (sig s) = 0.
Proof.
  intros HI He.
  assert (Hf : forall n, In n (fs_nodes s) -> f_inlist n = false).
  { intros n Hin. destruct (In_nth _ _ dflt_node Hin) as [i [Hi En]].
    destruct (f_inlist n) eqn:Ht; [|reflexivity]. exfalso.
    assert (Hx : In i (bucket_get s (suitable (nd s i)))).
    { apply (inv_in _ HI). unfold fnode_at. rewrite En. split; [exact Ht | reflexivity]. }
    rewrite He in Hx. destruct Hx. }
  unfold gixs, sig, falses, count. induction (fs_nodes s) as [|n t IH]; [split; reflexivity|].
  assert (En : snd (sg n) = false) by (apply Hf; left; reflexivity).
  cbn [map filter]. rewrite En. cbn [negb map length].
  destruct IH as [IH1 IH2]; [intros m Hm; apply Hf; right; exact Hm|].
  split; [f_equal; exact IH1 | exact IH2].
Qed.

(* ------------------------------------------------------------------ *)
(* the main loop, with the fuel of drain as a parameter                 *)

Fixpoint fas_loop_g (df fuel : nat) (s : fstate) (s1 s2 : list nat) : list nat :=
  match fuel with
  | O => s1 ++ s2
  | S f =>
      let '(sa, sinks) := drain df BSink s [] in
      let s2' := rev sinks ++ s2 in
      let '(sb, sources) := drain df BSource sa [] in
      let s1' := s1 ++ sources in
      match best_delta (fs_dd sb) with
      | Some d =>
          match pop_bucket sb (BDelta d) with
          | Some (i, sc) => fas_loop_g df f (update_neighbours sc i) (s1' ++ [f_gix (fnode_at (fs_nodes sc) i)]) s2'
          | None => s1' ++ s2'
          end
      | None =>
          match sinks, sources with
          | [], [] => s1' ++ s2'
          | _, _ => fas_loop_g df f sb s1' s2'
          end
      end
  end.

(* the node table keeps its length, unconditionally *)
Lemma relocate_len ix out s j : length (fs_nodes (relocate ix out s j)) = length (fs_nodes s).
Proof.
  unfold relocate. destruct (Nat.eqb j ix); [reflexivity|]. destruct (negb _); [reflexivity|].
  rewrite push_node_nodes, set_at_length. cbn [set_node fs_nodes].
  rewrite set_at_length, remove_node_nodes, set_at_length. reflexivity.
Qed.
Lemma fold_relocate_len ix out l : forall s, length (fs_nodes (fold_left (relocate ix out) l s)) = length (fs_nodes s).
Proof. induction l as [|j t IH]; intros s; cbn [fold_left]; [reflexivity|]. rewrite IH. apply relocate_len. Qed.
Lemma update_neighbours_len s ix : length (fs_nodes (update_neighbours s ix)) = length (fs_nodes s).
Proof. unfold update_neighbours. rewrite !fold_relocate_len. reflexivity. Qed.
Lemma pop_bucket_len s k i s1 : pop_bucket s k = Some (i, s1) -> length (fs_nodes s1) = length (fs_nodes s).
Proof.
  unfold pop_bucket. destruct (bucket_get s k); [discriminate|]. intros H; inversion H; subst.
  cbn [set_node fs_nodes]. rewrite set_at_length, nodes_bucket_set. reflexivity.
Qed.
Lemma drain_len k : forall fuel s acc, length (fs_nodes (fst (drain fuel k s acc))) = length (fs_nodes s).
Proof.
  induction fuel as [|f IH]; intros s acc; cbn [drain]; [reflexivity|].
  destruct (pop_bucket s k) as [[i s1]|] eqn:P; [|reflexivity].
  rewrite IH, update_neighbours_len. exact (pop_bucket_len _ _ _ _ P).
Qed.

Lemma fas_loop_eq : forall fuel s s1 s2,
  fas_loop fuel s s1 s2 = fas_loop_g (S (length (fs_nodes s))) fuel s s1 s2.
Proof.
  induction fuel as [|f IH]; intros s s1 s2; cbn [fas_loop fas_loop_g]; [reflexivity|].
  pose proof (drain_len BSink (S (length (fs_nodes s))) s []) as L1.
  destruct (drain (S (length (fs_nodes s))) BSink s []) as [sa sinks]. cbn [fst] in L1.
  pose proof (drain_len BSource (S (length (fs_nodes s))) sa []) as L2.
  destruct (drain (S (length (fs_nodes s))) BSource sa []) as [sb sources]. cbn [fst] in L2.
  destruct (best_delta (fs_dd sb)) as [d|].
  - destruct (pop_bucket sb (BDelta d)) as [[i sc]|] eqn:P; [|reflexivity].
    rewrite IH. rewrite update_neighbours_len, (pop_bucket_len _ _ _ _ P), L2, L1. reflexivity.
  - destruct sinks, sources; try reflexivity; rewrite IH, L2, L1; reflexivity.
Qed.

(* the result is a permutation of the graph indices, and does not depend on either fuel as soon as
   both exceed the number of nodes still in the buckets *)
Lemma loop_main : forall fuel df fuel' df' s s1 s2, Inv s ->
  Permutation (s1 ++ s2) (falses (sig s)) ->
  count (sig s) < fuel -> count (sig s) < df -> count (sig s) < fuel' -> count (sig s) < df' ->
  Permutation (fas_loop_g df fuel s s1 s2) (gixs s) /\
  fas_loop_g df' fuel' s s1 s2 = fas_loop_g df fuel s s1 s2.
Proof.
  induction fuel as [|f IH]; intros df [|f'] df' s s1 s2 HI HP Hf Hd Hf' Hd'; try lia.
  cbn [fas_loop_g].
  rewrite (drain_fuel BSink df' df s [] HI Hd' Hd).
  destruct (drain df BSink s []) as [sa sinks] eqn:D1.
  destruct (drain_spec _ _ _ _ _ _ HI D1) as [em1 [Eo1 [E1 [B1 Z1]]]]. cbn [app] in Eo1. subst em1.
  pose proof E1 as [HIa [Ga [Pa Ca]]].
  rewrite (drain_fuel BSource df' df sa [] HIa ltac:(lia) ltac:(lia)).
  destruct (drain df BSource sa []) as [sb sources] eqn:D2.
  destruct (drain_spec _ _ _ _ _ _ HIa D2) as [em2 [Eo2 [E2 [B2 Z2]]]]. cbn [app] in Eo2. subst em2.
  pose proof E2 as [HIb [Gb [Pb Cb]]].
  destruct (best_delta (fs_dd sb)) as [d|] eqn:BD.
  - destruct (pop_bucket sb (BDelta d)) as [[i sc]|] eqn:P.
    + pose proof (pop_step _ _ _ _ HIb P) as [HIc [Gc [Pc Cc]]]. cbn [length] in Cc.
      rewrite <- Ga, <- Gb, <- Gc. apply IH; try lia; [exact HIc|].
      clear - HP Pa Pb Pc. perm_solve.
    + exfalso. apply pop_bucket_none in P. cbn [bucket_get] in P.
      exact (best_delta_some _ _ (inv_keys _ HIb) BD P).
  - destruct sinks as [|x sinks].
    + destruct sources as [|y sources].
      * split; [|reflexivity].
        destruct (Z1 eq_refl) as [-> Hk1]. destruct (Z2 eq_refl) as [-> Hk2].
        destruct (all_empty s HI) as [Ef _].
        { intros [| |d]; cbn [bucket_get]; [apply Hk1; lia | apply Hk2; lia | apply best_delta_none; exact BD]. }
        rewrite <- Ef. cbn [rev app]. rewrite app_nil_r. exact HP.
      * cbn [length] in Cb. rewrite <- Ga, <- Gb. apply IH; try lia; [exact HIb|].
        clear - HP Pa Pb. perm_solve.
    + cbn [length] in Ca. rewrite <- Ga, <- Gb. apply IH; try lia; [exact HIb|].
      clear - HP Pa Pb. perm_solve.
Qed.

(* ------------------------------------------------------------------ *)
(* build_nodes: one entry per endpoint                                  *)

Definition add_new (l : list nat) (g : nat) : list nat := if in_dec Nat.eq_dec g l then l else l ++ [g].

Lemma add_new_in l g x : In x (add_new l g) <-> x = g \/ In x l.
Proof.
  unfold add_new. destruct (in_dec Nat.eq_dec g l) as [H|H].
  - split; [intros Hx; right; exact Hx | intros [->|Hx]; assumption].
  - rewrite in_app_iff. cbn [In]. intuition.
Qed.

Lemma nodup_snoc (l : list nat) g : NoDup l -> ~ In g l -> NoDup (l ++ [g]).
Proof.
  induction l as [|h t IH]; cbn [app]; intros Hnd Hni; [constructor; [intros [] | constructor]|].
  inversion Hnd as [|? ? Hh Ht]; subst. constructor.
  - rewrite in_app_iff. cbn [In]. intros [H|[H|[]]]; [exact (Hh H) | apply Hni; left; symmetry; exact H].
  - apply IH; [exact Ht | intros H; apply Hni; right; exact H].
Qed.

Lemma add_new_nodup l g : NoDup l -> NoDup (add_new l g).
Proof.
  unfold add_new. intros Hnd. destruct (in_dec Nat.eq_dec g l) as [H|H]; [exact Hnd | apply nodup_snoc; assumption].
Qed.

Lemma lookup_gix_none ns g : forall i, lookup_gix ns i g = None -> ~ In g (map f_gix ns).
Proof.
  induction ns as [|n t IH]; intros i; cbn [lookup_gix map In]; [intros _ []|].
  destruct (Nat.eqb_spec (f_gix n) g) as [E|E]; [discriminate|].
  intros H [E'|Hin]; [exact (E E') | exact (IH _ H Hin)].
Qed.

Lemma lookup_gix_some ns g : forall i j, lookup_gix ns i g = Some j -> In g (map f_gix ns).
Proof.
  induction ns as [|n t IH]; intros i j; cbn [lookup_gix map In]; [discriminate|].
  destruct (Nat.eqb_spec (f_gix n) g) as [E|E]; [intros _; left; exact E | intros H; right; exact (IH _ _ H)].
Qed.

Lemma node_entry_gix ns g : map f_gix (fst (node_entry ns g)) = add_new (map f_gix ns) g.
Proof.
  unfold node_entry, add_new. destruct (lookup_gix ns 0 g) as [j|] eqn:L; cbn [fst].
  - apply lookup_gix_some in L. destruct (in_dec Nat.eq_dec g (map f_gix ns)); [reflexivity | contradiction].
  - apply lookup_gix_none in L. destruct (in_dec Nat.eq_dec g (map f_gix ns)); [contradiction|].
    rewrite map_app. reflexivity.
Qed.

Lemma map_gix_set_at_same (l : list fnode) a (n : fnode) :
  f_gix n = f_gix (fnode_at l a) -> map f_gix (set_at l a n) = map f_gix l.
Proof.
  intros E. rewrite map_set_at, E. unfold fnode_at.
  rewrite <- (map_nth f_gix l dflt_node a). apply set_at_nth.
Qed.

Lemma add_edge_entry_gix ns st :
  map f_gix (add_edge_entry ns st) = add_new (add_new (map f_gix ns) (fst st)) (snd st).
Proof.
  unfold add_edge_entry.
  pose proof (node_entry_gix ns (fst st)) as E1. destruct (node_entry ns (fst st)) as [ns1 a]. cbn [fst] in E1.
  pose proof (node_entry_gix ns1 (snd st)) as E2. destruct (node_entry ns1 (snd st)) as [ns2 b]. cbn [fst] in E2.
  rewrite map_gix_set_at_same by reflexivity. rewrite map_gix_set_at_same by reflexivity.
  rewrite E2, E1. reflexivity.
Qed.

Definition endpoint (es : list (nat * nat)) (x : nat) : Prop := exists s t, In (s, t) es /\ (x = s \/ x = t).

Lemma fold_add_edge_gix es : forall ns, NoDup (map f_gix ns) ->
  NoDup (map f_gix (fold_left add_edge_entry es ns)) /\
  forall x, In x (map f_gix (fold_left add_edge_entry es ns)) <-> In x (map f_gix ns) \/ endpoint es x.
Proof.
  induction es as [|[s t] r IH]; intros ns Hnd; cbn [fold_left].
  - split; [exact Hnd|]. intros x. split; [intros H; left; exact H | intros [H|[s [t [[] _]]]]; exact H].
  - destruct (IH (add_edge_entry ns (s, t))) as [H1 H2].
    { rewrite add_edge_entry_gix. apply add_new_nodup, add_new_nodup, Hnd. }
    split; [exact H1|]. intros x. rewrite H2, add_edge_entry_gix, !add_new_in. cbn [fst snd]. unfold endpoint. split.
    + intros [[E|[E|H]]|[s' [t' [Hin Hx]]]].
      * right. exists s, t. split; [left; reflexivity | right; exact E].
      * right. exists s, t. split; [left; reflexivity | left; exact E].
      * left; exact H.
      * right. exists s', t'. split; [right; exact Hin | exact Hx].
    + intros [H|[s' [t' [[E|Hin] Hx]]]].
      * left; right; right; exact H.
      * inversion E; subst s' t'. destruct Hx as [Hx|Hx]; left; [right; left | left]; exact Hx.
      * right. exists s', t'. split; assumption.
Qed.

Lemma build_nodes_gix es : map f_gix (build_nodes es) = map f_gix (fold_left add_edge_entry es []).
Proof. unfold build_nodes. rewrite map_map. apply map_ext. intros n. reflexivity. Qed.

Lemma build_nodes_inlist es n : In n (build_nodes es) -> f_inlist n = false.
Proof. unfold build_nodes. rewrite in_map_iff. intros [m [E _]]. subst n. reflexivity. Qed.

Theorem build_nodes_endpoints es :
  NoDup (map f_gix (build_nodes es)) /\ forall x, In x (map f_gix (build_nodes es)) <-> endpoint es x.
Proof.
  rewrite build_nodes_gix. destruct (fold_add_edge_gix es [] (NoDup_nil _)) as [H1 H2].
  split; [exact H1|]. intros x. rewrite H2. cbn [map In]. intuition.
Qed.

(* ------------------------------------------------------------------ *)
(* the initial push of every node                                       *)

Lemma push_all post : forall pre s,
  fs_nodes s = map (fun n => set_inlist n true) pre ++ post ->
  (forall n, In n post -> f_inlist n = false) -> Inv s ->
  Inv (fold_left push_node (seq (length pre) (length post)) s) /\
  fs_nodes (fold_left push_node (seq (length pre) (length post)) s) = map (fun n => set_inlist n true) (pre ++ post).
Proof.
  induction post as [|n post IH]; intros pre s En Hf HI; cbn [length seq fold_left].
  - split; [exact HI|]. rewrite En, !app_nil_r. reflexivity.
  - assert (Hlen : length pre < length (fs_nodes s)).
    { rewrite En, app_length, map_length. cbn [length]. lia. }
    assert (Hnd : nd s (length pre) = n).
    { rewrite En. unfold fnode_at. rewrite app_nth2; rewrite map_length; [|lia]. rewrite Nat.sub_diag. reflexivity. }
    assert (Hf0 : f_inlist (nd s (length pre)) = false) by (rewrite Hnd; apply Hf; left; reflexivity).
    pose proof (push_node_inv s (length pre) Hlen Hf0 HI) as HI'.
    assert (En' : fs_nodes (push_node s (length pre)) = map (fun n => set_inlist n true) (pre ++ [n]) ++ post).
    { rewrite push_node_nodes, Hnd, En.
      rewrite <- (map_length (fun n => set_inlist n true) pre). rewrite set_at_app_len.
      rewrite map_app, <- app_assoc. reflexivity. }
    destruct (IH (pre ++ [n]) (push_node s (length pre)) En') as [H1 H2]; [intros m Hm; apply Hf; right; exact Hm | exact HI'|].
    rewrite app_length in H1, H2. cbn [length] in H1, H2. rewrite Nat.add_1_r in H1, H2.
    split; [exact H1|]. rewrite H2, <- app_assoc. reflexivity.
Qed.

Definition init_state (es : list (nat * nat)) : fstate :=
  fold_left push_node (seq 0 (length (build_nodes es))) (mkFs (build_nodes es) [] [] []).

Lemma init_state_spec es :
  Inv (init_state es) /\ gixs (init_state es) = map f_gix (build_nodes es) /\
  falses (sig (init_state es)) = [] /\ count (sig (init_state es)) = length (build_nodes es).
Proof.
  unfold init_state. set (ns := build_nodes es).
  destruct (push_all ns [] (mkFs ns [] [] [])) as [HI En].
  - reflexivity.
  - intros n Hn. exact (build_nodes_inlist es n Hn).
  - split.
    + intros k i. assert (Eb : bucket_get (mkFs ns [] [] []) k = []) by (destruct k; reflexivity).
      rewrite Eb. cbn [In fs_nodes]. split; [intros [] | intros [Ht _]].
      assert (Hi := inlist_lt (mkFs ns [] [] []) i Ht). cbn [fs_nodes] in Hi.
      rewrite (build_nodes_inlist es (fnode_at ns i)) in Ht; [discriminate|]. unfold fnode_at. apply nth_In. exact Hi.
    + intros k. assert (Eb : bucket_get (mkFs ns [] [] []) k = []) by (destruct k; reflexivity).
      rewrite Eb. constructor.
    + cbn [fs_dd map]. constructor.
  - cbn [length app] in HI, En. split; [exact HI|].
    unfold gixs, sig, falses, count. rewrite En. clear. induction ns as [|n t IH]; [repeat split|].
    destruct IH as [I1 [I2 I3]]. cbn [map filter sg set_inlist f_gix f_inlist snd negb fst length].
    split; [f_equal; exact I1|]. split; [exact I2 | f_equal; exact I3].
Qed.

(* ------------------------------------------------------------------ *)
(* F1: the sequence is an ordering of the endpoints                     *)

Definition good_node_sequence_fuel (df fuel : nat) (es : list (nat * nat)) : list nat :=
  fas_loop_g df fuel (init_state es) [] [].

Lemma init_state_len es : length (fs_nodes (init_state es)) = length (build_nodes es).
Proof.
  destruct (init_state_spec es) as [_ [G _]]. unfold gixs in G.
  rewrite <- sig_length, <- (map_length fst), G, map_length. reflexivity.
Qed.

Lemma good_node_sequence_as_fuel es :
  good_node_sequence es = good_node_sequence_fuel (S (length (build_nodes es))) (S (length (build_nodes es))) es.
Proof.
  unfold good_node_sequence, good_node_sequence_fuel. fold (init_state es).
  rewrite fas_loop_eq, init_state_len. reflexivity.
Qed.

Theorem good_node_sequence_fuel_perm es df fuel :
  length (build_nodes es) < df -> length (build_nodes es) < fuel ->
  Permutation (good_node_sequence_fuel df fuel es) (map f_gix (build_nodes es)) /\
  good_node_sequence_fuel df fuel es = good_node_sequence es.
Proof.
  intros Hd Hf. destruct (init_state_spec es) as [HI [G [F C]]].
  assert (HP : Permutation ([] ++ []) (falses (sig (init_state es)))) by (rewrite F; constructor).
  rewrite good_node_sequence_as_fuel. unfold good_node_sequence_fuel. rewrite <- G.
  destruct (loop_main (S (length (build_nodes es))) (S (length (build_nodes es))) fuel df (init_state es) [] [] HI HP) as [P E];
    try (rewrite C; lia).
  split; [rewrite E; exact P | exact E].
Qed.

Theorem good_node_sequence_perm es : Permutation (good_node_sequence es) (map f_gix (build_nodes es)).
Proof.
  destruct (good_node_sequence_fuel_perm es (S (length (build_nodes es))) (S (length (build_nodes es)))) as [P E]; try lia.
  rewrite <- E. exact P.
Qed.

Theorem sequence_is_an_ordering es :
  NoDup (good_node_sequence es) /\ forall x, In x (good_node_sequence es) <-> endpoint es x.
Proof.
  pose proof (good_node_sequence_perm es) as P. destruct (build_nodes_endpoints es) as [Hnd Hin]. split.
  - apply (Permutation_NoDup (Permutation_sym P)). exact Hnd.
  - intros x. rewrite <- Hin. split; [apply Permutation_in; exact P | apply Permutation_in, Permutation_sym; exact P].
Qed.

(* the number of table entries is at most twice the number of edges: a bound on the fuel in terms of the input *)
Theorem fuel_sufficient es df fuel :
  length (build_nodes es) < df -> length (build_nodes es) < fuel ->
  good_node_sequence_fuel df fuel es = good_node_sequence es.
Proof. intros Hd Hf. exact (proj2 (good_node_sequence_fuel_perm es df fuel Hd Hf)). Qed.

(* at most two table entries per edge: a fuel bound in terms of the input alone *)
Lemma add_new_len l g : length (add_new l g) <= S (length l).
Proof. unfold add_new. destruct (in_dec Nat.eq_dec g l); [lia|]. rewrite app_length. cbn [length]. lia. Qed.

Lemma fold_add_edge_len es : forall ns, length (fold_left add_edge_entry es ns) <= length ns + 2 * length es.
Proof.
  induction es as [|st r IH]; intros ns; cbn [fold_left length]; [lia|].
  specialize (IH (add_edge_entry ns st)).
  assert (H : length (add_edge_entry ns st) <= S (S (length ns))).
  { rewrite <- (map_length f_gix), add_edge_entry_gix.
    pose proof (add_new_len (add_new (map f_gix ns) (fst st)) (snd st)).
    pose proof (add_new_len (map f_gix ns) (fst st)). rewrite map_length in *. lia. }
  lia.
Qed.

Lemma build_nodes_len es : length (build_nodes es) <= 2 * length es.
Proof. unfold build_nodes. rewrite map_length. pose proof (fold_add_edge_len es []). cbn [length] in H. lia. Qed.

Theorem fuel_sufficient_edges es df fuel : 2 * length es < df -> 2 * length es < fuel ->
  good_node_sequence_fuel df fuel es = good_node_sequence es.
Proof. intros Hd Hf. pose proof (build_nodes_len es). apply fuel_sufficient; lia. Qed.

(* the drain alone: any two fuels above the number of nodes in the buckets give the same result,
   the invariant is kept and the bucket ends empty *)
Theorem drain_fuel_sufficient k f1 f2 s acc : Inv s -> count (sig s) < f1 -> count (sig s) < f2 ->
  drain f1 k s acc = drain f2 k s acc /\
  Inv (fst (drain f1 k s acc)) /\ bucket_get (fst (drain f1 k s acc)) k = [] /\
  count (sig (fst (drain f1 k s acc))) <= count (sig s).
Proof.
  intros HI H1 H2. split; [apply drain_fuel; assumption|].
  destruct (drain f1 k s acc) as [s' out] eqn:D.
  destruct (drain_spec _ _ _ _ _ _ HI D) as [em [_ [[HI' [_ [_ C]]] [Hb _]]]]. cbn [fst].
  split; [exact HI'|]. split; [exact (Hb H1) | lia].
Qed.
