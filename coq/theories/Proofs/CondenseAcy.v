(* condensation with make_acyclic = true: no loops, one edge per pair, the edges present, the
   order of the components along every edge, acyclicity. *)
From Coq Require Import Permutation Sorted.
From PG Require Import Lib.Io Model.View Model.Traversal Model.AlgoBasic Model.CondenseM
                       Spec.Reach Spec.Partition Spec.AlgoSpec Proofs.AlgoAll Proofs.CondenseP.

(* ------------------------------------------------------------------ *)
(* update_edge_list on the (source, target) pairs                      *)

Definition pmatch (dir : bool) (s t : nat) (p : nat * nat) : bool :=
  (Nat.eqb (fst p) s && Nat.eqb (snd p) t)
  || (negb dir && (Nat.eqb (fst p) t && Nat.eqb (snd p) s)).

(* the pair (a, b) is present, in either orientation when undirected *)
Definition pres (dir : bool) (P : list (nat * nat)) (a b : nat) : Prop :=
  In (a, b) P \/ (dir = false /\ In (b, a) P).

Lemma existsb_pmatch dir P s t : existsb (pmatch dir s t) P = true <-> pres dir P s t.
Proof.
  unfold pres. rewrite existsb_exists. split.
  - intros [[a b] [Hi Hm]]. unfold pmatch in Hm. cbn [fst snd] in Hm.
    rewrite orb_true_iff, !andb_true_iff, negb_true_iff, !Nat.eqb_eq in Hm.
    destruct Hm as [[-> ->]|[Hd [-> ->]]]; [left; exact Hi | right; split; assumption].
  - intros [Hi|[Hd Hi]].
    + exists (s, t). split; [exact Hi|]. unfold pmatch. cbn [fst snd].
      rewrite !Nat.eqb_refl. reflexivity.
    + exists (t, s). split; [exact Hi|]. unfold pmatch. cbn [fst snd].
      rewrite Hd, !Nat.eqb_refl. apply orb_true_r.
Qed.

Lemma update_pairs dir es s t w :
  map fst (update_edge_list dir es s t w) =
  if existsb (pmatch dir s t) (map fst es) then map fst es else map fst es ++ [(s, t)].
Proof.
  induction es as [|[[s' t'] w'] es IH]; cbn [update_edge_list map existsb fst app]; [reflexivity|].
  unfold pmatch at 1. cbn [fst snd].
  destruct ((Nat.eqb s' s && Nat.eqb t' t) || (negb dir && (Nat.eqb s' t && Nat.eqb t' s))) eqn:C.
  - cbn [orb map fst]. reflexivity.
  - cbn [orb map fst]. rewrite IH.
    destruct (existsb (pmatch dir s t) (map fst es)); reflexivity.
Qed.

Lemma update_in dir es s t w a b w' :
  In (a, b, w') (update_edge_list dir es s t w) ->
  (exists w'', In (a, b, w'') es) \/ (a, b, w') = (s, t, w).
Proof.
  induction es as [|[[s' t'] w0] es IH]; cbn [update_edge_list].
  - intros [H|[]]. right; symmetry; exact H.
  - destruct ((Nat.eqb s' s && Nat.eqb t' t) || (negb dir && (Nat.eqb s' t && Nat.eqb t' s)));
      intros [H|H].
    + injection H as -> -> _. left. exists w0. left; reflexivity.
    + left. exists w'. right; exact H.
    + left. exists w'. left; exact H.
    + destruct (IH H) as [[w'' Hi]|Heq]; [left; exists w''; right; exact Hi | right; exact Heq].
Qed.

Lemma pres_update dir es s t w a b :
  pres dir (map fst (update_edge_list dir es s t w)) a b <->
  pres dir (map fst es) a b \/ (a = s /\ b = t) \/ (dir = false /\ a = t /\ b = s).
Proof.
  rewrite update_pairs. destruct (existsb (pmatch dir s t) (map fst es)) eqn:X.
  - apply existsb_pmatch in X. split; [left; assumption|].
    intros [H|[[-> ->]|[Hd [-> ->]]]]; [exact H | exact X |].
    destruct X as [X|[_ X]]; [right; split; assumption | left; exact X].
  - unfold pres. split.
    + intros [H|[Hd H]]; apply in_app_or in H; destruct H as [H|[H|[]]].
      * left; left; exact H.
      * injection H as -> ->. right; left; split; reflexivity.
      * left; right; split; assumption.
      * injection H as -> ->. right; right. repeat split; auto.
    + intros [[H|[Hd H]]|[[-> ->]|[Hd [-> ->]]]].
      * left. apply in_or_app; left; exact H.
      * right; split; [exact Hd | apply in_or_app; left; exact H].
      * left. apply in_or_app; right; left; reflexivity.
      * right; split; [exact Hd | apply in_or_app; right; left; reflexivity].
Qed.

(* at most one edge per pair, per unordered pair when undirected *)
Definition uniq (dir : bool) (P : list (nat * nat)) : Prop :=
  NoDup P /\ (dir = false -> forall a b, In (a, b) P -> In (b, a) P -> a = b).

Lemma uniq_update dir es s t w :
  uniq dir (map fst es) -> uniq dir (map fst (update_edge_list dir es s t w)).
Proof.
  intros [ND Hs]. rewrite update_pairs.
  destruct (existsb (pmatch dir s t) (map fst es)) eqn:X; [split; assumption|].
  assert (NP : ~ pres dir (map fst es) s t).
  { rewrite <- existsb_pmatch. rewrite X. discriminate. }
  split.
  - apply nodup_app_intro; [exact ND | constructor; [intros [] | constructor] |].
    intros x Hx [<-|[]]. apply NP. left; exact Hx.
  - intros Hd a b Ha Hb. apply in_app_or in Ha. apply in_app_or in Hb.
    destruct Ha as [Ha|[Ha|[]]]; destruct Hb as [Hb|[Hb|[]]].
    + apply Hs; assumption.
    + injection Hb as -> ->. exfalso. apply NP. right. split; assumption.
    + injection Ha as -> ->. exfalso. apply NP. right. split; assumption.
    + injection Ha as -> ->. injection Hb as Hb _. exact Hb.
Qed.

(* ------------------------------------------------------------------ *)
(* The fold with make_acyclic = true                                   *)

Lemma cond_fold_prov dir sccs (Q : nat -> nat -> Prop) l acc :
  (forall a b w, In (a, b, w) acc -> Q a b) ->
  (forall q, In q l -> comp_of sccs (esrc q) <> comp_of sccs (etgt q) ->
             Q (comp_of sccs (esrc q)) (comp_of sccs (etgt q))) ->
  forall a b w, In (a, b, w) (fold_left (cond_step true dir sccs) l acc) -> Q a b.
Proof.
  revert acc; induction l as [|q l IH]; intros acc Ha Hl; cbn [fold_left]; [exact Ha|].
  apply IH.
  - unfold cond_step.
    destruct (Nat.eqb_spec (comp_of sccs (esrc q)) (comp_of sccs (etgt q))) as [e|n]; [exact Ha|].
    intros a b w Hi. destruct (update_in _ _ _ _ _ _ _ _ Hi) as [[w'' H]|H].
    + eapply Ha; exact H.
    + injection H as -> -> _. apply Hl; [left; reflexivity | exact n].
  - intros q' Hq'. apply Hl. right; exact Hq'.
Qed.

Lemma cond_fold_uniq dir sccs l acc :
  uniq dir (map fst acc) -> uniq dir (map fst (fold_left (cond_step true dir sccs) l acc)).
Proof.
  revert acc; induction l as [|q l IH]; intros acc H; cbn [fold_left]; [exact H|].
  apply IH. unfold cond_step.
  destruct (Nat.eqb (comp_of sccs (esrc q)) (comp_of sccs (etgt q))); [exact H|].
  apply uniq_update; exact H.
Qed.

(* the edge reference q joins component a to component b (either way round when undirected) *)
Definition joins (dir : bool) (sccs : list (list nat)) (q : nat * nat * nat * Z) (a b : nat) : Prop :=
  (comp_of sccs (esrc q) = a /\ comp_of sccs (etgt q) = b) \/
  (dir = false /\ comp_of sccs (esrc q) = b /\ comp_of sccs (etgt q) = a).

Lemma cond_fold_pres dir sccs l acc a b : a <> b ->
  (pres dir (map fst (fold_left (cond_step true dir sccs) l acc)) a b <->
   pres dir (map fst acc) a b \/ exists q, In q l /\ joins dir sccs q a b).
Proof.
  intros Hab. revert acc; induction l as [|q l IH]; intros acc; cbn [fold_left].
  - split; [left; assumption | intros [H|[q [[] _]]]; exact H].
  - rewrite IH. unfold cond_step.
    destruct (Nat.eqb_spec (comp_of sccs (esrc q)) (comp_of sccs (etgt q))) as [Ec|Nc].
    + split; intros [H|[q' [Hq' J]]].
      * left; exact H.
      * right; exists q'; split; [right; exact Hq' | exact J].
      * left; exact H.
      * destruct Hq' as [<-|Hq'].
        -- exfalso. destruct J as [[J1 J2]|[_ [J1 J2]]]; congruence.
        -- right; exists q'; split; assumption.
    + rewrite pres_update. split.
      * intros [[H|H]|[q' [Hq' J]]].
        -- left; exact H.
        -- right; exists q; split; [left; reflexivity|]. unfold joins.
           destruct H as [[-> ->]|[Hd [-> ->]]]; [left; split; reflexivity | right; repeat split; auto].
        -- right; exists q'; split; [right; exact Hq' | exact J].
      * intros [H|[q' [[<-|Hq'] J]]].
        -- left; left; exact H.
        -- left; right. destruct J as [[<- <-]|[Hd [<- <-]]];
             [left; split; reflexivity | right; repeat split; auto].
        -- right; exists q'; split; assumption.
Qed.

Lemma cond_fold_same dir sccs l acc :
  (forall q, In q l -> comp_of sccs (esrc q) = comp_of sccs (etgt q)) ->
  fold_left (cond_step true dir sccs) l acc = acc.
Proof.
  revert acc; induction l as [|q l IH]; intros acc H; cbn [fold_left]; [reflexivity|].
  rewrite IH; [|intros q' Hq'; apply H; right; exact Hq'].
  unfold cond_step. rewrite (H q (or_introl eq_refl)), Nat.eqb_refl. reflexivity.
Qed.

(* ------------------------------------------------------------------ *)
(* A step between two components goes to an earlier component          *)

Lemma step_comp_order v sccs x y :
  no_later_reach v sccs -> In x (concat sccs) -> In y (concat sccs) -> step v x y ->
  comp_of sccs x <> comp_of sccs y -> comp_of sccs y < comp_of sccs x.
Proof.
  intros Hor Hx Hy Hs Hne.
  destruct (comp_of_spec sccs x Hx) as [_ [c1 [N1 I1]]].
  destruct (comp_of_spec sccs y Hy) as [_ [c2 [N2 I2]]].
  destruct (lt_eq_lt_dec (comp_of sccs x) (comp_of sccs y)) as [[L|E]|G];
    [exfalso | contradiction | exact G].
  apply (Hor _ _ c1 c2 L N1 N2 x y I1 I2). apply reachable_step1. exact Hs.
Qed.

(* ------------------------------------------------------------------ *)
(* Walks over an edge list                                             *)

Inductive ewalk (es : list (nat * nat * Z)) : nat -> nat -> Prop :=
| ewalk_one s t w : In (s, t, w) es -> ewalk es s t
| ewalk_cons s t u w : In (s, t, w) es -> ewalk es t u -> ewalk es s u.

Lemma ewalk_decr es : (forall s t w, In (s, t, w) es -> t < s) ->
  forall s t, ewalk es s t -> t < s.
Proof.
  intros H s t W. induction W as [s t w Hi | s t u w Hi W IH].
  - exact (H s t w Hi).
  - specialize (H s t w Hi). lia.
Qed.

(* ------------------------------------------------------------------ *)
(* (d) the theorems                                                    *)

Section Acyclic.
Variables (v : view) (sccs members : list (list nat)) (es : list (nat * nat * Z)).
Hypothesis Hg : graph_view v.
Hypothesis E : kosaraju_scc v = Ok sccs.
Hypothesis C : condensation v true = Ok (members, es).

Lemma cond_acy_edge_order : forall s t w, In (s, t, w) es -> t < s.
Proof.
  destruct (condensation_inv v true sccs members es Hg E C) as [_ [-> [ND [Hin [_ Hor]]]]].
  unfold cond_edges. apply cond_fold_prov; [intros a b w []|].
  intros q Hq Hne. destruct (gv_eref_nodes v q Hg Hq) as [H1 H2].
  apply (step_comp_order v sccs (esrc q) (etgt q) Hor);
    [apply Hin; exact H1 | apply Hin; exact H2 | | exact Hne].
  destruct Hg as [_ [_ [Hst _]]]. apply Hst; exact Hq.
Qed.

Lemma cond_acy_no_loop : forall s t w, In (s, t, w) es -> s <> t.
Proof. intros s t w H. pose proof (cond_acy_edge_order s t w H). lia. Qed.

Lemma cond_acy_no_closed_walk : forall s, ~ ewalk es s s.
Proof.
  intros s W. pose proof (ewalk_decr es cond_acy_edge_order s s W). lia.
Qed.

Lemma cond_acy_unique :
  NoDup (map fst es) /\
  (vdirected v = false -> forall s t, In (s, t) (map fst es) -> ~ In (t, s) (map fst es)).
Proof.
  assert (U : uniq (vdirected v) (map fst es)).
  { destruct (condensation_inv v true sccs members es Hg E C) as [_ [-> _]].
    unfold cond_edges. apply cond_fold_uniq. split; [constructor | intros _ a b []]. }
  destruct U as [U1 U2]. split; [exact U1|].
  intros Hd s t H1 H2. pose proof (U2 Hd s t H1 H2) as Heq. subst t.
  apply in_map_iff in H1. destruct H1 as [[[a b] w] [Hf Hi]]. cbn [fst] in Hf.
  injection Hf as -> ->. exact (cond_acy_no_loop s s w Hi eq_refl).
Qed.

Lemma cond_acy_edge_iff : forall k1 k2, k1 <> k2 ->
  ((In (k1, k2) (map fst es) \/ (vdirected v = false /\ In (k2, k1) (map fst es))) <->
   exists q m1 m2, In q (verefs v) /\
     nth_error members k1 = Some m1 /\ nth_error members k2 = Some m2 /\
     ((In (esrc q) m1 /\ In (etgt q) m2) \/
      (vdirected v = false /\ In (esrc q) m2 /\ In (etgt q) m1))).
Proof.
  intros k1 k2 Hne.
  destruct (condensation_inv v true sccs members es Hg E C) as [-> [-> [ND [Hin _]]]].
  unfold cond_edges.
  pose proof (cond_fold_pres (vdirected v) sccs (verefs v) [] k1 k2 Hne) as HP.
  unfold pres in HP at 1. rewrite HP. clear HP. split.
  - intros [[[]|[_ []]]|[q [Hq J]]]. destruct (gv_eref_nodes v q Hg Hq) as [H1 H2].
    assert (M : forall x k, In x (vnodes v) -> comp_of sccs x = k ->
                exists m, nth_error (cond_members v sccs) k = Some m /\ In x m).
    { intros x k Hx Hk. apply (comp_of_member v sccs x k ND Hin Hx). exact Hk. }
    destruct J as [[J1 J2]|[Hd [J1 J2]]].
    + destruct (M _ _ H1 J1) as [m1 [N1 I1]]. destruct (M _ _ H2 J2) as [m2 [N2 I2]].
      exists q, m1, m2. repeat split; try assumption. left; split; assumption.
    + destruct (M _ _ H1 J1) as [m2 [N2 I2]]. destruct (M _ _ H2 J2) as [m1 [N1 I1]].
      exists q, m1, m2. repeat split; try assumption. right; repeat split; assumption.
  - intros [q [m1 [m2 [Hq [N1 [N2 J]]]]]]. right. exists q. split; [exact Hq|].
    destruct (gv_eref_nodes v q Hg Hq) as [H1 H2].
    assert (M : forall x k m, In x (vnodes v) -> nth_error (cond_members v sccs) k = Some m ->
                In x m -> comp_of sccs x = k).
    { intros x k m Hx Hk Hm. apply (comp_of_member v sccs x k ND Hin Hx). exists m; split; assumption. }
    destruct J as [[J1 J2]|[Hd [J1 J2]]].
    + left. split; [exact (M _ _ _ H1 N1 J1) | exact (M _ _ _ H2 N2 J2)].
    + right. split; [exact Hd|]. split; [exact (M _ _ _ H1 N2 J1) | exact (M _ _ _ H2 N1 J2)].
Qed.

(* with symmetric steps (an undirected Graph) every edge stays inside one component *)
Lemma cond_acy_sym_empty : step_sym v -> es = [].
Proof.
  intros Hsym.
  destruct (condensation_inv v true sccs members es Hg E C) as [_ [-> [ND [Hin [_ Hor]]]]].
  unfold cond_edges. apply cond_fold_same. intros q Hq.
  destruct (gv_eref_nodes v q Hg Hq) as [H1 H2]. apply Hin in H1. apply Hin in H2.
  assert (Hs : step v (esrc q) (etgt q)) by (destruct Hg as [_ [_ [Hst _]]]; apply Hst; exact Hq).
  destruct (Nat.eq_dec (comp_of sccs (esrc q)) (comp_of sccs (etgt q))) as [e|n]; [exact e|].
  pose proof (step_comp_order v sccs _ _ Hor H1 H2 Hs n).
  pose proof (step_comp_order v sccs _ _ Hor H2 H1 (Hsym _ _ Hs) (fun e => n (eq_sym e))). lia.
Qed.

End Acyclic.

(* ------------------------------------------------------------------ *)
(* The weight kept for a pair is the weight of the last edge reference joining it *)

Definition jpair (dir : bool) (a b s t : nat) : Prop :=
  (a = s /\ b = t) \/ (dir = false /\ a = t /\ b = s).

Lemma update_weight dir es s t w a b w' :
  uniq dir (map fst es) ->
  In (a, b, w') (update_edge_list dir es s t w) ->
  (jpair dir a b s t /\ w' = w) \/ (~ jpair dir a b s t /\ In (a, b, w') es).
Proof.
  induction es as [|[[s' t'] w0] es IH]; intros U; cbn [update_edge_list].
  - intros [H|[]]. injection H as <- <- <-. left. split; [left; split; reflexivity | reflexivity].
  - destruct ((Nat.eqb s' s && Nat.eqb t' t) || (negb dir && (Nat.eqb s' t && Nat.eqb t' s))) eqn:Cnd.
    + assert (J0 : jpair dir s' t' s t).
      { rewrite orb_true_iff, !andb_true_iff, negb_true_iff, !Nat.eqb_eq in Cnd. exact Cnd. }
      intros [H|H].
      * injection H as <- <- <-. left; split; [exact J0 | reflexivity].
      * right. split; [|right; exact H]. intros J.
        destruct U as [ND Hs]. cbn [map fst] in ND, Hs. inversion ND as [|p P Hni _]; subst.
        assert (Hab : In (a, b) (map fst es)).
        { apply in_map_iff. exists (a, b, w'); split; [reflexivity | exact H]. }
        destruct J0 as [[-> ->]|[Hd [-> ->]]]; destruct J as [[-> ->]|[Hd' [-> ->]]].
        -- apply Hni; exact Hab.
        -- assert (t = s) by (apply (Hs Hd' t s); [right; exact Hab | left; reflexivity]).
           subst. apply Hni; exact Hab.
        -- assert (s = t) by (apply (Hs Hd s t); [right; exact Hab | left; reflexivity]).
           subst. apply Hni; exact Hab.
        -- apply Hni; exact Hab.
    + intros [H|H].
      * injection H as <- <- <-. right. split; [|left; reflexivity]. intros J.
        assert (X : (Nat.eqb s' s && Nat.eqb t' t) || (negb dir && (Nat.eqb s' t && Nat.eqb t' s)) = true).
        { rewrite orb_true_iff, !andb_true_iff, negb_true_iff, !Nat.eqb_eq. exact J. }
        congruence.
      * assert (U' : uniq dir (map fst es)).
        { destruct U as [ND Hs]. cbn [map fst] in ND, Hs. inversion ND; subst. split; [assumption|].
          intros Hd x y Hx Hy. apply (Hs Hd); right; assumption. }
        destruct (IH U' H) as [L|[NJ Hi]]; [left; exact L | right; split; [exact NJ | right; exact Hi]].
Qed.

Lemma cond_fold_last dir sccs l acc s t w :
  uniq dir (map fst acc) -> s <> t ->
  In (s, t, w) (fold_left (cond_step true dir sccs) l acc) ->
  (In (s, t, w) acc /\ forall q, In q l -> ~ joins dir sccs q s t) \/
  (exists pre q post, l = pre ++ q :: post /\ joins dir sccs q s t /\ snd q = w /\
                      forall q', In q' post -> ~ joins dir sccs q' s t).
Proof.
  revert acc; induction l as [|q l IH]; intros acc U Hne Hi; cbn [fold_left] in Hi.
  - left; split; [exact Hi | intros q []].
  - assert (U' : uniq dir (map fst (cond_step true dir sccs acc q))).
    { unfold cond_step. destruct (Nat.eqb (comp_of sccs (esrc q)) (comp_of sccs (etgt q)));
        [exact U | apply uniq_update; exact U]. }
    destruct (IH _ U' Hne Hi) as [[Ha Hn]|[pre [q0 [post [El [J [Ew Hp]]]]]]].
    + unfold cond_step in Ha.
      destruct (Nat.eqb_spec (comp_of sccs (esrc q)) (comp_of sccs (etgt q))) as [e|n].
      * left. split; [exact Ha|]. intros q' [<-|Hq']; [|apply Hn; exact Hq'].
        intros [[J1 J2]|[_ [J1 J2]]]; congruence.
      * destruct (update_weight _ _ _ _ _ _ _ _ U Ha) as [[J Ew]|[NJ Ha']].
        -- right. exists [], q, l. split; [reflexivity|]. split; [|split; [symmetry; exact Ew | exact Hn]].
           destruct J as [[-> ->]|[Hd [-> ->]]]; [left; split; reflexivity | right; repeat split; auto].
        -- left. split; [exact Ha'|]. intros q' [<-|Hq']; [|apply Hn; exact Hq'].
           intros J. apply NJ.
           destruct J as [[<- <-]|[Hd [<- <-]]]; [left; split; reflexivity | right; repeat split; auto].
    + right. exists (q :: pre), q0, post. split; [rewrite El; reflexivity|]. repeat split; assumption.
Qed.

Lemma comp_of_member_fixed v sccs x k m :
  NoDup (concat sccs) -> (forall x, In x (concat sccs) <-> In x (vnodes v)) ->
  In x (vnodes v) -> nth_error (cond_members v sccs) k = Some m ->
  (comp_of sccs x = k <-> In x m).
Proof.
  intros ND Hin Hx Hm. rewrite (comp_of_member v sccs x k ND Hin Hx). split.
  - intros [m' [Hm' I]]. rewrite Hm in Hm'. injection Hm' as <-. exact I.
  - intros I. exists m; split; assumption.
Qed.

(* q joins the member lists m1 and m2 (either way round when undirected) *)
Definition joins_lists (dir : bool) (q : nat * nat * nat * Z) (m1 m2 : list nat) : Prop :=
  (In (esrc q) m1 /\ In (etgt q) m2) \/ (dir = false /\ In (esrc q) m2 /\ In (etgt q) m1).

Lemma joins_members v sccs q k1 k2 m1 m2 :
  NoDup (concat sccs) -> (forall x, In x (concat sccs) <-> In x (vnodes v)) ->
  In (esrc q) (vnodes v) -> In (etgt q) (vnodes v) ->
  nth_error (cond_members v sccs) k1 = Some m1 -> nth_error (cond_members v sccs) k2 = Some m2 ->
  (joins (vdirected v) sccs q k1 k2 <-> joins_lists (vdirected v) q m1 m2).
Proof.
  intros ND Hin H1 H2 N1 N2. unfold joins, joins_lists.
  rewrite (comp_of_member_fixed v sccs (esrc q) k1 m1 ND Hin H1 N1).
  rewrite (comp_of_member_fixed v sccs (etgt q) k2 m2 ND Hin H2 N2).
  rewrite (comp_of_member_fixed v sccs (esrc q) k2 m2 ND Hin H1 N2).
  rewrite (comp_of_member_fixed v sccs (etgt q) k1 m1 ND Hin H2 N1).
  reflexivity.
Qed.

Theorem cond_acy_weight_last v sccs members es :
  graph_view v -> kosaraju_scc v = Ok sccs -> condensation v true = Ok (members, es) ->
  forall s t w, In (s, t, w) es ->
  exists pre q post m1 m2,
    verefs v = pre ++ q :: post /\ snd q = w /\
    nth_error members s = Some m1 /\ nth_error members t = Some m2 /\
    joins_lists (vdirected v) q m1 m2 /\
    forall q', In q' post -> ~ joins_lists (vdirected v) q' m1 m2.
Proof.
  intros Hg E C s t w Hi.
  pose proof (cond_acy_no_loop v sccs members es Hg E C s t w Hi) as Hne.
  destruct (condensation_inv v true sccs members es Hg E C) as [-> [-> [ND [Hin _]]]].
  unfold cond_edges in Hi.
  assert (U0 : uniq (vdirected v) (map fst (@nil (nat * nat * Z)))).
  { split; [constructor | intros _ a b []]. }
  destruct (cond_fold_last (vdirected v) sccs (verefs v) [] s t w U0 Hne Hi)
    as [[[] _]|[pre [q [post [El [J [Ew Hp]]]]]]].
  assert (Hq : In q (verefs v)) by (rewrite El; apply in_or_app; right; left; reflexivity).
  destruct (gv_eref_nodes v q Hg Hq) as [H1 H2].
  assert (M : exists m1 m2, nth_error (cond_members v sccs) s = Some m1 /\
                            nth_error (cond_members v sccs) t = Some m2).
  { destruct J as [[J1 J2]|[_ [J1 J2]]].
    - destruct (proj1 (comp_of_member v sccs _ s ND Hin H1) J1) as [m1 [N1 _]].
      destruct (proj1 (comp_of_member v sccs _ t ND Hin H2) J2) as [m2 [N2 _]].
      exists m1, m2; split; assumption.
    - destruct (proj1 (comp_of_member v sccs _ t ND Hin H1) J1) as [m2 [N2 _]].
      destruct (proj1 (comp_of_member v sccs _ s ND Hin H2) J2) as [m1 [N1 _]].
      exists m1, m2; split; assumption. }
  destruct M as [m1 [m2 [N1 N2]]].
  exists pre, q, post, m1, m2. split; [exact El|]. split; [exact Ew|].
  split; [exact N1|]. split; [exact N2|]. split.
  - apply (joins_members v sccs q s t m1 m2 ND Hin H1 H2 N1 N2). exact J.
  - intros q' Hq' J'.
    assert (Hq2 : In q' (verefs v)) by (rewrite El; apply in_or_app; right; right; exact Hq').
    destruct (gv_eref_nodes v q' Hg Hq2) as [H1' H2'].
    apply (Hp q' Hq'). apply (joins_members v sccs q' s t m1 m2 ND Hin H1' H2' N1 N2). exact J'.
Qed.

(* ------------------------------------------------------------------ *)
(* A boolean check of step_sym, for concrete views                     *)

Definition step_symb (v : view) : bool :=
  forallb (fun a => forallb (fun b => mem a (neighbors v b)) (neighbors v a)) (vnodes v).

Lemma step_symb_ok v : VOk v -> step_symb v = true -> step_sym v.
Proof.
  intros [_ [Hno _]] H a b Hab. destruct (Hno a b Hab) as [Ha _].
  unfold step_symb in H. rewrite forallb_forall in H. specialize (H a Ha).
  rewrite forallb_forall in H. apply mem_In. apply H. exact Hab.
Qed.
