(* C13b: the fuel of Model/Vf2M.v suffices: the iterator and the boolean wrappers return Ok. *)
From PG Require Import Lib.Io Lib.ListExtra Model.IsoM Model.Vf2M Spec.IsoSpec Proofs.IsoRefP
                       Proofs.Vf2BaseP Proofs.Vf2StateP Proofs.Vf2MachP.
From Coq Require Import NArith Nnat.

Lemma bnd_le g1 d : bnd g1 d <= 3 * (S (s_n g1)) ^ (S d).
Proof.
  induction d as [|d IH].
  - cbn [bnd]. rewrite Nat.pow_1_r. lia.
  - cbn [bnd]. set (n := s_n g1) in *. set (Q := S n ^ S d) in *.
    assert (HQ : S n <= Q).
    { unfold Q. rewrite <- (Nat.pow_1_r (S n)) at 1. apply Nat.pow_le_mono_r; lia. }
    replace (S n ^ S (S d)) with (S n * Q) by (unfold Q; rewrite (Nat.pow_succ_r' (S n) (S d)); reflexivity).
    assert (n * bnd g1 d <= n * (3 * Q)) by (apply Nat.mul_le_mono_l; exact IH).
    nia.
Qed.

Lemma vf2_fuel_nat g0 g1 :
  Pos.to_nat (vf2_fuel g0 g1) = S (4 * (S (s_n g1)) ^ (S (s_n g0)) + 4).
Proof.
  unfold vf2_fuel.
  change (Pos.to_nat (N.succ_pos ?x)) with (N.to_nat (N.pos (N.succ_pos x))).
  rewrite N.succ_pos_spec, N2Nat.inj_succ. f_equal.
  rewrite N2Nat.inj_add, N2Nat.inj_mul, N2Nat.inj_pow, !Nat2N.id. reflexivity.
Qed.

Lemma vf2_fuel_enough g0 g1 : bnd g1 (s_n g0) + 3 <= Pos.to_nat (vf2_fuel g0 g1).
Proof. rewrite vf2_fuel_nat. pose proof (bnd_le g1 (s_n g0)). lia. Qed.

Section Term.
Variables (sem subgraph : bool) (nm em : Z) (g0 g1 : sgraph6).
Hypothesis He0 : erange g0.
Hypothesis He1 : erange g1.
Variable F : positive.
Hypothesis HF : bnd g1 (s_n g0) + 3 <= Pos.to_nat F.

Theorem matcher_collect_Ok :
  matcher_collect sem subgraph nm em g0 g1 F = Ok (vf2_spec sem subgraph nm em g0 g1).
Proof.
  unfold matcher_collect. rewrite piter_niter.
  change (coll sem subgraph nm em g0 g1 F (Pos.to_nat F) (vs_new g0, vs_new g1, [Outer], []) =
          Ok (vf2_spec sem subgraph nm em g0 g1)).
  unfold vf2_spec. pose proof (pvalid_new g0 g1) as Hv.
  destruct (Nat.eqb_spec (s_n g0) 0) as [E0|E0].
  - assert (Hc : is_complete (vs_new g0) = true).
    { unfold is_complete, vs_new. cbn [vs_gen vs_mapping]. rewrite repeat_length, E0. reflexivity. }
    unfold coll. destruct (Pos.to_nat F) as [|[|c]]; try lia.
    cbn [niter]. unfold matcher_step at 1, isomorphisms. cbn [fst]. rewrite Hc.
    unfold matcher_step at 1, isomorphisms. cbn [fst]. rewrite Hc.
    unfold mapping_out, vs_new. cbn [vs_mapping]. rewrite E0. reflexivity.
  - assert (Hc : is_complete (fst (vs_new g0, vs_new g1)) = false).
    { unfold is_complete, vs_new. cbn [fst vs_gen vs_mapping]. rewrite repeat_length.
      apply Nat.eqb_neq. lia. }
    destruct (Pos.to_nat F) as [|c] eqn:EF; [lia|].
    rewrite coll_S by auto. rewrite EF.
    destruct (outer_all sem subgraph nm em g0 g1 He0 He1 (s_n g0) (vs_new g0, vs_new g1) []
                Hv ltac:(lia) Hc) as (n & l & p & L & B & E).
    pose proof (steps_length _ _ _ _ _ _ _ _ _ _ L) as Hlen.
    rewrite <- E.
    apply (steps_mid_fwd sem subgraph nm em g0 g1 F _ _ _ _ L [] (l ++ opt_list p) 1 1); try lia.
    intros calls k H1 H2. destruct k as [|k]; [lia|]. rewrite mid_S. cbn [loop_step].
    rewrite app_nil_r. destruct p as [m|]; cbn [opt_list].
    + destruct calls as [|c']; [lia|]. rewrite coll_S by auto. rewrite EF, mid_S. cbn [loop_step].
      cbn [rev]. rewrite rev_involutive. reflexivity.
    + rewrite rev_involutive, app_nil_r. reflexivity.
Qed.

Theorem isomorphisms_Ok :
  exists r, isomorphisms sem subgraph nm em g0 g1 F (vs_new g0, vs_new g1) [Outer] = Ok r.
Proof.
  unfold isomorphisms. cbn [fst]. destruct (is_complete (vs_new g0)) eqn:Hc; [eauto|].
  rewrite piter_niter. pose proof (pvalid_new g0 g1) as Hv.
  assert (E0 : s_n g0 <> 0).
  { intros E. unfold is_complete, vs_new in Hc. cbn [vs_gen vs_mapping] in Hc.
    rewrite repeat_length, E in Hc. discriminate. }
  destruct (outer_all sem subgraph nm em g0 g1 He0 He1 (s_n g0) (vs_new g0, vs_new g1) []
              Hv ltac:(lia) Hc) as (n & l & p & L & B & E).
  destruct (steps_first_fwd sem subgraph nm em g0 g1 _ _ _ _ L 1) with (k := Pos.to_nat F)
    as [r Hr]; try lia.
  - intros k Hk. destruct k as [|k]; [lia|]. cbn [niter loop_step]. eauto.
  - rewrite Hr. eauto.
Qed.

End Term.

Theorem vf2_all_Ok subgraph nm em g0 g1 : erange g0 -> erange g1 ->
  vf2_all subgraph nm em g0 g1 = Ok (vf2_spec true subgraph nm em g0 g1).
Proof.
  intros He0 He1. unfold vf2_all, vf2_all_fuel. apply matcher_collect_Ok; auto.
  apply vf2_fuel_enough.
Qed.

Theorem try_match_Ok sem subgraph nm em g0 g1 : erange g0 -> erange g1 ->
  exists o, try_match sem subgraph nm em g0 g1 (vf2_fuel g0 g1) (vs_new g0, vs_new g1) = Ok o.
Proof.
  intros He0 He1. unfold try_match.
  destruct (isomorphisms_Ok sem subgraph nm em g0 g1 He0 He1 (vf2_fuel g0 g1) (vf2_fuel_enough g0 g1))
    as [[[r st'] stack'] H].
  rewrite H. destruct r; eauto.
Qed.
