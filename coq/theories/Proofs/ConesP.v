(* C14, T2: causal_cones (Pearce-Kelly future / past cones) is exact, never panics and never
   runs out of fuel on a well-formed view carrying a valid topological order. *)
From Coq Require Import Sorted Permutation.
From PG Require Import Lib.Io Lib.ListExtra Model.View Model.Traversal Model.AlgoBasic Model.AcyclicM
                       Spec.Reach Spec.DfsEvents Spec.AcyclicSpec
                       Proofs.TravBase Proofs.DfsEventsP Proofs.DfsVisitP Proofs.TreeCtlP Proofs.OrderMapP.

(* ------------------------------------------------------------------ *)
(* well-formed views                                                   *)

Lemma all_out_length v : length (all_out v) = length (out_triples v).
Proof.
  unfold all_out, out_triples. induction (vnodes v) as [|a t IH]; cbn [flat_map]; [reflexivity|].
  rewrite !app_length, !map_length, IH. reflexivity.
Qed.

Lemma all_out_rev_length v : length (all_out (vreversed v)) = length (in_triples v).
Proof.
  unfold all_out, in_triples. change (vnodes (vreversed v)) with (vnodes v).
  induction (vnodes v) as [|a t IH]; cbn [flat_map]; [reflexivity|].
  rewrite !app_length, !map_length, IH. reflexivity.
Qed.

Lemma vwf_all_out_rev v : VWf v -> length (all_out (vreversed v)) = length (all_out v).
Proof.
  intros W. rewrite all_out_rev_length, all_out_length. symmetry. apply Permutation_length, (vw_same _ W).
Qed.

Lemma in_out_triples v e a b : In (e, a, b) (out_triples v) <->
  In a (vnodes v) /\ exists r, In r (out_edges v a) /\ eid r = e /\ tgt r = b.
Proof.
  unfold out_triples. rewrite in_flat_map. split.
  - intros [a' [Ha Hin]]. apply in_map_iff in Hin. destruct Hin as [r [E Hr]].
    injection E as <- <- <-. split; [exact Ha|]. exists r. repeat split; exact Hr.
  - intros [Ha [r [Hr [<- <-]]]]. exists a. split; [exact Ha|]. apply in_map_iff. exists r. split; [reflexivity | exact Hr].
Qed.

Lemma in_in_triples v e a b : In (e, a, b) (in_triples v) <->
  In b (vnodes v) /\ exists r, In r (in_edges v b) /\ eid r = e /\ tgt r = a.
Proof.
  unfold in_triples. rewrite in_flat_map. split.
  - intros [b' [Hb Hin]]. apply in_map_iff in Hin. destruct Hin as [r [E Hr]].
    injection E as <- <- <-. split; [exact Hb|]. exists r. repeat split; exact Hr.
  - intros [Hb [r [Hr [<- <-]]]]. exists b. split; [exact Hb|]. apply in_map_iff. exists r. split; [reflexivity | exact Hr].
Qed.

(* the in-lists and the out-lists show the same edges *)
Lemma vwf_inout v a b : VWf v -> (In b (neighbors v a) <-> In a (neighbors_in v b)).
Proof.
  intros W. split.
  - intros Hb. destruct (vw_out _ W a b Hb) as [Ha _].
    unfold neighbors in Hb. apply in_map_iff in Hb. destruct Hb as [r [Er Hr]].
    assert (Hin : In (eid r, a, b) (out_triples v)).
    { apply in_out_triples. split; [exact Ha|]. exists r. repeat split; assumption. }
    apply (Permutation_in _ (vw_same _ W)) in Hin. apply in_in_triples in Hin.
    destruct Hin as [_ [r' [Hr' [_ Et]]]]. unfold neighbors_in. apply in_map_iff. exists r'. split; assumption.
  - intros Ha. destruct (vw_in _ W a b Ha) as [_ Hb].
    unfold neighbors_in in Ha. apply in_map_iff in Ha. destruct Ha as [r [Er Hr]].
    assert (Hin : In (eid r, a, b) (in_triples v)).
    { apply in_in_triples. split; [exact Hb|]. exists r. repeat split; assumption. }
    apply (Permutation_in _ (Permutation_sym (vw_same _ W))) in Hin. apply in_out_triples in Hin.
    destruct Hin as [_ [r' [Hr' [_ Et]]]]. unfold neighbors. apply in_map_iff. exists r'. split; assumption.
Qed.

Lemma step_rev v a b : VWf v -> (step (vreversed v) a b <-> step v b a).
Proof.
  intros W. unfold step. change (neighbors (vreversed v) a) with (neighbors_in v a).
  symmetry. apply vwf_inout, W.
Qed.

Lemma reach_rev v a b : VWf v -> (reachable (vreversed v) a b <-> reachable v b a).
Proof.
  intros W. split.
  - induction 1 as [|x y Rx IH Hxy]; [apply reach_refl|].
    apply (step_rev v x y W) in Hxy. eapply reachable_left; [exact Hxy | exact IH].
  - induction 1 as [|x y Rx IH Hxy]; [apply reach_refl|].
    apply (step_rev v y x W) in Hxy. eapply reachable_left; [exact Hxy | exact IH].
Qed.

Lemma vwf_cap_step v a b : VWf v -> step v a b -> in_cap v b.
Proof. intros W H. apply (vw_cap _ W). apply (vw_out _ W a b H). Qed.

Lemma vwf_nodes_ok v : VWf v -> nodes_ok v.
Proof. intros W a b H. apply (vw_out _ W a b H). Qed.

Lemma vwf_rev_cap_step v a b : VWf v -> step (vreversed v) a b -> in_cap (vreversed v) b.
Proof.
  intros W H. change (in_cap (vreversed v) b) with (in_cap v b). apply (vw_cap _ W).
  unfold step in H. change (neighbors (vreversed v) a) with (neighbors_in v a) in H.
  apply (vw_in _ W b a H).
Qed.

Lemma vwf_rev_nodes_ok v : VWf v -> nodes_ok (vreversed v).
Proof.
  intros W a b H. change (neighbors (vreversed v) a) with (neighbors_in v a) in H.
  change (vnodes (vreversed v)) with (vnodes v). destruct (vw_in _ W b a H) as [H1 H2]. split; assumption.
Qed.

Lemma reach_nodes v s x : VWf v -> In s (vnodes v) -> reachable v s x -> In x (vnodes v).
Proof. intros W Hs R. induction R as [|x y Rx IH Hxy]; [exact Hs | apply (vw_out _ W x y Hxy)]. Qed.

Lemma reach_nodes_back v s x : VWf v -> In x (vnodes v) -> reachable v s x -> In s (vnodes v).
Proof.
  intros W Hx R. apply (reach_rev v x s W) in R.
  induction R as [|a b Ra IH Hab]; [exact Hx|]. apply (step_rev v a b W) in Hab. apply (vw_out _ W b a Hab).
Qed.

(* ------------------------------------------------------------------ *)
(* topological orders and paths                                        *)

Lemma topo_reach_le v om s x : Topo v om -> reachable v s x -> pos_or0 om s <= pos_or0 om x.
Proof.
  intros T R. induction R as [|x y Rx IH Hxy]; [lia|]. specialize (T x y Hxy). lia.
Qed.

Lemma topo_reach_lt v om s y x : Topo v om -> step v s y -> reachable v y x -> pos_or0 om s < pos_or0 om x.
Proof.
  intros T H R. pose proof (T s y H). pose proof (topo_reach_le v om y x T R). lia.
Qed.

(* T5: a view with a topological order has no directed cycle *)
Theorem topo_no_cycle v om : Topo v om -> no_cycle v.
Proof.
  intros T a b H R. pose proof (topo_reach_lt v om a b a T H R). lia.
Qed.

Theorem topo_acyclic v om : Topo v om -> acyclic v.
Proof.
  intros T c [c' [H R]]. exact (topo_no_cycle v om T c c' H R).
Qed.

Theorem topo_acyclic_all v om : Topo v om -> no_cycle v /\ acyclic v /\ (forall a : nat, ~ step v a a).
Proof.
  intros T. split; [apply (topo_no_cycle v om T)|]. split; [apply (topo_acyclic v om T)|].
  intros a H. exact (topo_no_cycle v om T a a H (reach_refl v a)).
Qed.

(* along a path positions increase, so a bound on the end bounds the whole path *)
Lemma topo_reach_in_lt v om s x bd : Topo v om -> reachable v s x -> pos_or0 om x < bd ->
  reach_in (fun y => pos_or0 om y < bd) v s x.
Proof.
  intros T R. induction R as [|x y Rx IH Hxy]; intros Hb.
  - apply ri_refl. exact Hb.
  - eapply ri_step; [apply IH; specialize (T x y Hxy); lia | exact Hxy | exact Hb].
Qed.

Lemma reach_in_lt_iff v om s x bd : Topo v om ->
  (reach_in (fun y => pos_or0 om y < bd) v s x <-> reachable v s x /\ pos_or0 om x < bd).
Proof.
  intros T. split.
  - intros H. split; [apply (reach_in_reachable _ _ _ _ H) | apply (reach_in_P _ _ _ _ H)].
  - intros [R Hb]. apply (topo_reach_in_lt v om s x bd T R Hb).
Qed.

(* ------------------------------------------------------------------ *)
(* cone_of: a sorted list of the discovered nodes with their positions  *)

Section ConeFold.
Variable om : omap.
Notation pos := (pos_or0 om).
Notation ins := (fun acc u => p2n_insert acc (pos u) u).

Lemma cone_fold us : forall acc,
  psorted acc -> (forall p x, In (p, x) acc -> p = pos x) ->
  (forall a b, In a us \/ In a (map snd acc) -> In b us \/ In b (map snd acc) -> pos a = pos b -> a = b) ->
  psorted (fold_left ins us acc) /\
  forall p x, In (p, x) (fold_left ins us acc) <-> In (p, x) acc \/ (In x us /\ p = pos x).
Proof.
  induction us as [|a rest IH]; intros acc Hs Hacc Hinj; cbn [fold_left].
  - split; [exact Hs|]. intros p x. cbn [In]. tauto.
  - pose proof (p2n_insert_sorted acc (pos a) a Hs) as Hs1.
    assert (Hin1 : forall p x, In (p, x) (p2n_insert acc (pos a) a) <->
              (p = pos a /\ x = a) \/ (p <> pos a /\ In (p, x) acc)).
    { intros p x. apply p2n_insert_In, Hs. }
    destruct (IH (p2n_insert acc (pos a) a)) as [IHs IHi].
    + exact Hs1.
    + intros p x Hx. apply Hin1 in Hx. destruct Hx as [[-> ->]|[_ Hx]]; [reflexivity | apply Hacc, Hx].
    + assert (Hsub : forall c, In c rest \/ In c (map snd (p2n_insert acc (pos a) a)) ->
                In c (a :: rest) \/ In c (map snd acc)).
      { intros c [Hc|Hc]; [left; right; exact Hc|]. apply in_vals in Hc. destruct Hc as [q Hq].
        apply Hin1 in Hq. destruct Hq as [[_ ->]|[_ Hq]]; [left; left; reflexivity|].
        right. apply in_vals. exists q; exact Hq. }
      intros c d Hc Hd. apply Hinj; apply Hsub; assumption.
    + split; [exact IHs|]. intros p x. rewrite IHi, Hin1. cbn [In]. split.
      * intros [[[-> ->]|[_ Hx]]|[Hx Hp]].
        -- right. split; [left; reflexivity | reflexivity].
        -- left; exact Hx.
        -- right. split; [right; exact Hx | exact Hp].
      * intros [Hx|[[<-|Hx] Hp]].
        -- destruct (Nat.eq_dec p (pos a)) as [E|Hne]; [|left; right; split; assumption].
           left; left. split; [exact E|].
           apply Hinj; [right; apply in_vals; exists p; exact Hx | left; left; reflexivity|].
           rewrite <- (Hacc p x Hx). exact E.
        -- left; left. split; [exact Hp | reflexivity].
        -- right. split; assumption.
Qed.

Lemma cone_of_spec evs :
  (forall a b, In a (disc_nodes evs) -> In b (disc_nodes evs) -> pos a = pos b -> a = b) ->
  psorted (cone_of om evs) /\
  forall p x, In (p, x) (cone_of om evs) <-> In x (disc_nodes evs) /\ p = pos x.
Proof.
  intros Hinj. unfold cone_of. change (discovered_of evs) with (disc_nodes evs).
  destruct (cone_fold (disc_nodes evs) []) as [Hs Hi].
  - apply psorted_nil.
  - intros p x [].
  - cbn [map In]. intros a b [Ha|[]] [Hb|[]]. apply Hinj; assumption.
  - split; [exact Hs|]. intros p x. rewrite Hi. cbn [In]. tauto.
Qed.
End ConeFold.

(* ------------------------------------------------------------------ *)
(* the two visitors                                                    *)

Definition cw_fut (om : omap) (maxo : nat) (w : nat) : control :=
  let o := pos_or0 om w in
  if Nat.ltb o maxo then CContinue else if Nat.eqb o maxo then CBreak else CPrune.

Definition cw_past (om : omap) (mino : nat) (w : nat) : control :=
  if Nat.ltb (pos_or0 om w) mino then CPrune else CContinue.

Definition tree_test (f : nat -> bool) (evs : list dfs_event) : bool :=
  existsb (fun e => match e with EvTree _ u => f u | _ => false end) evs.

Definition cones_past (debug : bool) (om : omap) (mn mx : nat) (evs1 : list dfs_event)
           (x : bool * dvst) : res (nat + (list (nat * nat) * list (nat * nat))) :=
  let '(_, s2) := x in
  if tree_test (fun u => Nat.eqb (pos_or0 om u) (pos_or0 om mn)) (rev (vevs s2))
  then Panic
  else if andb debug (tree_test (fun u => Nat.ltb (pos_or0 om mx) (pos_or0 om u)) (rev (vevs s2)))
  then Panic
  else Ok (inr (cone_of om evs1, cone_of om (rev (vevs s2)))).

Definition cones_fut (debug : bool) (v : view) (om : omap) (mn mx : nat)
           (x : bool * dvst) : res (nat + (list (nat * nat) * list (nat * nat))) :=
  let '(brk, s1) := x in
  if andb debug (tree_test (fun u => Nat.ltb (pos_or0 om u) (pos_or0 om mn)) (rev (vevs s1)))
  then Panic
  else if brk then Ok (inl mn)
  else rbind (dfs_visitor (8 * trav_fuel v) (vreversed v) (tree_ctl (cw_past om (pos_or0 om mn))) debug mx
                          (mkDv (vdisc s1) (vfin s1) 0 []))
             (cones_past debug om mn mx (rev (vevs s1))).

Lemma causal_cones_unfold debug v om mn mx :
  causal_cones debug v om mn mx =
  if negb (forallb (fun a => Nat.ltb a (length (n2p om)))
                   (mn :: mx :: flat_map (fun a => a :: neighbors v a ++ neighbors_in v a) (vnodes v)))
  then Panic
  else rbind (dfs_visitor (8 * trav_fuel v) v (tree_ctl (cw_fut om (pos_or0 om mx))) debug mn (mkDv [] [] 0 []))
             (cones_fut debug v om mn mx).
Proof. reflexivity. Qed.

Lemma existsb_false_intro {A} (f : A -> bool) l : (forall x, In x l -> f x = false) -> existsb f l = false.
Proof.
  intros H. destruct (existsb f l) eqn:E; [|reflexivity].
  apply existsb_exists in E. destruct E as [x [Hx Hf]]. rewrite (H x Hx) in Hf. discriminate Hf.
Qed.

Lemma tree_test_false (f : nat -> bool) evs :
  (forall pre x w post, evs = pre ++ EvTree x w :: post -> f w = false) ->
  tree_test f evs = false.
Proof.
  intros H. apply existsb_false_intro. intros e He. destruct e as [a b|x w|a b|a b|a b]; try reflexivity.
  apply in_split in He. destruct He as [pre [post E]]. exact (H pre x w post E).
Qed.

(* ------------------------------------------------------------------ *)
(* T2                                                                  *)

Section Cones.
Variable debug : bool.
Variable v : view.
Variable om : omap.
Variable mn mx : nat.
Hypothesis W : VWf v.
Hypothesis I : OInv (fun n => In n (vnodes v)) om.
Hypothesis T : Topo v om.
Hypothesis Hmn : In mn (vnodes v).
Hypothesis Hmx : In mx (vnodes v).
Hypothesis Hlt : pos_or0 om mn < pos_or0 om mx.

Notation pos := (pos_or0 om).

Lemma cones_range_ok :
  forallb (fun a => Nat.ltb a (length (n2p om)))
          (mn :: mx :: flat_map (fun a => a :: neighbors v a ++ neighbors_in v a) (vnodes v)) = true.
Proof.
  apply forallb_forall. intros a Ha. apply Nat.ltb_lt. apply (oi_len _ _ I).
  destruct Ha as [<-|[<-|Ha]]; [exact Hmn | exact Hmx|].
  apply in_flat_map in Ha. destruct Ha as [c [Hc Ha]]. destruct Ha as [<-|Ha]; [exact Hc|].
  apply in_app_or in Ha. destruct Ha as [Ha|Ha]; [apply (vw_out _ W c a Ha) | apply (vw_in _ W a c Ha)].
Qed.

Lemma good_fut_iff x : Good v (cw_fut om (pos mx)) mn [] x <-> reachable v mn x /\ pos x < pos mx.
Proof.
  unfold Good. split.
  - intros G. split; [apply (reach_in_reachable _ _ _ _ G)|]. apply reach_in_P in G.
    destruct G as [_ [->|Hc]]; [exact Hlt|]. unfold cw_fut in Hc. cbn zeta in Hc.
    destruct (Nat.ltb_spec (pos x) (pos mx)) as [H|H]; [exact H|].
    destruct (Nat.eqb (pos x) (pos mx)); discriminate Hc.
  - intros [R Hb]. eapply reach_in_weaken; [|apply (topo_reach_in_lt v om mn x (pos mx) T R Hb)].
    intros y Hy. cbn beta in Hy. split; [intros []|]. right. unfold cw_fut. cbn zeta.
    destruct (Nat.ltb_spec (pos y) (pos mx)); [reflexivity | lia].
Qed.

Theorem causal_cones_exact :
  exists r, causal_cones debug v om mn mx = Ok r /\
    match r with
    | inl c => c = mn /\ reachable v mn mx
    | inr (fut, past) =>
        ~ reachable v mn mx /\ psorted fut /\ psorted past /\
        (forall p x, In (p, x) fut <-> p = pos x /\ reachable v mn x /\ pos x < pos mx) /\
        (forall p x, In (p, x) past <-> p = pos x /\ reachable v x mx /\ pos mn < pos x)
    end.
Proof.
  rewrite causal_cones_unfold, cones_range_ok. cbn [negb].
  destruct (tree_ctl_visit v (cw_fut om (pos mx)) debug (fun a b => vwf_cap_step v a b W) (vwf_nodes_ok v W)
              (8 * trav_fuel v) mn [] [] 0 [])
    as [brk [s1 [new [Er [Ev [Htree [Hbrk Hdone]]]]]]].
  { intros []. }
  { apply (vw_cap _ W), Hmn. }
  { apply tinv_init. }
  { unfold trav_fuel. lia. }
  rewrite Er. cbn [rbind]. unfold cones_fut. rewrite Ev, app_nil_r, rev_involutive.
  assert (Hchk1 : tree_test (fun u => Nat.ltb (pos u) (pos mn)) new = false).
  { apply tree_test_false. intros pre x w post E. destruct (Htree pre x w post E) as [G [Hs _]].
    apply good_fut_iff in G. destruct G as [R _]. apply Nat.ltb_ge.
    pose proof (topo_reach_le v om mn x T R). pose proof (T x w Hs). lia. }
  rewrite Hchk1, andb_false_r.
  destruct brk.
  - exists (inl mn). split; [reflexivity|]. split; [reflexivity|].
    destruct (Hbrk eq_refl) as [x [w [G [Hs Hc]]]]. apply good_fut_iff in G. destruct G as [R _].
    assert (E : pos w = pos mx).
    { unfold cw_fut in Hc. cbn zeta in Hc. destruct (Nat.ltb (pos w) (pos mx)); [discriminate Hc|].
      destruct (Nat.eqb_spec (pos w) (pos mx)) as [E|_]; [exact E | discriminate Hc]. }
    assert (Hw : In w (vnodes v)) by (apply (vw_out _ W x w Hs)).
    assert (w = mx) by (apply (OInv_pos_inj _ om w mx I Hw Hmx E)). subst w.
    eapply reach_step; [exact R | exact Hs].
  - destruct (Hdone eq_refl) as [Hd1 [Hdisc [Hedges [Hnew HTinv]]]].
    set (D1 := vdisc s1) in *.
    assert (HD1 : forall x, In x D1 <-> reachable v mn x /\ pos x < pos mx).
    { intros x. rewrite Hdisc, good_fut_iff. cbn [In]. tauto. }
    assert (Hnr : ~ reachable v mn mx).
    { intros R. inversion R as [E|x y Rx Hxy]; subst.
      - lia.
      - pose proof (T x mx Hxy) as Hp.
        assert (G : Good v (cw_fut om (pos mx)) mn [] x) by (apply good_fut_iff; split; assumption).
        destruct (Hedges x mx G Hxy) as [Hin|Hc].
        + apply HD1 in Hin. lia.
        + unfold cw_fut in Hc. cbn zeta in Hc. rewrite Nat.ltb_irrefl, Nat.eqb_refl in Hc. discriminate Hc. }
    destruct (tree_ctl_visit (vreversed v) (cw_past om (pos mn)) debug
                (fun a b => vwf_rev_cap_step v a b W) (vwf_rev_nodes_ok v W)
                (8 * trav_fuel v) mx D1 (vfin s1) 0 [])
      as [brk2 [s2 [new2 [Er2 [Ev2 [Htree2 [Hbrk2 Hdone2]]]]]]].
    { intros Hin. apply HD1 in Hin. lia. }
    { change (in_cap (vreversed v) mx) with (in_cap v mx). apply (vw_cap _ W), Hmx. }
    { apply HTinv. intros x Hx. exists x. split; [right; exact Hx | apply reach_refl]. }
    { rewrite (vwf_all_out_rev v W). change (vnode_count (vreversed v)) with (vnode_count v).
      unfold trav_fuel. lia. }
    rewrite Er2. cbn [rbind]. unfold cones_past. rewrite Ev2, app_nil_r, rev_involutive.
    destruct brk2.
    { exfalso. destruct (Hbrk2 eq_refl) as [x [w [_ [_ Hc]]]]. unfold cw_past in Hc.
      destruct (Nat.ltb (pos w) (pos mn)); discriminate Hc. }
    destruct (Hdone2 eq_refl) as [Hd2 [Hdisc2 [Hedges2 [Hnew2 _]]]].
    assert (HG2 : forall x, Good (vreversed v) (cw_past om (pos mn)) mx D1 x <->
                    reachable v x mx /\ pos mn < pos x).
    { intros x. unfold Good. split.
      - intros G. pose proof (reach_in_reachable _ _ _ _ G) as R. apply (reach_rev v mx x W) in R.
        split; [exact R|]. apply reach_in_P in G. destruct G as [Hn [->|Hc]]; [exact Hlt|].
        unfold cw_past in Hc. destruct (Nat.ltb_spec (pos x) (pos mn)) as [|Hge]; [discriminate Hc|].
        destruct (Nat.eq_dec (pos x) (pos mn)) as [E|Hne]; [|lia]. exfalso. apply Hn.
        assert (Hx : In x (vnodes v)) by (apply (reach_nodes_back v x mx W Hmx R)).
        assert (x = mn) by (apply (OInv_pos_inj _ om x mn I Hx Hmn E)). subst x.
        apply HD1. split; [apply reach_refl | exact Hlt].
      - intros [R Hp]. apply (reach_rev v mx x W) in R. revert Hp.
        induction R as [|x y Rx IH Hxy]; intros Hp.
        + apply ri_refl. split; [intros Hin; apply HD1 in Hin; lia | left; reflexivity].
        + pose proof (proj1 (step_rev v x y W) Hxy) as Hyx. pose proof (T y x Hyx) as Hpp.
          eapply ri_step; [apply IH; lia | exact Hxy|]. split.
          * intros Hy. apply HD1 in Hy. destruct Hy as [Ry _]. apply Hnr.
            eapply reachable_trans; [exact Ry|]. eapply reachable_left; [exact Hyx|].
            apply (reach_rev v mx x W). exact Rx.
          * right. unfold cw_past. destruct (Nat.ltb_spec (pos y) (pos mn)); [lia | reflexivity]. }
    assert (Hchk2 : tree_test (fun u => Nat.eqb (pos u) (pos mn)) new2 = false).
    { apply tree_test_false. intros pre x w post E. destruct (Htree2 pre x w post E) as [G [Hs Hn]].
      apply Nat.eqb_neq. intros Ep. apply Hn.
      pose proof (proj1 (step_rev v x w W) Hs) as Hwx.
      assert (Hw : In w (vnodes v)) by (apply (vw_out _ W w x Hwx)).
      assert (w = mn) by (apply (OInv_pos_inj _ om w mn I Hw Hmn Ep)). subst w.
      apply HD1. split; [apply reach_refl | exact Hlt]. }
    assert (Hchk3 : tree_test (fun u => Nat.ltb (pos mx) (pos u)) new2 = false).
    { apply tree_test_false. intros pre x w post E. destruct (Htree2 pre x w post E) as [G [Hs _]].
      apply HG2 in G. destruct G as [R _]. pose proof (proj1 (step_rev v x w W) Hs) as Hwx.
      apply Nat.ltb_ge. pose proof (topo_reach_le v om x mx T R). pose proof (T w x Hwx). lia. }
    rewrite Hchk2, Hchk3, andb_false_r.
    exists (inr (cone_of om new, cone_of om new2)). split; [reflexivity|].
    split; [exact Hnr|].
    destruct (cone_of_spec om new) as [Hs1 Hi1].
    { intros a b Ha Hb. apply Hnew, good_fut_iff in Ha. apply Hnew, good_fut_iff in Hb.
      apply (OInv_pos_inj _ om a b I).
      - apply (reach_nodes v mn a W Hmn), Ha.
      - apply (reach_nodes v mn b W Hmn), Hb. }
    destruct (cone_of_spec om new2) as [Hs2 Hi2].
    { intros a b Ha Hb. apply Hnew2, HG2 in Ha. apply Hnew2, HG2 in Hb.
      apply (OInv_pos_inj _ om a b I).
      - apply (reach_nodes_back v a mx W Hmx), Ha.
      - apply (reach_nodes_back v b mx W Hmx), Hb. }
    split; [exact Hs1|]. split; [exact Hs2|]. split.
    + intros p x. rewrite Hi1, Hnew, good_fut_iff. tauto.
    + intros p x. rewrite Hi2, Hnew2, HG2. tauto.
Qed.

End Cones.
