(* astar over a view (the mirror of petgraph's astar: best scores, estimate scores of expanded
   nodes, predecessor map, re-expansion when a better score is found; no consistency assumed).
   For non-negative costs and any heuristic: no panic, the returned node list is a walk from the
   start to a goal and the returned cost is the cost of that walk (the predecessor chain of a
   popped node is tight: this needs the history of the heap, kept as ghost state), None means
   that no goal is reachable.  For an admissible heuristic the returned cost is the distance to
   the nearest goal. *)
From Coq Require Import Lia ZArith List Permutation.
From PG Require Import Lib.Io Model.View Model.Traversal Model.ShortestM Spec.Paths Proofs.DijkstraP.
Set Implicit Arguments.
Unset Strict Implicit.
Open Scope Z_scope.

(* ------------------------------------------------------------------ the specification *)
(* d is the cost of a cheapest walk from x to a node satisfying is_goal *)
Definition goal_dist (v : view) (is_goal : nat -> bool) (x : nat) (d : Z) : Prop :=
  (exists t p, is_goal t = true /\ walk v x p t /\ walk_cost p = d) /\
  forall t p, is_goal t = true -> walk v x p t -> d <= walk_cost p.

Definition goal_reachable (v : view) (is_goal : nat -> bool) (x : nat) : Prop :=
  exists t, is_goal t = true /\ reachable v x t.

(* the heuristic never overestimates the distance to the nearest goal *)
Definition admissible (v : view) (is_goal : nat -> bool) (est : nat -> Z) : Prop :=
  forall x d, goal_dist v is_goal x d -> est x <= d.

(* the same without mentioning the minimum: est x is a lower bound of every walk from x to a goal;
   only asked of the nodes reachable from s *)
Definition admissible_from (v : view) (is_goal : nat -> bool) (est : nat -> Z) (s : nat) : Prop :=
  forall z, reachable v s z -> forall t p, is_goal t = true -> walk v z p t -> est z <= walk_cost p.

(* node sequence of a walk from s *)
Definition walk_nodes (s : nat) (p : list eref) : list nat := s :: map tgt p.

Lemma goal_dist_unique v is_goal x d1 d2 : goal_dist v is_goal x d1 -> goal_dist v is_goal x d2 -> d1 = d2.
Proof.
  intros [[t1 [p1 [G1 [W1 C1]]]] L1] [[t2 [p2 [G2 [W2 C2]]]] L2].
  pose proof (L1 _ _ G2 W2). pose proof (L2 _ _ G1 W1). lia.
Qed.

(* ------------------------------------------------------------------ maps *)
Lemma sget_In_keys (m : smap) x z : sget m x = Some z -> In x (map fst m).
Proof.
  induction m as [|[k0 x0] t IH]; cbn [sget map fst]; [discriminate|].
  destruct (Nat.eqb_spec k0 x) as [->|Hne]; [left; auto|right; auto].
Qed.

(* ------------------------------------------------------------------ predecessor chains *)
(* chain came x [u1; u2; ...; un]: came x = u1, came u1 = u2, ..., came un = none *)
Fixpoint chain (came : smap) (x : nat) (l : list nat) : Prop :=
  match l with
  | [] => sget came x = None
  | u :: l' => sget came x = Some (Z.of_nat u) /\ chain came u l'
  end.

Lemma path_back_chain came : forall l cur acc f, chain came cur l -> (length l < f)%nat ->
  path_back f came cur acc = Ok (rev l ++ acc).
Proof.
  induction l as [|u l IH]; intros cur acc f Hc Hf; (destruct f as [|f]; [cbn [length] in Hf; lia|]);
    cbn [path_back chain] in *.
  - rewrite Hc. reflexivity.
  - destruct Hc as [Hu Hc]. rewrite Hu, Nat2Z.id.
    rewrite (IH u (u :: acc) f Hc); [|cbn [length] in Hf; lia].
    cbn [rev]. rewrite <- app_assoc. reflexivity.
Qed.

(* the nodes of a chain that have a predecessor *)
Fixpoint kids (x : nat) (l : list nat) : list nat :=
  match l with [] => [] | u :: l' => x :: kids u l' end.

Lemma kids_length x l : length (kids x l) = length l.
Proof. revert x; induction l as [|u l IH]; intros x; cbn [kids length]; auto. Qed.

Lemma kids_incl x l y : In y (kids x l) -> In y (x :: l).
Proof.
  revert x; induction l as [|u l IH]; intros x; cbn [kids]; [intros []|].
  intros [<-|H]; [left; auto|right; apply IH; auto].
Qed.

Lemma kids_nodup x l : NoDup (x :: l) -> NoDup (kids x l).
Proof.
  revert x; induction l as [|u l IH]; intros x H; cbn [kids]; [constructor|].
  inversion H as [|a t Hnin Hnd]; subst. constructor; auto.
  intros Hin. apply Hnin. apply kids_incl; auto.
Qed.

Lemma kids_keys came x l y : chain came x l -> In y (kids x l) -> In y (map fst came).
Proof.
  revert x; induction l as [|u l IH]; intros x Hc; cbn [kids]; [intros []|].
  destruct Hc as [Hu Hc]. intros [<-|H]; [apply (sget_In_keys Hu)|apply (IH _ Hc H)].
Qed.

Lemma chain_length came x l : chain came x l -> NoDup (x :: l) -> (length l <= length came)%nat.
Proof.
  intros Hc Hnd. rewrite <- (kids_length x l), <- (map_length fst came).
  apply NoDup_incl_length; [apply kids_nodup; auto|].
  intros y Hy. apply (kids_keys Hc Hy).
Qed.

Lemma eref_eq_dec (a b : eref) : {a = b} + {a <> b}.
Proof. repeat decide equality. Qed.

(* ghost clocks: last expansion of a node (pop number, insertion number at that pop); for every
   threshold K the last pop whose key was at least K ("root" of the current K-low phase):
   its node, the score of that node, the insertion number and the pop number at that pop *)
Record ghostx := mkGx {
  lastT : nat -> nat; lastSeq : nat -> nat; tm : nat;
  rN : Z -> nat; rG : Z -> Z; rS : Z -> nat; rT : Z -> nat }.

Definition gx_reset (gx : ghostx) (k0 : Z) (x0 : nat) (g0 : Z) (seq : nat) : ghostx :=
  mkGx (lastT gx) (lastSeq gx) (S (tm gx))
       (fun K => if Z.leb K k0 then x0 else rN gx K)
       (fun K => if Z.leb K k0 then g0 else rG gx K)
       (fun K => if Z.leb K k0 then seq else rS gx K)
       (fun K => if Z.leb K k0 then S (tm gx) else rT gx K).

Definition gx_mark (gx : ghostx) (x0 : nat) (seq : nat) : ghostx :=
  mkGx (fun u => if Nat.eqb u x0 then tm gx else lastT gx u)
       (fun u => if Nat.eqb u x0 then seq else lastSeq gx u) (tm gx)
       (rN gx) (rG gx) (rS gx) (rT gx).

Section Astar.
  Variable v : view.
  Variable s : nat.
  Variable is_goal : nat -> bool.
  Variable est : nat -> Z.
  Hypothesis HN : nonneg v.

  (* the predecessor chain of x reaches s and every link is tight: score x = score pred + weight *)
  Inductive TC (sc came : smap) : nat -> Prop :=
  | TC_root : sget came s = None -> TC sc came s
  | TC_step x u e g gu : sget came x = Some (Z.of_nat u) -> In e (out_edges v u) -> tgt e = x ->
      sget sc x = Some g -> sget sc u = Some gu -> g = gu + ewgt e -> TC sc came u -> TC sc came x.

  (* ghost state: lg x = the score with which x was last expanded; imp x = the insertion number
     of the heap entry pushed when the score of x was last lowered;
     Rel x e: the out-entry e of the expanded node x has been relaxed *)
  Record AInv (Rel : nat -> eref -> Prop) (lg : nat -> option Z) (imp : nat -> nat) (gx : ghostx)
         (sc ests came : smap) (h : heap) (seq : nat) : Prop := {
    aW : forall x g, sget sc x = Some g -> exists p, walk v s p x /\ walk_cost p = g;
    aS : sget sc s = Some 0;
    aK : forall k x q, In (k, x, q) h -> exists g, sget sc x = Some g /\ g + est x <= k;
    aQ : forall k x q, In (k, x, q) h -> (q < seq)%nat;
    aN : NoDup (map hseq h);
    aL : forall x gl, lg x = Some gl -> is_goal x = false /\
           exists g, sget sc x = Some g /\ g <= gl /\
             forall e, In e (out_edges v x) -> Rel x e ->
                       exists d, sget sc (tgt e) = Some d /\ d <= gl + ewgt e;
    aE : forall x kl, sget ests x = Some kl -> exists gl, lg x = Some gl /\ gl + est x <= kl;
    aO : forall x g, sget sc x = Some g -> lg x = Some g \/ exists q, In (g + est x, x, q) h;
    aC0 : sget came s = None;
    aC1 : forall x g, sget sc x = Some g -> x <> s -> exists pz, sget came x = Some pz;
    aC : forall x pz, sget came x = Some pz ->
           exists u e g gu, pz = Z.of_nat u /\ In e (out_edges v u) /\ tgt e = x /\
             sget sc x = Some g /\ sget sc u = Some gu /\ gu + ewgt e <= g /\
             (gu < g \/ (imp u < imp x)%nat) /\
             (g = gu + ewgt e \/ (exists gl, lg u = Some gl /\ gu < gl) \/ ~ Rel u e);
    aI : forall x, (imp x < seq)%nat;
    aCD : NoDup (map fst came);
    bE : forall u gl, lg u = Some gl -> exists K, sget ests u = Some K;
    bX : forall x u, sget came x = Some (Z.of_nat u) -> exists gl, lg u = Some gl;
    bR : forall K, (rS gx K <= seq)%nat /\ (rT gx K <= tm gx)%nat;
    bRl : forall u, (lastT gx u <= tm gx)%nat /\ (lastSeq gx u <= seq)%nat;
    bJ0 : forall k x q, In (k, x, q) h -> (q <= imp x)%nat;
    bJ1 : forall K k x q, In (k, x, q) h -> k < K -> (rS gx K <= q)%nat;
    bJ2 : forall K x y, sget came x = Some (Z.of_nat y) -> (rS gx K <= imp x)%nat ->
            (y = rN gx K \/ (rS gx K <= imp y)%nat) /\ (rT gx K <= lastT gx y)%nat;
    bJ3 : forall u gl K, lg u = Some gl -> sget ests u = Some K ->
            (rN gx K = u /\ rG gx K = gl /\ rS gx K = lastSeq gx u) \/ (lastT gx u < rT gx K)%nat;
    bJ5 : forall K x g, sget sc x = Some g -> (rS gx K <= imp x)%nat -> rG gx K <= g;
    bJ5r : forall K, sget sc (rN gx K) = Some (rG gx K);
    bJ6 : forall u gl g, lg u = Some gl -> sget sc u = Some g -> g < gl -> (lastSeq gx u <= imp u)%nat;
    bJ7 : forall K, TC sc came (rN gx K)
  }.

  Definition RAll : nat -> eref -> Prop := fun _ _ => True.
  Definition RDone (x0 : nat) (done : list eref) : nat -> eref -> Prop :=
    fun x e => x <> x0 \/ In e done.

  Lemma score_nonneg Rel lg imp gx sc ests came h seq x g :
    AInv Rel lg imp gx sc ests came h seq -> sget sc x = Some g -> 0 <= g.
  Proof.
    intros I Hg. destruct (aW I Hg) as [p [W <-]]. apply (walk_cost_nonneg HN W).
  Qed.

  (* ---------------------------------------------------------------- the predecessor chain of a scored node *)
  Definition meas (sc : smap) (imp : nat -> nat) (seq : nat) (x : nat) : nat :=
    (match sget sc x with Some g => Z.to_nat g | None => 0%nat end * seq + imp x)%nat.

  Lemma meas_pred Rel lg imp gx sc ests came h seq x u e g gu :
    AInv Rel lg imp gx sc ests came h seq -> sget sc x = Some g -> sget sc u = Some gu ->
    In e (out_edges v u) -> gu + ewgt e <= g -> (gu < g \/ (imp u < imp x)%nat) ->
    (meas sc imp seq u < meas sc imp seq x)%nat.
  Proof.
    intros I Hg Hgu He Hle Hlt.
    pose proof (score_nonneg I Hgu) as Hgu0. pose proof (HN He) as Hw.
    unfold meas. rewrite Hg, Hgu. pose proof (aI I u). pose proof (aI I x).
    destruct Hlt as [Hlt|Hlt].
    - assert (Z.to_nat gu + 1 <= Z.to_nat g)%nat by lia. nia.
    - assert (Z.to_nat gu <= Z.to_nat g)%nat by lia. nia.
  Qed.

  Lemma chain_exists Rel lg imp gx sc ests came h seq : AInv Rel lg imp gx sc ests came h seq ->
    forall n x g, sget sc x = Some g -> (meas sc imp seq x < n)%nat ->
      exists l w, chain came x l /\ walk v s w x /\ walk_nodes s w = rev l ++ [x] /\
                  walk_cost w <= g /\ NoDup (x :: l) /\
                  forall y, In y l -> (meas sc imp seq y < meas sc imp seq x)%nat.
  Proof.
    intros I. induction n as [|n IH]; intros x g Hg Hm; [lia|].
    destruct (Nat.eq_dec x s) as [->|Hne].
    - exists [], []. cbn [chain rev app walk_nodes map walk_cost].
      rewrite (aS I) in Hg. injection Hg as <-.
      split; [apply (aC0 I)|]. split; [constructor|]. split; [reflexivity|]. split; [lia|].
      split; [constructor; [intros []|constructor]|intros y []].
    - destruct (aC1 I Hg Hne) as [pz Hpz].
      destruct (aC I Hpz) as [u [e [g' [gu [-> [He [Ht [Hg' [Hgu [Hle [Hlt _]]]]]]]]]]].
      assert (g' = g) by congruence. subst g'.
      pose proof (HN He) as Hw.
      pose proof (meas_pred I Hg Hgu He Hle Hlt) as Hmu.
      destruct (IH u gu Hgu) as [l [w [Hc [W [Hnodes [Hcost [Hnd Hms]]]]]]]; [lia|].
      exists (u :: l), (w ++ [e]). cbn [chain]. split; [split; auto|].
      split; [rewrite <- Ht; apply (walk_snoc e W He)|].
      split.
      { unfold walk_nodes in *. rewrite map_app. cbn [map rev].
        rewrite app_comm_cons, Hnodes, Ht. reflexivity. }
      split; [rewrite walk_cost_snoc; lia|].
      split.
      { constructor; auto. intros [Heq|Hin].
        - subst u. lia.
        - pose proof (Hms _ Hin). lia. }
      intros y [<-|Hin]; auto. pose proof (Hms _ Hin). lia.
  Qed.

  (* along a tight chain the walk has exactly the score as its cost *)
  Lemma TC_chain_walk sc came x : sget sc s = Some 0 -> TC sc came x -> forall l, chain came x l ->
    exists w g, sget sc x = Some g /\ walk v s w x /\ walk_nodes s w = rev l ++ [x] /\ walk_cost w = g.
  Proof.
    intros Hs0 H. induction H as [Hc0 | x u e g gu Hc He Ht Hg Hgu Heq Hu IH]; intros l Hl.
    - destruct l as [|u l]; cbn [chain] in Hl; [|destruct Hl as [Hl _]; congruence].
      exists [], 0. split; auto. split; [constructor|]. split; reflexivity.
    - destruct l as [|u' l]; cbn [chain] in Hl; [congruence|]. destruct Hl as [Hl Hl'].
      assert (u' = u) by (apply Nat2Z.inj; congruence). subst u'.
      destruct (IH _ Hl') as [w [g' [Hg' [W [Hn Hcost]]]]].
      exists (w ++ [e]), g. split; auto. split; [rewrite <- Ht; apply (walk_snoc e W He)|].
      split.
      + unfold walk_nodes in *. rewrite map_app. cbn [map rev].
        rewrite app_comm_cons, Hn, Ht. reflexivity.
      + rewrite walk_cost_snoc. assert (g' = gu) by congruence. lia.
  Qed.

  Lemma path_back_ok Rel lg imp gx sc ests came h seq x g :
    AInv Rel lg imp gx sc ests came h seq -> sget sc x = Some g -> TC sc came x ->
    exists w, path_back (S (length came)) came x [x] = Ok (walk_nodes s w) /\
              walk v s w x /\ walk_cost w = g.
  Proof.
    intros I Hg HT.
    destruct (@chain_exists _ _ _ _ _ _ _ _ _ I (S (meas sc imp seq x)) x g Hg)
      as [l [_ [Hc [_ [_ [_ [Hnd _]]]]]]]; [lia|].
    destruct (TC_chain_walk (aS I) HT Hc) as [w [g' [Hg' [W [Hnodes Hcost]]]]].
    assert (g' = g) by congruence. subst g'.
    exists w. split; [|split; auto].
    rewrite Hnodes. apply path_back_chain; auto.
    pose proof (chain_length Hc Hnd). lia.
  Qed.

  (* lowering the score of a node that is not on a tight chain keeps the chain tight *)
  Lemma TC_preserved sc came x y ns pz : TC sc came x -> y <> s ->
    (forall old, sget sc y = Some old -> ns < old) ->
    forall gx, sget sc x = Some gx -> gx <= ns ->
    TC (sset sc y ns) (sset came y pz) x.
  Proof.
    intros H Hys Hlt. induction H as [Hc0 | x u e g gu Hc He Ht Hg Hgu Heq Hu IH]; intros g0 Hg0 Hle.
    - apply TC_root. rewrite sget_sset. destruct (Nat.eqb_spec y s); [congruence|auto].
    - assert (g0 = g) by congruence. subst g0. pose proof (HN He) as Hw.
      assert (Hxy : y <> x) by (intros ->; pose proof (Hlt _ Hg); lia).
      assert (Huy : y <> u) by (intros ->; pose proof (Hlt _ Hgu); lia).
      apply (@TC_step _ _ x u e g gu); auto.
      + rewrite sget_sset. destruct (Nat.eqb_spec y x); [congruence|auto].
      + rewrite sget_sset. destruct (Nat.eqb_spec y x); [congruence|auto].
      + rewrite sget_sset. destruct (Nat.eqb_spec y u); [congruence|auto].
      + apply (IH gu Hgu). lia.
  Qed.

  (* ---------------------------------------------------------------- the popped node has a tight chain *)
  Lemma tc_pop lg imp gx sc ests came h seq k0 x0 q0 :
    AInv RAll lg imp gx sc ests came h seq -> In (k0, x0, q0) h ->
    (forall e', In e' h -> k0 <= hkey e') -> TC sc came x0.
  Proof.
    intros I Hin Hmin.
    set (P := fun x => forall K, k0 < K -> (rS gx K <= imp x)%nat \/ TC sc came x).
    assert (Hgen : forall n x g, sget sc x = Some g -> (meas sc imp seq x < n)%nat -> P x -> TC sc came x).
    { induction n as [|n IH]; intros x g Hg Hm HP; [lia|].
      destruct (Nat.eq_dec x s) as [->|Hne]; [apply TC_root; apply (aC0 I)|].
      destruct (aC1 I Hg Hne) as [pz Hpz].
      destruct (aC I Hpz) as [u [e [g' [gu [-> [He [Ht [Hg' [Hgu [Hle [Hlt Hcase]]]]]]]]]]].
      assert (g' = g) by congruence. subst g'.
      pose proof (meas_pred I Hg Hgu He Hle Hlt) as Hmu.
      destruct Hcase as [Heq|[[gl [Hl Hgl]]|Hnr]]; [| |exfalso; apply Hnr; exact Logic.I].
      - (* tight link *)
        apply (@TC_step _ _ x u e g gu); auto.
        apply (IH u gu Hgu); [lia|].
        intros K HK. destruct (HP K HK) as [Himp|HT].
        + destruct (bJ2 I (K:=K) Hpz Himp) as [[->|Hu] _]; [right; apply (bJ7 I)|left; auto].
        + right. inversion HT as [Hc0|x' u' e' g'' gu' Hc' He' Ht' Hg'' Hgu' Heq' Hu']; subst.
          * congruence.
          * assert (u' = u) by (apply Nat2Z.inj; congruence). subst u'. auto.
      - (* the predecessor has a better score than at its last expansion: impossible for a popped chain *)
        destruct (bE I Hl) as [K HK]. destruct (aE I HK) as [gl' [Hl' HKle]].
        assert (gl' = gl) by congruence. subst gl'.
        destruct (aO I Hgu) as [Hcl|[q Hq]]; [rewrite Hcl in Hl; injection Hl as ->; lia|].
        pose proof (Hmin _ Hq) as Hm'. unfold hkey in Hm'; cbn [fst] in Hm'.
        assert (HkK : k0 < K) by lia.
        destruct (HP K HkK) as [Himp|HT]; auto.
        exfalso. destruct (bJ2 I (K:=K) Hpz Himp) as [_ HrT].
        destruct (bJ3 I Hl HK) as [[HrN [HrG HrS]]|Hlt'].
        + pose proof (bJ6 I Hl Hgu Hgl) as H6. rewrite <- HrS in H6.
          pose proof (bJ5 I (K:=K) Hgu H6). lia.
        + lia. }
    destruct (aK I Hin) as [g0 [Hg0 _]].
    apply (Hgen (S (meas sc imp seq x0)) x0 g0 Hg0); [lia|].
    intros K HK. left. pose proof (bJ1 I (K:=K) Hin HK). pose proof (bJ0 I Hin). lia.
  Qed.

  (* ---------------------------------------------------------------- the frontier argument *)
  Lemma afrontier lg imp gx sc ests came h seq : AInv RAll lg imp gx sc ests came h seq ->
    forall a p y, walk v a p y -> forall ga, sget sc a = Some ga ->
      (exists z p1 p2 gz q, p = p1 ++ p2 /\ walk v a p1 z /\ walk v z p2 y /\
                            sget sc z = Some gz /\ gz <= ga + walk_cost p1 /\
                            In (gz + est z, z, q) h) \/
      (exists gy, sget sc y = Some gy /\ gy <= ga + walk_cost p /\ lg y = Some gy).
  Proof.
    intros I a p y W. induction W as [a | a e p b He Hp IH]; intros ga Ha.
    - destruct (aO I Ha) as [Hl|[q Hq]].
      + right. exists ga. cbn [walk_cost]. repeat split; auto; lia.
      + left. exists a, [], [], ga, q. cbn [app walk_cost].
        repeat split; auto; try constructor; lia.
    - destruct (aO I Ha) as [Hl|[q Hq]].
      + destruct (aL I Hl) as [_ [g' [Hg' [_ Hed]]]].
        destruct (Hed e He Logic.I) as [d [Hd Hdle]].
        destruct (IH _ Hd) as [[z [p1 [p2 [gz [q [-> [W1 [W2 [Hz [Hle Hin]]]]]]]]]]|[gy [Hy [Hle Hly]]]].
        * left. exists z, (e :: p1), p2, gz, q. cbn [app walk_cost].
          repeat split; auto; [constructor; auto|lia].
        * right. exists gy. cbn [walk_cost]. repeat split; auto; lia.
      + left. exists a, [], (e :: p), ga, q. cbn [app walk_cost].
        repeat split; auto; try constructor; auto; lia.
  Qed.

  (* ---------------------------------------------------------------- popping *)
  Lemma AInv_pop Rel lg imp gx sc ests came h h' seq e0 :
    AInv Rel lg imp gx sc ests came h seq -> Permutation h (e0 :: h') ->
    (forall y g, sget sc y = Some g -> lg y = Some g \/ exists q, In (g + est y, y, q) h') ->
    AInv Rel lg imp gx sc ests came h' seq.
  Proof.
    intros I HP HO.
    assert (Hsub : forall e', In e' h' -> In e' h).
    { intros e' H. eapply Permutation_in; [apply Permutation_sym; apply HP|right; auto]. }
    constructor; try solve [apply I]; auto.
    - intros k x q H. apply (aK I (Hsub _ H)).
    - intros k x q H. apply (aQ I (Hsub _ H)).
    - pose proof (Permutation_NoDup (Permutation_map hseq HP) (aN I)) as Hnd.
      cbn [map] in Hnd. inversion Hnd; auto.
    - intros k x q H. apply (bJ0 I (Hsub _ H)).
    - intros K k x q H. apply (bJ1 I (K:=K) (Hsub _ H)).
  Qed.

  (* the pop becomes the root of the K-low phases for K up to its key *)
  Lemma AInv_root lg imp gx sc ests came h seq k0 x0 g0 :
    AInv RAll lg imp gx sc ests came h seq -> (forall e', In e' h -> k0 <= hkey e') ->
    sget sc x0 = Some g0 -> TC sc came x0 ->
    AInv RAll lg imp (gx_reset gx k0 x0 g0 seq) sc ests came h seq.
  Proof.
    intros I Hmin Hg0 HT. constructor; try solve [apply I]; cbn [gx_reset lastT lastSeq tm rN rG rS rT].
    - intros K. destruct (bR I K). destruct (Z.leb K k0); lia.
    - intros u. destruct (bRl I u). lia.
    - intros K k x q Hin HkK. destruct (Z.leb_spec K k0) as [HK|HK]; [|apply (bJ1 I (K:=K) Hin HkK)].
      pose proof (Hmin _ Hin) as Hm. unfold hkey in Hm; cbn [fst] in Hm. lia.
    - intros K x y Hc Himp. destruct (Z.leb_spec K k0) as [HK|HK]; [|apply (bJ2 I (K:=K) Hc Himp)].
      pose proof (aI I x). lia.
    - intros u gl K Hl HK. destruct (Z.leb_spec K k0) as [HKk|HKk]; [|apply (bJ3 I Hl HK)].
      right. destruct (bRl I u). lia.
    - intros K x g Hg Himp. destruct (Z.leb_spec K k0) as [HK|HK]; [|apply (bJ5 I (K:=K) Hg Himp)].
      pose proof (aI I x). lia.
    - intros K. destruct (Z.leb K k0); [auto|apply (bJ5r I)].
    - intros K. destruct (Z.leb K k0); [auto|apply (bJ7 I)].
  Qed.

  Lemma AInv_mark lg imp gx sc ests came h seq x0 g0 k0 :
    AInv RAll lg imp gx sc ests came h seq -> sget sc x0 = Some g0 -> is_goal x0 = false ->
    g0 + est x0 <= k0 ->
    rN gx k0 = x0 -> rG gx k0 = g0 -> rS gx k0 = seq ->
    AInv (RDone x0 []) (fun x => if Nat.eqb x x0 then Some g0 else lg x) imp (gx_mark gx x0 seq)
         sc (sset ests x0 k0) came h seq.
  Proof.
    intros I Hg0 Hgoal Hk0 HrN HrG HrS.
    constructor; try solve [apply I]; cbn [gx_mark lastT lastSeq tm rN rG rS rT].
    - intros x gl. destruct (Nat.eqb_spec x x0) as [->|Hne].
      + intros [= <-]. split; auto. exists g0. split; auto. split; [lia|].
        intros e _ [Hc|[]]. congruence.
      + intros Hl. destruct (aL I Hl) as [Hg [g [Hsg [Hle Hed]]]]. split; auto.
        exists g. repeat split; auto. intros e He _. apply (Hed e He Logic.I).
    - intros x kl. rewrite sget_sset. destruct (Nat.eqb_spec x0 x) as [<-|Hne].
      + intros [= <-]. exists g0. rewrite Nat.eqb_refl. auto.
      + intros Hk. destruct (aE I Hk) as [gl [Hl Hle]].
        destruct (Nat.eqb_spec x x0); [congruence|]. exists gl; auto.
    - intros x g Hg. destruct (Nat.eqb_spec x x0) as [->|Hne].
      + left. congruence.
      + apply (aO I Hg).
    - intros x pz Hpz. destruct (aC I Hpz) as [u [e [g [gu [-> [He [Ht [Hg [Hgu [Hle [Hlt Hcase]]]]]]]]]]].
      exists u, e, g, gu. repeat split; auto.
      destruct Hcase as [Heq|[[gl [Hl Hgl]]|Hnr]]; [left; auto| |exfalso; apply Hnr; exact Logic.I].
      destruct (Nat.eqb_spec u x0) as [->|Hne].
      + right; right. intros [Hc|[]]. congruence.
      + right; left. exists gl. split; auto.
    - intros u gl. rewrite sget_sset. destruct (Nat.eqb_spec u x0) as [->|Hne].
      + intros _. rewrite Nat.eqb_refl. eexists; reflexivity.
      + intros Hl. destruct (Nat.eqb_spec x0 u); [congruence|]. apply (bE I Hl).
    - intros x u Hc. destruct (Nat.eqb_spec u x0) as [->|Hne]; [eexists; reflexivity|apply (bX I Hc)].
    - intros u. destruct (bRl I u). destruct (Nat.eqb u x0); lia.
    - intros K x y Hc Himp. destruct (bJ2 I (K:=K) Hc Himp) as [H1 H2]. split; auto.
      destruct (Nat.eqb y x0); auto. destruct (bR I K). lia.
    - intros u gl K. rewrite sget_sset. destruct (Nat.eqb_spec u x0) as [->|Hne].
      + rewrite Nat.eqb_refl. intros [= <-] [= <-]. left. auto.
      + destruct (Nat.eqb_spec x0 u); [congruence|]. apply (bJ3 I).
    - intros u gl g. destruct (Nat.eqb_spec u x0) as [->|Hne].
      + intros [= <-] Hg Hlt. assert (g = g0) by congruence. lia.
      + apply (bJ6 I).
  Qed.

  (* ---------------------------------------------------------------- relaxing one out-entry *)
  Lemma RDone_snoc x0 done e x e' : RDone x0 (done ++ [e]) x e' -> RDone x0 done x e' \/ (x = x0 /\ e' = e).
  Proof.
    intros [H|H]; [left; left; auto|].
    apply in_app_or in H. destruct H as [H|[<-|[]]]; [left; right; auto|].
    destruct (Nat.eq_dec x x0); [right; auto|left; left; auto].
  Qed.

  Lemma astep_keep x0 g0 done e lg imp gx sc ests came h seq :
    AInv (RDone x0 done) lg imp gx sc ests came h seq -> lg x0 = Some g0 -> sget sc x0 = Some g0 ->
    (exists d, sget sc (tgt e) = Some d /\ d <= g0 + ewgt e) ->
    AInv (RDone x0 (done ++ [e])) lg imp gx sc ests came h seq.
  Proof.
    intros I Hl0 Hg0 Hd. constructor; try solve [apply I].
    - intros x gl Hl. destruct (aL I Hl) as [Hg [g [Hsg [Hle Hed]]]]. split; auto.
      exists g. repeat split; auto. intros e' He' HR.
      destruct (RDone_snoc HR) as [HR'|[-> ->]]; [apply (Hed e' He' HR')|].
      assert (gl = g0) by congruence. subst gl. exact Hd.
    - intros x pz Hpz. destruct (aC I Hpz) as [u [e' [g [gu [-> [He' [Ht [Hg [Hgu [Hle [Hlt Hcase]]]]]]]]]]].
      exists u, e', g, gu. repeat split; auto.
      destruct Hcase as [Heq|[Hdirty|Hnr]]; auto.
      destruct (Nat.eq_dec u x0) as [->|Hne]; [|exfalso; apply Hnr; left; auto].
      destruct (eref_eq_dec e' e) as [->|Hnee].
      + left. destruct Hd as [d [Hd Hdle]]. rewrite Ht in Hd.
        assert (d = g) by congruence. assert (gu = g0) by congruence. lia.
      + right; right. intros HR. destruct (RDone_snoc HR) as [HR'|[_ Heq]]; auto.
  Qed.

  Lemma astep_upd x0 g0 done e lg imp gx sc ests came h seq :
    AInv (RDone x0 done) lg imp gx sc ests came h seq -> sget sc x0 = Some g0 -> lg x0 = Some g0 ->
    In e (out_edges v x0) ->
    (forall old, sget sc (tgt e) = Some old -> g0 + ewgt e < old) ->
    (forall K, rG gx K <= g0) ->
    (forall K, (x0 = rN gx K \/ (rS gx K <= imp x0)%nat) /\ (rT gx K <= lastT gx x0)%nat) ->
    AInv (RDone x0 (done ++ [e])) lg (fun x => if Nat.eqb x (tgt e) then seq else imp x) gx
         (sset sc (tgt e) (g0 + ewgt e)) ests (sset came (tgt e) (Z.of_nat x0))
         (h ++ [(g0 + ewgt e + est (tgt e), tgt e, seq)]) (S seq).
  Proof.
    intros I Hg0 Hl0 He Hlt HrG Hx0. set (y := tgt e) in *. set (ns := g0 + ewgt e) in *.
    pose proof (HN He) as Hw. pose proof (score_nonneg I Hg0) as Hg0n.
    assert (Hyx : y <> x0).
    { intros Heq. rewrite Heq in Hlt. pose proof (Hlt _ Hg0). lia. }
    assert (Hys : y <> s).
    { intros Heq. rewrite Heq in Hlt. pose proof (Hlt _ (aS I)). lia. }
    assert (Hdec : forall x d, sget sc x = Some d ->
              exists d', sget (sset sc y ns) x = Some d' /\ d' <= d).
    { intros x d Hd. rewrite sget_sset. destruct (Nat.eqb_spec y x) as [<-|Hne].
      - exists ns; split; auto. pose proof (Hlt _ Hd). lia.
      - exists d; split; auto; lia. }
    assert (Himpm : forall x, (imp x <= (if Nat.eqb x y then seq else imp x))%nat).
    { intros x. pose proof (aI I x). destruct (Nat.eqb x y); lia. }
    constructor.
    - intros x g. rewrite sget_sset. destruct (Nat.eqb_spec y x) as [<-|Hne]; [|apply (aW I)].
      intros [= <-]. destruct (aW I Hg0) as [p [W C]].
      exists (p ++ [e]). split; [apply (walk_snoc e W He)|]. rewrite walk_cost_snoc. subst ns; lia.
    - rewrite sget_sset. destruct (Nat.eqb_spec y s); [congruence|apply (aS I)].
    - intros k x q Hin. apply in_app_or in Hin. destruct Hin as [Hin|[[= <- <- <-]|[]]].
      + destruct (aK I Hin) as [g [Hg Hle]]. destruct (Hdec _ _ Hg) as [g' [Hg' Hle']].
        exists g'; split; auto; lia.
      + exists ns. rewrite sget_sset, Nat.eqb_refl. split; auto; lia.
    - intros k x q Hin. apply in_app_or in Hin. destruct Hin as [Hin|[[= <- <- <-]|[]]].
      + pose proof (aQ I Hin). lia.
      + lia.
    - rewrite map_app. cbn [map hseq snd].
      apply (Permutation_NoDup (Permutation_cons_append _ _)).
      constructor; [|apply (aN I)].
      intros Hin. apply in_map_iff in Hin. destruct Hin as [[[k' y'] q] [Hq Hin]].
      unfold hseq in Hq; cbn [snd] in Hq; subst q.
      pose proof (aQ I Hin). lia.
    - intros x gl Hl. destruct (aL I Hl) as [Hg [g [Hsg [Hle Hed]]]]. split; auto.
      destruct (Hdec _ _ Hsg) as [g' [Hg' Hle']]. exists g'. split; auto. split; [lia|].
      intros e' He' HR. destruct (RDone_snoc HR) as [HR'|[-> ->]].
      + destruct (Hed e' He' HR') as [d [Hd Hdle]]. destruct (Hdec _ _ Hd) as [d' [Hd' Hdle']].
        exists d'; split; auto; lia.
      + assert (gl = g0) by congruence. subst gl.
        exists ns. fold y. rewrite sget_sset, Nat.eqb_refl. split; auto. subst ns; lia.
    - apply (aE I).
    - intros x g. rewrite sget_sset. destruct (Nat.eqb_spec y x) as [<-|Hne].
      + intros [= <-]. right. exists seq. apply in_or_app; right; left; auto.
      + intros Hg. destruct (aO I Hg) as [Hl|[q Hq]]; auto.
        right. exists q. apply in_or_app; auto.
    - rewrite sget_sset. destruct (Nat.eqb_spec y s); [congruence|apply (aC0 I)].
    - intros x g. rewrite !sget_sset. destruct (Nat.eqb_spec y x) as [<-|Hne].
      + intros _ _. eexists; reflexivity.
      + apply (aC1 I).
    - intros x pz. rewrite sget_sset. destruct (Nat.eqb_spec y x) as [<-|Hne].
      + intros [= <-]. exists x0, e, ns, g0. rewrite !sget_sset, Nat.eqb_refl.
        destruct (Nat.eqb_spec y x0); [congruence|].
        split; auto. split; auto. split; auto. split; auto. split; auto. split; [subst ns; lia|].
        split; [|left; subst ns; lia].
        right. pose proof (aI I x0). destruct (Nat.eqb_spec x0 y); [congruence|lia].
      + intros Hpz. destruct (aC I Hpz) as [u [e' [g [gu [-> [He' [Ht [Hg [Hgu [Hle [Hor Hcase]]]]]]]]]]].
        pose proof (HN He') as Hw'.
        exists u, e', g. rewrite !sget_sset.
        destruct (Nat.eqb_spec y x); [congruence|].
        destruct (Nat.eqb_spec x y); [congruence|].
        destruct (Nat.eqb_spec y u) as [<-|Hneu].
        * exists ns. pose proof (Hlt _ Hgu).
          split; auto. split; auto. split; auto. split; auto. split; auto. split; [lia|].
          split; [left; lia|].
          right; left. destruct (bX I Hpz) as [gl Hl]. exists gl. split; auto.
          destruct (aL I Hl) as [_ [gy [Hgy [Hgyl _]]]]. assert (gy = gu) by congruence. lia.
        * exists gu. destruct (Nat.eqb_spec u y); [congruence|].
          split; auto. split; auto. split; auto. split; auto. split; auto. split; auto. split; auto.
          destruct Hcase as [Heq|[Hdirty|Hnr]]; auto.
          right; right. intros HR. destruct (RDone_snoc HR) as [HR'|[_ Heq]]; auto.
          subst e'. fold y in Ht. congruence.
    - intros x. pose proof (aI I x). destruct (Nat.eqb x y); lia.
    - apply sset_nodup. apply (aCD I).
    - apply (bE I).
    - intros x u. rewrite sget_sset. destruct (Nat.eqb_spec y x) as [<-|Hne].
      + intros [= Hu]. apply Nat2Z.inj in Hu. subst u. eexists; eauto.
      + apply (bX I).
    - intros K. destruct (bR I K). lia.
    - intros u. destruct (bRl I u). lia.
    - intros k x q Hin. apply in_app_or in Hin. destruct Hin as [Hin|[[= <- <- <-]|[]]].
      + pose proof (bJ0 I Hin). pose proof (Himpm x). lia.
      + rewrite Nat.eqb_refl. lia.
    - intros K k x q Hin HkK. apply in_app_or in Hin. destruct Hin as [Hin|[[= <- <- <-]|[]]].
      + apply (bJ1 I (K:=K) Hin HkK).
      + destruct (bR I K). lia.
    - intros K x yy. rewrite sget_sset. destruct (Nat.eqb_spec y x) as [<-|Hne].
      + intros [= Hu] _. apply Nat2Z.inj in Hu. subst yy. destruct (Hx0 K) as [H1 H2]. split; auto.
        destruct H1 as [H1|H1]; auto. right. pose proof (Himpm x0). lia.
      + destruct (Nat.eqb_spec x y); [congruence|]. intros Hc Himp.
        destruct (bJ2 I (K:=K) Hc Himp) as [[H1|H1] H2]; split; auto.
        right. pose proof (Himpm yy). lia.
    - apply (bJ3 I).
    - intros K x g. rewrite sget_sset. destruct (Nat.eqb_spec y x) as [<-|Hne].
      + intros [= <-] _. pose proof (HrG K). lia.
      + destruct (Nat.eqb_spec x y); [congruence|]. apply (bJ5 I).
    - intros K. rewrite sget_sset. destruct (Nat.eqb_spec y (rN gx K)) as [Heq|Hne]; [|apply (bJ5r I)].
      exfalso. pose proof (bJ5r I K) as Hr. rewrite <- Heq in Hr. pose proof (Hlt _ Hr). pose proof (HrG K). lia.
    - intros u gl g Hl. rewrite sget_sset. destruct (Nat.eqb_spec y u) as [<-|Hne].
      + intros _ _. rewrite Nat.eqb_refl. destruct (bRl I y). lia.
      + destruct (Nat.eqb_spec u y); [congruence|]. apply (bJ6 I Hl).
    - intros K. apply (TC_preserved _ (bJ7 I K) Hys Hlt (bJ5r I K)). pose proof (HrG K). lia.
  Qed.

  Lemma astar_edges_inv x0 g0 lg gx ests : lg x0 = Some g0 -> (forall K, rG gx K <= g0) ->
    forall es done imp sc came h seq,
      (forall e, In e es -> In e (out_edges v x0)) ->
      AInv (RDone x0 done) lg imp gx sc ests came h seq -> sget sc x0 = Some g0 ->
      (forall K, (x0 = rN gx K \/ (rS gx K <= imp x0)%nat) /\ (rT gx K <= lastT gx x0)%nat) ->
      exists imp' sc' came' h' seq',
        astar_edges es x0 g0 est sc came h seq = (sc', came', h', seq') /\
        AInv (RDone x0 (done ++ es)) lg imp' gx sc' ests came' h' seq' /\ sget sc' x0 = Some g0.
  Proof.
    intros Hl0 HrG. induction es as [|e rest IH]; intros done imp sc came h seq Hes I Hg0 Hx0.
    - exists imp, sc, came, h, seq. rewrite app_nil_r. cbn [astar_edges]. auto.
    - assert (He : In e (out_edges v x0)) by (apply Hes; left; auto).
      assert (Hrest : forall e', In e' rest -> In e' (out_edges v x0)) by (intros e' H; apply Hes; right; auto).
      assert (Happ : done ++ e :: rest = (done ++ [e]) ++ rest) by (rewrite <- app_assoc; reflexivity).
      rewrite Happ. cbn [astar_edges].
      assert (Hx0' : tgt e <> x0 -> forall K,
                (x0 = rN gx K \/ (rS gx K <= (if Nat.eqb x0 (tgt e) then seq else imp x0))%nat) /\
                (rT gx K <= lastT gx x0)%nat).
      { intros Hne K. destruct (Nat.eqb_spec x0 (tgt e)); [congruence|apply Hx0]. }
      destruct (sget sc (tgt e)) as [old|] eqn:Eo.
      + destruct (Z.leb_spec old (g0 + ewgt e)) as [Hle|Hgt]; cbn [negb].
        * eapply IH; [exact Hrest| |exact Hg0|exact Hx0].
          eapply astep_keep; [exact I|exact Hl0|exact Hg0|exists old; auto].
        * assert (Hne : tgt e <> x0).
          { intros Heq. rewrite Heq in Eo. assert (old = g0) by congruence. pose proof (HN He). lia. }
          eapply (IH (done ++ [e]) (fun x => if Nat.eqb x (tgt e) then seq else imp x)); [exact Hrest| | |exact (Hx0' Hne)].
          -- apply (astep_upd I Hg0 Hl0 He); auto. intros old' Ho. assert (old' = old) by congruence. lia.
          -- rewrite sget_sset. destruct (Nat.eqb_spec (tgt e) x0); [congruence|auto].
      + assert (Hne : tgt e <> x0) by (intros Heq; rewrite Heq in Eo; congruence).
        eapply (IH (done ++ [e]) (fun x => if Nat.eqb x (tgt e) then seq else imp x)); [exact Hrest| | |exact (Hx0' Hne)].
        -- apply (astep_upd I Hg0 Hl0 He); auto. intros old' Ho. congruence.
        -- rewrite sget_sset. destruct (Nat.eqb_spec (tgt e) x0); [congruence|auto].
  Qed.

  Lemma AInv_close x0 lg imp gx sc ests came h seq :
    AInv (RDone x0 ([] ++ out_edges v x0)) lg imp gx sc ests came h seq ->
    AInv RAll lg imp gx sc ests came h seq.
  Proof.
    intros I. constructor; try solve [apply I].
    - intros x gl Hl. destruct (aL I Hl) as [Hg [g [Hsg [Hle Hed]]]]. split; auto.
      exists g. repeat split; auto. intros e He _. apply (Hed e He).
      destruct (Nat.eq_dec x x0) as [->|Hne]; [right; auto|left; auto].
    - intros x pz Hpz. destruct (aC I Hpz) as [u [e [g [gu [-> [He [Ht [Hg [Hgu [Hle [Hlt Hcase]]]]]]]]]]].
      exists u, e, g, gu. repeat split; auto.
      destruct Hcase as [Heq|[Hdirty|Hnr]]; auto.
      exfalso. apply Hnr. destruct (Nat.eq_dec u x0) as [->|Hne]; [right; auto|left; auto].
  Qed.

  (* ---------------------------------------------------------------- the loop *)
  Definition APost (r : option (Z * list nat)) : Prop :=
    match r with
    | None => forall t, reachable v s t -> is_goal t = false
    | Some (c, p) =>
        exists t w, is_goal t = true /\ walk v s w t /\ p = walk_nodes s w /\ walk_cost w = c /\
          ((forall x, is_goal x = true -> 0 <= est x) -> admissible_from v is_goal est s ->
           forall t' w'', is_goal t' = true -> walk v s w'' t' -> c <= walk_cost w'')
    end.

  (* a goal is popped *)
  Lemma apop_goal lg imp gx sc ests came h seq k0 x0 q0 g0 :
    AInv RAll lg imp gx sc ests came h seq -> In (k0, x0, q0) h ->
    (forall e', In e' h -> k0 <= hkey e') -> sget sc x0 = Some g0 -> g0 + est x0 <= k0 ->
    is_goal x0 = true ->
    exists r, rmap (fun p => Some (g0, p)) (path_back (S (length came)) came x0 [x0]) = Ok r /\ APost r.
  Proof.
    intros I Hin Hmin Hg0 Hk0 Eg.
    pose proof (tc_pop I Hin Hmin) as HTC.
    destruct (path_back_ok I Hg0 HTC) as [w [Hpb [W Hcost]]].
    exists (Some (g0, walk_nodes s w)). rewrite Hpb. cbn [rmap]. split; auto.
    exists x0, w. repeat split; auto.
    intros Hpos Hadm t' w'' Hg' W''.
    pose proof (Hpos _ Eg) as He0.
    destruct (afrontier I W'' (aS I))
      as [[z [p1 [p2 [gz [q [-> [W1 [W2 [Hz [Hle Hzin]]]]]]]]]]|[gy [_ [_ Hly]]]].
    - pose proof (Hmin _ Hzin) as Hm. unfold hkey in Hm; cbn [fst] in Hm.
      assert (Hez : est z <= walk_cost p2).
      { apply (Hadm z (ex_intro _ p1 W1) t' p2 Hg' W2). }
      rewrite walk_cost_app. lia.
    - destruct (aL I Hly) as [Hng _]. congruence.
  Qed.

  (* the heap is empty *)
  Lemma aempty lg imp gx sc ests came seq : AInv RAll lg imp gx sc ests came [] seq -> APost None.
  Proof.
    intros I. cbn [APost]. intros t [p W].
    destruct (afrontier I W (aS I))
      as [[z [p1 [p2 [gz [q [_ [_ [_ [_ [_ []]]]]]]]]]]|[gy [_ [_ Hly]]]].
    destruct (aL I Hly) as [Hng _]. exact Hng.
  Qed.

  (* a node that is not a goal is popped: its entry is dropped, or it is expanded *)
  Lemma astar_step lg imp gx sc ests came h seq k0 x0 q0 h' g0 :
    AInv RAll lg imp gx sc ests came h seq -> Permutation h ((k0, x0, q0) :: h') ->
    (forall e', In e' h -> k0 <= hkey e') -> sget sc x0 = Some g0 -> g0 + est x0 <= k0 ->
    is_goal x0 = false ->
    ((match sget ests x0 with Some old => Z.leb old k0 | None => false end) = true /\
     exists gx', AInv RAll lg imp gx' sc ests came h' seq) \/
    ((match sget ests x0 with Some old => Z.leb old k0 | None => false end) = false /\
     exists lg' imp' gx' sc' came' h'' seq',
       astar_edges (out_edges v x0) x0 g0 est sc came h' seq = (sc', came', h'', seq') /\
       AInv RAll lg' imp' gx' sc' (sset ests x0 k0) came' h'' seq').
  Proof.
    intros I HP Hmin Hg0 Hk0 Eg.
    assert (Hin : In (k0, x0, q0) h) by (eapply Permutation_in; [apply Permutation_sym; apply HP|left; auto]).
    assert (Hkeep : forall k y q, In (k, y, q) h -> y <> x0 -> In (k, y, q) h').
    { intros k y q H Hne. pose proof (Permutation_in _ HP H) as [Heq|H']; auto.
      injection Heq as _ Hyx _. congruence. }
    pose proof (tc_pop I Hin Hmin) as HTC.
    (* the pop is recorded as a phase root *)
    pose proof (AInv_root I Hmin Hg0 HTC) as Ir.
    set (gx1 := gx_reset gx k0 x0 g0 seq) in *.
    assert (Hx0 : forall K, (x0 = rN gx1 K \/ (rS gx1 K <= imp x0)%nat) /\ (rT gx1 K <= S (tm gx))%nat).
    { intros K. unfold gx1. cbn [gx_reset rN rS rT]. destruct (Z.leb_spec K k0) as [HK|HK]; [split; auto|].
      split; [right|destruct (bR I K); lia].
      pose proof (bJ1 I (K:=K) Hin HK). pose proof (bJ0 I Hin). lia. }
    assert (HrG : forall K, rG gx1 K <= g0).
    { intros K. unfold gx1. cbn [gx_reset rG]. destruct (Z.leb_spec K k0) as [HK|HK]; [lia|].
      apply (bJ5 I (K:=K) Hg0). pose proof (bJ1 I (K:=K) Hin HK). pose proof (bJ0 I Hin). lia. }
    destruct (match sget ests x0 with Some old => Z.leb old k0 | None => false end) eqn:Eskip.
    - (* an entry of an expanded node that cannot improve on its last expansion *)
      left. split; auto. exists gx1. apply (AInv_pop Ir HP).
      intros y g Hg. destruct (aO I Hg) as [Hl|[q Hq]]; auto.
      destruct (Nat.eq_dec y x0) as [->|Hne]; [|right; exists q; apply Hkeep; auto].
      left. destruct (sget ests x0) as [kl|] eqn:Ee; [|discriminate].
      apply Z.leb_le in Eskip. destruct (aE I Ee) as [gl [Hl Hle]].
      destruct (aL I Hl) as [_ [g' [Hg' [Hgle _]]]].
      assert (g' = g) by congruence. subst g'. assert (g0 = g) by congruence. subst g0.
      destruct (Z.eq_dec gl g) as [->|Hneq]; auto.
      (* the entry of the current score would be smaller than the popped key *)
      exfalso. pose proof (Hmin _ Hq) as Hm. unfold hkey in Hm; cbn [fst] in Hm. lia.
    - (* expansion *)
      right. split; auto.
      assert (HrN1 : rN gx1 k0 = x0) by (unfold gx1; cbn [gx_reset rN]; rewrite Z.leb_refl; auto).
      assert (HrG1 : rG gx1 k0 = g0) by (unfold gx1; cbn [gx_reset rG]; rewrite Z.leb_refl; auto).
      assert (HrS1 : rS gx1 k0 = seq) by (unfold gx1; cbn [gx_reset rS]; rewrite Z.leb_refl; auto).
      pose proof (AInv_mark Ir Hg0 Eg Hk0 HrN1 HrG1 HrS1) as I0.
      set (lg' := fun x => if Nat.eqb x x0 then Some g0 else lg x) in *.
      set (gx2 := gx_mark gx1 x0 seq) in *.
      assert (Hl0 : lg' x0 = Some g0) by (unfold lg'; rewrite Nat.eqb_refl; auto).
      assert (I1 : AInv (RDone x0 []) lg' imp gx2 sc (sset ests x0 k0) came h' seq).
      { apply (AInv_pop I0 HP). intros y g Hg. unfold lg'.
        destruct (Nat.eqb_spec y x0) as [->|Hne]; [left; congruence|].
        destruct (aO I Hg) as [Hl|[q Hq]]; auto. right; exists q; apply Hkeep; auto. }
      assert (HrG2 : forall K, rG gx2 K <= g0) by (intros K; apply (HrG K)).
      assert (Hx02 : forall K, (x0 = rN gx2 K \/ (rS gx2 K <= imp x0)%nat) /\ (rT gx2 K <= lastT gx2 x0)%nat).
      { intros K. destruct (Hx0 K) as [H1 H2]. split; [exact H1|].
        unfold gx2. cbn [gx_mark lastT rT]. rewrite Nat.eqb_refl. unfold gx1 at 2. cbn [gx_reset tm]. exact H2. }
      destruct (@astar_edges_inv x0 g0 lg' gx2 (sset ests x0 k0) Hl0 HrG2 (out_edges v x0) [] imp sc came h' seq
                  (fun e H => H) I1 Hg0 Hx02) as [imp' [sc' [came' [h'' [seq' [E [I2 Hg0']]]]]]].
      exists lg', imp', gx2, sc', came', h'', seq'. split; auto. apply (AInv_close I2).
  Qed.

  Lemma aloop : forall fuel lg imp gx sc ests came h seq,
    AInv RAll lg imp gx sc ests came h seq ->
    astar_loop fuel v is_goal est sc ests came h seq = OutOfFuel \/
    exists r, astar_loop fuel v is_goal est sc ests came h seq = Ok r /\ APost r.
  Proof.
    induction fuel as [|f IH]; intros lg imp gx sc ests came h seq I; [left; reflexivity|].
    cbn [astar_loop]. pose proof (hpop_spec (aN I)) as Hpop.
    destruct (hpop h) as [[[[k0 x0] q0] h']|].
    - destruct Hpop as [HP Hmin].
      assert (Hin : In (k0, x0, q0) h) by (eapply Permutation_in; [apply Permutation_sym; apply HP|left; auto]).
      assert (Hmin' : forall e', In e' h -> k0 <= hkey e') by (intros e' H; apply (Hmin _ H)).
      destruct (aK I Hin) as [g0 [Hg0 Hk0]]. rewrite Hg0.
      destruct (is_goal x0) eqn:Eg.
      + right. apply (apop_goal I Hin Hmin' Hg0 Hk0 Eg).
      + destruct (astar_step I HP Hmin' Hg0 Hk0 Eg)
          as [[Es [gx' I']]|[Es [lg' [imp' [gx' [sc' [came' [h'' [seq' [E I']]]]]]]]]]; rewrite Es.
        * apply (IH _ _ _ _ _ _ _ _ I').
        * rewrite E. apply (IH _ _ _ _ _ _ _ _ I').
    - subst h. right. exists None. split; auto. apply (aempty I).
  Qed.

  (* ---------------------------------------------------------------- termination *)
  (* every score is at most (number of scored nodes - 1) * (sum of all weights); a push lowers a
     score or scores a new node, so the number of pushes is bounded *)
  Definition Wtot : Z := fold_right (fun (q : nat * nat * nat * Z) acc => snd q + acc) 0 (all_out v).
  Definition cand : list nat := s :: map (fun q : nat * nat * nat * Z => snd (fst q)) (all_out v).
  Definition Bnd : Z := Z.of_nat (length cand) * Wtot.
  Definition pot1 (sc : smap) (x : nat) : nat :=
    match sget sc x with Some g => (Z.to_nat g + 1)%nat | None => (Z.to_nat Bnd + 2)%nat end.
  Definition Pot (sc : smap) : nat := list_sum (map (pot1 sc) cand).

  Record TInv (sc : smap) : Prop := {
    tB : forall x g, sget sc x = Some g -> 0 <= g <= (Z.of_nat (length sc) - 1) * Wtot;
    tK : forall x, In x (map fst sc) -> In x cand;
    tN : NoDup (map fst sc)
  }.

  Hypothesis HV : VOk v.

  Lemma all_out_In a e : In e (out_edges v a) -> In (eid e, a, tgt e, ewgt e) (all_out v).
  Proof.
    intros He. unfold all_out. apply in_flat_map. exists a. split.
    - apply (vok_nodes HV). intros Hnil. rewrite Hnil in He. destruct He.
    - apply in_map_iff. exists e; auto.
  Qed.

  Lemma all_out_nonneg q : In q (all_out v) -> 0 <= snd q.
  Proof.
    unfold all_out. intros H. apply in_flat_map in H. destruct H as [a [_ H]].
    apply in_map_iff in H. destruct H as [e [<- He]]. cbn [snd]. apply (HN He).
  Qed.

  Lemma fold_sum_ge (l : list (nat * nat * nat * Z)) : (forall q, In q l -> 0 <= snd q) ->
    0 <= fold_right (fun q acc => snd q + acc) 0 l /\
    forall q, In q l -> snd q <= fold_right (fun q acc => snd q + acc) 0 l.
  Proof.
    induction l as [|a t IH]; intros H; cbn [fold_right]; [split; [lia|intros q []]|].
    destruct IH as [IH0 IH1]; [intros q Hq; apply H; right; auto|].
    pose proof (H a (or_introl eq_refl)). split; [lia|].
    intros q [<-|Hq]; [lia|]. pose proof (IH1 _ Hq). lia.
  Qed.

  Lemma Wtot_nonneg : 0 <= Wtot.
  Proof. apply (fold_sum_ge all_out_nonneg). Qed.

  Lemma Wtot_ge a e : In e (out_edges v a) -> ewgt e <= Wtot.
  Proof.
    intros He. apply (proj2 (fold_sum_ge all_out_nonneg) _ (all_out_In He)).
  Qed.

  Lemma tgt_cand a e : In e (out_edges v a) -> In (tgt e) cand.
  Proof.
    intros He. right. apply in_map_iff. exists (eid e, a, tgt e, ewgt e). split; auto.
    apply all_out_In; auto.
  Qed.

  Lemma sset_length (m : smap) k x :
    length (sset m k x) = match sget m k with Some _ => length m | None => S (length m) end.
  Proof.
    induction m as [|[k0 x0] t IH]; cbn [sset sget length]; auto.
    destruct (Nat.eqb k0 k); cbn [length]; auto. rewrite IH. destruct (sget t k); auto.
  Qed.

  Lemma list_sum_lt (f f' : nat -> nat) (l : list nat) y : In y l -> (f' y < f y)%nat ->
    (forall x, (f' x <= f x)%nat) -> (list_sum (map f' l) + 1 <= list_sum (map f l))%nat.
  Proof.
    intros Hy Hlt Hle. induction l as [|a t IH]; [destruct Hy|]. cbn [map]. rewrite !list_sum_cons.
    assert (Hall : (list_sum (map f' t) <= list_sum (map f t))%nat).
    { clear -Hle. induction t as [|b t IHt]; cbn [map]; [lia|]. rewrite !list_sum_cons. pose proof (Hle b). lia. }
    destruct Hy as [->|Hy].
    - lia.
    - specialize (IH Hy). pose proof (Hle a). lia.
  Qed.

  Lemma TInv_len sc : TInv sc -> (length sc <= length cand)%nat.
  Proof.
    intros T. rewrite <- (map_length fst sc). apply NoDup_incl_length; [apply (tN T)|].
    intros x Hx. apply (tK T Hx).
  Qed.

  Lemma astep_term x0 g0 e sc : TInv sc -> sget sc x0 = Some g0 -> In e (out_edges v x0) ->
    (forall old, sget sc (tgt e) = Some old -> g0 + ewgt e < old) ->
    TInv (sset sc (tgt e) (g0 + ewgt e)) /\ (Pot (sset sc (tgt e) (g0 + ewgt e)) + 1 <= Pot sc)%nat.
  Proof.
    intros T Hg0 He Hlt. set (y := tgt e) in *. set (ns := g0 + ewgt e) in *.
    pose proof (HN He) as Hw. pose proof (Wtot_ge He) as Hww. pose proof Wtot_nonneg as HW.
    destruct (tB T Hg0) as [Hg0n Hg0b].
    assert (Hlen := sset_length sc y ns).
    assert (T' : TInv (sset sc y ns)).
    { constructor.
      - intros x g. rewrite sget_sset. destruct (Nat.eqb_spec y x) as [<-|Hne].
        + intros [= <-]. rewrite Hlen. destruct (sget sc y) as [old|] eqn:Eo.
          * destruct (tB T Eo). pose proof (Hlt _ eq_refl). subst ns. lia.
          * subst ns. rewrite Nat2Z.inj_succ. nia.
        + intros Hg. destruct (tB T Hg) as [H0 H1]. split; auto. rewrite Hlen.
          destruct (sget sc y); [auto|]. rewrite Nat2Z.inj_succ. nia.
      - intros x Hx. destruct (sset_keys Hx) as [->|Hx']; [apply (tgt_cand He)|apply (tK T Hx')].
      - apply sset_nodup. apply (tN T). }
    split; auto.
    unfold Pot. apply list_sum_lt with (y := y); [apply (tgt_cand He)| |].
    - unfold pot1. rewrite sget_sset, Nat.eqb_refl. destruct (sget sc y) as [old|] eqn:Eo.
      + pose proof (Hlt _ eq_refl). lia.
      + (* a new node: its score is at most the bound *)
        pose proof (TInv_len T') as Hl'. rewrite Hlen in Hl'. try rewrite Eo in Hl'.
        assert (ns <= Bnd).
        { unfold Bnd. subst ns. assert (g0 <= (Z.of_nat (length cand) - 1) * Wtot) by nia. nia. }
        lia.
    - intros x. unfold pot1. rewrite sget_sset. destruct (Nat.eqb_spec y x) as [<-|Hne]; [|lia].
      destruct (sget sc y) as [old|] eqn:Eo.
      + pose proof (Hlt _ eq_refl). lia.
      + pose proof (TInv_len T') as Hl'. rewrite Hlen in Hl'. try rewrite Eo in Hl'.
        assert (ns <= Bnd).
        { unfold Bnd. subst ns. assert (g0 <= (Z.of_nat (length cand) - 1) * Wtot) by nia. nia. }
        lia.
  Qed.

  Lemma astar_edges_term x0 g0 : forall es sc came h seq,
    (forall e, In e es -> In e (out_edges v x0)) -> TInv sc -> sget sc x0 = Some g0 ->
    forall sc' came' h' seq', astar_edges es x0 g0 est sc came h seq = (sc', came', h', seq') ->
      TInv sc' /\ (length h' + Pot sc' <= length h + Pot sc)%nat.
  Proof.
    induction es as [|e rest IH]; intros sc came h seq Hes T Hg0 sc' came' h' seq' E; cbn [astar_edges] in E.
    - injection E as <- <- <- <-. split; auto.
    - assert (He : In e (out_edges v x0)) by (apply Hes; left; auto).
      assert (Hrest : forall e', In e' rest -> In e' (out_edges v x0)) by (intros e' H; apply Hes; right; auto).
      pose proof (HN He) as Hw.
      assert (Hupd : (forall old, sget sc (tgt e) = Some old -> g0 + ewgt e < old) ->
                astar_edges rest x0 g0 est (sset sc (tgt e) (g0 + ewgt e)) (sset came (tgt e) (Z.of_nat x0))
                  (h ++ [(g0 + ewgt e + est (tgt e), tgt e, seq)]) (S seq) = (sc', came', h', seq') ->
                TInv sc' /\ (length h' + Pot sc' <= length h + Pot sc)%nat).
      { intros Hlt E'. destruct (astep_term T Hg0 He Hlt) as [T' HP].
        assert (Hne : tgt e <> x0) by (intros Heq; rewrite Heq in Hlt; pose proof (Hlt _ Hg0); lia).
        assert (Hg0' : sget (sset sc (tgt e) (g0 + ewgt e)) x0 = Some g0).
        { rewrite sget_sset. destruct (Nat.eqb_spec (tgt e) x0); [congruence|auto]. }
        destruct (IH _ _ _ _ Hrest T' Hg0' _ _ _ _ E') as [T'' HP''].
        split; auto. rewrite app_length in HP''. cbn [length] in HP''. lia. }
      destruct (sget sc (tgt e)) as [old|] eqn:Eo.
      + destruct (Z.leb_spec old (g0 + ewgt e)) as [Hle|Hgt]; cbn [negb] in E.
        * apply (IH _ _ _ _ Hrest T Hg0 _ _ _ _ E).
        * apply Hupd; auto. intros old' [= <-]. lia.
      + apply Hupd; auto. intros old' Ho; discriminate.
  Qed.

  Lemma aloop_total : forall fuel lg imp gx sc ests came h seq,
    AInv RAll lg imp gx sc ests came h seq -> TInv sc -> (length h + Pot sc < fuel)%nat ->
    exists r, astar_loop fuel v is_goal est sc ests came h seq = Ok r /\ APost r.
  Proof.
    induction fuel as [|f IH]; intros lg imp gx sc ests came h seq I T Hf; [lia|].
    cbn [astar_loop]. pose proof (hpop_spec (aN I)) as Hpop.
    destruct (hpop h) as [[[[k0 x0] q0] h']|].
    - destruct Hpop as [HP Hmin].
      assert (Hin : In (k0, x0, q0) h) by (eapply Permutation_in; [apply Permutation_sym; apply HP|left; auto]).
      assert (Hmin' : forall e', In e' h -> k0 <= hkey e') by (intros e' H; apply (Hmin _ H)).
      assert (Hlen : length h = S (length h')) by (rewrite (Permutation_length HP); reflexivity).
      destruct (aK I Hin) as [g0 [Hg0 Hk0]]. rewrite Hg0.
      destruct (is_goal x0) eqn:Eg.
      + apply (apop_goal I Hin Hmin' Hg0 Hk0 Eg).
      + destruct (astar_step I HP Hmin' Hg0 Hk0 Eg)
          as [[Es [gx' I']]|[Es [lg' [imp' [gx' [sc' [came' [h'' [seq' [E I']]]]]]]]]]; rewrite Es.
        * apply (IH _ _ _ _ _ _ _ _ I' T). lia.
        * rewrite E. destruct (astar_edges_term (fun e H => H) T Hg0 E) as [T' HP'].
          apply (IH _ _ _ _ _ _ _ _ I' T'). lia.
    - subst h. exists None. split; auto. apply (aempty I).
  Qed.

  Definition astar_fuel_bound : nat := (2 + length cand * (Z.to_nat Bnd + 2))%nat.

  Lemma TInv_init : TInv [(s, 0)].
  Proof.
    constructor.
    - intros x g. cbn [sget length]. destruct (Nat.eqb s x); [|discriminate]. intros [= <-]. lia.
    - intros x [<-|[]]. left; auto.
    - cbn [map fst]. constructor; [intros []|constructor].
  Qed.

  Lemma Pot_bound sc : TInv sc -> (Pot sc <= length cand * (Z.to_nat Bnd + 2))%nat.
  Proof.
    intros T. unfold Pot.
    assert (Hp : forall x, (pot1 sc x <= Z.to_nat Bnd + 2)%nat).
    { intros x. unfold pot1. destruct (sget sc x) as [g|] eqn:Eg; [|lia].
      destruct (tB T Eg) as [H0 H1]. pose proof (TInv_len T). pose proof Wtot_nonneg.
      assert (g <= Bnd) by (unfold Bnd; nia). lia. }
    induction cand as [|a t IH]; cbn [map length]; [cbn; lia|].
    rewrite list_sum_cons. pose proof (Hp a). lia.
  Qed.

  Lemma AInv_init : AInv RAll (fun _ => None) (fun _ => 0%nat)
                         (mkGx (fun _ => 0%nat) (fun _ => 0%nat) 0 (fun _ => s) (fun _ => 0) (fun _ => 0%nat) (fun _ => 0%nat))
                         [(s, 0)] [] [] [(est s, s, 0%nat)] 1.
  Proof.
    constructor; cbn [lastT lastSeq tm rN rG rS rT].
    - intros x g. cbn [sget]. destruct (Nat.eqb_spec s x) as [<-|]; [|discriminate].
      intros [= <-]. exists []; split; [constructor|reflexivity].
    - cbn [sget]. rewrite Nat.eqb_refl. reflexivity.
    - intros k x q [[= <- <- <-]|[]]. exists 0. cbn [sget]. rewrite Nat.eqb_refl. split; auto; lia.
    - intros k x q [[= <- <- <-]|[]]. lia.
    - cbn [map]. constructor; [intros []|constructor].
    - intros x gl H; discriminate.
    - intros x kl H; discriminate.
    - intros x g. cbn [sget]. destruct (Nat.eqb_spec s x) as [<-|]; [|discriminate].
      intros [= <-]. right. exists 0%nat. left. rewrite Z.add_0_l. reflexivity.
    - reflexivity.
    - intros x g. cbn [sget]. destruct (Nat.eqb_spec s x) as [<-|]; [|discriminate]. congruence.
    - intros x pz H; discriminate.
    - intros x. lia.
    - constructor.
    - intros u gl H; discriminate.
    - intros x u H; discriminate.
    - intros K. lia.
    - intros u. lia.
    - intros k x q [[= <- <- <-]|[]]. lia.
    - intros K k x q _ _. lia.
    - intros K x y H; discriminate.
    - intros u gl K H; discriminate.
    - intros K x g. cbn [sget]. destruct (Nat.eqb_spec s x) as [<-|]; [|discriminate].
      intros [= <-] _. lia.
    - intros K. cbn [sget]. rewrite Nat.eqb_refl. reflexivity.
    - intros u gl g H; discriminate.
    - intros K. apply TC_root. reflexivity.
  Qed.

  Theorem astar_loop_ok fuel :
    astar_loop fuel v is_goal est [(s, 0)] [] [] [(est s, s, 0%nat)] 1%nat = OutOfFuel \/
    exists r, astar_loop fuel v is_goal est [(s, 0)] [] [] [(est s, s, 0%nat)] 1%nat = Ok r /\ APost r.
  Proof. apply (aloop fuel AInv_init). Qed.

  Theorem astar_loop_total fuel : (astar_fuel_bound <= fuel)%nat ->
    exists r, astar_loop fuel v is_goal est [(s, 0)] [] [] [(est s, s, 0%nat)] 1%nat = Ok r /\ APost r.
  Proof.
    intros Hf. apply (aloop_total AInv_init TInv_init).
    pose proof (Pot_bound TInv_init). unfold astar_fuel_bound in Hf. cbn [length]. lia.
  Qed.
End Astar.


(* ------------------------------------------------------------------ goal distances exist *)
(* a set of walk costs that has an element has a least element, provided some map lists the distances *)
Lemma no_dist_absurd v x t : nonneg v -> (forall d, ~ is_dist v x t d) ->
  forall n p, walk v x p t -> (Z.to_nat (walk_cost p) <= n)%nat -> False.
Proof.
  intros HN H. induction n as [|n IH]; intros p W Hn.
  - apply (H (walk_cost p)). split; [exists p; auto|].
    intros p' W'. pose proof (walk_cost_nonneg HN W'). pose proof (walk_cost_nonneg HN W). lia.
  - apply (H (walk_cost p)). split; [exists p; auto|].
    intros p' W'. destruct (Z.le_gt_cases (walk_cost p) (walk_cost p')) as [Hle|Hgt]; auto.
    exfalso. apply (IH p' W'). pose proof (walk_cost_nonneg HN W'). lia.
Qed.

Lemma is_dist_exists v x t : VOk v -> nonneg v -> in_cap v x -> reachable v x t -> exists d, is_dist v x t d.
Proof.
  intros HV HN Hc [p W]. destruct (dijkstra_exact HV HN Hc) as [m [_ [_ Hm]]].
  destruct (sget m t) as [d|] eqn:E.
  - exists d. apply Hm; auto.
  - exfalso. apply (@no_dist_absurd v x t HN) with (n := Z.to_nat (walk_cost p)) (p := p); auto.
    intros d Hd. apply Hm in Hd. congruence.
Qed.

Lemma sget_In (m : smap) x d : sget m x = Some d -> In (x, d) m.
Proof.
  induction m as [|[k0 x0] t IH]; cbn [sget]; [discriminate|].
  destruct (Nat.eqb_spec k0 x) as [->|Hne]; [intros [= ->]; left; auto|right; auto].
Qed.

Lemma In_sget (m : smap) x d : NoDup (map fst m) -> In (x, d) m -> sget m x = Some d.
Proof.
  induction m as [|[k0 x0] t IH]; cbn [sget map fst]; intros Hnd []; inversion Hnd as [|a l Hnin Hnd']; subst.
  - injection H as -> ->. rewrite Nat.eqb_refl. reflexivity.
  - destruct (Nat.eqb_spec k0 x) as [->|Hne]; [|auto].
    exfalso; apply Hnin. apply (in_map fst _ _ H).
Qed.

Lemma min_goal_entry (is_goal : nat -> bool) (l : list (nat * Z)) :
  (exists t d, In (t, d) l /\ is_goal t = true) ->
  exists t d, In (t, d) l /\ is_goal t = true /\
              forall t' d', In (t', d') l -> is_goal t' = true -> d <= d'.
Proof.
  induction l as [|[a da] r IH]; intros [t [d [Hin Hg]]]; [destruct Hin|].
  assert (Hcase : (exists t d, In (t, d) r /\ is_goal t = true) \/ ~ (exists t d, In (t, d) r /\ is_goal t = true)).
  { clear. induction r as [|[b db] r IHr]; [right; intros [t [d [[] _]]]|].
    destruct (is_goal b) eqn:Eb; [left; exists b, db; split; auto; left; auto|].
    destruct IHr as [[t [d [Hin Hg]]]|Hno]; [left; exists t, d; split; auto; right; auto|].
    right. intros [t [d [[Heq|Hin] Hg]]]; [injection Heq as <- <-; congruence|].
    apply Hno. exists t, d; auto. }
  destruct Hcase as [Hr|Hnr].
  - destruct (IH Hr) as [t1 [d1 [Hin1 [Hg1 Hmin1]]]].
    destruct (is_goal a) eqn:Ea.
    + destruct (Z.le_gt_cases da d1) as [Hle|Hgt].
      * exists a, da. split; [left; auto|]. split; auto.
        intros t' d' [Heq|Hin'] Hg'; [injection Heq as <- <-; lia|]. pose proof (Hmin1 _ _ Hin' Hg'). lia.
      * exists t1, d1. split; [right; auto|]. split; auto.
        intros t' d' [Heq|Hin'] Hg'; [injection Heq as <- <-; lia|]. apply (Hmin1 _ _ Hin' Hg').
    + exists t1, d1. split; [right; auto|]. split; auto.
      intros t' d' [Heq|Hin'] Hg'; [injection Heq as <- <-; congruence|]. apply (Hmin1 _ _ Hin' Hg').
  - destruct Hin as [Heq|Hin]; [|exfalso; apply Hnr; exists t, d; auto].
    injection Heq as -> ->. exists t, d. split; [left; auto|]. split; auto.
    intros t' d' [Heq|Hin'] Hg'; [injection Heq as <- <-; lia|].
    exfalso; apply Hnr; exists t', d'; auto.
Qed.

Lemma goal_dist_exists v is_goal x : VOk v -> nonneg v -> in_cap v x ->
  goal_reachable v is_goal x -> exists d, goal_dist v is_goal x d.
Proof.
  intros HV HN Hc [t [Hg Hr]].
  destruct (dijkstra_exact HV HN Hc) as [m [_ [Hnd Hm]]].
  destruct (is_dist_exists HV HN Hc Hr) as [dt Hdt].
  destruct (@min_goal_entry is_goal m) as [t1 [d1 [Hin1 [Hg1 Hmin1]]]].
  { exists t, dt. split; auto. apply sget_In. apply Hm; auto. }
  exists d1. apply (In_sget Hnd) in Hin1. apply Hm in Hin1.
  destruct Hin1 as [[p1 [W1 C1]] L1]. split.
  - exists t1, p1. auto.
  - intros t' p' Hg' W'.
    destruct (is_dist_exists HV HN Hc (ex_intro _ p' W')) as [d' Hd'].
    pose proof (Hmin1 t' d' (sget_In (proj2 (Hm _ _) Hd')) Hg').
    destruct Hd' as [_ L']. pose proof (L' _ W'). lia.
Qed.

Lemma reach_in_cap v s z : VOk v -> in_cap v s -> reachable v s z -> in_cap v z.
Proof.
  intros HV Hs [p W]. destruct p as [|e p] using rev_ind.
  - inversion W; subst; auto.
  - destruct (walk_app_inv _ _ W) as [b [_ Wl]]. inversion Wl as [|a e' p' b' He Hp']; subst.
    inversion Hp'; subst. apply (vok_cap HV _ _ He).
Qed.

(* the two forms of admissibility *)
Lemma admissible_from_of v is_goal est s : VOk v -> nonneg v -> in_cap v s ->
  admissible v is_goal est -> admissible_from v is_goal est s.
Proof.
  intros HV HN Hs Hadm z Hz t p Hg W.
  pose proof (reach_in_cap HV Hs Hz) as Hcz.
  destruct (@goal_dist_exists v is_goal z HV HN Hcz) as [d Hd].
  { exists t. split; auto. exists p; auto. }
  pose proof (Hadm _ _ Hd). destruct Hd as [_ L]. pose proof (L _ _ Hg W). lia.
Qed.

Lemma admissible_of_from v is_goal est : (forall s, admissible_from v is_goal est s) -> admissible v is_goal est.
Proof.
  intros H x d [[t [p [Hg [W C]]]] _]. rewrite <- C.
  apply (H x x (ex_intro _ [] (walk_nil v x)) t p Hg W).
Qed.

(* ------------------------------------------------------------------ the theorems *)
Definition astar_run (fuel : nat) (v : view) (s : nat) (is_goal : nat -> bool) (est : nat -> Z) :=
  astar_loop fuel v is_goal est [(s, 0)] [] [] [(est s, s, 0%nat)] 1%nat.

(* astar is the loop with the model's constant fuel *)
Definition astar_fuel_sig : {n | forall v s g e, astar v s g e = astar_run n v s g e}.
Proof. eexists. intros. unfold astar, astar_run. reflexivity. Defined.
Definition astar_fuel : nat := proj1_sig astar_fuel_sig.
Lemma astar_eq : forall v s g e, astar v s g e = astar_run astar_fuel v s g e.
Proof. exact (proj2_sig astar_fuel_sig). Qed.
Lemma astar_fuel_5000 : Nat.eqb astar_fuel 5000 = true.
Proof. vm_compute. reflexivity. Qed.
Lemma astar_unfold : exists n, forall v s g e, astar v s g e = astar_run n v s g e.
Proof. exists astar_fuel. exact astar_eq. Qed.

(* A1, for every fuel: no panic; when a result is returned: None exactly when no goal is reachable;
   otherwise the node list is a walk from s to a goal and the returned cost is the cost of that
   walk.  Any heuristic (not necessarily admissible, any sign). *)
Theorem astar_run_valid fuel v s is_goal est : nonneg v ->
  astar_run fuel v s is_goal est = OutOfFuel \/
  exists r, astar_run fuel v s is_goal est = Ok r /\
    (r = None <-> ~ goal_reachable v is_goal s) /\
    forall c p, r = Some (c, p) ->
      exists t w, is_goal t = true /\ walk v s w t /\ walk_nodes s w = p /\ walk_cost w = c.
Proof.
  intros HN. unfold astar_run.
  destruct (@astar_loop_ok v s is_goal est HN fuel) as [E|[r [E HP]]]; [left; auto|right].
  exists r. split; auto. split; [split|].
  - intros -> [t [Hg Hr]]. cbn [APost] in HP. rewrite (HP _ Hr) in Hg. discriminate.
  - intros Hnr. destruct r as [[c p]|]; auto. exfalso. apply Hnr.
    destruct HP as [t [w [Hg [W _]]]]. exists t. split; auto. exists w; auto.
  - intros c p ->. destruct HP as [t [w [Hg [W [-> [Hc _]]]]]].
    exists t, w. repeat split; auto.
Qed.

(* A2, for every fuel: an admissible heuristic (non-negative on the goals); no consistency assumption *)
Theorem astar_run_admissible fuel v s is_goal est r : VOk v -> nonneg v -> in_cap v s ->
  (forall x, is_goal x = true -> 0 <= est x) -> admissible v is_goal est ->
  astar_run fuel v s is_goal est = Ok r ->
  (r = None <-> ~ goal_reachable v is_goal s) /\
  forall c p, r = Some (c, p) ->
    goal_dist v is_goal s c /\
    exists t w, is_goal t = true /\ walk v s w t /\ walk_nodes s w = p /\ walk_cost w = c.
Proof.
  intros HV HN Hs Hpos Hadm E. unfold astar_run in E.
  pose proof (admissible_from_of HV HN Hs Hadm) as Hadm'.
  destruct (@astar_loop_ok v s is_goal est HN fuel) as [E'|[r' [E' HP]]]; [congruence|].
  assert (r' = r) by congruence. subst r'. split; [split|].
  - intros -> [t [Hg Hr]]. cbn [APost] in HP. rewrite (HP _ Hr) in Hg. discriminate.
  - intros Hnr. destruct r as [[c p]|]; auto. exfalso. apply Hnr.
    destruct HP as [t [w [Hg [W _]]]]. exists t. split; auto. exists w; auto.
  - intros c p ->. destruct HP as [t [w [Hg [W [-> [Hc Hopt]]]]]].
    pose proof (Hopt Hpos Hadm') as Hmin. split.
    + split; [exists t, w; auto|]. intros t' p' Hg' Wp'. apply (Hmin _ _ Hg' Wp').
    + exists t, w. repeat split; auto.
Qed.

(* the model's astar (constant fuel) *)
Theorem astar_valid_partial v s is_goal est : nonneg v ->
  astar v s is_goal est = OutOfFuel \/
  exists r, astar v s is_goal est = Ok r /\
    (r = None <-> ~ goal_reachable v is_goal s) /\
    forall c p, r = Some (c, p) ->
      exists t w, is_goal t = true /\ walk v s w t /\ walk_nodes s w = p /\ walk_cost w = c.
Proof. rewrite astar_eq. apply astar_run_valid. Qed.

Theorem astar_admissible_partial v s is_goal est r : VOk v -> nonneg v -> in_cap v s ->
  (forall x, is_goal x = true -> 0 <= est x) -> admissible v is_goal est ->
  astar v s is_goal est = Ok r ->
  (r = None <-> ~ goal_reachable v is_goal s) /\
  forall c p, r = Some (c, p) ->
    goal_dist v is_goal s c /\
    exists t w, is_goal t = true /\ walk v s w t /\ walk_nodes s w = p /\ walk_cost w = c.
Proof. rewrite astar_eq. apply astar_run_admissible. Qed.

(* totality: with fuel astar_fuel_bound v s (2 + N * (N * W + 2), N = 1 + number of out-entries,
   W = sum of the weights) the loop returns; hence the model's astar returns on the views whose
   bound is at most its constant fuel *)
Theorem astar_run_total fuel v s is_goal est : VOk v -> nonneg v -> (astar_fuel_bound v s <= fuel)%nat ->
  exists r, astar_run fuel v s is_goal est = Ok r /\
    (r = None <-> ~ goal_reachable v is_goal s) /\
    forall c p, r = Some (c, p) ->
      exists t w, is_goal t = true /\ walk v s w t /\ walk_nodes s w = p /\ walk_cost w = c.
Proof.
  intros HV HN Hf.
  destruct (@astar_loop_total v s is_goal est HN HV fuel Hf) as [r [E HP]].
  destruct (@astar_run_valid fuel v s is_goal est HN) as [E'|[r' [E' H]]].
  - unfold astar_run in E'. congruence.
  - exists r'. split; auto.
Qed.

Theorem astar_total_small v s is_goal est : VOk v -> nonneg v -> (astar_fuel_bound v s <= astar_fuel)%nat ->
  exists r, astar v s is_goal est = Ok r /\
    (r = None <-> ~ goal_reachable v is_goal s) /\
    forall c p, r = Some (c, p) ->
      exists t w, is_goal t = true /\ walk v s w t /\ walk_nodes s w = p /\ walk_cost w = c.
Proof. intros HV HN Hf. rewrite astar_eq. apply astar_run_total; auto. Qed.
