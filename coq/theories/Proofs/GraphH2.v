(* Graph, second round: an operation type for ALL 28 opcodes of Model/GraphIO.v, its step
   function, histories (invariant kept, no panic, no fuel exhaustion), and the link with the
   decoder of the differential stream: GraphIO.step on a line = step2 on the decoded operation,
   state AND printed lines. *)
From Coq Require Import Permutation.
From PG Require Import Lib.Io Lib.ListArr Lib.Walk Model.GraphM Model.GraphIO
  Proofs.GraphP Proofs.GraphQ Proofs.GraphRE Proofs.GraphRN Proofs.GraphRev Proofs.GraphH
  Proofs.GraphT Proofs.GraphX Proofs.GraphW Proofs.GraphFM.
Set Implicit Arguments.

Section Ops.
  Context {NW EW : Type}.

  Inductive gop2 :=
  | GAddNode (w : NW) | GAddEdge (a b : nat) (w : EW) | GUpdateEdge (a b : nat) (w : EW)
  | GRemoveNode (a : nat) | GRemoveEdge (e : nat)
  | GReverse | GClear | GClearEdges
  | GRetainNodes (keep : NW -> bool) | GRetainEdges (keep : EW -> bool)
  | GExtend (es : list (nat * nat * EW))
  | GFilterMap (nmap : nat -> NW -> option NW) (emap : nat -> EW -> option EW)
  | GIntoEdgeType
  | GSetNodeWeight (a : nat) (w : NW) | GSetEdgeWeight (e : nat) (w : EW)
  | GNodeWeight (a : nat) | GEdgeWeight (e : nat) | GEdgeEndpoints (e : nat)
  | GFindEdge (a b : nat) | GFindEdgeUndirected (a b : nat) | GEdgesConnecting (a b : nat)
  | GFirstEdge (a k : nat) | GNextEdge (e k : nat) | GWalk (a k : nat)
  | GMap (f : NW -> NW) (h : EW -> EW).

  Inductive gout2 :=
  | RIdx (r : gerr + nat) | RNw (o : option NW) | REw (o : option EW) | RUnit | RBool (b : bool)
  | REdge (o : option nat) | REdgeDir (o : option (nat * nat)) | REnds (o : option (nat * nat))
  | RErefs (l : list (nat * (nat * nat) * EW)) | RPairs (l : list (nat * nat)).

  (* does the stream print the observation battery after this operation? *)
  Definition mutates (o : gop2) : bool :=
    match o with
    | GNodeWeight _ | GEdgeWeight _ | GEdgeEndpoints _ | GFindEdge _ _ | GFindEdgeUndirected _ _
    | GEdgesConnecting _ _ | GFirstEdge _ _ | GNextEdge _ _ | GWalk _ _ => false
    | _ => true
    end.
End Ops.
Arguments gop2 : clear implicits.
Arguments gout2 : clear implicits.

Section GraphH2.
  Context {NW EW : Type}.
  Variable cap : nat.
  Variable capcheck : bool.
  Variable debug : bool.
  Variable dflt : NW.

  Notation graph := (graph NW EW).
  Notation GInv := (@GInv NW EW cap).
  Notation adjf := (@adjf NW EW cap).
  Notation gop2 := (gop2 NW EW).
  Notation gout2 := (gout2 NW EW).

  (* state = (directed, graph): into_edge_type flips the flag *)
  Definition st2 : Type := (bool * graph)%type.

  Definition step2 (s : st2) (o : gop2) : res (gout2 * st2) :=
    let '(d, g) := s in
    match o with
    | GAddNode w => let '(r, g') := try_add_node cap capcheck g w in Ok (RIdx r, (d, g'))
    | GAddEdge a b w => let '(r, g') := try_add_edge cap capcheck g a b w in Ok (RIdx r, (d, g'))
    | GUpdateEdge a b w =>
        rmap (fun '(r, g') => (RIdx r, (d, g'))) (try_update_edge cap capcheck d g a b w)
    | GRemoveNode a => rmap (fun '(r, g') => (RNw r, (d, g'))) (remove_node cap debug g a)
    | GRemoveEdge e => rmap (fun '(r, g') => (REw r, (d, g'))) (remove_edge debug g e)
    | GReverse => Ok (RUnit, (d, reverse g))
    | GClear => Ok (RUnit, (d, g_empty))
    | GClearEdges => Ok (RUnit, (d, clear_edges cap g))
    | GRetainNodes keep => rmap (fun g' => (RUnit, (d, g'))) (retain_nodes cap debug keep g)
    | GRetainEdges keep => rmap (fun g' => (RUnit, (d, g'))) (retain_edges debug keep g)
    | GExtend es => let '(ok, g') := extend_with_edges cap capcheck dflt g es in Ok (RBool ok, (d, g'))
    | GFilterMap nmap emap =>
        match filter_map cap capcheck nmap emap g with
        | Some g' => Ok (RUnit, (d, g'))
        | None => Panic
        end
    | GIntoEdgeType => Ok (RUnit, (negb d, g))
    | GSetNodeWeight a w =>
        match set_node_weight g a w with
        | Some g' => Ok (RBool true, (d, g'))
        | None => Ok (RBool false, (d, g))
        end
    | GSetEdgeWeight e w =>
        match set_edge_weight g e w with
        | Some g' => Ok (RBool true, (d, g'))
        | None => Ok (RBool false, (d, g))
        end
    | GNodeWeight a => Ok (RNw (option_map (@nwt NW) (nth_error (gnodes g) a)), s)
    | GEdgeWeight e => Ok (REw (option_map (@ewt EW) (nth_error (gedges g) e)), s)
    | GEdgeEndpoints e => Ok (REnds (option_map (@enode EW) (nth_error (gedges g) e)), s)
    | GFindEdge a b => rmap (fun o => (REdge o, s)) (find_edge d g a b)
    | GFindEdgeUndirected a b => rmap (fun o => (REdgeDir o, s)) (find_edge_undirected g a b)
    | GEdgesConnecting a b => rmap (fun l => (RErefs l, s)) (edges_connecting cap d g a b)
    | GFirstEdge a k => Ok (REdge (first_edge cap g a k), s)
    | GNextEdge e k => Ok (REdge (next_edge cap g e k), s)
    | GWalk a k => rmap (fun l => (RPairs l, s)) (neighbors_directed cap d g a k)
    | GMap f h => Ok (RUnit, (d, gmap f h g))
    end.

  Fixpoint run2 (s : st2) (ops : list gop2) : res st2 :=
    match ops with
    | [] => Ok s
    | o :: rest => rbind (step2 s o) (fun '(_, s') => run2 s' rest)
    end.

  (* upper bounds on the vector lengths after an operation (used only for unchecked indices) *)
  Definition nbound (o : gop2) (n : nat) : nat :=
    match o with
    | GAddNode _ => S n
    | GClear => 0
    | GExtend es => Nat.max n (need es)
    | _ => n
    end.

  Definition ebound (o : gop2) (e : nat) : nat :=
    match o with
    | GAddEdge _ _ _ | GUpdateEdge _ _ _ => S e
    | GClear | GClearEdges => 0
    | GExtend es => e + length es
    | _ => e
    end.

  Fixpoint fits (n e : nat) (ops : list gop2) : Prop :=
    match ops with
    | [] => True
    | o :: rest => nbound o n <= cap /\ ebound o e <= cap /\ fits (nbound o n) (ebound o e) rest
    end.

  Lemma nbound_mono o n n' : n' <= n -> nbound o n' <= nbound o n.
  Proof. intros H. destruct o; simpl; lia. Qed.

  Lemma ebound_mono o e e' : e' <= e -> ebound o e' <= ebound o e.
  Proof. intros H. destruct o; simpl; lia. Qed.

  Lemma fits_mono ops : forall n e n' e', n' <= n -> e' <= e -> fits n e ops -> fits n' e' ops.
  Proof.
    induction ops as [|o ops IH]; intros n e n' e' Hn He H; simpl in *; auto.
    destruct H as [H1 [H2 H3]].
    pose proof (nbound_mono o Hn). pose proof (ebound_mono o He).
    split; [lia|]. split; [lia|]. eapply IH; eauto.
  Qed.

  (* ------------------------------------------------------------------ *)
  (* Totality of each operation with the length bounds                   *)

  Lemma add_node_total (g : graph) w :
    GInv g -> (capcheck = false -> S (length (gnodes g)) <= cap) ->
    exists r g', try_add_node cap capcheck g w = (r, g') /\ GInv g' /\
      length (gnodes g') <= S (length (gnodes g)) /\ gedges g' = gedges g.
  Proof.
    intros I R. destruct (Nat.eq_dec (length (gnodes g)) cap) as [E|E].
    - destruct capcheck eqn:Ec.
      + rewrite try_add_node_limit by auto. exists (inl NodeIxLimit), g. split; [reflexivity|]. split; [exact I|]. split; [lia|reflexivity].
      + specialize (R eq_refl). lia.
    - rewrite try_add_node_ok by auto. eexists _, _. split; [reflexivity|].
      cbn [gnodes gedges]. split; [|rewrite app_length; simpl; split; [lia|reflexivity]].
      apply add_node_GInv; auto. pose proof (gi_ncap I). lia.
  Qed.

  Lemma add_edge_total (g : graph) a b w :
    GInv g -> (capcheck = false -> S (length (gedges g)) <= cap) ->
    exists r g', try_add_edge cap capcheck g a b w = (r, g') /\ GInv g' /\
      length (gnodes g') = length (gnodes g) /\ length (gedges g') <= S (length (gedges g)).
  Proof.
    intros I R. destruct (Nat.eq_dec (length (gedges g)) cap) as [E|E].
    - destruct capcheck eqn:Ec.
      + rewrite try_add_edge_limit by auto. exists (inl EdgeIxLimit), g. split; [reflexivity|]. split; [exact I|]. split; [reflexivity|lia].
      + specialize (R eq_refl). lia.
    - destruct (Nat.lt_ge_cases a (length (gnodes g))) as [Ha|Ha];
        [destruct (Nat.lt_ge_cases b (length (gnodes g))) as [Hb|Hb]|].
      + destruct (@try_add_edge_ok NW EW cap capcheck g a b w) as [g' [Eq Sh]]; auto.
        rewrite Eq. eexists _, g'. split; [reflexivity|].
        split; [|rewrite (ae_nlen Sh), (ae_elen Sh); split; lia].
        eapply add_edge_GInv; eauto. pose proof (gi_ecap I). lia.
      + rewrite try_add_edge_oob by auto. exists (inl NodeOutBounds), g. split; [reflexivity|]. split; [exact I|]. split; [reflexivity|lia].
      + rewrite try_add_edge_oob by auto. exists (inl NodeOutBounds), g. split; [reflexivity|]. split; [exact I|]. split; [reflexivity|lia].
  Qed.

  Lemma remove_node_total (g : graph) a :
    GInv g ->
    exists r g', remove_node cap debug g a = Ok (r, g') /\ GInv g' /\
      length (gnodes g') <= length (gnodes g) /\ length (gedges g') <= length (gedges g).
  Proof.
    intros I. destruct (Nat.lt_ge_cases a (length (gnodes g))) as [Ha|Ha].
    - destruct (remove_node_spec debug I Ha) as [n [g2 [g' [_ [Eq [I' [Hn [Hp _]]]]]]]].
      exists (Some (nwt n)), g'. split; auto. split; auto.
      apply (f_equal (@length _)) in Hn.
      rewrite swap_remove_length in Hn by (rewrite map_length; auto).
      rewrite !map_length in Hn.
      apply Permutation_length in Hp. unfold etrip in Hp. rewrite !map_length in Hp.
      pose proof (filter_len_le (not_inc a) (map (@etr EW) (gedges g))) as Hf.
      rewrite map_length in Hf. lia.
    - rewrite remove_node_oob by auto. exists None, g. split; [reflexivity|]. split; [exact I|]. split; lia.
  Qed.

  Lemma remove_edge_total (g : graph) e :
    GInv g ->
    exists r g', remove_edge debug g e = Ok (r, g') /\ GInv g' /\
      length (gnodes g') = length (gnodes g) /\ length (gedges g') <= length (gedges g).
  Proof.
    intros I. destruct (Nat.lt_ge_cases e (length (gedges g))) as [He|He].
    - destruct (proj2 (@T3_remove_edge NW EW cap debug g e I) He)
        as [ed [g' [_ [Eq [I' [Hn [_ [Hl _]]]]]]]].
      exists (Some (ewt ed)), g'. split; auto. split; auto.
      split; [eapply map_eq_length; eauto|lia].
    - rewrite remove_edge_oob by auto. exists None, g. split; [reflexivity|]. split; [exact I|]. split; [reflexivity|lia].
  Qed.

  Lemma retain_nodes_loop_len (keep : NW -> bool) : forall todo (g g' : graph),
    GInv g -> todo <= length (gnodes g) ->
    retain_nodes_loop cap debug keep g todo = Ok g' ->
    length (gnodes g') <= length (gnodes g) /\ length (gedges g') <= length (gedges g).
  Proof.
    induction todo as [|i IH]; intros g g' I Ht; cbn [retain_nodes_loop].
    - intros [= <-]. auto.
    - assert (Hi : i < length (gnodes g)) by lia.
      destruct (nth_error_lt_Some _ Hi) as [n Hn]. rewrite Hn.
      destruct (keep (nwt n)).
      + apply IH; auto. lia.
      + destruct (remove_node_spec debug I Hi) as [n' [g2 [g1 [_ [Hre [I1 [Hnw [Hp _]]]]]]]].
        rewrite Hre. cbn [rbind]. intros Hrun.
        apply (f_equal (@length _)) in Hnw.
        rewrite swap_remove_length in Hnw by (rewrite map_length; auto).
        rewrite !map_length in Hnw.
        apply Permutation_length in Hp. unfold etrip in Hp. rewrite !map_length in Hp.
        pose proof (filter_len_le (not_inc i) (map (@etr EW) (gedges g))) as Hf.
        rewrite map_length in Hf.
        destruct (IH g1 g' I1) as [H1 H2]; auto; lia.
  Qed.

  Lemma need_firstn1 (l : list (nat * nat * EW)) : need (firstn 1 l) <= need l.
  Proof. destruct l as [|[[a b] w] r]; cbn [firstn need]; lia. Qed.

  Lemma step2_ok d (g : graph) o :
    GInv g ->
    (capcheck = false ->
       nbound o (length (gnodes g)) <= cap /\ ebound o (length (gedges g)) <= cap) ->
    exists r d' g', step2 (d, g) o = Ok (r, (d', g')) /\ GInv g' /\
      length (gnodes g') <= nbound o (length (gnodes g)) /\
      length (gedges g') <= ebound o (length (gedges g)).
  Proof.
    intros I Hroom.
    destruct o as [w|a b w|a b w|a|e| | | |keep|keep|es|nmap emap| |a w|e w|a|e|e|a b|a b|a b|a k|e k|a k|f h];
      cbn [step2 nbound ebound] in *.
    - (* add_node *)
      destruct (@add_node_total g w I) as [r [g' [Eq [I' [H1 H2]]]]].
      { intros Hc. destruct (Hroom Hc). lia. }
      rewrite Eq. eexists _, _, _. split; [reflexivity|]. rewrite H2. auto.
    - (* add_edge *)
      destruct (@add_edge_total g a b w I) as [r [g' [Eq [I' [H1 H2]]]]].
      { intros Hc. destruct (Hroom Hc). lia. }
      rewrite Eq. eexists _, _, _. split; [reflexivity|]. rewrite H1. auto.
    - (* update_edge *)
      destruct (@try_update_edge_spec NW EW cap capcheck d g a b w I) as [o [_ Ho]].
      destruct o as [ix|].
      + destruct Ho as [Hl [g' [Hs Hrun]]]. rewrite Hrun. cbn [rmap].
        destruct (proj2 (@set_edge_weight_spec NW EW cap g ix w I) Hl) as [g'' [Hs' [I' [Hn [Hen _]]]]].
        assert (g'' = g') by congruence. subst g''.
        eexists _, _, _. split; [reflexivity|]. split; auto.
        rewrite Hn, (map_eq_length _ _ _ Hen). lia.
      + rewrite Ho. cbn [rmap].
        destruct (@add_edge_total g a b w I) as [r [g' [Eq [I' [H1 H2]]]]].
        { intros Hc. destruct (Hroom Hc). lia. }
        rewrite Eq. eexists _, _, _. split; [reflexivity|]. rewrite H1. auto.
    - (* remove_node *)
      destruct (@remove_node_total g a I) as [r [g' [Eq [I' [H1 H2]]]]].
      rewrite Eq. cbn [rmap]. eexists _, _, _. split; [reflexivity|]. auto.
    - (* remove_edge *)
      destruct (@remove_edge_total g e I) as [r [g' [Eq [I' [H1 H2]]]]].
      rewrite Eq. cbn [rmap]. eexists _, _, _. split; [reflexivity|]. rewrite H1. auto.
    - (* reverse *)
      eexists _, _, _. split; [reflexivity|]. split; [apply reverse_GInv; auto|].
      unfold reverse. cbn [gnodes gedges]. rewrite !map_length. lia.
    - (* clear *)
      eexists _, _, _. split; [reflexivity|]. split; [apply GInv_empty|]. simpl. lia.
    - (* clear_edges *)
      eexists _, _, _. split; [reflexivity|].
      split; [apply clear_edges_GInv; apply (gi_ncap I)|].
      unfold clear_edges. cbn [gnodes gedges]. rewrite map_length. simpl. lia.
    - (* retain_nodes *)
      destruct (@retain_nodes_spec NW EW cap debug keep g I) as [g' [Hrun [I' _]]].
      rewrite Hrun. cbn [rmap]. eexists _, _, _. split; [reflexivity|]. split; auto.
      unfold retain_nodes in Hrun. eapply retain_nodes_loop_len; eauto.
    - (* retain_edges *)
      destruct (@retain_edges_spec NW EW cap debug keep g I) as [g' [Hrun [I' [Hn Hp]]]].
      rewrite Hrun. cbn [rmap]. eexists _, _, _. split; [reflexivity|]. split; auto.
      rewrite (map_eq_length _ _ _ Hn).
      apply Permutation_length in Hp. unfold etrip in Hp. rewrite map_length in Hp.
      pose proof (filter_len_le (fun t : nat * nat * EW => keep (snd t)) (map (@etr EW) (gedges g))) as Hf.
      rewrite map_length in Hf. lia.
    - (* extend_with_edges *)
      destruct (@extend_with_edges_spec NW EW cap capcheck dflt es g I) as [ok [g' [pre [post [Hrun R]]]]].
      { intros Hc. destruct (Hroom Hc). auto. }
      rewrite Hrun. eexists _, _, _. split; [reflexivity|].
      split; [apply (gr_inv (er_grown R))|].
      pose proof (er_nlen R) as Ln. pose proof (er_split R) as Hs.
      pose proof (etrip_prefix_len _ _ _ (er_etrip R)) as Le. rewrite map_length in Le.
      assert (Hnd : need (pre ++ firstn 1 post) <= need es).
      { rewrite Hs, !need_app. pose proof (need_firstn1 post). lia. }
      assert (Hlp : length pre <= length es) by (rewrite Hs, app_length; lia).
      lia.
    - (* filter_map *)
      destruct (@filter_map_spec NW EW NW EW cap capcheck nmap emap g I)
        as [g' [Hrun [I' [Hn [He _]]]]].
      rewrite Hrun. eexists _, _, _. split; [reflexivity|]. split; auto.
      apply (f_equal (@length _)) in Hn. apply (f_equal (@length _)) in He.
      rewrite map_length in Hn. rewrite etrip_length in He.
      unfold fm_nodes_of in Hn. unfold fm_edges_of in He.
      pose proof (omapi_length nmap (map (@nwt NW) (gnodes g)) 0) as H1.
      pose proof (omapi_length (fm_edge_of nmap emap g) (etrip g) 0) as H2.
      rewrite map_length in H1. rewrite etrip_length in H2. lia.
    - (* into_edge_type *)
      eexists _, _, _. split; [reflexivity|]. auto.
    - (* node weight *)
      destruct (Nat.lt_ge_cases a (length (gnodes g))) as [Ha|Ha].
      + destruct (proj2 (@set_node_weight_spec NW EW cap g a w I) Ha) as [g' [Hs [I' [He [Hn _]]]]].
        rewrite Hs. eexists _, _, _. split; [reflexivity|]. split; auto.
        apply (f_equal (@length _)) in Hn. rewrite upd_length, !map_length in Hn.
        rewrite He, Hn. lia.
      + rewrite (proj1 (@set_node_weight_spec NW EW cap g a w I) Ha).
        eexists _, _, _. split; [reflexivity|]. auto.
    - (* edge weight *)
      destruct (Nat.lt_ge_cases e (length (gedges g))) as [He|He].
      + destruct (proj2 (@set_edge_weight_spec NW EW cap g e w I) He) as [g' [Hs [I' [Hn [Hen _]]]]].
        rewrite Hs. eexists _, _, _. split; [reflexivity|]. split; auto.
        rewrite Hn, (map_eq_length _ _ _ Hen). lia.
      + rewrite (proj1 (@set_edge_weight_spec NW EW cap g e w I) He).
        eexists _, _, _. split; [reflexivity|]. auto.
    - eexists _, _, _. split; [reflexivity|]. auto.
    - eexists _, _, _. split; [reflexivity|]. auto.
    - eexists _, _, _. split; [reflexivity|]. auto.
    - (* find_edge *)
      rewrite (find_edge_flag d a b I). cbn [rmap]. eexists _, _, _. split; [reflexivity|]. auto.
    - rewrite (find_edge_undirected_total a b I). cbn [rmap].
      eexists _, _, _. split; [reflexivity|]. auto.
    - destruct (edges_connecting_flag d a b I) as [r [_ E]]. rewrite E. cbn [rmap].
      eexists _, _, _. split; [reflexivity|]. auto.
    - eexists _, _, _. split; [reflexivity|]. auto.
    - eexists _, _, _. split; [reflexivity|]. auto.
    - rewrite (neighbors_flag d a k I). cbn [rmap]. eexists _, _, _. split; [reflexivity|]. auto.
    - (* map *)
      destruct (gmap_spec f h I) as [I' _].
      eexists _, _, _. split; [reflexivity|]. split; auto.
      unfold gmap. cbn [gnodes gedges]. rewrite !map_length. lia.
  Qed.

  Theorem run2_ok ops : forall (s : st2),
    GInv (snd s) ->
    (capcheck = false -> fits (length (gnodes (snd s))) (length (gedges (snd s))) ops) ->
    exists s', run2 s ops = Ok s' /\ GInv (snd s').
  Proof.
    induction ops as [|o ops IH]; intros [d g] I Hfits; cbn [run2 snd] in *.
    - eexists. split; [reflexivity|]. auto.
    - destruct (@step2_ok d g o I) as [r [d' [g' [Hrun [I' [Hn He]]]]]].
      { intros Hc. destruct (Hfits Hc) as [H1 [H2 _]]. auto. }
      rewrite Hrun. cbn [rbind]. apply IH; auto.
      intros Hc. destruct (Hfits Hc) as [_ [_ H3]]. eapply fits_mono; [| |exact H3]; auto.
  Qed.

  Theorem history2_ok d ops :
    (capcheck = false -> fits 0 0 ops) ->
    exists s', run2 (d, g_empty) ops = Ok s' /\ GInv (snd s').
  Proof. intros H. apply run2_ok; [apply GInv_empty|exact H]. Qed.
End GraphH2.

(* ------------------------------------------------------------------ *)
(* The decoder of Model/GraphIO.v                                       *)
Section Link.
  Variable cap : nat.
  Variable capcheck : bool.
  Variable debug : bool.

  Notation gop2 := (gop2 nat nat).
  Notation gout2 := (gout2 nat nat).

  Definition decode2 (o : line) : option gop2 :=
    let '(code, a) := o in
    match code with
    | 0 | 1 => Some (GAddNode (arg a 0))
    | 2 | 3 => Some (GAddEdge (arg a 0) (arg a 1) (arg a 2))
    | 4 | 5 => Some (GUpdateEdge (arg a 0) (arg a 1) (arg a 2))
    | 6 => Some (GRemoveNode (arg a 0))
    | 7 => Some (GRemoveEdge (arg a 0))
    | 8 => Some GReverse
    | 9 => Some GClear
    | 10 => Some GClearEdges
    | 11 => Some (GRetainNodes (keepmod (arg a 0) (arg a 1)))
    | 12 => Some (GRetainEdges (keepmod (arg a 0) (arg a 1)))
    | 13 => Some (GExtend (triples a))
    | 14 => Some (GFilterMap (fun _ w => if keepmod (arg a 0) (arg a 1) w then Some (S w) else None)
                             (fun _ w => if keepmod (arg a 2) (arg a 3) w then Some (S w) else None))
    | 15 => Some GIntoEdgeType
    | 16 => Some (GSetNodeWeight (arg a 0) (arg a 1))
    | 17 => Some (GSetEdgeWeight (arg a 0) (arg a 1))
    | 18 => Some (GNodeWeight (arg a 0))
    | 19 => Some (GEdgeWeight (arg a 0))
    | 20 => Some (GEdgeEndpoints (arg a 0))
    | 21 => Some (GFindEdge (arg a 0) (arg a 1))
    | 22 => Some (GFindEdgeUndirected (arg a 0) (arg a 1))
    | 23 => Some (GEdgesConnecting (arg a 0) (arg a 1))
    | 24 => Some (GFirstEdge (arg a 0) (arg a 1))
    | 25 => Some (GNextEdge (arg a 0) (arg a 1))
    | 26 => Some (GWalk (arg a 0) (arg a 1))
    | 27 => Some (GMap S S)
    | _ => None
    end.

  (* the first line printed for a result; [code] only selects between the panicking and the
     try_ variants (even / odd codes 0..5) and between extend_with_edges and the weight setters *)
  Definition render (code : nat) (r : gout2) : line :=
    match r with
    | RIdx r => res_idx_line (Nat.even code) r
    | RNw o => opt_nat_line o
    | REw o => opt_nat_line o
    | RUnit => (TAG_UNIT, [])
    | RBool b => if Nat.eqb code 13 then (if b then (TAG_UNIT, []) else (TAG_PANIC, []))
                 else (TAG_BOOL, [zb b])
    | REdge o => opt_nat_line o
    | REdgeDir o => match o with
                    | None => (TAG_NONE, [])
                    | Some (e, k) => (TAG_PAIR, [zn e; zn k])
                    end
    | REnds o => match o with
                 | None => (TAG_NONE, [])
                 | Some p => (TAG_PAIR, [zn (fst p); zn (snd p)])
                 end
    | RErefs l => (TAG_ECONN, flat_eref l)
    | RPairs l => (TAG_WALK, flat_map (fun '(e, n) => [zn e; zn n]) l)
    end.

  Definition step2io := @step2 nat nat cap capcheck debug 0.

  Definition next2 (s : st) (p : option gop2) : st :=
    match p with
    | Some p => match step2io s p with Ok (_, s') => s' | _ => s end
    | None => s
    end.

  Ltac crush :=
    cbn [fst snd rbind rmap]; try reflexivity;
    match goal with
    | |- context [filter_map ?a ?b ?f ?g ?h] => destruct (filter_map a b f g h); crush
    | |- context [match ?x with _ => _ end] =>
        lazymatch x with
        | context [match _ with _ => _ end] => fail
        | _ => destruct x; crush
        end
    end.

  (* state and printed lines of GraphIO.step, from step2 on the decoded operation *)
  Theorem step_link (s : st) (o : line) :
    GraphIO.step cap capcheck debug s o =
      match decode2 o with
      | Some p =>
          match step2io s p with
          | Ok (r, s') =>
              (s', render (fst o) r ::
                   (if mutates p then battery cap (fst s') (snd s') else []))
          | Panic => (s, [(TAG_PANIC, [])])
          | OutOfFuel => (s, [(TAG_FUEL, [])])
          end
      | None => (s, [(TAG_PANIC, [])])
      end.
  Proof.
    destruct s as [d g]. destruct o as [code a].
    let rec go n :=
      lazymatch n with
      | 0 => idtac
      | S ?m => destruct code as [|code];
                [cbn [GraphIO.step decode2 step2io step2 mutates render fst snd]; unfold step2io, rmap;
                 cbn [step2 mutates]; crush|go m]
      end in go 28.
    reflexivity.
  Qed.

  Corollary step_state (s : st) (o : line) :
    fst (GraphIO.step cap capcheck debug s o) = next2 s (decode2 o).
  Proof.
    rewrite step_link. unfold next2.
    destruct (decode2 o) as [p|]; [|reflexivity].
    destruct (step2io s p) as [[r s']| |]; reflexivity.
  Qed.

  Definition decode_all (ops : list line) : list gop2 :=
    flat_map (fun o => match decode2 o with Some p => [p] | None => [] end) ops.

  (* the states the stream's run function goes through *)
  Fixpoint visited (s : st) (ops : list line) : list st :=
    match ops with
    | [] => [s]
    | o :: rest => s :: visited (fst (GraphIO.step cap capcheck debug s o)) rest
    end.

  Theorem visited_inv ops : forall (s : st),
    GInv cap (snd s) ->
    (capcheck = false ->
       fits cap (length (gnodes (snd s))) (length (gedges (snd s))) (decode_all ops)) ->
    Forall (fun s' : st => GInv cap (snd s')) (visited s ops).
  Proof.
    induction ops as [|o ops IH]; intros [d g] I Hfits; cbn [visited]; constructor; auto.
    rewrite step_state. unfold next2. unfold decode_all in Hfits. cbn [flat_map snd] in Hfits.
    destruct (decode2 o) as [p|].
    - destruct (@step2_ok nat nat cap capcheck debug 0 d g p I) as [r [d' [g' [Hrun [I' [Hn He]]]]]].
      { intros Hc. destruct (Hfits Hc) as [H1 [H2 _]]. auto. }
      unfold step2io. unfold G in *. rewrite Hrun. apply IH; auto. cbn [snd].
      intros Hc. destruct (Hfits Hc) as [_ [_ H3]]. eapply fits_mono; [| |exact H3]; auto.
    - apply IH; auto.
  Qed.

  Corollary visited_inv_checked ops d :
    capcheck = true ->
    Forall (fun s' : st => GInv cap (snd s')) (visited (d, g_empty) ops).
  Proof.
    intros Hc. apply visited_inv; [apply GInv_empty|]. intros Hf. congruence.
  Qed.
End Link.
