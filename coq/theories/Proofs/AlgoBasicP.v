(* has_path_connecting (algo/mod.rs): a Dfs from the source that stops at the first
   occurrence of the target.  It agrees with membership in the full drain, which
   TraversalP shows to be the set of reachable nodes. *)
From PG Require Import Lib.Io Model.View Model.Traversal Model.AlgoBasic Spec.Reach
                       Proofs.TravBase Proofs.TraversalP Proofs.TraversalAll.
Set Implicit Arguments.

Lemma dfs_any_drain v t : forall fuel d l d',
  dfs_drain fuel v d = Ok (l, d') -> dfs_any fuel v d t = Ok (mem t l).
Proof.
  induction fuel as [|f IH]; intros d l d' H; [discriminate H|].
  cbn [dfs_drain] in H. cbn [dfs_any].
  destruct (dfs_next (trav_fuel v) v d) as [[o d1]| |]; cbn [rbind] in *; try discriminate H.
  destruct o as [n|].
  - destruct (dfs_drain f v d1) as [[l2 d2]| |] eqn:E2; cbn [rmap] in H; try discriminate H.
    injection H as <- <-. cbn [mem]. destruct (Nat.eqb n t); cbn [orb]; [reflexivity|].
    apply (IH _ _ _ E2).
  - injection H as <- <-. reflexivity.
Qed.

Theorem has_path_spec v a b : VOk v -> in_cap v a ->
  exists r, has_path_connecting v a b = Ok r /\ (r = true <-> reachable v a b).
Proof.
  intros Hv Ha.
  destruct (dfs_reachable_vok v a (4 * trav_fuel v) Hv Ha (model_fuel v)) as [l [d [E [_ Hr]]]].
  exists (mem b l). split.
  - unfold has_path_connecting. apply (@dfs_any_drain v b _ _ _ _ E).
  - rewrite mem_In. apply Hr.
Qed.

Theorem has_path_iff v a b : VOk v -> in_cap v a ->
  (has_path_connecting v a b = Ok true <-> reachable v a b) /\
  (has_path_connecting v a b = Ok false <-> ~ reachable v a b).
Proof.
  intros Hv Ha. destruct (@has_path_spec v a b Hv Ha) as [r [E Hr]]. rewrite E. split; split.
  - intros H. injection H as ->. apply Hr; reflexivity.
  - intros H. apply Hr in H. rewrite H; reflexivity.
  - intros H R. injection H as ->. apply Hr in R. discriminate R.
  - intros H. destruct r; [exfalso; apply H, Hr; reflexivity | reflexivity].
Qed.
