(* Assembly: the theorems T1-T5 in the form quoted by Props/C01.v, stated on the
   list-valued adjacency function [adjf] (the lists read off the links by the model's walk). *)
From Coq Require Import Permutation.
From PG Require Import Lib.ListArr Lib.Walk Model.GraphM
  Proofs.GraphP Proofs.GraphQ Proofs.GraphRE Proofs.GraphRN Proofs.GraphRev Proofs.GraphH.
Set Implicit Arguments.

Section GraphT.
  Context {NW EW : Type}.
  Variable cap : nat.
  Variable capcheck : bool.
  Variable debug : bool.

  Notation graph := (graph NW EW).
  Notation adj := (@adj NW EW cap).
  Notation GInv := (@GInv NW EW cap).
  Notation adjf := (@adjf NW EW cap).

  (* ---------------- T1 ---------------- *)

  Theorem T1_empty : GInv g_empty /\ forall k i, adjf g_empty k i = [].
  Proof.
    split; [apply GInv_empty|]. intros k i. apply adjf_oob; simpl; lia.
  Qed.

  Theorem T1_add_node (g : graph) w :
    GInv g ->
    (capcheck = true -> length (gnodes g) = cap ->
       try_add_node cap capcheck g w = (inl NodeIxLimit, g)) /\
    (length (gnodes g) < cap ->
       exists g', try_add_node cap capcheck g w = (inr (length (gnodes g)), g') /\
         GInv g' /\
         map (@nwt NW) (gnodes g') = map (@nwt NW) (gnodes g) ++ [w] /\
         gedges g' = gedges g /\
         forall k i, adjf g' k i = adjf g k i).
  Proof.
    intros I. split.
    - intros Hc E. apply try_add_node_limit; auto.
    - intros Hlt. eexists. split; [apply try_add_node_ok; right; lia|].
      split; [apply add_node_GInv; auto|]. split; [simpl; rewrite map_app; reflexivity|].
      split; [reflexivity|]. intros k i. apply add_node_adjf; auto.
  Qed.

  Lemma add_edge_map_nwt (g g' : graph) a b w :
    add_edge_shape g a b w g' -> map (@nwt NW) (gnodes g') = map (@nwt NW) (gnodes g).
  Proof.
    intros Sh. apply list_eq_nth. intros j. rewrite !nth_error_map.
    destruct (nth_error (gnodes g) j) as [n|] eqn:E.
    - destruct (add_edge_nwt Sh _ E) as [n' [E' Hw]]. rewrite E'. simpl. congruence.
    - assert (E' : nth_error (gnodes g') j = None).
      { apply nth_error_None. rewrite (ae_nlen Sh). apply nth_error_None. auto. }
      rewrite E'. reflexivity.
  Qed.

  Theorem T1_add_edge (g : graph) a b w :
    GInv g ->
    (capcheck = true -> length (gedges g) = cap ->
       try_add_edge cap capcheck g a b w = (inl EdgeIxLimit, g)) /\
    (length (gedges g) < cap -> length (gnodes g) <= a \/ length (gnodes g) <= b ->
       try_add_edge cap capcheck g a b w = (inl NodeOutBounds, g)) /\
    (length (gedges g) < cap -> a < length (gnodes g) -> b < length (gnodes g) ->
       exists g', try_add_edge cap capcheck g a b w = (inr (length (gedges g)), g') /\
         GInv g' /\
         map (@nwt NW) (gnodes g') = map (@nwt NW) (gnodes g) /\
         etrip g' = etrip g ++ [((a, b), w)] /\
         forall k i, i < length (gnodes g) ->
           adjf g' k i = if Nat.eqb i (sel (a, b) k)
                         then length (gedges g) :: adjf g k i else adjf g k i).
  Proof.
    intros I. split; [|split].
    - intros Hc E. apply try_add_edge_limit; auto.
    - intros Hlt Hab. apply (try_add_edge_oob g w); [right; lia|auto].
    - intros Hlt Ha Hb.
      destruct (@try_add_edge_ok NW EW cap capcheck g a b w) as [g' [Eq Sh]]; auto; [right; lia|].
      exists g'. split; auto. split; [eapply add_edge_GInv; eauto|].
      split; [eapply add_edge_map_nwt; eauto|]. split.
      + destruct (ae_edges Sh) as [ed' [E [Ew [En _]]]].
        unfold etrip. rewrite E, map_app. simpl. unfold etr. rewrite Ew, En. reflexivity.
      + apply (add_edge_adjf I Sh); auto.
  Qed.

  (* ---------------- T2 (the walks; the queries are in GraphQ) ---------------- *)

  Theorem T2_walks (g : graph) :
    GInv g -> forall k i,
      chain (fuel_of g) (gedges g) (sel (node_next cap g i) k) k = Ok (adjf g k i) /\
      NoDup (adjf g k i) /\
      (i < length (gnodes g) ->
         forall x, In x (adjf g k i) <-> x < length (gedges g) /\ ept g k x = i) /\
      (length (gnodes g) <= i -> adjf g k i = []).
  Proof.
    intros I k i. split; [apply chain_adjf; auto|]. split; [apply adjf_NoDup; auto|].
    split.
    - intros Hi x. apply adjf_in; auto.
    - intros Hi. apply adjf_oob; auto. apply (gi_ecap I).
  Qed.

  (* ---------------- T3 ---------------- *)

  Theorem T3_remove_edge (g : graph) e :
    GInv g ->
    (length (gedges g) <= e -> remove_edge debug g e = Ok (None, g)) /\
    (e < length (gedges g) ->
       exists ed g', nth_error (gedges g) e = Some ed /\
         remove_edge debug g e = Ok (Some (ewt ed), g') /\
         GInv g' /\
         map (@nwt NW) (gnodes g') = map (@nwt NW) (gnodes g) /\
         etrip g' = swap_remove (etrip g) e /\
         length (gedges g') = length (gedges g) - 1 /\
         forall k i, i < length (gnodes g) ->
           adjf g' k i = map (ren (length (gedges g) - 1) e) (remove Nat.eq_dec e (adjf g k i))).
  Proof.
    intros I. split; [apply remove_edge_oob|].
    intros He. destruct (remove_edge_etrip debug I He) as [ed [g' [H1 [H2 [H3 [H4 [H5 H6]]]]]]].
    exists ed, g'. repeat (split; auto).
    - apply (f_equal (@length _)) in H5. unfold etrip in H5.
      rewrite swap_remove_length in H5 by (rewrite map_length; auto).
      rewrite !map_length in H5. auto.
    - apply remove_edge_adjf; auto.
  Qed.

  (* ---------------- T4 ---------------- *)

  Theorem T4_remove_node (g : graph) a :
    GInv g ->
    (length (gnodes g) <= a -> remove_node cap debug g a = Ok (None, g)) /\
    (a < length (gnodes g) ->
       exists n g', nth_error (gnodes g) a = Some n /\
         remove_node cap debug g a = Ok (Some (nwt n), g') /\
         GInv g' /\
         map (@nwt NW) (gnodes g') = swap_remove (map (@nwt NW) (gnodes g)) a /\
         Permutation (etrip g')
           (map (ren_trip (length (gnodes g) - 1) a) (filter (not_inc a) (etrip g)))).
  Proof.
    intros I. split; [apply remove_node_oob|].
    intros Ha. destruct (remove_node_spec debug I Ha) as [n [g2 [g' [H1 [H2 [H3 [H4 [H5 _]]]]]]]].
    exists n, g'. auto.
  Qed.

  (* ---------------- T5 ---------------- *)

  Theorem T5_reverse (g : graph) :
    GInv g ->
    GInv (reverse g) /\
    map (@nwt NW) (gnodes (reverse g)) = map (@nwt NW) (gnodes g) /\
    map (@ewt EW) (gedges (reverse g)) = map (@ewt EW) (gedges g) /\
    map (@enode EW) (gedges (reverse g)) = map swapp (map (@enode EW) (gedges g)) /\
    forall i, adjf (reverse g) 0 i = adjf g 1 i /\ adjf (reverse g) 1 i = adjf g 0 i.
  Proof.
    intros I. pose proof (reverse_GInv I) as I'.
    split; auto. split; [apply reverse_nwt|]. split; [apply reverse_ewt|].
    split; [apply reverse_enode|].
    assert (Hn : length (gnodes (reverse g)) = length (gnodes g)).
    { unfold reverse. simpl. apply map_length. }
    intros i. destruct (Nat.lt_ge_cases i (length (gnodes g))) as [Hi|Hi].
    - split; apply adjf_adj; try apply (gi_ecap I').
      + apply (@reverse_adj NW EW cap g 0). apply adj_adjf; auto.
      + apply (@reverse_adj NW EW cap g 1). apply adj_adjf; auto.
    - rewrite !adjf_oob; auto; try apply (gi_ecap I); try apply (gi_ecap I'); rewrite Hn; auto.
  Qed.

  Theorem T5_clear_edges (g : graph) :
    GInv g ->
    GInv (clear_edges cap g) /\
    map (@nwt NW) (gnodes (clear_edges cap g)) = map (@nwt NW) (gnodes g) /\
    gedges (clear_edges cap g) = [] /\
    forall k i, adjf (clear_edges cap g) k i = [].
  Proof.
    intros I. pose proof (clear_edges_GInv g (gi_ncap I)) as I'.
    split; auto. split; [apply clear_edges_nwt|]. split; [reflexivity|].
    intros k i. destruct (Nat.lt_ge_cases i (length (gnodes (clear_edges cap g)))) as [Hi|Hi].
    - pose proof (adj_adjf k I' Hi) as H.
      destruct (adjf (clear_edges cap g) k i) as [|x l]; auto.
      pose proof (adj_in_lt x H (or_introl eq_refl)) as Hlt. simpl in Hlt. lia.
    - apply adjf_oob; auto. simpl. lia.
  Qed.
End GraphT.
