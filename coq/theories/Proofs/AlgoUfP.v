(* connected_components and is_cyclic_undirected (algo/mod.rs): folds of UnionFind::union
   over edge_references.  Everything rests on the verified union-find (UnionFindP/H). *)
From PG Require Import Lib.Io Model.View Model.UnionFindM Model.AlgoBasic
                       Spec.Partition Spec.Reach Spec.AlgoSpec Proofs.UnionFindP Proofs.UnionFindH.
Set Implicit Arguments.

(* ------------------------------------------------------------------ *)
(* conn depends on the pairs as a set, and not on reflexive pairs      *)

Lemma conn_sub prs prs' :
  (forall x y, In (x, y) prs -> conn prs' x y) -> forall a b, conn prs a b -> conn prs' a b.
Proof.
  intros Hs a b H. induction H as [x | x y Hin | x y H IH | x y z H1 IH1 H2 IH2].
  - apply c_refl.
  - apply Hs; exact Hin.
  - apply c_sym; exact IH.
  - eapply c_trans; [exact IH1 | exact IH2].
Qed.

Lemma conn_incl prs prs' :
  (forall p, In p prs -> In p prs') -> forall a b, conn prs a b -> conn prs' a b.
Proof. intros Hi. apply conn_sub. intros x y Hin. apply c_base, Hi, Hin. Qed.

(* the abstract state after one more union, against the list of all pairs seen *)
Lemma conn_equiv_snoc prs P x y :
  (forall a b, conn prs a b <-> conn P a b) ->
  forall a b, conn (if Nat.eqb x y then prs else (x, y) :: prs) a b <-> conn (P ++ [(x, y)]) a b.
Proof.
  intros He a b. split.
  - apply conn_sub. intros p q Hin.
    assert (Hold : conn prs p q -> conn (P ++ [(x, y)]) p q).
    { intros Hc. apply He in Hc. revert Hc. apply conn_incl. intros pr Hpr. apply in_or_app; left; exact Hpr. }
    destruct (Nat.eqb x y).
    + apply Hold, c_base, Hin.
    + destruct Hin as [E|Hin].
      * injection E as <- <-. apply c_base. apply in_or_app; right; left; reflexivity.
      * apply Hold, c_base, Hin.
  - apply conn_sub. intros p q Hin. apply in_app_or in Hin.
    assert (Hold : conn prs p q -> conn (if Nat.eqb x y then prs else (x, y) :: prs) p q).
    { destruct (Nat.eqb x y); [auto | apply conn_weaken]. }
    destruct Hin as [Hin|[E|[]]].
    + apply Hold, He, c_base, Hin.
    + injection E as <- <-. destruct (Nat.eqb_spec x y) as [->|Hne].
      * apply c_refl.
      * apply c_base; left; reflexivity.
Qed.

(* ------------------------------------------------------------------ *)
(* One union on a state that refines a partition                       *)

Lemma union_step u n prs x y : Abs u (n, prs) -> x < n -> y < n ->
  exists b u', union u x y = (Ok b, u') /\
    Abs u' (n, if Nat.eqb x y then prs else (x, y) :: prs) /\
    (b = false <-> conn prs x y).
Proof.
  intros A Hx Hy. pose proof A as [I [L [Rg Eq]]]. cbn [fst snd] in L, Rg, Eq.
  destruct (try_union_spec x y I) as [r [u' [E P]]].
  pose proof (abs_union A P) as A'. cbn [spec_step] in A'.
  assert (Hxn : Nat.ltb x n = true) by (apply Nat.ltb_lt; exact Hx).
  assert (Hyn : Nat.ltb y n = true) by (apply Nat.ltb_lt; exact Hy).
  rewrite Hxn, Hyn in A'. cbn [andb] in A'.
  assert (A2 : Abs u' (n, if Nat.eqb x y then prs else (x, y) :: prs)).
  { destruct (Nat.eqb x y); cbn [negb] in A'; exact A'. }
  unfold union. rewrite E.
  destruct P as [u' Hxy Hu | u' Hxy Hbx Hu | u' Hxy Hbx Hby I' L' RP | u' Hxy Hbx Hby S I' L' RP
                | u' rx ry Hxy Hbx Hby Hrx Hry Hne I' L' K].
  - exists false, u'. split; [reflexivity|]. split; [exact A2|]. subst y. split; [intros _; apply c_refl | reflexivity].
  - exfalso. lia.
  - exfalso. lia.
  - exists false, u'. split; [reflexivity|]. split; [exact A2|].
    split; [intros _; apply Eq; assumption | reflexivity].
  - exists true, u'. split; [reflexivity|]. split; [exact A2|].
    split; [discriminate|]. intros C. exfalso. apply Eq in C; [|exact Hx|exact Hy].
    destruct C as [r0 [R1 R2]]. apply Hne.
    rewrite (rootof_det Hrx R1), (rootof_det Hry R2). reflexivity.
Qed.

Definition in_range (n : nat) (es : list (nat * nat * nat * Z)) : Prop :=
  forall q, In q es -> esrc q < n /\ etgt q < n.

Lemma in_range_tl n q es : in_range n (q :: es) -> in_range n es.
Proof. intros H q' Hq'. apply H; right; exact Hq'. Qed.

(* ------------------------------------------------------------------ *)
(* uf_fold: the state after all the unions                             *)

Lemma uf_fold_spec n : forall es u prs P,
  Abs u (n, prs) -> (forall a b, conn prs a b <-> conn P a b) -> in_range n es ->
  exists u' prs', uf_fold u es = Ok u' /\ Abs u' (n, prs') /\
    forall a b, conn prs' a b <-> conn (P ++ epairs es) a b.
Proof.
  induction es as [|q rest IH]; intros u prs P A He Hr.
  - exists u, prs. split; [reflexivity|]. split; [exact A|]. cbn [epairs map]. rewrite app_nil_r. exact He.
  - destruct q as [[[e x] y] w]. cbn [uf_fold].
    destruct (Hr (e, x, y, w) (or_introl eq_refl)) as [Hx Hy]. cbn [esrc etgt fst snd] in Hx, Hy.
    destruct (union_step A Hx Hy) as [b0 [u1 [E [A1 _]]]]. rewrite E.
    destruct (IH u1 _ (P ++ [(x, y)]) A1 (conn_equiv_snoc x y He) (in_range_tl Hr)) as [u' [prs' [E' [A' He']]]].
    exists u', prs'. split; [exact E'|]. split; [exact A'|].
    intros a b. rewrite He'. cbn [epairs map esrc etgt fst snd]. rewrite <- app_assoc. reflexivity.
Qed.

(* ------------------------------------------------------------------ *)
(* cyc_fold: true at the first union that merges nothing               *)

Lemma cyc_fold_spec n : forall es u prs P,
  Abs u (n, prs) -> (forall a b, conn prs a b <-> conn P a b) -> in_range n es ->
  exists b, cyc_fold u es = Ok b /\
    (b = true <-> exists pre q post, es = pre ++ q :: post /\ conn (P ++ epairs pre) (esrc q) (etgt q)).
Proof.
  induction es as [|q rest IH]; intros u prs P A He Hr.
  - exists false. split; [reflexivity|]. split; [discriminate|].
    intros [pre [q [post [E _]]]]. destruct pre; discriminate E.
  - destruct q as [[[e x] y] w]. cbn [cyc_fold].
    destruct (Hr (e, x, y, w) (or_introl eq_refl)) as [Hx Hy]. cbn [esrc etgt fst snd] in Hx, Hy.
    destruct (union_step A Hx Hy) as [b [u1 [E [A1 Hb]]]]. rewrite E.
    destruct b.
    + destruct (IH u1 _ (P ++ [(x, y)]) A1 (conn_equiv_snoc x y He) (in_range_tl Hr)) as [b' [E' Hb']].
      exists b'. split; [exact E'|]. rewrite Hb'. split.
      * intros [pre [q [post [Er Hc]]]]. exists ((e, x, y, w) :: pre), q, post.
        split; [rewrite Er; reflexivity|].
        cbn [epairs map esrc etgt fst snd]. rewrite <- app_assoc in Hc. exact Hc.
      * intros [pre [q [post [Er Hc]]]]. destruct pre as [|q0 pre].
        -- exfalso. cbn [app] in Er. injection Er as <- _. cbn [epairs map esrc etgt fst snd] in Hc.
           rewrite app_nil_r in Hc. apply He in Hc. apply Hb in Hc. discriminate Hc.
        -- cbn [app] in Er. injection Er as <- Er. exists pre, q, post. split; [exact Er|].
           cbn [epairs map esrc etgt fst snd] in Hc. rewrite <- app_assoc. exact Hc.
    + exists true. split; [reflexivity|]. split; [|reflexivity]. intros _.
      exists [], (e, x, y, w), rest. split; [reflexivity|].
      cbn [epairs map esrc etgt fst snd]. rewrite app_nil_r. apply He, Hb. reflexivity.
Qed.

Theorem is_cyclic_undirected_spec v : erefs_ok v ->
  exists b, is_cyclic_undirected v = Ok b /\ (b = true <-> closes_cycle (verefs v)).
Proof.
  intros Hr. unfold is_cyclic_undirected, closes_cycle.
  destruct (@cyc_fold_spec (vbound v) (verefs v) (uf_new (vbound v)) [] [] (abs_new (vbound v))) as [b [E Hb]].
  - intros a b; reflexivity.
  - exact Hr.
  - exists b. split; [exact E | exact Hb].
Qed.

(* ------------------------------------------------------------------ *)
(* Counting the distinct labels                                        *)

Fixpoint dedup (l seen : list nat) : list nat :=
  match l with
  | [] => seen
  | x :: t => if mem x seen then dedup t seen else dedup t (x :: seen)
  end.

Lemma dedup_count_eq : forall l seen, dedup_count l seen = length (dedup l seen).
Proof.
  induction l as [|x t IH]; intros seen; cbn [dedup_count dedup]; [reflexivity|].
  destruct (mem x seen); apply IH.
Qed.

Lemma dedup_nodup : forall l seen, NoDup seen -> NoDup (dedup l seen).
Proof.
  induction l as [|x t IH]; intros seen Hn; cbn [dedup]; [exact Hn|].
  destruct (mem x seen) eqn:Em; apply IH; [exact Hn|].
  constructor; [apply mem_false; exact Em | exact Hn].
Qed.

Lemma dedup_in : forall l seen x, In x (dedup l seen) <-> In x l \/ In x seen.
Proof.
  induction l as [|y t IH]; intros seen x; cbn [dedup In]; [tauto|].
  destruct (mem y seen) eqn:Em; rewrite IH.
  - apply mem_In in Em. split; [tauto|]. intros [[<-|H]|H]; auto.
  - cbn [In]. tauto.
Qed.

Theorem connected_components_spec v : erefs_ok v ->
  exists reps, connected_components v = Ok (length reps) /\
               class_reps (vbound v) (epairs (verefs v)) reps.
Proof.
  intros Hr. unfold connected_components.
  destruct (@uf_fold_spec (vbound v) (verefs v) (uf_new (vbound v)) [] [] (abs_new (vbound v)))
    as [u [prs [E [A He]]]].
  - intros a b; reflexivity.
  - exact Hr.
  - rewrite E. cbn [rbind]. cbn [app] in He.
    destruct A as [I [L [Rg Eq]]]. cbn [fst snd] in L, Rg, Eq.
    destruct (into_labeling_spec I) as [l [El [Ll Hl]]]. rewrite El. cbn [rmap].
    rewrite L in Ll, Hl.
    exists (dedup l []). split; [rewrite dedup_count_eq; reflexivity|].
    assert (Hin : forall r, In r (dedup l []) <-> exists j, j < vbound v /\ rootof (parent u) j r).
    { intros r. rewrite dedup_in. split.
      - intros [H|[]]. destruct (In_nth l r 0 H) as [j [Hj Ej]]. exists j. rewrite Ll in Hj.
        split; [exact Hj|]. rewrite <- Ej. apply Hl; exact Hj.
      - intros [j [Hj Rj]]. left. rewrite (rootof_det Rj (Hl j Hj)). apply nth_In. rewrite Ll; exact Hj. }
    assert (Hlt : forall j r, rootof (parent u) j r -> r < vbound v).
    { intros j r Rj. apply rootof_root in Rj. apply nth_error_Some_lt in Rj.
      unfold uf_len in L. rewrite <- L. exact Rj. }
    split; [apply dedup_nodup; constructor|]. split; [|split].
    + intros r Hi. apply Hin in Hi. destruct Hi as [j [_ Rj]]. apply (Hlt j r Rj).
    + intros x Hx. exists (nth x l 0). split.
      * apply Hin. exists x. split; [exact Hx | apply Hl; exact Hx].
      * apply He. apply Eq; [exact Hx | apply (Hlt x), Hl; exact Hx |].
        exists (nth x l 0). split; [apply Hl; exact Hx | eapply rootof_root_self; apply Hl; exact Hx].
    + intros r r' Hi Hi' C. apply Hin in Hi, Hi'. destruct Hi as [j [_ Rj]]. destruct Hi' as [j' [_ Rj']].
      apply He in C. apply Eq in C; [|apply (Hlt j r Rj)|apply (Hlt j' r' Rj')].
      destruct C as [q [Q1 Q2]].
      rewrite (rootof_det (rootof_root_self Rj) Q1), (rootof_det (rootof_root_self Rj') Q2). reflexivity.
Qed.

(* the number of classes does not depend on the representatives chosen *)
Lemma class_reps_incl_length n prs r1 r2 :
  class_reps n prs r1 -> class_reps n prs r2 -> length r1 <= length r2.
Proof.
  intros [N1 [B1 [C1 U1]]] [N2 [B2 [C2 U2]]].
  assert (G : forall l, NoDup l -> (forall r, In r l -> In r r1) ->
             exists m, NoDup m /\ length m = length l /\ (forall r, In r m -> In r r2) /\
                       (forall r, In r m -> exists a, In a l /\ conn prs a r)).
  { induction l as [|a t IH]; intros Hn Hin.
    - exists []. split; [constructor|]. split; [reflexivity|]. split; intros r [].
    - inversion Hn as [|a' t' Ha Ht]; subst.
      destruct (IH Ht (fun r Hr => Hin r (or_intror Hr))) as [m [Nm [Lm [Im Cm]]]].
      destruct (C2 a (B1 a (Hin a (or_introl eq_refl)))) as [b [Hb Cab]].
      exists (b :: m). split; [|split; [|split]].
      + constructor; [|exact Nm]. intros Hbm. destruct (Cm b Hbm) as [a2 [Ha2 Ca2]].
        apply Ha. replace a with a2; [exact Ha2|].
        apply U1; [apply Hin; right; exact Ha2 | apply Hin; left; reflexivity|].
        eapply c_trans; [exact Ca2 | apply c_sym; exact Cab].
      + cbn [length]. rewrite Lm. reflexivity.
      + intros r [<-|Hr]; [exact Hb | apply Im; exact Hr].
      + intros r [<-|Hr]; [exists a; split; [left; reflexivity | exact Cab]|].
        destruct (Cm r Hr) as [a2 [Ha2 Ca2]]. exists a2; split; [right; exact Ha2 | exact Ca2]. }
  destruct (G r1 N1 (fun r H => H)) as [m [Nm [Lm [Im _]]]].
  rewrite <- Lm. apply NoDup_incl_length; [exact Nm | exact Im].
Qed.

Lemma class_reps_unique n prs r1 r2 :
  class_reps n prs r1 -> class_reps n prs r2 -> length r1 = length r2.
Proof.
  intros H1 H2. pose proof (class_reps_incl_length H1 H2). pose proof (class_reps_incl_length H2 H1). lia.
Qed.
