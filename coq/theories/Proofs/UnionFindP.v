(* Proofs about the UnionFind model: invariant, roots, fuel, compression, union. *)
From PG Require Import Lib.ListArr Model.UnionFindM.
Set Implicit Arguments.

(* ------------------------------------------------------------------ *)
(* Invariant and the root relation                                     *)

Record UInv (p rk : list nat) : Prop := {
  ui_len : length rk = length p;
  ui_par : forall i pi, nth_error p i = Some pi -> pi < length p;
  ui_rank : forall i pi, nth_error p i = Some pi -> pi <> i -> nth i rk 0 < nth pi rk 0
}.

Inductive rootof (p : list nat) : nat -> nat -> Prop :=
| ro_self x : nth_error p x = Some x -> rootof p x x
| ro_step x y r : nth_error p x = Some y -> y <> x -> rootof p y r -> rootof p x r.

Lemma rootof_det p x r1 r2 : rootof p x r1 -> rootof p x r2 -> r1 = r2.
Proof.
  intros H; revert r2; induction H as [x Hx | x y r Hx Hn Hy IH]; intros r2 H2;
    inversion H2; subst; try congruence.
  apply IH. congruence.
Qed.

Lemma rootof_lt p x r : rootof p x r -> x < length p.
Proof. intros H; inversion H; subst; eapply nth_error_Some_lt; eauto. Qed.

Lemma rootof_root p x r : rootof p x r -> nth_error p r = Some r.
Proof. induction 1; auto. Qed.

Lemma rootof_root_self p x r : rootof p x r -> rootof p r r.
Proof. intros H; apply ro_self; eapply rootof_root; eauto. Qed.

Lemma rank_ind (rk : list nat) (P : nat -> Prop) :
  (forall z, (forall w, nth z rk 0 < nth w rk 0 -> P w) -> P z) -> forall z, P z.
Proof.
  intros H.
  assert (G : forall k z, list_max rk - nth z rk 0 <= k -> P z).
  { induction k as [|k IH]; intros z Hk; apply H; intros w Hw.
    - pose proof (list_max_nth rk w). lia.
    - apply IH. pose proof (list_max_nth rk w). lia. }
  intros z; eapply G; eauto.
Qed.

Lemma rootof_total p rk : UInv p rk -> forall x, x < length p -> exists r, rootof p x r.
Proof.
  intros I x; pattern x; apply (rank_ind rk); clear x.
  intros z IH Hz.
  destruct (nth_error_lt_Some p Hz) as [pz Hpz].
  destruct (Nat.eq_dec pz z) as [->|Hn].
  - exists z; constructor; auto.
  - destruct (IH pz) as [r Hr].
    + eapply ui_rank; eauto.
    + eapply ui_par; eauto.
    + exists r; econstructor; eauto.
Qed.

Lemma rank_le_root p rk : UInv p rk -> forall x r, rootof p x r -> nth x rk 0 <= nth r rk 0.
Proof.
  intros I x r H; induction H as [x Hx | x y r Hx Hn Hy IH]; auto.
  pose proof (ui_rank I Hx Hn). lia.
Qed.

Lemma rank_lt_root p rk : UInv p rk -> forall x r, rootof p x r -> x <> r -> nth x rk 0 < nth r rk 0.
Proof.
  intros I x r H Hne; inversion H; subst; try congruence.
  pose proof (ui_rank I H0 H1). pose proof (rank_le_root I H2). lia.
Qed.

(* ------------------------------------------------------------------ *)
(* Paths, pigeonhole, and fuel                                         *)

Inductive pathto (p : list nat) : nat -> list nat -> nat -> Prop :=
| pt_self x : nth_error p x = Some x -> pathto p x [x] x
| pt_step x y l r : nth_error p x = Some y -> y <> x -> pathto p y l r -> pathto p x (x :: l) r.

Lemma rootof_pathto p x r : rootof p x r -> exists l, pathto p x l r.
Proof.
  induction 1 as [x Hx | x y r Hx Hn Hy [l IH]].
  - exists [x]; constructor; auto.
  - exists (x :: l); econstructor; eauto.
Qed.

Lemma pathto_rootof p x l r : pathto p x l r -> rootof p x r.
Proof. induction 1; [constructor; auto | econstructor; eauto]. Qed.

Lemma pathto_ranks p rk : UInv p rk -> forall x l r, pathto p x l r ->
  forall z, In z l -> nth x rk 0 <= nth z rk 0 /\ z < length p.
Proof.
  intros I x l r H; induction H as [x Hx | x y l r Hx Hn Hy IH]; intros z Hz.
  - destruct Hz as [<-|[]]. split; auto. eapply nth_error_Some_lt; eauto.
  - destruct Hz as [<-|Hz].
    + split; auto. eapply nth_error_Some_lt; eauto.
    + destruct (IH z Hz) as [Hr Hl]. pose proof (ui_rank I Hx Hn). split; auto; lia.
Qed.

Lemma pathto_notin p rk : UInv p rk -> forall x y l r,
  nth_error p x = Some y -> y <> x -> pathto p y l r -> ~ In x l.
Proof.
  intros I x y l r Hx Hn Hy Hin.
  destruct (pathto_ranks I Hy _ Hin) as [Hr _].
  pose proof (ui_rank I Hx Hn). lia.
Qed.

Lemma pathto_NoDup p rk : UInv p rk -> forall x l r, pathto p x l r -> NoDup l.
Proof.
  intros I x l r H; induction H as [x Hx | x y l r Hx Hn Hy IH].
  - constructor; [intros []|constructor].
  - constructor; auto. eapply pathto_notin; eauto.
Qed.

Lemma pathto_length p rk : UInv p rk -> forall x l r, pathto p x l r -> length l <= length p.
Proof.
  intros I x l r H.
  rewrite <- (seq_length (length p) 0).
  apply NoDup_incl_length.
  - eapply pathto_NoDup; eauto.
  - intros z Hz. apply in_seq. destruct (pathto_ranks I H _ Hz). lia.
Qed.

Lemma pathto_frame p p' x l r :
  (forall z, In z l -> nth_error p' z = nth_error p z) -> pathto p x l r -> pathto p' x l r.
Proof.
  intros F H; induction H as [x Hx | x y l r Hx Hn Hy IH].
  - constructor. rewrite F; simpl; auto.
  - econstructor; eauto.
    + rewrite F; simpl; auto.
    + apply IH. intros z Hz; apply F; simpl; auto.
Qed.

Lemma find_loop_path p x l r : pathto p x l r -> forall f, length l <= f -> find_loop f p x = Ok r.
Proof.
  induction 1 as [x Hx | x y l r Hx Hn Hy IH]; intros f Hf; (destruct f as [|f]; simpl in Hf; [lia|]); simpl.
  - rewrite Hx, Nat.eqb_refl; auto.
  - rewrite Hx. destruct (Nat.eqb_spec y x); [congruence|]. apply IH; lia.
Qed.

Lemma find_loop_root p rk : UInv p rk -> forall x r, rootof p x r ->
  find_loop (length p) p x = Ok r.
Proof.
  intros I x r H. destruct (rootof_pathto H) as [l Hl].
  eapply find_loop_path; eauto. eapply pathto_length; eauto.
Qed.

(* ------------------------------------------------------------------ *)
(* Redirecting a parent link to an ancestor with larger rank           *)

Definition roots_pres (p p' : list nat) : Prop := forall z rz, rootof p z rz -> rootof p' z rz.

Lemma roots_pres_refl p : roots_pres p p.
Proof. intros z rz H; auto. Qed.

Lemma roots_pres_trans p1 p2 p3 : roots_pres p1 p2 -> roots_pres p2 p3 -> roots_pres p1 p3.
Proof. intros A B z rz H; auto. Qed.

Lemma roots_pres_back p p' rk : UInv p rk -> length p' = length p -> roots_pres p p' ->
  forall z rz, rootof p' z rz -> rootof p z rz.
Proof.
  intros I L R z rz H.
  assert (Hz : z < length p) by (rewrite <- L; eapply rootof_lt; eauto).
  destruct (rootof_total I Hz) as [r0 H0].
  rewrite (rootof_det H (R _ _ H0)); auto.
Qed.

Lemma redirect p rk x a r :
  UInv p rk -> rootof p x r -> rootof p a r -> nth x rk 0 < nth a rk 0 ->
  UInv (upd p x a) rk /\ roots_pres p (upd p x a).
Proof.
  intros I Hx Ha Hlt.
  assert (Hxl : x < length p) by (eapply rootof_lt; eauto).
  assert (Hal : a < length p) by (eapply rootof_lt; eauto).
  assert (Hax : a <> x) by (intros ->; lia).
  assert (I' : UInv (upd p x a) rk).
  { constructor.
    - rewrite upd_length; apply (ui_len I).
    - intros i pi; rewrite upd_length, nth_error_upd.
      destruct (Nat.eqb_spec x i) as [->|Hne].
      + destruct (Nat.ltb_spec i (length p)); try lia. intros [= <-]; auto.
      + apply (ui_par I).
    - intros i pi; rewrite nth_error_upd.
      destruct (Nat.eqb_spec x i) as [->|Hne].
      + destruct (Nat.ltb_spec i (length p)); try lia. intros [= <-] _; auto.
      + apply (ui_rank I). }
  split; auto.
  intros z; pattern z; apply (rank_ind rk); clear z.
  intros z IH rz Hz.
  inversion Hz as [z' Hzz | z' pz r' Hzp Hne Hpz]; subst.
  - (* z is a root of p *)
    destruct (Nat.eq_dec rz x) as [->|Hzx].
    + (* x is a root: then r = x and rank a <= rank x, contradiction *)
      pose proof (rootof_det Hx Hz); subst r.
      pose proof (rank_le_root I Ha). lia.
    + constructor. rewrite nth_error_upd_neq by congruence; auto.
  - destruct (Nat.eq_dec z x) as [->|Hzx].
    + pose proof (rootof_det Hx Hz); subst rz.
      apply ro_step with (y := a); auto.
      rewrite nth_error_upd_eq; auto.
    + apply ro_step with (y := pz); auto.
      * rewrite nth_error_upd_neq by congruence; auto.
      * apply IH; auto. eapply (ui_rank I); eauto.
Qed.

(* ------------------------------------------------------------------ *)
(* Path halving                                                        *)

Definition flat (p : list nat) (j : nat) : Prop :=
  exists r, nth_error p j = Some r /\ nth_error p r = Some r.

Lemma halve_loop_spec p rk : UInv p rk -> forall x l r, pathto p x l r ->
  forall par f, nth_error p x = Some par -> length l <= f ->
  exists p', halve_loop f p x par = Ok (r, p') /\ UInv p' rk /\ length p' = length p /\
             roots_pres p p' /\ (forall j, flat p j -> flat p' j).
Proof.
  intros I x l; revert p I x; induction l as [|x0 l IH]; intros p I x r H par f Hpar Hf;
    [inversion H|].
  inversion H as [x' Hx | x' y l' r' Hx Hn Hy]; subst;
    (destruct f as [|f]; simpl in Hf; [lia|]); simpl.
  - assert (par = r) by congruence; subst. rewrite Nat.eqb_refl.
    exists p; repeat split; auto; try apply I. apply roots_pres_refl.
  - assert (par = y) by congruence; subst par.
    destruct (Nat.eqb_spec y x0); [congruence|].
    assert (Hyl : exists gp, nth_error p y = Some gp).
    { inversion Hy; subst; eauto. }
    destruct Hyl as [gp Hgp]. rewrite Hgp.
    assert (Hxl : x0 < length p) by (eapply nth_error_Some_lt; eauto).
    destruct (Nat.ltb_spec x0 (length p)); [|lia].
    (* the write p[x0] := gp *)
    assert (Hyr : rootof p y r) by (eapply pathto_rootof; eauto).
    assert (Hxr : rootof p x0 r) by (econstructor; eauto).
    assert (Hgr : rootof p gp r).
    { inversion Hyr as [? Hs | ? y0 ? Hs Hn0 Hr0]; subst.
      - replace gp with r by congruence; auto.
      - replace gp with y0 by congruence; auto. }
    assert (Hrk : nth x0 rk 0 < nth gp rk 0).
    { pose proof (ui_rank I Hx Hn).
      destruct (Nat.eq_dec gp y) as [->|Hgy]; auto.
      pose proof (ui_rank I Hgp Hgy). lia. }
    destruct (redirect I Hxr Hgr Hrk) as [I1 R1].
    assert (Hnotin : ~ In x0 l) by (eapply (pathto_notin I); eauto).
    assert (Hy1 : pathto (upd p x0 gp) y l r).
    { eapply pathto_frame; [|eauto]. intros z Hz. apply nth_error_upd_neq. intros ->; auto. }
    assert (Hgp1 : nth_error (upd p x0 gp) y = Some gp).
    { rewrite nth_error_upd_neq by congruence; auto. }
    destruct (IH _ I1 _ _ Hy1 gp f Hgp1 ltac:(lia)) as [p' [E [I' [L' [R' F']]]]].
    exists p'. split; auto. split; auto. split.
    { rewrite L', upd_length; auto. }
    split.
    { eapply roots_pres_trans; eauto. }
    intros j Fj. apply F'.
    destruct Fj as [rj [Hj Hrj]].
    destruct (Nat.eq_dec j x0) as [->|Hjx].
    + (* x0 flat: p[x0] = y is a root, so gp = y and nothing changes *)
      assert (rj = y) by congruence; subst rj.
      assert (gp = y) by congruence; subst gp.
      rewrite (upd_same _ _ Hx). exists y; auto.
    + exists rj. rewrite !nth_error_upd_neq by congruence; auto.
Qed.

Lemma find_mut_rec_spec p rk x r : UInv p rk -> rootof p x r ->
  exists p', find_mut_rec p x = Ok (r, p') /\ UInv p' rk /\ length p' = length p /\
             roots_pres p p' /\ (forall j, flat p j -> flat p' j).
Proof.
  intros I H. destruct (rootof_pathto H) as [l Hl].
  unfold find_mut_rec.
  assert (Hx : exists par, nth_error p x = Some par) by (inversion H; subst; eauto).
  destruct Hx as [par Hpar]. rewrite Hpar.
  eapply halve_loop_spec; eauto.
  pose proof (pathto_length I Hl). lia.
Qed.

(* ------------------------------------------------------------------ *)
(* Linking one root under another                                      *)

Lemma link_roots p a b : nth_error p a = Some a -> nth_error p b = Some b -> a <> b ->
  forall z rz, rootof p z rz -> rootof (upd p a b) z (if Nat.eqb rz a then b else rz).
Proof.
  intros Ha Hb Hab z rz H.
  assert (Hal : a < length p) by (eapply nth_error_Some_lt; eauto).
  induction H as [x Hx | x y r Hx Hn Hy IH].
  - destruct (Nat.eqb_spec x a) as [->|Hxa].
    + apply ro_step with (y := b); auto.
      * apply nth_error_upd_eq; auto.
      * constructor. rewrite nth_error_upd_neq by congruence; auto.
    + constructor. rewrite nth_error_upd_neq by congruence; auto.
  - apply ro_step with (y := y); auto.
    rewrite nth_error_upd_neq by congruence; auto.
Qed.

Lemma link_inv p rk rk' a b :
  UInv p rk -> nth_error p a = Some a -> nth_error p b = Some b -> a <> b ->
  length rk' = length rk ->
  (forall i, nth i rk 0 <= nth i rk' 0) ->
  (forall i, i <> b -> nth i rk' 0 = nth i rk 0) ->
  nth a rk' 0 < nth b rk' 0 ->
  UInv (upd p a b) rk'.
Proof.
  intros I Ha Hb Hab L Hge Heq Hlt.
  assert (Hal : a < length p) by (eapply nth_error_Some_lt; eauto).
  assert (Hbl : b < length p) by (eapply nth_error_Some_lt; eauto).
  constructor.
  - rewrite upd_length, L. apply (ui_len I).
  - intros i pi; rewrite upd_length, nth_error_upd.
    destruct (Nat.eqb_spec a i) as [->|Hne].
    + destruct (Nat.ltb_spec i (length p)); try lia. intros [= <-]; auto.
    + apply (ui_par I).
  - intros i pi; rewrite nth_error_upd.
    destruct (Nat.eqb_spec a i) as [->|Hne].
    + destruct (Nat.ltb_spec i (length p)); try lia. intros [= <-] _; auto.
    + intros Hi Hpi.
      assert (i <> b) by (intros ->; congruence).
      rewrite (Heq i) by auto.
      pose proof (ui_rank I Hi Hpi). pose proof (Hge pi). lia.
Qed.

(* ------------------------------------------------------------------ *)
(* The abstract partition of a state                                    *)

Definition same (p : list nat) (x y : nat) : Prop := exists r, rootof p x r /\ rootof p y r.

Lemma same_refl p rk x : UInv p rk -> x < length p -> same p x x.
Proof. intros I H. destruct (rootof_total I H) as [r Hr]. exists r; auto. Qed.

Lemma same_sym p x y : same p x y -> same p y x.
Proof. intros [r [A B]]; exists r; auto. Qed.

Lemma same_trans p x y z : same p x y -> same p y z -> same p x z.
Proof.
  intros [r [A B]] [r' [C D]]. pose proof (rootof_det B C); subst. exists r'; auto.
Qed.

Lemma same_pres p p' rk : UInv p rk -> length p' = length p -> roots_pres p p' ->
  forall x y, same p x y <-> same p' x y.
Proof.
  intros I L R x y; split; intros [r [A B]]; exists r; split; auto;
    eapply roots_pres_back; eauto.
Qed.

(* ------------------------------------------------------------------ *)
(* Specifications of the public functions on a state satisfying UInv   *)

Definition WF (u : uf) : Prop := UInv (parent u) (rank u).

Lemma wf_new n : WF (uf_new n).
Proof.
  unfold WF, uf_new; simpl. constructor.
  - rewrite repeat_length, seq_length; auto.
  - intros i pi H. pose proof (nth_error_Some_lt _ _ H) as Hl. rewrite seq_length in *.
    rewrite nth_error_seq0 in H by auto. congruence.
  - intros i pi H Hn. pose proof (nth_error_Some_lt _ _ H) as Hl. rewrite seq_length in *.
    rewrite nth_error_seq0 in H by auto. congruence.
Qed.

Lemma rootof_new n x r : rootof (seq 0 n) x r -> r = x.
Proof.
  intros H; inversion H; subst; auto.
  pose proof (nth_error_Some_lt _ _ H0) as Hl. rewrite seq_length in Hl.
  rewrite nth_error_seq0 in H0 by auto. congruence.
Qed.

Lemma try_find_spec u x : WF u ->
  (uf_len u <= x /\ try_find u x = Ok None) \/
  (x < uf_len u /\ exists r, rootof (parent u) x r /\ try_find u x = Ok (Some r)).
Proof.
  intros I. unfold try_find, uf_len.
  destruct (Nat.leb_spec (length (parent u)) x) as [H|H]; [left; auto|right].
  split; auto. destruct (rootof_total I H) as [r Hr]. exists r; split; auto.
  rewrite (find_loop_root I Hr); auto.
Qed.

Lemma find_spec u x : WF u ->
  (uf_len u <= x /\ find u x = Panic) \/
  (x < uf_len u /\ exists r, rootof (parent u) x r /\ find u x = Ok r).
Proof.
  intros I. unfold find.
  destruct (try_find_spec x I) as [[H E]|[H [r [Hr E]]]]; rewrite E; simpl; eauto.
Qed.

Lemma try_find_mut_spec u x : WF u ->
  (uf_len u <= x /\ try_find_mut u x = Ok (None, u)) \/
  (x < uf_len u /\ exists r u', rootof (parent u) x r /\ try_find_mut u x = Ok (Some r, u') /\
      WF u' /\ rank u' = rank u /\ uf_len u' = uf_len u /\ roots_pres (parent u) (parent u')).
Proof.
  intros I. unfold try_find_mut, uf_len.
  destruct (Nat.leb_spec (length (parent u)) x) as [H|H]; [left; auto|right].
  split; auto. destruct (rootof_total I H) as [r Hr].
  destruct (find_mut_rec_spec I Hr) as [p' [E [I' [L [R _]]]]].
  exists r, (mkUf p' (rank u)). rewrite E; simpl.
  split; [auto|]. split; [auto|]. split; [exact I'|]. auto.
Qed.

Lemma find_mut_spec u x : WF u ->
  (uf_len u <= x /\ find_mut u x = Panic) \/
  (x < uf_len u /\ exists r u', rootof (parent u) x r /\ find_mut u x = Ok (r, u') /\
      WF u' /\ rank u' = rank u /\ uf_len u' = uf_len u /\ roots_pres (parent u) (parent u')).
Proof.
  intros I. unfold find_mut, uf_len.
  destruct (Nat.leb_spec (length (parent u)) x) as [H|H]; [left; auto|right].
  split; auto. destruct (rootof_total I H) as [r Hr].
  destruct (find_mut_rec_spec I Hr) as [p' [E [I' [L [R _]]]]].
  exists r, (mkUf p' (rank u)). rewrite E; simpl.
  split; [auto|]. split; [auto|]. split; [exact I'|]. auto.
Qed.

(* What try_union returns and what it does to the partition. *)
Inductive union_post (u : uf) (x y : nat) : rbk -> uf -> Prop :=
| up_selfsame u' : x = y -> u' = u -> union_post u x y (RB false) u'
| up_badx u' : x <> y -> uf_len u <= x -> u' = u -> union_post u x y (RErr x) u'
| up_bady u' : x <> y -> x < uf_len u -> uf_len u <= y ->
    WF u' -> uf_len u' = uf_len u -> roots_pres (parent u) (parent u') ->
    union_post u x y (RErr y) u'
| up_already u' : x <> y -> x < uf_len u -> y < uf_len u -> same (parent u) x y ->
    WF u' -> uf_len u' = uf_len u -> roots_pres (parent u) (parent u') ->
    union_post u x y (RB false) u'
| up_merged u' rx ry : x <> y -> x < uf_len u -> y < uf_len u ->
    rootof (parent u) x rx -> rootof (parent u) y ry -> rx <> ry ->
    WF u' -> uf_len u' = uf_len u ->
    (exists keep lose, (keep = rx /\ lose = ry \/ keep = ry /\ lose = rx) /\
       forall z rz, rootof (parent u) z rz ->
                    rootof (parent u') z (if Nat.eqb rz lose then keep else rz)) ->
    union_post u x y (RB true) u'.

Lemma nth_upd_other l i j v : i <> j -> nth j (upd l i v) 0 = nth j l 0.
Proof.
  intros H. rewrite nth_upd. destruct (Nat.eqb_spec i j); try congruence; auto.
Qed.

Lemma try_union_spec u x y : WF u ->
  exists r u', try_union u x y = Ok (r, u') /\ union_post u x y r u'.
Proof.
  intros I. unfold try_union.
  destruct (Nat.eqb_spec x y) as [->|Hxy].
  { exists (RB false), u; split; auto. constructor; auto. }
  destruct (try_find_mut_spec x I) as [[Hx E]|[Hx [rx [u1 [Hrx [E [I1 [K1 [L1 R1]]]]]]]]]; rewrite E; simpl.
  { exists (RErr x), u; split; auto. constructor; auto. }
  destruct (try_find_mut_spec y I1) as [[Hy E2]|[Hy [ry [u2 [Hry [E2 [I2 [K2 [L2 R2]]]]]]]]]; rewrite E2; simpl.
  { exists (RErr y), u1; split; auto. apply up_bady; auto; lia. }
  assert (R12 : roots_pres (parent u) (parent u2)) by (eapply roots_pres_trans; eauto).
  assert (Lp : length (parent u2) = length (parent u)) by (unfold uf_len in *; lia).
  assert (Hrx2 : rootof (parent u2) x rx) by auto.
  destruct (Nat.eqb_spec rx ry) as [->|Hne].
  { exists (RB false), u2; split; auto.
    apply up_already; auto; try lia.
    exists ry; split; auto. eapply roots_pres_back; eauto. }
  assert (Hrxx : nth_error (parent u2) rx = Some rx) by (eapply rootof_root; eauto).
  assert (Hryy : nth_error (parent u2) ry = Some ry) by (eapply rootof_root; eauto).
  assert (Hrxl : rx < length (rank u2)).
  { rewrite (ui_len I2). eapply nth_error_Some_lt; eauto. }
  assert (Hryl : ry < length (rank u2)).
  { rewrite (ui_len I2). eapply nth_error_Some_lt; eauto. }
  destruct (nth_error_lt_Some _ Hrxl) as [xk Hxk].
  destruct (nth_error_lt_Some _ Hryl) as [yk Hyk].
  rewrite Hxk, Hyk.
  pose proof (nth_error_nth_default _ _ 0 Hxk) as Nx.
  pose proof (nth_error_nth_default _ _ 0 Hyk) as Ny.
  assert (Hry0 : rootof (parent u) y ry).
  { eapply (@roots_pres_back (parent u) (parent u1) (rank u) I); auto. }
  destruct (Nat.ltb_spec xk yk) as [Hlt|Hge].
  { (* x's root goes under y's root *)
    eexists _, _; split; [reflexivity|].
    eapply up_merged with (rx := rx) (ry := ry); eauto; try lia.
    - unfold WF; simpl. eapply link_inv; eauto; try lia.
    - unfold uf_len; simpl. rewrite upd_length. unfold uf_len in *; lia.
    - exists ry, rx; split; auto. simpl. intros z rz Hz.
      apply link_roots; auto. }
  destruct (Nat.ltb_spec yk xk) as [Hlt|Hge2].
  { eexists _, _; split; [reflexivity|].
    eapply up_merged with (rx := rx) (ry := ry); eauto; try lia.
    - unfold WF; simpl. eapply link_inv; eauto; try lia.
    - unfold uf_len; simpl. rewrite upd_length. unfold uf_len in *; lia.
    - exists rx, ry; split; auto. simpl. intros z rz Hz.
      apply link_roots; auto. }
  { assert (xk = yk) by lia; subst yk.
    eexists _, _; split; [reflexivity|].
    eapply up_merged with (rx := rx) (ry := ry); eauto; try lia.
    - unfold WF; simpl. eapply link_inv with (rk := rank u2); eauto.
      + rewrite upd_length; auto.
      + intros i. rewrite nth_upd.
        destruct (Nat.eqb_spec rx i) as [->|]; simpl; auto.
        destruct (Nat.ltb_spec i (length (rank u2))); lia.
      + intros i Hi. apply nth_upd_other; auto.
      + rewrite nth_upd_other by auto.
        rewrite nth_upd, Nat.eqb_refl.
        destruct (Nat.ltb_spec rx (length (rank u2))); simpl; lia.
    - unfold uf_len; simpl. rewrite upd_length. unfold uf_len in *; lia.
    - exists rx, ry; split; auto. simpl. intros z rz Hz.
      apply link_roots; auto. }
Qed.

(* ------------------------------------------------------------------ *)
(* into_labeling                                                       *)

Lemma flat_upd_other p ix r j :
  flat p j -> j <> ix -> (nth_error p ix = Some ix -> r = ix) -> flat (upd p ix r) j.
Proof.
  intros [rj [Hj Hrj]] Hne Hroot.
  exists rj. rewrite nth_error_upd_neq by congruence. split; auto.
  destruct (Nat.eq_dec rj ix) as [->|Hr].
  - rewrite (Hroot Hrj). rewrite (upd_same _ _ Hrj); auto.
  - rewrite nth_error_upd_neq by congruence; auto.
Qed.

Lemma label_loop_spec p0 rk : UInv p0 rk -> forall todo ix p,
  ix + todo = length p0 -> UInv p rk -> length p = length p0 -> roots_pres p0 p ->
  (forall j, j < ix -> flat p j) ->
  exists l, label_loop todo ix p = Ok l /\ length l = length p0 /\ UInv l rk /\ roots_pres p0 l /\
            forall j, j < length p0 -> flat l j.
Proof.
  intros I0. induction todo as [|t IH]; intros ix p Hix I L R F; simpl.
  - exists p. split; [auto|]. split; [auto|]. split; [auto|]. split; [auto|].
    intros j Hj; apply F; lia.
  - assert (Hixl : ix < length p) by lia.
    destruct (nth_error_lt_Some _ Hixl) as [k Hk]. rewrite Hk.
    assert (Hkl : k < length p) by (eapply ui_par; eauto).
    destruct (rootof_total I Hkl) as [r Hr].
    destruct (find_mut_rec_spec I Hr) as [p1 [E [I1 [L1 [R1 F1]]]]].
    rewrite E; simpl.
    assert (Hixr : rootof p ix r).
    { destruct (Nat.eq_dec k ix) as [->|Hne]; auto. econstructor; eauto. }
    assert (Hixr1 : rootof p1 ix r) by auto.
    assert (Hrr1 : rootof p1 r r) by (eapply rootof_root_self; eauto).
    assert (Hix1 : ix < length p1) by lia.
    destruct (Nat.eq_dec ix r) as [<-|Hne].
    + (* ix is a root: writing p[ix] := ix changes nothing *)
      assert (Hs : nth_error p1 ix = Some ix) by (eapply rootof_root; eauto).
      rewrite (upd_same _ _ Hs).
      apply IH; auto; try lia.
      * eapply roots_pres_trans; eauto.
      * intros j Hj. destruct (Nat.eq_dec j ix) as [->|Hji].
        -- exists ix; auto.
        -- apply F1, F; lia.
    + pose proof (rank_lt_root I1 Hixr1 Hne) as Hlt.
      destruct (redirect I1 Hixr1 Hrr1 Hlt) as [I2 R2].
      apply IH; auto; try lia.
      * rewrite upd_length; lia.
      * eapply roots_pres_trans; [|apply R2]. eapply roots_pres_trans; eauto.
      * intros j Hj. destruct (Nat.eq_dec j ix) as [->|Hji].
        -- exists r. rewrite nth_error_upd_eq by auto. split; auto.
           rewrite nth_error_upd_neq by congruence. eapply rootof_root; eauto.
        -- apply flat_upd_other; auto.
           ++ apply F1, F; lia.
           ++ intros Hs. pose proof (rootof_det Hixr1 (ro_self _ Hs)). congruence.
Qed.

Lemma into_labeling_spec u : WF u ->
  exists l, into_labeling u = Ok l /\ length l = uf_len u /\
            forall j, j < uf_len u -> rootof (parent u) j (nth j l 0).
Proof.
  intros I. unfold into_labeling, uf_len.
  destruct (@label_loop_spec (parent u) (rank u) I (length (parent u)) 0 (parent u))
    as [l [E [L [Il [R F]]]]]; auto.
  - apply roots_pres_refl.
  - intros j Hj; lia.
  - exists l; repeat split; auto.
    intros j Hj. destruct (F j Hj) as [r [Hjr Hrr]].
    rewrite (nth_error_nth_default _ _ 0 Hjr).
    eapply roots_pres_back; eauto.
    destruct (Nat.eq_dec r j) as [->|Hne]; [constructor; auto|].
    econstructor; eauto. constructor; auto.
Qed.
