(* C03, part 2: abstraction to the simple-graph specification, refinement of
   every mutating operation (T2) and correctness of every query (T3). *)
From Coq Require Import Lia ZArith Permutation.
From PG Require Import Lib.Io Model.GraphMapM Spec.SimpleGraph Proofs.GraphMapL Proofs.GraphMapP.
Local Open Scope Z_scope.

Definition abs (g : gm) : sgraph := mkSg (nkeys g) (gedges g).

(* ------------------------------------------------------------------ *)
(* sg_equiv is an equivalence                                          *)

Lemma sg_equiv_refl s : sg_equiv s s.
Proof. split; apply Permutation_refl. Qed.

Lemma sg_equiv_sym s1 s2 : sg_equiv s1 s2 -> sg_equiv s2 s1.
Proof. intros [H1 H2]. split; apply Permutation_sym; auto. Qed.

Lemma sg_equiv_trans s1 s2 s3 : sg_equiv s1 s2 -> sg_equiv s2 s3 -> sg_equiv s1 s3.
Proof. intros [H1 H2] [H3 H4]. split; eapply Permutation_trans; eauto. Qed.

Lemma sg_equiv_intro s1 s2 :
  NoDup (sn s1) -> NoDup (sn s2) -> (forall c, In c (sn s1) <-> In c (sn s2)) ->
  NoDup (se s1) -> NoDup (se s2) -> (forall e, In e (se s1) <-> In e (se s2)) ->
  sg_equiv s1 s2.
Proof. intros. split; apply NoDup_Permutation; auto. Qed.

(* ------------------------------------------------------------------ *)
(* Facts about the specification                                       *)

Lemma s_find_im_get es k : s_find es k = im_get zpair_eqb es k.
Proof.
  unfold s_find. induction es as [|[k' w] t IH]; cbn [find im_get fst]; auto.
  rewrite key_eqb_zpair. destruct (zpair_eqb k' k); auto.
Qed.

Lemma s_has_node_iff s n : s_has_node s n = true <-> In n (sn s).
Proof.
  unfold s_has_node. rewrite existsb_exists. split.
  - intros [x [Hx He]]. apply Z.eqb_eq in He. subst. exact Hx.
  - intros H. exists n. split; auto. apply Z.eqb_refl.
Qed.

Lemma in_s_drop es k k' w' : In (k', w') (s_drop es k) <-> In (k', w') es /\ k' <> k.
Proof.
  unfold s_drop. rewrite filter_In. cbn [fst]. rewrite key_eqb_zpair, negb_true_iff.
  pose proof (zpair_eqb_spec k' k) as Hs. destruct (zpair_eqb k' k); intuition congruence.
Qed.

Lemma s_add_node_in s n c : In c (sn (s_add_node s n)) <-> In c (sn s) \/ c = n.
Proof.
  unfold s_add_node. destruct (s_has_node s n) eqn:E.
  - apply s_has_node_iff in E. split; auto. intros [H| ->]; auto.
  - cbn [sn]. rewrite in_app_iff. cbn [In]. intuition.
Qed.

Lemma s_add_node_NoDup s n : NoDup (sn s) -> NoDup (sn (s_add_node s n)).
Proof.
  intros HN. unfold s_add_node. destruct (s_has_node s n) eqn:E; auto.
  cbn [sn]. apply NoDup_app_one; auto. intros HI. apply s_has_node_iff in HI. congruence.
Qed.

Lemma s_add_node_se s n : se (s_add_node s n) = se s.
Proof. unfold s_add_node. destruct (s_has_node s n); reflexivity. Qed.

Lemma s_drop_NoDup es k : NoDup es -> NoDup (s_drop es k).
Proof. apply NoDup_filter. Qed.

Lemma s_put_NoDup es k w : NoDup es -> NoDup ((k, w) :: s_drop es k).
Proof.
  intros HN. constructor; [|apply s_drop_NoDup; exact HN].
  intros HI. apply in_s_drop in HI. tauto.
Qed.

(* ---- the specification operations respect sg_equiv ---- *)

Lemma s_has_node_equiv s s' n : sg_equiv s s' -> s_has_node s n = s_has_node s' n.
Proof.
  intros [Hn _]. pose proof (s_has_node_iff s n) as H1. pose proof (s_has_node_iff s' n) as H2.
  assert (H : In n (sn s) <-> In n (sn s')).
  { split; apply Permutation_in; [|apply Permutation_sym]; exact Hn. }
  destruct (s_has_node s n), (s_has_node s' n); auto; intuition congruence.
Qed.

Lemma s_find_equiv es es' k : NoDup (map fst es) -> Permutation es es' -> s_find es k = s_find es' k.
Proof.
  intros HN HP. rewrite !s_find_im_get. symmetry. apply (im_get_perm zpair_eqb zpair_eqb_spec); auto.
Qed.

Lemma s_add_node_equiv s s' n : sg_equiv s s' -> sg_equiv (s_add_node s n) (s_add_node s' n).
Proof.
  intros Heq. unfold s_add_node. rewrite <- (s_has_node_equiv s s' n Heq).
  destruct (s_has_node s n); auto. destruct Heq as [Hn He]. split; cbn [sn se]; auto.
  apply Permutation_app_tail. exact Hn.
Qed.

Lemma s_add_edge_equiv d s s' a b w : NoDup (map fst (se s)) -> sg_equiv s s' ->
  fst (s_add_edge d s a b w) = fst (s_add_edge d s' a b w) /\
  sg_equiv (snd (s_add_edge d s a b w)) (snd (s_add_edge d s' a b w)).
Proof.
  intros HN Heq. unfold s_add_edge. cbn [fst snd]. split.
  - apply s_find_equiv; auto. apply Heq.
  - split; cbn [sn se].
    + apply s_add_node_equiv, s_add_node_equiv. exact Heq.
    + apply perm_skip. apply Permutation_filter_compat. apply Heq.
Qed.

Lemma s_remove_edge_equiv d s s' a b : NoDup (map fst (se s)) -> sg_equiv s s' ->
  fst (s_remove_edge d s a b) = fst (s_remove_edge d s' a b) /\
  sg_equiv (snd (s_remove_edge d s a b)) (snd (s_remove_edge d s' a b)).
Proof.
  intros HN Heq. unfold s_remove_edge. cbn [fst snd]. split.
  - apply s_find_equiv; auto. apply Heq.
  - split; cbn [sn se]; [apply Heq | apply Permutation_filter_compat; apply Heq].
Qed.

Lemma s_remove_node_equiv s s' n : sg_equiv s s' ->
  fst (s_remove_node s n) = fst (s_remove_node s' n) /\
  sg_equiv (snd (s_remove_node s n)) (snd (s_remove_node s' n)).
Proof.
  intros Heq. unfold s_remove_node. cbn [fst snd]. split.
  - apply s_has_node_equiv; exact Heq.
  - split; cbn [sn se]; apply Permutation_filter_compat; apply Heq.
Qed.

Lemma s_set_weight_equiv d s s' a b v : NoDup (map fst (se s)) -> sg_equiv s s' ->
  fst (s_set_weight d s a b v) = fst (s_set_weight d s' a b v) /\
  sg_equiv (snd (s_set_weight d s a b v)) (snd (s_set_weight d s' a b v)).
Proof.
  intros HN Heq. unfold s_set_weight.
  rewrite <- (s_find_equiv (se s) (se s') (s_key d a b) HN (proj2 Heq)).
  destruct (s_find (se s) (s_key d a b)); cbn [fst snd]; split; auto.
  split; cbn [sn se]; [apply Heq | apply perm_skip, Permutation_filter_compat; apply Heq].
Qed.

(* ------------------------------------------------------------------ *)
(* The abstraction of a state satisfying the invariant is well formed  *)

Lemma GInv_NoDup_edges d g : GInv d g -> NoDup (gedges g).
Proof. intros HI. apply NoDup_map_fst_NoDup. apply (gi_edges_nodup d g HI). Qed.

Theorem abs_wf d g : GInv d g -> s_wf d (abs g).
Proof.
  intros HI. unfold s_wf, abs; cbn [sn se]. split; [apply (gi_nodes_nodup d g HI)|].
  split; [apply (gi_edges_nodup d g HI)|]. intros a b HE. rewrite s_key_edge_key.
  split; [apply (gi_canonical d g HI); exact HE | apply (gi_endpoints d g HI); exact HE].
Qed.

(* ------------------------------------------------------------------ *)
(* T2: refinement of every mutating operation                          *)

Theorem new_refines : abs gm_new = s_clear.
Proof. reflexivity. Qed.

Theorem add_node_refines d g n : GInv d g ->
  sg_equiv (abs (add_node g n)) (s_add_node (abs g) n).
Proof.
  intros HI. destruct (add_node_full d g n HI) as [HI' [Hk He]].
  apply sg_equiv_intro; cbn [abs sn se].
  - apply (gi_nodes_nodup d _ HI').
  - apply s_add_node_NoDup. apply (gi_nodes_nodup d g HI).
  - intros c. rewrite Hk, s_add_node_in. reflexivity.
  - apply (GInv_NoDup_edges d _ HI').
  - rewrite s_add_node_se. apply (GInv_NoDup_edges d g HI).
  - intros e. rewrite s_add_node_se, He. reflexivity.
Qed.

Theorem add_edge_refines d g a b w : GInv d g ->
  fst (add_edge d g a b w) = fst (s_add_edge d (abs g) a b w) /\
  sg_equiv (abs (snd (add_edge d g a b w))) (snd (s_add_edge d (abs g) a b w)).
Proof.
  intros HI. destruct (add_edge_full d g a b w HI) as [Hfst [HI' [Hk He]]].
  unfold s_add_edge. cbn [fst snd]. rewrite s_key_edge_key, s_find_im_get. split; [exact Hfst|].
  apply sg_equiv_intro; cbn [abs sn se].
  - apply (gi_nodes_nodup d _ HI').
  - apply s_add_node_NoDup, s_add_node_NoDup. apply (gi_nodes_nodup d g HI).
  - intros c. rewrite Hk, !s_add_node_in. cbn [sn]. tauto.
  - apply (GInv_NoDup_edges d _ HI').
  - apply s_put_NoDup. apply (GInv_NoDup_edges d g HI).
  - intros [k' w']. rewrite He. cbn [In]. rewrite in_s_drop, pair_equal_spec.
    intuition congruence.
Qed.

Theorem remove_edge_refines d debug g a b : GInv d g ->
  exists g', remove_edge d debug g a b = Ok (fst (s_remove_edge d (abs g) a b), g') /\
    GInv d g' /\ sg_equiv (abs g') (snd (s_remove_edge d (abs g) a b)).
Proof.
  intros HI. destruct (remove_edge_full d debug g a b HI) as [g' [Heq [HI' [Hk He]]]].
  exists g'. unfold s_remove_edge. cbn [fst snd]. rewrite s_key_edge_key, s_find_im_get.
  split; [exact Heq|]. split; [exact HI'|].
  apply sg_equiv_intro; cbn [abs sn se].
  - apply (gi_nodes_nodup d _ HI').
  - apply (gi_nodes_nodup d g HI).
  - intros c. rewrite Hk. reflexivity.
  - apply (GInv_NoDup_edges d _ HI').
  - apply s_drop_NoDup. apply (GInv_NoDup_edges d g HI).
  - intros [k' w']. rewrite He, in_s_drop. reflexivity.
Qed.

Theorem remove_node_refines d g n : GInv d g ->
  fst (remove_node d g n) = fst (s_remove_node (abs g) n) /\
  sg_equiv (abs (snd (remove_node d g n))) (snd (s_remove_node (abs g) n)).
Proof.
  intros HI. destruct (remove_node_full d g n HI) as [Hfst [HI' [Hk He]]].
  unfold s_remove_node. cbn [fst snd]. split.
  - rewrite Hfst. pose proof (contains_node_iff g n) as H1.
    pose proof (s_has_node_iff (abs g) n) as H2. cbn [abs sn] in H2.
    destruct (contains_node g n), (s_has_node (abs g) n); auto; intuition congruence.
  - apply sg_equiv_intro; cbn [abs sn se].
    + apply (gi_nodes_nodup d _ HI').
    + apply NoDup_filter. apply (gi_nodes_nodup d g HI).
    + intros c. rewrite Hk, filter_In, negb_true_iff, Z.eqb_neq. reflexivity.
    + apply (GInv_NoDup_edges d _ HI').
    + apply NoDup_filter. apply (GInv_NoDup_edges d g HI).
    + intros [k w]. rewrite He, filter_In. cbn [fst]. 
      rewrite andb_true_iff, !negb_true_iff, !Z.eqb_neq. reflexivity.
Qed.

Theorem set_edge_weight_refines d g a b v : GInv d g ->
  fst (set_edge_weight d g a b v) = fst (s_set_weight d (abs g) a b v) /\
  sg_equiv (abs (snd (set_edge_weight d g a b v))) (snd (s_set_weight d (abs g) a b v)).
Proof.
  intros HI. destruct (set_edge_weight_full d g a b v HI) as [Hfst [HI' [Hk He]]].
  unfold s_set_weight. rewrite s_key_edge_key, s_find_im_get. cbn [abs se].
  unfold contains_edge, edge_weight in Hfst.
  destruct (im_get zpair_eqb (gedges g) (edge_key d a b)) as [w0|] eqn:Ek; cbn [fst snd].
  - split; [exact Hfst|].
    assert (HE : In (edge_key d a b) (ekeys g)) by (eapply im_get_some_key; eauto using zpair_eqb_spec).
    apply sg_equiv_intro; cbn [abs sn se].
    + apply (gi_nodes_nodup d _ HI').
    + apply (gi_nodes_nodup d g HI).
    + intros c. rewrite Hk. reflexivity.
    + apply (GInv_NoDup_edges d _ HI').
    + apply s_put_NoDup. apply (GInv_NoDup_edges d g HI).
    + intros [k' w']. rewrite He. cbn [In]. rewrite in_s_drop, pair_equal_spec.
      intuition congruence.
  - split; [exact Hfst|].
    assert (HnE : ~ In (edge_key d a b) (ekeys g)) by (apply (im_get_none zpair_eqb zpair_eqb_spec); exact Ek).
    apply sg_equiv_intro; cbn [abs sn se].
    + apply (gi_nodes_nodup d _ HI').
    + apply (gi_nodes_nodup d g HI).
    + intros c. rewrite Hk. reflexivity.
    + apply (GInv_NoDup_edges d _ HI').
    + apply (GInv_NoDup_edges d g HI).
    + intros [k' w']. rewrite He. split.
      * intros [[-> [_ H]]|[_ H]]; tauto.
      * intros H. right. split; auto. intros ->. apply HnE. apply (in_map fst) in H. exact H.
Qed.

(* ---- simulation: the form used for sequences of operations ---- *)

Definition Sim (d : bool) (g : gm) (s : sgraph) : Prop := GInv d g /\ sg_equiv (abs g) s.

Lemma Sim_keys d g s : Sim d g s -> NoDup (map fst (se (abs g))).
Proof. intros [HI _]. apply (gi_edges_nodup d g HI). Qed.

Lemma Sim_new d : Sim d gm_new s_clear.
Proof. split; [apply GInv_new | apply sg_equiv_refl]. Qed.

Lemma Sim_add_node d g s n : Sim d g s -> Sim d (add_node g n) (s_add_node s n).
Proof.
  intros [HI Heq]. split; [apply add_node_inv; exact HI|].
  eapply sg_equiv_trans; [apply (add_node_refines d g n HI) | apply s_add_node_equiv; exact Heq].
Qed.

Lemma Sim_add_edge d g s a b w : Sim d g s ->
  fst (add_edge d g a b w) = fst (s_add_edge d s a b w) /\
  Sim d (snd (add_edge d g a b w)) (snd (s_add_edge d s a b w)).
Proof.
  intros HS. pose proof (Sim_keys d g s HS) as HN. destruct HS as [HI Heq].
  destruct (add_edge_refines d g a b w HI) as [H1 H2].
  destruct (s_add_edge_equiv d (abs g) s a b w HN Heq) as [H3 H4].
  split; [congruence|]. split; [apply add_edge_inv; exact HI | eapply sg_equiv_trans; eauto].
Qed.

Lemma Sim_remove_edge d debug g s a b : Sim d g s ->
  exists g', remove_edge d debug g a b = Ok (fst (s_remove_edge d s a b), g') /\
    Sim d g' (snd (s_remove_edge d s a b)).
Proof.
  intros HS. pose proof (Sim_keys d g s HS) as HN. destruct HS as [HI Heq].
  destruct (remove_edge_refines d debug g a b HI) as [g' [H1 [HI' H2]]].
  destruct (s_remove_edge_equiv d (abs g) s a b HN Heq) as [H3 H4].
  exists g'. rewrite <- H3. split; [exact H1|]. split; [exact HI' | eapply sg_equiv_trans; eauto].
Qed.

Lemma Sim_remove_node d g s n : Sim d g s ->
  fst (remove_node d g n) = fst (s_remove_node s n) /\
  Sim d (snd (remove_node d g n)) (snd (s_remove_node s n)).
Proof.
  intros [HI Heq]. destruct (remove_node_refines d g n HI) as [H1 H2].
  destruct (s_remove_node_equiv (abs g) s n Heq) as [H3 H4].
  split; [congruence|]. split; [apply remove_node_inv; exact HI | eapply sg_equiv_trans; eauto].
Qed.

Lemma Sim_set_edge_weight d g s a b v : Sim d g s ->
  fst (set_edge_weight d g a b v) = fst (s_set_weight d s a b v) /\
  Sim d (snd (set_edge_weight d g a b v)) (snd (s_set_weight d s a b v)).
Proof.
  intros HS. pose proof (Sim_keys d g s HS) as HN. destruct HS as [HI Heq].
  destruct (set_edge_weight_refines d g a b v HI) as [H1 H2].
  destruct (s_set_weight_equiv d (abs g) s a b v HN Heq) as [H3 H4].
  split; [congruence|]. split; [apply set_edge_weight_inv; exact HI | eapply sg_equiv_trans; eauto].
Qed.

Lemma Sim_extend d l : forall g s, Sim d g s -> Sim d (extend_edges d g l) (s_extend d s l).
Proof.
  assert (H : forall n l, (length l <= n)%nat ->
            forall g s, Sim d g s -> Sim d (extend_edges d g l) (s_extend d s l)).
  { intros n. induction n as [|n IH]; intros l0 Hlen g s HS.
    - destruct l0; [exact HS | cbn [length] in Hlen; lia].
    - destruct l0 as [|a [|b [|w rest]]]; cbn [extend_edges s_extend]; auto.
      apply IH; [cbn [length] in Hlen; lia | apply Sim_add_edge; exact HS]. }
  apply (H (length l)). lia.
Qed.

Theorem extend_edges_refines d g l : GInv d g ->
  sg_equiv (abs (extend_edges d g l)) (s_extend d (abs g) l).
Proof. intros HI. apply (Sim_extend d l g (abs g)). split; [exact HI | apply sg_equiv_refl]. Qed.
