(* C13b: the results about the functions of Model/Vf2M.v, assembled. *)
From PG Require Import Lib.Io Lib.ListExtra Model.IsoM Model.Vf2M Spec.IsoSpec Proofs.IsoRefP Proofs.IsoEquivP
                       Proofs.Vf2BaseP Proofs.Vf2StateP Proofs.Vf2MachP Proofs.Vf2FeasP
                       Proofs.Vf2SoundP Proofs.Vf2NoDupP Proofs.Vf2ComplP Proofs.Vf2TermP.
From Coq Require Import Permutation.

(* ------------------------------------------------------------------ *)
(* the enumeration [vf2_spec]                                           *)

Lemma sub_isos_empty nm em g0 g1 : s_n g0 = 0 -> In [] (sub_isos nm em g0 g1).
Proof.
  intros E. apply sub_isos_In. split; [symmetry; exact E|].
  split; [|split; [|split]]; intros; lia.
Qed.

Theorem vf2_spec_sound sem subgraph nm em g0 g1 m : wf g0 -> wf g1 -> s_dir g0 = s_dir g1 ->
  In m (vf2_spec sem subgraph nm em g0 g1) -> In m (sub_isos (nmE sem nm) (emE sem em) g0 g1).
Proof.
  intros Hw0 Hw1 Hd H. unfold vf2_spec in H. destruct (Nat.eqb_spec (s_n g0) 0) as [E|E].
  - destruct H as [<-|[]]. apply sub_isos_empty; auto.
  - eapply outs_sound; eauto; [apply pvalid_new|apply pemb_new].
Qed.

Theorem vf2_spec_NoDup sem subgraph nm em g0 g1 : erange g0 -> erange g1 ->
  NoDup (vf2_spec sem subgraph nm em g0 g1).
Proof.
  intros He0 He1. unfold vf2_spec. destruct (Nat.eqb (s_n g0) 0).
  - constructor; [intros []|constructor].
  - apply outs_NoDup; auto. apply pvalid_new.
Qed.

(* ------------------------------------------------------------------ *)
(* the iterator                                                         *)

Theorem vf2_all_fuel_spec F subgraph nm em g0 g1 l : erange g0 -> erange g1 ->
  vf2_all_fuel F subgraph nm em g0 g1 = Ok l -> l = vf2_spec true subgraph nm em g0 g1.
Proof. intros He0 He1 H. eapply matcher_collect_spec; eauto. Qed.

Theorem vf2_all_fuel_sound F subgraph nm em g0 g1 l m : wf g0 -> wf g1 -> s_dir g0 = s_dir g1 ->
  vf2_all_fuel F subgraph nm em g0 g1 = Ok l -> In m l -> In m (sub_isos nm em g0 g1).
Proof.
  intros Hw0 Hw1 Hd H Hm.
  apply vf2_all_fuel_spec in H; auto using wf_erange. subst l.
  apply vf2_spec_sound in Hm; auto.
Qed.

Theorem vf2_all_sound subgraph nm em g0 g1 l m : wf g0 -> wf g1 -> s_dir g0 = s_dir g1 ->
  vf2_all subgraph nm em g0 g1 = Ok l -> In m l -> In m (sub_isos nm em g0 g1).
Proof. unfold vf2_all. apply vf2_all_fuel_sound. Qed.

Theorem vf2_all_embedding subgraph nm em g0 g1 l m : wf g0 -> wf g1 -> s_dir g0 = s_dir g1 ->
  vf2_all subgraph nm em g0 g1 = Ok l -> In m l ->
  length m = s_n g0 /\ embedding nm em g0 g1 (fun a => nth a m 0).
Proof. intros Hw0 Hw1 Hd H Hm. apply sub_isos_In. eapply vf2_all_sound; eauto. Qed.

Theorem vf2_all_fuel_NoDup F subgraph nm em g0 g1 l : erange g0 -> erange g1 ->
  vf2_all_fuel F subgraph nm em g0 g1 = Ok l -> NoDup l.
Proof.
  intros He0 He1 H. apply vf2_all_fuel_spec in H; auto. subst l. apply vf2_spec_NoDup; auto.
Qed.

Theorem vf2_all_NoDup subgraph nm em g0 g1 l : erange g0 -> erange g1 ->
  vf2_all subgraph nm em g0 g1 = Ok l -> NoDup l.
Proof. unfold vf2_all. apply vf2_all_fuel_NoDup. Qed.

Theorem vf2_sub_iter_sound nm em g0 g1 l m : wf g0 -> wf g1 -> s_dir g0 = s_dir g1 ->
  vf2_sub_iter nm em g0 g1 = Ok (Some l) -> In m l -> In m (sub_isos nm em g0 g1).
Proof.
  intros Hw0 Hw1 Hd H Hm. unfold vf2_sub_iter in H. destruct (sub_reject g0 g1); [discriminate|].
  destruct (vf2_all true nm em g0 g1) as [l'| |] eqn:E; try discriminate.
  cbn [rmap] in H. inversion H; subst l'. eapply vf2_all_sound; eauto.
Qed.

(* ------------------------------------------------------------------ *)
(* try_match and the boolean wrappers: the answer true is right         *)

Lemma try_match_first sem subgraph nm em g0 g1 F o : erange g0 -> erange g1 ->
  try_match sem subgraph nm em g0 g1 F (vs_new g0, vs_new g1) = Ok o ->
  o = match hd_error (vf2_spec sem subgraph nm em g0 g1) with Some _ => Some true | None => None end.
Proof.
  intros He0 He1 H. unfold try_match in H.
  destruct (isomorphisms sem subgraph nm em g0 g1 F (vs_new g0, vs_new g1) [Outer])
    as [[[r st'] stack']| |] eqn:E; try discriminate.
  apply isomorphisms_first in E; auto. cbn [fst] in E. rewrite <- E.
  destruct r; inversion H; reflexivity.
Qed.

Lemma try_match_true sem subgraph nm em g0 g1 F : wf g0 -> wf g1 -> s_dir g0 = s_dir g1 ->
  unwrap_or_false (try_match sem subgraph nm em g0 g1 F (vs_new g0, vs_new g1)) = Ok true ->
  is_sub_iso (nmE sem nm) (emE sem em) g0 g1 = true.
Proof.
  intros Hw0 Hw1 Hd H. unfold unwrap_or_false in H.
  destruct (try_match sem subgraph nm em g0 g1 F (vs_new g0, vs_new g1)) as [o| |] eqn:E;
    try discriminate.
  apply try_match_first in E; auto using wf_erange. cbn [rmap] in H.
  destruct (hd_error (vf2_spec sem subgraph nm em g0 g1)) as [m|] eqn:Eh.
  - assert (Hin : In m (vf2_spec sem subgraph nm em g0 g1)).
    { destruct (vf2_spec sem subgraph nm em g0 g1); [discriminate|]. inversion Eh. left; auto. }
    apply vf2_spec_sound in Hin; auto. unfold is_sub_iso.
    destruct (sub_isos (nmE sem nm) (emE sem em) g0 g1); [contradiction|reflexivity].
  - subst o. inversion H.
Qed.

Theorem vf2_is_sub_iso_true nm em g0 g1 : wf g0 -> wf g1 -> s_dir g0 = s_dir g1 ->
  vf2_is_sub_iso nm em g0 g1 = Ok true -> is_sub_iso nm em g0 g1 = true.
Proof.
  intros Hw0 Hw1 Hd H. unfold vf2_is_sub_iso in H. destruct (sub_reject g0 g1); [discriminate|].
  apply (try_match_true true true nm em) in H; auto.
Qed.

Theorem vf2_is_sub_iso_plain_true g0 g1 : wf g0 -> wf g1 -> s_dir g0 = s_dir g1 ->
  vf2_is_sub_iso_plain g0 g1 = Ok true -> is_sub_iso 0 0 g0 g1 = true.
Proof.
  intros Hw0 Hw1 Hd H. unfold vf2_is_sub_iso_plain in H. destruct (sub_reject g0 g1); [discriminate|].
  apply (try_match_true false true 0 0) in H; auto.
Qed.

Lemma is_iso_of_sub nm em g0 g1 : s_n g0 = s_n g1 -> is_sub_iso nm em g0 g1 = true ->
  is_iso nm em g0 g1 = true.
Proof.
  intros E H. unfold is_iso. unfold is_sub_iso in H. rewrite H, E, Nat.eqb_refl. reflexivity.
Qed.

Theorem vf2_is_iso_true nm em g0 g1 : wf g0 -> wf g1 -> s_dir g0 = s_dir g1 ->
  vf2_is_iso nm em g0 g1 = Ok true -> is_iso nm em g0 g1 = true.
Proof.
  intros Hw0 Hw1 Hd H. unfold vf2_is_iso in H. destruct (iso_reject g0 g1) eqn:Er; [discriminate|].
  unfold iso_reject in Er. apply orb_false_iff in Er. destruct Er as [Er _].
  apply negb_false_iff, Nat.eqb_eq in Er.
  apply is_iso_of_sub; auto. apply (try_match_true true false nm em) in H; auto.
Qed.

Theorem vf2_is_iso_plain_true g0 g1 : wf g0 -> wf g1 -> s_dir g0 = s_dir g1 ->
  vf2_is_iso_plain g0 g1 = Ok true -> is_iso 0 0 g0 g1 = true.
Proof.
  intros Hw0 Hw1 Hd H. unfold vf2_is_iso_plain in H. destruct (iso_reject g0 g1) eqn:Er; [discriminate|].
  unfold iso_reject in Er. apply orb_false_iff in Er. destruct Er as [Er _].
  apply negb_false_iff, Nat.eqb_eq in Er.
  apply is_iso_of_sub; auto. apply (try_match_true false false 0 0) in H; auto.
Qed.

(* ------------------------------------------------------------------ *)
(* V4: completeness                                                     *)

Lemma map_nth_seq (m : list nat) : map (fun a => nth a m 0) (seq 0 (length m)) = m.
Proof.
  apply (nth_ext_eq 0).
  - rewrite map_length, seq_length. reflexivity.
  - intros i Hi. rewrite map_length, seq_length in Hi.
    rewrite (nth_map_seq (fun a => nth a m 0)) by exact Hi. reflexivity.
Qed.

Theorem vf2_spec_complete sem subgraph nm em g0 g1 m : wf g0 -> wf g1 -> s_dir g0 = s_dir g1 ->
  (subgraph = false -> s_n g0 = s_n g1) ->
  In m (sub_isos (nmE sem nm) (emE sem em) g0 g1) -> In m (vf2_spec sem subgraph nm em g0 g1).
Proof.
  intros Hw0 Hw1 Hd Hsz H. apply sub_isos_In in H. destruct H as [Hl He].
  unfold vf2_spec. destruct (Nat.eqb_spec (s_n g0) 0) as [E|E].
  - destruct m; [left; auto|cbn [length] in Hl; lia].
  - rewrite <- (map_nth_seq m), Hl.
    apply (outs_complete sem subgraph nm em g0 g1 Hw0 Hw1 Hd _ He Hsz).
    + apply pvalid_new.
    + apply extends_new.
    + unfold is_complete, vs_new. cbn [fst vs_gen vs_mapping]. rewrite repeat_length.
      apply Nat.eqb_neq. lia.
    + lia.
Qed.

Theorem vf2_spec_perm sem subgraph nm em g0 g1 : wf g0 -> wf g1 -> s_dir g0 = s_dir g1 ->
  (subgraph = false -> s_n g0 = s_n g1) ->
  Permutation (vf2_spec sem subgraph nm em g0 g1) (sub_isos (nmE sem nm) (emE sem em) g0 g1).
Proof.
  intros Hw0 Hw1 Hd Hsz. apply NoDup_Permutation.
  - apply vf2_spec_NoDup; auto using wf_erange.
  - apply sub_isos_NoDup.
  - intros m. split; [apply vf2_spec_sound|apply vf2_spec_complete]; auto.
Qed.

Theorem vf2_all_complete subgraph nm em g0 g1 l m : wf g0 -> wf g1 -> s_dir g0 = s_dir g1 ->
  (subgraph = false -> s_n g0 = s_n g1) ->
  vf2_all subgraph nm em g0 g1 = Ok l -> In m (sub_isos nm em g0 g1) -> In m l.
Proof.
  intros Hw0 Hw1 Hd Hsz H Hm. unfold vf2_all in H.
  apply vf2_all_fuel_spec in H; auto using wf_erange. subst l.
  apply (vf2_spec_complete true); auto.
Qed.

Theorem vf2_all_perm subgraph nm em g0 g1 l : wf g0 -> wf g1 -> s_dir g0 = s_dir g1 ->
  (subgraph = false -> s_n g0 = s_n g1) ->
  vf2_all subgraph nm em g0 g1 = Ok l -> Permutation l (sub_isos nm em g0 g1).
Proof.
  intros Hw0 Hw1 Hd Hsz H. unfold vf2_all in H.
  apply vf2_all_fuel_spec in H; auto using wf_erange. subst l.
  apply (vf2_spec_perm true); auto.
Qed.

(* ------------------------------------------------------------------ *)
(* the boolean wrappers decide                                          *)

Lemma try_match_decides sem subgraph nm em g0 g1 F b : wf g0 -> wf g1 -> s_dir g0 = s_dir g1 ->
  (subgraph = false -> s_n g0 = s_n g1) ->
  unwrap_or_false (try_match sem subgraph nm em g0 g1 F (vs_new g0, vs_new g1)) = Ok b ->
  b = is_sub_iso (nmE sem nm) (emE sem em) g0 g1.
Proof.
  intros Hw0 Hw1 Hd Hsz H. unfold unwrap_or_false in H.
  destruct (try_match sem subgraph nm em g0 g1 F (vs_new g0, vs_new g1)) as [o| |] eqn:E;
    try discriminate.
  apply try_match_first in E; auto using wf_erange. cbn [rmap] in H. inversion H; subst b. clear H.
  pose proof (vf2_spec_perm sem subgraph nm em g0 g1 Hw0 Hw1 Hd Hsz) as Hp.
  unfold is_sub_iso. subst o.
  destruct (vf2_spec sem subgraph nm em g0 g1) as [|m t].
  - apply Permutation_nil in Hp. rewrite Hp. reflexivity.
  - cbn [hd_error]. destruct (sub_isos (nmE sem nm) (emE sem em) g0 g1); [|reflexivity].
    apply Permutation_sym, Permutation_nil in Hp. discriminate.
Qed.

Theorem vf2_is_sub_iso_correct nm em g0 g1 b : wf g0 -> wf g1 -> s_dir g0 = s_dir g1 ->
  vf2_is_sub_iso nm em g0 g1 = Ok b -> b = is_sub_iso nm em g0 g1.
Proof.
  intros Hw0 Hw1 Hd H. unfold vf2_is_sub_iso in H. destruct (sub_reject g0 g1) eqn:Er.
  - inversion H; subst b. unfold sub_reject in Er. apply orb_true_iff in Er. symmetry.
    destruct Er as [Er|Er]; apply Nat.ltb_lt in Er.
    + apply is_sub_iso_nodes_false; auto.
    + apply is_sub_iso_edges_false; auto.
  - apply (try_match_decides true true nm em) in H; auto. discriminate.
Qed.

Theorem vf2_is_sub_iso_plain_correct g0 g1 b : wf g0 -> wf g1 -> s_dir g0 = s_dir g1 ->
  vf2_is_sub_iso_plain g0 g1 = Ok b -> b = is_sub_iso 0 0 g0 g1.
Proof.
  intros Hw0 Hw1 Hd H. unfold vf2_is_sub_iso_plain in H. destruct (sub_reject g0 g1) eqn:Er.
  - inversion H; subst b. unfold sub_reject in Er. apply orb_true_iff in Er. symmetry.
    destruct Er as [Er|Er]; apply Nat.ltb_lt in Er.
    + apply is_sub_iso_nodes_false; auto.
    + apply is_sub_iso_edges_false; auto.
  - apply (try_match_decides false true 0 0) in H; auto. discriminate.
Qed.

Lemma is_iso_eq_sub nm em g0 g1 : s_n g0 = s_n g1 -> is_iso nm em g0 g1 = is_sub_iso nm em g0 g1.
Proof. intros E. unfold is_iso, is_sub_iso. rewrite E, Nat.eqb_refl. reflexivity. Qed.

Theorem vf2_is_iso_correct nm em g0 g1 b : wf g0 -> wf g1 -> s_dir g0 = s_dir g1 ->
  vf2_is_iso nm em g0 g1 = Ok b -> b = is_iso nm em g0 g1.
Proof.
  intros Hw0 Hw1 Hd H. unfold vf2_is_iso in H. destruct (iso_reject g0 g1) eqn:Er.
  - inversion H; subst b. unfold iso_reject in Er. apply orb_true_iff in Er. symmetry.
    destruct Er as [Er|Er]; apply negb_true_iff, Nat.eqb_neq in Er.
    + apply is_iso_nodes_false; auto.
    + apply is_iso_edges_false; auto.
  - unfold iso_reject in Er. apply orb_false_iff in Er. destruct Er as [Er _].
    apply negb_false_iff, Nat.eqb_eq in Er. rewrite is_iso_eq_sub by auto.
    apply (try_match_decides true false nm em) in H; auto.
Qed.

Theorem vf2_is_iso_plain_correct g0 g1 b : wf g0 -> wf g1 -> s_dir g0 = s_dir g1 ->
  vf2_is_iso_plain g0 g1 = Ok b -> b = is_iso 0 0 g0 g1.
Proof.
  intros Hw0 Hw1 Hd H. unfold vf2_is_iso_plain in H. destruct (iso_reject g0 g1) eqn:Er.
  - inversion H; subst b. unfold iso_reject in Er. apply orb_true_iff in Er. symmetry.
    destruct Er as [Er|Er]; apply negb_true_iff, Nat.eqb_neq in Er.
    + apply is_iso_nodes_false; auto.
    + apply is_iso_edges_false; auto.
  - unfold iso_reject in Er. apply orb_false_iff in Er. destruct Er as [Er _].
    apply negb_false_iff, Nat.eqb_eq in Er. rewrite is_iso_eq_sub by auto.
    apply (try_match_decides false false 0 0) in H; auto.
Qed.

(* subgraph_isomorphisms_iter: None exactly on the early rejection, where no embedding exists *)
Theorem vf2_sub_iter_perm nm em g0 g1 o : wf g0 -> wf g1 -> s_dir g0 = s_dir g1 ->
  vf2_sub_iter nm em g0 g1 = Ok o ->
  match o with
  | Some l => Permutation l (sub_isos nm em g0 g1)
  | None => sub_isos nm em g0 g1 = []
  end.
Proof.
  intros Hw0 Hw1 Hd H. unfold vf2_sub_iter in H. destruct (sub_reject g0 g1) eqn:Er.
  - inversion H; subst o. unfold sub_reject in Er. apply orb_true_iff in Er.
    assert (Hf : is_sub_iso nm em g0 g1 = false).
    { destruct Er as [Er|Er]; apply Nat.ltb_lt in Er.
      - apply is_sub_iso_nodes_false; auto.
      - apply is_sub_iso_edges_false; auto. }
    unfold is_sub_iso in Hf. destruct (sub_isos nm em g0 g1); [reflexivity|discriminate].
  - destruct (vf2_all true nm em g0 g1) as [l| |] eqn:E; try discriminate.
    cbn [rmap] in H. inversion H; subst o. apply vf2_all_perm in E; auto. discriminate.
Qed.

(* ------------------------------------------------------------------ *)
(* with termination: the functions, unconditionally                     *)

Theorem vf2_all_total subgraph nm em g0 g1 : wf g0 -> wf g1 -> s_dir g0 = s_dir g1 ->
  (subgraph = false -> s_n g0 = s_n g1) ->
  exists l, vf2_all subgraph nm em g0 g1 = Ok l /\ NoDup l /\
            Permutation l (sub_isos nm em g0 g1).
Proof.
  intros Hw0 Hw1 Hd Hsz. exists (vf2_spec true subgraph nm em g0 g1). split; [|split].
  - apply vf2_all_Ok; auto using wf_erange.
  - apply vf2_spec_NoDup; auto using wf_erange.
  - apply (vf2_spec_perm true); auto.
Qed.

Lemma unwrap_try_match_total sem subgraph nm em g0 g1 : wf g0 -> wf g1 -> s_dir g0 = s_dir g1 ->
  (subgraph = false -> s_n g0 = s_n g1) ->
  unwrap_or_false (try_match sem subgraph nm em g0 g1 (vf2_fuel g0 g1) (vs_new g0, vs_new g1)) =
  Ok (is_sub_iso (nmE sem nm) (emE sem em) g0 g1).
Proof.
  intros Hw0 Hw1 Hd Hsz.
  destruct (try_match_Ok sem subgraph nm em g0 g1 (wf_erange _ Hw0) (wf_erange _ Hw1)) as [o Ho].
  destruct (unwrap_or_false (try_match sem subgraph nm em g0 g1 (vf2_fuel g0 g1) (vs_new g0, vs_new g1)))
    as [b| |] eqn:E.
  - f_equal. eapply try_match_decides; eauto.
  - rewrite Ho in E. discriminate.
  - rewrite Ho in E. discriminate.
Qed.

Theorem vf2_is_sub_iso_total nm em g0 g1 : wf g0 -> wf g1 -> s_dir g0 = s_dir g1 ->
  vf2_is_sub_iso nm em g0 g1 = Ok (is_sub_iso nm em g0 g1).
Proof.
  intros Hw0 Hw1 Hd. destruct (vf2_is_sub_iso nm em g0 g1) as [b| |] eqn:E.
  - f_equal. apply vf2_is_sub_iso_correct; auto.
  - unfold vf2_is_sub_iso in E. destruct (sub_reject g0 g1); [discriminate|].
    rewrite (unwrap_try_match_total true true nm em) in E; auto; discriminate.
  - unfold vf2_is_sub_iso in E. destruct (sub_reject g0 g1); [discriminate|].
    rewrite (unwrap_try_match_total true true nm em) in E; auto; discriminate.
Qed.

Theorem vf2_is_sub_iso_plain_total g0 g1 : wf g0 -> wf g1 -> s_dir g0 = s_dir g1 ->
  vf2_is_sub_iso_plain g0 g1 = Ok (is_sub_iso 0 0 g0 g1).
Proof.
  intros Hw0 Hw1 Hd. destruct (vf2_is_sub_iso_plain g0 g1) as [b| |] eqn:E.
  - f_equal. apply vf2_is_sub_iso_plain_correct; auto.
  - unfold vf2_is_sub_iso_plain in E. destruct (sub_reject g0 g1); [discriminate|].
    rewrite (unwrap_try_match_total false true 0 0) in E; auto; discriminate.
  - unfold vf2_is_sub_iso_plain in E. destruct (sub_reject g0 g1); [discriminate|].
    rewrite (unwrap_try_match_total false true 0 0) in E; auto; discriminate.
Qed.

Theorem vf2_is_iso_total nm em g0 g1 : wf g0 -> wf g1 -> s_dir g0 = s_dir g1 ->
  vf2_is_iso nm em g0 g1 = Ok (is_iso nm em g0 g1).
Proof.
  intros Hw0 Hw1 Hd. destruct (vf2_is_iso nm em g0 g1) as [b| |] eqn:E.
  - f_equal. apply vf2_is_iso_correct; auto.
  - unfold vf2_is_iso in E. destruct (iso_reject g0 g1) eqn:Er; [discriminate|].
    unfold iso_reject in Er. apply orb_false_iff in Er. destruct Er as [Er _].
    apply negb_false_iff, Nat.eqb_eq in Er.
    rewrite (unwrap_try_match_total true false nm em) in E; auto; discriminate.
  - unfold vf2_is_iso in E. destruct (iso_reject g0 g1) eqn:Er; [discriminate|].
    unfold iso_reject in Er. apply orb_false_iff in Er. destruct Er as [Er _].
    apply negb_false_iff, Nat.eqb_eq in Er.
    rewrite (unwrap_try_match_total true false nm em) in E; auto; discriminate.
Qed.

Theorem vf2_is_iso_plain_total g0 g1 : wf g0 -> wf g1 -> s_dir g0 = s_dir g1 ->
  vf2_is_iso_plain g0 g1 = Ok (is_iso 0 0 g0 g1).
Proof.
  intros Hw0 Hw1 Hd. destruct (vf2_is_iso_plain g0 g1) as [b| |] eqn:E.
  - f_equal. apply vf2_is_iso_plain_correct; auto.
  - unfold vf2_is_iso_plain in E. destruct (iso_reject g0 g1) eqn:Er; [discriminate|].
    unfold iso_reject in Er. apply orb_false_iff in Er. destruct Er as [Er _].
    apply negb_false_iff, Nat.eqb_eq in Er.
    rewrite (unwrap_try_match_total false false 0 0) in E; auto; discriminate.
  - unfold vf2_is_iso_plain in E. destruct (iso_reject g0 g1) eqn:Er; [discriminate|].
    unfold iso_reject in Er. apply orb_false_iff in Er. destruct Er as [Er _].
    apply negb_false_iff, Nat.eqb_eq in Er.
    rewrite (unwrap_try_match_total false false 0 0) in E; auto; discriminate.
Qed.

Theorem vf2_sub_iter_total nm em g0 g1 : wf g0 -> wf g1 -> s_dir g0 = s_dir g1 ->
  exists o, vf2_sub_iter nm em g0 g1 = Ok o /\
    match o with
    | Some l => NoDup l /\ Permutation l (sub_isos nm em g0 g1)
    | None => sub_isos nm em g0 g1 = []
    end.
Proof.
  intros Hw0 Hw1 Hd.
  destruct (vf2_all_total true nm em g0 g1 Hw0 Hw1 Hd ltac:(discriminate)) as (l & Hl & Hn & Hp).
  unfold vf2_sub_iter. destruct (sub_reject g0 g1) eqn:Er.
  - exists None. split; auto.
    pose proof (vf2_sub_iter_perm nm em g0 g1 None Hw0 Hw1 Hd) as H. apply H.
    unfold vf2_sub_iter. rewrite Er. reflexivity.
  - exists (Some l). rewrite Hl. cbn [rmap]. auto.
Qed.

(* ------------------------------------------------------------------ *)
(* V1: the invariants, unfolded                                         *)

Lemma svalid_iff g st :
  svalid g st <->
  length (vs_mapping st) = s_n g /\
  length (vs_out st) = s_n g /\
  length (vs_ins st) = (if s_dir g then s_n g else 0) /\
  (forall i, nth i (vs_out st) 0 <= vs_gen st) /\
  (forall i, nth i (vs_ins st) 0 <= vs_gen st) /\
  vs_out_size st = count_nz (vs_out st) /\
  vs_ins_size st = count_nz (vs_ins st) /\
  vs_gen st = count_some (vs_mapping st) /\
  vs_adj st = adjacency_matrix g /\
  (forall i, nth i (vs_out st) 0 <> 0 <-> exists a, mapped st a /\ adjb g a i = true) /\
  (s_dir g = true ->
   forall i, nth i (vs_ins st) 0 <> 0 <-> exists a, mapped st a /\ adjb g i a = true).
Proof.
  split.
  - intros H. destruct H. repeat split; auto; apply sv_out_front || apply sv_ins_front; auto.
  - intros (H1 & H2 & H3 & H4 & H5 & H6 & H7 & H8 & H9 & H10 & H11). constructor; auto.
Qed.

Lemma pvalid_iff g0 g1 st :
  pvalid g0 g1 st <->
  svalid g0 (fst st) /\ svalid g1 (snd st) /\
  (forall a b, a < s_n g0 -> b < s_n g1 ->
     (nth a (vs_mapping (fst st)) None = Some b <-> nth b (vs_mapping (snd st)) None = Some a)) /\
  (forall a b, nth a (vs_mapping (fst st)) None = Some b -> b < s_n g1) /\
  (forall a b, nth b (vs_mapping (snd st)) None = Some a -> a < s_n g0) /\
  vs_gen (fst st) = vs_gen (snd st).
Proof.
  split.
  - intros H. destruct H. do 5 (split; [assumption|]). assumption.
  - intros (H1 & H2 & H3 & H4 & H5 & H6). constructor; auto.
Qed.

(* the two mappings are mutually inverse partial injections *)
Lemma pvalid_inverse g0 g1 st : pvalid g0 g1 st ->
  (forall a b, nth a (vs_mapping (fst st)) None = Some b <-> nth b (vs_mapping (snd st)) None = Some a) /\
  (forall a a' b, nth a (vs_mapping (fst st)) None = Some b ->
                  nth a' (vs_mapping (fst st)) None = Some b -> a = a') /\
  (forall a b b', nth b (vs_mapping (snd st)) None = Some a ->
                  nth b' (vs_mapping (snd st)) None = Some a -> b = b').
Proof.
  intros Hv.
  assert (Hinv : forall a b, nth a (vs_mapping (fst st)) None = Some b <->
                             nth b (vs_mapping (snd st)) None = Some a).
  { intros a b. split; intros H.
    - assert (Ha : a < s_n g0).
      { rewrite <- (sv_map_len _ _ (pv_0 _ _ _ Hv)). eapply nth_Some_lt; eauto. }
      apply (pv_inv _ _ _ Hv); auto. eapply pv_rng0; eauto.
    - assert (Hb : b < s_n g1).
      { rewrite <- (sv_map_len _ _ (pv_1 _ _ _ Hv)). eapply nth_Some_lt; eauto. }
      apply (pv_inv _ _ _ Hv); auto. eapply pv_rng1; eauto. }
  split; auto. split.
  - intros a a' b H H'. apply Hinv in H, H'. congruence.
  - intros a b b' H H'. apply Hinv in H, H'. congruence.
Qed.

(* the frontier sets, as the candidate lists see them *)
Lemma frontier_out g st i : svalid g st ->
  (in_open g st OlOut i = true <->
   nth i (vs_mapping st) None = None /\ exists a, mapped st a /\ adjb g a i = true).
Proof.
  intros Hv. cbn [in_open]. rewrite andb_true_iff, Nat.ltb_lt, unmapped_iff.
  rewrite <- (sv_out_front _ _ Hv). split; intros [H1 H2]; split; auto; lia.
Qed.

Lemma frontier_in g st i : svalid g st -> s_dir g = true ->
  (in_open g st OlIn i = true <->
   nth i (vs_mapping st) None = None /\ exists a, mapped st a /\ adjb g i a = true).
Proof.
  intros Hv Hd. cbn [in_open]. rewrite Hd. cbn [andb]. rewrite andb_true_iff, Nat.ltb_lt, unmapped_iff.
  rewrite <- (sv_ins_front _ _ Hv Hd). split; intros [H1 H2]; split; auto; lia.
Qed.

(* ------------------------------------------------------------------ *)
(* the enumeration, unfolded                                            *)

Lemma outs_unfold sem subgraph nm em g0 g1 d st :
  outs sem subgraph nm em g0 g1 (S d) st =
  match next_candidate g0 g1 st with
  | None => []
  | Some (n0, n1, ol) =>
      flat_map (fun x =>
                  if is_feasible sem nm em g0 g1 st n0 x then
                    (if is_complete (fst (push_state g0 g1 st n0 x))
                     then [mapping_out (fst (push_state g0 g1 st n0 x))] else []) ++
                    (if card_ok subgraph (push_state g0 g1 st n0 x)
                     then outs sem subgraph nm em g0 g1 d (push_state g0 g1 st n0 x) else [])
                  else [])
               (cand_iter g1 (s_n g1) (snd st) ol n1)
  end.
Proof. reflexivity. Qed.

Lemma outs_candidates g0 g1 st n0 n1 ol : pvalid g0 g1 st ->
  next_candidate g0 g1 st = Some (n0, n1, ol) ->
  cand_iter g1 (s_n g1) (snd st) ol n1 =
  n1 :: filter (in_open g1 (snd st) ol) (seq (n1 + 1) (s_n g1 - n1 - 1)).
Proof.
  intros Hv H. apply next_candidate_spec in H; auto. destruct H as (_ & _ & H & _).
  apply cand_iter_eq; [apply Hv|auto|lia].
Qed.

(* ------------------------------------------------------------------ *)
(* the states the search can reach                                      *)

Inductive reach (g0 g1 : sgraph6) : st2 -> Prop :=
| reach_new : reach g0 g1 (vs_new g0, vs_new g1)
| reach_push st n0 n1 : reach g0 g1 st -> n0 < s_n g0 -> n1 < s_n g1 ->
    nth n0 (vs_mapping (fst st)) None = None -> nth n1 (vs_mapping (snd st)) None = None ->
    reach g0 g1 (push_state g0 g1 st n0 n1).

Theorem reach_pvalid g0 g1 st : erange g0 -> erange g1 -> reach g0 g1 st -> pvalid g0 g1 st.
Proof.
  intros He0 He1 H. induction H; [apply pvalid_new|apply pvalid_push; auto].
Qed.

Theorem reach_pop_push g0 g1 st n0 n1 : erange g0 -> erange g1 -> reach g0 g1 st ->
  n0 < s_n g0 -> n1 < s_n g1 ->
  nth n0 (vs_mapping (fst st)) None = None -> nth n1 (vs_mapping (snd st)) None = None ->
  pop_state g0 g1 (push_state g0 g1 st n0 n1) n0 n1 = st.
Proof. intros He0 He1 H. apply pop_push_state; auto. apply reach_pvalid; auto. Qed.

(* the pairs the search pushes are pairs of unmapped nodes: it stays among the reachable states *)
Theorem search_pushes_unmapped g0 g1 st n0 n1 ol x : pvalid g0 g1 st ->
  next_candidate g0 g1 st = Some (n0, n1, ol) ->
  In x (cand_iter g1 (s_n g1) (snd st) ol n1) ->
  n0 < s_n g0 /\ x < s_n g1 /\
  nth n0 (vs_mapping (fst st)) None = None /\ nth x (vs_mapping (snd st)) None = None.
Proof.
  intros Hv En Hx. pose proof (next_candidate_spec _ _ _ _ _ _ Hv En) as (A1 & A2 & A3 & A4).
  apply cand_iter_In in Hx; auto; try lia; [|apply Hv]. tauto.
Qed.
