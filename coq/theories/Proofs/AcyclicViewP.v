(* C14, towards T6: when the out-lists and in-lists of a view enumerate, without repetition,
   the edges of a multigraph given by (isedge, source, target), the view is well formed and its
   steps are the edges.  Also: rmapM and association lists. *)
From Coq Require Import Sorted Permutation.
From PG Require Import Lib.Io Model.View Model.Traversal Model.AcyclicM Model.AcyclicIO
                       Spec.Reach Spec.AcyclicSpec Proofs.ConesP.

(* ------------------------------------------------------------------ *)
(* rmapM                                                               *)

Lemma rmapM_inv {A B} (f : A -> res B) l r : rmapM f l = Ok r -> Forall2 (fun a y => f a = Ok y) l r.
Proof.
  revert r; induction l as [|a t IH]; intros r H; cbn [rmapM] in H.
  - injection H as <-. constructor.
  - destruct (f a) as [y| |] eqn:Ea; cbn [rbind] in H; try discriminate H.
    destruct (rmapM f t) as [r'| |]; cbn [rmap] in H; try discriminate H.
    injection H as <-. constructor; [exact Ea | apply IH; reflexivity].
Qed.

Lemma rmapM_ok {A B} (f : A -> res B) l :
  (forall a, In a l -> exists y, f a = Ok y) -> exists r, rmapM f l = Ok r.
Proof.
  induction l as [|a t IH]; intros H; cbn [rmapM]; [exists []; reflexivity|].
  destruct (H a (or_introl eq_refl)) as [y Ey]. rewrite Ey. cbn [rbind].
  destruct IH as [r Er]; [intros x Hx; apply H; right; exact Hx|]. rewrite Er. cbn [rmap].
  exists (y :: r). reflexivity.
Qed.

Lemma Forall2_in_r {A B} (R : A -> B -> Prop) l1 l2 y :
  Forall2 R l1 l2 -> In y l2 -> exists x, In x l1 /\ R x y.
Proof.
  induction 1 as [|a b t u Hab Htu IH]; intros Hin; [destruct Hin|].
  destruct Hin as [<-|Hin]; [exists a; split; [left; reflexivity | exact Hab]|].
  destruct (IH Hin) as [x [Hx Hr]]. exists x. split; [right; exact Hx | exact Hr].
Qed.

Lemma Forall2_in_l {A B} (R : A -> B -> Prop) l1 l2 x :
  Forall2 R l1 l2 -> In x l1 -> exists y, In y l2 /\ R x y.
Proof.
  induction 1 as [|a b t u Hab Htu IH]; intros Hin; [destruct Hin|].
  destruct Hin as [<-|Hin]; [exists b; split; [left; reflexivity | exact Hab]|].
  destruct (IH Hin) as [y [Hy Hr]]. exists y. split; [right; exact Hy | exact Hr].
Qed.

Lemma Forall2_map_eq {A B} (f : B -> A) l1 l2 : Forall2 (fun a y => f y = a) l1 l2 -> map f l2 = l1.
Proof. induction 1 as [|a b t u Hab Htu IH]; cbn [map]; [reflexivity | rewrite Hab, IH; reflexivity]. Qed.

Lemma Forall2_weaken {A B} (R Q : A -> B -> Prop) l1 l2 :
  (forall a b, R a b -> Q a b) -> Forall2 R l1 l2 -> Forall2 Q l1 l2.
Proof. intros H; induction 1; constructor; auto. Qed.

(* an association list built along its keys *)
Lemma assoc_along {A} (Q : nat -> A -> Prop) nodes (l : list (nat * A)) :
  Forall2 (fun a y => fst y = a /\ Q a (snd y)) nodes l ->
  forall a, (In a nodes -> exists x, assoc_nat l a = Some x /\ Q a x) /\
            (~ In a nodes -> assoc_nat l a = None).
Proof.
  induction 1 as [|a0 [k x0] t u [Hk Hq] Htu IH]; intros a; cbn [assoc_nat].
  - split; [intros [] | reflexivity].
  - cbn [fst snd] in Hk, Hq. subst k. destruct (Nat.eqb_spec a0 a) as [->|Hne].
    + split; [intros _; exists x0; split; [reflexivity | exact Hq] | intros Hn; contradiction Hn; left; reflexivity].
    + destruct (IH a) as [IH1 IH2]. split.
      * intros [E|Hin]; [contradiction | apply IH1, Hin].
      * intros Hn. apply IH2. intros Hin. apply Hn; right; exact Hin.
Qed.

Lemma NoDup_map_comp {A B C} (f : A -> B) (g : B -> C) l : NoDup (map (fun x => g (f x)) l) -> NoDup (map f l).
Proof.
  induction l as [|a t IH]; cbn [map]; intros H; [constructor|].
  inversion H as [|a' t' Ha Ht]; subst. constructor; [|apply IH, Ht].
  intros Hin. apply Ha. apply in_map_iff in Hin. destruct Hin as [x [E Hx]].
  apply in_map_iff. exists x. split; [rewrite E; reflexivity | exact Hx].
Qed.

Lemma NoDup_flat_map {A B} (f : A -> list B) l :
  NoDup l -> (forall a, In a l -> NoDup (f a)) ->
  (forall a b x, In a l -> In b l -> In x (f a) -> In x (f b) -> a = b) ->
  NoDup (flat_map f l).
Proof.
  induction l as [|a t IH]; intros Hnd Hf Hx; cbn [flat_map]; [constructor|].
  inversion Hnd as [|a' t' Ha Ht]; subst.
  apply TravBase.NoDup_app_intro.
  - apply Hf; left; reflexivity.
  - apply IH; [exact Ht | intros b Hb; apply Hf; right; exact Hb|].
    intros b c x Hb Hc; apply Hx; right; assumption.
  - intros x Hxa Hxt. apply in_flat_map in Hxt. destruct Hxt as [b [Hb Hxb]].
    assert (a = b) by (apply (Hx a b x); [left; reflexivity | right; exact Hb | exact Hxa | exact Hxb]).
    subst b. contradiction.
Qed.

(* ------------------------------------------------------------------ *)
(* the generic view                                                    *)

Section ViewGen.
Variable v : view.
Variable isedge : nat -> Prop.
Variables sr tg : nat -> nat.
Variables outl inl : nat -> list nat.
Hypothesis Hnd : NoDup (vnodes v).
Hypothesis Hbd : forall a, In a (vnodes v) -> a < vbound v.
Hypothesis Hcap : vcap v = Some (vbound v).
Hypothesis Hout : forall a, In a (vnodes v) ->
  Forall2 (fun e r => eid r = e /\ View.tgt r = tg e) (outl a) (out_edges v a).
Hypothesis Hout0 : forall a, ~ In a (vnodes v) -> out_edges v a = [].
Hypothesis Hin : forall b, In b (vnodes v) ->
  Forall2 (fun e r => eid r = e /\ View.tgt r = sr e) (inl b) (in_edges v b).
Hypothesis Hin0 : forall b, ~ In b (vnodes v) -> in_edges v b = [].
Hypothesis Houtl : forall a, In a (vnodes v) -> NoDup (outl a) /\ forall e, In e (outl a) <-> isedge e /\ sr e = a.
Hypothesis Hinl : forall b, In b (vnodes v) -> NoDup (inl b) /\ forall e, In e (inl b) <-> isedge e /\ tg e = b.
Hypothesis Hends : forall e, isedge e -> In (sr e) (vnodes v) /\ In (tg e) (vnodes v).

Lemma gen_out_triples e a b : In (e, a, b) (out_triples v) <-> isedge e /\ sr e = a /\ tg e = b.
Proof.
  rewrite in_out_triples. split.
  - intros [Ha [r [Hr [Ee Et]]]].
    destruct (Forall2_in_r _ _ _ r (Hout a Ha) Hr) as [e' [He' [E1 E2]]].
    rewrite Ee in E1. subst e'.
    apply (proj2 (Houtl a Ha)) in He'. destruct He' as [Hi Hs]. split; [exact Hi|]. split; [exact Hs | congruence].
  - intros [Hi [Hs Ht]]. assert (Ha : In a (vnodes v)) by (rewrite <- Hs; apply (Hends e Hi)).
    split; [exact Ha|].
    assert (He : In e (outl a)) by (apply (proj2 (Houtl a Ha)); split; assumption).
    destruct (Forall2_in_l _ _ _ e (Hout a Ha) He) as [r [Hr [E1 E2]]].
    exists r. split; [exact Hr|]. split; [exact E1 | congruence].
Qed.

Lemma gen_in_triples e a b : In (e, a, b) (in_triples v) <-> isedge e /\ sr e = a /\ tg e = b.
Proof.
  rewrite in_in_triples. split.
  - intros [Hb [r [Hr [Ee Et]]]].
    destruct (Forall2_in_r _ _ _ r (Hin b Hb) Hr) as [e' [He' [E1 E2]]].
    rewrite Ee in E1. subst e'.
    apply (proj2 (Hinl b Hb)) in He'. destruct He' as [Hi Ht]. split; [exact Hi|]. split; [congruence | exact Ht].
  - intros [Hi [Hs Ht]]. assert (Hb : In b (vnodes v)) by (rewrite <- Ht; apply (Hends e Hi)).
    split; [exact Hb|].
    assert (He : In e (inl b)) by (apply (proj2 (Hinl b Hb)); split; assumption).
    destruct (Forall2_in_l _ _ _ e (Hin b Hb) He) as [r [Hr [E1 E2]]].
    exists r. split; [exact Hr|]. split; [exact E1 | congruence].
Qed.

Lemma gen_out_nodup : NoDup (out_triples v).
Proof.
  unfold out_triples. apply NoDup_flat_map; [exact Hnd | |].
  - intros a Ha. apply (NoDup_map_comp (fun r => (eid r, a, View.tgt r)) (fun t => fst (fst t))).
    cbn [fst]. replace (map (fun x => eid x) (out_edges v a)) with (outl a); [apply (Houtl a Ha)|].
    symmetry. apply Forall2_map_eq. eapply Forall2_weaken; [|apply (Hout a Ha)]. intros e r [E _]; exact E.
  - intros a b x _ _ H1 H2. apply in_map_iff in H1. destruct H1 as [r1 [E1 _]].
    apply in_map_iff in H2. destruct H2 as [r2 [E2 _]]. subst x. injection E2 as _ E _. symmetry; exact E.
Qed.

Lemma gen_in_nodup : NoDup (in_triples v).
Proof.
  unfold in_triples. apply NoDup_flat_map; [exact Hnd | |].
  - intros b Hb. apply (NoDup_map_comp (fun r => (eid r, View.tgt r, b)) (fun t => fst (fst t))).
    cbn [fst]. replace (map (fun x => eid x) (in_edges v b)) with (inl b); [apply (Hinl b Hb)|].
    symmetry. apply Forall2_map_eq. eapply Forall2_weaken; [|apply (Hin b Hb)]. intros e r [E _]; exact E.
  - intros a b x _ _ H1 H2. apply in_map_iff in H1. destruct H1 as [r1 [E1 _]].
    apply in_map_iff in H2. destruct H2 as [r2 [E2 _]]. subst x. injection E2 as _ _ E. symmetry; exact E.
Qed.

Lemma gen_step a b : step v a b <-> exists e, isedge e /\ sr e = a /\ tg e = b.
Proof.
  unfold step, neighbors. rewrite in_map_iff. split.
  - intros [r [Et Hr]].
    assert (Ha : In a (vnodes v)).
    { destruct (in_dec Nat.eq_dec a (vnodes v)) as [H|H]; [exact H|]. rewrite (Hout0 a H) in Hr. destruct Hr. }
    exists (eid r). apply gen_out_triples. apply in_out_triples. split; [exact Ha|].
    exists r. split; [exact Hr|]. split; [reflexivity | exact Et].
  - intros [e He]. apply gen_out_triples, in_out_triples in He. destruct He as [_ [r [Hr [_ Et]]]].
    exists r. split; assumption.
Qed.

Lemma gen_step_in a b : In a (neighbors_in v b) <-> exists e, isedge e /\ sr e = a /\ tg e = b.
Proof.
  unfold neighbors_in. rewrite in_map_iff. split.
  - intros [r [Et Hr]].
    assert (Hb : In b (vnodes v)).
    { destruct (in_dec Nat.eq_dec b (vnodes v)) as [H|H]; [exact H|]. rewrite (Hin0 b H) in Hr. destruct Hr. }
    exists (eid r). apply gen_in_triples. apply in_in_triples. split; [exact Hb|].
    exists r. split; [exact Hr|]. split; [reflexivity | exact Et].
  - intros [e He]. apply gen_in_triples, in_in_triples in He. destruct He as [_ [r [Hr [_ Et]]]].
    exists r. split; assumption.
Qed.

Theorem gen_vwf : VWf v.
Proof.
  constructor.
  - exact Hnd.
  - exact Hbd.
  - intros a Ha. unfold in_cap. rewrite Hcap. apply Hbd, Ha.
  - intros a b H. apply gen_step in H. destruct H as [e [Hi [<- <-]]]. apply (Hends e Hi).
  - intros a b H. apply gen_step_in in H. destruct H as [e [Hi [<- <-]]]. apply (Hends e Hi).
  - apply NoDup_Permutation; [apply gen_out_nodup | apply gen_in_nodup|].
    intros [[e a] b]. rewrite gen_out_triples, gen_in_triples. reflexivity.
Qed.

End ViewGen.
