(* C04, part 2: the lower-triangular index of the undirected matrix. *)
From PG Require Import Lib.ListArr Model.MatrixM.
Require Import Lia.

(* triangular numbers, as the model computes them *)
Definition tri (n : nat) : nat := Nat.div2 (n * (n + 1)).

Lemma tri_0 : tri 0 = 0.
Proof. reflexivity. Qed.

Lemma tri_S n : tri (S n) = tri n + S n.
Proof.
  unfold tri. rewrite !Nat.div2_div.
  replace (S n * (S n + 1)) with (n * (n + 1) + S n * 2) by lia.
  rewrite Nat.div_add by lia. reflexivity.
Qed.

Lemma tri_mono a b : a <= b -> tri a <= tri b.
Proof.
  intros H. induction H as [|b H IH]; auto.
  rewrite tri_S. lia.
Qed.

Lemma tri_lt a b : a < b -> tri a + a < tri b.
Proof.
  intros H. pose proof (tri_mono (S a) b H) as M. rewrite tri_S in M. lia.
Qed.

Lemma tri_pos_max_min r c : tri_pos r c = tri (Nat.max r c) + Nat.min r c.
Proof.
  unfold tri_pos, tri. destruct (Nat.ltb_spec c r) as [L|L].
  - rewrite Nat.max_l, Nat.min_r by lia. reflexivity.
  - rewrite Nat.max_r, Nat.min_l by lia. reflexivity.
Qed.

Lemma tri_pos_sym r c : tri_pos r c = tri_pos c r.
Proof. rewrite !tri_pos_max_min, Nat.max_comm, Nat.min_comm. reflexivity. Qed.

Lemma tri_pos_inj r c r' c' :
  tri_pos r c = tri_pos r' c' -> (r = r' /\ c = c') \/ (r = c' /\ c = r').
Proof.
  rewrite !tri_pos_max_min. intros E.
  assert (HM : Nat.max r c = Nat.max r' c').
  { destruct (Nat.lt_trichotomy (Nat.max r c) (Nat.max r' c')) as [L|[L|L]]; auto.
    - pose proof (tri_lt _ _ L). lia.
    - pose proof (tri_lt _ _ L). lia. }
  rewrite HM in E. lia.
Qed.

Lemma tri_pos_diag n : 1 <= n -> tri_pos (n - 1) (n - 1) + 1 = tri n.
Proof.
  intros H. rewrite tri_pos_max_min, Nat.max_id, Nat.min_id.
  destruct n as [|m]; [lia|]. rewrite tri_S. replace (S m - 1) with m by lia. lia.
Qed.

Lemma tri_pos_lt_tri r c n : r < n -> c < n -> tri_pos r c < tri n.
Proof.
  intros Hr Hc. rewrite tri_pos_max_min.
  assert (L : Nat.max r c < n) by lia. pose proof (tri_lt _ _ L). lia.
Qed.

Lemma tri_pos_ge_tri r c n : n <= r \/ n <= c -> tri n <= tri_pos r c.
Proof.
  intros H. rewrite tri_pos_max_min.
  assert (L : n <= Nat.max r c) by lia. pose proof (tri_mono _ _ L). lia.
Qed.

Theorem tri_index_spec :
  (forall r c, tri_pos r c = tri_pos c r) /\
  (forall r c r' c', tri_pos r c = tri_pos r' c' -> (r = r' /\ c = c') \/ (r = c' /\ c = r')) /\
  (forall n r c, r < n -> c < n -> tri_pos r c < tri_pos (n - 1) (n - 1) + 1) /\
  (forall n r c, 1 <= n -> n <= r \/ n <= c -> tri_pos (n - 1) (n - 1) + 1 <= tri_pos r c).
Proof.
  split; [exact tri_pos_sym|]. split; [exact tri_pos_inj|]. split.
  - intros n r c Hr Hc. rewrite tri_pos_diag by lia. apply tri_pos_lt_tri; auto.
  - intros n r c Hn H. rewrite tri_pos_diag by lia. apply tri_pos_ge_tri; auto.
Qed.
