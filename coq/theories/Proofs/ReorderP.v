(* C14, T3 / T4: update_ordering (the Pearce-Kelly reordering) and is_valid_edge. *)
From Coq Require Import Sorted Permutation.
From PG Require Import Lib.Io Lib.ListExtra Model.View Model.Traversal Model.AlgoBasic Model.AcyclicM
                       Spec.Reach Spec.DfsEvents Spec.AcyclicSpec
                       Proofs.TravBase Proofs.OrderMapP Proofs.ConesP.

(* ------------------------------------------------------------------ *)
(* ranks in ascending lists                                            *)

Lemma ascending_tail_incl (A S : list nat) a s :
  ascending (a :: A) -> ascending (s :: S) -> incl (a :: A) (s :: S) ->
  (a = s /\ incl A S) \/ (s < a /\ incl (a :: A) S).
Proof.
  intros HA HS Hi. apply StronglySorted_inv in HA. destruct HA as [_ HAf].
  apply StronglySorted_inv in HS. destruct HS as [_ HSf].
  rewrite Forall_forall in HAf, HSf.
  destruct (Nat.eq_dec a s) as [->|Hne].
  - left. split; [reflexivity|]. intros x Hx. destruct (Hi x (or_intror Hx)) as [E|H]; [|exact H].
    specialize (HAf x Hx). lia.
  - right. assert (Has : In a S) by (destruct (Hi a (or_introl eq_refl)) as [E|H]; [congruence | exact H]).
    pose proof (HSf a Has) as Hlt. split; [exact Hlt|].
    intros x [<-|Hx]; [exact Has|]. destruct (Hi x (or_intror Hx)) as [E|H]; [|exact H].
    specialize (HAf x Hx). lia.
Qed.

(* the i-th element of a sublist is at least the i-th element of the whole list *)
Lemma rank_low S : forall A i a s, ascending A -> ascending S -> incl A S ->
  nth_error A i = Some a -> nth_error S i = Some s -> s <= a.
Proof.
  induction S as [|s0 S' IH]; intros A i a s HA HS Hi Ea Es; [destruct i; discriminate Es|].
  destruct A as [|a0 A']; [destruct i; discriminate Ea|].
  pose proof HS as HS0. apply StronglySorted_inv in HS0. destruct HS0 as [HS' _].
  destruct (ascending_tail_incl A' S' a0 s0 HA HS Hi) as [[-> Hi']|[Hlt Hi']].
  - destruct i as [|i]; cbn [nth_error] in Ea, Es.
    + injection Ea as <-. injection Es as <-. lia.
    + apply StronglySorted_inv in HA. destruct HA as [HA' _]. apply (IH A' i a s HA' HS' Hi' Ea Es).
  - destruct i as [|i]; cbn [nth_error] in Es.
    + injection Es as <-. cbn [nth_error] in Ea. injection Ea as <-. lia.
    + assert (Hi_lt : i < length (a0 :: A')).
      { assert (S i < length (a0 :: A')) by (apply nth_error_Some; congruence). lia. }
      destruct (nth_error_lt_Some (a0 :: A') Hi_lt) as [a' Ea'].
      pose proof (IH (a0 :: A') i a' s HA HS' Hi' Ea' Es) as Hle.
      rewrite ascending_nth in HA. specialize (HA i (S i) a' a (Nat.lt_succ_diag_r i) Ea' Ea). lia.
Qed.

(* the k-th element of a sublist, counted from the end, is at most the corresponding element *)
Lemma rank_high S : forall B k b s, ascending B -> ascending S -> incl B S ->
  nth_error B k = Some b -> nth_error S (length S - length B + k) = Some s -> b <= s.
Proof.
  induction S as [|s0 S' IH]; intros B k b s HB HS Hi Eb Es.
  - destruct (length [] - length B + k); discriminate Es.
  - destruct B as [|b0 B']; [destruct k; discriminate Eb|].
    pose proof HS as HS0. apply StronglySorted_inv in HS0. destruct HS0 as [HS' HSf].
    rewrite Forall_forall in HSf.
    destruct (ascending_tail_incl B' S' b0 s0 HB HS Hi) as [[-> Hi']|[Hlt Hi']].
    + cbn [length] in Es. replace (S (length S') - S (length B') + k) with (length S' - length B' + k) in Es by lia.
      destruct k as [|k]; cbn [nth_error] in Eb.
      * injection Eb as <-. apply nth_error_In in Es. destruct Es as [->|Hs]; [lia|].
        specialize (HSf s Hs). lia.
      * apply StronglySorted_inv in HB. destruct HB as [HB' _].
        assert (Hlen : length B' <= length S').
        { apply NoDup_incl_length; [apply ascending_NoDup, HB' | exact Hi']. }
        replace (length S' - length B' + S k) with (S (length S' - length B' + k)) in Es by lia.
        cbn [nth_error] in Es. apply (IH B' k b s HB' HS' Hi' Eb Es).
    + assert (Hlen : length (b0 :: B') <= length S').
      { apply NoDup_incl_length; [apply ascending_NoDup, HB | exact Hi']. }
      replace (length (s0 :: S') - length (b0 :: B') + k) with (S (length S' - length (b0 :: B') + k)) in Es
        by (cbn [length] in *; lia).
      cbn [nth_error] in Es. apply (IH (b0 :: B') k b s HB HS' Hi' Eb Es).
Qed.

(* ------------------------------------------------------------------ *)
(* combine                                                             *)

Lemma map_fst_combine {A B} (l1 : list A) (l2 : list B) :
  length l1 = length l2 -> map fst (combine l1 l2) = l1.
Proof.
  revert l2; induction l1 as [|a t IH]; intros [|b u] H; cbn [combine map fst length] in *; try discriminate; [reflexivity|].
  f_equal. apply IH. lia.
Qed.

Lemma map_snd_combine {A B} (l1 : list A) (l2 : list B) :
  length l1 = length l2 -> map snd (combine l1 l2) = l2.
Proof.
  revert l2; induction l1 as [|a t IH]; intros [|b u] H; cbn [combine map snd length] in *; try discriminate; [reflexivity|].
  f_equal. apply IH. lia.
Qed.

Lemma in_combine_nth {A B} (l1 : list A) (l2 : list B) i a b :
  nth_error l1 i = Some a -> nth_error l2 i = Some b -> In (a, b) (combine l1 l2).
Proof.
  revert l2 i; induction l1 as [|x t IH]; intros [|y u] [|i] H1 H2; cbn [nth_error combine] in *; try discriminate.
  - injection H1 as <-. injection H2 as <-. left; reflexivity.
  - right. eapply IH; eassumption.
Qed.

(* ------------------------------------------------------------------ *)
(* merging the two cones                                               *)

Definition ins_pair (acc : list (nat * nat)) (x : nat * nat) : list (nat * nat) :=
  let '(p, n) := x in p2n_insert acc p n.

Lemma p2n_insert_length_fresh l p n : ~ In p (map fst l) -> length (p2n_insert l p n) = S (length l).
Proof.
  induction l as [|[p0 n0] t IH]; intros H; cbn [p2n_insert length]; [reflexivity|].
  cbn [map fst In] in H.
  destruct (Nat.eqb_spec p0 p) as [E|_]; [exfalso; apply H; left; exact E|].
  destruct (Nat.ltb p p0); cbn [length]; [reflexivity|].
  rewrite IH; [reflexivity|]. intros Hin. apply H; right; exact Hin.
Qed.

Lemma merge_fold l : forall acc,
  psorted acc -> NoDup (map fst l) -> (forall p, In p (map fst l) -> ~ In p (map fst acc)) ->
  psorted (fold_left ins_pair l acc) /\
  length (fold_left ins_pair l acc) = length acc + length l /\
  forall p n, In (p, n) (fold_left ins_pair l acc) <-> In (p, n) acc \/ In (p, n) l.
Proof.
  induction l as [|[p0 n0] rest IH]; intros acc Hs Hnd Hdis; cbn [fold_left].
  - split; [exact Hs|]. split; [cbn [length]; lia|]. intros p n. cbn [In]. tauto.
  - cbn [map fst] in Hnd, Hdis. inversion Hnd as [|p' r' Hp0 Hnd']; subst.
    assert (Hfresh : ~ In p0 (map fst acc)) by (apply Hdis; left; reflexivity).
    cbn [ins_pair].
    assert (Hin1 : forall p n, In (p, n) (p2n_insert acc p0 n0) <-> (p, n) = (p0, n0) \/ In (p, n) acc).
    { intros p n. rewrite (p2n_insert_In acc p0 n0 p n Hs). split.
      - intros [[-> ->]|[_ H]]; [left; reflexivity | right; exact H].
      - intros [E|H]; [injection E as -> ->; left; split; reflexivity|].
        right. split; [|exact H]. intros ->. apply Hfresh. apply in_keys. exists n; exact H. }
    destruct (IH (p2n_insert acc p0 n0)) as [IHs [IHl IHi]].
    + apply p2n_insert_sorted, Hs.
    + exact Hnd'.
    + intros p Hp Hin. apply in_keys in Hin. destruct Hin as [n Hn]. apply Hin1 in Hn.
      destruct Hn as [E|Hn].
      * injection E as -> ->. exact (Hp0 Hp).
      * apply (Hdis p (or_intror Hp)). apply in_keys. exists n; exact Hn.
    + split; [exact IHs|]. split.
      * rewrite IHl, (p2n_insert_length_fresh acc p0 n0 Hfresh). cbn [length]. lia.
      * intros p n. rewrite IHi, Hin1. cbn [In]. split.
        -- intros [[E|H]|H]; [right; left; symmetry; exact E | left; exact H | right; right; exact H].
        -- intros [H|[E|H]]; [left; right; exact H | left; left; symmetry; exact E | right; exact H].
Qed.

(* ------------------------------------------------------------------ *)
(* the order argument of Pearce and Kelly, abstractly                  *)

Section PK.
Variable stp : nat -> nat -> Prop.
Variables old new : nat -> nat.
Variables inF inP : nat -> Prop.
Variables lo hi : nat.
Hypothesis H1 : forall x y, stp x y -> old x < old y.
Hypothesis Hdis : forall x, inF x -> inP x -> False.
Hypothesis HFc : forall x y, inF x -> stp x y -> inF y \/ hi < old y.
Hypothesis HPc : forall x y, inP y -> stp x y -> inP x \/ old x < lo.
Hypothesis HFP : forall x y, inF x -> inP y -> stp x y -> False.
Hypothesis Nsame : forall x, ~ inF x -> ~ inP x -> new x = old x.
Hypothesis NFup : forall x, inF x -> old x <= new x <= hi.
Hypothesis NPdn : forall x, inP x -> lo <= new x <= old x.
Hypothesis NFF : forall x y, inF x -> inF y -> old x < old y -> new x < new y.
Hypothesis NPP : forall x y, inP x -> inP y -> old x < old y -> new x < new y.
Hypothesis NPF : forall x y, inP x -> inF y -> new x < new y.
Hypothesis decF : forall x, inF x \/ ~ inF x.
Hypothesis decP : forall x, inP x \/ ~ inP x.

Lemma pk_topo x y : stp x y -> new x < new y.
Proof.
  intros Hs. pose proof (H1 x y Hs) as Ho.
  destruct (decF x) as [Fx|NFx].
  - destruct (decF y) as [Fy|NFy]; [apply NFF; assumption|].
    destruct (decP y) as [Py|NPy]; [exfalso; exact (HFP x y Fx Py Hs)|].
    destruct (HFc x y Fx Hs) as [Fy|Hy]; [contradiction|].
    rewrite (Nsame y NFy NPy). pose proof (NFup x Fx). lia.
  - destruct (decP x) as [Px|NPx].
    + destruct (decP y) as [Py|NPy]; [apply NPP; assumption|].
      destruct (decF y) as [Fy|NFy]; [apply NPF; assumption|].
      rewrite (Nsame y NFy NPy). pose proof (NPdn x Px). lia.
    + rewrite (Nsame x NFx NPx).
      destruct (decF y) as [Fy|NFy]; [pose proof (NFup y Fy); lia|].
      destruct (decP y) as [Py|NPy].
      * destruct (HPc x y Py Hs) as [Px|Hx]; [contradiction|]. pose proof (NPdn y Py). lia.
      * rewrite (Nsame y NFy NPy). exact Ho.
Qed.
End PK.

(* ------------------------------------------------------------------ *)
(* update_ordering                                                     *)

Definition apply_cones (debug : bool) (om : omap)
           (r : nat + (list (nat * nat) * list (nat * nat))) : res (nat + omap) :=
  match r with
  | inl c => Ok (inl c)
  | inr (b_fut, a_past) =>
      let positions := map fst (fold_left ins_pair (b_fut ++ a_past) []) in
      let nodes := map snd a_past ++ map snd b_fut in
      if andb debug (negb (Nat.eqb (length positions) (length b_fut + length a_past))) then Panic
      else rmap inr (set_positions om (combine positions nodes))
  end.

Lemma update_ordering_unfold debug v blen om a b :
  update_ordering debug v blen om a b =
  rbind (get_position om b) (fun min_order =>
  rbind (get_position om a) (fun max_order =>
    if Nat.leb max_order min_order then Ok (inr om, blen)
    else rmap (fun r => (r, grown blen v))
              (rbind (causal_cones debug (with_cap v (grown blen v)) om b a) (apply_cones debug om)))).
Proof. reflexivity. Qed.

Lemma with_cap_vwf v n : VWf v -> vbound v <= n -> VWf (with_cap v n).
Proof.
  intros W Hn. destruct W as [Hnd Hb Hc Ho Hi Hs].
  constructor; try assumption.
  intros a Ha. unfold in_cap, with_cap; cbn [vcap]. specialize (Hb a Ha). lia.
Qed.

Lemma reach_with_cap v n a b : reachable (with_cap v n) a b <-> reachable v a b.
Proof.
  split; induction 1 as [|x y Rx IH Hxy]; try apply reach_refl; eapply reach_step; try exact IH; exact Hxy.
Qed.

Section Reorder.
Variable debug : bool.
Variable w : view.
Variable om : omap.
Variable a b : nat.   (* the edge a -> b is about to be added; pos b < pos a *)
Hypothesis W : VWf w.
Hypothesis I : OInv (fun n => In n (vnodes w)) om.
Hypothesis T : Topo w om.
Hypothesis Ha : In a (vnodes w).
Hypothesis Hb : In b (vnodes w).
Hypothesis Hlt : pos_or0 om b < pos_or0 om a.

Notation old := (pos_or0 om).
Notation live := (fun n => In n (vnodes w)).

Definition in_fut (x : nat) : Prop := reachable w b x /\ old x < old a.
Definition in_past (x : nat) : Prop := reachable w x a /\ old b < old x.

Theorem reorder_ok :
  exists r, rbind (causal_cones debug w om b a) (apply_cones debug om) = Ok r /\
    match r with
    | inl c => c = b /\ reachable w b a
    | inr om' =>
        ~ reachable w b a /\ OInv live om' /\ Topo w om' /\
        pos_or0 om' a < pos_or0 om' b /\
        map fst (p2n om') = map fst (p2n om) /\
        length (n2p om') = length (n2p om) /\
        (forall x, ~ in_fut x -> ~ in_past x -> pos_or0 om' x = old x) /\
        (forall x, in_fut x -> old x <= pos_or0 om' x <= old a) /\
        (forall x, in_past x -> old b <= pos_or0 om' x <= old x)
    end.
Proof.
  destruct (causal_cones_exact debug w om b a W I T Hb Ha Hlt) as [r [Er Hr]].
  rewrite Er. cbn [rbind]. destruct r as [c|[fut past]]; cbn [apply_cones].
  { exists (inl c). split; [reflexivity | exact Hr]. }
  destruct Hr as [Hnr [Hsf [Hsp [Hfut Hpast]]]].
  (* the node and position lists of the cones *)
  set (NF := map snd fut). set (NP := map snd past).
  set (B := map fst fut). set (A := map fst past).
  assert (HNF : forall x, In x NF <-> in_fut x).
  { intros x. unfold NF. rewrite in_vals. split.
    - intros [q Hq]. apply Hfut in Hq. exact (proj2 Hq).
    - intros Hx. exists (old x). apply Hfut. split; [reflexivity | exact Hx]. }
  assert (HNP : forall x, In x NP <-> in_past x).
  { intros x. unfold NP. rewrite in_vals. split.
    - intros [q Hq]. apply Hpast in Hq. exact (proj2 Hq).
    - intros Hx. exists (old x). apply Hpast. split; [reflexivity | exact Hx]. }
  assert (Hdis : forall x, in_fut x -> in_past x -> False).
  { intros x [R1 _] [R2 _]. apply Hnr. eapply reachable_trans; eassumption. }
  assert (HFlive : forall x, in_fut x -> In x (vnodes w)).
  { intros x [R _]. apply (reach_nodes w b x W Hb R). }
  assert (HPlive : forall x, in_past x -> In x (vnodes w)).
  { intros x [R _]. apply (reach_nodes_back w x a W Ha R). }
  assert (HB : forall q, In q B <-> exists x, in_fut x /\ old x = q).
  { intros q. unfold B. rewrite in_keys. split.
    - intros [x Hx]. apply Hfut in Hx. destruct Hx as [-> Hx]. exists x. split; [exact Hx | reflexivity].
    - intros [x [Hx <-]]. exists x. apply Hfut. split; [reflexivity | exact Hx]. }
  assert (HA : forall q, In q A <-> exists x, in_past x /\ old x = q).
  { intros q. unfold A. rewrite in_keys. split.
    - intros [x Hx]. apply Hpast in Hx. destruct Hx as [-> Hx]. exists x. split; [exact Hx | reflexivity].
    - intros [x [Hx <-]]. exists x. apply Hpast. split; [reflexivity | exact Hx]. }
  assert (HAB : forall q, In q B -> In q A -> False).
  { intros q HqB HqA. apply HB in HqB. apply HA in HqA.
    destruct HqB as [x [Hx Ex]]. destruct HqA as [y [Hy Ey]].
    assert (x = y) by (apply (OInv_pos_inj _ om x y I (HFlive x Hx) (HPlive y Hy)); congruence).
    subst y. exact (Hdis x Hx Hy). }
  (* the merged positions *)
  destruct (merge_fold (fut ++ past) []) as [HSs [HSl HSi]].
  { apply psorted_nil. }
  { rewrite map_app. apply NoDup_app_intro.
    - apply ascending_NoDup, Hsf.
    - apply ascending_NoDup, Hsp.
    - intros q Hq1 Hq2. exact (HAB q Hq1 Hq2). }
  { intros p _ []. }
  set (M := fold_left ins_pair (fut ++ past) []) in *.
  set (S := map fst M).
  assert (HSlen : length S = length B + length A).
  { unfold S, A, B. rewrite !map_length, HSl, app_length. cbn [length]. lia. }
  assert (HSin : forall q, In q S <-> In q B \/ In q A).
  { intros q. unfold S, A, B. rewrite !in_keys. split.
    - intros [n Hn]. apply HSi in Hn. destruct Hn as [[]|Hn]. apply in_app_or in Hn.
      destruct Hn as [Hn|Hn]; [left | right]; exists n; exact Hn.
    - intros [[n Hn]|[n Hn]]; exists n; apply HSi; right; apply in_or_app; [left | right]; exact Hn. }
  assert (Hasc : ascending S) by exact HSs.
  replace (length (map fst M)) with (length S) by reflexivity.
  assert (Hlen_eq : length S = length fut + length past).
  { rewrite HSlen. unfold A, B. rewrite !map_length. reflexivity. }
  rewrite Hlen_eq, Nat.eqb_refl. cbn [negb]. rewrite andb_false_r.
  fold NP NF. fold S.
  set (nodes := NP ++ NF).
  assert (Hnlen : length S = length nodes).
  { unfold nodes, NP, NF. rewrite app_length, !map_length. lia. }
  assert (HNPnd : NoDup NP).
  { apply psorted_vals_nodup; [exact Hsp|]. intros p q n H1 H2. apply Hpast in H1. apply Hpast in H2.
    destruct H1 as [-> _]. destruct H2 as [-> _]. reflexivity. }
  assert (HNFnd : NoDup NF).
  { apply psorted_vals_nodup; [exact Hsf|]. intros p q n H1 H2. apply Hfut in H1. apply Hfut in H2.
    destruct H1 as [-> _]. destruct H2 as [-> _]. reflexivity. }
  assert (Hnnd : NoDup nodes).
  { apply NoDup_app_intro; [exact HNPnd | exact HNFnd|].
    intros x H1 H2. apply HNP in H1. apply HNF in H2. exact (Hdis x H2 H1). }
  destruct (set_positions_perm live om (combine S nodes) I) as [om' [Eset [I' [Hkeys [Hn2 [Hnew Hsame]]]]]].
  { rewrite (map_fst_combine S nodes Hnlen). apply ascending_NoDup, Hasc. }
  { rewrite (map_snd_combine S nodes Hnlen). exact Hnnd. }
  { rewrite (map_snd_combine S nodes Hnlen). intros n Hn. apply in_app_or in Hn.
    destruct Hn as [Hn|Hn]; [apply HPlive, HNP, Hn | apply HFlive, HNF, Hn]. }
  { rewrite (map_fst_combine S nodes Hnlen), (map_snd_combine S nodes Hnlen). intros q. rewrite HSin, HB, HA. split.
    - intros [[x [Hx E]]|[x [Hx E]]]; exists x; (split; [|exact E]); apply in_or_app;
        [right; apply HNF, Hx | left; apply HNP, Hx].
    - intros [x [Hx E]]. apply in_app_or in Hx. destruct Hx as [Hx|Hx];
        [right; exists x; split; [apply HNP, Hx | exact E] | left; exists x; split; [apply HNF, Hx | exact E]]. }
  rewrite Eset. cbn [rmap]. exists (inr om'). split; [reflexivity|].
  (* index descriptions *)
  assert (HA_nth : forall i x, nth_error NP i = Some x -> nth_error A i = Some (old x)).
  { intros i x Hx. unfold NP in Hx. unfold A.
    destruct (nth_error past i) as [[p y]|] eqn:E.
    - rewrite (map_nth_error snd i past E) in Hx. cbn [snd] in Hx. injection Hx as ->.
      rewrite (map_nth_error fst i past E). cbn [fst]. f_equal.
      apply nth_error_In in E. apply Hpast in E. exact (proj1 E).
    - exfalso. apply nth_error_None in E. assert (i < length (map snd past)) by (apply nth_error_Some; congruence).
      rewrite map_length in *. lia. }
  assert (HB_nth : forall k x, nth_error NF k = Some x -> nth_error B k = Some (old x)).
  { intros k x Hx. unfold NF in Hx. unfold B.
    destruct (nth_error fut k) as [[p y]|] eqn:E.
    - rewrite (map_nth_error snd k fut E) in Hx. cbn [snd] in Hx. injection Hx as ->.
      rewrite (map_nth_error fst k fut E). cbn [fst]. f_equal.
      apply nth_error_In in E. apply Hfut in E. exact (proj1 E).
    - exfalso. apply nth_error_None in E. assert (k < length (map snd fut)) by (apply nth_error_Some; congruence).
      rewrite map_length in *. lia. }
  assert (HlenP : length NP = length A) by (unfold NP, A; rewrite !map_length; reflexivity).
  assert (HlenF : length NF = length B) by (unfold NF, B; rewrite !map_length; reflexivity).
  assert (HP_new : forall i x, nth_error NP i = Some x -> nth_error S i = Some (pos_or0 om' x)).
  { intros i x Hx. assert (Hi : i < length NP) by (apply nth_error_Some; congruence).
    assert (Hi2 : i < length S) by lia. destruct (nth_error_lt_Some S Hi2) as [q Eq].
    rewrite Eq. f_equal. symmetry. apply (Hnew q x). apply (in_combine_nth S nodes i q x Eq).
    unfold nodes. rewrite ListExtra.nth_error_app. destruct (Nat.ltb_spec i (length NP)); [exact Hx | lia]. }
  assert (HF_new : forall k x, nth_error NF k = Some x -> nth_error S (length NP + k) = Some (pos_or0 om' x)).
  { intros k x Hx. assert (Hk : k < length NF) by (apply nth_error_Some; congruence).
    assert (Hk2 : length NP + k < length S) by lia. destruct (nth_error_lt_Some S Hk2) as [q Eq].
    rewrite Eq. f_equal. symmetry. apply (Hnew q x). apply (in_combine_nth S nodes (length NP + k) q x Eq).
    unfold nodes. rewrite ListExtra.nth_error_app. destruct (Nat.ltb_spec (length NP + k) (length NP)); [lia|].
    replace (length NP + k - length NP) with k by lia. exact Hx. }
  assert (HinclA : incl A S) by (intros q Hq; apply HSin; right; exact Hq).
  assert (HinclB : incl B S) by (intros q Hq; apply HSin; left; exact Hq).
  assert (HSrange : forall q, In q S -> old b <= q <= old a).
  { intros q Hq. apply HSin in Hq. destruct Hq as [Hq|Hq].
    - apply HB in Hq. destruct Hq as [x [[R Hx] <-]]. pose proof (topo_reach_le w om b x T R). lia.
    - apply HA in Hq. destruct Hq as [x [[R Hx] <-]]. pose proof (topo_reach_le w om x a T R). lia. }
  assert (NPdn : forall x, in_past x -> old b <= pos_or0 om' x <= old x).
  { intros x Hx. apply HNP in Hx. apply In_nth_error in Hx. destruct Hx as [i Hi].
    pose proof (HP_new i x Hi) as Es. pose proof (HA_nth i x Hi) as Ea.
    pose proof (rank_low S A i (old x) (pos_or0 om' x) Hsp Hasc HinclA Ea Es).
    pose proof (HSrange _ (nth_error_In _ _ Es)). lia. }
  assert (NFup : forall x, in_fut x -> old x <= pos_or0 om' x <= old a).
  { intros x Hx. apply HNF in Hx. apply In_nth_error in Hx. destruct Hx as [k Hk].
    pose proof (HF_new k x Hk) as Es. pose proof (HB_nth k x Hk) as Eb.
    replace (length NP + k) with (length S - length B + k) in Es by lia.
    pose proof (rank_high S B k (old x) (pos_or0 om' x) Hsf Hasc HinclB Eb Es).
    pose proof (HSrange _ (nth_error_In _ _ Es)). lia. }
  assert (Hasc_nth := proj1 (ascending_nth S) Hasc).
  assert (NPP : forall x y, in_past x -> in_past y -> old x < old y -> pos_or0 om' x < pos_or0 om' y).
  { intros x y Hx Hy Hxy. apply HNP in Hx. apply HNP in Hy.
    apply In_nth_error in Hx. destruct Hx as [i Hi]. apply In_nth_error in Hy. destruct Hy as [j Hj].
    assert (Hij : i < j).
    { destruct (Nat.lt_ge_cases i j) as [H|H]; [exact H|]. exfalso.
      pose proof (HA_nth i x Hi) as Ei. pose proof (HA_nth j y Hj) as Ej.
      destruct (Nat.eq_dec j i) as [->|Hne]; [rewrite Ei in Ej; injection Ej as Ej; lia|].
      assert (Hji : j < i) by lia.
      pose proof (proj1 (ascending_nth A) Hsp j i (old y) (old x) Hji Ej Ei). lia. }
    exact (Hasc_nth i j _ _ Hij (HP_new i x Hi) (HP_new j y Hj)). }
  assert (NFF : forall x y, in_fut x -> in_fut y -> old x < old y -> pos_or0 om' x < pos_or0 om' y).
  { intros x y Hx Hy Hxy. apply HNF in Hx. apply HNF in Hy.
    apply In_nth_error in Hx. destruct Hx as [i Hi]. apply In_nth_error in Hy. destruct Hy as [j Hj].
    assert (Hij : i < j).
    { destruct (Nat.lt_ge_cases i j) as [H|H]; [exact H|]. exfalso.
      pose proof (HB_nth i x Hi) as Ei. pose proof (HB_nth j y Hj) as Ej.
      destruct (Nat.eq_dec j i) as [->|Hne]; [rewrite Ei in Ej; injection Ej as Ej; lia|].
      assert (Hji : j < i) by lia.
      pose proof (proj1 (ascending_nth B) Hsf j i (old y) (old x) Hji Ej Ei). lia. }
    apply (Hasc_nth (length NP + i) (length NP + j) _ _); [lia | apply HF_new, Hi | apply HF_new, Hj]. }
  assert (NPF : forall x y, in_past x -> in_fut y -> pos_or0 om' x < pos_or0 om' y).
  { intros x y Hx Hy. apply HNP in Hx. apply HNF in Hy.
    apply In_nth_error in Hx. destruct Hx as [i Hi]. apply In_nth_error in Hy. destruct Hy as [k Hk].
    assert (i < length NP) by (apply nth_error_Some; congruence).
    apply (Hasc_nth i (length NP + k) _ _); [lia | apply HP_new, Hi | apply HF_new, Hk]. }
  assert (Nsame : forall x, ~ in_fut x -> ~ in_past x -> pos_or0 om' x = old x).
  { intros x H1 H2. apply Hsame. rewrite (map_snd_combine S nodes Hnlen). intros Hin.
    apply in_app_or in Hin. destruct Hin as [Hin|Hin]; [apply H2, HNP, Hin | apply H1, HNF, Hin]. }
  split; [exact Hnr|]. split; [exact I'|]. split.
  { (* Topo *)
    intros x y Hs.
    apply (pk_topo (step w) old (pos_or0 om') in_fut in_past (old b) (old a)); try assumption.
    - intros x0 y0 [R Hx0] Hs0.
      assert (Ry : reachable w b y0) by (eapply reach_step; eassumption).
      destruct (Nat.lt_ge_cases (old y0) (old a)) as [H|H]; [left; split; assumption|]. right.
      destruct (Nat.eq_dec (old y0) (old a)) as [E|Hne]; [|lia]. exfalso.
      assert (y0 = a) by (apply (OInv_pos_inj _ om y0 a I (proj2 (vw_out _ W x0 y0 Hs0)) Ha E)).
      subst y0. exact (Hnr Ry).
    - intros x0 y0 [R Hy0] Hs0.
      assert (Rx : reachable w x0 a) by (eapply reachable_left; eassumption).
      destruct (Nat.lt_ge_cases (old b) (old x0)) as [H|H]; [left; split; assumption|]. right.
      destruct (Nat.eq_dec (old x0) (old b)) as [E|Hne]; [|lia]. exfalso.
      assert (x0 = b) by (apply (OInv_pos_inj _ om x0 b I (proj1 (vw_out _ W x0 y0 Hs0)) Hb E)).
      subst x0. exact (Hnr Rx).
    - intros x0 y0 [R1 _] [R2 _] Hs0. apply Hnr.
      eapply reachable_trans; [eapply reach_step; [exact R1 | exact Hs0] | exact R2].
    - intros x0. destruct (in_dec Nat.eq_dec x0 NF) as [H|H]; [left; apply HNF, H | right; intros H2; apply H, HNF, H2].
    - intros x0. destruct (in_dec Nat.eq_dec x0 NP) as [H|H]; [left; apply HNP, H | right; intros H2; apply H, HNP, H2]. }
  split.
  { apply NPF.
    - split; [apply reach_refl | exact Hlt].
    - split; [apply reach_refl | exact Hlt]. }
  split; [exact Hkeys|]. split; [exact Hn2|]. split; [exact Nsame|]. split; [exact NFup | exact NPdn].
Qed.

End Reorder.

(* ------------------------------------------------------------------ *)
(* T3: update_ordering, T4: is_valid_edge                              *)

Section Update.
Variable debug : bool.
Variable v : view.
Variable blen : nat.
Variable om : omap.
Variable a b : nat.
Hypothesis W : VWf v.
Hypothesis I : OInv (fun n => In n (vnodes v)) om.
Hypothesis T : Topo v om.
Hypothesis Ha : In a (vnodes v).
Hypothesis Hb : In b (vnodes v).

Notation old := (pos_or0 om).
Notation live := (fun n => In n (vnodes v)).

Lemma with_cap_grown_vwf : VWf (with_cap v (grown blen v)).
Proof. apply with_cap_vwf; [exact W | unfold grown; lia]. Qed.

Lemma topo_forward_no_path : old a < old b -> ~ reachable v b a.
Proof. intros H R. pose proof (topo_reach_le v om b a T R). lia. Qed.

Theorem update_ordering_ok : a <> b ->
  exists r blen', update_ordering debug v blen om a b = Ok (r, blen') /\
    (blen' = blen \/ blen' = grown blen v) /\
    match r with
    | inl c => c = b /\ reachable v b a
    | inr om' =>
        ~ reachable v b a /\ OInv live om' /\ Topo v om' /\
        pos_or0 om' a < pos_or0 om' b /\
        map fst (p2n om') = map fst (p2n om) /\
        length (n2p om') = length (n2p om) /\
        (forall x, ~ (reachable v b x /\ old x < old a) -> ~ (reachable v x a /\ old b < old x) ->
                   pos_or0 om' x = old x) /\
        (forall x, reachable v b x /\ old x < old a -> old x <= pos_or0 om' x <= old a) /\
        (forall x, reachable v x a /\ old b < old x -> old b <= pos_or0 om' x <= old x)
    end.
Proof.
  intros Hab. rewrite update_ordering_unfold.
  rewrite (OInv_get_position _ om b I Hb), (OInv_get_position _ om a I Ha). cbn [rbind].
  destruct (Nat.leb_spec (old a) (old b)) as [Hle|Hgt].
  - assert (Hlt : old a < old b).
    { destruct (Nat.eq_dec (old a) (old b)) as [E|Hne]; [|lia].
      exfalso. apply Hab. exact (OInv_pos_inj _ om a b I Ha Hb E). }
    exists (inr om), blen. split; [reflexivity|]. split; [left; reflexivity|].
    split; [apply topo_forward_no_path, Hlt|]. split; [exact I|]. split; [exact T|].
    split; [exact Hlt|]. split; [reflexivity|]. split; [reflexivity|]. split; [intros; reflexivity|].
    split; intros x [R Hx]; pose proof (topo_reach_le v om _ _ T R); lia.
  - set (v' := with_cap v (grown blen v)).
    destruct (reorder_ok debug v' om a b with_cap_grown_vwf I T Ha Hb Hgt) as [r [Er Hr]].
    fold v'. rewrite Er. cbn [rmap]. exists r, (grown blen v). split; [reflexivity|].
    split; [right; reflexivity|]. destruct r as [c|om'].
    + destruct Hr as [-> R]. split; [reflexivity | apply (reach_with_cap v (grown blen v)), R].
    + destruct Hr as [Hnr [I' [T' [Hab' [Hk [Hl [Hs [Hf Hp]]]]]]]].
      split; [intros R; apply Hnr, (reach_with_cap v (grown blen v)), R|].
      split; [exact I'|]. split; [exact T'|]. split; [exact Hab'|]. split; [exact Hk|]. split; [exact Hl|].
      split; [|split].
      * intros x H1 H2. apply Hs.
        -- intros [R Hx]. apply H1. split; [apply (reach_with_cap v (grown blen v)), R | exact Hx].
        -- intros [R Hx]. apply H2. split; [apply (reach_with_cap v (grown blen v)), R | exact Hx].
      * intros x [R Hx]. apply Hf. split; [apply (reach_with_cap v (grown blen v)), R | exact Hx].
      * intros x [R Hx]. apply Hp. split; [apply (reach_with_cap v (grown blen v)), R | exact Hx].
Qed.

Theorem is_valid_edge_ok :
  exists x blen', is_valid_edge debug v blen om a b = Ok (x, blen') /\
    (blen' = blen \/ blen' = grown blen v) /\
    (x = true <-> a <> b /\ ~ reachable v b a).
Proof.
  unfold is_valid_edge. destruct (Nat.eqb_spec a b) as [E|Hab].
  - exists false, blen. split; [reflexivity|]. split; [left; reflexivity|].
    split; [discriminate | intros [H _]; contradiction].
  - rewrite (OInv_get_position _ om a I Ha), (OInv_get_position _ om b I Hb). cbn [rbind].
    destruct (Nat.ltb_spec (old a) (old b)) as [Hlt|Hge].
    + exists true, blen. split; [reflexivity|]. split; [left; reflexivity|]. split; [|reflexivity].
      intros _. split; [exact Hab | apply topo_forward_no_path, Hlt].
    + assert (Hgt : old b < old a).
      { destruct (Nat.eq_dec (old a) (old b)) as [E|Hne]; [|lia].
        exfalso. apply Hab. exact (OInv_pos_inj _ om a b I Ha Hb E). }
      destruct (causal_cones_exact debug (with_cap v (grown blen v)) om b a with_cap_grown_vwf I T Hb Ha Hgt)
        as [r [Er Hr]].
      rewrite Er. cbn [rmap]. eexists _, (grown blen v). split; [reflexivity|]. split; [right; reflexivity|].
      destruct r as [c|[fut past]].
      * destruct Hr as [_ R]. apply (reach_with_cap v (grown blen v)) in R. split; [discriminate|].
        intros [_ H]. contradiction.
      * destruct Hr as [Hnr _]. split; [|reflexivity]. intros _. split; [exact Hab|].
        intros R. apply Hnr, (reach_with_cap v (grown blen v)), R.
Qed.

(* is_valid_edge predicts update_ordering *)
Corollary is_valid_edge_predicts x bl r bl' : a <> b ->
  is_valid_edge debug v blen om a b = Ok (x, bl) ->
  update_ordering debug v blen om a b = Ok (r, bl') ->
  (x = true <-> exists om', r = inr om').
Proof.
  intros Hab E1 E2.
  destruct is_valid_edge_ok as [x0 [bl0 [E1' [_ Hx]]]]. rewrite E1 in E1'. injection E1' as <- <-.
  destruct (update_ordering_ok Hab) as [r0 [bl0 [E2' [_ Hr]]]]. rewrite E2 in E2'. injection E2' as <- <-.
  rewrite Hx. destruct r as [c|om'].
  - destruct Hr as [_ R]. split; [intros [_ H]; contradiction | intros [om' E]; discriminate E].
  - destruct Hr as [Hnr _]. split; [intros _; exists om'; reflexivity | intros _; split; assumption].
Qed.

End Update.
