(* C06 / T1: the executable checker of Model/FullView.v decides the specification of
   Spec/ViewSpec.v:  fv_ok f = true <-> FConsistent f,  and fv_check names the first failing clause. *)
From Coq Require Import Permutation.
From PG Require Import Lib.Io Model.FullView Spec.ViewSpec.

(* ---------- boolean reflection of the small helpers ---------- *)

Lemma memn_In x l : memn x l = true <-> In x l.
Proof.
  induction l as [|h t IH]; cbn [memn In].
  - split; [discriminate | tauto].
  - rewrite orb_true_iff, Nat.eqb_eq, IH. tauto.
Qed.

Lemma memn_false x l : memn x l = false <-> ~ In x l.
Proof.
  rewrite <- memn_In. destruct (memn x l); split; intro H.
  - discriminate.
  - exfalso. apply H. reflexivity.
  - intro H'. discriminate.
  - reflexivity.
Qed.

Lemma nodupn_NoDup l : nodupn l = true <-> NoDup l.
Proof.
  induction l as [|h t IH]; cbn [nodupn].
  - split; [intros _; constructor | reflexivity].
  - rewrite andb_true_iff, negb_true_iff, memn_false, IH. split.
    + intros [Hn Ht]. constructor; assumption.
    + intros H. inversion H; subst. split; assumption.
Qed.

Lemma list_eqb_eq l1 l2 : list_eqb l1 l2 = true <-> l1 = l2.
Proof.
  unfold list_eqb. rewrite andb_true_iff, Nat.eqb_eq. split.
  - revert l2. induction l1 as [|h t IH]; intros [|h2 t2] [Hl Hf]; cbn in Hl; try discriminate.
    + reflexivity.
    + cbn in Hf. apply andb_true_iff in Hf. destruct Hf as [Hh Ht].
      apply Nat.eqb_eq in Hh. subst h2. f_equal. apply IH. split; [lia | exact Ht].
  - intros <-. split; [reflexivity|]. induction l1 as [|h t IH]; cbn; [reflexivity|].
    rewrite Nat.eqb_refl. exact IH.
Qed.

Lemma bool_eq_iff (x y : bool) : x = y <-> (x = true <-> y = true).
Proof.
  split; [intros ->; tauto|]. intros [H1 H2].
  destruct x, y; try reflexivity.
  - symmetry. apply H1. reflexivity.
  - apply H2. reflexivity.
Qed.

Lemma opt_le_spec x o : opt_le x o = true <-> (forall c, o = Some c -> x < c).
Proof.
  destruct o as [c|]; cbn [opt_le].
  - rewrite Nat.ltb_lt. split.
    + intros H c' E. injection E as <-. exact H.
    + intros H. apply H. reflexivity.
  - split; [intros _ c E; discriminate | reflexivity].
Qed.

Lemma opt_is_spec o n : opt_is o n = true <-> (forall c, o = Some c -> c = n).
Proof.
  destruct o as [c|]; cbn [opt_is].
  - rewrite Nat.eqb_eq. split.
    + intros H c' E. injection E as <-. exact H.
    + intros H. apply H. reflexivity.
  - split; [intros _ c E; discriminate | reflexivity].
Qed.

(* ---------- quads and the projection ---------- *)

Lemma qproj_src ids q : q_src (qproj ids q) = q_src q.
Proof. destruct ids; destruct q as [[[e s] t] w]; reflexivity. Qed.
Lemma qproj_tgt ids q : q_tgt (qproj ids q) = q_tgt q.
Proof. destruct ids; destruct q as [[[e s] t] w]; reflexivity. Qed.
Lemma qproj_w ids q : q_w (qproj ids q) = q_w q.
Proof. destruct ids; destruct q as [[[e s] t] w]; reflexivity. Qed.
Lemma qproj_flip ids q : qproj ids (q_flip q) = q_flip (qproj ids q).
Proof. destruct ids; destruct q as [[[e s] t] w]; reflexivity. Qed.
Lemma qproj_idem ids q : qproj ids (qproj ids q) = qproj ids q.
Proof. destruct ids; destruct q as [[[e s] t] w]; reflexivity. Qed.
Lemma q_flip_flip q : q_flip (q_flip q) = q.
Proof. destruct q as [[[e s] t] w]; reflexivity. Qed.
Lemma q_flip_src q : q_src (q_flip q) = q_tgt q.
Proof. destruct q as [[[e s] t] w]; reflexivity. Qed.
Lemma q_flip_tgt q : q_tgt (q_flip q) = q_src q.
Proof. destruct q as [[[e s] t] w]; reflexivity. Qed.
Lemma q_flip_w q : q_w (q_flip q) = q_w q.
Proof. destruct q as [[[e s] t] w]; reflexivity. Qed.
Lemma q_flip_id q : q_id (q_flip q) = q_id q.
Proof. destruct q as [[[e s] t] w]; reflexivity. Qed.
Lemma qproj_true q : qproj true q = q.
Proof. reflexivity. Qed.

(* comparable with ids = stronger than without *)
Lemma qproj_weaken ids p q : qproj ids p = qproj ids q -> qproj false p = qproj false q.
Proof.
  destruct ids; cbn [qproj]; [intros ->; reflexivity | tauto].
Qed.

Lemma quad_eqb_qproj ids p q : quad_eqb ids p q = true <-> qproj ids p = qproj ids q.
Proof.
  unfold quad_eqb. destruct p as [[[e s] t] w], q as [[[e' s'] t'] w'].
  cbn [q_id q_src q_tgt q_w].
  rewrite !andb_true_iff, orb_true_iff, negb_true_iff, !Nat.eqb_eq, Z.eqb_eq.
  destruct ids; cbn [qproj q_src q_tgt q_w].
  - split.
    + intros [[H|H] (-> & -> & ->)]; [discriminate | subst; reflexivity].
    + intros H. injection H as -> -> -> ->. tauto.
  - split.
    + intros [_ (-> & -> & ->)]. reflexivity.
    + intros H. injection H as -> -> ->. tauto.
Qed.

(* ---------- same_multiset is Permutation modulo the projection ---------- *)

Lemma remove_one_Some ids q l l' :
  remove_one ids q l = Some l' ->
  exists l1 h l2, l = l1 ++ h :: l2 /\ l' = l1 ++ l2 /\ qproj ids q = qproj ids h.
Proof.
  revert l'. induction l as [|h t IH]; intros l' H; cbn [remove_one] in H; [discriminate|].
  destruct (quad_eqb ids q h) eqn:E.
  - injection H as <-. exists [], h, t. repeat split. apply quad_eqb_qproj. exact E.
  - destruct (remove_one ids q t) as [t'|] eqn:Et; cbn [option_map] in H; [|discriminate].
    injection H as <-. destruct (IH t' eq_refl) as (l1 & h' & l2 & -> & -> & Hq).
    exists (h :: l1), h', l2. repeat split. exact Hq.
Qed.

Lemma remove_one_None ids q l :
  remove_one ids q l = None -> ~ In (qproj ids q) (map (qproj ids) l).
Proof.
  induction l as [|h t IH]; intros H; cbn [remove_one] in H; cbn [map In]; [tauto|].
  destruct (quad_eqb ids q h) eqn:E; [discriminate|].
  destruct (remove_one ids q t) as [t'|] eqn:Et; cbn [option_map] in H; [discriminate|].
  intros [Hh|Ht].
  - symmetry in Hh. apply quad_eqb_qproj in Hh. rewrite Hh in E. discriminate.
  - exact (IH eq_refl Ht).
Qed.

Lemma same_multiset_perm ids l1 l2 :
  same_multiset ids l1 l2 = true <-> same_edges ids l1 l2.
Proof.
  unfold same_edges. revert l2. induction l1 as [|q t IH]; intros l2; cbn [same_multiset map].
  - destruct l2 as [|h2 t2]; cbn [map].
    + split; [intros _; constructor | reflexivity].
    + split; [discriminate|]. intros H. apply Permutation_nil in H. discriminate.
  - destruct (remove_one ids q l2) as [l2'|] eqn:E.
    + destruct (remove_one_Some _ _ _ _ E) as (l1' & h & l2'' & -> & -> & Hq).
      rewrite IH, !map_app. cbn [map]. rewrite <- Hq. split.
      * intros H. apply Permutation_cons_app. exact H.
      * intros H. eapply Permutation_cons_app_inv. exact H.
    + split; [discriminate|]. intros H. exfalso.
      apply (remove_one_None _ _ _ E). eapply Permutation_in; [exact H | left; reflexivity].
Qed.

Lemma same_edges_refl ids l : same_edges ids l l.
Proof. apply Permutation_refl. Qed.
Lemma same_edges_sym ids l1 l2 : same_edges ids l1 l2 -> same_edges ids l2 l1.
Proof. apply Permutation_sym. Qed.
Lemma same_edges_trans ids l1 l2 l3 :
  same_edges ids l1 l2 -> same_edges ids l2 l3 -> same_edges ids l1 l3.
Proof. apply Permutation_trans. Qed.
Lemma same_edges_perm ids l1 l2 : Permutation l1 l2 -> same_edges ids l1 l2.
Proof. intro H. apply Permutation_map. exact H. Qed.
Lemma same_edges_weaken ids l1 l2 : same_edges ids l1 l2 -> same_edges false l1 l2.
Proof.
  destruct ids; [|tauto]. unfold same_edges. intro H. cbn [qproj] in H.
  rewrite !map_id in H. apply Permutation_map. exact H.
Qed.

(* ---------- the model's expected lists are the specification's ---------- *)

Lemma expect_out_spec d erefs a : Permutation (expect_out d erefs a) (spec_out d erefs a).
Proof.
  unfold expect_out, spec_out. induction erefs as [|q t IH]; cbn [flat_map filter].
  - destruct d; constructor.
  - destruct (q_src q =? a) eqn:Es; cbn [negb andb].
    + rewrite andb_false_r. cbn [app]. apply perm_skip. exact IH.
    + rewrite andb_true_r. destruct d; cbn [negb andb].
      * cbn [app]. exact IH.
      * destruct (q_tgt q =? a); cbn [app map]; [|exact IH].
        apply Permutation_cons_app. exact IH.
Qed.

Lemma expect_in_spec d erefs a : Permutation (expect_in d erefs a) (spec_in d erefs a).
Proof.
  unfold expect_in, spec_in. induction erefs as [|q t IH]; cbn [flat_map filter].
  - destruct d; constructor.
  - destruct (q_tgt q =? a) eqn:Es; cbn [negb andb].
    + rewrite andb_false_r. cbn [app]. apply perm_skip. exact IH.
    + rewrite andb_true_r. destruct d; cbn [negb andb].
      * cbn [app]. exact IH.
      * destruct (q_src q =? a); cbn [app map]; [|exact IH].
        apply Permutation_cons_app. exact IH.
Qed.

Lemma same_edges_expect_out ids d erefs a l :
  same_edges ids l (expect_out d erefs a) <-> same_edges ids l (spec_out d erefs a).
Proof.
  split; intro H; (eapply same_edges_trans; [exact H|]); apply same_edges_perm;
    [|apply Permutation_sym]; apply expect_out_spec.
Qed.
Lemma same_edges_expect_in ids d erefs a l :
  same_edges ids l (expect_in d erefs a) <-> same_edges ids l (spec_in d erefs a).
Proof.
  split; intro H; (eapply same_edges_trans; [exact H|]); apply same_edges_perm;
    [|apply Permutation_sym]; apply expect_in_spec.
Qed.

Lemma adjacent_spec d erefs a b : adjacent d erefs a b = true <-> edge_between d erefs a b.
Proof.
  unfold adjacent, edge_between. rewrite existsb_exists. split.
  - intros (q & Hq & H). exists q. split; [exact Hq|].
    rewrite orb_true_iff, !andb_true_iff, negb_true_iff, !Nat.eqb_eq in H.
    destruct H as [[-> ->] | (-> & -> & ->)]; [left | right]; tauto.
  - intros (q & Hq & H). exists q. split; [exact Hq|].
    rewrite orb_true_iff, !andb_true_iff, negb_true_iff, !Nat.eqb_eq.
    destruct H as [H | [-> H]]; injection H as -> ->; tauto.
Qed.

(* ---------- the seven clauses ---------- *)

Lemma nodup_range_length l n :
  NoDup l -> (forall i, In i l <-> i < n) -> length l = n.
Proof.
  intros Hnd H. rewrite <- (seq_length n 0). apply Permutation_length.
  apply NoDup_Permutation; [exact Hnd | apply seq_NoDup|].
  intro i. rewrite in_seq, H. lia.
Qed.

Lemma c_nodes_ok f : c_nodes f = true <-> NodesOK f.
Proof.
  unfold c_nodes.
  rewrite !andb_true_iff, orb_true_iff, andb_true_iff, negb_true_iff, nodupn_NoDup,
          opt_is_spec, Nat.eqb_eq, !forallb_forall.
  split.
  - intros (Hnd & Hb & Hc & Hcomp). constructor.
    + exact Hnd.
    + intros a Ha. apply Hb in Ha. apply andb_true_iff in Ha. apply Nat.ltb_lt. apply Ha.
    + intros c Hc' a Ha. apply Hb in Ha. apply andb_true_iff in Ha. destruct Ha as [_ Ha].
      exact (proj1 (opt_le_spec _ _) Ha c Hc').
    + intros n Hn. apply Hc. exact Hn.
    + intros Hcp i. destruct Hcomp as [Hcomp | [Hlen Hall]]; [rewrite Hcp in Hcomp; discriminate|].
      split.
      * intro Hi. apply Hb in Hi. apply andb_true_iff in Hi. apply Nat.ltb_lt. apply Hi.
      * intro Hi. apply memn_In. apply Hall. apply in_seq. lia.
  - intros [Hnd Hb Hv Hc Hcomp]. repeat split.
    + exact Hnd.
    + intros a Ha. apply andb_true_iff. split.
      * apply Nat.ltb_lt. apply Hb. exact Ha.
      * apply opt_le_spec. intros c Hc'. exact (Hv c Hc' a Ha).
    + intros c Hc'. apply Hc. exact Hc'.
    + destruct (f_compact f); [right | left; reflexivity].
      specialize (Hcomp eq_refl). split.
      * apply nodup_range_length; assumption.
      * intros i Hi. apply memn_In. apply Hcomp. apply in_seq in Hi. lia.
Qed.

Lemma c_nrefs_ok f : c_nrefs f = true <-> NrefsOK f.
Proof. unfold c_nrefs, NrefsOK. apply list_eqb_eq. Qed.

Lemma c_erefs_ok f : c_erefs f = true <-> ErefsOK f.
Proof.
  unfold c_erefs.
  rewrite !andb_true_iff, orb_true_iff, andb_true_iff, negb_true_iff, opt_is_spec,
          nodupn_NoDup, !forallb_forall.
  split.
  - intros (He & Hc & Hids). constructor.
    + intros q Hq. apply He in Hq. apply andb_true_iff in Hq.
      rewrite !memn_In in Hq. exact Hq.
    + intros n Hn. apply Hc. exact Hn.
    + intros Hi. destruct Hids as [Hids | [Hnd _]]; [rewrite Hi in Hids; discriminate | exact Hnd].
    + intros Hi c Hc' q Hq.
      destruct Hids as [Hids | [_ Hb]]; [rewrite Hi in Hids; discriminate|].
      exact (proj1 (opt_le_spec _ _) (Hb q Hq) c Hc').
  - intros [He Hc Hnd Hb]. repeat split.
    + intros q Hq. apply andb_true_iff. rewrite !memn_In. apply He. exact Hq.
    + intros c Hc'. apply Hc. exact Hc'.
    + destruct (f_ids_ok f); [right | left; reflexivity]. split.
      * apply Hnd. reflexivity.
      * intros q Hq. apply opt_le_spec. intros c Hc'. exact (Hb eq_refl c Hc' q Hq).
Qed.

Lemma c_keys_ok f : c_keys f = true <-> KeysOK f.
Proof.
  unfold c_keys.
  rewrite !andb_true_iff, orb_true_iff, andb_true_iff, negb_true_iff, !list_eqb_eq.
  split.
  - intros (Ho & Hn & Hin). constructor; try assumption.
    + intro Hi. destruct Hin as [Hin | [Hin _]]; [rewrite Hi in Hin; discriminate | exact Hin].
    + intro Hi. destruct Hin as [Hin | [_ Hin]]; [rewrite Hi in Hin; discriminate | exact Hin].
  - intros [Ho Hn Hi Hbi]. repeat split; try assumption.
    destruct (f_has_in f); [right | left; reflexivity]. split; [apply Hi | apply Hbi]; reflexivity.
Qed.

Lemma c_out_ok f : c_out f = true <-> OutOK f.
Proof.
  unfold c_out. rewrite forallb_forall. split.
  - intros H. constructor; intros a Ha; specialize (H a Ha); apply andb_true_iff in H;
      destruct H as [H1 H2].
    + apply same_edges_expect_out. apply same_multiset_perm. exact H1.
    + apply list_eqb_eq. exact H2.
  - intros [H1 H2] a Ha. apply andb_true_iff. split.
    + apply same_multiset_perm. apply same_edges_expect_out. exact (H1 a Ha).
    + apply list_eqb_eq. exact (H2 a Ha).
Qed.

Lemma c_in_ok f : c_in f = true <-> InOK f.
Proof.
  unfold c_in. rewrite orb_true_iff, negb_true_iff, forallb_forall. split.
  - intros H. constructor; intros Hi a Ha;
      (destruct H as [H|H]; [rewrite Hi in H; discriminate|]);
      specialize (H a Ha); apply andb_true_iff in H; destruct H as [H1 H2].
    + apply same_edges_expect_in. apply same_multiset_perm. exact H1.
    + apply list_eqb_eq. exact H2.
  - intros [H1 H2]. destruct (f_has_in f); [right | left; reflexivity].
    intros a Ha. apply andb_true_iff. split.
    + apply same_multiset_perm. apply same_edges_expect_in. exact (H1 eq_refl a Ha).
    + apply list_eqb_eq. exact (H2 eq_refl a Ha).
Qed.

Lemma c_adj_ok f : c_adj f = true <-> AdjOK f.
Proof.
  unfold c_adj, AdjOK. rewrite orb_true_iff, negb_true_iff, forallb_forall. split.
  - intros H Hadj a b Ha Hb. destruct H as [H|H]; [rewrite Hadj in H; discriminate|].
    specialize (H a Ha). rewrite forallb_forall in H. specialize (H b Hb).
    apply eqb_prop in H. apply bool_eq_iff in H. rewrite memn_In, adjacent_spec in H. exact H.
  - intros H. destruct (f_has_adj f); [right | left; reflexivity].
    intros a Ha. apply forallb_forall. intros b Hb.
    apply eqb_true_iff. apply bool_eq_iff. rewrite memn_In, adjacent_spec.
    exact (H eq_refl a b Ha Hb).
Qed.

(* ---------- T1 ---------- *)

Lemma fv_ok_and f :
  fv_ok f = andb (c_nodes f) (andb (c_nrefs f) (andb (c_erefs f) (andb (c_keys f)
            (andb (c_out f) (andb (c_in f) (c_adj f)))))).
Proof.
  unfold fv_ok, fv_check.
  destruct (c_nodes f), (c_nrefs f), (c_erefs f), (c_keys f), (c_out f), (c_in f), (c_adj f);
    reflexivity.
Qed.

Theorem fv_ok_iff f : fv_ok f = true <-> FConsistent f.
Proof.
  rewrite fv_ok_and, !andb_true_iff,
          c_nodes_ok, c_nrefs_ok, c_erefs_ok, c_keys_ok, c_out_ok, c_in_ok, c_adj_ok.
  split.
  - intros (H1 & H2 & H3 & H4 & H5 & H6 & H7). constructor; assumption.
  - intros [H1 H2 H3 H4 H5 H6 H7]. tauto.
Qed.

Lemma fv_check_zero f : fv_check f = 0 <-> FConsistent f.
Proof. rewrite <- fv_ok_iff. unfold fv_ok. rewrite Nat.eqb_eq. tauto. Qed.

Lemma not_true_false {b : bool} {P : Prop} : (b = true <-> P) -> b = false -> ~ P.
Proof. intros H E HP. apply H in HP. rewrite E in HP. discriminate. Qed.

(* fv_check f is 0 for a consistent view; otherwise it is the number of the first clause that
   fails: clause (fv_check f) fails and every earlier clause holds. *)
Theorem fv_check_first_failing f :
  (fv_check f = 0 /\ FConsistent f) \/
  (1 <= fv_check f <= 7 /\ ~ clause (fv_check f) f /\
   forall j, 1 <= j < fv_check f -> clause j f).
Proof.
  unfold fv_check.
  destruct (c_nodes f) eqn:E1; cbn [negb].
  2:{ right. split; [lia|]. split; [exact (not_true_false (c_nodes_ok f) E1) | intros j Hj; lia]. }
  destruct (c_nrefs f) eqn:E2; cbn [negb].
  2:{ right. split; [lia|]. split; [exact (not_true_false (c_nrefs_ok f) E2)|].
      intros j Hj. assert (j = 1) as -> by lia. apply c_nodes_ok; exact E1. }
  destruct (c_erefs f) eqn:E3; cbn [negb].
  2:{ right. split; [lia|]. split; [exact (not_true_false (c_erefs_ok f) E3)|].
      intros j Hj. assert (j = 1 \/ j = 2) as [-> | ->] by lia;
        [apply c_nodes_ok | apply c_nrefs_ok]; assumption. }
  destruct (c_keys f) eqn:E4; cbn [negb].
  2:{ right. split; [lia|]. split; [exact (not_true_false (c_keys_ok f) E4)|].
      intros j Hj. assert (j = 1 \/ j = 2 \/ j = 3) as [-> | [-> | ->]] by lia;
        [apply c_nodes_ok | apply c_nrefs_ok | apply c_erefs_ok]; assumption. }
  destruct (c_out f) eqn:E5; cbn [negb].
  2:{ right. split; [lia|]. split; [exact (not_true_false (c_out_ok f) E5)|].
      intros j Hj. assert (j = 1 \/ j = 2 \/ j = 3 \/ j = 4) as [-> | [-> | [-> | ->]]] by lia;
        [apply c_nodes_ok | apply c_nrefs_ok | apply c_erefs_ok | apply c_keys_ok]; assumption. }
  destruct (c_in f) eqn:E6; cbn [negb].
  2:{ right. split; [lia|]. split; [exact (not_true_false (c_in_ok f) E6)|].
      intros j Hj.
      assert (j = 1 \/ j = 2 \/ j = 3 \/ j = 4 \/ j = 5) as [-> | [-> | [-> | [-> | ->]]]] by lia;
        [apply c_nodes_ok | apply c_nrefs_ok | apply c_erefs_ok | apply c_keys_ok | apply c_out_ok];
        assumption. }
  destruct (c_adj f) eqn:E7; cbn [negb].
  2:{ right. split; [lia|]. split; [exact (not_true_false (c_adj_ok f) E7)|].
      intros j Hj.
      assert (j = 1 \/ j = 2 \/ j = 3 \/ j = 4 \/ j = 5 \/ j = 6)
        as [-> | [-> | [-> | [-> | [-> | ->]]]]] by lia;
        [apply c_nodes_ok | apply c_nrefs_ok | apply c_erefs_ok | apply c_keys_ok | apply c_out_ok
         | apply c_in_ok]; assumption. }
  left. split; [reflexivity|].
  constructor; [apply c_nodes_ok | apply c_nrefs_ok | apply c_erefs_ok | apply c_keys_ok
               | apply c_out_ok | apply c_in_ok | apply c_adj_ok]; assumption.
Qed.
