(* steiner_tree checker (C20): the theorems of MiscSteinerP1 (tree_check, steiner_check) and
   MiscSteinerP2 (steiner_opt), a worked example for every verdict, and the assumptions. *)
From Coq Require Import ZArith.
From PG Require Import Lib.Io Model.View Model.MstM Model.MiscM Spec.Partition Spec.Forest Spec.MiscSpec
  Proofs.MstP Proofs.MiscSteinerP1 Proofs.MiscSteinerP2.

(* An undirected weighted graph on 6 nodes; terminals 0, 2, 4.
     0-1 2   1-2 2   1-4 2      (the star at 1: the optimum Steiner tree, weight 6)
     0-2 4   2-4 4              (the terminals alone: weight 8)
     4-5 1   3-5 7   0-3 9      (a long way round) *)
Definition st_view : view :=
  mkView false 6 None [0; 1; 2; 3; 4; 5]
    [(0, [(0, 1, 2%Z); (3, 2, 4%Z); (7, 3, 9%Z)]);
     (1, [(0, 0, 2%Z); (1, 2, 2%Z); (2, 4, 2%Z)]);
     (2, [(1, 1, 2%Z); (3, 0, 4%Z); (4, 4, 4%Z)]);
     (3, [(6, 5, 7%Z); (7, 0, 9%Z)]);
     (4, [(2, 1, 2%Z); (4, 2, 4%Z); (5, 5, 1%Z)]);
     (5, [(5, 4, 1%Z); (6, 3, 7%Z)])]
    [] 8 8
    [(0, 0, 1, 2%Z); (1, 1, 2, 2%Z); (2, 1, 4, 2%Z); (3, 0, 2, 4%Z);
     (4, 2, 4, 4%Z); (5, 4, 5, 1%Z); (6, 3, 5, 7%Z); (7, 0, 3, 9%Z)].
Definition st_T : list nat := [0; 2; 4].

Example st_view_MOk : MOk st_view.
Proof. exact (mok_b_sound st_view eq_refl). Qed.

Example st_opt : steiner_opt st_view st_T = Some 6%Z.
Proof. vm_compute; reflexivity. Qed.

(* accepted: the optimum, and the tree on the terminals alone (8 <= 2 * 6);
   an edge may be given in the orientation opposite to the one of the graph *)
Example st_accept_opt :
  steiner_check st_view st_T [0; 1; 2; 4] [(0, 1, 2%Z); (2, 1, 2%Z); (1, 4, 2%Z)] = 0.
Proof. vm_compute; reflexivity. Qed.
Example st_accept :
  steiner_check st_view st_T [0; 2; 4] [(0, 2, 4%Z); (4, 2, 4%Z)] = 0.
Proof. vm_compute; reflexivity. Qed.
(* 1: the edge 0-2 has weight 4, not 5; a node that is not in the graph *)
Example st_verdict1 :
  steiner_check st_view st_T [0; 2; 4] [(0, 2, 5%Z); (2, 4, 4%Z)] = 1 /\
  steiner_check st_view st_T [0; 2; 4; 6] [(0, 2, 4%Z); (2, 4, 4%Z)] = 1.
Proof. vm_compute; split; reflexivity. Qed.
(* 2: three edges on four nodes, but 0-1-2-0 is a cycle and 4 is left alone *)
Example st_verdict2 :
  steiner_check st_view st_T [0; 1; 2; 4] [(0, 1, 2%Z); (1, 2, 2%Z); (0, 2, 4%Z)] = 2.
Proof. vm_compute; reflexivity. Qed.
(* 3: a tree, without the terminal 4 *)
Example st_verdict3 :
  steiner_check st_view st_T [0; 1; 2] [(0, 1, 2%Z); (1, 2, 2%Z)] = 3.
Proof. vm_compute; reflexivity. Qed.
(* 4: the leaf 5 is not a terminal *)
Example st_verdict4 :
  steiner_check st_view st_T [0; 2; 4; 5] [(0, 2, 4%Z); (2, 4, 4%Z); (4, 5, 1%Z)] = 4.
Proof. vm_compute; reflexivity. Qed.
(* 5: the long way round: 9 + 7 + 1 + 4 = 21 > 2 * 6 *)
Example st_verdict5 :
  steiner_check st_view st_T [0; 3; 5; 4; 2] [(0, 3, 9%Z); (3, 5, 7%Z); (5, 4, 1%Z); (2, 4, 4%Z)] = 5.
Proof. vm_compute; reflexivity. Qed.

Example st_tree_check :
  tree_check [0; 1; 2; 4] [(0, 1, 2%Z); (2, 1, 2%Z); (1, 4, 2%Z)] 6 = true /\
  tree_check [0; 1; 2; 4] [(0, 1, 2%Z); (1, 2, 2%Z); (0, 2, 4%Z)] 6 = false /\
  tree_check [0; 1; 2; 4] [(0, 1, 2%Z); (2, 1, 2%Z); (1, 6, 2%Z)] 6 = false.
Proof. vm_compute; repeat split; reflexivity. Qed.

(* the accepted result, through the theorems: a tree holding the terminals, at most twice any other *)
Example st_accept_meaning :
  IsTree [0; 2; 4] [(0, 2); (4, 2)] /\
  forall K' F', SteinerTreeOf st_view st_T K' F' -> (8 <= 2 * weight F')%Z.
Proof.
  pose proof (steiner_check_sound st_view st_T _ _ st_view_MOk st_accept) as [_ [[[E _]|H2] _]]; [discriminate E|].
  split; [exact H2|].
  exact (steiner_check_two_approx st_view st_T _ _ st_view_MOk st_accept).
Qed.

Check tree_check_iff : forall nodes es bound,
  tree_check nodes es bound = true <->
  ((nodes = [] /\ es = []) \/
   (nodes <> [] /\ S (length es) = length nodes /\
    (forall a b w, In (a, b, w) es -> a < bound /\ b < bound) /\ acyclic_edges (ends es))).
Check tree_check_tree : forall nodes es bound,
  NoDup nodes -> (forall a b w, In (a, b, w) es -> In a nodes /\ In b nodes) ->
  (forall a, In a nodes -> a < bound) -> nodes <> [] ->
  (tree_check nodes es bound = true <-> IsTree nodes (ends es)).
Check steiner_check_sound : forall v T nodes es, MOk v -> steiner_check v T nodes es = 0 ->
  (incl nodes (vnodes v) /\
   forall a b w, In (a, b, w) es -> exists i, In (i, a, b, w) (verefs v) \/ In (i, b, a, w) (verefs v)) /\
  ((nodes = [] /\ es = []) \/ IsTree nodes (ends es)) /\
  incl T nodes /\
  (2 <= length nodes -> forall x, In x nodes -> degree x es = 1 -> In x T) /\
  (forall opt, steiner_opt v T = Some opt -> (sumw es <= 2 * opt)%Z).
Check steiner_check_iff : forall v T nodes es, MOk v ->
  (steiner_check v T nodes es = 0 <->
   St1 v nodes es /\ St2 nodes es /\ St3 T nodes /\ St4 T nodes es /\ St5 v T es).
Check steiner_check_verdicts : forall v T nodes es, MOk v ->
  steiner_check v T nodes es <= 5 /\
  (steiner_check v T nodes es = 0 <->
     St1 v nodes es /\ St2 nodes es /\ St3 T nodes /\ St4 T nodes es /\ St5 v T es) /\
  (steiner_check v T nodes es = 1 <-> ~ St1 v nodes es) /\
  (steiner_check v T nodes es = 2 <-> St1 v nodes es /\ ~ St2 nodes es) /\
  (steiner_check v T nodes es = 3 <-> St1 v nodes es /\ St2 nodes es /\ ~ St3 T nodes) /\
  (steiner_check v T nodes es = 4 <-> St1 v nodes es /\ St2 nodes es /\ St3 T nodes /\ ~ St4 T nodes es) /\
  (steiner_check v T nodes es = 5 <->
     St1 v nodes es /\ St2 nodes es /\ St3 T nodes /\ St4 T nodes es /\ ~ St5 v T es).
Check @subseqs_In_st : forall A (K l : list A), In K (subseqs l) <-> sublist K l.
Check steiner_opt_minimum : forall v T w, MOk v -> steiner_opt v T = Some w ->
  (exists K F, sublist K (vnodes v) /\ incl F (gedges (induced_view v K)) /\
               SteinerTreeOf v T K F /\ weight F = w) /\
  (forall K' F', SteinerTreeOf v T K' F' -> (w <= weight F')%Z).
Check steiner_opt_none : forall v T, MOk v -> steiner_opt v T = None ->
  forall K' F', ~ SteinerTreeOf v T K' F'.
Check steiner_check_two_approx : forall v T nodes es, MOk v -> steiner_check v T nodes es = 0 ->
  forall K' F', SteinerTreeOf v T K' F' -> (sumw es <= 2 * weight F')%Z.

Print Assumptions tree_check_iff.
Print Assumptions tree_check_tree.
Print Assumptions steiner_check_sound.
Print Assumptions steiner_check_iff.
Print Assumptions steiner_check_verdicts.
Print Assumptions subseqs_In_st.
Print Assumptions steiner_opt_minimum.
Print Assumptions steiner_opt_none.
Print Assumptions steiner_check_two_approx.
Print Assumptions st_view_MOk.
Print Assumptions st_opt.
Print Assumptions st_accept_opt.
Print Assumptions st_accept.
Print Assumptions st_verdict1.
Print Assumptions st_verdict2.
Print Assumptions st_verdict3.
Print Assumptions st_verdict4.
Print Assumptions st_verdict5.
Print Assumptions st_tree_check.
Print Assumptions st_accept_meaning.
