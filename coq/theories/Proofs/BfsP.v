(* Bfs (traversal.rs): nodes are marked when pushed.  The emitted nodes are exactly
   the reachable ones, each once, in non-decreasing hop distance. *)
From Coq Require Import Sorted.
From PG Require Import Lib.Io Model.View Model.Traversal Spec.Reach Proofs.TravBase.
Set Implicit Arguments.

(* ------------------------------------------------------------------ *)
(* bfs_push                                                            *)

Lemma bfs_push_sound v : forall succs q m q' m',
  bfs_push v succs q m = Ok (q', m') ->
  exists new, q' = q ++ new /\ m' = rev new ++ m /\ NoDup new /\
              forall x, In x new <-> In x succs /\ ~ In x m.
Proof.
  induction succs as [|s rest IH]; intros q m q' m' H; cbn [bfs_push] in H.
  - injection H as <- <-. exists []. rewrite app_nil_r. repeat split; try constructor; try tauto.
  - destruct (visit v m s) as [[fresh m1]| |] eqn:Ev; cbn [rbind] in H; try discriminate.
    apply visit_sound in Ev. destruct Ev as [-> ->].
    destruct (mem s m) eqn:Em; cbn [negb] in H; apply IH in H; destruct H as [new [Eq [Em' [Hnd Hin]]]].
    + apply mem_In in Em. exists new. split; [exact Eq|]. split; [exact Em'|]. split; [exact Hnd|].
      intros x; split.
      * intros Hx. apply Hin in Hx. split; [right; apply Hx | apply Hx].
      * intros [[<-|Hx] Hm]; [contradiction|]. apply Hin; split; assumption.
    + apply mem_false in Em. exists (s :: new). split; [|split; [|split]].
      * rewrite Eq, <- app_assoc. reflexivity.
      * rewrite Em'. cbn [rev]. rewrite <- app_assoc. reflexivity.
      * constructor; [|exact Hnd]. intros Hs. apply Hin in Hs. apply (proj2 Hs). left; reflexivity.
      * intros x; split.
        -- intros [<-|Hx]; [split; [left; reflexivity | exact Em]|].
           apply Hin in Hx. destruct Hx as [Hx Hm]. split; [right; exact Hx|].
           intros Hxm; apply Hm; right; exact Hxm.
        -- intros [Hx Hm]. destruct (Nat.eq_dec s x) as [->|Hne]; [left; reflexivity|].
           right. apply Hin. split; [destruct Hx; [contradiction|assumption]|].
           intros [Hs|Hs]; contradiction.
Qed.

Lemma bfs_push_total v : forall succs q m,
  (forall x, In x succs -> in_cap v x) -> exists q' m', bfs_push v succs q m = Ok (q', m').
Proof.
  induction succs as [|s rest IH]; intros q m Hc; cbn [bfs_push]; [eauto|].
  rewrite (visit_ok v m s) by (apply Hc; left; reflexivity). cbn [rbind].
  apply IH. intros x Hx; apply Hc; right; exact Hx.
Qed.

(* marking a duplicate-free batch of fresh view nodes pays one unit each *)
Lemma usum_one_batch l : forall new m,
  NoDup new -> (forall x, In x new -> ~ In x m) -> (forall x, In x new -> In x l) ->
  usum (fun _ => 1) (rev new ++ m) l + length new <= usum (fun _ => 1) m l.
Proof.
  induction new as [|a t IH]; intros m Hnd Hm Hl; cbn [rev app length]; [lia|].
  inversion Hnd as [|a' t' Ha Ht]; subst. rewrite <- app_assoc. cbn [app].
  assert (Hstep : usum (fun _ => 1) (a :: m) l + 1 <= usum (fun _ => 1) m l).
  { assert (Hal : In a l) by (apply Hl; left; reflexivity).
    assert (Ham : mem a m = false) by (apply mem_false, Hm; left; reflexivity).
    exact (usum_mark_in (fun _ => 1) m a l Hal Ham). }
  assert (Hrec : usum (fun _ => 1) (rev t ++ a :: m) l + length t <= usum (fun _ => 1) (a :: m) l).
  { apply IH; auto.
    - intros x Hx [<-|Hxm]; [contradiction | apply (Hm x); [right; exact Hx | exact Hxm]].
    - intros x Hx; apply Hl; right; exact Hx. }
  lia.
Qed.

Lemma sorted_snoc ds k : Sorted le ds -> Forall (fun d => d <= k) ds -> Sorted le (ds ++ [k]).
Proof.
  induction ds as [|a t IH]; intros Hs Hk; cbn [app].
  - repeat constructor.
  - apply Sorted_inv in Hs. destruct Hs as [Hs Hh]. inversion Hk as [|a' t' Ha Ht]; subst.
    constructor; [apply IH; assumption|].
    destruct t as [|b t']; cbn [app]; constructor; [exact Ha|].
    inversion Hh; assumption.
Qed.

(* ------------------------------------------------------------------ *)
(* Invariants: acc = emitted so far (in order)                         *)

Record BInv (v : view) (s : nat) (acc : list nat) (b : bfs) : Prop := {
  bi_nodup : NoDup (acc ++ bqueue b);
  bi_disc : forall x, In x (bdisc b) <-> In x (acc ++ bqueue b);
  bi_closed : forall u w, In u acc -> step v u w -> In w (bdisc b);
  bi_start : In s (bdisc b);
  bi_reach : forall x, In x (bdisc b) -> reachable v s x
}.

(* the queue holds level k (q1) then level k+1 (q2); every node with a walk shorter
   than k has been emitted; ds are the hop distances of the emitted nodes *)
Record BLev (v : view) (s k : nat) (q1 q2 : list nat) (ds : list nat) (acc : list nat) (b : bfs) : Prop := {
  bl_queue : bqueue b = q1 ++ q2;
  bl_q1 : Forall (fun x => hopdist v s x k) q1;
  bl_q2 : Forall (fun x => hopdist v s x (S k)) q2;
  bl_below : forall x j, path v s x j -> j < k -> In x acc;
  bl_ds : Forall2 (hopdist v s) acc ds;
  bl_sorted : Sorted le ds;
  bl_le : Forall (fun d => d <= k) ds
}.

Definition bmeas (v : view) (b : bfs) : nat :=
  length (bqueue b) + usum (fun _ => 1) (bdisc b) (vnodes v).

Section BfsInv.
Variable v : view.
Hypothesis Hcap : forall a b, step v a b -> in_cap v b.
Hypothesis Hnodes : forall a b, step v a b -> In b (vnodes v).
Variable s : nat.

(* a node with a walk of at most k steps is discovered *)
Lemma blev_disc acc b k q1 q2 ds x j :
  BInv v s acc b -> BLev v s k q1 q2 ds acc b -> path v s x j -> j <= k -> In x (bdisc b).
Proof.
  intros I L P Hj. inversion P as [|p y j' Pp Hpx]; subst.
  - apply (bi_start I).
  - apply (bi_closed I) with (u := p); [|exact Hpx]. apply (bl_below L) with (j := j'); [exact Pp|lia].
Qed.

Lemma blev_shift acc b k q2 ds :
  BInv v s acc b -> BLev v s k [] q2 ds acc b -> BLev v s (S k) q2 [] ds acc b.
Proof.
  intros I L. pose proof L as [Eq H1 H2 Hb Hds Hs Hle]. constructor; auto.
  - rewrite app_nil_r. exact Eq.
  - intros x j P Hj. destruct (Nat.eq_dec j k) as [->|Hne]; [|apply (Hb x j P); lia].
    assert (Hd : In x (bdisc b)) by (eapply blev_disc; eauto).
    apply (bi_disc I) in Hd. apply in_app_or in Hd. destruct Hd as [Hd|Hd]; [exact Hd|].
    rewrite Eq in Hd. cbn [app] in Hd. rewrite Forall_forall in H2.
    destruct (H2 x Hd) as [_ Hmin]. specialize (Hmin k P). lia.
  - eapply Forall_impl; [|exact Hle]. cbn beta. intros; lia.
Qed.

Lemma bfs_step acc b k u q1 q2 ds b' :
  BInv v s acc b -> BLev v s k (u :: q1) q2 ds acc b ->
  bfs_next v b = Ok (Some u, b') ->
  exists new, BInv v s (acc ++ [u]) b' /\ BLev v s k q1 (q2 ++ new) (ds ++ [k]) (acc ++ [u]) b' /\
              bmeas v b' < bmeas v b.
Proof.
  intros I L H. pose proof I as [Hnd Hdi Hcl Hs0 Hre]. pose proof L as [Eq H1 H2 Hb Hds Hso Hle].
  unfold bfs_next in H. rewrite Eq in H. cbn [app] in H.
  destruct (bfs_push v (neighbors v u) (q1 ++ q2) (bdisc b)) as [[q' m']| |] eqn:Ep;
    cbn [rmap] in H; try discriminate.
  injection H as <-. apply bfs_push_sound in Ep. destruct Ep as [new [-> [-> [Hnn Hin]]]].
  rewrite Eq in Hnd, Hdi. cbn [app] in Hnd, Hdi. cbn [bqueue bdisc] in *.
  assert (Hu : hopdist v s u k) by (inversion H1; assumption).
  assert (Hnew : forall x, In x new -> hopdist v s x (S k)).
  { intros x Hx. apply Hin in Hx. destruct Hx as [Hux Hxd]. split.
    - eapply path_S; [apply Hu | exact Hux].
    - intros j P. destruct (Nat.le_gt_cases j k) as [Hj|Hj]; [|lia].
      exfalso; apply Hxd. eapply blev_disc; eauto. }
  assert (Hdis : forall x, In x new -> ~ In x (acc ++ u :: q1 ++ q2)).
  { intros x Hx Hbig. apply Hin in Hx. apply (proj2 Hx). apply Hdi. exact Hbig. }
  assert (Eapp : (acc ++ [u]) ++ (q1 ++ q2) ++ new = (acc ++ u :: q1 ++ q2) ++ new)
    by (norm_app; reflexivity).
  exists new. split; [|split].
  - constructor; cbn [bqueue bdisc].
    + rewrite Eapp. apply NoDup_app_intro; auto. intros x Hx Hn. apply (Hdis x Hn Hx).
    + intros x. rewrite Eapp. split; intros Hx; apply in_app_or in Hx; apply in_or_app.
      * destruct Hx as [Hx|Hx]; [right; rewrite <- in_rev in Hx; exact Hx | left; apply Hdi; exact Hx].
      * destruct Hx as [Hx|Hx]; [right; apply Hdi; exact Hx | left; rewrite <- in_rev; exact Hx].
    + intros u0 w Hu0 Hw. apply in_or_app. apply in_app_or in Hu0.
      destruct Hu0 as [Hu0|[<-|[]]]; [right; apply (Hcl u0 w Hu0 Hw)|].
      destruct (in_dec Nat.eq_dec w (bdisc b)) as [Hd|Hd]; [right; exact Hd|].
      left. rewrite <- in_rev. apply Hin. split; assumption.
    + apply in_or_app; right; exact Hs0.
    + intros x Hx. apply in_app_or in Hx. destruct Hx as [Hx|Hx]; [|apply Hre; exact Hx].
      rewrite <- in_rev in Hx. eapply hopdist_reachable. apply Hnew; exact Hx.
  - constructor; cbn [bqueue bdisc].
    + rewrite app_assoc. reflexivity.
    + inversion H1; assumption.
    + apply Forall_app. split; [exact H2|]. apply Forall_forall. exact Hnew.
    + intros x j P Hj. apply in_or_app; left. apply (Hb x j P Hj).
    + apply Forall2_app; [exact Hds|]. constructor; [exact Hu|constructor].
    + apply sorted_snoc; assumption.
    + apply Forall_app. split; [exact Hle|]. constructor; [lia|constructor].
  - unfold bmeas. cbn [bqueue bdisc]. rewrite Eq. cbn [app length]. rewrite !app_length.
    pose proof (@usum_one_batch (vnodes v) new (bdisc b) Hnn) as Hu1.
    assert (usum (fun _ => 1) (rev new ++ bdisc b) (vnodes v) + length new
            <= usum (fun _ => 1) (bdisc b) (vnodes v)).
    { apply Hu1.
      - intros x Hx Hd. apply Hin in Hx. apply (proj2 Hx). exact Hd.
      - intros x Hx. apply Hin in Hx. apply (Hnodes u x). apply Hx. }
    lia.
Qed.

(* bring the head of a non-empty queue into the current level *)
Lemma blev_head acc b k q1 q2 ds u rest :
  BInv v s acc b -> BLev v s k q1 q2 ds acc b -> bqueue b = u :: rest ->
  exists k' q1' q2', BLev v s k' (u :: q1') q2' ds acc b.
Proof.
  intros I L Eq. destruct q1 as [|u1 q1'].
  - pose proof (blev_shift I L) as L'. pose proof (bl_queue L) as Eq'. cbn [app] in Eq'.
    rewrite Eq in Eq'. subst q2. exists (S k), rest, []. exact L'.
  - pose proof (bl_queue L) as Eq'. rewrite Eq in Eq'. cbn [app] in Eq'. injection Eq' as -> _.
    exists k, q1', q2. exact L.
Qed.

Lemma bfs_next_some b u rest :
  bqueue b = u :: rest -> exists b', bfs_next v b = Ok (Some u, b').
Proof.
  intros Eq. unfold bfs_next. rewrite Eq.
  destruct (@bfs_push_total v (neighbors v u) rest (bdisc b)) as [q' [m' E]].
  { intros x Hx. apply (Hcap u x Hx). }
  rewrite E. cbn [rmap]. eauto.
Qed.

Lemma bfs_drain_ok : forall fuel acc b k q1 q2 ds,
  BInv v s acc b -> BLev v s k q1 q2 ds acc b -> bmeas v b < fuel ->
  exists l, bfs_drain fuel v b = Ok l /\ NoDup (acc ++ l) /\
    (forall x, In x (acc ++ l) <-> reachable v s x) /\
    exists ds', Forall2 (hopdist v s) (acc ++ l) ds' /\ Sorted le ds'.
Proof.
  induction fuel as [|f IH]; intros acc b k q1 q2 ds I L Hf; [lia|].
  cbn [bfs_drain]. destruct (bqueue b) as [|u rest] eqn:Eq.
  - unfold bfs_next. rewrite Eq. cbn [rbind]. exists []. rewrite app_nil_r.
    pose proof I as [Hnd Hdi Hcl Hs0 Hre]. rewrite Eq, app_nil_r in Hnd, Hdi.
    split; [reflexivity|]. split; [exact Hnd|]. split.
    + intros x; split.
      * intros Hx. apply Hre, Hdi, Hx.
      * intros R. induction R as [|x y Rx IHx Hxy]; [apply Hdi, Hs0|].
        apply Hdi. apply (Hcl x y IHx Hxy).
    + exists ds. split; [apply (bl_ds L) | apply (bl_sorted L)].
  - destruct (blev_head I L Eq) as [k' [q1' [q2' L']]].
    destruct (bfs_next_some b Eq) as [b' E]. rewrite E. cbn [rbind].
    destruct (bfs_step I L' E) as [new [I' [L'' Hm]]].
    destruct (IH _ _ _ _ _ _ I' L'') as [l [El [Hnd [Hre [ds' [Hds Hso]]]]]]; [lia|].
    rewrite El. cbn [rmap]. exists (u :: l).
    assert (Eapp : acc ++ u :: l = (acc ++ [u]) ++ l) by (norm_app; reflexivity).
    rewrite Eapp. split; [reflexivity|]. split; [exact Hnd|]. split; [exact Hre|].
    exists ds'. split; assumption.
Qed.

End BfsInv.

Theorem bfs_spec v s fuel :
  cap_ok v -> nodes_ok v -> in_cap v s -> trav_fuel v <= fuel ->
  exists l, rbind (bfs_new v s) (bfs_drain fuel v) = Ok l /\ NoDup l /\
    (forall x, In x l <-> reachable v s x) /\
    exists ds, Forall2 (hopdist v s) l ds /\ Sorted le ds.
Proof.
  intros [Hcap _] Hnodes Hs Hfuel.
  assert (Hn2 : forall a b, step v a b -> In b (vnodes v)) by (intros a b H; apply (Hnodes a b H)).
  unfold bfs_new. rewrite (visit_ok v [] s Hs). cbn [mem negb rmap rbind].
  assert (I0 : BInv v s [] (mkBfs [s] [s])).
  { constructor; cbn [bqueue bdisc app].
    - repeat constructor. intros [].
    - intros x; tauto.
    - intros u w [].
    - left; reflexivity.
    - intros x [<-|[]]. apply reach_refl. }
  assert (L0 : BLev v s 0 [s] [] [] [] (mkBfs [s] [s])).
  { constructor; cbn [bqueue bdisc app].
    - reflexivity.
    - constructor; [apply hopdist_start | constructor].
    - constructor.
    - intros x j _ Hj; lia.
    - constructor.
    - constructor.
    - constructor. }
  destruct (@bfs_drain_ok v Hcap Hn2 s fuel [] (mkBfs [s] [s]) 0 [s] [] [] I0 L0) as [l H].
  { unfold bmeas. cbn [bqueue bdisc length].
    pose proof (usum_nil_le (fun _ => 1) [s] (vnodes v)) as H. rewrite usum_one_all in H.
    unfold trav_fuel, vnode_count in Hfuel. lia. }
  exists l. exact H.
Qed.
