(* C14, towards T6: what the Acyclic wrapper needs to know of a wrapped DiGraph -- derived from
   the C01 theorems: the view of view_of, and the edge relation after each mutation. *)
From Coq Require Import Sorted Permutation.
From PG Require Import Lib.Io Lib.Walk Model.GraphM Proofs.GraphP Proofs.GraphQ Proofs.GraphRE Proofs.GraphRN
                       Props.C01.
From PG Require Import Model.View Model.Traversal Model.AcyclicM Model.AcyclicIO
                       Spec.Reach Spec.AcyclicSpec Proofs.AcyclicViewP.
From PG Require Model.GraphIO.

Notation Gr := (graph nat nat).

(* an edge a -> b exists *)
Definition gedge (g : Gr) (a b : nat) : Prop :=
  exists e, e < length (gedges g) /\ GraphQ.src g e = a /\ GraphQ.tgt g e = b.

Lemma gedge_etrip (g : Gr) a b : gedge g a b <-> exists w, In ((a, b), w) (etrip g).
Proof.
  unfold gedge, etrip, GraphQ.src, GraphQ.tgt, ept. split.
  - intros [e [He [Hs Ht]]]. destruct (nth_error_lt_Some (gedges g) He) as [ed Ed].
    rewrite Ed in Hs, Ht. cbn [sel] in Hs, Ht. exists (ewt ed). apply in_map_iff. exists ed. split.
    + unfold etr. rewrite (surjective_pairing (enode ed)), Hs, Ht. reflexivity.
    + eapply nth_error_In; exact Ed.
  - intros [w Hin]. apply in_map_iff in Hin. destruct Hin as [ed [E Hed]].
    apply In_nth_error in Hed. destruct Hed as [e Ee]. exists e. split; [eapply nth_error_Some_lt; exact Ee|].
    rewrite Ee. cbn [sel]. unfold etr in E. injection E as E _. rewrite E. split; reflexivity.
Qed.

Lemma gedge_same_edges (g g' : Gr) a b : gedges g' = gedges g -> (gedge g' a b <-> gedge g a b).
Proof. intros E. unfold gedge, GraphQ.src, GraphQ.tgt, ept. rewrite E. reflexivity. Qed.

Lemma gedge_same_etrip (g g' : Gr) : (forall x, In x (etrip g') -> In x (etrip g)) ->
  forall a b, gedge g' a b -> gedge g a b.
Proof. intros H a b. rewrite !gedge_etrip. intros [w Hw]. exists w. apply H, Hw. Qed.

Lemma swap_remove_In {A} (l : list A) i x : In x (swap_remove l i) -> In x l.
Proof.
  intros H. destruct (Nat.lt_ge_cases i (length l)) as [Hi|Hi].
  - apply In_nth_error in H. destruct H as [j Hj]. rewrite (swap_remove_nth l j Hi) in Hj.
    destruct (Nat.eqb j i).
    + destruct (Nat.eqb i (length l - 1)); [discriminate Hj | eapply nth_error_In; exact Hj].
    + destruct (Nat.ltb j (length l - 1)); [eapply nth_error_In; exact Hj | discriminate Hj].
  - unfold swap_remove in H. destruct (rev l) as [|z r] eqn:E; [exact H|].
    destruct (Nat.eqb_spec i (length l - 1)) as [->|_].
    + assert (length l > 0).
      { destruct l; [discriminate E | cbn [length]; lia]. }
      lia.
    + rewrite upd_oob in H by exact Hi.
      assert (El : l = rev r ++ [z]).
      { apply (f_equal (@rev A)) in E. rewrite rev_involutive in E. exact E. }
      rewrite El in H |- *. rewrite removelast_last in H. apply in_or_app; left; exact H.
Qed.

Section G.
Variable cap : nat.
Variable capcheck debug : bool.

Notation GI := (@GInv nat nat cap).

Lemma gedge_live (g : Gr) a b : GI g -> gedge g a b -> a < node_count g /\ b < node_count g.
Proof.
  intros I [e [He [Hs Ht]]]. destruct (nth_error_lt_Some (gedges g) He) as [ed Ed].
  pose proof (gi_ends I e Ed) as [H1 H2]. unfold GraphQ.src, GraphQ.tgt, ept in Hs, Ht.
  rewrite Ed in Hs, Ht. cbn [sel] in Hs, Ht. unfold node_count. subst a b. split; assumption.
Qed.

(* ------------------------------------------------------------------ *)
(* view_of                                                             *)

Lemma erefs_g_out (g : Gr) l r : Forall2 (GraphQ.eref g false) l r ->
  Forall2 (fun e x => eid x = e /\ View.tgt x = GraphQ.tgt g e) l (erefs_g 0 r).
Proof.
  induction 1 as [|e x t u [ed [Ed Ex]] Htu IH]; cbn [erefs_g map]; [constructor|].
  constructor; [|exact IH]. subst x. destruct (enode ed) as [s t'] eqn:En. cbn [Nat.eqb].
  unfold eid, View.tgt, GraphQ.tgt, ept. cbn [fst snd]. rewrite Ed, En. cbn [sel]. split; reflexivity.
Qed.

Lemma erefs_g_in (g : Gr) l r : Forall2 (GraphQ.eref g false) l r ->
  Forall2 (fun e x => eid x = e /\ View.tgt x = GraphQ.src g e) l (erefs_g 1 r).
Proof.
  induction 1 as [|e x t u [ed [Ed Ex]] Htu IH]; cbn [erefs_g map]; [constructor|].
  constructor; [|exact IH]. subst x. destruct (enode ed) as [s t'] eqn:En. cbn [Nat.eqb].
  unfold eid, View.tgt, GraphQ.src, ept. cbn [fst snd]. rewrite Ed, En. cbn [sel]. split; reflexivity.
Qed.

Theorem view_of_G (g : Gr) : GI g ->
  exists v, view_of cap (InG g) = Ok v /\ VWf v /\
    vnodes v = seq 0 (node_count g) /\ vbound v = node_count g /\
    (forall a b, Reach.step v a b <-> gedge g a b).
Proof.
  intros I. unfold view_of. cbn [live ibound].
  set (N := node_count g).
  assert (Hadj0 : forall a, exists r, AcyclicIO.adj cap (InG g) 0 a = Ok (a, erefs_g 0 r) /\
                            Forall2 (GraphQ.eref g false) (adjf cap g 0 a) r).
  { intros a. cbn [AcyclicIO.adj]. destruct (C01_edges_directed nat nat cap g I a) as [[r [Er Hr]] _].
    exists r. rewrite Er. split; [reflexivity | exact Hr]. }
  assert (Hadj1 : forall a, exists r, AcyclicIO.adj cap (InG g) 1 a = Ok (a, erefs_g 1 r) /\
                            Forall2 (GraphQ.eref g false) (adjf cap g 1 a) r).
  { intros a. cbn [AcyclicIO.adj]. destruct (C01_edges_directed nat nat cap g I a) as [_ H]. destruct (H 0) as [r [Er Hr]].
    exists r. rewrite Er. split; [reflexivity | exact Hr]. }
  destruct (rmapM_ok (AcyclicIO.adj cap (InG g) 0) (seq 0 N)) as [outs Eo].
  { intros a _. destruct (Hadj0 a) as [r [Er _]]. eexists; exact Er. }
  destruct (rmapM_ok (AcyclicIO.adj cap (InG g) 1) (seq 0 N)) as [ins Ei].
  { intros a _. destruct (Hadj1 a) as [r [Er _]]. eexists; exact Er. }
  rewrite Eo, Ei. cbn [rbind]. eexists. split; [reflexivity|].
  set (v := mkView true N (Some N) (seq 0 N) outs ins 0 0 []).
  assert (Ho : forall a, (In a (seq 0 N) -> exists x, assoc_nat outs a = Some x /\
                 Forall2 (fun e x0 => eid x0 = e /\ View.tgt x0 = GraphQ.tgt g e) (adjf cap g 0 a) x) /\
               (~ In a (seq 0 N) -> assoc_nat outs a = None)).
  { apply assoc_along. eapply Forall2_weaken; [|apply (rmapM_inv _ _ _ Eo)].
    intros a y Ey. cbn beta in Ey. destruct (Hadj0 a) as [r [Er Hr]]. rewrite Er in Ey. injection Ey as <-.
    cbn [fst snd]. split; [reflexivity | apply erefs_g_out, Hr]. }
  assert (Hi : forall a, (In a (seq 0 N) -> exists x, assoc_nat ins a = Some x /\
                 Forall2 (fun e x0 => eid x0 = e /\ View.tgt x0 = GraphQ.src g e) (adjf cap g 1 a) x) /\
               (~ In a (seq 0 N) -> assoc_nat ins a = None)).
  { apply assoc_along. eapply Forall2_weaken; [|apply (rmapM_inv _ _ _ Ei)].
    intros a y Ey. cbn beta in Ey. destruct (Hadj1 a) as [r [Er Hr]]. rewrite Er in Ey. injection Ey as <-.
    cbn [fst snd]. split; [reflexivity | apply erefs_g_in, Hr]. }
  assert (G1 : NoDup (vnodes v)) by (apply seq_NoDup).
  assert (G2 : forall a, In a (vnodes v) -> a < vbound v) by (intros a Ha; apply in_seq in Ha; cbn [v vbound]; lia).
  assert (G3 : vcap v = Some (vbound v)) by reflexivity.
  assert (G4 : forall a, In a (vnodes v) ->
            Forall2 (fun e r => eid r = e /\ View.tgt r = GraphQ.tgt g e) (adjf cap g 0 a) (out_edges v a)).
  { intros a Ha. unfold out_edges; cbn [v vout]. destruct (proj1 (Ho a) Ha) as [x [Ex Hx]]. rewrite Ex. exact Hx. }
  assert (G5 : forall a, ~ In a (vnodes v) -> out_edges v a = []).
  { intros a Ha. unfold out_edges; cbn [v vout]. rewrite (proj2 (Ho a) Ha). reflexivity. }
  assert (G6 : forall a, In a (vnodes v) ->
            Forall2 (fun e r => eid r = e /\ View.tgt r = GraphQ.src g e) (adjf cap g 1 a) (in_edges v a)).
  { intros a Ha. unfold in_edges; cbn [v vin]. destruct (proj1 (Hi a) Ha) as [x [Ex Hx]]. rewrite Ex. exact Hx. }
  assert (G7 : forall a, ~ In a (vnodes v) -> in_edges v a = []).
  { intros a Ha. unfold in_edges; cbn [v vin]. rewrite (proj2 (Hi a) Ha). reflexivity. }
  assert (G8 : forall a, In a (vnodes v) -> NoDup (adjf cap g 0 a) /\
            forall e, In e (adjf cap g 0 a) <-> e < length (gedges g) /\ GraphQ.src g e = a).
  { intros a Ha. apply in_seq in Ha. destruct (C01_walks nat nat cap g I 0 a) as [_ [Hnd [Hin _]]].
    split; [exact Hnd | apply Hin; unfold N, node_count in Ha; lia]. }
  assert (G9 : forall a, In a (vnodes v) -> NoDup (adjf cap g 1 a) /\
            forall e, In e (adjf cap g 1 a) <-> e < length (gedges g) /\ GraphQ.tgt g e = a).
  { intros a Ha. apply in_seq in Ha. destruct (C01_walks nat nat cap g I 1 a) as [_ [Hnd [Hin _]]].
    split; [exact Hnd | apply Hin; unfold N, node_count in Ha; lia]. }
  assert (G10 : forall e, e < length (gedges g) -> In (GraphQ.src g e) (vnodes v) /\ In (GraphQ.tgt g e) (vnodes v)).
  { intros e He. destruct (gedge_live g (GraphQ.src g e) (GraphQ.tgt g e) I) as [H1 H2].
    - exists e. split; [exact He | split; reflexivity].
    - split; apply in_seq; fold N in H1, H2; lia. }
  assert (Hgen : VWf v /\ forall a b, Reach.step v a b <->
            exists e, e < length (gedges g) /\ GraphQ.src g e = a /\ GraphQ.tgt g e = b).
  { split.
    - apply (gen_vwf v) with (isedge := fun e => e < length (gedges g)) (sr := GraphQ.src g) (tg := GraphQ.tgt g)
                             (outl := adjf cap g 0) (inl := adjf cap g 1); assumption.
    - intros a b.
      apply (gen_step v) with (isedge := fun e => e < length (gedges g)) (sr := GraphQ.src g) (tg := GraphQ.tgt g)
                              (outl := adjf cap g 0); assumption. }
  destruct Hgen as [HW Hst]. split; [exact HW|]. split; [reflexivity|]. split; [reflexivity | exact Hst].
Qed.

(* ------------------------------------------------------------------ *)
(* the empty graph                                                     *)

Lemma g_empty_inv : GI g_empty /\ node_count (@g_empty nat nat) = 0 /\ forall a b, ~ gedge (@g_empty nat nat) a b.
Proof.
  split; [apply (C01_inv_empty nat nat cap)|]. split; [reflexivity|].
  intros a b [e [He _]]. cbn [g_empty gedges length] in He. lia.
Qed.

(* ------------------------------------------------------------------ *)
(* mutations                                                           *)

Definition roomN (g : Gr) : Prop := capcheck = true \/ length (gnodes g) < cap.
Definition roomE (g : Gr) : Prop := capcheck = true \/ length (gedges g) < cap.

Lemma G_add_node (g : Gr) w n g' : GI g -> roomN g ->
  lift_idx (try_add_node cap capcheck g w) = Ok (n, g') ->
  GI g' /\ n = node_count g /\ node_count g' = S (node_count g) /\
  length (gedges g') = length (gedges g) /\
  (forall a b, gedge g' a b <-> gedge g a b).
Proof.
  intros I Hroom E. destruct (C01_inv_add_node nat nat cap capcheck g w I) as [Hlim Hok].
  pose proof (gi_ncap I) as Hc.
  destruct (Nat.eq_dec (length (gnodes g)) cap) as [Heq|Hne].
  - destruct Hroom as [Hcc|Hlt]; [|lia]. rewrite (Hlim Hcc Heq) in E. discriminate E.
  - destruct Hok as [g2 [E2 [I2 [Hn [He Ha]]]]]; [lia|]. rewrite E2 in E. cbn [lift_idx] in E.
    injection E as <- <-. split; [exact I2|]. split; [reflexivity|]. split.
    + unfold node_count. apply (f_equal (@length nat)) in Hn. rewrite app_length, !map_length in Hn.
      cbn [length] in Hn. lia.
    + split; [rewrite He; reflexivity|]. intros a b. apply gedge_same_edges, He.
Qed.

Lemma G_add_edge (g : Gr) a b w e g' : GI g -> roomE g ->
  lift_idx (try_add_edge cap capcheck g a b w) = Ok (e, g') ->
  GI g' /\ node_count g' = node_count g /\ a < node_count g /\ b < node_count g /\
  length (gedges g') = S (length (gedges g)) /\
  (forall x y, gedge g' x y <-> gedge g x y \/ (x = a /\ y = b)).
Proof.
  intros I Hroom E. destruct (C01_inv_add_edge nat nat cap capcheck g a b w I) as [Hlim [Hoob Hok]].
  pose proof (gi_ecap I) as Hc.
  destruct (Nat.eq_dec (length (gedges g)) cap) as [Heq|Hne].
  { destruct Hroom as [Hcc|Hlt]; [|lia]. rewrite (Hlim Hcc Heq) in E. discriminate E. }
  assert (Hlt : length (gedges g) < cap) by lia.
  destruct (Nat.lt_ge_cases a (length (gnodes g))) as [Ha|Ha];
    [|rewrite (Hoob Hlt (or_introl Ha)) in E; discriminate E].
  destruct (Nat.lt_ge_cases b (length (gnodes g))) as [Hb|Hb];
    [|rewrite (Hoob Hlt (or_intror Hb)) in E; discriminate E].
  destruct (Hok Hlt Ha Hb) as [g2 [E2 [I2 [Hn [He _]]]]]. rewrite E2 in E. cbn [lift_idx] in E.
  injection E as <- <-. split; [exact I2|]. split.
  { unfold node_count. apply (f_equal (@length nat)) in Hn. rewrite !map_length in Hn. exact Hn. }
  split; [exact Ha|]. split; [exact Hb|]. split.
  { apply (f_equal (@length _)) in He. unfold etrip in He. rewrite app_length, !map_length in He.
    cbn [length] in He. lia. }
  intros x y. rewrite !gedge_etrip. split.
  - intros [w0 Hw]. rewrite He in Hw. apply in_app_or in Hw. destruct Hw as [Hw|[Hw|[]]].
    + left; exists w0; exact Hw.
    + right. injection Hw as <- <- _. split; reflexivity.
  - intros [[w0 Hw]|[-> ->]].
    + exists w0. rewrite He. apply in_or_app; left; exact Hw.
    + exists w. rewrite He. apply in_or_app; right; left; reflexivity.
Qed.

Lemma ept_enode (g g' : Gr) : map (@enode nat) (gedges g') = map (@enode nat) (gedges g) ->
  length (gedges g') = length (gedges g) /\ forall k e, ept g' k e = ept g k e.
Proof.
  intros E. split; [apply (map_eq_length _ _ _ E)|]. intros k e. unfold ept.
  assert (H : nth_error (map (@enode nat) (gedges g')) e = nth_error (map (@enode nat) (gedges g)) e) by (rewrite E; reflexivity).
  rewrite !nth_error_map in H.
  destruct (nth_error (gedges g') e) as [ed'|], (nth_error (gedges g) e) as [ed|]; cbn [option_map] in H;
    try discriminate H; [injection H as ->; reflexivity | reflexivity].
Qed.

Lemma G_update_edge (g : Gr) a b w r e g' : GI g -> roomE g ->
  try_update_edge cap capcheck true g a b w = Ok r -> lift_idx r = Ok (e, g') ->
  GI g' /\ node_count g' = node_count g /\ a < node_count g /\ b < node_count g /\
  length (gedges g') <= S (length (gedges g)) /\
  (forall x y, gedge g' x y <-> gedge g x y \/ (x = a /\ y = b)).
Proof.
  intros I Hroom Eu El. destruct (C01_update_edge nat nat cap capcheck true g a b w I) as [o [Ef Ho]].
  destruct o as [ix|].
  - destruct Ho as [Hix [g2 [Es Eu2]]]. rewrite Eu2 in Eu. injection Eu as <-. cbn [lift_idx] in El.
    injection El as <- <-.
    destruct (C01_set_weights nat nat cap g I) as [Hsw _]. destruct (Hsw ix w) as [_ Hsw2].
    destruct (Hsw2 Hix) as [g3 [Es3 [I3 [Hn3 [Hen3 _]]]]]. rewrite Es in Es3. injection Es3 as <-.
    destruct (ept_enode g g2 Hen3) as [Hlen Hept].
    (* the edge found joins a to b *)
    destruct (C01_find_edge nat nat cap g I a b) as [Efd _]. rewrite Ef in Efd. injection Efd as Efd.
    symmetry in Efd. apply find_some in Efd. destruct Efd as [Hin Htg]. apply Nat.eqb_eq in Htg.
    assert (Ha : a < length (gnodes g)).
    { destruct (Nat.lt_ge_cases a (length (gnodes g))) as [H|H]; [exact H|].
      destruct (C01_walks nat nat cap g I 0 a) as [_ [_ [_ Hnil]]]. rewrite (Hnil H) in Hin. destruct Hin. }
    destruct (C01_walks nat nat cap g I 0 a) as [_ [_ [Hchar _]]]. apply (Hchar Ha) in Hin. destruct Hin as [_ Hsr].
    assert (Hab : gedge g a b) by (exists ix; split; [exact Hix | split; [exact Hsr | exact Htg]]).
    destruct (gedge_live g a b I Hab) as [_ Hb].
    split; [exact I3|]. split; [unfold node_count; rewrite Hn3; reflexivity|]. split; [exact Ha|].
    split; [exact Hb|]. split; [lia|].
    intros x y. assert (Hsame : gedge g2 x y <-> gedge g x y).
    { unfold gedge, GraphQ.src, GraphQ.tgt. rewrite Hlen. split; intros [e0 [H1 [H2 H3]]]; exists e0;
        rewrite ?Hept in *; (split; [exact H1 | split; [rewrite <- ?Hept; try exact H2; rewrite Hept; exact H2 | rewrite <- ?Hept; try exact H3; rewrite Hept; exact H3]]). }
    rewrite Hsame. split; [intros H; left; exact H | intros [H|[-> ->]]; [exact H | exact Hab]].
  - rewrite Ho in Eu. injection Eu as <-.
    destruct (G_add_edge g a b w e g' I Hroom El) as [I2 [Hn [Ha [Hb [Hl He]]]]].
    split; [exact I2|]. split; [exact Hn|]. split; [exact Ha|]. split; [exact Hb|]. split; [lia | exact He].
Qed.

Lemma G_remove_edge (g : Gr) e r g' : GI g -> remove_edge debug g e = Ok (r, g') ->
  GI g' /\ node_count g' = node_count g /\ length (gedges g') <= length (gedges g) /\
  (forall x y, gedge g' x y -> gedge g x y).
Proof.
  intros I E. destruct (C01_remove_edge nat nat cap debug g e I) as [Hoob Hok].
  destruct (Nat.lt_ge_cases e (length (gedges g))) as [He|He].
  - destruct (Hok He) as [ed [g2 [_ [E2 [I2 [Hn [Het [Hl _]]]]]]]]. rewrite E2 in E. injection E as _ <-.
    split; [exact I2|]. split.
    { unfold node_count. apply (f_equal (@length nat)) in Hn. rewrite !map_length in Hn. exact Hn. }
    split; [lia|]. apply gedge_same_etrip. intros x Hx. rewrite Het in Hx. eapply swap_remove_In; exact Hx.
  - rewrite (Hoob He) in E. injection E as _ <-. split; [exact I|]. split; [reflexivity|]. split; [lia|].
    intros x y H; exact H.
Qed.

Lemma G_remove_node (g : Gr) a r g' : GI g -> a < node_count g ->
  remove_node cap debug g a = Ok (r, g') ->
  GI g' /\ node_count g' = node_count g - 1 /\ length (gedges g') <= length (gedges g) /\
  (forall x y, gedge g' x y -> exists x0 y0, gedge g x0 y0 /\ x0 <> a /\ y0 <> a /\
                   x = ren (node_count g - 1) a x0 /\ y = ren (node_count g - 1) a y0).
Proof.
  intros I Ha E. destruct (C01_remove_node nat nat cap debug g a I) as [_ Hok].
  destruct (Hok Ha) as [n [g2 [_ [E2 [I2 [Hn Hp]]]]]]. rewrite E2 in E. injection E as _ <-.
  split; [exact I2|]. split.
  { unfold node_count. apply (f_equal (@length nat)) in Hn. rewrite map_length in Hn. rewrite Hn.
    rewrite swap_remove_length by (rewrite map_length; exact Ha). rewrite map_length. reflexivity. }
  split.
  { apply Permutation_length in Hp. unfold etrip in Hp. rewrite !map_length in Hp.
    pose proof (TravBase.filter_length_le (not_inc a) (map (@etr nat) (gedges g))) as Hf. rewrite map_length in Hf.
    unfold etrip in Hp. lia. }
  intros x y Hxy. apply gedge_etrip in Hxy. destruct Hxy as [w Hw].
  apply (Permutation_in _ Hp) in Hw. apply in_map_iff in Hw. destruct Hw as [[[x0 y0] w0] [Er Hf]].
  apply filter_In in Hf. destruct Hf as [Hin Hni]. unfold not_inc in Hni. cbn [fst snd] in Hni.
  apply andb_true_iff in Hni. destruct Hni as [H1 H2]. apply negb_true_iff, Nat.eqb_neq in H1.
  apply negb_true_iff, Nat.eqb_neq in H2. unfold ren_trip in Er. cbn [fst snd] in Er. injection Er as <- <- _.
  exists x0, y0. split; [apply gedge_etrip; exists w0; exact Hin|]. repeat split; assumption.
Qed.

End G.
