(* The rank bound of union by rank, for Props/C19b.v: in every reachable state a
   root of rank k has at least 2^k members, so every rank is at most log2 of the
   number of elements — the u8 rank of src/unionfind.rs cannot overflow.  This
   turns the former modelling assumption "rank: u8 cannot overflow" into a theorem. *)
From Coq Require Import Lia PeanoNat.
From PG Require Import Lib.ListArr Model.UnionFindM Spec.Partition Proofs.UnionFindP Proofs.UnionFindH.

(* Every root r owns a duplicate-free list of members of its class of length >= 2^rank r. *)
Definition RKp (p rk : list nat) : Prop :=
  forall r, nth_error p r = Some r ->
    exists l, NoDup l /\ (forall x, In x l -> rootof p x r) /\ 2 ^ nth r rk 0 <= length l.

Definition RK (u : uf) : Prop := RKp (parent u) (rank u).

Lemma NoDup_app_disj {A} (l1 l2 : list A) :
  NoDup l1 -> NoDup l2 -> (forall x, In x l1 -> ~ In x l2) -> NoDup (l1 ++ l2).
Proof.
  induction 1 as [|a l1 Ha Hd IH]; intros H2 D; simpl; [exact H2|].
  constructor.
  - rewrite in_app_iff. intros [H|H]; [contradiction|]. apply (D a (or_introl eq_refl) H).
  - apply IH; [exact H2|]. intros x Hx. apply D. right; exact Hx.
Qed.

Lemma nodup_bounded_length (l : list nat) n :
  NoDup l -> (forall x, In x l -> x < n) -> length l <= n.
Proof.
  intros Hd Hb. rewrite <- (seq_length n 0). apply NoDup_incl_length; [exact Hd|].
  intros x Hx. apply in_seq. specialize (Hb x Hx). lia.
Qed.

(* --- the initial state and new_set --- *)

Lemma rk_new n : RK (uf_new n).
Proof.
  intros r Hr. simpl in *. exists [r].
  assert (Hl : r < n).
  { assert (H : nth_error (seq 0 n) r <> None) by congruence.
    apply nth_error_Some in H. rewrite seq_length in H. exact H. }
  split; [repeat constructor; simpl; tauto|]. split.
  - intros x [<-|[]]. constructor. exact Hr.
  - simpl. replace (nth r (repeat 0 n) 0) with 0; [simpl; lia|].
    symmetry. apply nth_repeat.
Qed.

Lemma rk_new_set u : WF u -> RK u -> RK (snd (new_set u)).
Proof.
  intros I K r Hr. unfold new_set, RK, uf_len in *; simpl in *.
  destruct (Nat.lt_ge_cases r (length (parent u))) as [Hlt|Hge].
  - rewrite nth_error_app1 in Hr by exact Hlt.
    destruct (K r Hr) as [l [Hd [Hm Hs]]]. exists l. split; [exact Hd|]. split.
    + intros x Hx. apply (rootof_snoc I). left. apply Hm. exact Hx.
    + rewrite app_nth1 by (rewrite (ui_len I); exact Hlt). exact Hs.
  - assert (r = length (parent u)).
    { assert (H : nth_error (parent u ++ [length (parent u)]) r <> None) by congruence.
      apply nth_error_Some in H. rewrite app_length in H. simpl in H. lia. }
    subst r. exists [length (parent u)].
    split; [repeat constructor; simpl; tauto|]. split.
    + intros x [<-|[]]. apply (rootof_snoc I). right. split; reflexivity.
    + rewrite app_nth2 by (rewrite (ui_len I); lia).
      rewrite (ui_len I), Nat.sub_diag. simpl. lia.
Qed.

(* --- path compression: the classes and ranks stay, so do the witnesses --- *)

Lemma rk_compress u u' :
  WF u -> uf_len u' = uf_len u -> roots_pres (parent u) (parent u') -> rank u' = rank u ->
  RK u -> RK u'.
Proof.
  intros I L R E K r Hr. unfold RK, uf_len in *. rewrite E.
  assert (Hlt : r < length (parent u)).
  { rewrite <- L. apply nth_error_Some. congruence. }
  destruct (rootof_total I Hlt) as [r0 H0].
  assert (r = r0).
  { apply (@rootof_det (parent u') r); [constructor; exact Hr|apply R; exact H0]. }
  subst r0.
  destruct (K r (rootof_root H0)) as [l [Hd [Hm Hs]]].
  exists l. split; [exact Hd|]. split; [|exact Hs].
  intros x Hx. apply R. apply Hm. exact Hx.
Qed.

(* --- linking the root [lose] under the root [keep] --- *)

Lemma rk_link p rk rk' keep lose :
  RKp p rk -> nth_error p keep = Some keep -> nth_error p lose = Some lose -> keep <> lose ->
  (forall i, i <> keep -> nth i rk' 0 = nth i rk 0) ->
  2 ^ nth keep rk' 0 <= 2 ^ nth keep rk 0 + 2 ^ nth lose rk 0 ->
  RKp (upd p lose keep) rk'.
Proof.
  intros K Hk Hl Hne Hother Hrank r Hr.
  assert (Hll : lose < length p) by (eapply nth_error_Some_lt; eauto).
  assert (r <> lose).
  { intros ->. rewrite nth_error_upd_eq in Hr by exact Hll. congruence. }
  rewrite nth_error_upd_neq in Hr by congruence.
  assert (Lift : forall z rz, rootof p z rz ->
            rootof (upd p lose keep) z (if Nat.eqb rz lose then keep else rz)).
  { intros z rz Hz. apply link_roots; auto. }
  destruct (Nat.eq_dec r keep) as [->|Hrk].
  - destruct (K keep Hk) as [l1 [Hd1 [Hm1 Hs1]]].
    destruct (K lose Hl) as [l2 [Hd2 [Hm2 Hs2]]].
    exists (l1 ++ l2). split; [|split].
    + apply NoDup_app_disj; auto. intros x H1 H2. apply Hne.
      apply (@rootof_det p x); auto.
    + intros x Hx. apply in_app_or in Hx. destruct Hx as [Hx|Hx].
      * specialize (Lift x keep (Hm1 x Hx)).
        destruct (Nat.eqb_spec keep lose); [contradiction|exact Lift].
      * specialize (Lift x lose (Hm2 x Hx)). rewrite Nat.eqb_refl in Lift. exact Lift.
    + rewrite app_length. lia.
  - destruct (K r Hr) as [l [Hd [Hm Hs]]]. exists l. split; [exact Hd|]. split.
    + intros x Hx. specialize (Lift x r (Hm x Hx)).
      destruct (Nat.eqb_spec r lose); [contradiction|exact Lift].
    + rewrite (Hother r Hrk). exact Hs.
Qed.

(* --- try_union --- *)

Lemma try_union_rk u x y r u' : WF u -> RK u -> try_union u x y = Ok (r, u') -> RK u'.
Proof.
  intros I K. unfold try_union.
  destruct (Nat.eqb_spec x y) as [->|Hxy]; [intros [= _ <-]; exact K|].
  destruct (try_find_mut_spec x I) as [[Hx E]|[Hx [rx [u1 [Hrx [E [I1 [K1 [L1 R1]]]]]]]]]; rewrite E; simpl.
  { intros [= _ <-]; exact K. }
  assert (RK1 : RK u1) by exact (rk_compress u u1 I L1 R1 K1 K).
  destruct (try_find_mut_spec y I1) as [[Hy E2]|[Hy [ry [u2 [Hry [E2 [I2 [K2 [L2 R2]]]]]]]]]; rewrite E2; simpl.
  { intros [= _ <-]; exact RK1. }
  assert (RK2 : RK u2) by exact (rk_compress u1 u2 I1 L2 R2 K2 RK1).
  assert (Hrx2 : rootof (parent u2) x rx) by auto.
  destruct (Nat.eqb_spec rx ry) as [->|Hne]; [intros [= _ <-]; exact RK2|].
  assert (Hrxx : nth_error (parent u2) rx = Some rx) by (eapply rootof_root; eauto).
  assert (Hryy : nth_error (parent u2) ry = Some ry) by (eapply rootof_root; eauto).
  destruct (nth_error (rank u2) rx) as [xk|] eqn:Hxk; [|discriminate].
  destruct (nth_error (rank u2) ry) as [yk|] eqn:Hyk; [|discriminate].
  pose proof (nth_error_nth_default _ _ 0 Hxk) as Nx.
  pose proof (nth_error_nth_default _ _ 0 Hyk) as Ny.
  destruct (Nat.ltb_spec xk yk) as [Hlt|Hge].
  { intros [= _ <-]. unfold RK; simpl.
    apply (@rk_link (parent u2) (rank u2) (rank u2) ry rx); auto. apply Nat.le_add_r. }
  destruct (Nat.ltb_spec yk xk) as [Hlt|Hge2].
  { intros [= _ <-]. unfold RK; simpl.
    apply (@rk_link (parent u2) (rank u2) (rank u2) rx ry); auto. apply Nat.le_add_r. }
  intros [= _ <-]. unfold RK; simpl.
  apply (@rk_link (parent u2) (rank u2) (upd (rank u2) rx (S xk)) rx ry); auto.
  - intros i Hi. apply nth_upd_other. congruence.
  - assert (Hrxl : rx < length (rank u2)) by (eapply nth_error_Some_lt; eauto).
    rewrite nth_upd. rewrite Nat.eqb_refl. simpl.
    destruct (Nat.ltb_spec rx (length (rank u2))); [|lia].
    rewrite Nx, Ny. assert (Exy : yk = xk) by (clear - Hge Hge2; lia). rewrite Exy.
    rewrite Nat.pow_succ_r'. generalize (2 ^ xk). intros m. lia.
Qed.

(* --- every operation, every history --- *)

Lemma step_rk u o : WF u -> RK u -> RK (fst (step u o)).
Proof.
  intros I K.
  destruct o as [|x|x|x|x|x y|x y|x y|x y| | |]; simpl; try exact K.
  - exact (rk_new_set u I K).
  - destruct (find_mut_spec x I) as [[_ E]|[_ [r [u' [_ [E [_ [Er [L R]]]]]]]]]; rewrite E; simpl; [exact K|].
    exact (rk_compress u u' I L R Er K).
  - destruct (try_find_mut_spec x I) as [[_ E]|[_ [r [u' [_ [E [_ [Er [L R]]]]]]]]]; rewrite E; simpl; [exact K|].
    exact (rk_compress u u' I L R Er K).
  - unfold union. destruct (try_union u x y) as [[[b|k] u']| |] eqn:E; simpl; try exact K;
      eapply try_union_rk; eauto.
  - destruct (try_union u x y) as [[r u']| |] eqn:E; simpl; try exact K.
    eapply try_union_rk; eauto.
Qed.

Lemma run_rk ops : forall u s, Abs u s -> RK u -> RK (fst (run u ops)).
Proof.
  induction ops as [|o ops IH]; intros u s A K; simpl; [exact K|].
  pose proof (step_abs o A) as A'. pose proof (step_rk u o (proj1 A) K) as K'.
  destruct (step u o) as [u1 v]. simpl in A', K'.
  specialize (IH u1 _ A' K').
  destruct (run u1 ops) as [u2 vs]. exact IH.
Qed.

Lemma final_rk n0 ops : WF (final n0 ops) /\ RK (final n0 ops).
Proof.
  split.
  - exact (proj1 (run_abs ops (abs_new n0))).
  - exact (run_rk ops _ _ (abs_new n0) (rk_new n0)).
Qed.

(* 2^rank x <= number of elements, for every element of every reachable state. *)
Lemma rank_pow_le_len n0 ops x :
  x < uf_len (final n0 ops) -> 2 ^ nth x (rank (final n0 ops)) 0 <= uf_len (final n0 ops).
Proof.
  intros Hx. destruct (final_rk n0 ops) as [I K]. unfold uf_len in *.
  destruct (rootof_total I Hx) as [r Hr].
  destruct (K r (rootof_root Hr)) as [l [Hd [Hm Hs]]].
  assert (Hl : length l <= length (parent (final n0 ops))).
  { apply nodup_bounded_length; [exact Hd|]. intros z Hz. exact (rootof_lt (Hm z Hz)). }
  pose proof (rank_le_root I Hr) as Hle.
  pose proof (Nat.pow_le_mono_r 2 _ _ ltac:(lia) Hle). lia.
Qed.

Lemma rank_le_log2 n0 ops x :
  x < uf_len (final n0 ops) -> nth x (rank (final n0 ops)) 0 <= Nat.log2 (uf_len (final n0 ops)).
Proof.
  intros Hx. pose proof (rank_pow_le_len n0 ops x Hx) as H.
  rewrite <- (Nat.log2_pow2 (nth x (rank (final n0 ops)) 0)) by lia.
  apply Nat.log2_le_mono. exact H.
Qed.

(* The class of a root of rank k has at least 2^k members (the witness itself). *)
Lemma root_class_size n0 ops r :
  nth_error (parent (final n0 ops)) r = Some r ->
  exists l, NoDup l /\ (forall x, In x l -> rootof (parent (final n0 ops)) x r) /\
            2 ^ nth r (rank (final n0 ops)) 0 <= length l.
Proof. intros Hr. exact (proj2 (final_rk n0 ops) r Hr). Qed.
