(* C20: all_simple_paths (Model/MiscM.v) returns exactly the simple paths from -> to within the
   bounds on the number of intermediate nodes, each once when the graph has no parallel edges.
   Partial correctness: whatever the fuel, an `Ok` result is right.
   1. the loop invariant: asp_loop emits rev acc ++ (reference enumeration of the stack);
   2. the reference enumeration (Spec/MiscSpec.v: paths_from) lists the simple paths;
   3. it lists each once when no_parallel. *)
From PG Require Import Lib.Io Model.View Model.MiscM Spec.Reach Spec.MiscSpec.
Set Implicit Arguments.

(* ------------------------------------------------------------------ *)
(* Lists                                                               *)

Lemma last_default (A : Type) (l : list A) : forall x d d', last (x :: l) d = last (x :: l) d'.
Proof.
  induction l as [|y t IH]; intros x d d'; [reflexivity|].
  change (last (y :: t) d = last (y :: t) d'). apply IH.
Qed.

Lemma NoDup_app_intro (A : Type) (l1 l2 : list A) :
  NoDup l1 -> NoDup l2 -> (forall x, In x l1 -> ~ In x l2) -> NoDup (l1 ++ l2).
Proof.
  induction l1 as [|a t IH]; intros H1 H2 Hd; [exact H2|].
  inversion H1 as [|a' t' Ha Ht]; subst. cbn [app]. constructor.
  - rewrite in_app_iff. intros [Hin|Hin]; [exact (Ha Hin)|].
    apply (Hd a); [left; reflexivity | exact Hin].
  - apply IH; [exact Ht | exact H2 |]. intros x Hx. apply Hd. right; exact Hx.
Qed.

(* pieces without repetition whose elements determine the piece *)
Lemma NoDup_flat_map_keyed (A B : Type) (f : A -> list B) (l : list A) :
  NoDup l -> (forall x, In x l -> NoDup (f x)) ->
  (forall x y z, In z (f x) -> In z (f y) -> x = y) -> NoDup (flat_map f l).
Proof.
  induction l as [|a t IH]; intros Hl Hf Hk; cbn [flat_map]; [constructor|].
  inversion Hl as [|a' t' Ha Ht]; subst.
  apply NoDup_app_intro.
  - apply Hf; left; reflexivity.
  - apply IH; [exact Ht | intros x Hx; apply Hf; right; exact Hx | exact Hk].
  - intros z Hz Hz'. apply in_flat_map in Hz'. destruct Hz' as [y [Hy Hzy]].
    assert (E : a = y) by (apply (Hk a y z); assumption).
    subst y. exact (Ha Hy).
Qed.

(* ------------------------------------------------------------------ *)
(* 1. The loop invariant                                               *)

Section Loop.
Variables (v : view) (to min_len : nat).

Lemma paths_from_S d visited c :
  paths_from v to min_len (S d) visited c =
  if Nat.eqb c to then (if Nat.leb min_len (length visited) then [visited ++ [to]] else [])
  else if mem c visited then []
       else flat_map (paths_from v to min_len d (visited ++ [c])) (neighbors v c).
Proof. reflexivity. Qed.

Lemma paths_from_0 visited c :
  paths_from v to min_len 0 visited c =
  if Nat.eqb c to then (if Nat.leb min_len (length visited) then [visited ++ [to]] else []) else [].
Proof. reflexivity. Qed.

Lemma paths_from_to d visited :
  paths_from v to min_len d visited to =
  if Nat.leb min_len (length visited) then [visited ++ [to]] else [].
Proof. destruct d; [rewrite paths_from_0 | rewrite paths_from_S]; rewrite Nat.eqb_refl; reflexivity. Qed.

(* at the length limit a level only yields its occurrences of `to` *)
Lemma limit_drop_some visited : forall more rest,
  drop_until to more = Some rest ->
  flat_map (paths_from v to min_len 0 visited) more =
  paths_from v to min_len 0 visited to ++ flat_map (paths_from v to min_len 0 visited) rest.
Proof.
  induction more as [|h t IH]; intros rest H; cbn [drop_until] in H; [discriminate H|].
  cbn [flat_map]. destruct (Nat.eqb_spec h to) as [E|E].
  - inversion H; subst. reflexivity.
  - rewrite (IH _ H). rewrite (paths_from_0 visited h).
    destruct (Nat.eqb_spec h to) as [E'|_]; [contradiction|]. reflexivity.
Qed.

Lemma limit_drop_none visited : forall more,
  drop_until to more = None -> flat_map (paths_from v to min_len 0 visited) more = [].
Proof.
  induction more as [|h t IH]; intros H; cbn [drop_until] in H; [reflexivity|].
  cbn [flat_map]. destruct (Nat.eqb_spec h to) as [E|E]; [discriminate H|].
  rewrite (IH H), (paths_from_0 visited h).
  destruct (Nat.eqb_spec h to) as [E'|_]; [contradiction|]. reflexivity.
Qed.

Lemma limit_too_short visited : Nat.leb min_len (length visited) = false ->
  forall l, flat_map (paths_from v to min_len 0 visited) l = [].
Proof.
  intros Hmin. induction l as [|h t IH]; [reflexivity|].
  cbn [flat_map]. rewrite IH, paths_from_0, Hmin. destruct (Nat.eqb h to); reflexivity.
Qed.

(* The loop invariant: from any state, for any fuel, a result is the accumulator followed by the
   reference enumeration of what is left on the stack.  No well-formedness is needed. *)
Lemma asp_loop_inv max_len : forall fuel visited stack acc r,
  asp_loop fuel v to min_len max_len visited stack acc = Ok r ->
  r = rev acc ++ enum_stack v to min_len max_len visited stack.
Proof.
  induction fuel as [|f IH]; intros visited stack acc r H; [discriminate H|].
  cbn [asp_loop] in H.
  destruct stack as [|[|child more] up].
  - inversion H. cbn [enum_stack]. rewrite app_nil_r. reflexivity.
  - apply IH in H. cbn [enum_stack flat_map app]. exact H.
  - cbn [enum_stack flat_map].
    destruct (Nat.ltb (length visited) max_len) eqn:Hlt.
    + apply Nat.ltb_lt in Hlt.
      destruct (max_len - length visited) as [|d'] eqn:Hd; [lia|].
      assert (Hd' : max_len - length (visited ++ [child]) = d')
        by (rewrite app_length; cbn [length]; lia).
      rewrite (paths_from_S d' visited child).
      destruct (Nat.eqb child to) eqn:Hct.
      * apply IH in H. cbn [enum_stack] in H. rewrite Hd in H. subst r.
        destruct (Nat.leb min_len (length visited)); cbn [rev app].
        -- rewrite <- !app_assoc. reflexivity.
        -- reflexivity.
      * destruct (mem child visited) eqn:Hmem; cbn [negb] in H.
        -- apply IH in H. cbn [enum_stack] in H. rewrite Hd in H. subst r. reflexivity.
        -- apply IH in H. cbn [enum_stack] in H.
           rewrite removelast_last, Hd', Hd in H. subst r.
           rewrite <- !app_assoc. reflexivity.
    + apply Nat.ltb_ge in Hlt.
      replace (max_len - length visited) with 0 by lia.
      assert (Hafter : forall rest,
                 (if Nat.eqb child to then Some more else drop_until to more) = Some rest ->
                 paths_from v to min_len 0 visited child
                   ++ flat_map (paths_from v to min_len 0 visited) more
                 = paths_from v to min_len 0 visited to
                   ++ flat_map (paths_from v to min_len 0 visited) rest).
      { intros rest Hr. destruct (Nat.eqb_spec child to) as [E|E].
        - inversion Hr; subst. reflexivity.
        - rewrite (limit_drop_some visited more Hr), (paths_from_0 visited child).
          destruct (Nat.eqb_spec child to) as [E'|_]; [contradiction|]. reflexivity. }
      destruct (if Nat.eqb child to then Some more else drop_until to more) as [rest|] eqn:Haf.
      * rewrite (Hafter rest eq_refl), paths_from_to.
        destruct (Nat.leb min_len (length visited)) eqn:Hmin.
        -- apply IH in H. cbn [enum_stack] in H.
           replace (max_len - length visited) with 0 in H by lia. subst r.
           cbn [rev]. rewrite <- !app_assoc. reflexivity.
        -- apply IH in H. subst r. rewrite (limit_too_short visited Hmin). reflexivity.
      * apply IH in H. subst r.
        destruct (Nat.eqb_spec child to) as [E|E]; [discriminate Haf|].
        rewrite (limit_drop_none visited more Haf), (paths_from_0 visited child).
        destruct (Nat.eqb_spec child to) as [E'|_]; [contradiction|]. reflexivity.
Qed.

End Loop.

(* what all_simple_paths computes, in terms of the reference enumeration *)
Lemma all_simple_paths_enum v from to min_i max_i debug ps :
  all_simple_paths v from to min_i max_i debug = Ok ps ->
  (max_i = None /\ vnodes v = [] /\ ps = []) \/
  ((max_i = None -> vnodes v <> []) /\
   ps = flat_map (paths_from v to (S min_i)
                    (match max_i with Some l => l | None => length (vnodes v) - 2 end) [from])
                 (neighbors v from)).
Proof.
  unfold all_simple_paths. generalize (600 * 600). intros fuel H.
  destruct max_i as [l|].
  - right. split; [discriminate|].
    apply asp_loop_inv in H. cbn [rev app enum_stack length] in H.
    rewrite app_nil_r in H. replace (S l - 1) with l in H by lia. exact H.
  - destruct (vnodes v) as [|a t] eqn:Hn; cbn [length] in H.
    + left. destruct debug; [discriminate H|]. inversion H. auto.
    + right. split; [intros _; discriminate|].
      apply asp_loop_inv in H. cbn [rev app enum_stack length] in H.
      rewrite app_nil_r in H.
      replace (S (length t) - 1 - 1) with (length (a :: t) - 2) in H by (cbn [length]; lia).
      exact H.
Qed.

(* ------------------------------------------------------------------ *)
(* 2. The reference enumeration lists the simple paths                 *)

Section Enum.
Variables (v : view) (to min_len : nat).

(* c :: q is a walk that ends in `to` *)
Fixpoint rpath (c : nat) (q : list nat) : Prop :=
  match q with [] => c = to | c' :: q' => step v c c' /\ rpath c' q' end.

(* the run of paths_from that emits visited ++ c :: q, unfolded *)
Fixpoint good (d : nat) (visited : list nat) (c : nat) (q : list nat) {struct q} : Prop :=
  match q with
  | [] => c = to
  | c' :: q' => c <> to /\ ~ In c visited /\ step v c c' /\
                match d with 0 => False | S d' => good d' (visited ++ [c]) c' q' end
  end.

Lemma paths_from_good : forall d visited c p,
  In p (paths_from v to min_len d visited c) <->
  exists q, p = visited ++ c :: q /\ good d visited c q /\ min_len <= length visited + length q.
Proof.
  induction d as [|d IH]; intros visited c p.
  - rewrite paths_from_0. destruct (Nat.eqb_spec c to) as [E|E].
    + subst c. destruct (Nat.leb_spec min_len (length visited)) as [Hm|Hm]; split.
      * intros [Hp|[]]. exists []. cbn [good length]. repeat split; [auto | lia].
      * intros [[|c' q'] [Hp [Hg Hl]]]; [left; auto|]. destruct Hg as [Hne _]. contradiction.
      * intros [].
      * intros [[|c' q'] [Hp [Hg Hl]]]; [cbn [length] in Hl; lia|]. destruct Hg as [Hne _]. contradiction.
    + split; [intros []|]. intros [[|c' q'] [Hp [Hg Hl]]]; cbn [good] in Hg; [contradiction|].
      destruct Hg as (_ & _ & _ & F). exact F.
  - rewrite paths_from_S. destruct (Nat.eqb_spec c to) as [E|E].
    + subst c. destruct (Nat.leb_spec min_len (length visited)) as [Hm|Hm]; split.
      * intros [Hp|[]]. exists []. cbn [good length]. repeat split; [auto | lia].
      * intros [[|c' q'] [Hp [Hg Hl]]]; [left; auto|]. destruct Hg as [Hne _]. contradiction.
      * intros [].
      * intros [[|c' q'] [Hp [Hg Hl]]]; [cbn [length] in Hl; lia|]. destruct Hg as [Hne _]. contradiction.
    + destruct (mem c visited) eqn:Hmem.
      * split; [intros []|]. intros [[|c' q'] [Hp [Hg Hl]]]; cbn [good] in Hg; [contradiction|].
        destruct Hg as (_ & Hnin & _). apply mem_In in Hmem. contradiction.
      * apply mem_false in Hmem. rewrite in_flat_map. split.
        -- intros [c' [Hc' Hp]]. apply IH in Hp. destruct Hp as [q' [Hp [Hg Hl]]].
           exists (c' :: q'). split; [rewrite Hp, <- app_assoc; reflexivity|].
           split; [cbn [good]; auto|].
           rewrite app_length in Hl. cbn [length] in *. lia.
        -- intros [[|c' q'] [Hp [Hg Hl]]]; cbn [good] in Hg; [contradiction|].
           destruct Hg as (_ & _ & Hst & Hg). exists c'. split; [exact Hst|].
           apply IH. exists q'. split; [rewrite Hp, <- app_assoc; reflexivity|].
           split; [exact Hg|]. rewrite app_length. cbn [length] in *. lia.
Qed.

Lemma rpath_In_to : forall q c, rpath c q -> In to (c :: q).
Proof.
  induction q as [|c' q' IH]; intros c H; cbn [rpath] in H.
  - left; exact H.
  - right. apply IH. apply H.
Qed.

Lemma good_iff : forall q d visited c, ~ In to visited ->
  (good d visited c q <->
   rpath c q /\ NoDup (c :: q) /\ (forall x, In x (c :: q) -> ~ In x visited) /\ length q <= d).
Proof.
  induction q as [|c' q' IH]; intros d visited c Hto; cbn [good rpath].
  - split.
    + intros E. subst c. split; [reflexivity|]. split; [constructor; [intros []|constructor]|].
      split; [|cbn [length]; lia]. intros x [Hx|[]]. subst x. exact Hto.
    + intros [E _]. exact E.
  - split.
    + intros (Hne & Hnin & Hst & Hg). destruct d as [|d']; [contradiction|].
      apply IH in Hg; [|rewrite in_app_iff; cbn [In]; intuition congruence].
      destruct Hg as (Hr & Hnd & Hdis & Hlen).
      split; [split; assumption|].
      split; [constructor; [|exact Hnd]|].
      * intros Hin. apply (Hdis c Hin). rewrite in_app_iff. right; left; reflexivity.
      * split; [|cbn [length]; lia].
        intros x [Hx|Hx]; [subst x; exact Hnin|].
        intros Hv. apply (Hdis x Hx). rewrite in_app_iff. left; exact Hv.
    + intros ((Hst & Hr) & Hnd & Hdis & Hlen).
      inversion Hnd as [|c0 l0 Hc Hnd']; subst.
      split; [intros E; subst c; apply Hc, rpath_In_to, Hr|].
      split; [apply Hdis; left; reflexivity|].
      split; [exact Hst|].
      destruct d as [|d']; [cbn [length] in Hlen; lia|].
      apply IH.
      * rewrite in_app_iff. intros [Hin|[E|[]]]; [exact (Hto Hin)|].
        subst c. apply Hc, rpath_In_to, Hr.
      * split; [exact Hr|]. split; [exact Hnd'|]. split; [|cbn [length] in Hlen; lia].
        intros x Hx. rewrite in_app_iff. intros [Hin|[E|[]]].
        -- apply (Hdis x); [right; exact Hx | exact Hin].
        -- subst x. exact (Hc Hx).
Qed.

(* rpath in the vocabulary of SimplePath *)
Lemma rpath_nth : forall q c,
  rpath c q <->
  (last (c :: q) c = to /\
   forall i x y, nth_error (c :: q) i = Some x -> nth_error (c :: q) (S i) = Some y -> step v x y).
Proof.
  induction q as [|c' q' IH]; intros c; cbn [rpath].
  - cbn [last]. split.
    + intros E. split; [exact E|]. intros i x y _ Hy. cbn [nth_error] in Hy.
      destruct i; discriminate Hy.
    + intros [E _]. exact E.
  - rewrite IH. split.
    + intros (Hst & Hl & Hch). split.
      * change (last (c :: c' :: q') c) with (last (c' :: q') c).
        rewrite (last_default q' c' c c'). exact Hl.
      * intros [|i] x y Hx Hy.
        -- cbn [nth_error] in Hx, Hy. inversion Hx; inversion Hy; subst. exact Hst.
        -- apply (Hch i x y); assumption.
    + intros (Hl & Hch). split; [apply (Hch 0 c c'); reflexivity|]. split.
      * change (last (c :: c' :: q') c) with (last (c' :: q') c) in Hl.
        rewrite (last_default q' c' c c') in Hl. exact Hl.
      * intros i x y Hx Hy. apply (Hch (S i) x y); assumption.
Qed.

Lemma SimplePath_rpath from p : from <> to ->
  (SimplePath v from to p <->
   exists c q, p = from :: c :: q /\ step v from c /\ rpath c q /\ NoDup p).
Proof.
  intros Hft. unfold SimplePath. split.
  - intros (Hhd & Hl & Hlen & Hnd & Hch).
    destruct p as [|a q0]; [discriminate Hhd|]. cbn [hd_error] in Hhd. inversion Hhd; subst a.
    assert (Hr : rpath from q0) by (apply rpath_nth; split; assumption).
    destruct q0 as [|c q]; cbn [rpath] in Hr; [contradiction|].
    destruct Hr as [Hst Hr]. exists c, q. auto.
  - intros (c & q & Hp & Hst & Hr & Hnd). subst p.
    assert (Hr' : rpath from (c :: q)) by (split; assumption).
    apply rpath_nth in Hr'. destruct Hr' as [Hl Hch].
    split; [reflexivity|]. split; [exact Hl|]. split; [cbn [length]; lia|]. split; assumption.
Qed.

End Enum.

(* the enumeration started by all_simple_paths *)
Lemma enum_top_iff v from to min_i D p : from <> to ->
  (In p (flat_map (paths_from v to (S min_i) D [from]) (neighbors v from)) <->
   SimplePath v from to p /\ min_i <= inter p /\ inter p <= D).
Proof.
  intros Hft.
  assert (Hto : ~ In to [from]) by (intros [E|[]]; auto).
  rewrite in_flat_map, (SimplePath_rpath v p Hft). split.
  - intros (c & Hst & Hp). apply paths_from_good in Hp. destruct Hp as (q & Hp & Hg & Hl).
    apply good_iff in Hg; [|exact Hto]. destruct Hg as (Hr & Hnd & Hdis & Hlen).
    cbn [app] in Hp. subst p. split.
    + exists c, q. split; [reflexivity|]. split; [exact Hst|]. split; [exact Hr|].
      constructor; [|exact Hnd]. intros Hin. apply (Hdis from Hin). left; reflexivity.
    + unfold inter. cbn [length] in *. lia.
  - intros ((c & q & Hp & Hst & Hr & Hnd) & Hmin & Hmax). subst p.
    unfold inter in Hmin, Hmax. cbn [length] in Hmin, Hmax.
    exists c. split; [exact Hst|]. apply paths_from_good. exists q.
    split; [reflexivity|]. split; [|cbn [length]; lia].
    apply good_iff; [exact Hto|].
    inversion Hnd as [|a l Hnin Hnd']; subst.
    split; [exact Hr|]. split; [exact Hnd'|]. split; [|lia].
    intros x Hx [E|[]]. subst x. exact (Hnin Hx).
Qed.

(* ------------------------------------------------------------------ *)
(* 3. Each path once on a graph without parallel edges                 *)

Lemma paths_from_key v to min_len d visited c p :
  In p (paths_from v to min_len d visited c) -> nth_error p (length visited) = Some c.
Proof.
  intros H. apply paths_from_good in H. destruct H as (q & Hp & _). subst p.
  rewrite nth_error_app2, Nat.sub_diag by lia. reflexivity.
Qed.

Lemma paths_from_NoDup v to min_len : no_parallel v ->
  forall d visited c, NoDup (paths_from v to min_len d visited c).
Proof.
  intros Hnp. induction d as [|d IH]; intros visited c.
  - rewrite paths_from_0.
    destruct (Nat.eqb c to); [|constructor].
    destruct (Nat.leb min_len (length visited)); [|constructor].
    constructor; [intros []|constructor].
  - rewrite paths_from_S.
    destruct (Nat.eqb c to).
    + destruct (Nat.leb min_len (length visited)); [|constructor].
      constructor; [intros []|constructor].
    + destruct (mem c visited); [constructor|].
      apply NoDup_flat_map_keyed.
      * apply Hnp.
      * intros x _. apply IH.
      * intros x y z Hx Hy. apply paths_from_key in Hx, Hy. congruence.
Qed.

Lemma enum_top_NoDup v from to min_len D : no_parallel v ->
  NoDup (flat_map (paths_from v to min_len D [from]) (neighbors v from)).
Proof.
  intros Hnp. apply NoDup_flat_map_keyed.
  - apply Hnp.
  - intros x _. apply paths_from_NoDup. exact Hnp.
  - intros x y z Hx Hy. apply paths_from_key in Hx, Hy. congruence.
Qed.

(* ------------------------------------------------------------------ *)
(* The theorems                                                        *)

(* The only well-formedness used: with the default limit, a view without nodes must not have the
   edge from -> to (release builds return no path for the empty graph).  See
   all_simple_paths_hyp_needed below: the hypothesis cannot be dropped. *)
Theorem all_simple_paths_correct v from to min_i max_i debug ps :
  from <> to ->
  (max_i = None -> vnodes v = [] -> ~ step v from to) ->
  all_simple_paths v from to min_i max_i debug = Ok ps ->
  (forall p, In p ps <->
             (SimplePath v from to p /\ min_i <= inter p /\ inter p <= inter_bound v max_i)) /\
  (no_parallel v -> NoDup ps).
Proof.
  intros Hft Hwf H. apply all_simple_paths_enum in H.
  destruct H as [(Hm & Hn & Hps) | (Hn & Hps)]; subst ps.
  - subst max_i. split; [|intros _; constructor].
    intros p. split; [intros []|]. intros (Hsp & _ & Hmax). exfalso.
    unfold inter_bound in Hmax. rewrite Hn in Hmax. cbn [length] in Hmax.
    apply (SimplePath_rpath v p Hft) in Hsp. destruct Hsp as (c & q & Hp & Hst & Hr & _).
    subst p. unfold inter in Hmax. cbn [length] in Hmax.
    destruct q as [|c' q']; [|cbn [length] in Hmax; lia].
    cbn [rpath] in Hr. subst c. exact (Hwf eq_refl Hn Hst).
  - split.
    + intros p. apply enum_top_iff. exact Hft.
    + apply enum_top_NoDup.
Qed.

(* the same with the usual well-formedness of views *)
Corollary all_simple_paths_correct_nodes_ok v from to min_i max_i debug ps :
  from <> to ->
  (max_i = None -> nodes_ok v) ->
  all_simple_paths v from to min_i max_i debug = Ok ps ->
  (forall p, In p ps <->
             (SimplePath v from to p /\ min_i <= inter p /\ inter p <= inter_bound v max_i)) /\
  (no_parallel v -> NoDup ps).
Proof.
  intros Hft Hok. apply all_simple_paths_correct; [exact Hft|].
  intros Hm Hn Hst. destruct (Hok Hm from to Hst) as [Hin _]. rewrite Hn in Hin. exact Hin.
Qed.

(* the hypothesis on the empty node list is necessary *)
Lemma all_simple_paths_hyp_needed v from to :
  from <> to -> vnodes v = [] -> step v from to ->
  all_simple_paths v from to 0 None false = Ok [] /\
  SimplePath v from to [from; to] /\ 0 <= inter [from; to] /\ inter [from; to] <= inter_bound v None.
Proof.
  intros Hft Hn Hst. unfold all_simple_paths. rewrite Hn. cbn [length].
  split; [reflexivity|]. split; [|unfold inter, inter_bound; cbn [length]; lia].
  apply (SimplePath_rpath v [from; to] Hft). exists to, [].
  split; [reflexivity|]. split; [exact Hst|]. split; [reflexivity|].
  constructor; [intros [E|[]]; auto | constructor; [intros []|constructor]].
Qed.

(* every node of a simple path is a node of the view *)
Lemma SimplePath_incl v a b p : nodes_ok v -> SimplePath v a b p -> incl p (vnodes v).
Proof.
  intros Hok (_ & _ & Hlen & _ & Hch) x Hx.
  apply In_nth_error in Hx. destruct Hx as [i Hi].
  assert (Hil : i < length p) by (apply nth_error_Some; congruence).
  destruct (nth_error p (S i)) as [y|] eqn:Hy.
  - apply (Hok x y). apply (Hch i x y); assumption.
  - apply nth_error_None in Hy.
    destruct i as [|j]; [lia|].
    destruct (nth_error p j) as [w|] eqn:Hw.
    + apply (Hok w x). apply (Hch j w x); assumption.
    + apply nth_error_None in Hw. lia.
Qed.

(* with the default limit and distinct nodes, the limit does not exclude anything *)
Corollary asp_default_all v from to min_i debug ps :
  from <> to -> nodes_ok v -> NoDup (vnodes v) ->
  all_simple_paths v from to min_i None debug = Ok ps ->
  (forall p, In p ps <-> (SimplePath v from to p /\ min_i <= inter p)) /\
  (no_parallel v -> NoDup ps).
Proof.
  intros Hft Hok Hnd H.
  destruct (@all_simple_paths_correct_nodes_ok v from to min_i None debug ps Hft (fun _ => Hok) H)
    as [Hiff Hnodup].
  split; [|exact Hnodup].
  intros p. rewrite Hiff. split; [tauto|]. intros [Hsp Hmin]. split; [exact Hsp|]. split; [exact Hmin|].
  assert (Hl : length p <= length (vnodes v)).
  { apply NoDup_incl_length; [apply Hsp | apply (SimplePath_incl Hok Hsp)]. }
  unfold inter, inter_bound. lia.
Qed.

(* ------------------------------------------------------------------ *)
(* Examples: 5 nodes; 2 -> 0 and 3 -> 1 close cycles *)

Definition asp_ex : view :=
  mkView true 5 (Some 5) [0;1;2;3;4]
    [(0, [(0,1,0%Z); (1,2,0%Z); (2,4,0%Z)]); (1, [(3,2,0%Z); (4,4,0%Z)]);
     (2, [(5,3,0%Z); (6,0,0%Z)]); (3, [(7,4,0%Z); (8,1,0%Z)])]
    [(0, [(6,2,0%Z)]); (1, [(0,0,0%Z); (8,3,0%Z)]); (2, [(1,0,0%Z); (3,1,0%Z)]);
     (3, [(5,2,0%Z)]); (4, [(2,0,0%Z); (4,1,0%Z); (7,3,0%Z)])]
    9 9 [(0,0,1,0%Z); (1,0,2,0%Z); (2,0,4,0%Z); (3,1,2,0%Z); (4,1,4,0%Z); (5,2,3,0%Z);
         (6,2,0,0%Z); (7,3,4,0%Z); (8,3,1,0%Z)].

Example asp_ex_ok : vok_check asp_ex = true.
Proof. vm_compute. reflexivity. Qed.

Example asp_ex_all :
  all_simple_paths asp_ex 0 4 0 None true
  = Ok [[0; 1; 2; 3; 4]; [0; 1; 4]; [0; 2; 3; 4]; [0; 2; 3; 1; 4]; [0; 4]].
Proof. vm_compute. reflexivity. Qed.

Example asp_ex_min1 :
  all_simple_paths asp_ex 0 4 1 None true
  = Ok [[0; 1; 2; 3; 4]; [0; 1; 4]; [0; 2; 3; 4]; [0; 2; 3; 1; 4]].
Proof. vm_compute. reflexivity. Qed.

Example asp_ex_max1 : all_simple_paths asp_ex 0 4 0 (Some 1) true = Ok [[0; 1; 4]; [0; 4]].
Proof. vm_compute. reflexivity. Qed.

Example asp_ex_max0 : all_simple_paths asp_ex 0 4 0 (Some 0) true = Ok [[0; 4]].
Proof. vm_compute. reflexivity. Qed.

Example asp_ex_min2_max2 : all_simple_paths asp_ex 0 4 2 (Some 2) true = Ok [[0; 2; 3; 4]].
Proof. vm_compute. reflexivity. Qed.

Example asp_ex_none : all_simple_paths asp_ex 4 0 0 None true = Ok [].
Proof. vm_compute. reflexivity. Qed.

(* a parallel edge repeats the path: no_parallel is needed for NoDup *)
Definition asp_par : view :=
  mkView true 2 (Some 2) [0;1] [(0, [(0,1,0%Z); (1,1,0%Z)])] [(1, [(0,0,0%Z); (1,0,0%Z)])]
    2 2 [(0,0,1,0%Z); (1,0,1,0%Z)].

Example asp_par_twice : all_simple_paths asp_par 0 1 0 None true = Ok [[0; 1]; [0; 1]].
Proof. vm_compute. reflexivity. Qed.

Print Assumptions asp_loop_inv.
Print Assumptions all_simple_paths_correct.
Print Assumptions all_simple_paths_correct_nodes_ok.
Print Assumptions all_simple_paths_hyp_needed.
Print Assumptions asp_default_all.
