(* Shared lemmas for the traversal proofs: visit maps, and the potential
   (sum over still-unmarked nodes) that bounds every fuel. *)
From PG Require Import Lib.Io Model.View Model.Traversal Spec.Reach.

(* ------------------------------------------------------------------ *)
(* visit                                                               *)

Lemma visit_ok v m x : in_cap v x ->
  visit v m x = Ok (negb (mem x m), if mem x m then m else x :: m).
Proof.
  unfold in_cap, visit. intros Hc. destruct (vcap v) as [c|].
  - destruct (Nat.leb_spec c x) as [Hle|Hlt]; [lia|]. destruct (mem x m); reflexivity.
  - destruct (mem x m); reflexivity.
Qed.

(* whatever visit answers, it answers this *)
Lemma visit_sound v m x b m' : visit v m x = Ok (b, m') ->
  b = negb (mem x m) /\ m' = if mem x m then m else x :: m.
Proof.
  unfold visit. destruct (vcap v) as [c|].
  - destruct (Nat.leb c x); [discriminate|]. destruct (mem x m); intros H; injection H as <- <-; auto.
  - destruct (mem x m); intros H; injection H as <- <-; auto.
Qed.

Lemma filter_length_le {A} (f : A -> bool) l : length (filter f l) <= length l.
Proof. induction l as [|a t IH]; cbn [filter length]; [lia|]. destruct (f a); cbn [length]; lia. Qed.

(* ------------------------------------------------------------------ *)
(* Potential                                                           *)

Definition outdeg (v : view) (a : nat) : nat := length (neighbors v a).

(* sum of f over the members of l not marked in m (with multiplicity) *)
Fixpoint usum (f : nat -> nat) (m : vmap) (l : list nat) : nat :=
  match l with
  | [] => 0
  | a :: t => (if mem a m then 0 else f a) + usum f m t
  end.

Lemma usum_mark_le f m x l : usum f (x :: m) l <= usum f m l.
Proof.
  induction l as [|a t IH]; cbn [usum]; [lia|].
  cbn [mem]. destruct (Nat.eqb x a); cbn [orb]; [|lia]. destruct (mem a m); lia.
Qed.

Lemma usum_mark_in f m x l : In x l -> mem x m = false ->
  usum f (x :: m) l + f x <= usum f m l.
Proof.
  intros Hin Hm. induction l as [|a t IH]; [destruct Hin|].
  cbn [usum mem]. destruct Hin as [->|Hin].
  - rewrite Nat.eqb_refl, Hm. cbn [orb]. pose proof (usum_mark_le f m x t). lia.
  - specialize (IH Hin). destruct (Nat.eqb x a); cbn [orb]; [destruct (mem a m)|]; lia.
Qed.

Lemma usum_nil_le f m l : usum f m l <= usum f [] l.
Proof. induction l as [|a t IH]; cbn [usum mem]; [lia|]. destruct (mem a m); lia. Qed.

Lemma usum_outdeg_all v : usum (outdeg v) [] (vnodes v) = length (all_out v).
Proof.
  unfold all_out. induction (vnodes v) as [|a t IH]; cbn [usum mem flat_map]; [reflexivity|].
  rewrite app_length, map_length, IH. unfold outdeg, neighbors. rewrite map_length. reflexivity.
Qed.

Lemma usum_one_all l : usum (fun _ => 1) [] l = length l.
Proof. induction l as [|a t IH]; cbn [usum mem length]; lia. Qed.

(* marking a fresh node pays for its out-degree, when edges leave view nodes only *)
Lemma usum_outdeg_mark v m x :
  (forall a b, step v a b -> In a (vnodes v)) -> mem x m = false ->
  usum (outdeg v) (x :: m) (vnodes v) + outdeg v x <= usum (outdeg v) m (vnodes v).
Proof.
  intros Hn Hm. destruct (in_dec Nat.eq_dec x (vnodes v)) as [Hin|Hout].
  - apply usum_mark_in; assumption.
  - assert (E : outdeg v x = 0).
    { unfold outdeg. destruct (neighbors v x) as [|b t] eqn:Eb; [reflexivity|].
      exfalso; apply Hout, (Hn x b). unfold step. rewrite Eb. left; reflexivity. }
    rewrite E. pose proof (usum_mark_le (outdeg v) m x (vnodes v)). lia.
Qed.

Lemma trav_fuel_big v : 1 + length (all_out v) < trav_fuel v.
Proof. unfold trav_fuel. lia. Qed.

(* ------------------------------------------------------------------ *)
(* Small list facts                                                    *)

Lemma NoDup_app_intro {A} (l1 l2 : list A) :
  NoDup l1 -> NoDup l2 -> (forall x, In x l1 -> ~ In x l2) -> NoDup (l1 ++ l2).
Proof.
  induction l1 as [|a t IH]; intros H1 H2 Hd; cbn [app]; [exact H2|].
  inversion H1 as [|a' t' Ha Ht]; subst. constructor.
  - intros Hin. apply in_app_or in Hin. destruct Hin as [Hin|Hin]; [contradiction|].
    apply (Hd a); [left; reflexivity | exact Hin].
  - apply IH; auto. intros x Hx; apply Hd; right; exact Hx.
Qed.

Ltac norm_app := repeat first [rewrite <- app_assoc | progress (cbn [app])].
