(* C15b: concrete views for the maximality theorem.  A boolean checker for vsymmetric, a builder of
   undirected views from edge lists, the Petersen graph, a bipartite graph, and a directed view on
   which maximum_matching is NOT maximum for the graph "treated as undirected": vsymmetric cannot
   be dropped. *)
From PG Require Import Lib.Io Model.View Model.Traversal Model.MatchM Spec.Reach Spec.MatchSpec Spec.BergeSpec
  Proofs.TravBase Proofs.MatchBaseP Proofs.MatchGreedyP Proofs.MatchCheckP Proofs.MatchFindJoinP Proofs.MatchEidP
  Proofs.MatchTotalP Proofs.BergeP Proofs.GabowOptP.

(* every listed edge a -> b is also listed b -> a *)
Definition vsym_b (v : view) : bool :=
  forallb (fun ae : nat * list eref =>
             forallb (fun e => mem (fst ae) (neighbors v (tgt e))) (snd ae)) (vout v).

Lemma vsym_b_ok v : vsym_b v = true -> vsymmetric v.
Proof.
  unfold vsym_b. rewrite forallb_forall. intros H i j Hj.
  unfold neighbors, out_edges in Hj. destruct (assoc_nat (vout v) i) as [es|] eqn:E; [|destruct Hj].
  apply assoc_nat_In in E. specialize (H _ E). cbn [fst snd] in H. rewrite forallb_forall in H.
  apply in_map_iff in Hj. destruct Hj as [e [<- He]]. apply mem_In. apply (H e He).
Qed.

(* an undirected view on the nodes 0 .. n-1 from a list of edges; edge ids are positions *)
Definition uv_adj (n : nat) (es : list (nat * nat)) : list (nat * list eref) :=
  map (fun a => (a, flat_map (fun ie : nat * (nat * nat) =>
                                let '(i, (x, y)) := ie in
                                if Nat.eqb x a then [(i, y, 1%Z)] else if Nat.eqb y a then [(i, x, 1%Z)] else [])
                             (combine (seq 0 (length es)) es)))
      (seq 0 n).

Definition uview (n : nat) (es : list (nat * nat)) : view :=
  mkView false n (Some n) (seq 0 n) (uv_adj n es) (uv_adj n es) (length es) (length es)
         (map (fun ie : nat * (nat * nat) => let '(i, (x, y)) := ie in (i, x, y, 1%Z))
              (combine (seq 0 (length es)) es)).

(* the hypotheses of the maximality theorem, checked *)
Definition hyps_b (v : view) : bool := mok_b v && eid_ok_b v && cap_ok_b v && vsym_b v.

Lemma hyps_b_ok v : hyps_b v = true -> MOk v /\ EidOk v /\ CapOk v /\ vsymmetric v.
Proof.
  unfold hyps_b. rewrite !andb_true_iff. intros [[[H1 H2] H3] H4].
  split; [apply mok_b_ok, H1|]. split; [apply eid_ok_b_ok, H2|].
  split; [apply cap_ok_b_ok, H3 | apply vsym_b_ok, H4].
Qed.

(* ------------------------------------------------------------------ *)
(* the Petersen graph: outer cycle 0..4, inner pentagram 5..9, spokes  *)

Definition petersen : view :=
  uview 10 [(0,1); (1,2); (2,3); (3,4); (4,0);
            (5,7); (7,9); (9,6); (6,8); (8,5);
            (0,5); (1,6); (2,7); (3,8); (4,9)].

(* a bipartite graph, parts {0,1,2} and {3,4,5}: greedy finds 2 pairs, the optimum is 3 *)
Definition bip6 : view := uview 6 [(0,3); (0,4); (1,3); (2,4); (2,5)].

Eval vm_compute in (hyps_b petersen, maximum_matching petersen true, greedy_inner petersen,
                    max_matching_size (vnodes petersen) (vadj petersen)).
Eval vm_compute in (hyps_b bip6, maximum_matching bip6 true, greedy_inner bip6,
                    max_matching_size (vnodes bip6) (vadj bip6)).
Eval vm_compute in (hyps_b ex_view, maximum_matching ex_view true, greedy_inner ex_view,
                    max_matching_size (vnodes ex_view) (vadj ex_view)).

(* ------------------------------------------------------------------ *)
(* vsymmetric cannot be dropped: a directed view with the edges 1 -> 0, 1 -> 2, 2 -> 3.  edges(a)
   lists outgoing edges only; greedy pairs 1 2, and no search can start: 0 and 3 have no out-edge.
   The result has 1 pair; the graph "treated as undirected" has the matching 0 1, 2 3. *)
Definition dir4 : view :=
  mkView true 4 (Some 4) [0; 1; 2; 3]
    [(0, []); (1, [(0, 0, 1%Z); (1, 2, 1%Z)]); (2, [(2, 3, 1%Z)]); (3, [])]
    [(0, [(0, 1, 1%Z)]); (1, []); (2, [(1, 1, 1%Z)]); (3, [(2, 2, 1%Z)])]
    3 3 [(0, 1, 0, 1%Z); (1, 1, 2, 1%Z); (2, 2, 3, 1%Z)].

Eval vm_compute in (mok_b dir4, eid_ok_b dir4, cap_ok_b dir4, vsym_b dir4, maximum_matching dir4 true,
                    max_matching_size (vnodes dir4) (vadj dir4)).

Theorem maximum_matching_needs_vsymmetric :
  exists v m n, MOk v /\ EidOk v /\ CapOk v /\ maximum_matching v true = Ok (m, n) /\
                valid_matching v m n /\ n < max_matching_size (vnodes v) (vadj v).
Proof.
  exists dir4. eexists. eexists.
  split; [apply mok_b_ok; vm_compute; reflexivity|].
  split; [apply eid_ok_b_ok; vm_compute; reflexivity|].
  split; [apply cap_ok_b_ok; vm_compute; reflexivity|].
  split; [vm_compute; reflexivity|].
  split; [apply valid_matching_b_ok; vm_compute; reflexivity|].
  vm_compute. lia.
Qed.

(* ------------------------------------------------------------------ *)
(* the definitions are satisfiable: on the 7-node view of C15 the greedy matching 0 1, 2 3 has the
   augmenting path 5 0 1 2 3 4; flipping it gives 5 0, 1 2, 3 4 *)
Definition greedy7 : list (option nat) := [Some 1; Some 0; Some 3; Some 2; None; None; None].

Ltac notin_tac H := repeat (destruct H as [H|H]; [discriminate H|]); exact H.

Example augmenting_example :
  greedy_inner ex_view = Ok (greedy7, 2) /\
  vaugmenting ex_view greedy7 [5; 0; 1; 2; 3; 4] /\
  flip (m_edges greedy7) [5; 0; 1; 2; 3; 4] = [(5, 0); (1, 2); (3, 4)].
Proof.
  split; [vm_compute; reflexivity|]. split; [|vm_compute; reflexivity].
  unfold vaugmenting. change (m_edges greedy7) with [(0, 1); (2, 3)].
  assert (Hn : forall x y, uadj (vadj ex_view) x y = true -> ~ In (x, y) [(0, 1); (2, 3)] ->
                 ~ In (y, x) [(0, 1); (2, 3)] -> nonm (vadj ex_view) [(0, 1); (2, 3)] x y).
  { intros x y H1 H2 H3. split; [exact H1|]. intros [H|H]; contradiction. }
  split; [|split; [|split; [|split]]].
  - apply altp_step.
    + apply Hn; [vm_compute; reflexivity | intros H; notin_tac H | intros H; notin_tac H].
    + left. left. reflexivity.
    + apply altp_step.
      * apply Hn; [vm_compute; reflexivity | intros H; notin_tac H | intros H; notin_tac H].
      * left. right. left. reflexivity.
      * apply altp_edge. apply Hn; [vm_compute; reflexivity | intros H; notin_tac H | intros H; notin_tac H].
  - repeat (constructor; [intros H; notin_tac H|]). constructor.
  - intros x Hx. repeat (destruct Hx as [<-|Hx]; [apply mem_In; vm_compute; reflexivity|]). destruct Hx.
  - intros H. notin_tac H.
  - intros H. notin_tac H.
Qed.

Print Assumptions vsym_b_ok.
Print Assumptions maximum_matching_needs_vsymmetric.
Print Assumptions augmenting_example.
