(* C06b: the view of a GraphMap (Model/FullViewOf2.v) is total and consistent under the C03
   invariant (GInv of Proofs/GraphMapP.v).  The iterator facts come from the C03 theorems. *)
From Coq Require Import Permutation Lia.
From PG Require Import Lib.Io Model.FullView Model.FullViewOf Model.FullViewOf2 Spec.ViewSpec
  Proofs.FullViewP Proofs.AdaptorP Proofs.FullViewOfP.
From PG Require Import Model.GraphMapM Spec.SimpleGraph
  Proofs.GraphMapL Proofs.GraphMapP Proofs.GraphMapR Proofs.GraphMapQ Proofs.GraphMapH.
Local Open Scope nat_scope.

(* ---------------- generic list facts ---------------- *)

Lemma map_index_seq {A} (F : A -> nat) (l : list A) s :
  (forall i a, nth_error l i = Some a -> F a = s + i) -> map F l = seq s (length l).
Proof.
  revert s. induction l as [|h t IH]; intros s H; cbn [map length seq]; [reflexivity|].
  f_equal.
  - rewrite (H 0 h eq_refl). lia.
  - apply IH. intros i a Hi. rewrite (H (S i) a Hi). lia.
Qed.

Lemma assoc_inj_tab {A B} (f : A -> nat) (F : A -> B) (l : list A) a :
  (forall x y, In x l -> In y l -> f x = f y -> x = y) -> In a l ->
  assoc (map (fun x => (f x, F x)) l) (f a) = Some (F a).
Proof.
  intros Hinj Ha. induction l as [|h t IH]; [destruct Ha|].
  cbn [map assoc]. destruct (Nat.eqb_spec (f h) (f a)) as [E|E].
  - rewrite (Hinj h a (or_introl eq_refl) Ha E). reflexivity.
  - destruct Ha as [->|Ha]; [congruence|]. apply IH; [|exact Ha].
    intros x y Hx Hy. apply Hinj; right; assumption.
Qed.

Lemma map_fst_combine {A B} (l1 : list A) (l2 : list B) :
  length l1 = length l2 -> map fst (combine l1 l2) = l1.
Proof.
  revert l2. induction l1 as [|h t IH]; intros [|h2 t2] H; cbn [combine map fst length] in *;
    try reflexivity; try discriminate.
  f_equal. apply IH. lia.
Qed.

Lemma unflat3_flat3 (l : list (Z * Z * Z)) : unflat3 (flat3 l) = l.
Proof.
  induction l as [|[[a b] w] t IH]; [reflexivity|].
  rewrite flat3_cons. cbn [unflat3 src tgt fst snd]. rewrite IH. reflexivity.
Qed.

Lemma edge_triples_ends d g swap from bs : forall z,
  edge_triples d g swap from bs = Ok z ->
  map (fun t => if swap then src t else tgt t) (unflat3 z) = bs /\
  (forall t, In t (unflat3 z) -> (if swap then tgt t else src t) = from).
Proof.
  induction bs as [|b rest IH]; intros z H; cbn [edge_triples] in H.
  - injection H as <-. split; [reflexivity | intros t []].
  - destruct swap.
    + destruct (edge_weight d g b from) as [w|]; [|discriminate].
      destruct (edge_triples d g true from rest) as [z'| |]; cbn [rmap] in H; try discriminate.
      injection H as <-. destruct (IH z' eq_refl) as [E1 E2]. cbn [unflat3 map src fst].
      split; [rewrite E1; reflexivity|].
      intros t [<-|Ht]; [reflexivity | apply E2; exact Ht].
    + destruct (edge_weight d g from b) as [w|]; [|discriminate].
      destruct (edge_triples d g false from rest) as [z'| |]; cbn [rmap] in H; try discriminate.
      injection H as <-. destruct (IH z' eq_refl) as [E1 E2]. cbn [unflat3 map tgt fst snd].
      split; [rewrite E1; reflexivity|].
      intros t [<-|Ht]; [reflexivity | apply E2; exact Ht].
Qed.

Section Of.
  Variable d : bool.
  Variable g : gm.
  Hypothesis I : GraphMapP.GInv d g.

  Notation n := (length (gnodes g)).
  Notation m := (length (gedges g)).
  Notation vs := (map fst (gnodes g)).

  (* to_index and the edge index, totalised *)
  Definition ix (a : Z) : nat :=
    match im_index_of Z.eqb (gnodes g) a with Some i => i | None => 0 end.
  Definition eix (k : Z * Z) : nat :=
    match im_index_of zpair_eqb (gedges g) k with Some i => i | None => 0 end.
  (* the reference of a reported triple *)
  Definition Q (t : Z * Z * Z) : quad :=
    (eix (edge_key d (src t) (tgt t)), ix (src t), ix (tgt t), snd t).

  Lemma ix_nth i a : nth_error vs i = Some a -> ix a = i.
  Proof.
    intro H. unfold ix. rewrite (proj2 (index_iff d g a i I) H). reflexivity.
  Qed.

  Lemma to_index_ok a : In a vs -> gm_to_index g a = Ok (ix a).
  Proof.
    intro Ha. destruct (to_index_total d g a I Ha) as (i & E & _).
    unfold gm_to_index, ix. rewrite E. reflexivity.
  Qed.

  Lemma ix_lt a : In a vs -> ix a < n.
  Proof.
    intro Ha. destruct (to_index_total d g a I Ha) as (i & E & L & _).
    unfold ix. rewrite E. exact L.
  Qed.

  Lemma ix_inj a b : In a vs -> In b vs -> ix a = ix b -> a = b.
  Proof.
    intros Ha Hb E.
    destruct (to_index_total d g a I Ha) as (i & Ei & _ & Ni).
    destruct (to_index_total d g b I Hb) as (j & Ej & _ & Nj).
    unfold ix in E. rewrite Ei, Ej in E. subst j. congruence.
  Qed.

  Lemma ix_eqb a b : In a vs -> In b vs -> Nat.eqb (ix a) (ix b) = Z.eqb a b.
  Proof.
    intros Ha Hb. destruct (Z.eqb_spec a b) as [->|Hne]; [apply Nat.eqb_refl|].
    apply Nat.eqb_neq. intro E. apply Hne. apply ix_inj; assumption.
  Qed.

  Lemma nodes_seq : map ix vs = seq 0 n.
  Proof.
    rewrite <- (map_length fst (gnodes g)). apply map_index_seq.
    intros i a H. cbn [Nat.add]. apply ix_nth. exact H.
  Qed.

  Lemma rmapM_index l : incl l vs -> rmapM (gm_to_index g) l = Ok (map ix l).
  Proof. intro H. apply rmapM_ok. intros a Ha. apply to_index_ok. apply H. exact Ha. Qed.

  Lemma eix_nth i k : nth_error (map fst (gedges g)) i = Some k -> eix k = i.
  Proof.
    intro H. unfold eix.
    rewrite (proj2 (im_index_of_iff zpair_eqb zpair_eqb_spec (gedges g) k i
                      (gi_edges_nodup d g I)) H). reflexivity.
  Qed.

  Lemma edge_index_ok a b : In (edge_key d a b) (ekeys g) ->
    gm_edge_index d g a b = Ok (eix (edge_key d a b)).
  Proof.
    intro H. apply In_nth_error in H. destruct H as [i Hi].
    unfold gm_edge_index, eix.
    rewrite (proj2 (im_index_of_iff zpair_eqb zpair_eqb_spec (gedges g) _ i
                      (gi_edges_nodup d g I)) Hi). reflexivity.
  Qed.

  (* a triple the iterators may report: its key is an edge; then both ends are nodes *)
  Definition good (t : Z * Z * Z) : Prop := In (edge_key d (src t) (tgt t)) (ekeys g).

  Lemma key_ends a b : In (edge_key d a b) (ekeys g) -> In a vs /\ In b vs.
  Proof.
    intro H. destruct d.
    - apply (gi_endpoints true g I). exact H.
    - destruct (edge_key_false_cases a b) as [[E _]|[E _]]; rewrite E in H;
        destruct (gi_endpoints false g I _ _ H) as [H1 H2]; split; assumption.
  Qed.

  Lemma good_ends t : good t -> In (src t) vs /\ In (tgt t) vs.
  Proof. apply key_ends. Qed.

  Lemma gm_quad_ok t : good t -> gm_quad d g t = Ok (Q t).
  Proof.
    intro H. destruct (good_ends t H) as [Ha Hb]. destruct t as [[a b] w].
    unfold good, src, tgt in *. cbn [fst snd] in *.
    unfold gm_quad. rewrite (edge_index_ok a b H). cbn [rbind].
    rewrite (to_index_ok a Ha), (to_index_ok b Hb). reflexivity.
  Qed.

  Lemma gm_quads_ok r l : r = Ok (flat3 l) -> (forall t, In t l -> good t) ->
    gm_quads d g r = Ok (map Q l).
  Proof.
    intros -> H. unfold gm_quads. cbn [rbind]. rewrite unflat3_flat3.
    apply rmapM_ok. intros t Ht. apply gm_quad_ok. apply H. exact Ht.
  Qed.

  (* ---- what the iterators list ---- *)
  Definition OUTL (a : Z) : list (Z * Z * Z) :=
    match edges_of d g a with Ok z => unflat3 z | _ => [] end.
  Definition INL (a : Z) : list (Z * Z * Z) :=
    match edges_directed d g a false with Ok z => unflat3 z | _ => [] end.

  Lemma out_list a :
    edges_of d g a = Ok (flat3 (OUTL a)) /\ Permutation (OUTL a) (s_out d (abs g) a) /\
    map tgt (OUTL a) = neighbors d g a.
  Proof.
    destruct (edges_of_correct d g a I) as (l & E & P).
    unfold OUTL. rewrite E, unflat3_flat3. split; [reflexivity|]. split; [exact P|].
    unfold edges_of in E. destruct (edge_triples_ends _ _ _ _ _ _ E) as [E1 _].
    rewrite unflat3_flat3 in E1. exact E1.
  Qed.

  Lemma in_list a :
    edges_directed d g a false = Ok (flat3 (INL a)) /\ Permutation (INL a) (s_in d (abs g) a) /\
    map src (INL a) = neighbors_directed d g a false.
  Proof.
    destruct (edges_directed_in_correct d g a I) as (l & E & P).
    unfold INL. rewrite E, unflat3_flat3. split; [reflexivity|]. split; [exact P|].
    unfold edges_directed in E. cbn [negb] in E.
    destruct (edge_triples_ends _ _ _ _ _ _ E) as [E1 _].
    rewrite unflat3_flat3 in E1. exact E1.
  Qed.

  Lemma s_out_good a t : In t (s_out d (abs g) a) -> good t.
  Proof.
    destruct t as [[x y] w]. intro H.
    apply (in_s_out d (nkeys g) (gedges g) a x y w (GInv_canon d g I)) in H.
    destruct H as [-> H]. unfold good, src, tgt. cbn [fst snd].
    apply (in_map fst) in H. exact H.
  Qed.

  Lemma s_in_good a t : In t (s_in d (abs g) a) -> good t.
  Proof.
    destruct t as [[x y] w]. intro H.
    apply (in_s_in d (nkeys g) (gedges g) a x y w (GInv_canon d g I)) in H.
    destruct H as [-> H]. unfold good, src, tgt. cbn [fst snd].
    apply (in_map fst) in H. exact H.
  Qed.

  Lemma OUTL_good a t : In t (OUTL a) -> good t.
  Proof.
    intro H. apply (s_out_good a). eapply Permutation_in; [|exact H].
    apply (proj1 (proj2 (out_list a))).
  Qed.

  Lemma INL_good a t : In t (INL a) -> good t.
  Proof.
    intro H. apply (s_in_good a). eapply Permutation_in; [|exact H].
    apply (proj1 (proj2 (in_list a))).
  Qed.

  Lemma neighbors_nodes a : incl (neighbors d g a) vs.
  Proof.
    intros b Hb. apply (proj2 (neighbors_spec d g a I)) in Hb. apply (key_ends a b Hb).
  Qed.

  Lemma neighbors_in_nodes a : incl (neighbors_directed d g a false) vs.
  Proof.
    intros b Hb. apply (proj2 (neighbors_directed_spec d g a false I)) in Hb.
    apply (key_ends b a Hb).
  Qed.

  Lemma gedges_good t : In t (gedges g) -> good t.
  Proof.
    destruct t as [[a b] w]. intro H. unfold good, src, tgt. cbn [fst snd].
    apply (in_map fst) in H. cbn [fst] in H.
    rewrite (gi_canonical d g I a b H). exact H.
  Qed.

  Lemma all_edges_flat : all_edges g = flat3 (gedges g).
  Proof. apply all_edges_correct. Qed.

  (* the rows *)
  Lemma gm_rows_ok {A} (f : Z -> res A) (F : Z -> A) :
    (forall a, In a vs -> f a = Ok (F a)) ->
    gm_rows g f vs = Ok (map (fun a => (ix a, F a)) vs).
  Proof.
    intro H. unfold gm_rows. apply rmapM_ok. intros a Ha.
    rewrite (to_index_ok a Ha). cbn [rbind]. rewrite (H a Ha). reflexivity.
  Qed.

  Definition ADJL (a : Z) : list Z := filter (fun b => contains_edge d g a b) vs.

  (* the view, explicitly *)
  Definition F0 : fview :=
    mkFv d n None (Some m) (Some m) (Some n) true true true true
         (map ix vs) (combine (map ix vs) vs)
         (map (fun a => (ix a, map Q (OUTL a))) vs)
         (map (fun a => (ix a, map Q (INL a))) vs)
         (map (fun a => (ix a, map ix (neighbors d g a))) vs)
         (map (fun a => (ix a, map ix (neighbors_directed d g a false))) vs)
         (map Q (gedges g))
         (map (fun a => (ix a, map ix (ADJL a))) vs).

  Lemma fview_of_graphmap_eq : fview_of_graphmap d g = Ok F0.
  Proof.
    unfold fview_of_graphmap. cbv zeta.
    rewrite (rmapM_index vs (incl_refl _)). cbn [rbind].
    rewrite (gm_rows_ok _ (fun a => map Q (OUTL a))).
    2:{ intros a _. apply gm_quads_ok; [apply (out_list a) | apply OUTL_good]. }
    cbn [rbind].
    rewrite (gm_rows_ok _ (fun a => map Q (INL a))).
    2:{ intros a _. apply gm_quads_ok; [apply (in_list a) | apply INL_good]. }
    cbn [rbind].
    rewrite (gm_rows_ok _ (fun a => map ix (neighbors d g a))).
    2:{ intros a _. apply rmapM_index. apply neighbors_nodes. }
    cbn [rbind].
    rewrite (gm_rows_ok _ (fun a => map ix (neighbors_directed d g a false))).
    2:{ intros a _. apply rmapM_index. apply neighbors_in_nodes. }
    cbn [rbind].
    rewrite (gm_quads_ok (Ok (all_edges g)) (gedges g));
      [|rewrite all_edges_flat; reflexivity | exact gedges_good].
    cbn [rbind].
    rewrite (gm_rows_ok _ (fun a => map ix (ADJL a))).
    2:{ intros a _. apply rmapM_index. intros b Hb. apply filter_In in Hb. apply Hb. }
    cbn [rbind]. reflexivity.
  Qed.

  (* ---- rows are found by index ---- *)
  Lemma assocl_row {A} (F : Z -> list A) a : In a vs ->
    assocl (map (fun a => (ix a, F a)) vs) (ix a) = F a.
  Proof.
    intro Ha. unfold assocl. rewrite (assoc_inj_tab ix F vs a ix_inj Ha). reflexivity.
  Qed.

  Lemma map_fst_rows {A} (F : Z -> A) : map fst (map (fun a => (ix a, F a)) vs) = map ix vs.
  Proof. rewrite map_map. reflexivity. Qed.

  Lemma node_val i : In i (map ix vs) -> exists a, In a vs /\ ix a = i.
  Proof. intro H. apply in_map_iff in H. destruct H as (a & E & Ha). exists a. auto. Qed.

  (* ---- edges(a) / edges_directed(a, Incoming) against the references ---- *)
  Lemma out_expect a es : In a vs -> (forall e, In e es -> good e) ->
    map Q (s_out d (mkSg (nkeys g) es) a) = expect_out d (map Q es) (ix a).
  Proof.
    intros Ha. unfold s_out, expect_out, Q. cbn [se].
    induction es as [|e t IH]; intro Hg; [reflexivity|].
    cbn [flat_map map]. rewrite map_app, IH by (intros e' He'; apply Hg; right; exact He').
    f_equal. destruct (good_ends e (Hg e (or_introl eq_refl))) as [Hx Hy].
    destruct e as [[x y] w]. unfold src, tgt in Hx, Hy. cbn [fst snd] in Hx, Hy.
    cbn [q_src q_tgt src tgt fst snd].
    rewrite (ix_eqb x a Hx Ha), (ix_eqb y a Hy Ha).
    destruct (Z.eqb_spec x a) as [->|Hxa]; [reflexivity|].
    destruct d; cbn [negb andb]; [reflexivity|].
    destruct (Z.eqb_spec y a) as [->|Hya]; [|reflexivity].
    cbn [map]. unfold q_flip. cbn [src tgt fst snd].
    rewrite (edge_key_false_sym a x). reflexivity.
  Qed.

  Lemma in_expect a es : In a vs -> (forall e, In e es -> good e) ->
    map Q (s_in d (mkSg (nkeys g) es) a) = expect_in d (map Q es) (ix a).
  Proof.
    intros Ha. unfold s_in, expect_in, Q. cbn [se].
    induction es as [|e t IH]; intro Hg; [reflexivity|].
    cbn [flat_map map]. rewrite map_app, IH by (intros e' He'; apply Hg; right; exact He').
    f_equal. destruct (good_ends e (Hg e (or_introl eq_refl))) as [Hx Hy].
    destruct e as [[x y] w]. unfold src, tgt in Hx, Hy. cbn [fst snd] in Hx, Hy.
    cbn [q_src q_tgt src tgt fst snd].
    rewrite (ix_eqb x a Hx Ha), (ix_eqb y a Hy Ha).
    destruct (Z.eqb_spec y a) as [->|Hya]; [reflexivity|].
    destruct d; cbn [negb andb]; [reflexivity|].
    destruct (Z.eqb_spec x a) as [->|Hxa]; [|reflexivity].
    cbn [map]. unfold q_flip. cbn [src tgt fst snd].
    rewrite (edge_key_false_sym y a). reflexivity.
  Qed.

  Lemma out_ok a : In a vs ->
    same_edges true (map Q (OUTL a)) (spec_out d (map Q (gedges g)) (ix a)).
  Proof.
    intro Ha. apply same_edges_expect_out.
    rewrite <- (out_expect a (gedges g) Ha gedges_good).
    apply same_edges_perm. apply Permutation_map. apply (out_list a).
  Qed.

  Lemma in_ok a : In a vs ->
    same_edges true (map Q (INL a)) (spec_in d (map Q (gedges g)) (ix a)).
  Proof.
    intro Ha. apply same_edges_expect_in.
    rewrite <- (in_expect a (gedges g) Ha gedges_good).
    apply same_edges_perm. apply Permutation_map. apply (in_list a).
  Qed.

  Lemma erefs_ids : map q_id (map Q (gedges g)) = seq 0 m.
  Proof.
    rewrite map_map. apply map_index_seq. intros i e H. cbn [Nat.add].
    assert (Hin : In (fst e) (ekeys g)) by (apply in_map; eapply nth_error_In; exact H).
    apply (map_nth_error fst) in H.
    destruct e as [[a b] w]. unfold Q. cbn [q_id src tgt fst snd] in *.
    rewrite (gi_canonical d g I a b Hin). apply eix_nth. exact H.
  Qed.

  (* ---- is_adjacent ---- *)
  Lemma contains_iff a b : contains_edge d g a b = true <-> In (edge_key d a b) (ekeys g).
  Proof.
    rewrite <- (edge_weight_some_iff d g a b I). unfold contains_edge.
    destruct (edge_weight d g a b); split; try congruence; intro H; exfalso; apply H; reflexivity.
  Qed.

  Lemma adj_ok a b : In a vs -> In b vs ->
    (In (ix b) (map ix (ADJL a)) <-> edge_between d (map Q (gedges g)) (ix a) (ix b)).
  Proof.
    intros Ha Hb. split.
    - intro H. apply in_map_iff in H. destruct H as (b' & E & Hb').
      unfold ADJL in Hb'. apply filter_In in Hb'. destruct Hb' as [Hb'v Hc].
      apply (ix_inj b' b Hb'v Hb) in E. subst b'.
      apply contains_iff in Hc. unfold ekeys in Hc. apply in_map_iff in Hc.
      destruct Hc as ([k w] & Ek & Hin). cbn [fst] in Ek. subst k.
      exists (Q (edge_key d a b, w)). split; [apply in_map; exact Hin|].
      unfold Q. cbn [q_src q_tgt src tgt fst snd].
      destruct d; [left; reflexivity|].
      destruct (edge_key_false_cases a b) as [[E _]|[E _]]; rewrite E; cbn [fst snd];
        [left; reflexivity | right; split; reflexivity].
    - intros (q & Hq & H). apply in_map_iff in Hq. destruct Hq as ([[x y] w] & <- & Hin).
      unfold Q in H. cbn [q_src q_tgt src tgt fst snd] in H.
      assert (Hk : In (x, y) (ekeys g)) by (apply (in_map fst) in Hin; exact Hin).
      destruct (gi_endpoints d g I x y Hk) as [Hx Hy].
      pose proof (gi_canonical d g I x y Hk) as Hcan.
      assert (Hc : In (edge_key d a b) (ekeys g)).
      { destruct H as [H | [Hd H]]; injection H as E1 E2.
        - apply (ix_inj x a Hx Ha) in E1. apply (ix_inj y b Hy Hb) in E2. subst x y.
          rewrite Hcan. exact Hk.
        - apply (ix_inj x b Hx Hb) in E1. apply (ix_inj y a Hy Ha) in E2. subst x y.
          rewrite Hd in *. rewrite edge_key_false_sym, Hcan. exact Hk. }
      apply in_map. unfold ADJL. apply filter_In. split; [exact Hb|].
      apply contains_iff. exact Hc.
  Qed.

  (* ---- consistency ---- *)
  Theorem F0_consistent : FConsistent F0.
  Proof.
    constructor.
    - constructor; unfold F0; fvs; rewrite nodes_seq.
      + apply seq_NoDup.
      + intros a Ha. apply in_seq in Ha. lia.
      + intros c Hc. discriminate Hc.
      + intros c Hc. injection Hc as <-. rewrite seq_length. reflexivity.
      + intros _ i. rewrite in_seq. lia.
    - unfold NrefsOK, F0. fvs. apply map_fst_combine. rewrite map_length. reflexivity.
    - constructor; unfold F0; fvs.
      + intros q Hq. apply in_map_iff in Hq. destruct Hq as (e & <- & He).
        destruct (good_ends e (gedges_good e He)) as [Hx Hy].
        unfold Q. cbn [q_src q_tgt]. split; apply in_map; assumption.
      + intros c Hc. injection Hc as <-. rewrite map_length. reflexivity.
      + intros _. rewrite erefs_ids. apply seq_NoDup.
      + intros _ c Hc q Hq. injection Hc as <-.
        apply (in_map q_id) in Hq. rewrite erefs_ids in Hq. apply in_seq in Hq. lia.
    - constructor; unfold F0; fvs; intros; apply map_fst_rows.
    - constructor; unfold F0; fvs; intros i Hi; destruct (node_val i Hi) as (a & Ha & <-).
      + rewrite (assocl_row (fun a => map Q (OUTL a)) a Ha). apply out_ok. exact Ha.
      + rewrite (assocl_row (fun a => map Q (OUTL a)) a Ha).
        rewrite (assocl_row (fun a => map ix (neighbors d g a)) a Ha).
        rewrite <- (proj2 (proj2 (out_list a))), !map_map. reflexivity.
    - constructor; unfold F0; fvs; intros _ i Hi; destruct (node_val i Hi) as (a & Ha & <-).
      + rewrite (assocl_row (fun a => map Q (INL a)) a Ha). apply in_ok. exact Ha.
      + rewrite (assocl_row (fun a => map Q (INL a)) a Ha).
        rewrite (assocl_row (fun a => map ix (neighbors_directed d g a false)) a Ha).
        rewrite <- (proj2 (proj2 (in_list a))), !map_map. reflexivity.
    - intros _ i j Hi Hj. unfold F0 in *. fvs.
      destruct (node_val i Hi) as (a & Ha & <-). destruct (node_val j Hj) as (b & Hb & <-).
      rewrite (assocl_row (fun a => map ix (ADJL a)) a Ha). apply adj_ok; assumption.
  Qed.

  Lemma F0_keyed : AdjKeyed F0.
  Proof. intros _. unfold F0. fvs. rewrite map_fst_rows. apply incl_refl. Qed.
End Of.

Theorem fview_of_graphmap_consistent directed (g : gm) :
  GraphMapP.GInv directed g ->
  exists f, fview_of_graphmap directed g = Ok f /\ FConsistent f /\ AdjKeyed f /\
            f_directed f = directed /\
            f_nodes f = seq 0 (length (gnodes g)) /\
            f_nrefs f = combine (seq 0 (length (gnodes g))) (map fst (gnodes g)) /\
            f_bound f = length (gnodes g) /\
            f_vcap f = None /\
            (f_compact f = true /\ f_ids_ok f = true /\ f_has_in f = true /\ f_has_adj f = true).
Proof.
  intro I. exists (F0 directed g).
  split; [apply fview_of_graphmap_eq; exact I|].
  split; [apply F0_consistent; exact I|].
  split; [apply F0_keyed|].
  unfold F0. fvs. rewrite (nodes_seq directed g I). repeat split.
Qed.

Theorem graphmap_adaptors directed (g : gm) f k1 p1 q1 k2 p2 q2 f1 f2 :
  GraphMapP.GInv directed g -> fview_of_graphmap directed g = Ok f ->
  In k1 [1; 3; 4; 5] -> In k2 [1; 3; 4; 5] ->
  apply_adaptor k1 p1 q1 f = Some f1 -> apply_adaptor k2 p2 q2 f1 = Some f2 -> FConsistent f2.
Proof.
  intros I E H1 H2 E1 E2.
  destruct (fview_of_graphmap_consistent directed g I) as (f' & E' & Hc & Hk & _).
  rewrite E in E'. injection E' as <-.
  exact (adaptor_depth2 _ _ _ _ _ _ _ _ _ H1 H2 Hc (keyed_rows _ Hk) E1 E2).
Qed.

(* after every history from GraphMap::new() *)
Theorem graphmap_history_view directed debug ops :
  exists f, fview_of_graphmap directed (final directed debug gm_new ops) = Ok f /\
            FConsistent f /\ AdjKeyed f.
Proof.
  destruct (fview_of_graphmap_consistent directed _ (proj1 (history_refines directed debug ops)))
    as (f & E & Hc & Hk & _).
  exists f. split; [exact E|]. split; assumption.
Qed.
