(* C20d, part 3 (F4): degree bookkeeping of good_node_sequence and "sinks last": an edge into a node
   without outgoing edges always points forward in the sequence. *)
From Coq Require Import Lia Permutation Bool.
From PG Require Import Lib.Io Model.View Model.FasM Proofs.FasP Proofs.FasP2.
Import ListNotations.

Notation nd s i := (fnode_at (fs_nodes s) i).

Definition stat (n : fnode) : nat * list nat * list nat := (f_gix n, f_out n, f_in n).
Definition live (s : fstate) (x : nat) : bool := f_inlist (nd s x).
(* how many entries of l, other than u itself, are still in a bucket *)
Definition outl (L : nat -> bool) (l : list nat) (u : nat) : nat :=
  length (filter (fun x => negb (Nat.eqb x u) && L x) l).
Definition dec (out : bool) (n : fnode) : fnode :=
  if out then mkFn (f_gix n) (f_out n) (f_in n) (f_od n) (f_id n - 1) true
  else mkFn (f_gix n) (f_out n) (f_in n) (f_od n - 1) (f_id n) true.

Lemma relocate_pt ix out s j x :
  nd (relocate ix out s j) x =
  if negb (Nat.eqb j ix) && f_inlist (nd s j) && Nat.eqb x j then dec out (nd s j) else nd s x.
Proof.
  unfold relocate. destruct (Nat.eqb j ix); cbn [negb andb]; [reflexivity|].
  destruct (f_inlist (nd s j)) eqn:Ht; cbn [negb andb]; [|reflexivity].
  pose proof (inlist_lt _ _ Ht) as Hj.
  set (s1 := remove_node s j).
  assert (Hn1 : fs_nodes s1 = set_at (fs_nodes s) j (set_inlist (nd s j) false)) by apply remove_node_nodes.
  assert (Hj1 : j < length (fs_nodes s1)) by (rewrite Hn1, set_at_length; exact Hj).
  assert (Hnd1 : nd s1 j = set_inlist (nd s j) false).
  { rewrite Hn1. unfold fnode_at. apply nth_set_at_same. exact Hj. }
  rewrite push_node_nodes. cbn [set_node fs_nodes].
  replace (fnode_at (set_at (fs_nodes s1) j _) j) with
    (if out
     then mkFn (f_gix (nd s1 j)) (f_out (nd s1 j)) (f_in (nd s1 j)) (f_od (nd s1 j)) (f_id (nd s1 j) - 1) (f_inlist (nd s1 j))
     else mkFn (f_gix (nd s1 j)) (f_out (nd s1 j)) (f_in (nd s1 j)) (f_od (nd s1 j) - 1) (f_id (nd s1 j)) (f_inlist (nd s1 j)))
    by (unfold fnode_at; rewrite nth_set_at_same by exact Hj1; reflexivity).
  rewrite !Hnd1, set_at_set_at, Hn1, set_at_set_at. unfold fnode_at.
  destruct (Nat.eqb_spec x j) as [->|Hx].
  - rewrite nth_set_at_same by exact Hj. unfold dec. destruct out; reflexivity.
  - rewrite nth_set_at_other by (intros E; apply Hx; symmetry; exact E). reflexivity.
Qed.

Definition Fr (s s' : fstate) : Prop :=
  forall x, stat (nd s' x) = stat (nd s x) /\ live s' x = live s x /\ f_od (nd s' x) <= f_od (nd s x).

Lemma Fr_refl s : Fr s s.
Proof. intros x. repeat split. lia. Qed.
Lemma Fr_trans a b c : Fr a b -> Fr b c -> Fr a c.
Proof.
  intros H1 H2 x. destruct (H1 x) as [A1 [B1 C1]]. destruct (H2 x) as [A2 [B2 C2]].
  split; [congruence|]. split; [congruence | lia].
Qed.

Lemma relocate_Fr ix out s j : Fr s (relocate ix out s j).
Proof.
  intros x. unfold live. rewrite relocate_pt.
  destruct (negb (Nat.eqb j ix) && f_inlist (nd s j) && Nat.eqb x j) eqn:C; [|repeat split; lia].
  apply andb_true_iff in C. destruct C as [C Hx]. apply andb_true_iff in C. destruct C as [_ Ht].
  apply Nat.eqb_eq in Hx. subst x. unfold dec. destruct out; cbn [stat f_gix f_out f_in f_od f_inlist]; repeat split; try lia; symmetry; exact Ht.
Qed.

Lemma outl_ext L L' l u : (forall x, L x = L' x) -> outl L l u = outl L' l u.
Proof. intros H. unfold outl. f_equal. apply filter_ext. intros x. rewrite H. reflexivity. Qed.

Lemma Fr_outl s s' u : Fr s s' -> outl (live s') (f_out (nd s' u)) u = outl (live s) (f_out (nd s u)) u.
Proof.
  intros H. destruct (H u) as [A _]. assert (Eo : f_out (nd s' u) = f_out (nd s u)) by (unfold stat in A; congruence). rewrite Eo.
  apply outl_ext. intros x. apply (H x).
Qed.

(* phase 1 (the out-neighbours lose an in-edge): no out-degree changes *)
Lemma relocate_true_od ix s j x : f_od (nd (relocate ix true s j) x) = f_od (nd s x).
Proof.
  rewrite relocate_pt. destruct (negb (Nat.eqb j ix) && f_inlist (nd s j) && Nat.eqb x j) eqn:C; [|reflexivity].
  apply andb_true_iff in C. destruct C as [_ Hx]. apply Nat.eqb_eq in Hx. subst x. reflexivity.
Qed.

Lemma fold_true ix l : forall s, Fr s (fold_left (relocate ix true) l s) /\
  forall x, f_od (nd (fold_left (relocate ix true) l s) x) = f_od (nd s x).
Proof.
  induction l as [|j t IH]; intros s; cbn [fold_left]; [split; [apply Fr_refl | reflexivity]|].
  destruct (IH (relocate ix true s j)) as [H1 H2]. split.
  - eapply Fr_trans; [apply relocate_Fr | exact H1].
  - intros x. rewrite H2. apply relocate_true_od.
Qed.

(* the out-degree of a node in a bucket is at least the number of its out-neighbours (other than itself)
   in a bucket, plus what is still to be subtracted *)
Definition OD2 (s : fstate) (todo : list nat) : Prop :=
  forall u, live s u = true ->
    outl (live s) (f_out (nd s u)) u + count_occ Nat.eq_dec todo u <= f_od (nd s u).
Definition OD (s : fstate) : Prop := OD2 s [].

(* phase 2 (the in-neighbours lose an out-edge) *)
Lemma fold_false ix todo : forall s, OD2 s todo ->
  OD (fold_left (relocate ix false) todo s) /\ Fr s (fold_left (relocate ix false) todo s).
Proof.
  induction todo as [|j t IH]; intros s H; cbn [fold_left]; [split; [exact H | apply Fr_refl]|].
  assert (H' : OD2 (relocate ix false s j) t).
  { intros u Hu. pose proof (relocate_Fr ix false s j) as F.
    rewrite (Fr_outl _ _ u F). destruct (F u) as [_ [Lu _]]. rewrite Lu in Hu. specialize (H u Hu).
    rewrite relocate_pt.
    destruct (negb (Nat.eqb j ix) && f_inlist (nd s j) && Nat.eqb u j) eqn:C.
    - apply andb_true_iff in C. destruct C as [_ Hx]. apply Nat.eqb_eq in Hx. subst u.
      cbn [count_occ] in H. destruct (Nat.eq_dec j j) as [_|N]; [|contradiction]. cbn [dec f_od]. lia.
    - cbn [count_occ] in H. destruct (Nat.eq_dec j u); lia. }
  destruct (IH _ H') as [H1 H2]. split; [exact H1|].
  eapply Fr_trans; [apply relocate_Fr | exact H2].
Qed.

Lemma outl_flip (L L' : nat -> bool) ix u l : ix <> u -> L ix = true -> L' ix = false ->
  (forall x, x <> ix -> L' x = L x) ->
  outl L l u = outl L' l u + count_occ Nat.eq_dec l ix.
Proof.
  intros Hne H1 H2 H3. unfold outl. induction l as [|h t IH]; [reflexivity|].
  cbn [filter count_occ]. destruct (Nat.eq_dec h ix) as [->|Hh].
  - rewrite H1, H2. destruct (Nat.eqb_spec ix u) as [E|_]; [contradiction|]. cbn [negb andb length]. lia.
  - rewrite (H3 h Hh). destruct (negb (Nat.eqb h u) && L h); cbn [length]; lia.
Qed.

Section Deg.
  Variable T : list fnode.
  Hypothesis HB : forall a b,
    count_occ Nat.eq_dec (f_out (fnode_at T a)) b = count_occ Nat.eq_dec (f_in (fnode_at T b)) a.

  Definition St (s : fstate) : Prop := forall x, stat (nd s x) = stat (fnode_at T x).

  Lemma St_Fr s s' : St s -> Fr s s' -> St s'.
  Proof. intros H F x. rewrite (proj1 (F x)). apply H. Qed.

  (* one pop followed by the update of the neighbours *)
  Lemma pop_step_deg s k i s1 : Inv s -> St s -> OD s -> pop_bucket s k = Some (i, s1) ->
    let s' := update_neighbours s1 i in
    St s' /\ OD s' /\ live s i = true /\ suitable (nd s i) = k /\
    (forall x, live s' x = if Nat.eqb x i then false else live s x) /\
    (forall x, f_od (nd s' x) <= f_od (nd s x)) /\
    f_gix (nd s1 i) = f_gix (nd s i).
  Proof.
    intros HI HS HO P.
    destruct (pop_bucket_some _ _ _ _ HI P) as [Ht [HI1 Hn1]].
    pose proof (inlist_lt _ _ Ht) as Hi.
    assert (Hk : suitable (nd s i) = k).
    { unfold pop_bucket in P. destruct (bucket_get s k) as [|h r] eqn:E; [discriminate|]. inversion P; subst h.
      apply (inv_in _ HI k i). rewrite E. left. reflexivity. }
    assert (Hpt : forall x, nd s1 x = if Nat.eqb x i then set_inlist (nd s i) false else nd s x).
    { intros x. rewrite Hn1. unfold fnode_at. destruct (Nat.eqb_spec x i) as [->|Hx].
      - apply nth_set_at_same. exact Hi.
      - apply nth_set_at_other. intros E. apply Hx. symmetry. exact E. }
    assert (F1 : forall x, stat (nd s1 x) = stat (nd s x) /\ f_od (nd s1 x) = f_od (nd s x)).
    { intros x. rewrite Hpt. destruct (Nat.eqb_spec x i) as [->|Hx]; split; reflexivity. }
    assert (L1 : forall x, live s1 x = if Nat.eqb x i then false else live s x).
    { intros x. unfold live. rewrite Hpt. destruct (Nat.eqb x i); reflexivity. }
    unfold update_neighbours.
    destruct (fold_true i (f_out (nd s1 i)) s1) as [Fa Oa].
    set (sa := fold_left (relocate i true) (f_out (nd s1 i)) s1) in *.
    assert (Ein : f_in (nd sa i) = f_in (fnode_at T i)).
    { destruct (Fa i) as [A _]. pose proof (HS i) as B. destruct (F1 i) as [C _].
      unfold stat in A, B, C. congruence. }
    assert (HO2 : OD2 sa (f_in (nd sa i))).
    { intros u Hu. destruct (Fa u) as [_ [Lu _]]. rewrite Lu, L1 in Hu.
      destruct (Nat.eqb_spec u i) as [E|Hne]; [discriminate Hu|].
      rewrite (Fr_outl _ _ u Fa), Oa, Ein. destruct (F1 u) as [Su Ou]. rewrite Ou.
      specialize (HO u Hu). cbn [count_occ] in HO. rewrite Nat.add_0_r in HO.
      assert (Eo : f_out (nd s1 u) = f_out (nd s u)) by (unfold stat in Su; congruence).
      rewrite Eo.
      rewrite (outl_flip (live s) (live s1) i u (f_out (nd s u))) in HO.
      - rewrite <- HB.
        assert (Eo' : f_out (fnode_at T u) = f_out (nd s u)) by (pose proof (HS u) as B; unfold stat in B; congruence).
        rewrite Eo'. exact HO.
      - intros E. apply Hne. symmetry. exact E.
      - exact Ht.
      - rewrite L1, Nat.eqb_refl. reflexivity.
      - intros x Hx. rewrite L1. destruct (Nat.eqb_spec x i); [contradiction | reflexivity]. }
    destruct (fold_false i (f_in (nd sa i)) sa HO2) as [HO' Fb].
    set (sb := fold_left (relocate i false) (f_in (nd sa i)) sa) in *.
    assert (F : forall x, stat (nd sb x) = stat (nd s x) /\ live sb x = live s1 x /\ f_od (nd sb x) <= f_od (nd s x)).
    { intros x. destruct (Fa x) as [A1 [A2 A3]]. destruct (Fb x) as [B1 [B2 B3]]. destruct (F1 x) as [C1 C2].
      split; [congruence|]. split; [congruence | lia]. }
    split; [intros x; rewrite (proj1 (F x)); apply HS|].
    split; [exact HO'|]. split; [exact Ht|]. split; [exact Hk|].
    split; [intros x; rewrite (proj1 (proj2 (F x))); apply L1|].
    split; [intros x; apply (F x)|].
    rewrite Hpt, Nat.eqb_refl. reflexivity.
  Qed.

  (* ---------------------------------------------------------------- *)
  (* a node [it] without out-entries and an in-neighbour [iu] of it      *)
  Variables it iu : nat.
  Hypothesis Hit : it < length T.
  Hypothesis Hiu : iu < length T.
  Hypothesis Hout_t : f_out (fnode_at T it) = [].
  Hypothesis Hedge : In it (f_out (fnode_at T iu)).
  Hypothesis Hinj : forall a b, a < length T -> b < length T ->
    f_gix (fnode_at T a) = f_gix (fnode_at T b) -> a = b.

  Let gt := f_gix (fnode_at T it).
  Let gu := f_gix (fnode_at T iu).

  Lemma it_ne_iu : it <> iu.
  Proof. intros E. rewrite <- E, Hout_t in Hedge. destruct Hedge. Qed.

  Definition PP (s : fstate) : Prop :=
    Inv s /\ St s /\ OD s /\ length (fs_nodes s) = length T /\ f_od (nd s it) = 0.

  Lemma pop_PP s k i s1 : PP s -> pop_bucket s k = Some (i, s1) ->
    PP (update_neighbours s1 i) /\ i < length T /\
    f_gix (nd s1 i) = f_gix (fnode_at T i) /\
    (forall x, live (update_neighbours s1 i) x = if Nat.eqb x i then false else live s x) /\
    (k <> BSink -> i <> it) /\
    (k = BSink -> i = iu -> live s it = false).
  Proof.
    intros [HI [HS [HO [HL H0]]]] P.
    destruct (pop_step_deg s k i s1 HI HS HO P) as [HS' [HO' [Ht [Hk [HLv [Hod Hg]]]]]].
    pose proof (pop_step s k i s1 HI P) as [HI' _].
    assert (Hi : i < length T) by (rewrite <- HL; apply inlist_lt; exact Ht).
    split; [|split; [exact Hi|split; [|split; [exact HLv|split]]]].
    - split; [exact HI'|]. split; [exact HS'|]. split; [exact HO'|]. split.
      + rewrite update_neighbours_len, (pop_bucket_len _ _ _ _ P). exact HL.
      + specialize (Hod it). lia.
    - rewrite Hg. pose proof (HS i) as B. unfold stat in B. congruence.
    - intros Hne E. subst i. apply Hne. rewrite <- Hk. unfold suitable. rewrite H0. reflexivity.
    - intros -> ->. destruct (live s it) eqn:Lt; [|reflexivity]. exfalso.
      assert (Hz : f_od (nd s iu) = 0).
      { unfold suitable in Hk. destruct (Nat.eqb_spec (f_od (nd s iu)) 0) as [E|_]; [exact E|].
        destruct (Nat.eqb (f_id (nd s iu)) 0); discriminate Hk. }
      specialize (HO iu Ht). rewrite Hz in HO.
      assert (Eo : f_out (nd s iu) = f_out (fnode_at T iu)) by (pose proof (HS iu) as B; unfold stat in B; congruence).
      rewrite Eo in HO. unfold outl in HO.
      assert (Hin : In it (filter (fun x => negb (Nat.eqb x iu) && live s x) (f_out (fnode_at T iu)))).
      { apply filter_In. split; [exact Hedge|]. rewrite Lt.
        destruct (Nat.eqb_spec it iu) as [E|_]; [exfalso; exact (it_ne_iu E) | reflexivity]. }
      destruct (filter _ (f_out (fnode_at T iu))); [destruct Hin | cbn [length] in HO; lia].
  Qed.

  Lemma drain_ord k : forall fuel s acc s' out, PP s -> drain fuel k s acc = (s', out) ->
    PP s' /\ exists em, out = acc ++ em /\
      (live s' it = false -> live s it = false \/ In gt em) /\
      (k <> BSink -> ~ In gt em /\ live s' it = live s it) /\
      (k = BSink -> In gu em -> live s it = false \/ exists p q, em = p ++ q /\ In gt p /\ In gu q).
  Proof.
    induction fuel as [|f IH]; intros s acc s' out HP; cbn [drain].
    - intros H; inversion H; subst. split; [exact HP|]. exists []. rewrite app_nil_r.
      split; [reflexivity|]. split; [intros E; left; exact E|]. split; [intros _; split; [intros [] | reflexivity] | intros _ []].
    - destruct (pop_bucket s k) as [[i s1]|] eqn:P.
      + intros H. destruct (pop_PP s k i s1 HP P) as [HP' [Hi [Hg [HLv [Hne Hsk]]]]].
        destruct (IH _ _ _ _ HP' H) as [HP'' [em [Eo [C1 [C2 C3]]]]].
        split; [exact HP''|]. exists (f_gix (nd s1 i) :: em).
        split; [rewrite Eo, <- app_assoc; reflexivity|].
        assert (Hflip : live (update_neighbours s1 i) it = false -> live s it = false \/ f_gix (nd s1 i) = gt).
        { rewrite HLv. destruct (Nat.eqb_spec it i) as [E|_]; [intros _; right; rewrite Hg, <- E; reflexivity | intros E; left; exact E]. }
        split; [|split].
        * intros E. destruct (C1 E) as [E'|E']; [|right; right; exact E'].
          destruct (Hflip E') as [E''|E'']; [left; exact E'' | right; left; exact E''].
        * intros Hk. destruct (C2 Hk) as [N1 L1]. specialize (Hne Hk). split.
          -- intros [E|E]; [|exact (N1 E)]. apply Hne. rewrite Hg in E. apply Hinj; assumption.
          -- rewrite L1, HLv. destruct (Nat.eqb_spec it i) as [E|_]; [exfalso; apply Hne; symmetry; exact E | reflexivity].
        * intros Hk [E|E].
          -- left. apply (Hsk Hk). rewrite Hg in E. apply Hinj; assumption.
          -- destruct (C3 Hk E) as [E'|[p [q [Ep [Hp Hq]]]]].
             ++ destruct (Hflip E') as [E''|E'']; [left; exact E''|].
                right. exists [f_gix (nd s1 i)], em. split; [reflexivity|]. split; [left; exact E'' | exact E].
             ++ right. exists (f_gix (nd s1 i) :: p), q. split; [rewrite Ep; reflexivity|]. split; [right; exact Hp | exact Hq].
      + intros H; inversion H; subst. split; [exact HP|]. exists []. rewrite app_nil_r.
        split; [reflexivity|]. split; [intros E; left; exact E|]. split; [intros _; split; [intros [] | reflexivity] | intros _ []].
  Qed.

  Definition Iord (s : fstate) (s1 s2 : list nat) : Prop :=
    ~ In gt s1 /\ (In gu s2 -> exists a b, s2 = a ++ b /\ In gu a /\ In gt b) /\ (live s it = false -> In gt s2).

  Lemma loop_ord df : forall fuel s s1 s2, PP s -> Iord s s1 s2 ->
    exists r1 r2, fas_loop_g df fuel s s1 s2 = r1 ++ r2 /\ ~ In gt r1 /\
                  (In gu r2 -> exists a b, r2 = a ++ b /\ In gu a /\ In gt b).
  Proof.
    induction fuel as [|f IH]; intros s s1 s2 HP [I1 [I2 I3]]; cbn [fas_loop_g].
    - exists s1, s2. split; [reflexivity|]. split; assumption.
    - destruct (drain df BSink s []) as [sa sinks] eqn:D1.
      destruct (drain_ord BSink _ _ _ _ _ HP D1) as [HPa [em1 [E1 [A1 [_ A3]]]]]. cbn [app] in E1. subst em1.
      destruct (drain df BSource sa []) as [sb sources] eqn:D2.
      destruct (drain_ord BSource _ _ _ _ _ HPa D2) as [HPb [em2 [E2 [_ [B2 _]]]]]. cbn [app] in E2. subst em2.
      destruct (B2 ltac:(discriminate)) as [Ns Ls].
      assert (J1 : ~ In gt (s1 ++ sources)) by (rewrite in_app_iff; intros [H|H]; [exact (I1 H) | exact (Ns H)]).
      assert (J3 : live sa it = false -> In gt (rev sinks ++ s2)).
      { intros E. apply in_or_app. destruct (A1 E) as [E'|E']; [right; exact (I3 E') | left; apply in_rev in E'; exact E']. }
      assert (J2 : In gu (rev sinks ++ s2) -> exists a b, rev sinks ++ s2 = a ++ b /\ In gu a /\ In gt b).
      { intros H. apply in_app_or in H. destruct H as [H|H].
        - assert (H' : In gu sinks) by (apply in_rev; exact H).
          destruct (A3 eq_refl H') as [E|[p [q [Ep [Hp Hq]]]]].
          + exists (rev sinks), s2. split; [reflexivity|]. split; [exact H | exact (I3 E)].
          + exists (rev q), (rev p ++ s2). split; [rewrite Ep, rev_app_distr, app_assoc; reflexivity|].
            split; [apply in_rev in Hq; exact Hq | apply in_or_app; left; apply in_rev in Hp; exact Hp].
        - destruct (I2 H) as [a [b [E [Ha Hb]]]]. exists (rev sinks ++ a), b.
          split; [rewrite E, app_assoc; reflexivity|]. split; [apply in_or_app; right; exact Ha | exact Hb]. }
      assert (Fin : exists r1 r2, (s1 ++ sources) ++ rev sinks ++ s2 = r1 ++ r2 /\ ~ In gt r1 /\
                                  (In gu r2 -> exists a b, r2 = a ++ b /\ In gu a /\ In gt b)).
      { exists (s1 ++ sources), (rev sinks ++ s2). split; [reflexivity|]. split; assumption. }
      assert (Ib : Iord sb (s1 ++ sources) (rev sinks ++ s2)).
      { split; [exact J1|]. split; [exact J2|]. rewrite Ls. exact J3. }
      destruct (best_delta (fs_dd sb)) as [d|].
      + destruct (pop_bucket sb (BDelta d)) as [[i sc]|] eqn:P; [|exact Fin].
        destruct (pop_PP sb (BDelta d) i sc HPb P) as [HPc [Hi [Hg [HLv [Hne _]]]]].
        specialize (Hne ltac:(discriminate)).
        apply IH; [exact HPc|]. split; [|split; [exact J2|]].
        * rewrite in_app_iff. intros [H|[H|[]]]; [exact (J1 H)|]. apply Hne. rewrite Hg in H. apply Hinj; assumption.
        * rewrite HLv. destruct (Nat.eqb_spec it i) as [E|_]; [exfalso; apply Hne; symmetry; exact E|].
          rewrite Ls. exact J3.
      + destruct sinks as [|x sinks]; [destruct sources as [|y sources]; [exact Fin|]|]; apply IH; assumption.
  Qed.
End Deg.

(* ------------------------------------------------------------------ *)
(* build_nodes: the out- and in-lists are the edges, as table indices   *)

Lemma lookup_gix_some_strong ns g : forall i j, lookup_gix ns i g = Some j ->
  i <= j /\ j - i < length ns /\ f_gix (nth (j - i) ns dflt_node) = g.
Proof.
  induction ns as [|n t IH]; intros i j; cbn [lookup_gix length]; [discriminate|].
  destruct (Nat.eqb_spec (f_gix n) g) as [E|E].
  - intros H; inversion H; subst. rewrite Nat.sub_diag. cbn [nth]. repeat split; try lia.
  - intros H. destruct (IH _ _ H) as [H1 [H2 H3]]. split; [lia|]. split; [lia|].
    replace (j - i) with (S (j - S i)) by lia. exact H3.
Qed.

Lemma node_entry_spec ns g ns' a : node_entry ns g = (ns', a) ->
  a < length ns' /\ f_gix (fnode_at ns' a) = g /\ length ns <= length ns' /\
  (forall x, f_out (fnode_at ns' x) = f_out (fnode_at ns x) /\ f_in (fnode_at ns' x) = f_in (fnode_at ns x)) /\
  (forall x, x < length ns -> f_gix (fnode_at ns' x) = f_gix (fnode_at ns x)).
Proof.
  unfold node_entry. destruct (lookup_gix ns 0 g) as [j|] eqn:L; intros H; inversion H; subst; clear H.
  - destruct (lookup_gix_some_strong _ _ _ _ L) as [_ [H2 H3]]. rewrite Nat.sub_0_r in H2, H3.
    split; [exact H2|]. split; [exact H3|]. split; [lia|]. split; [intros x; split; reflexivity | intros x _; reflexivity].
  - rewrite app_length. cbn [length]. split; [lia|]. unfold fnode_at. split.
    { rewrite app_nth2 by lia. rewrite Nat.sub_diag. reflexivity. }
    split; [lia|]. split.
    + intros x. destruct (lt_dec x (length ns)) as [Hx|Hx].
      * rewrite app_nth1 by exact Hx. split; reflexivity.
      * rewrite (nth_overflow ns) by lia. destruct (Nat.eq_dec x (length ns)) as [->|Hne].
        -- rewrite app_nth2 by lia. rewrite Nat.sub_diag. split; reflexivity.
        -- rewrite nth_overflow by (rewrite app_length; cbn [length]; lia). split; reflexivity.
    + intros x Hx. rewrite app_nth1 by exact Hx. reflexivity.
Qed.

Lemma add_edge_pt ns a b : a < length ns -> b < length ns ->
  let na := fnode_at ns a in
  let ns3 := set_at ns a (mkFn (f_gix na) (f_out na ++ [b]) (f_in na) (f_od na) (f_id na) (f_inlist na)) in
  let nb := fnode_at ns3 b in
  let R := set_at ns3 b (mkFn (f_gix nb) (f_out nb) (f_in nb ++ [a]) (f_od nb) (f_id nb) (f_inlist nb)) in
  length R = length ns /\
  forall x, f_gix (fnode_at R x) = f_gix (fnode_at ns x) /\
            f_out (fnode_at R x) = f_out (fnode_at ns x) ++ (if Nat.eqb x a then [b] else []) /\
            f_in (fnode_at R x) = f_in (fnode_at ns x) ++ (if Nat.eqb x b then [a] else []).
Proof.
  intros Ha Hb na ns3 nb R.
  assert (L3 : length ns3 = length ns) by (unfold ns3; apply set_at_length).
  split; [unfold R; rewrite set_at_length; exact L3|].
  assert (P3 : forall x, f_gix (fnode_at ns3 x) = f_gix (fnode_at ns x) /\
                         f_out (fnode_at ns3 x) = f_out (fnode_at ns x) ++ (if Nat.eqb x a then [b] else []) /\
                         f_in (fnode_at ns3 x) = f_in (fnode_at ns x)).
  { intros x. unfold ns3, fnode_at. destruct (Nat.eqb_spec x a) as [->|Hx].
    - rewrite nth_set_at_same by exact Ha. cbn [f_gix f_out f_in]. repeat split.
    - rewrite nth_set_at_other by (intros E; apply Hx; symmetry; exact E). rewrite app_nil_r. repeat split. }
  intros x. unfold R. unfold fnode_at at 1 3 5. destruct (Nat.eqb_spec x b) as [->|Hx].
  - rewrite nth_set_at_same by (rewrite L3; exact Hb). cbn [f_gix f_out f_in]. unfold nb.
    destruct (P3 b) as [A [B C]]. rewrite A, B, C. repeat split.
  - rewrite nth_set_at_other by (intros E; apply Hx; symmetry; exact E).
    destruct (P3 x) as [A [B C]]. unfold fnode_at in A, B, C. rewrite A, B, C, app_nil_r. repeat split.
Qed.

Definition BI (done : list (nat * nat)) (ns : list fnode) : Prop :=
  (forall a b, count_occ Nat.eq_dec (f_out (fnode_at ns a)) b = count_occ Nat.eq_dec (f_in (fnode_at ns b)) a) /\
  (forall s t, In (s, t) done -> exists a b, a < length ns /\ b < length ns /\
     f_gix (fnode_at ns a) = s /\ f_gix (fnode_at ns b) = t /\ In b (f_out (fnode_at ns a))) /\
  (forall a b, In b (f_out (fnode_at ns a)) ->
     a < length ns /\ b < length ns /\ In (f_gix (fnode_at ns a), f_gix (fnode_at ns b)) done).

Lemma BI_step done ns st : BI done ns -> BI (done ++ [st]) (add_edge_entry ns st).
Proof.
  intros [Sy [E1 E2]]. destruct st as [s t]. unfold add_edge_entry. cbn [fst snd].
  destruct (node_entry ns s) as [ns1 a] eqn:N1. destruct (node_entry_spec _ _ _ _ N1) as [Ha [Ga [L1 [F1 G1]]]].
  destruct (node_entry ns1 t) as [ns2 b] eqn:N2. destruct (node_entry_spec _ _ _ _ N2) as [Hb [Gb [L2 [F2 G2]]]].
  assert (Ha2 : a < length ns2) by lia.
  destruct (add_edge_pt ns2 a b Ha2 Hb) as [LR PR]. cbv zeta in LR, PR.
  set (R := set_at _ b _) in *.
  assert (Fo : forall x, f_out (fnode_at R x) = f_out (fnode_at ns x) ++ (if Nat.eqb x a then [b] else [])).
  { intros x. rewrite (proj1 (proj2 (PR x))), (proj1 (F2 x)), (proj1 (F1 x)). reflexivity. }
  assert (Fi : forall x, f_in (fnode_at R x) = f_in (fnode_at ns x) ++ (if Nat.eqb x b then [a] else [])).
  { intros x. rewrite (proj2 (proj2 (PR x))), (proj2 (F2 x)), (proj2 (F1 x)). reflexivity. }
  assert (Fg : forall x, x < length ns -> f_gix (fnode_at R x) = f_gix (fnode_at ns x)).
  { intros x Hx. rewrite (proj1 (PR x)), G2 by lia. apply G1. exact Hx. }
  assert (Fga : f_gix (fnode_at R a) = s) by (rewrite (proj1 (PR a)), G2 by exact Ha; exact Ga).
  assert (Fgb : f_gix (fnode_at R b) = t) by (rewrite (proj1 (PR b)); exact Gb).
  split; [|split].
  - intros x y. rewrite Fo, Fi, !count_occ_app, Sy.
    destruct (Nat.eqb_spec x a) as [->|Hx]; destruct (Nat.eqb_spec y b) as [->|Hy]; cbn [count_occ];
      repeat match goal with |- context [Nat.eq_dec ?p ?q] => destruct (Nat.eq_dec p q) end; try congruence; lia.
  - intros s' t' Hin. apply in_app_or in Hin. destruct Hin as [Hin|[E|[]]].
    + destruct (E1 _ _ Hin) as [a0 [b0 [A0 [B0 [GA [GB I0]]]]]]. exists a0, b0.
      split; [lia|]. split; [lia|]. split; [rewrite Fg; assumption|]. split; [rewrite Fg; assumption|].
      rewrite Fo. apply in_or_app. left. exact I0.
    + inversion E; subst s' t'. exists a, b. split; [lia|]. split; [lia|]. split; [exact Fga|]. split; [exact Fgb|].
      rewrite Fo, Nat.eqb_refl. apply in_or_app. right. left. reflexivity.
  - intros x y Hin. rewrite Fo in Hin. apply in_app_or in Hin. destruct Hin as [Hin|Hin].
    + destruct (E2 _ _ Hin) as [A0 [B0 I0]]. split; [lia|]. split; [lia|].
      rewrite !Fg by assumption. apply in_or_app. left. exact I0.
    + destruct (Nat.eqb_spec x a) as [->|Hx]; [|destruct Hin]. destruct Hin as [<-|[]].
      split; [lia|]. split; [lia|]. rewrite Fga, Fgb. apply in_or_app. right. left. reflexivity.
Qed.

Lemma BI_fold es : forall done ns, BI done ns -> BI (done ++ es) (fold_left add_edge_entry es ns).
Proof.
  induction es as [|st r IH]; intros done ns H; cbn [fold_left]; [rewrite app_nil_r; exact H|].
  replace (done ++ st :: r) with ((done ++ [st]) ++ r) by (rewrite <- app_assoc; reflexivity).
  apply IH, BI_step, H.
Qed.

Lemma build_nodes_pt es x :
  fnode_at (build_nodes es) x =
  let n := fnode_at (fold_left add_edge_entry es []) x in
  mkFn (f_gix n) (f_out n) (f_in n) (length (f_out n)) (length (f_in n)) false.
Proof.
  unfold build_nodes, fnode_at.
  change dflt_node with ((fun n => mkFn (f_gix n) (f_out n) (f_in n) (length (f_out n)) (length (f_in n)) false) dflt_node) at 1.
  rewrite map_nth. reflexivity.
Qed.

Lemma BI_build es : BI es (build_nodes es).
Proof.
  assert (H0 : BI [] []).
  { split; [|split].
    - intros a b. unfold fnode_at. destruct a, b; reflexivity.
    - intros s t [].
    - intros a b. unfold fnode_at. destruct a; intros []. }
  pose proof (BI_fold es [] [] H0) as [Sy [E1 E2]]. cbn [app] in E1, E2.
  assert (L : length (build_nodes es) = length (fold_left add_edge_entry es [])) by (unfold build_nodes; apply map_length).
  split; [|split].
  - intros a b. rewrite !build_nodes_pt. cbn [f_out f_in]. apply Sy.
  - intros s t Hin. destruct (E1 _ _ Hin) as [a [b H]]. exists a, b. rewrite !build_nodes_pt, L. cbn [f_gix f_out]. exact H.
  - intros a b. rewrite !build_nodes_pt, L. cbn [f_gix f_out]. apply E2.
Qed.

(* ------------------------------------------------------------------ *)
(* positions in a split list                                            *)

Lemma index_of_app_in x A B : forall i, In x A -> index_of x (A ++ B) i = index_of x A i.
Proof.
  induction A as [|h t IH]; intros i Hin; [destruct Hin|]. cbn [app index_of].
  destruct (Nat.eqb_spec h x) as [E|E]; [reflexivity|].
  destruct Hin as [Hx|Hx]; [contradiction | apply IH; exact Hx].
Qed.

Lemma index_of_app_notin x A B : forall i, ~ In x A -> index_of x (A ++ B) i = index_of x B (i + length A).
Proof.
  induction A as [|h t IH]; intros i Hni; cbn [app length index_of]; [rewrite Nat.add_0_r; reflexivity|].
  destruct (Nat.eqb_spec h x) as [E|E]; [exfalso; apply Hni; left; exact E|].
  rewrite IH by (intros H; apply Hni; right; exact H). f_equal. lia.
Qed.

Lemma pos_split (A B : list nat) x y : NoDup (A ++ B) -> In x A -> In y B -> pos x (A ++ B) < pos y (A ++ B).
Proof.
  intros Hnd Hx Hy. unfold pos.
  assert (Hny : ~ In y A).
  { intros H. clear - Hnd H Hy. induction A as [|h t IH]; [destruct H|]. cbn [app] in Hnd. inversion Hnd as [|? ? Hni Hnd']; subst.
    destruct H as [->|H]; [apply Hni; apply in_or_app; right; exact Hy | exact (IH Hnd' H)]. }
  rewrite (index_of_app_in x A B 0 Hx), (index_of_app_notin y A B 0 Hny).
  destruct (index_of_in x A 0 Hx) as [a Ea]. destruct (index_of_in y B (0 + length A) Hy) as [b Eb].
  rewrite Ea, Eb. destruct (index_of_lt _ _ _ _ Ea) as [Ha _]. destruct (index_of_lt _ _ _ _ Eb) as [Hb _]. lia.
Qed.

(* ------------------------------------------------------------------ *)
(* F4: sinks last                                                       *)

Lemma filter_len_le {A} (f : A -> bool) (l : list A) : length (filter f l) <= length l.
Proof. induction l as [|h t IH]; cbn [filter length]; [lia|]. destruct (f h); cbn [length]; lia. Qed.

Lemma init_state_nodes es : fs_nodes (init_state es) = map (fun n => set_inlist n true) (build_nodes es).
Proof.
  unfold init_state. set (ns := build_nodes es).
  destruct (push_all ns [] (mkFs ns [] [] [])) as [_ En].
  - reflexivity.
  - intros n Hn. exact (build_nodes_inlist es n Hn).
  - split.
    + intros k i. assert (Eb : bucket_get (mkFs ns [] [] []) k = []) by (destruct k; reflexivity).
      rewrite Eb. cbn [In fs_nodes]. split; [intros [] | intros [Ht _]].
      assert (Hi := inlist_lt (mkFs ns [] [] []) i Ht). cbn [fs_nodes] in Hi.
      rewrite (build_nodes_inlist es (fnode_at ns i)) in Ht; [discriminate|]. unfold fnode_at. apply nth_In. exact Hi.
    + intros k. assert (Eb : bucket_get (mkFs ns [] [] []) k = []) by (destruct k; reflexivity).
      rewrite Eb. constructor.
    + cbn [fs_dd map]. constructor.
  - exact En.
Qed.

Lemma init_state_pt es x :
  nd (init_state es) x =
  if Nat.ltb x (length (build_nodes es)) then set_inlist (fnode_at (build_nodes es) x) true else dflt_node.
Proof.
  rewrite init_state_nodes. unfold fnode_at. destruct (Nat.ltb_spec x (length (build_nodes es))) as [H|H].
  - rewrite (nth_indep _ dflt_node (set_inlist dflt_node true)) by (rewrite map_length; exact H).
    apply (map_nth (fun n => set_inlist n true)).
  - apply nth_overflow. rewrite map_length. exact H.
Qed.

Theorem sinks_last es s t : In (s, t) es -> (forall x, ~ In (t, x) es) ->
  pos s (good_node_sequence es) < pos t (good_node_sequence es).
Proof.
  intros Hst Hsink. set (T := build_nodes es).
  destruct (BI_build es) as [Sy [E1 E2]]. fold T in Sy, E1, E2.
  destruct (E1 _ _ Hst) as [iu [it [Hiu [Hit [Gu [Gt Hedge]]]]]].
  assert (Hout : f_out (fnode_at T it) = []).
  { destruct (f_out (fnode_at T it)) as [|y l] eqn:E; [reflexivity|]. exfalso.
    destruct (E2 it y) as [_ [_ H]]; [rewrite E; left; reflexivity|]. rewrite Gt in H. exact (Hsink _ H). }
  assert (Hinj : forall a b, a < length T -> b < length T -> f_gix (fnode_at T a) = f_gix (fnode_at T b) -> a = b).
  { intros a b Ha Hb E. destruct (build_nodes_endpoints es) as [Hnd _]. fold T in Hnd.
    apply (proj1 (NoDup_nth (map f_gix T) (f_gix dflt_node)) Hnd a b); try (rewrite map_length; assumption).
    rewrite !(map_nth f_gix). exact E. }
  destruct (init_state_spec es) as [HI _].
  assert (Hpt := init_state_pt es). fold T in Hpt.
  assert (HP : PP T it (init_state es)).
  { split; [exact HI|]. split; [|split; [|split]].
    - intros x. rewrite Hpt. destruct (Nat.ltb_spec x (length T)) as [H|H]; [reflexivity|].
      unfold fnode_at. rewrite nth_overflow by exact H. reflexivity.
    - intros u Hu. unfold live in Hu. rewrite Hpt in Hu. rewrite Hpt.
      destruct (Nat.ltb_spec u (length T)) as [H|H]; [|discriminate Hu].
      cbn [count_occ set_inlist f_od f_out]. unfold T. rewrite build_nodes_pt. cbn [f_od f_out].
      unfold outl. rewrite Nat.add_0_r. apply filter_len_le.
    - rewrite init_state_len. reflexivity.
    - rewrite Hpt. destruct (Nat.ltb_spec it (length T)) as [H|H]; [|lia].
      cbn [set_inlist f_od]. pose proof Hout as Ho. unfold T in Ho |- *. rewrite build_nodes_pt in Ho |- *.
      cbn [f_od f_out] in Ho |- *. rewrite Ho. reflexivity. }
  assert (HIo : Iord T it iu (init_state es) [] []).
  { split; [intros []|]. split; [intros []|]. unfold live. rewrite Hpt.
    destruct (Nat.ltb_spec it (length T)) as [H|H]; [discriminate | lia]. }
  destruct (loop_ord T Sy it iu Hit Hiu Hout Hedge Hinj (S (length T)) (S (length T)) (init_state es) [] [] HP HIo)
    as [r1 [r2 [Er [N1 Sp]]]].
  assert (Eg : good_node_sequence es = r1 ++ r2).
  { rewrite good_node_sequence_as_fuel. unfold good_node_sequence_fuel. exact Er. }
  destruct (sequence_is_an_ordering es) as [Hnd Hin].
  assert (Hs : In s (r1 ++ r2)) by (rewrite <- Eg; apply Hin; exists s, t; split; [exact Hst | left; reflexivity]).
  assert (Ht : In t (r1 ++ r2)) by (rewrite <- Eg; apply Hin; exists s, t; split; [exact Hst | right; reflexivity]).
  rewrite Eg in Hnd |- *. rewrite Gt in N1. rewrite Gu, Gt in Sp.
  apply in_app_or in Ht. destruct Ht as [Ht|Ht]; [contradiction|].
  apply in_app_or in Hs. destruct Hs as [Hs|Hs].
  - apply pos_split; assumption.
  - destruct (Sp Hs) as [a [b [E [Ha Hb]]]]. rewrite E, app_assoc in Hnd |- *.
    apply pos_split; [exact Hnd | apply in_or_app; right; exact Ha | exact Hb].
Qed.

Lemma nodup_id4_inj (l : list (nat * nat * nat * Z)) e s t w s' t' w' :
  NoDup (map id4 l) -> In (e, s, t, w) l -> In (e, s', t', w') l -> (e, s', t', w') = (e, s, t, w).
Proof.
  induction l as [|q l IH]; intros Hnd Hin Hq; [destruct Hin|]. cbn [map] in Hnd.
  inversion Hnd as [|? ? Hni Hnd']; subst.
  destruct Hq as [Hq|Hq]; destruct Hin as [Hin|Hin].
  - congruence.
  - exfalso. apply Hni. subst q. apply in_map_iff. exists (e, s, t, w). split; [reflexivity | exact Hin].
  - exfalso. apply Hni. subst q. apply in_map_iff. exists (e, s', t', w'). split; [reflexivity | exact Hq].
  - exact (IH Hnd' Hin Hq).
Qed.

(* on a view: an edge into a node without outgoing edges points forward, so it is not returned *)
Theorem sinks_last_view v e s t w : In (e, s, t, w) (verefs v) ->
  (forall e' x w', ~ In (e', t, x, w') (verefs v)) ->
  pos s (fas_seq v) < pos t (fas_seq v) /\ (NoDup (map id4 (verefs v)) -> ~ In e (greedy_fas v)).
Proof.
  intros Hin Hsink.
  assert (Hp : pos s (fas_seq v) < pos t (fas_seq v)).
  { unfold fas_seq. apply sinks_last.
    - unfold es_of. apply in_map_iff. exists (e, s, t, w). split; [reflexivity | exact Hin].
    - intros x Hx. unfold es_of in Hx. apply in_map_iff in Hx. destruct Hx as [[[[e' s'] t'] w'] [E Hq]].
      inversion E; subst. exact (Hsink _ _ _ Hq). }
  split; [exact Hp|]. intros Hnd Hg. apply greedy_fas_in in Hg. destruct Hg as [s' [t' [w' [Hq Hle]]]].
  assert (E : (e, s', t', w') = (e, s, t, w)) by exact (nodup_id4_inj _ _ _ _ _ _ _ _ Hnd Hin Hq).
  inversion E; subst. lia.
Qed.
