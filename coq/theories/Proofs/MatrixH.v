(* C04, part 4: histories.  Every reachable MatrixGraph state refines the
   abstract simple graph obtained by replaying the same operations on the
   specification. *)
From PG Require Import Lib.ListArr Lib.Io Model.MatrixM Spec.MatrixSpec
  Proofs.MatrixReloc Proofs.MatrixTri Proofs.MatrixP.
Require Import Lia.

Record Abs (directed : bool) (g : mg) (s : sg) : Prop := {
  ab_inv : MInv directed g;
  ab_elive : ELive directed g;
  ab_nw : forall i, get_node_weight g i = s_nw s i;
  ab_ew : forall x y, get_edge_weight directed g x y = s_ew s x y
}.

Lemma abs_live directed g s i : Abs directed g s -> (live g i <-> sg_live s i).
Proof.
  intros A. unfold sg_live. rewrite <- (ab_nw _ _ _ A). apply (mi_live _ _ (ab_inv _ _ _ A)).
Qed.

(* a state that differs only in matrix capacity *)
Lemma abs_same directed g g' s :
  Abs directed g s -> MInv directed g' -> same_ids g g' ->
  (forall x y, get_edge_weight directed g' x y = get_edge_weight directed g x y) ->
  Abs directed g' s.
Proof.
  intros [I EL Hnw Hew] I' Hids Hget. constructor; auto.
  - intros x y w. rewrite Hget. intros H. destruct (EL x y w H) as [Hx Hy].
    split; apply (same_ids_live g g'); auto.
  - intros i. rewrite (same_ids_gnw g g') by auto. auto.
  - intros x y. rewrite Hget. auto.
Qed.

Lemma abs_set_edge directed g g' s a b v :
  Abs directed g s -> MInv directed g' -> same_ids g g' ->
  (v <> None -> live g a /\ live g b) ->
  (forall x y, get_edge_weight directed g' x y =
               if same_pairb directed a b x y then v else get_edge_weight directed g x y) ->
  Abs directed g' (sg_set_edge directed s a b v).
Proof.
  intros [I EL Hnw Hew] I' Hids Hv Hget. constructor; auto.
  - intros x y w. rewrite Hget. destruct (same_pairb directed a b x y) eqn:S.
    + intros H. assert (Hv' : v <> None) by congruence. destruct (Hv Hv') as [La Lb].
      apply same_pairb_endpoint in S.
      destruct S as [[-> ->]|[-> ->]]; split; apply (same_ids_live g g'); auto.
    + intros H. destruct (EL x y w H) as [Hx Hy].
      split; apply (same_ids_live g g'); auto.
  - intros i. rewrite (same_ids_gnw g g') by auto. cbn [sg_set_edge s_nw]. auto.
  - intros x y. rewrite Hget. cbn [sg_set_edge s_ew]. rewrite Hew. reflexivity.
Qed.

(* ------------------------------------------------------------------ *)
(* One lemma per operation                                             *)

Definition spec_upd (directed notzero : bool) (s : sg) (a b w : nat) : sg :=
  if andb notzero (Nat.eqb w 0) then s else sg_set_edge directed s a b (Some w).

Lemma abs_update_edge directed notzero debug g s a b w :
  Abs directed g s -> live g a -> live g b ->
  exists r g', update_edge directed notzero debug g a b w = Ok (r, g') /\
    Abs directed g' (spec_upd directed notzero s a b w) /\
    (r = inl tt \/ r = inr (get_edge_weight directed g a b)).
Proof.
  intros A La Lb. pose proof (ab_inv _ _ _ A) as I.
  destruct (update_edge_spec directed notzero debug g a b w I) as [Hz Hnz].
  unfold spec_upd. destruct (andb notzero (Nat.eqb w 0)) eqn:Z.
  - destruct (Hz eq_refl) as (g1 & E & I1 & Hids & _ & Hget).
    exists (inl tt), g1. split; auto. split; auto.
    apply (abs_same directed g); auto.
  - destruct (Hnz eq_refl) as (g' & E & I' & Hids & _ & _ & _ & Hget).
    eexists _, g'. split; [exact E|]. split; auto.
    apply (abs_set_edge directed g); auto.
Qed.

Lemma abs_remove_edge directed g s a b :
  Abs directed g s ->
  exists g', remove_edge directed g a b = Ok (get_edge_weight directed g a b, g') /\
    Abs directed g' (sg_set_edge directed s a b None).
Proof.
  intros A. pose proof (ab_inv _ _ _ A) as I.
  destruct (remove_edge_spec directed g a b I) as (g' & E & I' & Hids & _ & _ & Hget).
  exists g'. split; auto. apply (abs_set_edge directed g); auto. congruence.
Qed.

Lemma abs_add_node directed cap capcheck g s w :
  Abs directed g s ->
  (try_add_node cap capcheck g w = Ok (inl NodeIxLimit, g) /\ add_node cap capcheck g w = Panic) \/
  (exists g', try_add_node cap capcheck g w = Ok (inr (next_id g), g') /\
     add_node cap capcheck g w = Ok (next_id g, g') /\
     ~ sg_live s (next_id g) /\
     Abs directed g' (sg_add_node s (next_id g) w)).
Proof.
  intros A. pose proof (ab_inv _ _ _ A) as I. destruct A as [_ EL Hnw Hew].
  destruct (add_node_spec directed cap capcheck g w I) as [Hz Hnz].
  destruct (andb capcheck (Nat.eqb (ids_len g) cap)) eqn:Z; [left; auto|right].
  destruct (Hnz eq_refl) as (g' & E1 & E2 & Hnl & Ha & Hc & Hn & I' & Hlv & Hgnw).
  exists g'. split; auto. split; auto. split.
  - unfold sg_live. rewrite <- Hnw. rewrite <- (mi_live _ _ I). auto.
  - constructor; auto.
    + intros x y w'. rewrite (get_ext directed g g') by auto. intros H.
      destruct (EL x y w' H) as [Hx Hy]. rewrite !Hlv. auto.
    + intros i. rewrite Hgnw. cbn [sg_add_node s_nw]. rewrite Hnw. reflexivity.
    + intros x y. rewrite (get_ext directed g g') by auto. cbn [sg_add_node s_ew]. auto.
Qed.

Lemma elive_row_none directed g a : ELive directed g -> ~ live g a ->
  forall y, get_edge_weight directed g a y = None /\ get_edge_weight directed g y a = None.
Proof.
  intros EL Ha y. split.
  - destruct (get_edge_weight directed g a y) as [w|] eqn:G; auto.
    destruct (EL _ _ _ G). tauto.
  - destruct (get_edge_weight directed g y a) as [w|] eqn:G; auto.
    destruct (EL _ _ _ G). tauto.
Qed.

Lemma abs_remove_node directed g s a :
  Abs directed g s ->
  exists g', remove_node directed g a = Ok (s_nw s a, g') /\
    Abs directed g' (match s_nw s a with Some _ => sg_remove_node s a | None => s end) /\
    (forall y, get_edge_weight directed g' a y = None /\ get_edge_weight directed g' y a = None).
Proof.
  intros A. pose proof (ab_inv _ _ _ A) as I. pose proof (abs_live directed g s a A) as Hla.
  destruct A as [_ EL Hnw Hew].
  destruct (remove_node_spec directed g a I)
    as (g' & E & I' & Hc & Hoth & Hmono & Hin & Hlv & Hgnw & _).
  rewrite Hnw in E. exists g'. split; auto.
  assert (Hrow : forall y, get_edge_weight directed g' a y = None /\ get_edge_weight directed g' y a = None).
  { intros y. split.
    - destruct (get_edge_weight directed g' a y) as [w|] eqn:G; auto.
      pose proof (Hmono _ _ _ G) as G0. destruct (EL _ _ _ G0) as [_ Ly].
      destruct (Hin y Ly). congruence.
    - destruct (get_edge_weight directed g' y a) as [w|] eqn:G; auto.
      pose proof (Hmono _ _ _ G) as G0. destruct (EL _ _ _ G0) as [Ly _].
      destruct (Hin y Ly). congruence. }
  split; auto.
  assert (EL' : ELive directed g').
  { intros x y w G. pose proof (Hmono _ _ _ G) as G0. destruct (EL _ _ _ G0) as [Lx Ly].
    rewrite !Hlv. split; split; auto.
    - intros ->. destruct (Hrow y). congruence.
    - intros ->. destruct (Hrow x). congruence. }
  destruct (s_nw s a) as [wa|] eqn:Sa.
  - constructor; auto.
    + intros i. rewrite Hgnw. cbn [sg_remove_node s_nw]. rewrite Hnw. reflexivity.
    + intros x y. cbn [sg_remove_node s_ew].
      destruct (Nat.eqb_spec x a) as [->|Hx]; cbn [orb]; [apply Hrow|].
      destruct (Nat.eqb_spec y a) as [->|Hy]; [apply Hrow|].
      rewrite Hoth; auto.
  - assert (Hdead : ~ live g a). { rewrite Hla. unfold sg_live. rewrite Sa. tauto. }
    constructor; auto.
    + intros i. rewrite Hgnw. destruct (Nat.eqb_spec i a) as [->|Hne]; [congruence|apply Hnw].
    + intros x y. rewrite <- Hew.
      destruct (Nat.eq_dec x a) as [->|Hx].
      { destruct (elive_row_none directed g a EL Hdead y) as [-> _]. apply Hrow. }
      destruct (Nat.eq_dec y a) as [->|Hy].
      { destruct (elive_row_none directed g a EL Hdead x) as [_ ->]. apply Hrow. }
      apply Hoth; auto.
Qed.

Lemma abs_clear directed g s : Abs directed g s -> Abs directed (clear g) sg_empty.
Proof.
  intros A. destruct (clear_spec directed g (ab_inv _ _ _ A)) as (I' & Hget & Hlv & Hgnw).
  constructor; auto.
  intros x y w. rewrite Hget. discriminate.
Qed.

Lemma abs_with_capacity directed debug k :
  exists g0, with_capacity directed debug k = Ok g0 /\ ncap g0 = k /\ Abs directed g0 sg_empty.
Proof.
  destruct (with_capacity_spec directed debug k) as (g0 & E & I & Hc & Hget & Hlv & Hgnw).
  exists g0. split; auto. split; auto. constructor; auto.
  intros x y w. rewrite Hget. discriminate.
Qed.

(* ------------------------------------------------------------------ *)
(* One step of the harness grammar                                     *)

Lemma arg_zn i rest : arg (zn i :: rest) 0 = i.
Proof. unfold arg, nz, zn. cbn [nth]. apply Nat2Z.id. Qed.

Ltac red_step :=
  cbn [mut fst snd first_line hd rmap rbind merr_line opt_line
       TAG_PANIC TAG_NAT TAG_ERR TAG_LIMIT TAG_NONE TAG_SOME TAG_UNIT Nat.eqb].

Lemma assert_node_bounds_some g a b e : assert_node_bounds g a b = Some e -> exists i, e = NodeMissed i.
Proof.
  unfold assert_node_bounds. destruct (Nat.leb (ncap g) a); [intros H; inversion H; eauto|].
  destruct (Nat.leb (ncap g) b); [intros H; inversion H; eauto|discriminate].
Qed.

Lemma assert_node_bounds_lt g a b : a < ncap g -> b < ncap g -> assert_node_bounds g a b = None.
Proof.
  intros Ha Hb. unfold assert_node_bounds.
  replace (Nat.leb (ncap g) a) with false by (symmetry; apply Nat.leb_gt; lia).
  replace (Nat.leb (ncap g) b) with false by (symmetry; apply Nat.leb_gt; lia).
  reflexivity.
Qed.

Lemma abs_try_update_edge directed notzero debug g s a b w :
  Abs directed g s -> live g a -> live g b ->
  exists r g', try_update_edge directed notzero debug g a b w = Ok (r, g') /\
    ((exists i, r = UErr (NodeMissed i)) /\ g' = g \/
     (r = UPanic \/ r = UOld (get_edge_weight directed g a b)) /\
     Abs directed g' (spec_upd directed notzero s a b w)).
Proof.
  intros A La Lb. unfold try_update_edge.
  destruct (assert_node_bounds g a b) as [e|] eqn:B.
  - destruct (assert_node_bounds_some _ _ _ _ B) as [i ->].
    exists (UErr (NodeMissed i)), g. split; auto. left. split; eauto.
  - destruct (abs_update_edge directed notzero debug g s a b w A La Lb) as (r & g' & E & A' & Hr).
    rewrite E. cbn [rmap]. eexists _, g'. split; [reflexivity|]. right. split; auto.
    destruct Hr as [->| ->]; auto.
Qed.

Lemma step_abs directed notzero debug cap capcheck g s o :
  Abs directed g s -> op_ok s o ->
  Abs directed (fst (step directed notzero debug cap capcheck g o))
      (spec_step directed notzero s o (first_line (snd (step directed notzero debug cap capcheck g o)))).
Proof.
  intros A Hok. destruct o as [code args]. unfold step, spec_step, op_ok in *.
  destruct code as [|[|[|[|[|[|[|[|[|[|[|[|[|[|[|code]]]]]]]]]]]]]]]; cbv beta iota zeta in *.
  - (* add_node *)
    destruct (abs_add_node directed cap capcheck g s (arg args 0) A) as [[_ E]|(g' & _ & E & _ & A')];
      rewrite E; red_step; auto.
    rewrite arg_zn. exact A'.
  - (* try_add_node *)
    destruct (abs_add_node directed cap capcheck g s (arg args 0) A) as [[E _]|(g' & E & _ & _ & A')];
      rewrite E; red_step; auto.
    rewrite arg_zn. exact A'.
  - (* remove_node *)
    destruct (abs_remove_node directed g s (arg args 0) A) as (g' & E & A' & _).
    rewrite E. red_step. exact A'.
  - (* add_edge *)
    destruct Hok as [Ha Hb]. apply (abs_live directed g s _ A) in Ha, Hb.
    destruct (abs_update_edge directed notzero debug g s _ _ (arg args 2) A Ha Hb) as (r & g' & E & A' & _).
    unfold add_edge. rewrite E. red_step. exact A'.
  - (* update_edge *)
    destruct Hok as [Ha Hb]. apply (abs_live directed g s _ A) in Ha, Hb.
    destruct (abs_update_edge directed notzero debug g s _ _ (arg args 2) A Ha Hb) as (r & g' & E & A' & _).
    rewrite E. red_step. exact A'.
  - (* try_update_edge *)
    destruct Hok as [Ha Hb]. apply (abs_live directed g s _ A) in Ha, Hb.
    destruct (abs_try_update_edge directed notzero debug g s _ _ (arg args 2) A Ha Hb)
      as (r & g' & E & [[[i ->] ->]|[Hr A']]).
    + rewrite E. red_step. exact A.
    + rewrite E. red_step.
      destruct Hr as [->| ->]; [red_step; exact A'|].
      destruct (get_edge_weight directed g (arg args 0) (arg args 1)); red_step; exact A'.
  - (* add_or_update_edge *)
    destruct Hok as [Ha Hb]. apply (abs_live directed g s _ A) in Ha, Hb.
    unfold add_or_update_edge.
    destruct (extend_for_edge_spec directed debug g (arg args 0) (arg args 1) (ab_inv _ _ _ A))
      as (g1 & E1 & I1 & Hids & _ & _ & La & Lb & Hget).
    assert (A1 : Abs directed g1 s) by (apply (abs_same directed g); auto).
    rewrite E1. cbn [rbind]. unfold try_update_edge. rewrite assert_node_bounds_lt by auto.
    apply (same_ids_live g g1) in Ha; auto. apply (same_ids_live g g1) in Hb; auto.
    destruct (abs_update_edge directed notzero debug g1 s _ _ (arg args 2) A1 Ha Hb) as (r & g' & E & A' & _).
    rewrite E. red_step. exact A'.
  - (* remove_edge *)
    destruct (abs_remove_edge directed g s (arg args 0) (arg args 1) A) as (g' & E & A').
    rewrite E. red_step. exact A'.
  - (* try_remove_edge *)
    destruct (abs_remove_edge directed g s (arg args 0) (arg args 1) A) as (g' & E & A').
    unfold try_remove_edge. rewrite E. red_step. exact A'.
  - (* clear *)
    cbn [fst]. apply (abs_clear directed g s A).
  - exact A.
  - exact A.
  - exact A.
  - exact A.
  - exact A.
  - exact A.
Qed.

Theorem replay_abs directed notzero debug cap capcheck ops : forall g s,
  Abs directed g s -> hist_ok directed notzero debug cap capcheck g s ops ->
  Abs directed (fst (replay directed notzero debug cap capcheck g s ops))
               (snd (replay directed notzero debug cap capcheck g s ops)).
Proof.
  induction ops as [|o rest IH]; intros g s A H.
  - exact A.
  - cbn [replay hist_ok] in *. destruct H as [Hok H].
    pose proof (step_abs directed notzero debug cap capcheck g s o A Hok) as A'.
    destruct (step directed notzero debug cap capcheck g o) as [g' out].
    cbn [fst snd] in A'. apply IH; auto.
Qed.

(* ------------------------------------------------------------------ *)
(* The other entry points are update_edge in disguise                  *)

Definition ures_of (p : (unit + option nat) * mg) : ures * mg :=
  let '(r, g') := p in (match r with inl _ => UPanic | inr o => UOld o end, g').

Theorem try_update_edge_cases directed notzero debug g a b w :
  (a < ncap g -> b < ncap g ->
     try_update_edge directed notzero debug g a b w =
     rmap ures_of (update_edge directed notzero debug g a b w)) /\
  (ncap g <= a \/ ncap g <= b ->
     exists i, try_update_edge directed notzero debug g a b w = Ok (UErr (NodeMissed i), g)).
Proof.
  split.
  - intros Ha Hb. unfold try_update_edge. rewrite assert_node_bounds_lt by auto. reflexivity.
  - intros H. unfold try_update_edge.
    destruct (assert_node_bounds g a b) as [e|] eqn:B.
    + destruct (assert_node_bounds_some _ _ _ _ B) as [i ->]. eauto.
    + exfalso. unfold assert_node_bounds in B.
      destruct (Nat.leb_spec (ncap g) a); [discriminate|].
      destruct (Nat.leb_spec (ncap g) b); [discriminate|]. lia.
Qed.

Theorem add_or_update_edge_eq directed notzero debug g a b w : MInv directed g ->
  add_or_update_edge directed notzero debug g a b w =
  rmap ures_of (update_edge directed notzero debug g a b w).
Proof.
  intros I. unfold add_or_update_edge.
  destruct (extend_for_edge_spec directed debug g a b I) as (g1 & E1 & _ & _ & _ & _ & La & Lb & _).
  unfold update_edge at 1. rewrite E1. cbn [rbind].
  destruct (try_update_edge_cases directed notzero debug g1 a b w) as [H _].
  rewrite (H La Lb). unfold update_edge. rewrite (extend_for_edge_id directed debug g1 a b La Lb).
  reflexivity.
Qed.

Theorem elive_update_edge directed notzero debug g a b w r g' :
  MInv directed g -> ELive directed g -> live g a -> live g b ->
  update_edge directed notzero debug g a b w = Ok (r, g') -> ELive directed g'.
Proof.
  intros I EL La Lb E.
  destruct (update_edge_spec directed notzero debug g a b w I) as [Hz Hnz].
  destruct (andb notzero (Nat.eqb w 0)) eqn:Z.
  - destruct (Hz eq_refl) as (g1 & E1 & _ & Hids & _ & Hget).
    rewrite E1 in E. inversion E; subst r g1; clear E.
    intros x y v. rewrite Hget. intros G. destruct (EL _ _ _ G).
    split; apply (same_ids_live g g'); auto.
  - destruct (Hnz eq_refl) as (g2 & E2 & _ & Hids & _ & _ & _ & Hget).
    rewrite E2 in E. inversion E; subst r g2; clear E.
    apply (elive_set_edge directed g g' a b (Some w)); auto.
Qed.

Theorem elive_remove_edge directed g a b r g' :
  MInv directed g -> ELive directed g ->
  remove_edge directed g a b = Ok (r, g') -> ELive directed g'.
Proof.
  intros I EL E.
  destruct (remove_edge_spec directed g a b I) as (g2 & E2 & _ & Hids & _ & _ & Hget).
  rewrite E2 in E. inversion E; subst r g2; clear E.
  apply (elive_set_edge directed g g' a b None); auto. congruence.
Qed.
