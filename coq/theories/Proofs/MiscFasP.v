(* C20/Q3: fas_check accepts exactly the feedback arc sets that contain every self-loop. *)
From PG Require Import Lib.Io Model.View Model.Traversal Model.AlgoBasic Model.MiscM
                       Spec.Reach Spec.AlgoSpec Spec.MiscSpec Proofs.MiscColorP Props.C09.

(* ------------------------------------------------------------------ *)
(* the view without the listed edges                                    *)

Definition keep_e (ids : list nat) (e : eref) : bool := negb (mem (eid e) ids).

Lemma assoc_nat_map_filter (f : eref -> bool) (l : list (nat * list eref)) a :
  assoc_nat (map (fun '(a, l) => (a, filter f l)) l) a =
  match assoc_nat l a with Some es => Some (filter f es) | None => None end.
Proof.
  induction l as [|[k es] t IH]; cbn [map assoc_nat]; [reflexivity|].
  destruct (Nat.eqb k a); [reflexivity | exact IH].
Qed.

Lemma out_edges_without v ids a :
  out_edges (without_edges v ids) a = filter (keep_e ids) (out_edges v a).
Proof.
  unfold out_edges, without_edges. cbn [vout].
  change (fun e : eref => negb (mem (eid e) ids)) with (keep_e ids).
  rewrite assoc_nat_map_filter. destruct (assoc_nat (vout v) a); reflexivity.
Qed.

Lemma in_edges_without v ids a :
  in_edges (without_edges v ids) a = filter (keep_e ids) (in_edges v a).
Proof.
  unfold in_edges, without_edges. cbn [vin].
  change (fun e : eref => negb (mem (eid e) ids)) with (keep_e ids).
  rewrite assoc_nat_map_filter. destruct (assoc_nat (vin v) a); reflexivity.
Qed.

Lemma in_map_tgt (l : list eref) b : In b (map tgt l) <-> exists e w, In (e, b, w) l.
Proof.
  rewrite in_map_iff. split.
  - intros [[[e t] w] [E H]]. cbn in E. subst t. exists e, w. exact H.
  - intros [e [w H]]. exists (e, b, w). split; [reflexivity | exact H].
Qed.

Lemma in_map_tgt_filter ids (l : list eref) b :
  In b (map tgt (filter (keep_e ids) l)) <-> exists e w, In (e, b, w) l /\ ~ In e ids.
Proof.
  rewrite in_map_tgt. split; intros [e [w H]]; exists e, w.
  - apply filter_In in H. destruct H as [H K]. split; [exact H|].
    unfold keep_e in K. apply negb_true_iff, mem_false in K. exact K.
  - destruct H as [H K]. apply filter_In. split; [exact H|].
    unfold keep_e. apply negb_true_iff, mem_false. exact K.
Qed.

(* the steps left are exactly the edges of v whose id is not listed *)
Theorem without_edges_step v ids a b :
  step (without_edges v ids) a b <-> exists e w, In (e, b, w) (out_edges v a) /\ ~ In e ids.
Proof. unfold step, neighbors. rewrite out_edges_without. apply in_map_tgt_filter. Qed.

Lemma without_edges_step_sub v ids a b : step (without_edges v ids) a b -> step v a b.
Proof.
  rewrite without_edges_step. intros [e [w [H _]]]. unfold step, neighbors. apply in_map_tgt. eauto.
Qed.

Lemma without_edges_nodes v ids : vnodes (without_edges v ids) = vnodes v.
Proof. reflexivity. Qed.

(* well-formedness is kept *)
Theorem without_edges_VOk {v} ids : VOk v -> inout_ids_ok v -> VOk (without_edges v ids).
Proof.
  intros [[Hc1 Hc2] [Hn Hio]] Hids. split; [split|split].
  - intros a b Hb. apply without_edges_step_sub in Hb. exact (Hc1 a b Hb).
  - exact Hc2.
  - intros a b Hb. apply without_edges_step_sub in Hb. exact (Hn a b Hb).
  - intros a b Hb. cbn [without_edges vnodes] in Hb.
    change (In b (neighbors (without_edges v ids) a)) with (step (without_edges v ids) a b).
    rewrite without_edges_step. unfold neighbors_in. rewrite in_edges_without, in_map_tgt_filter.
    split; intros [e [w [H K]]]; exists e, w; (split; [|exact K]); apply (Hids a b e w Hb); exact H.
Qed.

(* nothing else changes *)
Lemma without_edges_nil_step v a b : step (without_edges v []) a b <-> step v a b.
Proof.
  rewrite without_edges_step. unfold step, neighbors. rewrite in_map_tgt.
  split; [intros [e [w [H _]]]; eauto | intros [e [w H]]; exists e, w; split; [exact H | intros []]].
Qed.

(* ------------------------------------------------------------------ *)
(* the checker                                                          *)

Definition fas_b1 (v : view) (ids : list nat) : bool :=
  andb (nodupb ids) (forallb (fun e => mem e (edge_ids v)) ids).
Definition fas_b2 (v : view) (ids : list nat) : bool :=
  forallb (fun '(e, s, t, _) => orb (negb (Nat.eqb s t)) (mem e ids)) (verefs v).

Lemma fas_check_unfold v ids :
  fas_check v ids =
  if negb (fas_b1 v ids) then 1
  else if negb (fas_b2 v ids) then 2
  else match toposort (without_edges v ids) with Ok (inr _) => 0 | _ => 3 end.
Proof. reflexivity. Qed.

Lemma fas_b1_iff v ids : fas_b1 v ids = true <-> NoDup ids /\ incl ids (edge_ids v).
Proof.
  unfold fas_b1. rewrite andb_true_iff, nodupb_iff, forallb_forall. unfold incl.
  split; intros [H1 H2]; (split; [exact H1|]); intros e He; apply mem_In, H2, He.
Qed.

Lemma fas_b2_iff v ids : fas_b2 v ids = true <-> forall e s w, In (e, s, s, w) (verefs v) -> In e ids.
Proof.
  unfold fas_b2. rewrite forallb_forall. split.
  - intros H e s w Hin. specialize (H _ Hin). cbn beta iota in H.
    rewrite Nat.eqb_refl in H. cbn [negb orb] in H. apply mem_In, H.
  - intros H [[[e s] t] w] Hin. destruct (Nat.eqb_spec s t) as [->|Hn]; [|reflexivity].
    cbn [negb orb]. apply mem_In. eapply H, Hin.
Qed.

Lemma toposort_ok_iff {v} : VOk v ->
  (match toposort v with Ok (inr _) => 0 | _ => 3 end = 0 <-> acyclic v) /\
  (match toposort v with Ok (inr _) => 0 | _ => 3 end = 3 <-> exists n, In n (vnodes v) /\ on_cycle v n).
Proof.
  intros Hv. destruct (C09_toposort_iff_acyclic v Hv) as [H1 H2].
  destruct (C09_toposort_total v Hv) as [r E]. rewrite E in *. destruct r as [n|l].
  - split.
    + split; [discriminate|]. intros Ha. apply H1 in Ha. destruct Ha as [l Hl]. discriminate Hl.
    + split; [|reflexivity]. intros _. apply H2. exists n. reflexivity.
  - split.
    + split; [|reflexivity]. intros _. apply H1. exists l. reflexivity.
    + split; [discriminate|]. intros Hc. apply H2 in Hc. destruct Hc as [n Hn]. discriminate Hn.
Qed.

Theorem fas_check_iff v ids : VOk v -> inout_ids_ok v ->
  (fas_check v ids = 0 <-> FasOK v ids).
Proof.
  intros Hv Hids. pose proof (without_edges_VOk ids Hv Hids) as Hv'.
  destruct (toposort_ok_iff Hv') as [Ht _].
  rewrite fas_check_unfold. unfold FasOK.
  rewrite <- Ht, <- fas_b2_iff.
  assert (H1 := fas_b1_iff v ids).
  destruct (fas_b1 v ids); cbn [negb].
  - destruct (fas_b2 v ids); cbn [negb].
    + destruct H1 as [H1 _]. destruct (H1 eq_refl) as [Ha Hb]. tauto.
    + split; [discriminate | intros [_ [_ [H _]]]; discriminate H].
  - split; [discriminate|]. intros [Ha [Hb _]]. destruct H1 as [_ H1]. specialize (H1 (conj Ha Hb)). discriminate H1.
Qed.

(* the meaning of every verdict *)
Theorem fas_check_verdicts v ids : VOk v -> inout_ids_ok v ->
  (fas_check v ids = 1 <-> ~ (NoDup ids /\ incl ids (edge_ids v))) /\
  (fas_check v ids = 2 <-> (NoDup ids /\ incl ids (edge_ids v)) /\
                           exists e s w, In (e, s, s, w) (verefs v) /\ ~ In e ids) /\
  (fas_check v ids = 3 <-> (NoDup ids /\ incl ids (edge_ids v)) /\
                           (forall e s w, In (e, s, s, w) (verefs v) -> In e ids) /\
                           exists n, In n (vnodes v) /\ on_cycle (without_edges v ids) n) /\
  fas_check v ids <= 3.
Proof.
  intros Hv Hids. pose proof (without_edges_VOk ids Hv Hids) as Hv'.
  destruct (toposort_ok_iff Hv') as [Ht0 Ht3]. cbn [without_edges vnodes] in Ht3.
  rewrite fas_check_unfold. rewrite <- Ht3, <- fas_b2_iff, <- fas_b1_iff.
  assert (Hex : fas_b2 v ids = false <-> exists e s w, In (e, s, s, w) (verefs v) /\ ~ In e ids).
  { unfold fas_b2. split.
    - intros H. induction (verefs v) as [|[[[e s] t] w] r IH]; [discriminate H|].
      cbn [forallb] in H. apply andb_false_iff in H. destruct H as [H|H].
      + apply orb_false_iff in H. destruct H as [H1 H2]. apply negb_false_iff, Nat.eqb_eq in H1. subst t.
        apply mem_false in H2. exists e, s, w. split; [left; reflexivity | exact H2].
      + destruct (IH H) as [e' [s' [w' [Hi Hn]]]]. exists e', s', w'. split; [right; exact Hi | exact Hn].
    - intros [e [s [w [Hi Hn]]]]. destruct (forallb _ (verefs v)) eqn:E; [|reflexivity].
      exfalso. apply Hn. exact (proj1 (fas_b2_iff v ids) E e s w Hi). }
  rewrite <- Hex.
  destruct (fas_b1 v ids); cbn [negb];
    [|intuition (try discriminate; try lia; try congruence)].
  destruct (fas_b2 v ids); cbn [negb];
    [|intuition (try discriminate; try lia; try congruence)].
  destruct (toposort (without_edges v ids)) as [[n|l]| |];
    intuition (try discriminate; try lia; try congruence).
Qed.

(* with edge_references consistent with the out-lists, the clauses read on the out-lists *)
Lemma fas_clauses_out v ids : erefs_out_ok v ->
  (incl ids (edge_ids v) <->
     forall e, In e ids -> exists a t w, In a (vnodes v) /\ In (e, t, w) (out_edges v a)) /\
  ((forall e s w, In (e, s, s, w) (verefs v) -> In e ids) <->
     forall a e w, In a (vnodes v) -> In (e, a, w) (out_edges v a) -> In e ids).
Proof.
  intros [He _]. split.
  - unfold incl, edge_ids. split.
    + intros H e Hin. specialize (H e Hin). apply in_map_iff in H.
      destruct H as [[[[e' a] t] w] [E Hq]]. subst e'. apply He in Hq. exists a, t, w. exact Hq.
    + intros H e Hin. destruct (H e Hin) as [a [t [w Hq]]]. apply He in Hq.
      apply in_map_iff. exists (e, a, t, w). split; [reflexivity | exact Hq].
  - split.
    + intros H a e w Ha Hin. apply (H e a w). apply He. split; assumption.
    + intros H e s w Hin. apply He in Hin. destruct Hin as [Ha Hin]. exact (H s e w Ha Hin).
Qed.

(* a self-loop that is left makes a cycle: on consistent views the self-loop clause follows from acyclicity *)
Lemma fas_loops_from_acyclic v ids : erefs_out_ok v -> acyclic (without_edges v ids) ->
  forall e s w, In (e, s, s, w) (verefs v) -> In e ids.
Proof.
  intros [He _] Hac e s w Hin. destruct (in_dec Nat.eq_dec e ids) as [H|H]; [exact H|]. exfalso.
  apply He in Hin. destruct Hin as [_ Hin]. apply (Hac s). exists s. split; [|apply reach_refl].
  apply without_edges_step. exists e, w. split; assumption.
Qed.
