(* The C02b theorems in explicit form: meaning of the records used by the second-round proofs,
   filter_map in the vocabulary of the invariant, and concrete states computed by the model. *)
From PG Require Import Lib.Io Lib.ListArr Lib.ListExtra Lib.Walk Model.GraphM Model.StableM Model.StableIO
  Proofs.GraphP Proofs.GraphRE Proofs.StableP Proofs.StableE Proofs.StableT Proofs.StableH
  Proofs.StableU Proofs.StableX Proofs.StableFM Proofs.StableH2.

Section Final2.
  Variable cap : nat.
  Variable capcheck : bool.
  Variable debug : bool.

  Notation adj := (@adj (option nat) (option nat) cap).
  Notation SInv := (SInv cap).

  Lemma other_is_meaning (g : IG) k b x :
    other_is g k b x = true <-> epo (gedges g) (1 - k) x = Some b.
  Proof. unfold other_is. apply eqo_true. Qed.

  Lemma joins_meaning (g : IG) x a b :
    joins g x a b <->
    ewo g x <> None /\ epo (gedges g) 0 x = Some a /\ epo (gedges g) 1 x = Some b.
  Proof. unfold joins. tauto. Qed.

  Lemma same_links_meaning s s' :
    same_links cap s s' <->
    length (gnodes (sg s')) = length (gnodes (sg s)) /\
    length (gedges (sg s')) = length (gedges (sg s)) /\
    (forall j, nwo (sg s') j = None <-> nwo (sg s) j = None) /\
    (forall x, ewo (sg s') x = None <-> ewo (sg s) x = None) /\
    (forall k x, epo (gedges (sg s')) k x = epo (gedges (sg s)) k x) /\
    (forall k i l, adj (sg s) k i l <-> adj (sg s') k i l) /\
    (forall i, fnx (sg s') i = fnx (sg s) i) /\
    (forall x, fex (sg s') x = fex (sg s) x) /\
    (forall i, hdn (gnodes (sg s')) 1 i = hdn (gnodes (sg s)) 1 i) /\
    ncount s' = ncount s /\ ecount s' = ecount s /\
    free_node s' = free_node s /\ free_edge s' = free_edge s.
  Proof.
    split.
    - intros []. tauto.
    - intros H. decompose [and] H. constructor; assumption.
  Qed.

  Lemma occ_post_meaning s idx w s' :
    occ_post cap s idx w s' <->
    nwo (sg s') idx = Some w /\
    (forall j, j <> idx -> nwo (sg s') j = nwo (sg s) j) /\
    gedges (sg s') = gedges (sg s) /\
    length (gnodes (sg s')) = length (gnodes (sg s)) /\
    (forall k j l, nwo (sg s) j <> None -> adj (sg s) k j l -> adj (sg s') k j l) /\
    (forall k, adj (sg s') k idx []) /\
    ncount s' = S (ncount s) /\ ecount s' = ecount s /\ free_edge s' = free_edge s /\
    (exists l1 l2,
       lseg (fnx (sg s)) (free_node s) (l1 ++ idx :: l2) cap /\
       lseg (fnx (sg s')) (free_node s') (l1 ++ l2) cap /\ bkp (sg s') cap (l1 ++ l2)).
  Proof.
    split.
    - intros []. tauto.
    - intros H. decompose [and] H. constructor; assumption.
  Qed.

  Lemma ens_post_meaning s ix s' :
    ens_post cap s ix s' <->
    nwo (sg s') ix = Some 0 /\
    (forall j, j <> ix -> nwo (sg s') j = nwo (sg s) j) /\
    gedges (sg s') = gedges (sg s) /\
    length (gnodes (sg s')) = Nat.max (length (gnodes (sg s))) (S ix) /\
    (forall k j l, nwo (sg s) j <> None -> adj (sg s) k j l -> adj (sg s') k j l) /\
    (forall k, adj (sg s') k ix []) /\
    ncount s' = S (ncount s) /\ ecount s' = ecount s /\ free_edge s' = free_edge s /\
    (forall l, lseg (fnx (sg s)) (free_node s) l cap ->
       exists l1 l2,
         rev (seq (length (gnodes (sg s))) (S ix - length (gnodes (sg s)))) ++ l = l1 ++ ix :: l2 /\
         lseg (fnx (sg s')) (free_node s') (l1 ++ l2) cap /\ bkp (sg s') cap (l1 ++ l2)).
  Proof.
    split.
    - intros []. tauto.
    - intros H. decompose [and] H. constructor; assumption.
  Qed.

  Lemma avu_post_meaning s n s' :
    avu_post cap s n s' <->
    (forall j, nwo (sg s') j = nwo (sg s) j) /\
    gedges (sg s') = gedges (sg s) /\
    length (gnodes (sg s')) = length (gnodes (sg s)) + n /\
    (forall k j l, nwo (sg s) j <> None -> adj (sg s) k j l -> adj (sg s') k j l) /\
    ncount s' = ncount s /\ ecount s' = ecount s /\ free_edge s' = free_edge s /\
    (forall l, lseg (fnx (sg s)) (free_node s) l cap ->
       lseg (fnx (sg s')) (free_node s') (rev (seq (length (gnodes (sg s))) n) ++ l) cap).
  Proof.
    split.
    - intros []. tauto.
    - intros H. decompose [and] H. constructor; assumption.
  Qed.

  Lemma keeps_meaning s s' :
    keeps s s' <->
    (forall j w, nwo (sg s) j = Some w -> nwo (sg s') j = Some w) /\
    (forall x w, ewo (sg s) x = Some w -> ewo (sg s') x = Some w) /\
    (forall k x, ewo (sg s) x <> None -> epo (gedges (sg s')) k x = epo (gedges (sg s)) k x) /\
    length (gnodes (sg s)) <= length (gnodes (sg s')) /\
    length (gedges (sg s)) <= length (gedges (sg s')).
  Proof.
    split.
    - intros []. tauto.
    - intros H. decompose [and] H. constructor; assumption.
  Qed.

  Lemma added_meaning s s' a b w x :
    added s s' (a, b, w) x <->
    ewo (sg s) x = None /\ ewo (sg s') x = Some w /\
    epo (gedges (sg s')) 0 x = Some a /\ epo (gedges (sg s')) 1 x = Some b.
  Proof. unfold added. cbn [fst snd]. tauto. Qed.

  Lemma endp_meaning es j :
    endp es j <-> exists a b w, In (a, b, w) es /\ (j = a \/ j = b).
  Proof. unfold endp. tauto. Qed.

  Lemma ext_room_meaning s es :
    ext_room cap capcheck s es <->
    (capcheck = false ->
     (forall a b w, In (a, b, w) es -> a < cap /\ b < cap) /\
     length (gedges (sg s)) + length es <= cap).
  Proof. unfold ext_room. tauto. Qed.

  Lemma ext_result_meaning s es ok s' :
    ext_result cap capcheck s es ok s' <->
    SInv s' /\ keeps s s' /\
    (length (gnodes (sg s')) <= Nat.max (length (gnodes (sg s))) (S (maxep es)) /\
     length (gedges (sg s')) <= length (gedges (sg s)) + length es) /\
    (forall j, nwo (sg s) j = None -> nwo (sg s') j <> None -> nwo (sg s') j = Some 0 /\ endp es j) /\
    exists pre post xs,
      es = pre ++ post /\ Forall2 (added s s') pre xs /\ NoDup xs /\
      (forall x, ewo (sg s') x <> None <-> (ewo (sg s) x <> None \/ In x xs)) /\
      (forall j, endp pre j -> nwo (sg s') j <> None) /\
      ecount s' = ecount s + length pre /\
      (if ok then post = []
       else capcheck = true /\
            exists a b w post', post = (a, b, w) :: post' /\
              (((cap <= a \/ (nwo (sg s') a <> None /\ cap <= b)) /\ length (gnodes (sg s')) = cap) \/
               (a < cap /\ b < cap /\ free_edge s' = cap /\ length (gedges (sg s')) = cap))).
  Proof. unfold ext_result. tauto. Qed.

  Lemma desc_meaning l :
    desc l <-> forall i j x y, i < j -> nth_error l i = Some x -> nth_error l j = Some y -> y < x.
  Proof.
    induction l as [|h t IH]; cbn [desc].
    - split; auto. intros _ i j x y _ H. destruct i; discriminate.
    - rewrite IH. split.
      + intros [H1 H2] i j x y Hij Hi Hj. destruct j as [|j]; [lia|]. cbn [nth_error] in Hj.
        destruct i as [|i]; cbn [nth_error] in Hi.
        * injection Hi as <-. apply H1. eapply nth_error_In; eauto.
        * apply (H2 i j); auto. lia.
      + intros H. split.
        * intros y Hy. apply In_nth_error in Hy. destruct Hy as [j Hj].
          apply (H 0 (S j) h y); auto. lia.
        * intros i j x y Hij Hi Hj. apply (H (S i) (S j)); auto. lia.
  Qed.

  Lemma maxep_meaning es a b w : In (a, b, w) es -> a <= maxep es /\ b <= maxep es.
  Proof. apply maxep_in. Qed.

  (* U2 with the effect of the replacement spelled out *)
  Theorem F_update_edge directed s a b w :
    SInv s ->
    exists o, s_find_edge directed s a b = Ok o /\
      match o with
      | Some ix =>
          ewo (sg s) ix <> None /\
          exists s',
            s_try_update_edge cap capcheck debug directed s a b w = Ok (inr ix, s') /\
            SInv s' /\
            (forall x, ewo (sg s') x = if Nat.eqb x ix then Some w else ewo (sg s) x) /\
            (forall j, nwo (sg s') j = nwo (sg s) j) /\
            gnodes (sg s') = gnodes (sg s) /\
            same_links cap s s'
      | None =>
          s_try_update_edge cap capcheck debug directed s a b w
            = s_try_add_edge cap capcheck debug s a b w
      end.
  Proof.
    intros I. destruct (@s_try_update_edge_spec cap capcheck debug directed s a b w I) as [o [Hf Ho]].
    exists o. split; [exact Hf|]. destruct o as [ix|]; [|exact Ho].
    destruct Ho as [Hl Hrun]. split; [exact Hl|].
    destruct (@set_ew_spec cap s ix w I Hl) as [I' [H1 [H2 [H3 H4]]]].
    eexists. split; [exact Hrun|]. auto.
  Qed.

  (* weight assignment through IndexMut / node_weight_mut (step codes 16 and 17) *)
  Theorem F_set_weights s :
    SInv s ->
    (forall a w, nwo (sg s) a <> None ->
       exists s', rmap (with_g s) (upd_node (sg s) a (fun n => mkNode (Some w) (nnext n))) = Ok s' /\
         SInv s' /\
         (forall j, nwo (sg s') j = if Nat.eqb j a then Some w else nwo (sg s) j) /\
         (forall x, ewo (sg s') x = ewo (sg s) x) /\
         gedges (sg s') = gedges (sg s) /\ same_links cap s s') /\
    (forall e w, ewo (sg s) e <> None ->
       exists s', rmap (with_g s) (upd_edge (sg s) e (fun e0 => mkEdge (Some w) (enext e0) (enode e0))) = Ok s' /\
         SInv s' /\
         (forall x, ewo (sg s') x = if Nat.eqb x e then Some w else ewo (sg s) x) /\
         (forall j, nwo (sg s') j = nwo (sg s) j) /\
         gnodes (sg s') = gnodes (sg s) /\ same_links cap s s').
  Proof.
    intros I. split.
    - intros a w Hl. rewrite (upd_node_set_nw _ _ w Hl). cbn [rmap].
      eexists. split; [reflexivity|]. apply (@set_nw_spec cap s a w I Hl).
    - intros e w Hl. rewrite (upd_edge_set_ew _ _ w Hl). cbn [rmap].
      eexists. split; [reflexivity|]. apply (@set_ew_spec cap s e w I Hl).
  Qed.

  Lemma epo_of_live (g : IG) x : ewo g x <> None ->
    exists a b, epo (gedges g) 0 x = Some a /\ epo (gedges g) 1 x = Some b.
  Proof.
    unfold ewo, epo. destruct (nth_error (gedges g) x) as [e|]; [|congruence].
    intros _. simpl. eauto.
  Qed.

  (* F1 in the vocabulary of the invariant *)
  Theorem F_filter_map nmap emap s :
    SInv s ->
    exists s', s_filter_map cap capcheck debug nmap emap s = Ok s' /\ SInv s' /\
      (forall i, nwo (sg s') i = match nwo (sg s) i with Some w => nmap w | None => None end) /\
      (forall e, ewo (sg s') e =
         match ewo (sg s) e, epo (gedges (sg s)) 0 e, epo (gedges (sg s)) 1 e with
         | Some w, Some a, Some b =>
             if andb (isS (nwo (sg s') a)) (isS (nwo (sg s') b)) then emap w else None
         | _, _, _ => None
         end) /\
      (forall k e, ewo (sg s') e <> None -> epo (gedges (sg s')) k e = epo (gedges (sg s)) k e) /\
      length (gnodes (sg s')) = node_bound s /\ length (gedges (sg s')) = edge_bound s /\
      ncount s' = nsome (map (@nwt _ ) (gnodes (sg s'))) /\
      ecount s' = nsome (map (@ewt _) (gedges (sg s'))) /\
      (forall i, nwo (sg s') i = None <->
         (nwo (sg s) i = None \/ exists w, nwo (sg s) i = Some w /\ nmap w = None)) /\
      (forall e, ewo (sg s') e = None <->
         (ewo (sg s) e = None \/
          exists w a b, ewo (sg s) e = Some w /\
            epo (gedges (sg s)) 0 e = Some a /\ epo (gedges (sg s)) 1 e = Some b /\
            (nwo (sg s') a = None \/ nwo (sg s') b = None \/ emap w = None))) /\
      (forall l, lseg (fnx (sg s')) (free_node s') l cap -> desc l) /\
      (forall l, lseg (fex (sg s')) (free_edge s') l cap -> desc l) /\
      (forall k j l, nwo (sg s') j <> None -> adj (sg s') k j l -> desc l).
  Proof.
    intros I.
    destruct (@s_filter_map_spec cap capcheck debug nmap emap s I)
      as [s' [Hrun [I' [Hn [He [Hep [Hnl [Hel [Hfd [Hed Had]]]]]]]]]].
    assert (HE : forall e, ewo (sg s') e =
         match ewo (sg s) e, epo (gedges (sg s)) 0 e, epo (gedges (sg s)) 1 e with
         | Some w, Some a, Some b =>
             if andb (isS (nwo (sg s') a)) (isS (nwo (sg s') b)) then emap w else None
         | _, _, _ => None
         end).
    { intros e. rewrite He, fme_alt.
      destruct (ewo (sg s) e); [|reflexivity].
      destruct (epo (gedges (sg s)) 0 e) as [a|]; [|reflexivity].
      destruct (epo (gedges (sg s)) 1 e) as [b|]; [|reflexivity].
      rewrite !Hn. reflexivity. }
    exists s'. split; [exact Hrun|]. split; [exact I'|]. split; [exact Hn|]. split; [exact HE|].
    split; [exact Hep|]. split; [exact Hnl|]. split; [exact Hel|].
    split; [pose proof (si_nc I') as H; simpl in H; lia|]. split; [apply (si_ec I')|].
    split; [|split; [|split; [exact Hfd|split; [exact Hed|exact Had]]]].
    - intros i. rewrite Hn. unfold fmn. destruct (nwo (sg s) i) as [w|].
      + split; [intros H; right; eauto|]. intros [H|[w' [H1 H2]]]; congruence.
      + split; auto.
    - intros e. rewrite HE. destruct (ewo (sg s) e) as [w|] eqn:Ew; [|split; auto].
      destruct (@epo_of_live (sg s) e) as [a [b [Ha Hb]]]; [congruence|]. rewrite Ha, Hb.
      split.
      + intros H. right. exists w, a, b. split; auto. split; auto. split; auto.
        destruct (nwo (sg s') a); [|auto]. destruct (nwo (sg s') b); [|auto]. simpl in H. auto.
      + intros [H|[w' [a' [b' [H1 [H2 [H3 H4]]]]]]]; [discriminate|].
        injection H1 as <-. injection H2 as <-. injection H3 as <-.
        destruct H4 as [H4|[H4|H4]]; rewrite ?H4; simpl; auto.
        * destruct (nwo (sg s') a); auto.
        * destruct (nwo (sg s') a), (nwo (sg s') b); simpl; auto.
  Qed.
End Final2.

(* the slot-count bounds used by the history theorem for unchecked (usize) indices *)
Lemma bounds_meaning cap :
  (forall o n, nbound o n =
     match o with
     | PAddNode _ => S n
     | PClear => 0
     | PExtend es => Nat.max n (S (maxep es))
     | _ => n
     end) /\
  (forall o e, ebound o e =
     match o with
     | PAddEdge _ _ _ | PUpdateEdge _ _ _ => S e
     | PClear | PClearEdges => 0
     | PExtend es => e + length es
     | _ => e
     end) /\
  (forall n e, fits cap n e [] <-> True) /\
  (forall n e o ops, fits cap n e (o :: ops) <->
     (nbound o n <= cap /\ ebound o e <= cap /\ fits cap (nbound o n) (ebound o e) ops)).
Proof.
  split; [intros o n; destruct o; reflexivity|]. split; [intros o e; destruct o; reflexivity|].
  split; [intros; simpl; tauto|]. intros; simpl; tauto.
Qed.

(* ------------------------------------------------------------------ *)
(* Concrete states                                                     *)

Definition st_of (r : res sgraph) : sgraph := match r with Ok s => s | _ => sg_empty 0 end.

(* node slots (weight, (next, prev)), edge slots (weight, next, endpoints),
   (node_count, edge_count, free_node, free_edge), check_free_lists *)
Definition sview (cap : nat) (s : sgraph) :=
  (map (fun n => (nwt n, nnext n)) (gnodes (sg s)),
   map (fun e => (ewt e, enext e, enode e)) (gedges (sg s)),
   (ncount s, ecount s, free_node s, free_edge s), check_free_lists cap s).

(* five nodes, four edges; edge 1 and the nodes 1 and 3 removed: two node vacancies (free list 3 -> 1)
   and one edge vacancy *)
Definition demo2_ops : list sop2 :=
  [PAddNode 10; PAddNode 11; PAddNode 12; PAddNode 13; PAddNode 14;
   PAddEdge 0 2 100; PAddEdge 2 4 101; PAddEdge 4 0 102; PAddEdge 2 2 103;
   PRemoveEdge 1; PRemoveNode 1; PRemoveNode 3].
Definition demo2 : sgraph := st_of (run2 8 true true true (sg_empty 8) demo2_ops).

(* six nodes, the nodes 1, 3, 5 removed: free list 5 -> 3 -> 1 *)
Definition demo3_ops : list sop2 :=
  [PAddNode 10; PAddNode 11; PAddNode 12; PAddNode 13; PAddNode 14; PAddNode 15;
   PAddEdge 0 2 100; PAddEdge 2 4 101; PAddEdge 4 0 102; PAddEdge 2 2 103;
   PRemoveEdge 1; PRemoveNode 1; PRemoveNode 3; PRemoveNode 5].
Definition demo3 : sgraph := st_of (run2 8 true true true (sg_empty 8) demo3_ops).

Lemma demo2_inv : SInv 8 demo2 /\ SInv 8 demo3.
Proof.
  split.
  - destruct (@history2_ok 8 true true true demo2_ops) as [s [Hrun I]]; [discriminate|].
    unfold demo2. rewrite Hrun. exact I.
  - destruct (@history2_ok 8 true true true demo3_ops) as [s [Hrun I]]; [discriminate|].
    unfold demo3. rewrite Hrun. exact I.
Qed.

Lemma demo2_view :
  sview 8 demo2 =
    ([(Some 10, (0, 2)); (None, (8, 3)); (Some 12, (3, 3)); (None, (1, 8)); (Some 14, (2, 8))],
     [(Some 100, (8, 8), (0, 2)); (None, (8, 8), (8, 8)); (Some 102, (8, 8), (4, 0));
      (Some 103, (8, 0), (2, 2))],
     (3, 3, 3, 1), true) /\
  sview 8 demo3 =
    ([(Some 10, (0, 2)); (None, (8, 3)); (Some 12, (3, 3)); (None, (1, 5)); (Some 14, (2, 8));
      (None, (3, 8))],
     [(Some 100, (8, 8), (0, 2)); (None, (8, 8), (8, 8)); (Some 102, (8, 8), (4, 0));
      (Some 103, (8, 0), (2, 2))],
     (3, 3, 5, 1), true).
Proof. vm_compute. split; reflexivity. Qed.

(* occupy_vacant_node on the tail (demo2, slot 1) and in the middle (demo3, slot 3) of the free list *)
Lemma demo_occupy :
  rmap (sview 8) (occupy_vacant_node 8 true demo2 1 77) =
    Ok ([(Some 10, (0, 2)); (Some 77, (8, 8)); (Some 12, (3, 3)); (None, (8, 8)); (Some 14, (2, 8))],
        [(Some 100, (8, 8), (0, 2)); (None, (8, 8), (8, 8)); (Some 102, (8, 8), (4, 0));
         (Some 103, (8, 0), (2, 2))],
        (4, 3, 3, 1), true) /\
  rmap (sview 8) (occupy_vacant_node 8 true demo3 3 77) =
    Ok ([(Some 10, (0, 2)); (None, (8, 5)); (Some 12, (3, 3)); (Some 77, (8, 8)); (Some 14, (2, 8));
         (None, (1, 8))],
        [(Some 100, (8, 8), (0, 2)); (None, (8, 8), (8, 8)); (Some 102, (8, 8), (4, 0));
         (Some 103, (8, 0), (2, 2))],
        (4, 3, 5, 1), true) /\
  occupy_vacant_node 8 true demo2 5 77 = Panic.
Proof. vm_compute. repeat split; reflexivity. Qed.

(* filter_map dropping node 0 (weight 10), which carries the edges 0 and 2 *)
Lemma demo_filter_map :
  rmap (sview 8) (s_filter_map 8 true true (fun w => if Nat.eqb w 10 then None else Some (w + 100))
                               (fun w => Some (w + 1000)) demo2) =
    Ok ([(None, (8, 1)); (None, (0, 3)); (Some 112, (3, 3)); (None, (1, 8)); (Some 114, (8, 8))],
        [(None, (8, 8), (8, 8)); (None, (0, 8), (8, 8)); (None, (1, 8), (8, 8));
         (Some 1103, (8, 8), (2, 2))],
        (2, 1, 3, 2), true).
Proof. vm_compute. reflexivity. Qed.

Lemma demo_find_edge :
  (s_find_edge true demo2 0 2, s_find_edge true demo2 2 0, s_find_edge false demo2 2 0,
   s_find_edge_undirected demo2 0 4, s_find_edge_undirected demo2 2 2, s_find_edge true demo2 1 2,
   s_find_edge true demo2 9 2)
  = (Ok (Some 0), Ok None, Ok (Some 0), Ok (Some (2, 1)), Ok (Some (3, 0)), Ok None, Ok None).
Proof. vm_compute. reflexivity. Qed.

(* update_edge on the existing edge 0 -> 2, on the missing edge 2 -> 0 (added in the vacant slot 1),
   and towards the vacant node 1 *)
Lemma demo_update_edge :
  rmap (fun '(r, s) => (r, sview 8 s)) (s_try_update_edge 8 true true true demo2 0 2 555) =
    Ok (inr 0,
        ([(Some 10, (0, 2)); (None, (8, 3)); (Some 12, (3, 3)); (None, (1, 8)); (Some 14, (2, 8))],
         [(Some 555, (8, 8), (0, 2)); (None, (8, 8), (8, 8)); (Some 102, (8, 8), (4, 0));
          (Some 103, (8, 0), (2, 2))],
         (3, 3, 3, 1), true)) /\
  rmap (fun '(r, s) => (r, sview 8 s)) (s_try_update_edge 8 true true true demo2 2 0 556) =
    Ok (inr 1,
        ([(Some 10, (0, 1)); (None, (8, 3)); (Some 12, (1, 3)); (None, (1, 8)); (Some 14, (2, 8))],
         [(Some 100, (8, 8), (0, 2)); (Some 556, (3, 2), (2, 0)); (Some 102, (8, 8), (4, 0));
          (Some 103, (8, 0), (2, 2))],
         (3, 4, 3, 8), true)) /\
  s_try_update_edge 8 true true true demo2 1 0 557 = Ok (inl (NodeMissed 1), demo2).
Proof. vm_compute. repeat split; reflexivity. Qed.

(* extend_with_edges naming the vacant slot 1 and the slot 6 beyond the vector (slots 5, 6 are
   appended vacant, 6 and 1 are occupied with the default weight 0; the free list becomes 5 -> 3);
   and a list whose second edge names a node at the index limit: the first edge stays added, node 0
   exists, and the padding for node 9 fills the vector up to 8 slots before add_node(None) panics
   (the slots 5, 6, 7 stay behind, vacant, at the head of the free list: 7 -> 6 -> 5 -> 3) *)
Lemma demo_extend :
  (let '(ok, s) := s_extend_with_edges 8 true true demo2 [(1, 6, 500)] in (ok, sview 8 s)) =
    (true,
     ([(Some 10, (0, 2)); (Some 0, (1, 8)); (Some 12, (3, 3)); (None, (8, 5)); (Some 14, (2, 8));
       (None, (3, 8)); (Some 0, (8, 1))],
      [(Some 100, (8, 8), (0, 2)); (Some 500, (8, 8), (1, 6)); (Some 102, (8, 8), (4, 0));
       (Some 103, (8, 0), (2, 2))],
      (5, 4, 5, 8), true)) /\
  (let '(ok, s) := s_extend_with_edges 8 true true demo2 [(1, 2, 500); (0, 9, 501); (4, 4, 502)]
   in (ok, sview 8 s)) =
    (false,
     ([(Some 10, (0, 2)); (Some 0, (1, 8)); (Some 12, (3, 1)); (None, (8, 5)); (Some 14, (2, 8));
       (None, (3, 6)); (None, (5, 7)); (None, (6, 8))],
      [(Some 100, (8, 8), (0, 2)); (Some 500, (8, 3), (1, 2)); (Some 102, (8, 8), (4, 0));
       (Some 103, (8, 0), (2, 2))],
      (4, 4, 7, 8), true)).
Proof. vm_compute. split; reflexivity. Qed.

(* The index limit of a u8 graph (cap = 255, checked indices), as in the crate:
     let mut g = StableGraph::<u32, u32, Directed, u8>::default();
     g.add_node(1); g.add_node(2);
     g.extend_with_edges([(255, 0, 7)])     // panics
   ensure_node_exists(255) pushes the vacant slots 2 .. 254 and add_node(None) panics when the
   vector has 255 entries; the 253 slots stay behind.  Observed below: (number of node slots,
   node_count, edge_count, node_bound (= last live index + 1), free_node, check_free_lists,
   index returned by a following add_node).  With [(4, 255, 7)] node 4 is created first (slots
   2, 3, 4 pushed, 4 occupied), then the padding for 255 pushes 5 .. 254 and panics. *)
Definition two255 : sgraph :=
  st_of (rbind (s_try_add_node 255 true true (sg_empty 255) 1) (fun '(_, s) =>
         rmap snd (s_try_add_node 255 true true s 2))).
Definition limit_obs (s : sgraph) :=
  (length (gnodes (sg s)), ncount s, ecount s, node_bound s, free_node s, check_free_lists 255 s,
   rmap fst (s_try_add_node 255 true true s 9)).

Lemma demo_extend_limit :
  limit_obs two255 = (2, 2, 0, 2, 255, true, Ok (inr 2)) /\
  (let '(ok, s) := s_extend_with_edges 255 true true two255 [(255, 0, 7)] in (ok, limit_obs s)) =
    (false, (255, 2, 0, 2, 254, true, Ok (inr 254))) /\
  (let '(ok, s) := s_extend_with_edges 255 true true two255 [(4, 255, 7)] in
   (ok, limit_obs s, firstn 6 (map (fun n => (nwt n, nnext n)) (gnodes (sg s))))) =
    (false, (255, 3, 0, 5, 254, true, Ok (inr 254)),
     [(Some 1, (255, 255)); (Some 2, (255, 255)); (None, (255, 3)); (None, (2, 5));
      (Some 0, (255, 255)); (None, (3, 6))]).
Proof. vm_compute. repeat split; reflexivity. Qed.

(* the same two sequences through the stream interpreter (header = directed, debug, cap 255, checked):
   the result line and the counts line (node_count, edge_count, node_bound, edge_bound) of each step;
   the extend panics (tag 2), and the next add_node returns 254 *)
Lemma demo_extend_limit_stream :
  map (firstn 2) (run_case [1; 1; 255; 1]%Z
                    [(0, [1%Z]); (0, [2%Z]); (13, [255; 0; 7]%Z); (0, [9%Z])]) =
    [[(TAG_IDX, [0%Z]); (TAG_COUNTS, [1; 0; 1; 0]%Z)];
     [(TAG_IDX, [1%Z]); (TAG_COUNTS, [2; 0; 2; 0]%Z)];
     [(TAG_PANIC, []); (TAG_COUNTS, [2; 0; 2; 0]%Z)];
     [(TAG_IDX, [254%Z]); (TAG_COUNTS, [3; 0; 255; 0]%Z)]] /\
  map (firstn 2) (run_case [1; 1; 255; 1]%Z
                    [(0, [1%Z]); (0, [2%Z]); (13, [4; 255; 7]%Z); (0, [9%Z])]) =
    [[(TAG_IDX, [0%Z]); (TAG_COUNTS, [1; 0; 1; 0]%Z)];
     [(TAG_IDX, [1%Z]); (TAG_COUNTS, [2; 0; 2; 0]%Z)];
     [(TAG_PANIC, []); (TAG_COUNTS, [3; 0; 5; 0]%Z)];
     [(TAG_IDX, [254%Z]); (TAG_COUNTS, [4; 0; 255; 0]%Z)]].
Proof. vm_compute. split; reflexivity. Qed.

(* a history using every operation; the values returned along it *)
Definition demo_all_ops : list sop2 :=
  demo2_ops ++
  [PUpdateEdge 0 2 555; PUpdateEdge 2 0 556; PFindEdge 2 0; PFindEdgeUndirected 0 4;
   PExtend [(1, 6, 500)]; PSetNodeWeight 6 66; PSetNodeWeight 3 33; PSetEdgeWeight 1 5;
   PMap S; PReverse; PRetainEdges (fun w => negb (Nat.eqb w 104));
   PFilterMap (fun w => if Nat.eqb w 11 then None else Some w) (fun w => Some w);
   PRetainNodes (fun w => negb (Nat.eqb w 67)); PExtend [(0, 9, 1)]; PToFromGraph; PClearEdges; PClear].

Fixpoint souts2 (cap : nat) (capcheck debug directed : bool) (s : sgraph) (ops : list sop2)
  : list (option sout2) :=
  match ops with
  | [] => []
  | o :: rest =>
      match step2 cap capcheck debug directed s o with
      | Ok (r, s') => Some r :: souts2 cap capcheck debug directed s' rest
      | _ => [None]
      end
  end.

Lemma demo_all :
  (exists s, run2 8 true true true (sg_empty 8) demo_all_ops = Ok s /\ SInv 8 s) /\
  souts2 8 true true true demo2 (skipn 12 demo_all_ops) =
    map Some [QIdx (inr 0); QIdx (inr 1); QEdge (Some 1); QEdgeDir (Some (2, 1)); QBool true;
              QBool true; QBool false; QBool true; QUnit; QUnit; QUnit; QUnit; QUnit;
              QBool false; QUnit; QUnit; QUnit].
Proof.
  split.
  - apply history2_ok. discriminate.
  - vm_compute. reflexivity.
Qed.

(* the same history with unchecked indices (capcheck = false) and limit 50: the size hypothesis holds *)
Lemma demo_unchecked :
  fits 50 0 0 demo_all_ops /\
  exists s, run2 50 false true true (sg_empty 50) demo_all_ops = Ok s /\ SInv 50 s.
Proof.
  assert (F : fits 50 0 0 demo_all_ops).
  { unfold demo_all_ops, demo2_ops. simpl. repeat split; lia. }
  split; [exact F|]. apply history2_ok. intros _. exact F.
Qed.
